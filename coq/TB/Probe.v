(** C12 — which bytes the probes read: model of TranspositionTable::updateTB / clear / probeDTM
    / ordinary hash traffic (transpositionTable.cpp) as a state machine over

      gen     : the installed generator (tbGen): none, or a generator for material class c
      store   : what the ONE shared table region at the end of the hash table holds
                (every TBGenerator<TTStorage> is built on the same ttStorage member):
                garbage | complete c | partial c ph   (ph = phase in which generation stopped)
      prot    : the region is excluded from hashing (usedSize reduced)
      notUsed : retirement counter

    A probe goes through [gen] and reads [store].  It is SOUND only if the store holds the
    complete table of the generator's own class.

    Three variants of the failure branch of updateTB (generation aborted by its time limit or by
    "stop"):
      [Fixed]    the code as it stands: tbGen.reset(); setUsedSize(tableSize); notUsedCnt = 0
                 — after an aborted (re)build NOTHING is installed;
      [Current]  the code before commit b8efb91: the new, partly written generator stays installed;
      [KeepOld]  the new generator is built aside and installed only on success, the failure
                 branch touches nothing: the PREVIOUS generator stays installed although the new
                 generation has overwritten the shared region.
    The check decides by correspondence (harness "script" mode: return value and class of the
    installed generator after every operation) which variant the code in /repo is. *)
From Coq Require Import List Bool Arith.
Import ListNotations.

Inductive variant := Current | Fixed | KeepOld.

Section Model.
  Variable C : Type.                       (* material classes *)
  Variable ceq : C -> C -> bool.

  Inductive content := SGarbage | SComplete (c : C) | SPartial (c : C) (phase : nat).

  Inductive outcome := GenOk | GenAborted (phase : nat).     (* the abort point *)

  Record st := mkSt { gen : option C; store : content; prot : bool; notUsed : nat }.

  Inductive op :=
  | OUpdate (c : C) (pre_found enough : bool) (o : outcome)
      (* updateTB with a root position of class c (<= 4 men, no pawns).
         pre_found: answer of the initial tbGen->probeDTM(pos) (only consulted if a generator is
         installed); enough: time limit and hash size allow a generation; o: how generate() ends *)
  | OUnsuitable                            (* updateTB with > 4 men or pawns *)
  | OClear                                 (* TranspositionTable::clear() *)
  | OHash                                  (* ordinary hash traffic: inserts all over the used part *)
  | OProbe (c : C).                        (* probeDTM on positions of class c from the search:
                                              tbProbe, getSearchMoves, extendPV *)

  Definition installed (s : st) : bool := match gen s with Some _ => true | None => false end.

  (** the installed generator would answer from bytes that are not its own complete table *)
  Definition unsound (s : st) : bool :=
    match gen s with
    | None => false
    | Some cg => match store s with SComplete c => negb (ceq c cg) | _ => true end
    end.

  Definition answers (s : st) (c : C) : bool :=
    match gen s with Some cg => ceq cg c | None => false end.

  (** one operation: new state, return value, and whether it READ through an unsound generator *)
  Definition pstep (v : variant) (s : st) (o : op) : st * bool * bool :=
    match o with
    | OUnsuitable =>
        if installed s then
          if 3 <? notUsed s then (mkSt None (store s) false 0, false, false)
          else (mkSt (gen s) (store s) (prot s) (S (notUsed s)), true, false)
        else (s, false, false)
    | OUpdate c pre enough out =>
        let bad := unsound s in                (* `tbGen && tbGen->probeDTM(pos, 0, score)` *)
        if installed s && pre then (mkSt (gen s) (store s) (prot s) 0, true, bad)
        else if negb enough then (s, false, bad)
        else match out with
             | GenOk => (mkSt (Some c) (SComplete c) true 0, true, bad)
             | GenAborted ph =>
                 match v with
                 | Fixed => (mkSt None (SPartial c ph) false 0, false, bad)
                 | Current => (mkSt (Some c) (SPartial c ph) (prot s) (notUsed s), false, bad)
                 | KeepOld => (mkSt (gen s) (SPartial c ph) (prot s) (notUsed s), false, bad)
                 end
             end
    | OClear => (mkSt None SGarbage false 0, false, false)
    | OHash => (mkSt (gen s) (if prot s then store s else SGarbage) (prot s) (notUsed s), false, false)
    | OProbe c => (s, answers s c, unsound s)
    end.

  Definition pinit : st := mkSt None SGarbage false 0.

  (** observable trace: per operation (return value, installed generator afterwards, unsound read) *)
  Fixpoint prun (v : variant) (s : st) (ops : list op) : list (bool * option C * bool) :=
    match ops with
    | [] => []
    | o :: r => let '(s', ret, bad) := pstep v s o in (ret, gen s', bad) :: prun v s' r
    end.

  Definition reads_unsound (v : variant) (ops : list op) : bool :=
    existsb (fun t => snd t) (prun v pinit ops).

  (** the property: whatever the history (several classes, aborts at any point, hash traffic),
      a probe only ever answers from the complete table of the generator's own class *)
  Definition abort_state_safe (v : variant) : Prop := forall ops, reads_unsound v ops = false.

  Hypothesis ceq_refl : forall c, ceq c c = true.

  (** invariant of the code as it stands: an installed generator owns a complete, protected table *)
  Definition inv (s : st) : Prop :=
    match gen s with
    | None => True
    | Some cg => store s = SComplete cg /\ prot s = true
    end.

  Lemma inv_sound : forall s, inv s -> unsound s = false.
  Proof.
    intros s H. unfold inv, unsound in *. destruct (gen s) as [cg|]; [|reflexivity].
    destruct H as [H _]. rewrite H. rewrite ceq_refl. reflexivity.
  Qed.

  Lemma fixed_step : forall s o, inv s ->
    let '(s', _, bad) := pstep Fixed s o in inv s' /\ bad = false.
  Proof.
    intros s o H. pose proof (inv_sound s H) as Hs.
    destruct o as [c pre enough out| | | |c]; simpl.
    - destruct (installed s && pre).
      + split; [|exact Hs]. unfold inv in *. simpl. destruct (gen s); [exact H|exact I].
      + destruct (negb enough); [split; [exact H|exact Hs]|].
        destruct out; (split; [|exact Hs]); unfold inv; simpl; auto.
    - destruct (installed s); [|split; [exact H|reflexivity]].
      destruct (3 <? notUsed s); (split; [|reflexivity]); unfold inv in *; simpl; auto.
    - split; [exact I|reflexivity].
    - split; [|reflexivity]. unfold inv in *. simpl. destruct (gen s) as [cg|]; [|exact I].
      destruct H as [H1 H2]. rewrite H2. simpl. split; [exact H1|reflexivity].
    - split; [exact H|exact Hs].
  Qed.

  Lemma fixed_never_unsound : forall ops s, inv s ->
    existsb (fun t : bool * option C * bool => snd t) (prun Fixed s ops) = false.
  Proof.
    induction ops as [|o r IH]; intros s Hs; [reflexivity|].
    simpl. pose proof (fixed_step s o Hs) as H.
    destruct (pstep Fixed s o) as [[s' ret] bad]. destruct H as [H1 H2].
    simpl. rewrite H2. simpl. apply IH. exact H1.
  Qed.

  Theorem abort_state_fixed : abort_state_safe Fixed.
  Proof. intros ops. unfold reads_unsound. apply fixed_never_unsound. exact I. Qed.

  (** in particular: after an aborted (re)build nothing stays installed, whatever was installed before *)
  Lemma fixed_abort_installs_nothing : forall s c pre ph,
    (installed s && pre) = false ->
    gen (fst (fst (pstep Fixed s (OUpdate c pre true (GenAborted ph))))) = None.
  Proof. intros s c pre ph H. simpl. rewrite H. reflexivity. Qed.
End Model.

Arguments OUpdate {C} c pre_found enough o.
Arguments OUnsuitable {C}.
Arguments OClear {C}.
Arguments OHash {C}.
Arguments OProbe {C} c.

(** the history that broke the code before b8efb91: a generation is aborted, then the search
    probes (getSearchMoves is called right after updateTB returns) *)
Definition abort_witness : list (op nat) := [OUpdate 0 false true (GenAborted 1); OProbe 0].

Theorem abort_state_current_refuted :
  exists ops : list (op nat), reads_unsound nat Nat.eqb Current ops = true.
Proof. exists abort_witness. vm_compute. reflexivity. Qed.

(** the history that breaks the "install only on success, leave everything else alone" shape:
    a complete table for class 0 is installed, a rebuild for class 1 is aborted, class 0 is probed *)
Definition rebuild_witness : list (op nat) :=
  [OUpdate 0 false true GenOk; OUpdate 1 false true (GenAborted 2); OProbe 0].

Theorem abort_state_keepold_refuted :
  exists ops : list (op nat), reads_unsound nat Nat.eqb KeepOld ops = true.
Proof. exists rebuild_witness. vm_compute. reflexivity. Qed.

(** the same history is harmless in the code as it stands (non-vacuity of the fixed model:
    nothing installed after the abort, the next call rebuilds class 0 completely) *)
Example rebuild_fixed :
  prun nat Nat.eqb Fixed (pinit nat)
       [OUpdate 0 false true GenOk; OUpdate 1 false true (GenAborted 2); OProbe 0; OHash;
        OUpdate 0 false true GenOk; OProbe 0; OProbe 1] =
  [(true, Some 0, false); (false, None, false); (false, None, false); (false, None, false);
   (true, Some 0, false); (true, Some 0, false); (false, Some 0, false)].
Proof. vm_compute. reflexivity. Qed.

Example rebuild_keepold :
  prun nat Nat.eqb KeepOld (pinit nat)
       [OUpdate 0 false true GenOk; OUpdate 1 false true (GenAborted 2); OProbe 0;
        OUpdate 0 true true GenOk] =
  [(true, Some 0, false); (false, Some 0, false); (true, Some 0, true); (true, Some 0, true)].
Proof. vm_compute. reflexivity. Qed.

(** with one class only, KeepOld and Fixed are indistinguishable by (return value, installed
    generator): this is why single-class abort scripts cannot tell them apart *)
Example single_class_blind :
  prun nat Nat.eqb KeepOld (pinit nat) [OUpdate 0 false true (GenAborted 1); OProbe 0] =
  prun nat Nat.eqb Fixed (pinit nat) [OUpdate 0 false true (GenAborted 1); OProbe 0].
Proof. vm_compute. reflexivity. Qed.
