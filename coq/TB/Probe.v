(** C12 — which table object the probes read: model of TranspositionTable::updateTB / clear /
    probeDTM (transpositionTable.cpp:311-364) as a state machine over

        tbGen ∈ { none, complete c, partial c }        (c = material class of the generator)

    "partial c" = a TBGenerator whose generate() did not prun to completion: its table region
    holds a mixture of stale bytes, phase-1 classifications and finished layers.

    Two variants of the one line that differs:
      [Current]  the code as it stands: when generate() fails, updateTB returns false and
                 LEAVES the new generator installed in tbGen;
      [Fixed]    the generator is dropped (tbGen.reset(); setUsedSize(tableSize)) on failure.
    The check decides by correspondence (harness "script" mode: return values and whether a
    generator is installed after every operation) which variant the code in /repo is. *)
From Coq Require Import List Bool Arith.
Import ListNotations.

Inductive variant := Current | Fixed.

Section Model.
  Variable C : Type.                       (* material classes *)

  Inductive gen := GNone | GComplete (c : C) | GPartial (c : C).

  Record st := mkSt { g : gen; notUsed : nat }.

  Inductive op :=
  | OUpdate (c : C) (pre_found enough gen_ok : bool)
      (* updateTB with a root position of class c (<= 4 men, no pawns).
         pre_found: answer of the initial tbGen->probeDTM(pos) (only consulted if a generator is
         installed); enough: time limit and hash size allow a generation; gen_ok: generate()
         runs to completion (false = aborted by its time limit or by "stop") *)
  | OUnsuitable                            (* updateTB with > 4 men or pawns *)
  | OClear                                 (* TranspositionTable::clear() *)
  | OProbe.                                (* TranspositionTable::probeDTM from the search:
                                              tbProbe, getSearchMoves, extendPV *)

  Definition installed (x : gen) : bool := match x with GNone => false | _ => true end.
  Definition is_partial (x : gen) : bool := match x with GPartial _ => true | _ => false end.

  (** one operation: new state, return value, and whether it READ a partial table *)
  Definition pstep (v : variant) (s : st) (o : op) : st * bool * bool :=
    match o with
    | OUnsuitable =>
        if installed (g s) then
          if 3 <? notUsed s then (mkSt GNone 0, false, false)
          else (mkSt (g s) (S (notUsed s)), true, false)
        else (s, false, false)
    | OUpdate c pre enough ok =>
        let rp := is_partial (g s) in          (* `tbGen && tbGen->probeDTM(pos, 0, score)` *)
        if installed (g s) && pre then (mkSt (g s) 0, true, rp)
        else if negb enough then (s, false, rp)
        else if ok then (mkSt (GComplete c) 0, true, rp)
        else match v with
             | Current => (mkSt (GPartial c) (notUsed s), false, rp)
             | Fixed => (mkSt GNone 0, false, rp)
             end
    | OClear => (mkSt GNone 0, false, false)
    | OProbe => (s, installed (g s), is_partial (g s))
    end.

  Definition pinit : st := mkSt GNone 0.

  (** observable trace: per operation (return value, generator installed afterwards, partial read) *)
  Fixpoint prun (v : variant) (s : st) (ops : list op) : list (bool * bool * bool) :=
    match ops with
    | [] => []
    | o :: r => let '(s', ret, rp) := pstep v s o in (ret, installed (g s'), rp) :: prun v s' r
    end.

  Definition reads_partial (v : variant) (ops : list op) : bool :=
    existsb (fun t => snd t) (prun v pinit ops).

  (** the property: no probe ever reads a partial table, whatever the history *)
  Definition abort_state_safe (v : variant) : Prop := forall ops, reads_partial v ops = false.

  Lemma fixed_never_partial : forall ops s, is_partial (g s) = false ->
    existsb (fun t : bool * bool * bool => snd t) (prun Fixed s ops) = false.
  Proof.
    induction ops as [|o r IH]; intros s Hs; [reflexivity|].
    simpl. destruct (pstep Fixed s o) as [[s' ret] rp] eqn:E. simpl.
    assert (H : rp = false /\ is_partial (g s') = false).
    { destruct o as [c pre enough ok| | |]; simpl in E.
      - destruct (installed (g s) && pre); [inversion E; subst; simpl; auto|].
        destruct (negb enough); [inversion E; subst; auto|].
        destruct ok; inversion E; subst; simpl; auto.
      - destruct (installed (g s)); [|inversion E; subst; auto].
        destruct (3 <? notUsed s); inversion E; subst; simpl; auto.
      - inversion E; subst; simpl; auto.
      - inversion E; subst; auto. }
    destruct H as [H1 H2]. rewrite H1. simpl. apply IH. exact H2.
  Qed.

  Theorem abort_state_fixed : abort_state_safe Fixed.
  Proof. intros ops. unfold reads_partial. apply fixed_never_partial. reflexivity. Qed.
End Model.

Arguments OUpdate {C} c pre_found enough gen_ok.
Arguments OUnsuitable {C}.
Arguments OClear {C}.
Arguments OProbe {C}.

(** the history that breaks the code as it stands: a generation is aborted, then the search
    probes (getSearchMoves is called right after updateTB returns) *)
Definition abort_witness : list (op nat) := [OUpdate 0 false true false; OProbe].

Theorem abort_state_current_refuted : exists ops : list (op nat), reads_partial nat Current ops = true.
Proof. exists abort_witness. vm_compute. reflexivity. Qed.

(** ... and the next updateTB on the same material reads it too and, if the probe happens to
    hit, reports "tables available" without generating anything *)
Example abort_then_update :
  prun nat Current (pinit nat) [OUpdate 0 false true false; OUpdate 0 true true true] =
  [(false, true, false); (true, true, true)].
Proof. vm_compute. reflexivity. Qed.

(** non-vacuity of the fixed model: the same history installs nothing and the second call
    generates a complete table *)
Example abort_then_update_fixed :
  prun nat Fixed (pinit nat) [OUpdate 0 false true false; OProbe; OUpdate 0 true true true; OProbe] =
  [(false, false, false); (false, false, false); (true, true, false); (true, true, false)].
Proof. vm_compute. reflexivity. Qed.
