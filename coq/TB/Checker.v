(** C12 — the executable certificate checker for a dumped distance-to-mate table.

    The dump is a function [T] from (placement, side to move) to what the engine's probeDTM
    answered there.  A placement is one "digit" per man of the material class: the man's
    square 0..63, or 64 = this man is not on the board (captured).  So one dump covers the
    class and every sub-class reached by captures, all answered by the same generator object.

    [check_pos] evaluates, at one placement, the local conditions of [DtmCert.expected] with the
    children produced by the MiniChess rules and looked up in the same dump; [check_table] does
    so at every placement and both sides to move.  No proofs in this file. *)
From Coq Require Import List ZArith Bool Lia.
From Texel Require Import TB.DtmCert TB.MiniChess.
Import ListNotations.
Local Open Scope Z_scope.

(** what the engine said at a placement *)
Inductive tlabel :=
| TL (l : label)     (* found, with this value *)
| TNotFound          (* probeDTM returned false *)
| TUnrep             (* the placement is not a chess position (two men on one square, a king
                        missing): it cannot even be handed to probeDTM *)
| TBad.              (* found, but the score is not one probeDTM can legitimately produce *)

Definition tlabel_eqb (a b : tlabel) : bool :=
  match a, b with
  | TL x, TL y => label_eqb x y
  | TNotFound, TNotFound => true
  | TUnrep, TUnrep => true
  | _, _ => false          (* TBad equals nothing, not even itself *)
  end.

(** raw answer of the harness -> tlabel; the ONLY place where engine scores are decoded
    (found flag, score probed with ply = 0) *)
Definition tlabel_of_answer (representable found : bool) (score : Z) : tlabel :=
  if negb representable then TUnrep
  else if negb found then TNotFound
  else match label_of_score score with Some l => TL l | None => TBad end.

Definition table := list Z -> bool -> tlabel.

Definition digit_of (o : option Z) : Z := match o with Some s => s | None => 64 end.
Definition opt_of_digit (d : Z) : option Z := if d =? 64 then None else Some d.
Definition digits_of (p : pos) : list Z := map digit_of (sqs p).
Definition pos_of (ds : list Z) (w : bool) : pos := mkPos w (map opt_of_digit ds).

Definition digits65 : list Z := map Z.of_nat (seq 0 65).

(** [f] holds for every list of [k] digits (no list of lists is ever built) *)
Fixpoint forall_digits (k : nat) (f : list Z -> bool) : bool :=
  match k with
  | O => f []
  | S k' => forallb (fun d => forall_digits k' (fun r => f (d :: r))) digits65
  end.

Section Check.
  Variable cls : list man.
  Variable T : table.

  (** the labelling read off the dump (anything that is not a value reads as Draw; for legal
      positions the check demands a value, so the default is never relied on) *)
  Definition lab (p : pos) : label :=
    match T (digits_of p) (wtm p) with TL l => l | _ => Draw end.

  Definition check_pos (ds : list Z) (w : bool) : bool :=
    let p := pos_of ds w in
    if legalb cls p then
      let cs := moves cls p in             (* = expected (moves cls) (in_check cls) lab p; that the
                                              successors are legal positions again is a theorem
                                              (MiniChessFacts.moves_preserve_legal), not checked here *)
      tlabel_eqb (T ds w) (TL (expected_of (in_check cls p) (map lab cs)))
    else if wfb cls p then tlabel_eqb (T ds w) TNotFound
    else tlabel_eqb (T ds w) TUnrep.

  (** all placements that start with the digits [pre], both sides to move *)
  Definition check_prefix (pre : list Z) : bool :=
    forall_digits (length cls - length pre)
                  (fun r => check_pos (pre ++ r) true && check_pos (pre ++ r) false).

  Definition check_table : bool := check_prefix [].

  (** the same, split by the first digit (what the driver runs in parallel processes) *)
  Definition check_table_split : bool := forallb (fun d => check_prefix [d]) digits65.
End Check.
