(** C12 — soundness of the certificate checker: a table that passes [check_table] is exact
    for the MiniChess game of its material class (and every sub-class reached by captures). *)
From Coq Require Import List ZArith Bool Lia Arith.
From Texel Require Import TB.DtmCert TB.MiniChess TB.MiniChessFacts TB.Checker.
Import ListNotations.
Local Open Scope Z_scope.

Lemma tlabel_eqb_eq : forall a b, tlabel_eqb a b = true -> a = b.
Proof.
  intros [x| | |] [y| | |]; simpl; intro H; try discriminate; try reflexivity.
  apply label_eqb_eq in H. subst. reflexivity.
Qed.

Lemma in_digits65 : forall d, 0 <= d <= 64 -> In d digits65.
Proof.
  intros d H. unfold digits65. rewrite <- (Z2Nat.id d) by lia.
  apply in_map. apply in_seq. lia.
Qed.

Lemma forall_digits_spec : forall k f, forall_digits k f = true ->
  forall l, length l = k -> Forall (fun d => In d digits65) l -> f l = true.
Proof.
  induction k as [|k IH]; intros f H l Hl Hr.
  - destruct l; [exact H|discriminate].
  - destruct l as [|d r]; [discriminate|].
    cbn [forall_digits] in H. rewrite forallb_forall in H.
    inversion Hr; subst. injection Hl as Hl.
    exact (IH (fun r => f (d :: r)) (H d H2) r Hl H3).
Qed.

Lemma placed_on_board : forall (c : list man) (l : list (option Z)),
  length l = length c ->
  forallb (fun ms : man * Z => on_board (snd ms))
          (flat_map (fun mo : man * option Z => match snd mo with Some s => [(fst mo, s)] | None => [] end)
                    (combine c l)) = true ->
  Forall sq_ok l.
Proof.
  induction c as [|m c IH]; intros l Hl H.
  - destruct l; [constructor|discriminate].
  - destruct l as [|o l]; [discriminate|]. injection Hl as Hl.
    simpl in H. destruct o as [s|]; simpl in H.
    + apply andb_true_iff in H. destruct H as [H1 H2].
      constructor; [|apply IH; assumption].
      unfold on_board in H1. apply andb_true_iff in H1. destruct H1 as [A B].
      apply Z.leb_le in A. apply Z.ltb_lt in B. simpl. lia.
    + constructor; [exact I|apply IH; assumption].
Qed.

Lemma wfb_sqs : forall cls p, wfb cls p = true ->
  length (sqs p) = length cls /\ Forall sq_ok (sqs p).
Proof.
  intros cls p H. unfold wfb in H.
  apply andb_true_iff in H. destruct H as [H _].
  apply andb_true_iff in H. destruct H as [H _].
  apply andb_true_iff in H. destruct H as [H1 H2].
  apply Nat.eqb_eq in H1. split; [exact H1|].
  apply placed_on_board with cls; assumption.
Qed.

Lemma opt_digit_roundtrip : forall l, Forall sq_ok l -> map opt_of_digit (map digit_of l) = l.
Proof.
  induction 1 as [|o l Ho _ IH]; [reflexivity|].
  simpl. rewrite IH. f_equal.
  destruct o as [s|]; simpl in *; unfold opt_of_digit.
  - replace (s =? 64) with false by (symmetry; apply Z.eqb_neq; lia). reflexivity.
  - reflexivity.
Qed.

Lemma digits_in_range : forall l, Forall sq_ok l -> Forall (fun d => In d digits65) (map digit_of l).
Proof.
  induction 1 as [|o l Ho _ IH]; [constructor|].
  simpl. constructor; [|exact IH].
  apply in_digits65. destruct o as [s|]; simpl in *; lia.
Qed.

Section Sound.
  Variable cls : list man.
  Variable T : table.

  Lemma check_table_covers : check_table cls T = true ->
    forall p, wfb cls p = true -> check_pos cls T (digits_of p) (wtm p) = true.
  Proof.
    intros H p Hp. destruct (wfb_sqs cls p Hp) as [Hlen Hok].
    unfold check_table, check_prefix in H. simpl in H. rewrite Nat.sub_0_r in H.
    pose proof (forall_digits_spec _ _ H (digits_of p)) as A.
    assert (B : length (digits_of p) = length cls) by (unfold digits_of; rewrite map_length; exact Hlen).
    specialize (A B (digits_in_range _ Hok)). simpl in A.
    apply andb_true_iff in A. destruct A as [A1 A2].
    destruct (wtm p); assumption.
  Qed.

  Lemma pos_of_digits_of : forall p, Forall sq_ok (sqs p) -> pos_of (digits_of p) (wtm p) = p.
  Proof.
    intros [w l] H. unfold pos_of, digits_of. simpl in *. rewrite opt_digit_roundtrip by exact H.
    reflexivity.
  Qed.

  Definition legal (p : pos) : Prop := legalb cls p = true.

  Lemma legal_wf : forall p, legal p -> wfb cls p = true.
  Proof. intros p H. unfold legal, legalb in H. apply andb_true_iff in H. tauto. Qed.

  (** what a passing check says at one legal position: the dump holds a value there, it is the
      one the local conditions demand, and all successors are legal positions again *)
  Lemma check_legal : check_table cls T = true -> forall p, legal p ->
    T (digits_of p) (wtm p) = TL (expected (moves cls) (in_check cls) (lab T) p) /\
    forall c, In c (moves cls p) -> legal c.
  Proof.
    intros H p Hp. pose proof (legal_wf p Hp) as Hw.
    pose proof (check_table_covers H p Hw) as C.
    unfold check_pos in C. cbv zeta in C.
    rewrite (pos_of_digits_of p (proj2 (wfb_sqs cls p Hw))) in C.
    unfold legal in Hp. rewrite Hp in C.
    split; [apply tlabel_eqb_eq; exact C|].
    intros c Hc. exact (moves_preserve_legal cls p c Hp Hc).
  Qed.

  Lemma check_cert : check_table cls T = true -> forall p, legal p ->
    lab T p = expected (moves cls) (in_check cls) (lab T) p.
  Proof.
    intros H p Hp. destruct (check_legal H p Hp) as [E _].
    unfold lab at 1. rewrite E. reflexivity.
  Qed.

  (** THE soundness theorem of the checker *)
  Theorem check_table_sound : check_table cls T = true ->
    (forall p, legal p ->
       (forall n, T (digits_of p) (wtm p) = TL (Win n) <-> mate_in (moves cls) (in_check cls) n p) /\
       (forall n, T (digits_of p) (wtm p) = TL (Loss n) <-> mated_in (moves cls) (in_check cls) n p) /\
       (T (digits_of p) (wtm p) = TL Draw <-> drawn (moves cls) (in_check cls) p)) /\
    (forall p, wfb cls p = true -> ~ legal p -> T (digits_of p) (wtm p) = TNotFound).
  Proof.
    intros H. split.
    - intros p Hp.
      pose proof (dtm_certificate pos (moves cls) (in_check cls) legal (lab T)
                    (fun q c Hq Hc => proj2 (check_legal H q Hq) c Hc)
                    (check_cert H) p Hp) as [A [B C]].
      destruct (check_legal H p Hp) as [E _].
      assert (EL : T (digits_of p) (wtm p) = TL (lab T p)).
      { rewrite E. f_equal. symmetry. apply check_cert; assumption. }
      rewrite EL. split; [|split].
      + intros n. rewrite <- A. split; [intro X; injection X; auto|intro X; rewrite X; reflexivity].
      + intros n. rewrite <- B. split; [intro X; injection X; auto|intro X; rewrite X; reflexivity].
      + rewrite <- C. split; [intro X; injection X; auto|intro X; rewrite X; reflexivity].
    - intros p Hw Hn. pose proof (check_table_covers H p Hw) as C.
      unfold check_pos in C. cbv zeta in C.
      rewrite (pos_of_digits_of p (proj2 (wfb_sqs cls p Hw))) in C.
      unfold legal in Hn. destruct (legalb cls p); [exfalso; apply Hn; reflexivity|].
      rewrite Hw in C. apply tlabel_eqb_eq. exact C.
  Qed.

  (** the per-first-digit split run by the driver is the same check *)
  Lemma check_table_split_eq : cls <> [] -> check_table_split cls T = check_table cls T.
  Proof.
    intros Hne. unfold check_table, check_table_split, check_prefix.
    destruct cls as [|m r]; [congruence|]. simpl. rewrite Nat.sub_0_r. reflexivity.
  Qed.
End Sound.

(** ** Non-vacuity *)

(** (a) the rules do produce checkmates, stalemates and forced lines: white Kb6, Qb7 against
    Ka8... is illegal (black in check with white to move would be fine); take the classic
    Kb6/Qb7 vs Kb8: black to move is checkmated; and Kc7/Qb6 vs Ka8, black to move: stalemate *)
Definition KQK : list man := [(true, King); (true, Queen); (false, King)].
Definition sq (file rank : Z) : Z := 8 * (rank - 1) + (file - 1).

Definition mated_pos : pos := mkPos false [Some (sq 2 6); Some (sq 2 7); Some (sq 2 8)].  (* Kb6 Qb7 / Kb8 *)

Example kqk_checkmate :
  legalb KQK mated_pos = true /\ in_check KQK mated_pos = true /\ moves KQK mated_pos = [] /\
  mated_in (moves KQK) (in_check KQK) 0 mated_pos.
Proof.
  assert (A : moves KQK mated_pos = []) by (vm_compute; reflexivity).
  assert (B : in_check KQK mated_pos = true) by (vm_compute; reflexivity).
  assert (C : legalb KQK mated_pos = true) by (vm_compute; reflexivity).
  split; [exact C|]. split; [exact B|]. split; [exact A|].
  split; [apply loss_now; assumption|]. intros m Hm. lia.
Qed.

Example kqk_stalemate :
  let p := mkPos false [Some (sq 3 7); Some (sq 2 6); Some (sq 1 8)] in   (* Kc7 Qb6 / Ka8 *)
  legalb KQK p = true /\ in_check KQK p = false /\ moves KQK p = [].
Proof. cbv zeta. split; [|split]; vm_compute; reflexivity. Qed.

Example kqk_mate_in_1 :
  let p := mkPos true [Some (sq 2 6); Some (sq 7 7); Some (sq 2 8)] in    (* Kb6 Qg7 / Kb8: Qb7 mates *)
  legalb KQK p = true /\ mate_in (moves KQK) (in_check KQK) 1 p.
Proof.
  cbv zeta.
  assert (I : In mated_pos (moves KQK (mkPos true [Some (sq 2 6); Some (sq 7 7); Some (sq 2 8)]))).
  { vm_compute. tauto. }
  split; [vm_compute; reflexivity|]. split.
  - apply win_step with mated_pos; [exact I|]. exact (proj1 (proj2 (proj2 (proj2 kqk_checkmate)))).
  - intros m Hm Hw. assert (m = 0)%nat by lia. subst m. inversion Hw.
Qed.

(** (b) the hypothesis [check_table = true] is satisfiable: for the class "two bare kings" the
    table computed from the rules (every legal placement a draw) passes the whole check —
    65^2 * 2 placements evaluated inside Coq *)
Definition KK : list man := [(true, King); (false, King)].
Definition kk_table : table := fun ds w =>
  let p := pos_of ds w in
  if legalb KK p then TL Draw else if wfb KK p then TNotFound else TUnrep.

Example kk_table_passes : check_table KK kk_table = true.
Proof. vm_cast_no_check (eq_refl true). Qed.

Example kk_all_drawn : forall p, legal KK p -> drawn (moves KK) (in_check KK) p.
Proof.
  intros p Hp. destruct (check_table_sound KK kk_table kk_table_passes) as [A _].
  apply (proj2 (proj2 (A p Hp))).
  unfold kk_table. destruct (wfb_sqs KK p (legal_wf KK p Hp)) as [_ Hok].
  rewrite (pos_of_digits_of p Hok). unfold legal in Hp. rewrite Hp. reflexivity.
Qed.
