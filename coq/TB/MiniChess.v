(** C12 — SPECIFICATION side: the rules of chess for pawnless positions with a fixed small set
    of men (kings, queens, rooks, bishops, knights; no castling, no en passant, no promotion).
    Mailbox style, independent of the engine's algorithms and data structures: squares are
    numbers 0..63 (a1 = 0, b1 = 1, ..., h8 = 63: file = s mod 8, rank = s / 8), a position is
    the side to move plus one optional square per man of the material class ([None] = that man
    has been captured).  Moves are successor positions.

    Nothing here is shaped like tbgen.cpp: no bitboards, no index arithmetic, no symmetry, no
    un-moves. *)
From Coq Require Import List ZArith Bool Lia.
Import ListNotations.
Local Open Scope Z_scope.

Inductive kind := King | Queen | Rook | Bishop | Knight.
Definition man := (bool * kind)%type.          (* (colour, kind); colour true = white *)

Definition kind_eqb (a b : kind) : bool :=
  match a, b with
  | King, King | Queen, Queen | Rook, Rook | Bishop, Bishop | Knight, Knight => true
  | _, _ => false
  end.
Definition is_king (k : kind) : bool := kind_eqb k King.

Record pos := mkPos { wtm : bool; sqs : list (option Z) }.

(** ** Board geometry *)

(** the square (dx,dy) away from s, if it is on the board *)
Definition step (s dx dy : Z) : option Z :=
  let x := s mod 8 + dx in
  let y := s / 8 + dy in
  if (0 <=? x) && (x <? 8) && (0 <=? y) && (y <? 8) then Some (8 * y + x) else None.

Definition king_deltas : list (Z * Z) :=
  [(-1,-1); (0,-1); (1,-1); (-1,0); (1,0); (-1,1); (0,1); (1,1)].
Definition knight_deltas : list (Z * Z) :=
  [(-2,-1); (-1,-2); (1,-2); (2,-1); (-2,1); (-1,2); (1,2); (2,1)].
Definition rook_dirs : list (Z * Z) := [(0,-1); (-1,0); (1,0); (0,1)].
Definition bishop_dirs : list (Z * Z) := [(-1,-1); (1,-1); (-1,1); (1,1)].

Definition opt_list {A} (o : option A) : list A := match o with Some a => [a] | None => [] end.

Definition steps (s : Z) (ds : list (Z * Z)) : list Z :=
  flat_map (fun d => opt_list (step s (fst d) (snd d))) ds.

(** the squares in direction (dx,dy) from s, nearest first, up to the edge of the board *)
Definition line (s dx dy : Z) : list Z :=
  flat_map (fun k => opt_list (step s (k * dx) (k * dy))) [1; 2; 3; 4; 5; 6; 7].

(** ... cut after the first occupied square (which is included: it may be captured/attacked) *)
Fixpoint upto_blocker (occ : Z -> bool) (l : list Z) : list Z :=
  match l with
  | [] => []
  | t :: r => if occ t then [t] else t :: upto_blocker occ r
  end.

Definition slides (occ : Z -> bool) (s : Z) (dirs : list (Z * Z)) : list Z :=
  flat_map (fun d => upto_blocker occ (line s (fst d) (snd d))) dirs.

(** squares a man of kind [k] standing on [s] attacks (= may move to, if not held by an own
    man), given which squares are occupied *)
Definition reach (occ : Z -> bool) (k : kind) (s : Z) : list Z :=
  match k with
  | King => steps s king_deltas
  | Knight => steps s knight_deltas
  | Rook => slides occ s rook_dirs
  | Bishop => slides occ s bishop_dirs
  | Queen => slides occ s (rook_dirs ++ bishop_dirs)
  end.

(** ** Positions of a material class *)
Section Class.
  Variable cls : list man.

  (** the men on the board with their squares *)
  Definition placed (p : pos) : list (man * Z) :=
    flat_map (fun mo => match snd mo with Some s => [(fst mo, s)] | None => [] end)
             (combine cls (sqs p)).

  Definition occupied (pl : list (man * Z)) (s : Z) : bool :=
    existsb (fun ms => snd ms =? s) pl.

  Definition man_at (pl : list (man * Z)) (s : Z) : option man :=
    match find (fun ms => snd ms =? s) pl with Some ms => Some (fst ms) | None => None end.

  (** is square [t] attacked by a man of colour [by_white] *)
  Definition attacked (pl : list (man * Z)) (by_white : bool) (t : Z) : bool :=
    existsb (fun ms => Bool.eqb (fst (fst ms)) by_white &&
                       existsb (Z.eqb t) (reach (occupied pl) (snd (fst ms)) (snd ms))) pl.

  (** is the king of colour [white] attacked *)
  Definition in_check_side (pl : list (man * Z)) (white : bool) : bool :=
    existsb (fun ms => Bool.eqb (fst (fst ms)) white && is_king (snd (fst ms)) &&
                       attacked pl (negb white) (snd ms)) pl.

  Definition in_check (p : pos) : bool := in_check_side (placed p) (wtm p).

  (** man number [i] goes to [t]; whatever stood on [t] is captured; the other side is to move *)
  Definition apply_move (p : pos) (i : nat) (t : Z) : pos :=
    mkPos (negb (wtm p))
          (map (fun jo => if Nat.eqb (fst jo) i then Some t
                          else match snd jo with
                               | Some s => if s =? t then None else Some s
                               | None => None
                               end)
               (combine (seq 0 (length (sqs p))) (sqs p))).

  (** a move is legal if it does not leave the mover's own king attacked *)
  Definition try_move (p : pos) (i : nat) (t : Z) : list pos :=
    let p' := apply_move p i t in
    if in_check_side (placed p') (wtm p) then [] else [p'].

  (** the legal moves, as successor positions: every man of the side to move may go to any
      square it reaches that is not held by an own man; a king is never captured *)
  Definition moves (p : pos) : list pos :=
    let pl := placed p in
    flat_map (fun imo =>
      let i := fst imo in let c := fst (fst (snd imo)) in let k := snd (fst (snd imo)) in
      match snd (snd imo) with
      | Some s =>
          if Bool.eqb c (wtm p) then
            flat_map (fun t =>
              match man_at pl t with
              | Some (c', k') => if Bool.eqb c' c then [] else if is_king k' then [] else try_move p i t
              | None => try_move p i t
              end) (reach (occupied pl) k s)
          else []
      | None => []
      end)
      (combine (seq 0 (length cls)) (combine cls (sqs p))).

  (** ** Well-formed and legal positions *)
  Definition on_board (s : Z) : bool := (0 <=? s) && (s <? 64).

  Fixpoint distinct (l : list Z) : bool :=
    match l with
    | [] => true
    | a :: r => negb (existsb (Z.eqb a) r) && distinct r
    end.

  (** one optional square per man, all on the board, no two men on one square, both kings
      (every king of the class) on the board *)
  Definition wfb (p : pos) : bool :=
    Nat.eqb (length (sqs p)) (length cls) &&
    forallb (fun ms => on_board (snd ms)) (placed p) &&
    distinct (map snd (placed p)) &&
    forallb (fun mo => negb (is_king (snd (fst mo))) || match snd mo with Some _ => true | None => false end)
            (combine cls (sqs p)).

  (** legal = well-formed and the side NOT to move is not in check (its king cannot be taken;
      this includes "the kings are not adjacent") *)
  Definition legalb (p : pos) : bool :=
    wfb p && negb (in_check_side (placed p) (negb (wtm p))).
End Class.
