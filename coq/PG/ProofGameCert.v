(** C16 — certified proof-game checker (specification side only: Chess/Spec.v, the mailbox FIDE
    rules; nothing of the engine's move generator or of the proof-game search is used here).

    [check_proofgame moves goal] replays [moves] from the initial position with the executable
    legality test of the specification and compares the position reached with [goal] the way
    the tool compares positions (ProofGame::isSolution = Position::drawRuleEquals: board, side
    to move, castling rights, en-passant square), the en-passant square being subject to
    TextIO::fixupEPSquare (it only counts when an en-passant capture is a legal move), because
    every goal FEN the tool accepts is in that canonical form ("Lossy FEN conversion" otherwise). *)
From Coq Require Import ZArith NArith List Bool.
From Texel Require Import Chess.Types Chess.Spec.
Import ListNotations.
Local Open Scope Z_scope.

(** * Executable side *)

(** replay a move list; [None] as soon as a move is not legal *)
Fixpoint play (sp : spos) (ms : list move) : option spos :=
  match ms with
  | [] => Some sp
  | m :: t => if legal_specb sp m then play (make_spec sp m) t else None
  end.

(** index of the first illegal move (diagnostics for the driver only) *)
Fixpoint first_illegal (sp : spos) (ms : list move) (i : N) : option N :=
  match ms with
  | [] => None
  | m :: t => if legal_specb sp m then first_illegal (make_spec sp m) t (i + 1)%N else Some i
  end.

(** the move is an en-passant capture candidate: a pawn of the side to move goes to the
    en-passant square (the test of TextIO::fixupEPSquare) *)
Definition takes_ep (sp : spos) (m : move) : bool :=
  (Z.of_N (mto m) =? sp_ep sp)
  && is_piece (sp_white sp) Pawn (at_ (sp_board sp) (file_of (mfrom m)) (rank_of (mfrom m))).

Definition ep_capture_exists (sp : spos) : bool := existsb (takes_ep sp) (legal_moves_spec sp).

Definition set_ep (sp : spos) (e : Z) : spos := mkSpos (sp_board sp) (sp_white sp) (sp_castle sp) e.

Definition fixup_ep (sp : spos) : spos :=
  if sp_ep sp =? -1 then sp else if ep_capture_exists sp then sp else set_ep sp (-1).

Fixpoint board_eqb (a b : board) : bool :=
  match a, b with
  | [], [] => true
  | x :: a', y :: b' => N.eqb x y && board_eqb a' b'
  | _, _ => false
  end.

Definition spos_eqb (a b : spos) : bool :=
  board_eqb (sp_board a) (sp_board b) && Bool.eqb (sp_white a) (sp_white b)
  && N.eqb (sp_castle a) (sp_castle b) && (sp_ep a =? sp_ep b).

Definition check_proofgame (moves : list move) (goal : spos) : bool :=
  match play start_spos moves with
  | Some final => spos_eqb (fixup_ep final) goal
  | None => false
  end.

(** * Specification side *)

(** [plays sp ms sp']: [ms] is a sequence of legal moves (FIDE rules of Spec.v) leading from [sp] to [sp'] *)
Inductive plays : spos -> list move -> spos -> Prop :=
| plays_nil : forall sp, plays sp [] sp
| plays_cons : forall sp m t sp', legal_spec sp m -> plays (make_spec sp m) t sp' -> plays sp (m :: t) sp'.

(** the en-passant right recorded in [sp] can be exercised: some legal move is a pawn capture
    onto the en-passant square *)
Definition ep_exercisable (sp : spos) : Prop :=
  sp_ep sp <> -1 /\ exists m, legal_spec sp m /\ takes_ep sp m = true.

(** [final] is "exactly" the requested position: same board, side to move and castling rights;
    the en-passant square of the request is the one of [final] when it can be exercised and
    none otherwise *)
Definition reaches_exactly (final goal : spos) : Prop :=
  sp_board final = sp_board goal /\ sp_white final = sp_white goal /\ sp_castle final = sp_castle goal /\
  (ep_exercisable final -> sp_ep goal = sp_ep final) /\
  (~ ep_exercisable final -> sp_ep goal = -1).

Definition is_proof_game (moves : list move) (goal : spos) : Prop :=
  exists final, plays start_spos moves final /\ reaches_exactly final goal.

(** * Proofs *)
Lemma play_plays : forall ms sp sp', play sp ms = Some sp' <-> plays sp ms sp'.
Proof.
  induction ms as [|m t IH]; intros sp sp'; simpl.
  - split.
    + intros H; inversion H; constructor.
    + intros H; inversion H; reflexivity.
  - destruct (legal_specb sp m) eqn:E.
    + rewrite IH. split.
      * intros H. constructor; auto. apply legal_specb_spec; exact E.
      * intros H. inversion H; subst; assumption.
    + split; [discriminate|].
      intros H. inversion H; subst.
      match goal with L : legal_spec _ _ |- _ => apply legal_specb_spec in L; congruence end.
Qed.

Lemma plays_functional : forall ms sp a b, plays sp ms a -> plays sp ms b -> a = b.
Proof.
  intros ms sp a b Ha Hb. apply play_plays in Ha. apply play_plays in Hb. congruence.
Qed.

Lemma board_eqb_eq : forall a b, board_eqb a b = true <-> a = b.
Proof.
  induction a as [|x a IH]; destruct b as [|y b]; simpl; split; intros H; try reflexivity; try discriminate.
  - apply andb_true_iff in H. destruct H as [H1 H2]. apply N.eqb_eq in H1. apply IH in H2. congruence.
  - inversion H; subst. rewrite N.eqb_refl. simpl. apply IH. reflexivity.
Qed.

Lemma spos_eqb_eq : forall a b, spos_eqb a b = true <-> a = b.
Proof.
  intros [b1 w1 c1 e1] [b2 w2 c2 e2]. unfold spos_eqb; simpl.
  rewrite !andb_true_iff, board_eqb_eq, Bool.eqb_true_iff, N.eqb_eq, Z.eqb_eq.
  split.
  - intros [[[-> ->] ->] ->]. reflexivity.
  - intros H; inversion H; auto.
Qed.

Lemma ep_capture_exists_spec : forall sp,
  ep_capture_exists sp = true <-> exists m, legal_spec sp m /\ takes_ep sp m = true.
Proof.
  intros sp. unfold ep_capture_exists. rewrite existsb_exists. split.
  - intros [m [Hin Ht]]. exists m. split; auto. apply legal_moves_spec_In; exact Hin.
  - intros [m [Hl Ht]]. exists m. split; auto. apply legal_moves_spec_In; exact Hl.
Qed.

Lemma fixup_ep_exercisable : forall sp, ep_exercisable sp -> fixup_ep sp = sp.
Proof.
  intros sp [Hne Hex]. unfold fixup_ep.
  destruct (sp_ep sp =? -1) eqn:E; [reflexivity|].
  apply ep_capture_exists_spec in Hex. rewrite Hex. reflexivity.
Qed.

Lemma fixup_ep_not_exercisable : forall sp, ~ ep_exercisable sp -> fixup_ep sp = set_ep sp (-1).
Proof.
  intros sp Hn. unfold fixup_ep.
  destruct (sp_ep sp =? -1) eqn:E.
  - apply Z.eqb_eq in E. destruct sp as [b w c e]; simpl in *. subst e. reflexivity.
  - destruct (ep_capture_exists sp) eqn:E2; [|reflexivity].
    exfalso. apply Hn. split.
    + apply Z.eqb_neq in E. exact E.
    + apply ep_capture_exists_spec. exact E2.
Qed.

Lemma ep_exercisable_dec : forall sp, ep_exercisable sp \/ ~ ep_exercisable sp.
Proof.
  intros sp. unfold ep_exercisable.
  destruct (Z.eq_dec (sp_ep sp) (-1)) as [E|E].
  - right. intros [H _]. contradiction.
  - destruct (ep_capture_exists sp) eqn:E2.
    + left. split; auto. apply ep_capture_exists_spec; exact E2.
    + right. intros [_ H]. apply ep_capture_exists_spec in H. congruence.
Qed.

Lemma fixup_reaches : forall final goal, fixup_ep final = goal <-> reaches_exactly final goal.
Proof.
  intros final goal. unfold reaches_exactly. split.
  - intros <-. destruct (ep_exercisable_dec final) as [H|H].
    + rewrite (fixup_ep_exercisable _ H). repeat split; auto. intros Hn; contradiction.
    + rewrite (fixup_ep_not_exercisable _ H). simpl. repeat split; auto. intros Hy; contradiction.
  - intros (Hb & Hw & Hc & Hy & Hn).
    destruct (ep_exercisable_dec final) as [H|H].
    + rewrite (fixup_ep_exercisable _ H). specialize (Hy H).
      destruct final, goal; simpl in *; congruence.
    + rewrite (fixup_ep_not_exercisable _ H). specialize (Hn H).
      destruct final, goal; unfold set_ep; simpl in *; congruence.
Qed.

Theorem check_proofgame_correct : forall moves goal,
  check_proofgame moves goal = true <-> is_proof_game moves goal.
Proof.
  intros moves goal. unfold check_proofgame, is_proof_game. split.
  - destruct (play start_spos moves) as [final|] eqn:E; [|discriminate].
    intros H. exists final. split.
    + apply play_plays; exact E.
    + apply fixup_reaches. apply spos_eqb_eq. exact H.
  - intros [final [Hp Hr]]. apply play_plays in Hp. rewrite Hp.
    apply spos_eqb_eq. apply fixup_reaches. exact Hr.
Qed.

(** a rejected list has a definite first illegal move or ends elsewhere *)
Lemma first_illegal_none : forall ms sp i, first_illegal sp ms i = None <-> exists sp', play sp ms = Some sp'.
Proof.
  induction ms as [|m t IH]; intros sp i; simpl.
  - split; [intros _; eexists; reflexivity | reflexivity].
  - destruct (legal_specb sp m).
    + apply IH.
    + split; [discriminate | intros [x H]; discriminate].
Qed.

(** * Examples (non-vacuity) *)
Definition sq (f r : Z) : square := sq_of f r.
Definition mvq (f r f' r' : Z) : move := mv f r f' r' EMPTY.

(** 1. e4 e5 2. Nf3 Nc6: accepted for the position it reaches ... *)
Definition ex_moves : list move := [mvq 4 1 4 3; mvq 4 6 4 4; mvq 6 0 5 2; mvq 1 7 2 5].

Definition ex_goal : spos :=
  match play start_spos ex_moves with Some sp => fixup_ep sp | None => start_spos end.

Example ex_accept : check_proofgame ex_moves ex_goal = true.
Proof. vm_compute. reflexivity. Qed.

Example ex_is_proof_game : is_proof_game ex_moves ex_goal.
Proof. apply check_proofgame_correct. exact ex_accept. Qed.

(** ... rejected for the initial position, and a list with an illegal move is rejected *)
Example ex_reject_other_goal : check_proofgame ex_moves start_spos = false.
Proof. vm_compute. reflexivity. Qed.

Example ex_reject_illegal : check_proofgame [mvq 4 1 4 4] ex_goal = false.
Proof. vm_compute. reflexivity. Qed.

(** after 1. e4 a6 2. e5 d5 the en-passant square is d6 (43) and exercisable: kept by the fix-up *)
Definition ex_ep_moves : list move := [mvq 4 1 4 3; mvq 0 6 0 5; mvq 4 3 4 4; mvq 3 6 3 4].

Example ex_ep_kept :
  match play start_spos ex_ep_moves with
  | Some sp => (sp_ep sp =? 43) && (sp_ep (fixup_ep sp) =? 43)
  | None => false
  end = true.
Proof. vm_compute. reflexivity. Qed.

(** a double push beside an enemy pawn that is pinned on the e-file (white Ke1, Pe5; black Ka8,
    Re8, Pd7; black plays d7-d5): the raw en-passant square d6 is set by the move, but exd6 would
    expose the white king, so the fix-up drops it - the checker compares after the fix-up. *)
Definition pin_board : board :=
  upd (idx 4 0) WKING (upd (idx 4 4) WPAWN (upd (idx 0 7) BKING (upd (idx 4 7) BROOK (upd (idx 3 6) BPAWN
  (repeat EMPTY 64))))).

Example ex_ep_dropped :
  let sp := mkSpos pin_board false 0%N (-1) in
  let sp' := make_spec sp (mvq 3 6 3 4) in
  legal_specb sp (mvq 3 6 3 4) && (sp_ep sp' =? 43) && (sp_ep (fixup_ep sp') =? -1) = true.
Proof. vm_compute. reflexivity. Qed.
