(** C16 — the proof-kernel abstraction, partial simulation result: quiet moves of pieces other
    than pawns (castling included) leave the kernel state unchanged, and captures made by pieces
    other than pawns are kernel moves "piece takes piece" / "piece takes pawn".
    Specification side only (Chess/Spec.v). *)
From Coq Require Import ZArith NArith List Bool Lia.
From Texel Require Import Chess.Types Chess.Spec PG.ProofGameCert PG.PieceCount PG.PieceCountProofs
  PG.PieceCountTheorems PG.Kernel.
Import ListNotations.
Local Open Scope Z_scope.

Definition ind (c : bool) : Z := if c then 1 else 0.

(** * Indexed counting *)
Lemma cnti_upd : forall g l i n x, (n < length l)%nat ->
  cnti g i (upd n x l) = cnti g i l - ind (g (i + n)%nat (nth n l EMPTY)) + ind (g (i + n)%nat x).
Proof.
  intros g l; induction l as [|h t IH]; intros i n x Hn; simpl in Hn; [lia|].
  destruct n as [|k]; simpl.
  - rewrite Nat.add_0_r. unfold ind. lia.
  - rewrite IH by lia. replace (S i + k)%nat with (i + S k)%nat by lia. lia.
Qed.

Ltac Zify.zify_post_hook ::= Z.div_mod_to_equations.
Lemma dark_idx_idx : forall f r, on_board f r = true -> dark_idx (idx f r) = dark_square f r.
Proof.
  intros f r H. apply on_board_bounds in H. unfold dark_idx, idx.
  rewrite Z2Nat.id by lia.
  replace ((r * 8 + f) mod 8) with f by lia. replace ((r * 8 + f) / 8) with r by lia. reflexivity.
Qed.
Ltac Zify.zify_post_hook ::= idtac.

Lemma count_on_put : forall b f r x pc sel, length b = 64%nat -> on_board f r = true ->
  count_on (put b f r x) pc sel =
  count_on b pc sel - ind (sel (dark_square f r) && N.eqb (at_ b f r) pc) + ind (sel (dark_square f r) && N.eqb x pc).
Proof.
  intros b f r x pc sel HL H. unfold count_on, put, at_. rewrite H.
  rewrite cnti_upd by (rewrite HL; apply idx_lt; exact H).
  simpl plus. rewrite (dark_idx_idx _ _ H). reflexivity.
Qed.

(** * Geometry: a bishop stays on its square colour *)
Lemma ray_moves_geom : forall b w fuel f0 r0 f r df dr m, In m (ray_moves b w fuel f0 r0 f r df dr) ->
  exists k, 1 <= k /\ m = mv f0 r0 (f + k * df) (r + k * dr) EMPTY /\ on_board (f + k * df) (r + k * dr) = true.
Proof.
  intros b w fuel; induction fuel as [|n IH]; intros f0 r0 f r df dr m H; simpl in H; [contradiction|].
  destruct (on_board (f + df) (r + dr)) eqn:E; [|contradiction].
  assert (one : exists k, 1 <= k /\ mv f0 r0 (f + df) (r + dr) EMPTY = mv f0 r0 (f + k * df) (r + k * dr) EMPTY /\
                on_board (f + k * df) (r + k * dr) = true).
  { exists 1. rewrite !Z.mul_1_l. auto with zarith. }
  destruct (N.eqb (at_ b (f + df) (r + dr)) EMPTY).
  - destruct H as [<-|H]; [exact one|].
    apply IH in H. destruct H as (k & Hk & -> & Ho). exists (k + 1).
    replace (f + (k + 1) * df) with (f + df + k * df) by ring.
    replace (r + (k + 1) * dr) with (r + dr + k * dr) by ring.
    split; [lia|]. split; [reflexivity|exact Ho].
  - destruct (has_color (negb w) (at_ b (f + df) (r + dr))); [|contradiction].
    destruct H as [<-|[]]. exact one.
Qed.

Lemma bishop_dir_even : forall d, In d bishop_dirs -> exists j, fst d + snd d = 2 * j.
Proof.
  intros d H. unfold bishop_dirs in H. simpl in H.
  destruct H as [<-|[<-|[<-|[<-|[]]]]]; simpl; [exists 1|exists (-1)|exists 0|exists 0]; reflexivity.
Qed.

Lemma bishop_slide_colour : forall b w f r m, In m (slider_moves b w f r bishop_dirs) ->
  exists f' r', m = mv f r f' r' EMPTY /\ on_board f' r' = true /\ dark_square f' r' = dark_square f r.
Proof.
  intros b w f r m H. unfold slider_moves in H. apply in_flat_map in H.
  destruct H as [d [Hd H]]. apply ray_moves_geom in H. destruct H as (k & Hk & -> & Ho).
  exists (f + k * fst d), (r + k * snd d). split; [reflexivity|]. split; [exact Ho|].
  destruct (bishop_dir_even d Hd) as [j Hj]. unfold dark_square.
  assert (E : k * fst d + k * snd d = 2 * (k * j)) by (rewrite <- Z.mul_add_distr_l, Hj; ring).
  replace (f + k * fst d + (r + k * snd d)) with (f + r + 2 * (k * j)) by lia.
  apply Z.even_add_mul_2.
Qed.

Theorem bishop_keeps_colour : forall sp m, In m (pseudo_moves sp) ->
  moved sp m = mk_piece (sp_white sp) Bishop ->
  dark_square (file_of (mto m)) (rank_of (mto m)) = dark_square (file_of (mfrom m)) (rank_of (mfrom m)).
Proof.
  intros sp m H Hb. unfold moved in Hb. unfold pseudo_moves in H. apply in_app_or in H. destruct H as [H|H].
  - apply in_flat_map in H. destruct H as [[f r] [Hc H]]. simpl in H.
    apply all_coords_on in Hc. simpl in Hc.
    pose proof (piece_moves_ok sp f r m Hc H) as (f' & r' & pr & Hm & Ho & _ & _).
    assert (Hff : file_of (mfrom m) = f) by (rewrite Hm; unfold mv; simpl; apply file_sq_of; exact Hc).
    assert (Hfr : rank_of (mfrom m) = r) by (rewrite Hm; unfold mv; simpl; apply rank_sq_of; exact Hc).
    rewrite Hff, Hfr in Hb |- *.
    unfold piece_moves in H. rewrite Hb in H. rewrite has_color_mk, kind_of_mk in H.
    apply bishop_slide_colour in H. destruct H as (f2 & r2 & Hm2 & Ho2 & Hcol).
    rewrite Hm2. unfold mv; simpl. rewrite (file_sq_of _ _ Ho2), (rank_sq_of _ _ Ho2). exact Hcol.
  - (* castling moves a king *)
    pose proof (castle_moves_shape sp m H) as S.
    exfalso. unfold castle_moves in H.
    destruct (is_piece (sp_white sp) King (at_ (sp_board sp) 4 (if sp_white sp then 0 else 7)) &&
              negb (attacked_by (sp_board sp) (negb (sp_white sp)) 4 (if sp_white sp then 0 else 7))) eqn:E; [|contradiction].
    apply andb_true_iff in E. destruct E as [EK _]. apply is_piece_eq in EK.
    assert (Hr : on_board 4 (if sp_white sp then 0 else 7) = true) by (destruct (sp_white sp); reflexivity).
    assert (Hfrom : file_of (mfrom m) = 4 /\ rank_of (mfrom m) = (if sp_white sp then 0 else 7)).
    { apply in_app_or in H. destruct H as [H|H];
        match type of H with In _ (if ?c then _ else _) => destruct c end; try contradiction;
        destruct H as [<-|[]]; unfold mv; simpl; rewrite (file_sq_of _ _ Hr), (rank_sq_of _ _ Hr); auto. }
    destruct Hfrom as [H4 H0]. rewrite H4, H0, EK in Hb. apply mk_piece_inj_kind in Hb. discriminate.
Qed.

(** * Effect of a single [put] on the kernel state *)
Definition notpawn (x : piece) : Prop := is_piece true Pawn x = false /\ is_piece false Pawn x = false.

Lemma notpawn_empty : notpawn EMPTY.
Proof. split; reflexivity. Qed.

Lemma notpawn_mk : forall w k, k <> Pawn -> notpawn (mk_piece w k).
Proof. intros [] [] H; try (exfalso; apply H; reflexivity); split; reflexivity. Qed.

Lemma pawn_color_notpawn : forall b f r, notpawn (at_ b f r) -> pawn_color b f r = None.
Proof. intros b f r [H1 H2]. unfold pawn_color. rewrite H1, H2. reflexivity. Qed.

Lemma in_ranks : forall r, In r ranks -> 0 <= r <= 7.
Proof. intros r H. unfold ranks in H. simpl in H. intuition lia. Qed.

Lemma flat_map_ext_in : forall (A B : Type) (f g : A -> list B) l,
  (forall a, In a l -> f a = g a) -> flat_map f l = flat_map g l.
Proof.
  intros A B f g l; induction l as [|h t IH]; intros H; simpl; [reflexivity|].
  rewrite (H h) by (left; reflexivity). rewrite IH; [reflexivity|]. intros a Ha. apply H. right; exact Ha.
Qed.

(** replacing a non-pawn by a non-pawn changes no pawn column *)
Lemma column_put_notpawn : forall b f r x f0, length b = 64%nat -> on_board f r = true ->
  notpawn (at_ b f r) -> notpawn x -> In f0 files -> column (put b f r x) f0 = column b f0.
Proof.
  intros b f r x f0 HL Ho Hold Hx Hf0. unfold column. apply flat_map_ext_in. intros r0 Hr0.
  assert (Ho0 : on_board f0 r0 = true).
  { apply on_board_bounds. apply in_ranks in Hr0. apply in_ranks in Hf0. lia. }
  destruct (Z.eq_dec f f0) as [->|Nf]; [destruct (Z.eq_dec r r0) as [->|Nr]|].
  - rewrite !pawn_color_notpawn; auto. rewrite at_put_same; auto.
  - unfold pawn_color. rewrite at_put_other; auto. intro X; inversion X; contradiction.
  - unfold pawn_color. rewrite at_put_other; auto. intro X; inversion X; contradiction.
Qed.

Lemma columns_put_notpawn : forall b f r x, length b = 64%nat -> on_board f r = true ->
  notpawn (at_ b f r) -> notpawn x -> map (column (put b f r x)) files = map (column b) files.
Proof. intros. apply map_ext_in. intros f0 Hf0. apply column_put_notpawn; auto. Qed.

(** * Quiet moves of pieces other than pawns (castling excluded here) *)
Lemma make_board_piece_move : forall sp m k,
  shape sp m -> moved sp m = mk_piece (sp_white sp) k -> k <> Pawn ->
  ~ (k = King /\ (file_of (mto m) - file_of (mfrom m) = 2 \/ file_of (mto m) - file_of (mfrom m) = -2)) ->
  make_board sp m =
  put (put (sp_board sp) (file_of (mfrom m)) (rank_of (mfrom m)) EMPTY)
      (file_of (mto m)) (rank_of (mto m)) (mk_piece (sp_white sp) k).
Proof.
  intros sp m k [_ _ _ Hpr _ _] Hm Hk Hc. unfold moved in Hm. unfold make_board. rewrite Hm.
  assert (Hnp : is_piece (sp_white sp) Pawn (mk_piece (sp_white sp) k) = false) by (apply is_piece_false; congruence).
  rewrite Hnp. cbn [andb].
  assert (Hpe : mpromote m = EMPTY).
  { destruct Hpr as [H|[H _]]; [exact H|]. rewrite Hm in H. apply mk_piece_inj_kind in H. contradiction. }
  rewrite Hpe. cbn [N.eqb EMPTY].
  destruct (is_piece (sp_white sp) King (mk_piece (sp_white sp) k)) eqn:EK; cbn [andb]; [|reflexivity].
  apply is_piece_eq in EK. apply mk_piece_inj_kind in EK. subst k.
  destruct (file_of (mto m) - file_of (mfrom m) =? 2) eqn:E2.
  - apply Z.eqb_eq in E2. exfalso. apply Hc. auto.
  - destruct (file_of (mto m) - file_of (mfrom m) =? -2) eqn:E3; [|reflexivity].
    apply Z.eqb_eq in E3. exfalso. apply Hc. auto.
Qed.

Lemma count_on_nonneg : forall b pc sel, 0 <= count_on b pc sel.
Proof.
  intros b pc sel. unfold count_on. generalize 0%nat.
  induction b as [|h t IH]; intros i; simpl; [lia|]. specialize (IH (S i)).
  destruct (sel (dark_idx i) && N.eqb h pc); lia.
Qed.

(** counts after "leave [from], arrive on [to]" for a piece that is not a pawn *)
Lemma count_on_move : forall b ff fr tf tr pc q sel,
  length b = 64%nat -> on_board ff fr = true -> on_board tf tr = true -> (ff, fr) <> (tf, tr) ->
  at_ b ff fr = pc -> q <> EMPTY ->
  count_on (put (put b ff fr EMPTY) tf tr pc) q sel =
  count_on b q sel - ind (sel (dark_square ff fr) && N.eqb pc q)
                   - ind (sel (dark_square tf tr) && N.eqb (at_ b tf tr) q)
                   + ind (sel (dark_square tf tr) && N.eqb pc q).
Proof.
  intros b ff fr tf tr pc q sel HL Hf Ht Hne Hpc Hq.
  rewrite count_on_put by (rewrite ?length_put; assumption).
  rewrite at_put_other by assumption.
  rewrite count_on_put by assumption. rewrite Hpc.
  assert (E : N.eqb EMPTY q = false) by (apply N.eqb_neq; congruence).
  rewrite E, andb_false_r. unfold ind at 2. lia.
Qed.

(** the mover's own kernel counts: unchanged when it stays on its square colour *)
Lemma kcount_move_same : forall b ff fr tf tr w k w2 kp,
  length b = 64%nat -> on_board ff fr = true -> on_board tf tr = true -> (ff, fr) <> (tf, tr) ->
  at_ b ff fr = mk_piece w k -> at_ b tf tr = EMPTY ->
  (k = Bishop -> dark_square tf tr = dark_square ff fr) ->
  kcount (put (put b ff fr EMPTY) tf tr (mk_piece w k)) w2 kp = kcount b w2 kp.
Proof.
  intros b ff fr tf tr w k w2 kp HL Hf Ht Hne Hpc Hempty Hcol.
  assert (G : forall q sel, q <> EMPTY -> (mk_piece w k = q -> sel (dark_square tf tr) = sel (dark_square ff fr)) ->
              count_on (put (put b ff fr EMPTY) tf tr (mk_piece w k)) q sel = count_on b q sel).
  { intros q sel Hq Hs. rewrite (count_on_move b ff fr tf tr (mk_piece w k) q sel) by assumption.
    rewrite Hempty. assert (E : N.eqb EMPTY q = false) by (apply N.eqb_neq; congruence).
    rewrite E, andb_false_r.
    destruct (N.eqb (mk_piece w k) q) eqn:Eq.
    - apply N.eqb_eq in Eq. rewrite (Hs Eq). unfold ind. destruct (sel (dark_square ff fr)); simpl; lia.
    - rewrite !andb_false_r. unfold ind. lia. }
  destruct kp; unfold kcount; apply G; try apply mk_piece_not_empty; try reflexivity.
  - intros E. assert (k = Bishop) by (destruct w, w2, k; vm_compute in E; congruence). rewrite Hcol by assumption. reflexivity.
  - intros E. assert (k = Bishop) by (destruct w, w2, k; vm_compute in E; congruence). rewrite Hcol by assumption. reflexivity.
Qed.

Theorem quiet_piece_move_stutters : forall sp m k,
  length (sp_board sp) = 64%nat -> legal_spec sp m ->
  moved sp m = mk_piece (sp_white sp) k -> k <> Pawn ->
  at_ (sp_board sp) (file_of (mto m)) (rank_of (mto m)) = EMPTY ->
  ~ (k = King /\ (file_of (mto m) - file_of (mfrom m) = 2 \/ file_of (mto m) - file_of (mfrom m) = -2)) ->
  alpha (make_spec sp m) = alpha sp.
Proof.
  intros sp m k HL L Hm Hk Hempty Hc.
  pose proof (legal_shape sp m L) as S. destruct L as [Hin _].
  unfold alpha. rewrite make_spec_board. rewrite (make_board_piece_move sp m k S Hm Hk Hc).
  destruct S as [Hf Ht _ _ _ _].
  set (b := sp_board sp) in *. set (w := sp_white sp) in *.
  set (ff := file_of (mfrom m)) in *. set (fr := rank_of (mfrom m)) in *.
  set (tf := file_of (mto m)) in *. set (tr := rank_of (mto m)) in *.
  unfold moved in Hm. fold b ff fr in Hm.
  assert (Hne : (ff, fr) <> (tf, tr)).
  { intro X. inversion X as [[X1 X2]]. rewrite <- X1, <- X2 in Hempty. rewrite Hm in Hempty.
    exact (mk_piece_not_empty _ _ Hempty). }
  assert (Hcol : k = Bishop -> dark_square tf tr = dark_square ff fr).
  { intros ->. apply (bishop_keeps_colour sp m Hin). exact Hm. }
  assert (L1 : length (put b ff fr EMPTY) = 64%nat) by (rewrite length_put; exact HL).
  f_equal.
  - rewrite columns_put_notpawn; auto.
    + apply columns_put_notpawn; auto; [rewrite Hm; apply notpawn_mk; exact Hk|apply notpawn_empty].
    + rewrite at_put_other by assumption. rewrite Hempty. apply notpawn_empty.
    + apply notpawn_mk; exact Hk.
  - apply map_ext. intros kp. apply kcount_move_same; auto.
  - apply map_ext. intros kp. apply kcount_move_same; auto.
Qed.

(** * Captures made by pieces other than pawns *)
Definition colf (u : Z -> option bool) (l : list Z) : list bool :=
  flat_map (fun r => match u r with Some c => [c] | None => [] end) l.

Lemma column_colf : forall b f, column b f = colf (pawn_color b f) ranks.
Proof. reflexivity. Qed.

(** removing the pawn of rank [r0] from a file removes the element of its column whose index is the
    number of pawns below it (8 ranks: by cases) *)
Lemma col8_remove : forall (v v' : Z -> option bool) r0 c,
  In r0 ranks -> v r0 = Some c -> v' r0 = None -> (forall r, In r ranks -> r <> r0 -> v' r = v r) ->
  let i := length (colf v (filter (fun r => r <? r0) ranks)) in
  colf v' ranks = remove_nth i (colf v ranks) /\ nth_error (colf v ranks) i = Some c.
Proof.
  intros v v' r0 c Hin Hv Hn Hs.
  assert (E : forall r, In r ranks -> v' r = if r =? r0 then None else v r).
  { intros r Hr. destruct (r =? r0) eqn:E; [apply Z.eqb_eq in E; subst; exact Hn|apply Z.eqb_neq in E; apply Hs; auto]. }
  assert (E0 := E 0 ltac:(simpl; auto)). assert (E1 := E 1 ltac:(simpl; auto)).
  assert (E2 := E 2 ltac:(simpl; auto)). assert (E3 := E 3 ltac:(simpl; auto 6)).
  assert (E4 := E 4 ltac:(simpl; auto 7)). assert (E5 := E 5 ltac:(simpl; auto 8)).
  assert (E6 := E 6 ltac:(simpl; auto 9)). assert (E7 := E 7 ltac:(simpl; auto 10)).
  clear E Hs Hn.
  unfold ranks in Hin. simpl in Hin.
  destruct Hin as [<-|[<-|[<-|[<-|[<-|[<-|[<-|[<-|[]]]]]]]]];
    cbv [colf ranks flat_map filter Z.ltb Z.compare Pos.compare Pos.compare_cont app length] ;
    simpl Z.eqb in *; rewrite E0, E1, E2, E3, E4, E5, E6, E7, ?Hv;
    destruct (v 0), (v 1), (v 2), (v 3), (v 4), (v 5), (v 6), (v 7);
    try discriminate Hv; (split; [reflexivity | simpl; congruence]).
Qed.

Lemma column_put_other_file : forall b f r x f0, In f0 files -> f0 <> f ->
  column (put b f r x) f0 = column b f0.
Proof.
  intros b f r x f0 Hf0 Hne. unfold column. apply flat_map_ext_in. intros r0 Hr0.
  unfold pawn_color. rewrite at_put_other; [reflexivity| |intro X; inversion X; congruence].
  apply on_board_bounds. apply in_ranks in Hr0. apply in_ranks in Hf0. lia.
Qed.

(** kernel piece type of a captured piece (square colour for bishops) *)
Definition kp_of (k : kind) (dark : bool) : option kpiece :=
  match k with
  | Queen => Some KQ | Rook => Some KR | Knight => Some KN
  | Bishop => Some (if dark then KDB else KLB)
  | King | Pawn => None
  end.

(** kernel counts after a capture by a piece that is not a pawn *)
Lemma kcount_capture : forall b ff fr tf tr w k vk w2 kp,
  length b = 64%nat -> on_board ff fr = true -> on_board tf tr = true -> (ff, fr) <> (tf, tr) ->
  at_ b ff fr = mk_piece w k -> at_ b tf tr = mk_piece (negb w) vk ->
  (k = Bishop -> dark_square tf tr = dark_square ff fr) ->
  kcount (put (put b ff fr EMPTY) tf tr (mk_piece w k)) w2 kp =
  kcount b w2 kp - ind (Bool.eqb w2 (negb w) &&
                        match kp_of vk (dark_square tf tr) with Some kp' => Nat.eqb (kidx kp') (kidx kp) | None => false end).
Proof.
  intros b ff fr tf tr w k vk w2 kp HL Hf Ht Hne Hpc Hv Hcol.
  assert (G : forall q sel, q <> EMPTY -> (mk_piece w k = q -> sel (dark_square tf tr) = sel (dark_square ff fr)) ->
              count_on (put (put b ff fr EMPTY) tf tr (mk_piece w k)) q sel =
              count_on b q sel - ind (sel (dark_square tf tr) && N.eqb (mk_piece (negb w) vk) q)).
  { intros q sel Hq Hs. rewrite (count_on_move b ff fr tf tr (mk_piece w k) q sel) by assumption.
    rewrite Hv.
    destruct (N.eqb (mk_piece w k) q) eqn:Eq.
    - apply N.eqb_eq in Eq. rewrite (Hs Eq). unfold ind. destruct (sel (dark_square ff fr)); simpl; lia.
    - rewrite !andb_false_r. unfold ind at 1 3. lia. }
  assert (B1 : forall E : mk_piece w k = mk_piece w2 Bishop, dark_square tf tr = dark_square ff fr).
  { intros E. apply Hcol. destruct w, w2, k; vm_compute in E; congruence. }
  destruct kp; unfold kcount; rewrite G; try apply mk_piece_not_empty; try reflexivity;
    try (intros E; rewrite (B1 E); reflexivity);
    f_equal; f_equal; destruct w, w2, vk, (dark_square tf tr); reflexivity.
Qed.

Lemma nth_map_kcount : forall b w kp, nth (kidx kp) (map (kcount b w) kpieces) 0 = kcount b w kp.
Proof. intros b w []; reflexivity. Qed.

Lemma kcounts_after_capture : forall b b' w w2 vk dk,
  (forall kp, kcount b' w2 kp = kcount b w2 kp - ind (Bool.eqb w2 (negb w) &&
       match kp_of vk dk with Some kp' => Nat.eqb (kidx kp') (kidx kp) | None => false end)) ->
  map (kcount b' w2) kpieces =
  match kp_of vk dk with
  | Some kp' => if Bool.eqb w2 (negb w) then bump (map (kcount b w2) kpieces) kp' (-1) else map (kcount b w2) kpieces
  | None => map (kcount b w2) kpieces
  end.
Proof.
  intros b b' w w2 vk dk H. unfold kpieces. cbn [map].
  rewrite (H KQ), (H KR), (H KDB), (H KLB), (H KN).
  destruct (kp_of vk dk) as [kp'|]; [|rewrite !andb_false_r; unfold ind; repeat f_equal; lia].
  destruct (Bool.eqb w2 (negb w)); cbn [andb].
  - destruct kp'; unfold bump, kidx; cbn [nth upd Nat.eqb ind]; repeat f_equal; lia.
  - unfold ind; repeat f_equal; lia.
Qed.

(** the eight columns as a list, when only file [f] changed *)
Lemma columns_one_file : forall b b' f, In f files ->
  (forall f0, In f0 files -> f0 <> f -> column b' f0 = column b f0) ->
  map (column b') files = upd (Z.to_nat f) (column b' f) (map (column b) files).
Proof.
  intros b b' f Hf H.
  assert (H0 := H 0). assert (H1 := H 1). assert (H2 := H 2). assert (H3 := H 3).
  assert (H4 := H 4). assert (H5 := H 5). assert (H6 := H 6). assert (H7 := H 7).
  unfold files in *. simpl in Hf.
  destruct Hf as [<-|[<-|[<-|[<-|[<-|[<-|[<-|[<-|[]]]]]]]]]; cbn [map Z.to_nat Pos.to_nat Pos.iter_op Nat.add upd];
    rewrite ?H0, ?H1, ?H2, ?H3, ?H4, ?H5, ?H6, ?H7 by (simpl; auto 10 || lia); try reflexivity;
    repeat (f_equal; try reflexivity).
Qed.

Lemma kind_eq_pawn : forall k : kind, k = Pawn \/ k <> Pawn.
Proof. intros []; auto; right; discriminate. Qed.

Lemma tf_in_files : forall f r, on_board f r = true -> In f files /\ In r ranks.
Proof.
  intros f r H. apply on_board_bounds in H. unfold files, ranks.
  assert (Hf : f = 0 \/ f = 1 \/ f = 2 \/ f = 3 \/ f = 4 \/ f = 5 \/ f = 6 \/ f = 7) by lia.
  assert (Hr : r = 0 \/ r = 1 \/ r = 2 \/ r = 3 \/ r = 4 \/ r = 5 \/ r = 6 \/ r = 7) by lia.
  split; simpl; intuition.
Qed.

Lemma nth_map_column : forall b f, In f files -> nth (Z.to_nat f) (map (column b) files) [] = column b f.
Proof.
  intros b f H. unfold files in *. simpl in H.
  destruct H as [<-|[<-|[<-|[<-|[<-|[<-|[<-|[<-|[]]]]]]]]]; reflexivity.
Qed.

(** a piece other than a pawn captures an enemy piece or pawn (not a king): in the kernel space this is
    the move "piece takes piece" resp. "piece takes pawn" *)
Theorem piece_capture_is_kernel_move : forall sp m k vk,
  length (sp_board sp) = 64%nat -> legal_spec sp m ->
  moved sp m = mk_piece (sp_white sp) k -> k <> Pawn ->
  at_ (sp_board sp) (file_of (mto m)) (rank_of (mto m)) = mk_piece (negb (sp_white sp)) vk -> vk <> King ->
  ~ (k = King /\ (file_of (mto m) - file_of (mfrom m) = 2 \/ file_of (mto m) - file_of (mfrom m) = -2)) ->
  kstep (sp_white sp) (alpha sp) (alpha (make_spec sp m)).
Proof.
  intros sp m k vk HL L Hm Hk Hv Hvk Hc.
  pose proof (legal_shape sp m L) as S. destruct L as [Hin _].
  assert (A : alpha (make_spec sp m) =
              mkK (map (column (make_board sp m)) files) (map (kcount (make_board sp m) true) kpieces)
                  (map (kcount (make_board sp m) false) kpieces)) by (unfold alpha; rewrite make_spec_board; reflexivity).
  rewrite A. rewrite (make_board_piece_move sp m k S Hm Hk Hc).
  destruct S as [Hf Ht _ _ _ _].
  set (b := sp_board sp) in *. set (w := sp_white sp) in *.
  set (ff := file_of (mfrom m)) in *. set (fr := rank_of (mfrom m)) in *.
  set (tf := file_of (mto m)) in *. set (tr := rank_of (mto m)) in *.
  unfold moved in Hm. fold b ff fr in Hm.
  assert (Hne : (ff, fr) <> (tf, tr)).
  { intro X. inversion X as [[X1 X2]]. rewrite <- X1, <- X2 in Hv. rewrite Hm in Hv.
    destruct w, k, vk; vm_compute in Hv; congruence. }
  assert (Hcol : k = Bishop -> dark_square tf tr = dark_square ff fr).
  { intros ->. apply (bishop_keeps_colour sp m Hin). exact Hm. }
  assert (L1 : length (put b ff fr EMPTY) = 64%nat) by (rewrite length_put; exact HL).
  set (b1 := put b ff fr EMPTY) in *.
  set (b' := put b1 tf tr (mk_piece w k)).
  assert (KC : forall w2 kp, kcount b' w2 kp = kcount b w2 kp - ind (Bool.eqb w2 (negb w) &&
             match kp_of vk (dark_square tf tr) with Some kp' => Nat.eqb (kidx kp') (kidx kp) | None => false end)).
  { intros w2 kp. apply kcount_capture; auto. }
  assert (C1 : forall f0, In f0 files -> column b1 f0 = column b f0).
  { intros f0 Hf0. apply column_put_notpawn; auto; [rewrite Hm; apply notpawn_mk; exact Hk|apply notpawn_empty]. }
  destruct (tf_in_files _ _ Ht) as [Htf Htr].
  destruct (kind_eq_pawn vk) as [->|Hvp].
  - (* piece takes pawn *)
    assert (KW : forall w2, map (kcount b' w2) kpieces = map (kcount b w2) kpieces).
    { intros w2. rewrite (kcounts_after_capture b b' w w2 Pawn (dark_square tf tr) (KC w2)). reflexivity. }
    rewrite !KW.
    assert (Cother : forall f0, In f0 files -> f0 <> tf -> column b' f0 = column b f0).
    { intros f0 Hf0 Hn. unfold b'. rewrite column_put_other_file by assumption. apply C1; exact Hf0. }
    rewrite (columns_one_file b b' tf Htf Cother).
    (* the column of the captured pawn *)
    assert (Vb : pawn_color b tf tr = Some (negb w)).
    { unfold pawn_color. rewrite Hv. destruct w; reflexivity. }
    destruct (col8_remove (pawn_color b tf) (pawn_color b' tf) tr (negb w) Htr Vb) as [R1 R2].
    + unfold b'. apply pawn_color_notpawn. rewrite at_put_same by assumption. apply notpawn_mk; exact Hk.
    + intros r Hr Hn.
      assert (Hor : on_board tf r = true) by (apply on_board_bounds; apply in_ranks in Hr; apply in_ranks in Htf; lia).
      transitivity (pawn_color b1 tf r).
      * unfold pawn_color, b'. rewrite at_put_other; [reflexivity|exact Hor|intro X; inversion X; congruence].
      * destruct (Z.eq_dec ff tf) as [Ef|Nf]; [destruct (Z.eq_dec fr r) as [Er|Nr]|].
        -- rewrite <- Ef, <- Er. rewrite !pawn_color_notpawn; [reflexivity|rewrite Hm; apply notpawn_mk; exact Hk|].
           unfold b1. rewrite at_put_same by assumption. apply notpawn_empty.
        -- unfold pawn_color, b1. rewrite at_put_other; [reflexivity|exact Hor|intro X; inversion X; congruence].
        -- unfold pawn_color, b1. rewrite at_put_other; [reflexivity|exact Hor|intro X; inversion X; congruence].
    + rewrite <- !column_colf in R1, R2.
      set (i := length (colf (pawn_color b tf) (filter (fun r => r <? tr) ranks))) in *.
      rewrite R1.
      pose proof (ks_piece_takes w (alpha sp) (VPawn (Z.to_nat tf) i)) as K.
      unfold victim_ok, remove_victim, set_col, col, alpha in K. fold b in K. cbn [k_cols k_white k_black] in K.
      rewrite (nth_map_column b tf Htf) in K. apply K. exact R2.
  - (* piece takes piece *)
    assert (Cb : map (column b') files = map (column b) files).
    { apply map_ext_in. intros f0 Hf0. unfold b'. rewrite column_put_notpawn; auto.
      - unfold b1. rewrite at_put_other by assumption. rewrite Hv. apply notpawn_mk; exact Hvp.
      - apply notpawn_mk; exact Hk. }
    rewrite Cb.
    pose proof (kcounts_after_capture b b' w true vk (dark_square tf tr) (KC true)) as KT.
    pose proof (kcounts_after_capture b b' w false vk (dark_square tf tr) (KC false)) as KF.
    destruct (kp_of vk (dark_square tf tr)) as [kp'|] eqn:Ekp; [|destruct vk; try discriminate; contradiction].
    rewrite KT, KF.
    pose proof (ks_piece_takes w (alpha sp) (VPiece kp')) as K.
    assert (Pos : 0 < kcount b (negb w) kp').
    { pose proof (KC (negb w) kp') as E. rewrite Bool.eqb_reflx, Nat.eqb_refl in E. cbn [andb ind] in E.
      assert (0 <= kcount b' (negb w) kp') by (destruct kp'; unfold kcount; apply count_on_nonneg). lia. }
    unfold victim_ok, remove_victim, set_counts, counts_of, alpha in K. fold b in K.
    destruct w; cbn [negb k_cols k_white k_black Bool.eqb] in *; rewrite nth_map_kcount in K; apply K; exact Pos.
Qed.

(** * The partial simulation result *)
Definition is_castling (sp : spos) (m : move) : Prop :=
  moved sp m = mk_piece (sp_white sp) King /\
  (file_of (mto m) - file_of (mfrom m) = 2 \/ file_of (mto m) - file_of (mfrom m) = -2).

Theorem kernel_abstraction_partial : forall sp m k,
  length (sp_board sp) = 64%nat -> legal_spec sp m ->
  moved sp m = mk_piece (sp_white sp) k -> k <> Pawn -> ~ is_castling sp m ->
  (at_ (sp_board sp) (file_of (mto m)) (rank_of (mto m)) = EMPTY \/
   exists vk, at_ (sp_board sp) (file_of (mto m)) (rank_of (mto m)) = mk_piece (negb (sp_white sp)) vk /\ vk <> King) ->
  kstep (sp_white sp) (alpha sp) (alpha (make_spec sp m)).
Proof.
  intros sp m k HL L Hm Hk Hc Ht.
  assert (Hc' : ~ (k = King /\ (file_of (mto m) - file_of (mfrom m) = 2 \/ file_of (mto m) - file_of (mfrom m) = -2))).
  { intros [-> H]. apply Hc. split; assumption. }
  destruct Ht as [He|[vk [Hv Hvk]]].
  - rewrite (quiet_piece_move_stutters sp m k HL L Hm Hk He Hc'). apply ks_stutter.
  - eapply piece_capture_is_kernel_move; eauto.
Qed.

(** every position of a legal game has a 64-square board, so the result applies along every game *)
Corollary kernel_abstraction_partial_reachable : forall sp m k,
  reachable sp -> legal_spec sp m ->
  moved sp m = mk_piece (sp_white sp) k -> k <> Pawn -> ~ is_castling sp m ->
  (at_ (sp_board sp) (file_of (mto m)) (rank_of (mto m)) = EMPTY \/
   exists vk, at_ (sp_board sp) (file_of (mto m)) (rank_of (mto m)) = mk_piece (negb (sp_white sp)) vk /\ vk <> King) ->
  kstep (sp_white sp) (alpha sp) (alpha (make_spec sp m)).
Proof.
  intros sp m k R. destruct (budget_invariant sp R) as [HL _]. apply kernel_abstraction_partial. exact HL.
Qed.

(** * Examples (non-vacuity) *)
(** 1.Nf3 is a quiet piece move: the kernel state of the initial position is unchanged *)
Example ex_quiet_knight :
  legal_specb start_spos (mvq 6 0 5 2) = true /\ alpha (make_spec start_spos (mvq 6 0 5 2)) = alpha start_spos.
Proof.
  split; [vm_compute; reflexivity|].
  apply (quiet_piece_move_stutters start_spos (mvq 6 0 5 2) Knight).
  - vm_compute; reflexivity.
  - apply legal_specb_spec. vm_compute. reflexivity.
  - vm_compute; reflexivity.
  - discriminate.
  - vm_compute; reflexivity.
  - intros [H _]. discriminate.
Qed.

(** after 1.e4 d5 2.exd5 the move 2...Qxd5 is "piece takes pawn": the premises of the capture case hold *)
Definition ex_qxd5_pos : spos :=
  Eval vm_compute in
  match play start_spos [mvq 4 1 4 3; mvq 3 6 3 4; mvq 4 3 3 4] with Some sp => sp | None => start_spos end.

Example ex_piece_takes_pawn : kstep false (alpha ex_qxd5_pos) (alpha (make_spec ex_qxd5_pos (mvq 3 7 3 4))).
Proof.
  apply (kernel_abstraction_partial ex_qxd5_pos (mvq 3 7 3 4) Queen).
  - vm_compute; reflexivity.
  - apply legal_specb_spec. vm_compute. reflexivity.
  - vm_compute; reflexivity.
  - discriminate.
  - intros [H _]. vm_compute in H. discriminate.
  - right. exists Pawn. split; [vm_compute; reflexivity|discriminate].
Qed.

(** the kernel state of the initial position: eight columns [white; black], 1 queen, 2 rooks, one bishop of
    each square colour, 2 knights per side *)
Example ex_alpha_start :
  alpha start_spos = mkK (repeat [true; false] 8) [1; 2; 1; 1; 2] [1; 2; 1; 1; 2].
Proof. vm_compute. reflexivity. Qed.
