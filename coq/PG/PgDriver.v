(** C16 — glue used by the extracted driver only (no theorem depends on it): the goal position
    is read from its FEN with the FEN reader model of C02/C17 (Chess/Fen.v, corresponded with
    TextIO::readFEN there) and mapped to a specification position by [Spec.abs]. *)
From Coq Require Import ZArith NArith List Bool.
From Texel Require Import Chess.Types Chess.Position Chess.Fen Chess.PositionInst Chess.Spec.
From Texel Require Import PG.ProofGameCert PG.PieceCount.
Import ListNotations.

Definition goal_of_fen (fen : list N) : option spos :=
  match readFEN zk0 fen with
  | FenOk p => Some (abs p)
  | FenErr _ => None
  end.

(** 0 = accepted; 1 = rejected: illegal move (index in second component); 2 = rejected: all moves
    legal but another position is reached; 3 = goal FEN not readable *)
Definition check_fen (moves : list move) (fen : list N) : N * N :=
  match goal_of_fen fen with
  | None => (3%N, 0%N)
  | Some g =>
      if check_proofgame moves g then (0%N, 0%N)
      else match first_illegal start_spos moves 0%N with
           | Some i => (1%N, i)
           | None => (2%N, 0%N)
           end
  end.
