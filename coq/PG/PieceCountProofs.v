(** C16 — proofs about piece counts under legal play (specification side, Chess/Spec.v):
    how one legal move changes the number of pieces of each type; the promotion budget
    "pawns + excess pieces <= 8" is an invariant of play from the initial position; the piece
    counts of any position still reachable satisfy enoughRemainingPieces. *)
From Coq Require Import ZArith NArith List Bool Lia.
From Texel Require Import Chess.Types Chess.Spec PG.ProofGameCert PG.PieceCount.
Import ListNotations.
Local Open Scope Z_scope.

(** * Counting in lists *)
Definition delta (a q : piece) : Z := if N.eqb q a then 1 else 0.

Lemma delta_range : forall a q, 0 <= delta a q <= 1.
Proof. intros; unfold delta; destruct (N.eqb q a); lia. Qed.

Lemma delta_same : forall a, delta a a = 1.
Proof. intros; unfold delta; rewrite N.eqb_refl; reflexivity. Qed.

Lemma delta_diff : forall a q, q <> a -> delta a q = 0.
Proof. intros a q H; unfold delta. destruct (N.eqb q a) eqn:E; auto. apply N.eqb_eq in E; contradiction. Qed.

Lemma cnt_nil : forall q, cnt [] q = 0.
Proof. reflexivity. Qed.

Lemma cnt_cons : forall x l q, cnt (x :: l) q = delta x q + cnt l q.
Proof.
  intros x l q. unfold cnt, count_piece, delta. cbn [filter].
  destruct (N.eqb q x); cbn [length]; rewrite ?Nat2Z.inj_succ; lia.
Qed.

Lemma cnt_nonneg : forall l q, 0 <= cnt l q.
Proof. intros; unfold cnt; lia. Qed.

Lemma length_upd : forall (A : Type) n (x : A) l, length (upd n x l) = length l.
Proof.
  intros A n x l; revert n; induction l as [|h t IH]; intros n; simpl.
  - destruct n; reflexivity.
  - destruct n; simpl; auto.
Qed.

Lemma cnt_upd : forall l n x q, (n < length l)%nat ->
  cnt (upd n x l) q = cnt l q - delta (nth n l EMPTY) q + delta x q.
Proof.
  induction l as [|h t IH]; intros n x q Hn; simpl in Hn; [lia|].
  destruct n as [|k]; simpl.
  - rewrite !cnt_cons. lia.
  - rewrite !cnt_cons. rewrite IH by lia. lia.
Qed.

Lemma nth_upd_same : forall l n (x : piece), (n < length l)%nat -> nth n (upd n x l) EMPTY = x.
Proof.
  induction l as [|h t IH]; intros n x Hn; simpl in Hn; [lia|].
  destruct n; simpl; auto. apply IH; lia.
Qed.

Lemma nth_upd_other : forall l n k (x : piece), n <> k -> nth k (upd n x l) EMPTY = nth k l EMPTY.
Proof.
  induction l as [|h t IH]; intros n k x Hne; simpl.
  - destruct n; reflexivity.
  - destruct n, k; simpl; auto; try congruence.
Qed.

(** * Boards *)
Lemma on_board_bounds : forall f r, on_board f r = true <-> 0 <= f <= 7 /\ 0 <= r <= 7.
Proof.
  intros f r. unfold on_board. rewrite !andb_true_iff, !Z.leb_le. lia.
Qed.

Lemma idx_lt : forall f r, on_board f r = true -> (idx f r < 64)%nat.
Proof. intros f r H. apply on_board_bounds in H. unfold idx. lia. Qed.

Lemma idx_inj : forall f r f' r', on_board f r = true -> on_board f' r' = true ->
  idx f r = idx f' r' -> f = f' /\ r = r'.
Proof.
  intros f r f' r' H H' E. apply on_board_bounds in H. apply on_board_bounds in H'.
  unfold idx in E. apply Z2Nat.inj in E; lia.
Qed.

Lemma length_put : forall b f r x, length (put b f r x) = length b.
Proof. intros; unfold put. destruct (on_board f r); auto. apply length_upd. Qed.

Lemma cnt_put : forall b f r x q, length b = 64%nat -> on_board f r = true ->
  cnt (put b f r x) q = cnt b q - delta (at_ b f r) q + delta x q.
Proof.
  intros b f r x q HL H. unfold put, at_. rewrite H. apply cnt_upd.
  rewrite HL. apply idx_lt; exact H.
Qed.

(** a [put] never adds anything but the piece put *)
Lemma cnt_put_le : forall b f r x q, length b = 64%nat ->
  cnt (put b f r x) q <= cnt b q + delta x q.
Proof.
  intros b f r x q HL. destruct (on_board f r) eqn:H.
  - rewrite cnt_put by assumption. pose proof (delta_range (at_ b f r) q). lia.
  - unfold put. rewrite H. pose proof (delta_range x q). lia.
Qed.

Lemma at_put_same : forall b f r x, length b = 64%nat -> on_board f r = true -> at_ (put b f r x) f r = x.
Proof.
  intros b f r x HL H. unfold at_, put. rewrite H. apply nth_upd_same. rewrite HL. apply idx_lt; exact H.
Qed.

Lemma at_put_other : forall b f r x f' r', on_board f' r' = true -> (f, r) <> (f', r') ->
  at_ (put b f r x) f' r' = at_ b f' r'.
Proof.
  intros b f r x f' r' H' Hne. unfold at_, put. rewrite H'.
  destruct (on_board f r) eqn:H; auto.
  apply nth_upd_other. intro E. apply idx_inj in E; auto. destruct E; subst; contradiction.
Qed.

Ltac Zify.zify_post_hook ::= Z.div_mod_to_equations.

Lemma file_sq_of : forall f r, on_board f r = true -> file_of (sq_of f r) = f.
Proof.
  intros f r H. apply on_board_bounds in H. unfold file_of, sq_of. rewrite Z2N.id by lia. lia.
Qed.

Lemma rank_sq_of : forall f r, on_board f r = true -> rank_of (sq_of f r) = r.
Proof.
  intros f r H. apply on_board_bounds in H. unfold rank_of, sq_of. rewrite Z2N.id by lia. lia.
Qed.

Ltac Zify.zify_post_hook ::= idtac.

Lemma all_coords_on : forall c, In c all_coords -> on_board (fst c) (snd c) = true.
Proof.
  assert (H : forallb (fun c => on_board (fst c) (snd c)) all_coords = true) by (vm_compute; reflexivity).
  intros c Hc. rewrite forallb_forall in H. apply H; exact Hc.
Qed.

(** * Shape of the pseudo-legal moves of the specification *)
Definition promo_pieces (w : bool) : list piece :=
  [mk_piece w Queen; mk_piece w Rook; mk_piece w Bishop; mk_piece w Knight].

(** what the count argument needs to know about a move generated for the piece on (f,r) *)
Definition okmove (sp : spos) (f r : Z) (m : move) : Prop :=
  exists f' r' pr, m = mv f r f' r' pr /\ on_board f' r' = true /\
    (pr = EMPTY \/ (at_ (sp_board sp) f r = mk_piece (sp_white sp) Pawn /\ In pr (promo_pieces (sp_white sp)))) /\
    (at_ (sp_board sp) f r = mk_piece (sp_white sp) King -> -1 <= f' - f <= 1).

Lemma step_moves_ok : forall b w f r offs m, In m (step_moves b w f r offs) ->
  exists d, In d offs /\ m = mv f r (f + fst d) (r + snd d) EMPTY /\ on_board (f + fst d) (r + snd d) = true.
Proof.
  intros b w f r offs m H. unfold step_moves in H. apply in_flat_map in H.
  destruct H as [d [Hd Hm]]. exists d. split; auto.
  destruct (on_board (f + fst d) (r + snd d)) eqn:E; simpl in Hm.
  - destruct (negb (has_color w (at_ b (f + fst d) (r + snd d)))); simpl in Hm; [|contradiction].
    destruct Hm as [<-|[]]. auto.
  - contradiction.
Qed.

Lemma ray_moves_ok : forall b w fuel f0 r0 f r df dr m, In m (ray_moves b w fuel f0 r0 f r df dr) ->
  exists f' r', m = mv f0 r0 f' r' EMPTY /\ on_board f' r' = true.
Proof.
  intros b w fuel; induction fuel as [|k IH]; intros f0 r0 f r df dr m H; simpl in H; [contradiction|].
  destruct (on_board (f + df) (r + dr)) eqn:E; [|contradiction].
  destruct (N.eqb (at_ b (f + df) (r + dr)) EMPTY).
  - destruct H as [<-|H]; [eauto|]. apply IH in H. exact H.
  - destruct (has_color (negb w) (at_ b (f + df) (r + dr))); [|contradiction].
    destruct H as [<-|[]]. eauto.
Qed.

Lemma slider_moves_ok : forall b w f r dirs m, In m (slider_moves b w f r dirs) ->
  exists f' r', m = mv f r f' r' EMPTY /\ on_board f' r' = true.
Proof.
  intros b w f r dirs m H. unfold slider_moves in H. apply in_flat_map in H.
  destruct H as [d [_ H]]. apply ray_moves_ok in H. exact H.
Qed.

Lemma pawn_arrive_ok : forall w f r f' r' m, In m (pawn_arrive w f r f' r') ->
  exists pr, m = mv f r f' r' pr /\ (pr = EMPTY \/ In pr (promo_pieces w)).
Proof.
  intros w f r f' r' m H. unfold pawn_arrive in H.
  destruct (r' =? (if w then 7 else 0)).
  - unfold promo_pieces. simpl in H.
    destruct H as [<-|[<-|[<-|[<-|[]]]]]; eexists; split; try reflexivity; right; simpl; auto.
  - destruct H as [<-|[]]. exists EMPTY. auto.
Qed.

Lemma king_offsets_small : forall d, In d king_offsets -> -1 <= fst d <= 1.
Proof.
  intros d H. unfold king_offsets in H. simpl in H.
  repeat (destruct H as [<-|H]; [simpl; lia|]). contradiction.
Qed.

Lemma mk_piece_inj_kind : forall w k k', mk_piece w k = mk_piece w k' -> k = k'.
Proof. intros [] [] []; simpl; intros H; try reflexivity; discriminate. Qed.

Lemma kind_of_mk : forall w k, kind_of (mk_piece w k) = Some k.
Proof. intros [] []; reflexivity. Qed.

Lemma has_color_kind : forall w pc, has_color w pc = true -> exists k, pc = mk_piece w k.
Proof.
  intros w pc H. unfold has_color, color_of in H.
  destruct pc as [|p]; [discriminate|].
  destruct p as [[[[p|p|]|[p|p|]|]|[[p|p|]|[p|p|]|]|]|[[[p|p|]|[p|p|]|]|[[p|p|]|[p|p|]|]|]|];
    simpl in H; try discriminate; destruct w; simpl in H; try discriminate;
    first [ exists King; reflexivity | exists Queen; reflexivity | exists Rook; reflexivity
          | exists Bishop; reflexivity | exists Knight; reflexivity | exists Pawn; reflexivity ].
Qed.

Lemma pawn_moves_ok : forall sp f r m, on_board f r = true ->
  at_ (sp_board sp) f r = mk_piece (sp_white sp) Pawn ->
  In m (pawn_moves sp f r) -> okmove sp f r m.
Proof.
  intros sp f r m Hon Hpc H. unfold pawn_moves in H.
  set (b := sp_board sp) in *. set (w := sp_white sp) in *.
  set (dr := if w then 1 else -1) in *.
  assert (Hk : mk_piece w Pawn <> mk_piece w King) by (destruct w; discriminate).
  assert (fin : forall f' r' pr, on_board f' r' = true -> (pr = EMPTY \/ In pr (promo_pieces w)) ->
                okmove sp f r (mv f r f' r' pr)).
  { intros f' r' pr Ho Hp. exists f', r', pr. split; [reflexivity|]. split; [exact Ho|]. split.
    - destruct Hp; [left; assumption | right; split; assumption].
    - intros Hkk. fold b w in Hkk. rewrite Hpc in Hkk. contradiction. }
  apply in_app_or in H. destruct H as [H|H].
  - (* pushes *)
    destruct (on_board f (r + dr)) eqn:E1; simpl in H; [|contradiction].
    destruct (N.eqb (at_ b f (r + dr)) EMPTY); [|contradiction].
    apply in_app_or in H. destruct H as [H|H].
    + apply pawn_arrive_ok in H. destruct H as [pr [-> Hp]]. apply fin; assumption.
    + destruct ((r =? (if w then 1 else 6)) && N.eqb (at_ b f (r + dr + dr)) EMPTY) eqn:E2; [|contradiction].
      destruct H as [<-|[]]. apply fin; [|left; reflexivity].
      apply andb_true_iff in E2. destruct E2 as [E2 _]. apply Z.eqb_eq in E2.
      apply on_board_bounds in E1. apply on_board_bounds. subst dr. destruct w; lia.
  - (* captures *)
    assert (cap : forall f', In m (if on_board f' (r + dr)
                    then if has_color (negb w) (at_ b f' (r + dr)) then pawn_arrive w f r f' (r + dr)
                         else if (Z.of_N (sq_of f' (r + dr)) =? sp_ep sp) && N.eqb (at_ b f' (r + dr)) EMPTY
                              then [mv f r f' (r + dr) EMPTY] else []
                    else []) -> okmove sp f r m).
    { intros f' Hc. destruct (on_board f' (r + dr)) eqn:E1; [|contradiction].
      destruct (has_color (negb w) (at_ b f' (r + dr))).
      - apply pawn_arrive_ok in Hc. destruct Hc as [pr [-> Hp]]. apply fin; assumption.
      - destruct ((Z.of_N (sq_of f' (r + dr)) =? sp_ep sp) && N.eqb (at_ b f' (r + dr)) EMPTY); [|contradiction].
        destruct Hc as [<-|[]]. apply fin; [assumption|left; reflexivity]. }
    apply in_app_or in H. destruct H as [H|H]; eapply cap; exact H.
Qed.

Lemma piece_moves_ok : forall sp f r m, on_board f r = true -> In m (piece_moves sp f r) -> okmove sp f r m.
Proof.
  intros sp f r m Hon H. unfold piece_moves in H.
  destruct (has_color (sp_white sp) (at_ (sp_board sp) f r)) eqn:Hc; [|contradiction].
  apply has_color_kind in Hc. destruct Hc as [k Hk]. rewrite Hk in H. rewrite kind_of_mk in H.
  assert (simple : forall f' r', on_board f' r' = true -> k <> Pawn ->
                   (k = King -> -1 <= f' - f <= 1) -> okmove sp f r (mv f r f' r' EMPTY)).
  { intros f' r' Ho Hnp Hkg. exists f', r', EMPTY. split; [reflexivity|]. split; [exact Ho|]. split; [left; reflexivity|].
    intros E. rewrite Hk in E. apply mk_piece_inj_kind in E. auto. }
  destruct k.
  - apply step_moves_ok in H. destruct H as [d [Hd [-> Ho]]]. apply simple; auto; [discriminate|].
    intros _. apply king_offsets_small in Hd. lia.
  - apply slider_moves_ok in H. destruct H as [f' [r' [-> Ho]]]. apply simple; auto; discriminate.
  - apply slider_moves_ok in H. destruct H as [f' [r' [-> Ho]]]. apply simple; auto; discriminate.
  - apply slider_moves_ok in H. destruct H as [f' [r' [-> Ho]]]. apply simple; auto; discriminate.
  - apply step_moves_ok in H. destruct H as [d [Hd [-> Ho]]]. apply simple; auto; discriminate.
  - apply pawn_moves_ok; auto.
Qed.

(** the facts about a pseudo-legal move that the count argument uses *)
Record shape (sp : spos) (m : move) : Prop := mkShape {
  sh_from : on_board (file_of (mfrom m)) (rank_of (mfrom m)) = true;
  sh_to : on_board (file_of (mto m)) (rank_of (mto m)) = true;
  sh_own : has_color (sp_white sp) (at_ (sp_board sp) (file_of (mfrom m)) (rank_of (mfrom m))) = true;
  sh_promo : mpromote m = EMPTY \/
             (at_ (sp_board sp) (file_of (mfrom m)) (rank_of (mfrom m)) = mk_piece (sp_white sp) Pawn /\
              In (mpromote m) (promo_pieces (sp_white sp)));
  sh_castle_k : at_ (sp_board sp) (file_of (mfrom m)) (rank_of (mfrom m)) = mk_piece (sp_white sp) King ->
                file_of (mto m) - file_of (mfrom m) = 2 ->
                file_of (mfrom m) = 4 /\ rank_of (mto m) = rank_of (mfrom m) /\
                at_ (sp_board sp) 7 (rank_of (mfrom m)) = mk_piece (sp_white sp) Rook;
  sh_castle_q : at_ (sp_board sp) (file_of (mfrom m)) (rank_of (mfrom m)) = mk_piece (sp_white sp) King ->
                file_of (mto m) - file_of (mfrom m) = -2 ->
                file_of (mfrom m) = 4 /\ rank_of (mto m) = rank_of (mfrom m) /\
                at_ (sp_board sp) 0 (rank_of (mfrom m)) = mk_piece (sp_white sp) Rook
}.

Lemma okmove_shape : forall sp f r m, on_board f r = true ->
  has_color (sp_white sp) (at_ (sp_board sp) f r) = true -> okmove sp f r m -> shape sp m.
Proof.
  intros sp f r m Hon Hc (f' & r' & pr & -> & Ho & Hp & Hk).
  unfold mv; constructor; simpl;
    rewrite ?(file_sq_of _ _ Hon), ?(rank_sq_of _ _ Hon), ?(file_sq_of _ _ Ho), ?(rank_sq_of _ _ Ho); auto.
  - intros E1 E2. specialize (Hk E1). lia.
  - intros E1 E2. specialize (Hk E1). lia.
Qed.

Lemma is_piece_eq : forall w k pc, is_piece w k pc = true <-> pc = mk_piece w k.
Proof. intros; unfold is_piece; apply N.eqb_eq. Qed.

Lemma has_color_mk : forall w k, has_color w (mk_piece w k) = true.
Proof. intros [] []; reflexivity. Qed.

Lemma castle_moves_shape : forall sp m, In m (castle_moves sp) -> shape sp m.
Proof.
  intros sp m H. unfold castle_moves in H.
  set (b := sp_board sp) in *. set (w := sp_white sp) in *.
  set (r := if w then 0 else 7) in *.
  assert (Hr : on_board 4 r = true /\ on_board 6 r = true /\ on_board 2 r = true)
    by (subst r; destruct w; repeat split; reflexivity).
  destruct Hr as (H4 & H6 & H2).
  destruct (is_piece w King (at_ b 4 r) && negb (attacked_by b (negb w) 4 r)) eqn:E; [|contradiction].
  apply andb_true_iff in E. destruct E as [EK _]. apply is_piece_eq in EK.
  apply in_app_or in H. destruct H as [H|H].
  - match type of H with In _ (if ?c then _ else _) => destruct c eqn:E end; [|contradiction].
    destruct H as [<-|[]].
    repeat (apply andb_true_iff in E; destruct E as [E ?]).
    match goal with X : is_piece w Rook _ = true |- _ => apply is_piece_eq in X; rename X into ER end.
    unfold mv; constructor; simpl; rewrite ?(file_sq_of _ _ H4), ?(rank_sq_of _ _ H4), ?(file_sq_of _ _ H6), ?(rank_sq_of _ _ H6); auto.
    + fold b w. rewrite EK. apply has_color_mk.
    + intros _ E2. lia.
  - match type of H with In _ (if ?c then _ else _) => destruct c eqn:E end; [|contradiction].
    destruct H as [<-|[]].
    repeat (apply andb_true_iff in E; destruct E as [E ?]).
    match goal with X : is_piece w Rook _ = true |- _ => apply is_piece_eq in X; rename X into ER end.
    unfold mv; constructor; simpl; rewrite ?(file_sq_of _ _ H4), ?(rank_sq_of _ _ H4), ?(file_sq_of _ _ H2), ?(rank_sq_of _ _ H2); auto.
    + fold b w. rewrite EK. apply has_color_mk.
    + intros _ E2. lia.
Qed.

Theorem pseudo_moves_shape : forall sp m, In m (pseudo_moves sp) -> shape sp m.
Proof.
  intros sp m H. unfold pseudo_moves in H. apply in_app_or in H. destruct H as [H|H].
  - apply in_flat_map in H. destruct H as [[f r] [Hc H]]. simpl in H.
    apply all_coords_on in Hc. simpl in Hc.
    assert (Hcol : has_color (sp_white sp) (at_ (sp_board sp) f r) = true).
    { unfold piece_moves in H. destruct (has_color (sp_white sp) (at_ (sp_board sp) f r)); [reflexivity|contradiction]. }
    eapply okmove_shape; eauto. apply piece_moves_ok; auto.
  - apply castle_moves_shape; exact H.
Qed.
