(** C16 — the piece-count rules of the proof-game code accept every position of every legal
    game (specification side: Chess/Spec.v). *)
From Coq Require Import ZArith NArith List Bool Lia.
From Texel Require Import Chess.Types Chess.Spec PG.ProofGameCert PG.PieceCount PG.PieceCountProofs.
Import ListNotations.
Local Open Scope Z_scope.

(** * The board after a move, separated from the rest of [make_spec] *)
Definition make_board (sp : spos) (m : move) : board :=
  let b := sp_board sp in
  let w := sp_white sp in
  let ff := file_of (mfrom m) in let fr := rank_of (mfrom m) in
  let tf := file_of (mto m) in let tr := rank_of (mto m) in
  let pc := at_ b ff fr in
  let target := at_ b tf tr in
  let is_pawn := is_piece w Pawn pc in
  let is_king := is_piece w King pc in
  let is_ep := is_pawn && negb (tf =? ff) && N.eqb target EMPTY in
  let b1 := put b ff fr EMPTY in
  let b2 := if is_ep then put b1 tf fr EMPTY else b1 in
  let b3 := put b2 tf tr (if N.eqb (mpromote m) EMPTY then pc else mpromote m) in
  if is_king && (tf - ff =? 2) then put (put b3 7 fr EMPTY) 5 fr (mk_piece w Rook)
  else if is_king && (tf - ff =? -2) then put (put b3 0 fr EMPTY) 3 fr (mk_piece w Rook)
  else b3.

Lemma make_spec_board : forall sp m, sp_board (make_spec sp m) = make_board sp m.
Proof. reflexivity. Qed.

Lemma make_spec_white : forall sp m, sp_white (make_spec sp m) = negb (sp_white sp).
Proof. reflexivity. Qed.

(** the piece placed on the target square *)
Definition placed (sp : spos) (m : move) : piece :=
  if N.eqb (mpromote m) EMPTY
  then at_ (sp_board sp) (file_of (mfrom m)) (rank_of (mfrom m)) else mpromote m.

Definition moved (sp : spos) (m : move) : piece :=
  at_ (sp_board sp) (file_of (mfrom m)) (rank_of (mfrom m)).

Lemma delta_empty : forall q, q <> EMPTY -> delta EMPTY q = 0.
Proof. intros; apply delta_diff; assumption. Qed.

(** leave the source square, remove the en-passant victim if any, arrive *)
Lemma board_step_cnt : forall b ff fr tf tr newpc (is_ep : bool) q,
  length b = 64%nat -> on_board ff fr = true -> on_board tf tr = true -> q <> EMPTY ->
  let b1 := put b ff fr EMPTY in
  let b2 := if is_ep then put b1 tf fr EMPTY else b1 in
  let b3 := put b2 tf tr newpc in
  cnt b3 q <= cnt b q - delta (at_ b ff fr) q + delta newpc q /\ length b3 = 64%nat.
Proof.
  intros b ff fr tf tr newpc is_ep q HL Hf Ht Hq b1 b2 b3.
  assert (L1 : length b1 = 64%nat) by (subst b1; rewrite length_put; exact HL).
  assert (L2 : length b2 = 64%nat) by (subst b2; destruct is_ep; rewrite ?length_put; exact L1).
  assert (C1 : cnt b1 q = cnt b q - delta (at_ b ff fr) q).
  { subst b1. rewrite cnt_put by assumption. rewrite delta_empty by assumption. lia. }
  assert (C2 : cnt b2 q <= cnt b1 q).
  { subst b2. destruct is_ep; [|lia].
    pose proof (cnt_put_le b1 tf fr EMPTY q L1). rewrite delta_empty in H by assumption. lia. }
  split.
  - subst b3. pose proof (cnt_put_le b2 tf tr newpc q L2). lia.
  - subst b3. rewrite length_put. exact L2.
Qed.

(** the rook part of castling: the rook leaves its corner and lands next to the king *)
Lemma castle_step_cnt : forall b3 fr rf rt R q,
  length b3 = 64%nat -> on_board rf fr = true -> q <> EMPTY -> at_ b3 rf fr = R ->
  cnt (put (put b3 rf fr EMPTY) rt fr R) q <= cnt b3 q /\
  length (put (put b3 rf fr EMPTY) rt fr R) = 64%nat.
Proof.
  intros b3 fr rf rt R q HL Hon Hq HR.
  assert (L : length (put b3 rf fr EMPTY) = 64%nat) by (rewrite length_put; exact HL).
  split; [|rewrite length_put; exact L].
  pose proof (cnt_put_le (put b3 rf fr EMPTY) rt fr R q L).
  rewrite (cnt_put b3 rf fr EMPTY q HL Hon) in H. rewrite HR in H. rewrite delta_empty in H by assumption. lia.
Qed.

Lemma mk_piece_neq_kind : forall w k k', k <> k' -> mk_piece w k <> mk_piece w k'.
Proof. intros w k k' H E. apply mk_piece_inj_kind in E. contradiction. Qed.

Lemma is_piece_false : forall w k k', k <> k' -> is_piece w k (mk_piece w k') = false.
Proof.
  intros w k k' H. unfold is_piece. apply N.eqb_neq. apply mk_piece_neq_kind. auto.
Qed.

(** * Effect of one pseudo-legal move on the number of pieces of each type *)
Theorem make_spec_cnt : forall sp m q,
  length (sp_board sp) = 64%nat -> shape sp m -> q <> EMPTY ->
  cnt (sp_board (make_spec sp m)) q <= cnt (sp_board sp) q - delta (moved sp m) q + delta (placed sp m) q
  /\ length (sp_board (make_spec sp m)) = 64%nat.
Proof.
  intros sp m q HL [Hf Ht Hown Hpr Hck Hcq] Hq.
  rewrite make_spec_board. unfold make_board, moved, placed.
  set (b := sp_board sp) in *. set (w := sp_white sp) in *.
  set (ff := file_of (mfrom m)) in *. set (fr := rank_of (mfrom m)) in *.
  set (tf := file_of (mto m)) in *. set (tr := rank_of (mto m)) in *.
  set (pc := at_ b ff fr) in *.
  set (newpc := if N.eqb (mpromote m) EMPTY then pc else mpromote m).
  set (is_ep := is_piece w Pawn pc && negb (tf =? ff) && N.eqb (at_ b tf tr) EMPTY).
  destruct (board_step_cnt b ff fr tf tr newpc is_ep q HL Hf Ht Hq) as [C3 L3].
  fold pc in C3.
  set (b3 := put (if is_ep then put (put b ff fr EMPTY) tf fr EMPTY else put b ff fr EMPTY) tf tr newpc) in *.
  destruct (is_piece w King pc) eqn:EK; cbn [andb].
  - (* a king move *)
    apply is_piece_eq in EK.
    assert (Hnp : is_piece w Pawn pc = false) by (rewrite EK; apply is_piece_false; discriminate).
    assert (Hep : is_ep = false) by (subst is_ep; rewrite Hnp; reflexivity).
    assert (Hnew : newpc = pc).
    { subst newpc. destruct Hpr as [->|[Hp _]]; [reflexivity|].
      fold b w ff fr pc in Hp. rewrite EK in Hp. apply mk_piece_inj_kind in Hp. discriminate. }
    assert (Hb3 : b3 = put (put b ff fr EMPTY) tf tr pc) by (subst b3; rewrite Hep, Hnew; reflexivity).
    assert (Hfr : 0 <= fr <= 7) by (apply on_board_bounds in Hf; lia).
    destruct (tf - ff =? 2) eqn:E2.
    + apply Z.eqb_eq in E2. destruct (Hck EK E2) as (H4 & Htr & HR).
      assert (H7 : on_board 7 fr = true) by (apply on_board_bounds; lia).
      assert (Hat : at_ b3 7 fr = mk_piece w Rook).
      { rewrite Hb3. rewrite at_put_other; [|exact H7|intro X; inversion X; lia].
        rewrite at_put_other; [exact HR|exact H7|intro X; inversion X; lia]. }
      destruct (castle_step_cnt b3 fr 7 5 (mk_piece w Rook) q L3 H7 Hq Hat) as [C4 L4].
      split; [lia|exact L4].
    + destruct (tf - ff =? -2) eqn:E3.
      * apply Z.eqb_eq in E3. destruct (Hcq EK E3) as (H4 & Htr & HR).
        assert (H0 : on_board 0 fr = true) by (apply on_board_bounds; lia).
        assert (Hat : at_ b3 0 fr = mk_piece w Rook).
        { rewrite Hb3. rewrite at_put_other; [|exact H0|intro X; inversion X; lia].
          rewrite at_put_other; [exact HR|exact H0|intro X; inversion X; lia]. }
        destruct (castle_step_cnt b3 fr 0 3 (mk_piece w Rook) q L3 H0 Hq Hat) as [C4 L4].
        split; [lia|exact L4].
      * split; assumption.
  - split; assumption.
Qed.

(** colours *)
Lemma delta_other_color : forall w k k', delta (mk_piece w k) (mk_piece (negb w) k') = 0.
Proof. intros [] [] []; reflexivity. Qed.

Lemma placed_cases : forall sp m, shape sp m ->
  (placed sp m = moved sp m) \/
  (moved sp m = mk_piece (sp_white sp) Pawn /\ In (placed sp m) (promo_pieces (sp_white sp))).
Proof.
  intros sp m [_ _ _ Hpr _ _]. unfold placed, moved.
  destruct Hpr as [->|[Hp Hin]].
  - left. reflexivity.
  - destruct (N.eqb (mpromote m) EMPTY) eqn:E; [left; reflexivity|]. right. split; assumption.
Qed.

Lemma moved_kind : forall sp m, shape sp m -> exists k, moved sp m = mk_piece (sp_white sp) k.
Proof. intros sp m [_ _ Hown _ _ _]. apply has_color_kind. exact Hown. Qed.

Lemma mk_piece_not_empty : forall w k, mk_piece w k <> EMPTY.
Proof. intros [] []; discriminate. Qed.

(** the count changes of one move, in the form used by both invariants:
    no count of the side that did not move increases; for the mover either no count increases,
    or one pawn disappears and one queen/rook/bishop/knight may appear *)
Theorem move_count_effect : forall sp m,
  length (sp_board sp) = 64%nat -> shape sp m ->
  let b := sp_board sp in let b' := sp_board (make_spec sp m) in let w := sp_white sp in
  length b' = 64%nat /\
  (forall k, cnt b' (mk_piece (negb w) k) <= cnt b (mk_piece (negb w) k)) /\
  ((forall k, cnt b' (mk_piece w k) <= cnt b (mk_piece w k)) \/
   (exists pk, In pk [Queen; Rook; Bishop; Knight] /\
      cnt b' (mk_piece w Pawn) + 1 <= cnt b (mk_piece w Pawn) /\
      cnt b' (mk_piece w pk) <= cnt b (mk_piece w pk) + 1 /\
      forall k, k <> pk -> cnt b' (mk_piece w k) <= cnt b (mk_piece w k))).
Proof.
  intros sp m HL Hs b b' w.
  assert (F : forall q, q <> EMPTY ->
              cnt b' q <= cnt b q - delta (moved sp m) q + delta (placed sp m) q).
  { intros q Hq. apply (make_spec_cnt sp m q HL Hs Hq). }
  split; [apply (make_spec_cnt sp m WKING HL Hs); discriminate|].
  destruct (moved_kind sp m Hs) as [mk Hmk]. fold w in Hmk.
  destruct (placed_cases sp m Hs) as [Hpl|[Hpawn Hin]]; [|fold w in Hpawn, Hin].
  - (* no promotion *)
    split; [|left]; intros k.
    + specialize (F _ (mk_piece_not_empty (negb w) k)). rewrite Hpl in F. lia.
    + specialize (F _ (mk_piece_not_empty w k)). rewrite Hpl in F. lia.
  - (* promotion *)
    assert (Hpk : exists pk, In pk [Queen; Rook; Bishop; Knight] /\ placed sp m = mk_piece w pk).
    { unfold promo_pieces in Hin. simpl in Hin.
      destruct Hin as [H|[H|[H|[H|[]]]]]; symmetry in H;
        [exists Queen|exists Rook|exists Bishop|exists Knight]; simpl; auto 6. }
    destruct Hpk as [pk [Hpkin Hpk]].
    split.
    + intros k. specialize (F _ (mk_piece_not_empty (negb w) k)).
      rewrite Hpk, Hpawn in F. rewrite !delta_other_color in F. lia.
    + right. exists pk. split; [exact Hpkin|].
      assert (Hpkp : pk <> Pawn) by (simpl in Hpkin; intuition congruence).
      split; [|split].
      * specialize (F _ (mk_piece_not_empty w Pawn)). rewrite Hpk, Hpawn in F.
        rewrite delta_same in F. rewrite (delta_diff (mk_piece w pk)) in F; [lia|].
        apply mk_piece_neq_kind. congruence.
      * specialize (F _ (mk_piece_not_empty w pk)). rewrite Hpk, Hpawn in F.
        rewrite delta_same in F. pose proof (delta_range (mk_piece w Pawn) (mk_piece w pk)). lia.
      * intros k Hk. specialize (F _ (mk_piece_not_empty w k)). rewrite Hpk, Hpawn in F.
        rewrite (delta_diff (mk_piece w pk)) in F by (apply mk_piece_neq_kind; exact Hk).
        pose proof (delta_range (mk_piece w Pawn) (mk_piece w k)). lia.
Qed.

Lemma legal_shape : forall sp m, legal_spec sp m -> shape sp m.
Proof. intros sp m [H _]. apply pseudo_moves_shape; exact H. Qed.

(** * Invariant 1: the promotion budget *)
Inductive reachable : spos -> Prop :=
| reach_start : reachable start_spos
| reach_step : forall sp m, reachable sp -> legal_spec sp m -> reachable (make_spec sp m).

Lemma plays_reachable : forall sp ms sp', plays sp ms sp' -> reachable sp -> reachable sp'.
Proof.
  intros sp ms sp' H. induction H; intros R; auto. apply IHplays. constructor; assumption.
Qed.

Lemma reachable_plays : forall sp, reachable sp -> exists ms, plays start_spos ms sp.
Proof.
  assert (snoc : forall a ms b m, plays a ms b -> legal_spec b m -> plays a (ms ++ [m]) (make_spec b m)).
  { intros a ms b m H. induction H; intros L; simpl.
    - constructor; [exact L|constructor].
    - constructor; auto. }
  intros sp R. induction R.
  - exists []. constructor.
  - destruct IHR as [ms Hms]. exists (ms ++ [m]). apply snoc; assumption.
Qed.

Lemma budget_step : forall b b' w,
  (forall k, cnt b' (mk_piece w k) <= cnt b (mk_piece w k)) ->
  promotion_budget_ok b w -> promotion_budget_ok b' w.
Proof.
  intros b b' w H. unfold promotion_budget_ok, excess, initial_count.
  pose proof (H Pawn). pose proof (H Queen). pose proof (H Rook). pose proof (H Bishop). pose proof (H Knight).
  lia.
Qed.

Lemma budget_step_promo : forall b b' w pk,
  In pk [Queen; Rook; Bishop; Knight] ->
  cnt b' (mk_piece w Pawn) + 1 <= cnt b (mk_piece w Pawn) ->
  cnt b' (mk_piece w pk) <= cnt b (mk_piece w pk) + 1 ->
  (forall k, k <> pk -> cnt b' (mk_piece w k) <= cnt b (mk_piece w k)) ->
  promotion_budget_ok b w -> promotion_budget_ok b' w.
Proof.
  intros b b' w pk Hin HP Hpk Hoth. unfold promotion_budget_ok, excess, initial_count.
  simpl in Hin. destruct Hin as [<-|[<-|[<-|[<-|[]]]]].
  - pose proof (Hoth Rook ltac:(discriminate)). pose proof (Hoth Bishop ltac:(discriminate)).
    pose proof (Hoth Knight ltac:(discriminate)). lia.
  - pose proof (Hoth Queen ltac:(discriminate)). pose proof (Hoth Bishop ltac:(discriminate)).
    pose proof (Hoth Knight ltac:(discriminate)). lia.
  - pose proof (Hoth Queen ltac:(discriminate)). pose proof (Hoth Rook ltac:(discriminate)).
    pose proof (Hoth Knight ltac:(discriminate)). lia.
  - pose proof (Hoth Queen ltac:(discriminate)). pose proof (Hoth Rook ltac:(discriminate)).
    pose proof (Hoth Bishop ltac:(discriminate)). lia.
Qed.

Theorem budget_invariant : forall sp, reachable sp ->
  length (sp_board sp) = 64%nat /\
  promotion_budget_ok (sp_board sp) true /\ promotion_budget_ok (sp_board sp) false.
Proof.
  intros sp R. induction R as [|sp m R IH L].
  - split; [reflexivity|]. split; vm_compute; discriminate.
  - destruct IH as (HL & Bw & Bb).
    destruct (move_count_effect sp m HL (legal_shape _ _ L)) as (HL' & Hopp & Hown).
    split; [exact HL'|].
    assert (both : forall c, promotion_budget_ok (sp_board (make_spec sp m)) c).
    { intros c. destruct (Bool.bool_dec c (sp_white sp)) as [->|Hne].
      - destruct Hown as [Hown|(pk & Hin & HP & Hpk & Hoth)].
        + eapply budget_step; [exact Hown|]. destruct (sp_white sp); assumption.
        + eapply budget_step_promo; eauto. destruct (sp_white sp); assumption.
      - assert (c = negb (sp_white sp)) by (revert Hne; destruct c, (sp_white sp); simpl; congruence). subst c.
        eapply budget_step; [exact Hopp|]. destruct (sp_white sp); assumption. }
    split; apply both.
Qed.

(** the two code predicates are the promotion budget *)
Lemma maxPawns_budget : forall b w,
  promotion_budget_ok b w <-> cnt b (mk_piece w Pawn) <= maxPawns b w.
Proof.
  intros b w. unfold promotion_budget_ok, maxPawns, excess, initial_count. lia.
Qed.

Lemma validate_iff : forall b,
  validatePieceCounts b = 0%N <-> promotion_budget_ok b true /\ promotion_budget_ok b false.
Proof.
  intros b. rewrite !maxPawns_budget. unfold validatePieceCounts. simpl mk_piece.
  destruct (maxPawns b true <? cnt b WPAWN) eqn:E1.
  - apply Z.ltb_lt in E1. split; [discriminate|]. intros [H _]. lia.
  - apply Z.ltb_ge in E1. destruct (maxPawns b false <? cnt b BPAWN) eqn:E2.
    + apply Z.ltb_lt in E2. split; [discriminate|]. intros [_ H]. lia.
    + apply Z.ltb_ge in E2. split; auto.
Qed.

Lemma pieceCountsValid_iff : forall b,
  pieceCountsValid b = true <-> promotion_budget_ok b true /\ promotion_budget_ok b false.
Proof.
  intros b. rewrite !maxPawns_budget. unfold pieceCountsValid. simpl mk_piece.
  destruct (maxPawns b true <? cnt b WPAWN) eqn:E1.
  - apply Z.ltb_lt in E1. split; [discriminate|]. intros [H _]. lia.
  - apply Z.ltb_ge in E1. destruct (maxPawns b false <? cnt b BPAWN) eqn:E2.
    + apply Z.ltb_lt in E2. split; [discriminate|]. intros [_ H]. lia.
    + apply Z.ltb_ge in E2. split; auto.
Qed.

Theorem piece_counts_accepted : forall sp, reachable sp ->
  validatePieceCounts (sp_board sp) = 0%N /\ pieceCountsValid (sp_board sp) = true.
Proof.
  intros sp R. destruct (budget_invariant sp R) as (_ & Bw & Bb).
  split; [apply validate_iff|apply pieceCountsValid_iff]; split; assumption.
Qed.

(** * Invariant 2 (backwards): what can still be reached has no more of anything than
    promotions allow — the first rule of the distance heuristic (enoughRemainingPieces) *)
Lemma remaining_back : forall b b' g w,
  (forall k, cnt b' (mk_piece w k) <= cnt b (mk_piece w k)) ->
  remaining_ok b' g w -> remaining_ok b g w.
Proof.
  intros b b' g w H. unfold remaining_ok, deficit.
  pose proof (H Pawn). pose proof (H Queen). pose proof (H Rook). pose proof (H Bishop). pose proof (H Knight).
  lia.
Qed.

Lemma remaining_back_promo : forall b b' g w pk,
  In pk [Queen; Rook; Bishop; Knight] ->
  cnt b' (mk_piece w Pawn) + 1 <= cnt b (mk_piece w Pawn) ->
  cnt b' (mk_piece w pk) <= cnt b (mk_piece w pk) + 1 ->
  (forall k, k <> pk -> cnt b' (mk_piece w k) <= cnt b (mk_piece w k)) ->
  remaining_ok b' g w -> remaining_ok b g w.
Proof.
  intros b b' g w pk Hin HP Hpk Hoth. unfold remaining_ok, deficit.
  simpl in Hin. destruct Hin as [<-|[<-|[<-|[<-|[]]]]].
  - pose proof (Hoth Rook ltac:(discriminate)). pose proof (Hoth Bishop ltac:(discriminate)).
    pose proof (Hoth Knight ltac:(discriminate)). lia.
  - pose proof (Hoth Queen ltac:(discriminate)). pose proof (Hoth Bishop ltac:(discriminate)).
    pose proof (Hoth Knight ltac:(discriminate)). lia.
  - pose proof (Hoth Queen ltac:(discriminate)). pose proof (Hoth Rook ltac:(discriminate)).
    pose proof (Hoth Knight ltac:(discriminate)). lia.
  - pose proof (Hoth Queen ltac:(discriminate)). pose proof (Hoth Rook ltac:(discriminate)).
    pose proof (Hoth Bishop ltac:(discriminate)). lia.
Qed.

Theorem remaining_invariant : forall sp ms goal, plays sp ms goal ->
  length (sp_board sp) = 64%nat ->
  remaining_ok (sp_board sp) (sp_board goal) true /\ remaining_ok (sp_board sp) (sp_board goal) false.
Proof.
  intros sp ms goal H. induction H as [sp|sp m t goal L P IH]; intros HL.
  - split; unfold remaining_ok, deficit; lia.
  - destruct (move_count_effect sp m HL (legal_shape _ _ L)) as (HL' & Hopp & Hown).
    destruct (IH HL') as (Rw & Rb).
    assert (both : forall c, remaining_ok (sp_board sp) (sp_board goal) c).
    { intros c. destruct (Bool.bool_dec c (sp_white sp)) as [->|Hne].
      - destruct Hown as [Hown|(pk & Hin & HP & Hpk & Hoth)].
        + eapply remaining_back; [exact Hown|]. destruct (sp_white sp); assumption.
        + eapply remaining_back_promo; eauto. destruct (sp_white sp); assumption.
      - assert (c = negb (sp_white sp)) by (revert Hne; destruct c, (sp_white sp); simpl; congruence). subst c.
        eapply remaining_back; [exact Hopp|]. destruct (sp_white sp); assumption. }
    split; apply both.
Qed.

Lemma enoughSide_of_remaining : forall b g w, remaining_ok b g w -> enoughSide b g w = true.
Proof.
  intros b g w H. unfold remaining_ok, deficit in H. unfold enoughSide.
  repeat match goal with
         | |- (if ?c <? 0 then false else _) = true =>
             let E := fresh "E" in destruct (c <? 0) eqn:E; [apply Z.ltb_lt in E; lia | clear E]
         end.
  reflexivity.
Qed.

Theorem enough_remaining_accepted : forall sp ms goal, reachable sp -> plays sp ms goal ->
  enoughRemainingPieces (sp_board sp) (sp_board goal) = true.
Proof.
  intros sp ms goal R P. destruct (budget_invariant sp R) as (HL & _).
  destruct (remaining_invariant sp ms goal P HL) as (Rw & Rb).
  unfold enoughRemainingPieces. rewrite (enoughSide_of_remaining _ _ _ Rw). simpl.
  apply enoughSide_of_remaining. exact Rb.
Qed.

(** * Examples (non-vacuity) *)
Example ex_reachable : reachable ex_goal.
Proof.
  assert (P : plays start_spos ex_moves ex_goal).
  { apply play_plays. vm_compute. reflexivity. }
  eapply plays_reachable; [exact P|constructor].
Qed.

Example ex_counts : validatePieceCounts (sp_board ex_goal) = 0%N /\ pieceCountsValid (sp_board ex_goal) = true.
Proof. apply piece_counts_accepted. exact ex_reachable. Qed.

(** the rules do reject something: nine white pawns; eight pawns and two queens *)
Example ex_nine_pawns_rejected :
  validatePieceCounts (upd 16 WPAWN start_board) = 1%N /\ pieceCountsValid (upd 16 WPAWN start_board) = false.
Proof. vm_compute. split; reflexivity. Qed.

Example ex_extra_queen_rejected :
  validatePieceCounts (upd 40 BQUEEN start_board) = 2%N /\ pieceCountsValid (upd 40 BQUEEN start_board) = false.
Proof. vm_compute. split; reflexivity. Qed.

(** and accept a promoted queen when a pawn is gone *)
Example ex_promoted_queen_accepted :
  validatePieceCounts (upd 8 EMPTY (upd 40 WQUEEN start_board)) = 0%N.
Proof. vm_compute. reflexivity. Qed.

Example ex_enough : enoughRemainingPieces start_board (sp_board ex_goal) = true.
Proof.
  apply (enough_remaining_accepted start_spos ex_moves ex_goal); [constructor|].
  apply play_plays. vm_compute. reflexivity.
Qed.

Example ex_not_enough : enoughRemainingPieces (sp_board ex_goal) (upd 40 WQUEEN start_board) = false.
Proof. vm_compute. reflexivity. Qed.

(** * Forms used by Properties_C16.v *)
Theorem reachable_iff_played : forall sp, reachable sp <-> exists moves, plays start_spos moves sp.
Proof.
  intros sp; split; [exact (reachable_plays sp)|].
  intros [ms H]. exact (plays_reachable _ _ _ H reach_start).
Qed.

Theorem move_count_effect_legal : forall sp m,
  length (sp_board sp) = 64%nat -> legal_spec sp m ->
  let b := sp_board sp in let b' := sp_board (make_spec sp m) in let w := sp_white sp in
  length b' = 64%nat /\
  (forall k, cnt b' (mk_piece (negb w) k) <= cnt b (mk_piece (negb w) k)) /\
  ((forall k, cnt b' (mk_piece w k) <= cnt b (mk_piece w k)) \/
   (exists pk, In pk [Queen; Rook; Bishop; Knight] /\
      cnt b' (mk_piece w Pawn) + 1 <= cnt b (mk_piece w Pawn) /\
      cnt b' (mk_piece w pk) <= cnt b (mk_piece w pk) + 1 /\
      forall k, k <> pk -> cnt b' (mk_piece w k) <= cnt b (mk_piece w k))).
Proof. intros sp m HL L. exact (move_count_effect sp m HL (legal_shape sp m L)). Qed.

Theorem piece_counts_meaning : forall b,
  (validatePieceCounts b = 0%N <-> promotion_budget_ok b true /\ promotion_budget_ok b false) /\
  (pieceCountsValid b = true <-> promotion_budget_ok b true /\ promotion_budget_ok b false).
Proof. intros b; split; [exact (validate_iff b)|exact (pieceCountsValid_iff b)]. Qed.

(** 1.h4 g5 2.hxg5 h6 3.gxh6 Nf6 4.h7 Ng8 5.hxg8=Q: the invariant is exercised on a game with captures
    and a promotion (two white queens, seven white pawns) *)
Definition ex_promo_moves : list move :=
  [mvq 7 1 7 3; mvq 6 6 6 4; mvq 7 3 6 4; mvq 7 6 7 5; mvq 6 4 7 5; mvq 6 7 5 5; mvq 7 5 7 6; mvq 5 5 6 7;
   mv 7 6 6 7 WQUEEN].

Example ex_promo_played :
  match play start_spos ex_promo_moves with
  | Some sp => (cnt (sp_board sp) WQUEEN =? 2) && (cnt (sp_board sp) WPAWN =? 7) && (cnt (sp_board sp) BKNIGHT =? 1)
               && (cnt (sp_board sp) BPAWN =? 6) && N.eqb (validatePieceCounts (sp_board sp)) 0
  | None => false
  end = true.
Proof. vm_compute. reflexivity. Qed.
