(** C16 — models of the static piece-count rules of the proof-game code (executable, shaped like
    the C++, no proofs inside):
      ProofGame::validatePieceCounts   (lib/texelutillib/pg/proofgame.cpp)
      pieceCountsValid                 (lib/texelutillib/revmovegen.cpp, file-local, used by knownInvalid)
      ProofGame::enoughRemainingPieces (first rule of the distance heuristic distLowerBound)
    All three only read the number of pieces of each type (bit counts of pieceTypeBB), so the
    models take a board (64 piece codes) and count. *)
From Coq Require Import ZArith NArith List Bool.
From Texel Require Import Chess.Types Chess.Spec.
Import ListNotations.
Local Open Scope Z_scope.

(** pieceCnt[p] = BitBoard::bitCount(pos.pieceTypeBB(p)) *)
Definition cnt (b : board) (pc : piece) : Z := Z.of_nat (count_piece b pc).

(** maxWPawns / maxBPawns of both functions:
    8 - max(0,N-2) - max(0,B-2) - max(0,R-2) - max(0,Q-1)  (bishops are counted in total, not
    per square colour) *)
Definition maxPawns (b : board) (white : bool) : Z :=
  let m := 8 in
  let m := m - Z.max 0 (cnt b (mk_piece white Knight) - 2) in
  let m := m - Z.max 0 (cnt b (mk_piece white Bishop) - 2) in
  let m := m - Z.max 0 (cnt b (mk_piece white Rook) - 2) in
  let m := m - Z.max 0 (cnt b (mk_piece white Queen) - 1) in
  m.

(** validatePieceCounts: 0 = accepted, 1 = "Too many white pieces", 2 = "Too many black pieces" *)
Definition validatePieceCounts (b : board) : N :=
  if maxPawns b true <? cnt b WPAWN then 1%N
  else if maxPawns b false <? cnt b BPAWN then 2%N
  else 0%N.

(** pieceCountsValid of revmovegen.cpp *)
Definition pieceCountsValid (b : board) : bool :=
  if maxPawns b true <? cnt b WPAWN then false
  else if maxPawns b false <? cnt b BPAWN then false
  else true.

(** enoughRemainingPieces(pieceCnt) with goalPieceCnt taken from [goal]: one colour *)
Definition enoughSide (b goal : board) (white : bool) : bool :=
  let prom := cnt b (mk_piece white Pawn) - cnt goal (mk_piece white Pawn) in
  if prom <? 0 then false else
  let prom := prom - Z.max 0 (cnt goal (mk_piece white Queen) - cnt b (mk_piece white Queen)) in
  if prom <? 0 then false else
  let prom := prom - Z.max 0 (cnt goal (mk_piece white Rook) - cnt b (mk_piece white Rook)) in
  if prom <? 0 then false else
  let prom := prom - Z.max 0 (cnt goal (mk_piece white Bishop) - cnt b (mk_piece white Bishop)) in
  if prom <? 0 then false else
  let prom := prom - Z.max 0 (cnt goal (mk_piece white Knight) - cnt b (mk_piece white Knight)) in
  if prom <? 0 then false else true.

Definition enoughRemainingPieces (b goal : board) : bool :=
  if negb (enoughSide b goal true) then false else enoughSide b goal false.

(** * Specification side: what the rules are meant to express *)

(** number of pieces of a kind beyond the initial set (2 knights, 2 bishops, 2 rooks, 1 queen) *)
Definition initial_count (k : kind) : Z :=
  match k with Queen => 1 | Rook | Bishop | Knight => 2 | Pawn => 8 | King => 1 end.

Definition excess (b : board) (white : bool) (k : kind) : Z :=
  Z.max 0 (cnt b (mk_piece white k) - initial_count k).

(** pawns + pieces that can only come from promotions <= 8 *)
Definition promotion_budget_ok (b : board) (white : bool) : Prop :=
  cnt b (mk_piece white Pawn) + excess b white Queen + excess b white Rook
  + excess b white Bishop + excess b white Knight <= 8.

(** from [b] the piece counts of [goal] can still be produced by promotions and captures *)
Definition deficit (b goal : board) (white : bool) (k : kind) : Z :=
  Z.max 0 (cnt goal (mk_piece white k) - cnt b (mk_piece white k)).

Definition remaining_ok (b goal : board) (white : bool) : Prop :=
  deficit b goal white Queen + deficit b goal white Rook + deficit b goal white Bishop
  + deficit b goal white Knight <= cnt b (mk_piece white Pawn) - cnt goal (mk_piece white Pawn).
