(** C16 — the proof-kernel abstraction (doc/proofgame.md "Proof game kernel",
    ProofKernel::posToState in lib/texelutillib/pg/proofkernel.cpp): a position is mapped to
    - for each file, the colours of its pawns in order from the first rank upwards
      (a "pawn column"; squares are forgotten, only the order matters),
    - for each colour the number of queens, rooks, dark-squared bishops, light-squared bishops
      and knights (kings are not part of the state).
    Kernel moves are captures; non-capture promotions are implicit in the search ("a column is
    complete if it equals the goal column after some non-capture promotions").  Only the
    abstraction and the step relation are defined here (specification side, Chess/Spec.v). *)
From Coq Require Import ZArith NArith List Bool.
From Texel Require Import Chess.Types Chess.Spec PG.PieceCount.
Import ListNotations.
Local Open Scope Z_scope.

Definition ranks : list Z := [0; 1; 2; 3; 4; 5; 6; 7].
Definition files : list Z := [0; 1; 2; 3; 4; 5; 6; 7].

(** colour of the pawn on (f,r), if any: true = white *)
Definition pawn_color (b : board) (f r : Z) : option bool :=
  if is_piece true Pawn (at_ b f r) then Some true
  else if is_piece false Pawn (at_ b f r) then Some false else None.

Definition column (b : board) (f : Z) : list bool :=
  flat_map (fun r => match pawn_color b f r with Some c => [c] | None => [] end) ranks.

Definition dark_square (f r : Z) : bool := Z.even (f + r).      (* a1 is dark *)

(** number of board entries (index i = square number, a1 = 0) selected by [g] *)
Fixpoint cnti (g : nat -> piece -> bool) (i : nat) (l : list piece) : Z :=
  match l with
  | [] => 0
  | x :: t => (if g i x then 1 else 0) + cnti g (S i) t
  end.

Definition dark_idx (i : nat) : bool := dark_square (Z.of_nat i mod 8) (Z.of_nat i / 8).

(** pieces [pc] standing on squares of the colour selected by [sel] (applied to "is dark") *)
Definition count_on (b : board) (pc : piece) (sel : bool -> bool) : Z :=
  cnti (fun i p => sel (dark_idx i) && N.eqb p pc) 0 b.

(** the piece types of the kernel state (ProofKernel::PieceType without PAWN/KING/EMPTY) *)
Inductive kpiece := KQ | KR | KDB | KLB | KN.

Definition kcount (b : board) (w : bool) (k : kpiece) : Z :=
  match k with
  | KQ => count_on b (mk_piece w Queen) (fun _ => true)
  | KR => count_on b (mk_piece w Rook) (fun _ => true)
  | KDB => count_on b (mk_piece w Bishop) (fun d => d)
  | KLB => count_on b (mk_piece w Bishop) negb
  | KN => count_on b (mk_piece w Knight) (fun _ => true)
  end.

Record kstate := mkK {
  k_cols : list (list bool);          (* 8 pawn columns, file a first *)
  k_white : list Z;                   (* Q, R, DB, LB, N of white *)
  k_black : list Z
}.

Definition kpieces : list kpiece := [KQ; KR; KDB; KLB; KN].

Definition alpha (sp : spos) : kstate :=
  let b := sp_board sp in
  mkK (map (column b) files) (map (kcount b true) kpieces) (map (kcount b false) kpieces).

(** * The step relation of the kernel space (with promotions made explicit) *)
Definition counts_of (s : kstate) (w : bool) : list Z := if w then k_white s else k_black s.

Definition set_counts (s : kstate) (w : bool) (l : list Z) : kstate :=
  if w then mkK (k_cols s) l (k_black s) else mkK (k_cols s) (k_white s) l.

Definition kidx (k : kpiece) : nat := match k with KQ => 0 | KR => 1 | KDB => 2 | KLB => 3 | KN => 4 end%nat.

Definition bump (l : list Z) (k : kpiece) (d : Z) : list Z := upd (kidx k) (nth (kidx k) l 0 + d) l.

Fixpoint remove_nth {A} (n : nat) (l : list A) : list A :=
  match l, n with
  | [], _ => []
  | _ :: t, O => t
  | h :: t, S k => h :: remove_nth k t
  end.

Fixpoint insert_nth {A} (n : nat) (x : A) (l : list A) : list A :=
  match n, l with
  | O, _ => x :: l
  | S k, h :: t => h :: insert_nth k x t
  | S _, [] => [x]
  end.

Definition col (s : kstate) (f : nat) : list bool := nth f (k_cols s) [].
Definition set_col (s : kstate) (f : nat) (c : list bool) : kstate := mkK (upd f c (k_cols s)) (k_white s) (k_black s).

(** what is captured: a pawn (file, index in its column) or a piece *)
Inductive victim := VPawn (f i : nat) | VPiece (k : kpiece).

Definition remove_victim (s : kstate) (w : bool) (v : victim) : kstate :=
  match v with
  | VPawn f i => set_col s f (remove_nth i (col s f))
  | VPiece k => set_counts s (negb w) (bump (counts_of s (negb w)) k (-1))
  end.

Definition victim_ok (s : kstate) (w : bool) (v : victim) : Prop :=
  match v with
  | VPawn f i => nth_error (col s f) i = Some (negb w)
  | VPiece k => 0 < nth (kidx k) (counts_of s (negb w)) 0
  end.

(** one move of colour [w] seen in the kernel space.  Correspondence with the move kinds of
    ProofKernel::PkMove (proofkernel.hpp):
      ks_piece_takes (VPiece k)        pieceXPiece   ("bxR")         - also covers a taken promoted piece, which the
                                                                       code books as takenPiece with otherPromotionFile
      ks_piece_takes (VPawn f i)       pieceXPawn    ("bxPc0")
      ks_pawn_takes .. (VPawn f' j)    pawnXPawn     ("wPc0xPb1")    - the taker takes the index of the victim
      ks_pawn_takes .. (VPiece k)      pawnXPiece / pawnXPromPawn ("wPc0xRb0", "wPc0xfb0"): inserted at index j
      ks_pawn_takes_promotes           pawnXPieceProm / pawnXPromPawnProm ("wPc0xRbQ", "wPc0xfbR")
      ks_promote                       the non-capture promotions the kernel search keeps implicit
                                       (PawnColumn::isComplete / nAllowedPromotions)
      ks_stutter                       every move that is neither a capture nor a promotion *)
Inductive kstep (w : bool) (s : kstate) : kstate -> Prop :=
| ks_stutter : kstep w s s
    (* any non-capture, non-promotion move *)
| ks_promote : forall f i k,
    nth_error (col s f) i = Some w ->
    (i = if w then (length (col s f) - 1)%nat else 0%nat) ->          (* the foremost pawn of the column *)
    kstep w s (set_counts (set_col s f (remove_nth i (col s f))) w (bump (counts_of s w) k 1))
| ks_piece_takes : forall v,
    victim_ok s w v -> kstep w s (remove_victim s w v)
| ks_pawn_takes : forall f i f' j v,
    nth_error (col s f) i = Some w ->
    (f' = S f \/ f = S f') ->                                          (* adjacent file *)
    victim_ok s w v ->
    (match v with VPawn vf _ => vf = f' | VPiece _ => True end) ->
    let s1 := remove_victim (set_col s f (remove_nth i (col s f))) w v in
    (j <= length (col s1 f'))%nat ->
    kstep w s (set_col s1 f' (insert_nth j w (col s1 f')))
| ks_pawn_takes_promotes : forall f i v k,
    nth_error (col s f) i = Some w ->
    victim_ok s w v ->
    let s1 := remove_victim (set_col s f (remove_nth i (col s f))) w v in
    kstep w s (set_counts s1 w (bump (counts_of s1 w) k 1)).
