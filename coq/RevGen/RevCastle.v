(** C15 proofs, part 9: castling.  From the Spec's castling conditions to [MoveFacts] and to the
    un-castle clauses of genMovesNoUndoInfo: the king's home square and the rook's square are not
    attacked in Q because they were not attacked in P. *)
From Coq Require Import ZArith NArith List Bool Lia.
From Texel Require Import Chess.Types Chess.Position Chess.PositionSpec Chess.PositionFacts
  Chess.PositionProofs Chess.PositionProofs2 Chess.PositionProofs3 Chess.PositionProofs4 Chess.PositionTheorems
  Chess.PositionSources Chess.Fen Chess.Spec Chess.BitBoard Chess.MoveGen Chess.MoveGenWF Chess.MoveGenProofs
  Chess.BitBoardProofs Chess.RayProofs Chess.SliderProofs Chess.AttackProofs Chess.PawnProofs Chess.PseudoProofs
  Chess.MakeSpecProofs gen.BitBoardTables
  RevGen.RevGen RevGen.RevFacts RevGen.RevAbs RevGen.RevRestore RevGen.RevValid RevGen.RevCand RevGen.RevRaw RevGen.RevLegal RevGen.RevPawn.
Import ListNotations.
Local Open Scope N_scope.


(** * the king's home square and the rook's square stay unattacked (Spec level, board against board) *)
Ltac split_false H :=
  repeat match type of H with
         | (_ || _)%bool = false => let A := fresh "A" in apply orb_false_iff in H; destruct H as [A H]; try split_false A
         end.
Ltac finish_false := repeat (apply orb_false_iff; split); try reflexivity; try assumption.
Ltac transfer P4 P5 P6 P7 Q4 Q5 Q6 Q7 Hag S4 S5 :=
  unfold attacked_by in *; cbn in S4, S5 |- *;
  rewrite ?Q4, ?Q5, ?Q6, ?Q7; rewrite !Hag by lia;
  rewrite ?P4, ?P5, ?P6, ?P7 in S4, S5 |- *; cbn in S4, S5 |- *;
  split_false S4; split_false S5; split; finish_false.

Local Open Scope Z_scope.
Opaque at_.
Lemma transfer_WK (P Q : board) :
  (forall x y, (y <> 0 \/ x <= 3) -> at_ Q x y = at_ P x y) ->
  at_ P 4 0 = WKING -> at_ P 5 0 = EMPTY -> at_ P 6 0 = EMPTY -> at_ P 7 0 = WROOK ->
  at_ Q 4 0 = EMPTY -> at_ Q 5 0 = WROOK -> at_ Q 6 0 = WKING -> at_ Q 7 0 = EMPTY ->
  attacked_by P false 4 0 = false -> attacked_by P false 5 0 = false ->
  attacked_by Q false 4 0 = false /\ attacked_by Q false 5 0 = false.
Proof. intros Hag P4 P5 P6 P7 Q4 Q5 Q6 Q7 S4 S5. transfer P4 P5 P6 P7 Q4 Q5 Q6 Q7 Hag S4 S5. Qed.

Lemma transfer_BK (P Q : board) :
  (forall x y, (y <> 7 \/ x <= 3) -> at_ Q x y = at_ P x y) ->
  at_ P 4 7 = BKING -> at_ P 5 7 = EMPTY -> at_ P 6 7 = EMPTY -> at_ P 7 7 = BROOK ->
  at_ Q 4 7 = EMPTY -> at_ Q 5 7 = BROOK -> at_ Q 6 7 = BKING -> at_ Q 7 7 = EMPTY ->
  attacked_by P true 4 7 = false -> attacked_by P true 5 7 = false ->
  attacked_by Q true 4 7 = false /\ attacked_by Q true 5 7 = false.
Proof. intros Hag P4 P5 P6 P7 Q4 Q5 Q6 Q7 S4 S5. transfer P4 P5 P6 P7 Q4 Q5 Q6 Q7 Hag S4 S5. Qed.

Lemma transfer_WQ (P Q : board) :
  (forall x y, (y <> 0 \/ 5 <= x \/ x = 1) -> at_ Q x y = at_ P x y) ->
  at_ P 4 0 = WKING -> at_ P 3 0 = EMPTY -> at_ P 2 0 = EMPTY -> at_ P 1 0 = EMPTY -> at_ P 0 0 = WROOK ->
  at_ Q 4 0 = EMPTY -> at_ Q 3 0 = WROOK -> at_ Q 2 0 = WKING -> at_ Q 0 0 = EMPTY ->
  attacked_by P false 4 0 = false -> attacked_by P false 3 0 = false ->
  attacked_by Q false 4 0 = false /\ attacked_by Q false 3 0 = false.
Proof.
  intros Hag P4 P3 P2 P1 P0 Q4 Q3 Q2 Q0 S4 S3.
  unfold attacked_by in *; cbn in S4, S3 |- *.
  rewrite ?Q4, ?Q3, ?Q2, ?Q0. rewrite !Hag by lia.
  rewrite ?P4, ?P3, ?P2, ?P1, ?P0 in S4, S3 |- *. cbn in S4, S3 |- *.
  split_false S4; split_false S3; split; finish_false.
Qed.

Lemma transfer_BQ (P Q : board) :
  (forall x y, (y <> 7 \/ 5 <= x \/ x = 1) -> at_ Q x y = at_ P x y) ->
  at_ P 4 7 = BKING -> at_ P 3 7 = EMPTY -> at_ P 2 7 = EMPTY -> at_ P 1 7 = EMPTY -> at_ P 0 7 = BROOK ->
  at_ Q 4 7 = EMPTY -> at_ Q 3 7 = BROOK -> at_ Q 2 7 = BKING -> at_ Q 0 7 = EMPTY ->
  attacked_by P true 4 7 = false -> attacked_by P true 3 7 = false ->
  attacked_by Q true 4 7 = false /\ attacked_by Q true 3 7 = false.
Proof.
  intros Hag P4 P3 P2 P1 P0 Q4 Q3 Q2 Q0 S4 S3.
  unfold attacked_by in *; cbn in S4, S3 |- *.
  rewrite ?Q4, ?Q3, ?Q2, ?Q0. rewrite !Hag by lia.
  rewrite ?P4, ?P3, ?P2, ?P1, ?P0 in S4, S3 |- *. cbn in S4, S3 |- *.
  split_false S4; split_false S3; split; finish_false.
Qed.
Transparent at_.
Local Open Scope N_scope.

Section Castle.
Variable zk : zkeys.
Hypothesis EKZ : emptyKeysZero zk.
Variable p : position.
Variable m : move.
Hypothesis Hrev : WFrev zk p.
Hypothesis Hok : moveOk p m = true.

Let f := mfrom m.
Let t := mto m.
Let sqs := squares p.
Let pc := nthP sqs f.
Let cap := nthP sqs t.
Let w := whiteMove p.
Let q := successor zk p m.
Let sqsQ := squares q.

(** the Spec's castling conditions *)
Definition CastleSpec (kside : bool) : Prop :=
  let r := (if w then 0 else 7)%Z in
  m = mv 4 r (if kside then 6 else 2) r EMPTY /\
  at_ sqs 4 r = mk_piece w King /\
  has_right (abs p) w kside = true /\
  at_ sqs (if kside then 7 else 0) r = mk_piece w Rook /\
  (if kside then at_ sqs 5 r = EMPTY /\ at_ sqs 6 r = EMPTY
   else at_ sqs 1 r = EMPTY /\ at_ sqs 2 r = EMPTY /\ at_ sqs 3 r = EMPTY) /\
  attacked_by sqs (negb w) 4 r = false /\
  attacked_by sqs (negb w) (if kside then 5 else 3) r = false.

Lemma castle_parse : In m (castle_moves_pseudo (abs p)) -> exists kside, CastleSpec kside.
Proof.
  unfold castle_moves_pseudo. cbv zeta. cbn [abs sp_board sp_white]. fold sqs w.
  set (r := (if w then 0 else 7)%Z).
  destruct (is_piece w King (at_ sqs 4 r) && negb (attacked_by sqs (negb w) 4 r)) eqn:H0; [|intros []].
  apply andb_true_iff in H0. destruct H0 as (HK & HS4). rewrite is_piece_eqb in HK. apply N.eqb_eq in HK. apply negb_true_iff in HS4.
  intro H. apply in_app_iff in H. destruct H as [H|H].
  - destruct (has_right (abs p) w true && _ && _ && _ && _) eqn:C in H; [|destruct H].
    destruct H as [<-|[]]. rewrite !andb_true_iff in C. destruct C as ((((C1 & C2) & C3) & C4) & C5).
    rewrite is_piece_eqb in C2. apply N.eqb_eq in C2, C3, C4. apply negb_true_iff in C5.
    exists true. unfold CastleSpec. cbv zeta. fold r. repeat split; auto.
  - destruct (has_right (abs p) w false && _ && _ && _ && _ && _) eqn:C in H; [|destruct H].
    destruct H as [<-|[]]. rewrite !andb_true_iff in C. destruct C as (((((C1 & C2) & C3) & C4) & C5) & C6).
    rewrite is_piece_eqb in C2. apply N.eqb_eq in C2, C3, C4, C5. apply negb_true_iff in C6.
    exists false. unfold CastleSpec. cbv zeta. fold r. repeat split; auto.
Qed.

Lemma w_cases : w = true \/ w = false.
Proof. destruct (Bool.bool_dec w true) as [E|E]; [left; exact E | right; apply Bool.not_true_is_false; exact E]. Qed.

Definition k0 : square := if w then E1 else E8.
Definition rightBit (kside : bool) : N := if w then (if kside then 1 else 0) else (if kside then 3 else 2).

(** the same conditions on squares *)
Lemma castle_N kside : CastleSpec kside ->
  m = mkMove k0 (if kside then k0 + 2 else k0 - 2) EMPTY /\
  nthP sqs k0 = (if w then WKING else BKING) /\
  N.testbit (castleMask p) (rightBit kside) = true /\
  nthP sqs (if kside then k0 + 3 else k0 - 4) = (if w then WROOK else BROOK) /\
  (if kside then nthP sqs (k0 + 1) = EMPTY /\ nthP sqs (k0 + 2) = EMPTY
   else nthP sqs (k0 - 1) = EMPTY /\ nthP sqs (k0 - 2) = EMPTY /\ nthP sqs (k0 - 3) = EMPTY).
Proof.
  unfold CastleSpec, k0, rightBit, has_right. cbv zeta. cbn [abs sp_castle].
  destruct w_cases as [Ew|Ew]; rewrite Ew; destruct kside; intros (Hm & HK & HR & HRk & HE & _ & _); rewrite Hm;
    (split; [reflexivity|]); (split; [exact HK|]); (split; [exact HR|]); (split; [exact HRk|]);
    first [exact HE | (destruct HE as (A & B & C); exact (conj C (conj B A)))].
Qed.

Lemma castle_moveFacts kside : CastleSpec kside -> MoveFacts p m.
Proof.
  intro HS. destruct (castle_N kside HS) as (Hm & HK & HR & HRk & HE).
  assert (Hf : f = k0) by (unfold f; rewrite Hm; reflexivity).
  assert (Ht : t = if kside then k0 + 2 else k0 - 2) by (unfold t; rewrite Hm; reflexivity).
  assert (Hpc : pc = if w then WKING else BKING) by (unfold pc; rewrite Hf; exact HK).
  assert (Hnp : isPawnPiece pc = false) by (rewrite Hpc; destruct w; reflexivity).
  assert (Hcap : cap = EMPTY).
  { unfold cap. rewrite Ht. destruct kside; [apply HE|]. destruct HE as (_ & H2 & _). exact H2. }
  constructor.
  - exact Hok.
  - unfold pushOk. cbn [abs sp_board]. fold f sqs. change (nthP sqs f) with pc. rewrite Hpc.
    split; intro E; exfalso; destruct w; discriminate.
  - fold t. change (getPiece p t) with cap. rewrite Hcap. reflexivity.
  - intros _. right. fold f t. change (getPiece p t) with cap. split; [exact Hcap|].
    rewrite Hf, Ht. unfold k0, rightBit in *.
    destruct w_cases as [Ew|Ew]; rewrite Ew in HR |- *; destruct kside.
    + left. auto.
    + right. left. auto.
    + right. right. left. auto.
    + right. right. right. auto.
  - fold f. change (getPiece p f) with pc. rewrite Hnp. discriminate.
  - fold f. change (getPiece p f) with pc. rewrite Hnp. discriminate.
  - fold f. change (getPiece p f) with pc. rewrite Hnp. discriminate.
Qed.

(** ** the un-castle clause of genMovesNoUndoInfo *)
Section Raw.
Variable kside : bool.
Hypothesis HS : CastleSpec kside.
Let MF : MoveFacts p m := castle_moveFacts kside HS.

Lemma Hf : f = k0.
Proof. destruct (castle_N kside HS) as (Hm & _). unfold f. rewrite Hm. reflexivity. Qed.
Lemma Ht : t = if kside then k0 + 2 else k0 - 2.
Proof. destruct (castle_N kside HS) as (Hm & _). unfold t. rewrite Hm. reflexivity. Qed.
Lemma Hpc : pc = if w then WKING else BKING.
Proof. destruct (castle_N kside HS) as (_ & HK & _). unfold pc. rewrite Hf. exact HK. Qed.
Lemma k0_val : k0 = 4 \/ k0 = 60.
Proof. unfold k0, E1, E8. destruct w; auto. Qed.

Lemma boardQ_castle :
  sqsQ = if kside
         then updN (k0 + 2) pc (updN k0 EMPTY (updN (k0 + 1) (if w then WROOK else BROOK) (updN (k0 + 3) EMPTY sqs)))
         else updN (k0 - 2) pc (updN k0 EMPTY (updN (k0 - 1) (if w then WROOK else BROOK) (updN (k0 - 4) EMPTY sqs))).
Proof.
  pose proof Hf as Ef. pose proof Ht as Et. pose proof Hpc as Ep. pose proof k0_val as Hk.
  assert (HKp : isKingPiece pc = true) by (rewrite Ep; destruct w; reflexivity).
  unfold sqsQ, q, pc, sqs, f, t, w in *.
  destruct (boardQ zk p m Hrev MF) as [_ _ Hkk|Ew _ _ _ _ _ _ _|Eb _ _ _ _ _ _ _|_ E2 _ _ _ _ _ Hq|_ E2 _ _ _ _ _ Hq].
  - exfalso. destruct (Hkk HKp) as (A & B). rewrite Ef, Et in A, B. destruct kside; lia.
  - exfalso. rewrite Ew in HKp. discriminate.
  - exfalso. rewrite Eb in HKp. discriminate.
  - rewrite Ef, Et in E2. destruct kside; [|exfalso; lia]. rewrite Hq, Ef, Et. reflexivity.
  - rewrite Ef, Et in E2. destruct kside; [exfalso; lia|]. rewrite Hq, Ef, Et. reflexivity.
Qed.

Lemma at_nthP b x y : on_board x y = true -> at_ b x y = nthP b (sq_of x y).
Proof. intro H. destruct (sq_of_coords x y H) as (_ & _ & _ & Hi). unfold at_, nthP. rewrite H, Hi. reflexivity. Qed.

Lemma lenS : length sqs = 64%nat.
Proof. apply (Hlen zk p Hrev). Qed.

(** Q agrees with P away from the four squares of the castling *)
Lemma at_Q_other x y :
  (on_board x y = true -> sq_of x y <> k0 /\ sq_of x y <> (if kside then k0 + 1 else k0 - 1) /\
                          sq_of x y <> (if kside then k0 + 2 else k0 - 2) /\ sq_of x y <> (if kside then k0 + 3 else k0 - 4)) ->
  at_ sqsQ x y = at_ sqs x y.
Proof.
  intro H. destruct (on_board x y) eqn:Hob; [|rewrite !at_off_board by exact Hob; reflexivity].
  destruct (H eq_refl) as (A & B & C & D). destruct (sq_of_coords x y Hob) as (Hs & _).
  rewrite !at_nthP by exact Hob. rewrite boardQ_castle. pose proof lenS as Hl.
  destruct kside; rewrite !nthP_updN by (rewrite ?length_updN, Hl; lia);
    repeat match goal with |- context [?a =? ?c] => destruct (N.eqb_spec a c); [exfalso; lia|] end; reflexivity.
Qed.

Lemma at_Q_val s v : s < 64 -> nthP sqsQ s = v -> at_ sqsQ (zf s) (zr s) = v.
Proof. intros Hs <-. symmetry. apply (getPiece_at q s Hs). Qed.

(** the four changed squares in Q *)
Lemma Q_vals :
  nthP sqsQ k0 = EMPTY /\ nthP sqsQ (if kside then k0 + 1 else k0 - 1) = (if w then WROOK else BROOK) /\
  nthP sqsQ (if kside then k0 + 2 else k0 - 2) = pc /\ nthP sqsQ (if kside then k0 + 3 else k0 - 4) = EMPTY.
Proof.
  rewrite boardQ_castle. pose proof lenS as Hl. pose proof k0_val as Hk.
  destruct kside; repeat split; rewrite !nthP_updN by (rewrite ?length_updN, Hl; lia);
    repeat match goal with |- context [?a =? ?c] => destruct (N.eqb_spec a c); try (exfalso; lia) end; reflexivity.
Qed.

Lemma two_bits_empty a c occ : (N.land (N.lor (bit a) (bit c)) occ =? 0) = negb (N.testbit occ a) && negb (N.testbit occ c).
Proof. rewrite land_lor_0, !land_bit_0. reflexivity. Qed.
Lemma three_bits_empty a b c occ :
  (N.land (N.lor (N.lor (bit a) (bit b)) (bit c)) occ =? 0) = negb (N.testbit occ a) && negb (N.testbit occ b) && negb (N.testbit occ c).
Proof. rewrite land_lor_0, land_lor_0, !land_bit_0. reflexivity. Qed.

Lemma occQ_empty s : nthP sqsQ s = EMPTY -> N.testbit (occupiedBB q) s = false.
Proof.
  intro H. unfold q. rewrite (occQ_bit zk EKZ p m Hrev MF s). fold q sqsQ. rewrite H. change (EMPTY =? EMPTY) with true. apply andb_false_r.
Qed.

Lemma kingSq_Q : kingSq q w = t.
Proof.
  pose proof (BOq zk EKZ p m Hrev MF) as BO. fold q in BO.
  destruct Q_vals as (V0 & V1 & V2 & V3). pose proof Hpc as Ep. pose proof k0_val as Hk. pose proof Ht as Et.
  assert (Ht64 : t < 64) by (rewrite Et; destruct kside; lia).
  assert (Emk : mk_piece w King = if w then WKING else BKING) by (destruct w; reflexivity).
  destruct (kingSq_spec_B q w BO) as (Hk64 & Hkp).
  - exists t. split; [exact Ht64|]. change (getPiece q t) with (nthP sqsQ t). rewrite Et, V2, Ep, Emk. reflexivity.
  - change (getPiece q (kingSq q w)) with (nthP sqsQ (kingSq q w)) in Hkp.
    destruct (N.eq_dec (kingSq q w) t) as [E|E]; [exact E|]. exfalso.
    set (s := kingSq q w) in *.
    (* s is none of the four squares, or holds no king *)
    destruct (N.eq_dec s k0) as [E0|E0]; [rewrite E0, V0 in Hkp; destruct w; discriminate|].
    destruct (N.eq_dec s (if kside then k0 + 1 else k0 - 1)) as [E1'|E1'].
    { assert (X : nthP sqsQ s = if w then WROOK else BROOK) by (rewrite E1'; exact V1). rewrite X in Hkp. destruct w; discriminate. }
    destruct (N.eq_dec s (if kside then k0 + 3 else k0 - 4)) as [E3|E3].
    { assert (X : nthP sqsQ s = EMPTY) by (rewrite E3; exact V3). rewrite X in Hkp. destruct w; discriminate. }
    rewrite Et in E.
    assert (Hsame : nthP sqsQ s = nthP sqs s).
    { rewrite boardQ_castle. pose proof lenS as Hl.
      destruct kside; rewrite !nthP_updN by (rewrite ?length_updN, Hl; lia);
        repeat match goal with |- context [?a =? ?c] => destruct (N.eqb_spec a c); [exfalso; congruence|] end; reflexivity. }
    rewrite Hsame in Hkp. apply E0.
    destruct Hrev as [_ Hwf _ _ _].
    assert (Hk0 : k0 < 64) by lia.
    apply (king_unique p w s k0 Hwf Hk64 Hk0 Hkp).
    change (getPiece p k0) with (nthP sqs k0). rewrite <- Hf. fold pc. rewrite Ep, Emk. reflexivity.
Qed.

Lemma not_pawn : isPawnPiece pc = false.
Proof. rewrite Hpc. destruct w; reflexivity. Qed.

(** the attack tests of the un-castle clause *)
Lemma safe_Q :
  sqAttackedT w q k0 (occupiedBB q) = false /\
  sqAttackedT w q (if kside then k0 + 1 else k0 - 1) (occupiedBB q) = false.
Proof.
  pose proof (BOq zk EKZ p m Hrev MF) as BO. fold q in BO. pose proof k0_val as Hk.
  rewrite !(sqAttacked_spec_B q w) by (try exact BO; destruct kside; lia).
  change (squares q) with sqsQ.
  destruct Q_vals as (V0 & V1 & V2 & V3). rewrite Hpc in V2.
  pose proof HS as HS'. unfold CastleSpec in HS'. cbv zeta in HS'. destruct HS' as (_ & PK & _ & PR & PE & S4 & S5).
  assert (AG : forall x y, (on_board x y = true -> sq_of x y <> k0 /\ sq_of x y <> (if kside then k0 + 1 else k0 - 1) /\
                          sq_of x y <> (if kside then k0 + 2 else k0 - 2) /\ sq_of x y <> (if kside then k0 + 3 else k0 - 4)) ->
                         at_ sqsQ x y = at_ sqs x y) by apply at_Q_other.
  unfold k0 in *.
  destruct w_cases as [Ew|Ew]; rewrite Ew in V0, V1, V2, V3, PK, PR, PE, S4, S5, AG |- *; unfold E1, E8 in *; destruct kside;
    cbn [negb] in S4, S5 |- *.
  - destruct PE as (P5 & P6).
    apply (transfer_WK sqs sqsQ); auto;
      try (apply (at_Q_val _ _ ltac:(lia)) in V0; exact V0); try (apply (at_Q_val _ _ ltac:(lia)) in V1; exact V1);
      try (apply (at_Q_val _ _ ltac:(lia)) in V2; exact V2); try (apply (at_Q_val _ _ ltac:(lia)) in V3; exact V3).
    intros x y Hc. apply AG. intro Hob. unfold on_board in Hob. rewrite !andb_true_iff, !Z.leb_le in Hob. unfold sq_of. lia.
  - destruct PE as (P1 & P2 & P3).
    apply (transfer_WQ sqs sqsQ); auto;
      try (apply (at_Q_val _ _ ltac:(lia)) in V0; exact V0); try (apply (at_Q_val _ _ ltac:(lia)) in V1; exact V1);
      try (apply (at_Q_val _ _ ltac:(lia)) in V2; exact V2); try (apply (at_Q_val _ _ ltac:(lia)) in V3; exact V3).
    intros x y Hc. apply AG. intro Hob. unfold on_board in Hob. rewrite !andb_true_iff, !Z.leb_le in Hob. unfold sq_of. lia.
  - destruct PE as (P5 & P6).
    apply (transfer_BK sqs sqsQ); auto;
      try (apply (at_Q_val _ _ ltac:(lia)) in V0; exact V0); try (apply (at_Q_val _ _ ltac:(lia)) in V1; exact V1);
      try (apply (at_Q_val _ _ ltac:(lia)) in V2; exact V2); try (apply (at_Q_val _ _ ltac:(lia)) in V3; exact V3).
    intros x y Hc. apply AG. intro Hob. unfold on_board in Hob. rewrite !andb_true_iff, !Z.leb_le in Hob. unfold sq_of. lia.
  - destruct PE as (P1 & P2 & P3).
    apply (transfer_BQ sqs sqsQ); auto;
      try (apply (at_Q_val _ _ ltac:(lia)) in V0; exact V0); try (apply (at_Q_val _ _ ltac:(lia)) in V1; exact V1);
      try (apply (at_Q_val _ _ ltac:(lia)) in V2; exact V2); try (apply (at_Q_val _ _ ltac:(lia)) in V3; exact V3).
    intros x y Hc. apply AG. intro Hob. unfold on_board in Hob. rewrite !andb_true_iff, !Z.leb_le in Hob. unfold sq_of. lia.
Qed.

Theorem raw_castle : In m (revMoveList q).
Proof.
  pose proof (BOq zk EKZ p m Hrev MF) as BO. fold q in BO. pose proof k0_val as Hk.
  pose proof (epQ_none zk p m Hrev MF not_pawn) as Eq. fold q in Eq.
  unfold revMoveList. cbv zeta. rewrite Eq. change ((-1 =? -1)%Z) with true. cbv iota.
  replace (genMovesNoUndoInfo q) with
    (revPromoBlock w q (revPawnBlock w q (revKingBlock w q (revKnightBlock w q (revBishopBlock w q (revRookBlock w q (revQueenBlock w q [])))))))
    by (symmetry; unfold q, w; apply (gen_unfold zk p m Hrev MF)).
  apply revPromoBlock_mono, revPawnBlock_mono.
  unfold revKingBlock. cbv zeta. rewrite kingSq_Q.
  destruct Q_vals as (V0 & V1 & V2 & V3). destruct safe_Q as (A4 & A5).
  pose proof Ht as Et. pose proof Hf as Ef.
  assert (Hm : m = mkMove k0 t EMPTY).
  { destruct (castle_N kside HS) as (Hm & _). rewrite Hm at 1. rewrite Et. reflexivity. }
  assert (O0 : N.testbit (occupiedBB q) k0 = false) by (apply occQ_empty; exact V0).
  assert (O3 : N.testbit (occupiedBB q) (if kside then k0 + 3 else k0 - 4) = false) by (apply occQ_empty; exact V3).
  assert (G1' : getPiece q (if kside then k0 + 1 else k0 - 1) = myPiece w WROOK).
  { change (getPiece q) with (nthP sqsQ). rewrite V1. destruct w; reflexivity. }
  (* the queen-side clause also wants b1 / b8 empty: unchanged from P *)
  assert (OB : kside = false -> N.testbit (occupiedBB q) (k0 - 3) = false).
  { intro Ek. apply occQ_empty.
    assert (Hsame : nthP sqsQ (k0 - 3) = nthP sqs (k0 - 3)).
    { rewrite boardQ_castle, Ek. pose proof lenS as Hl. rewrite !nthP_updN by (rewrite ?length_updN, Hl; lia).
      repeat match goal with |- context [?a =? ?c] => destruct (N.eqb_spec a c); [exfalso; lia|] end. reflexivity. }
    rewrite Hsame. destruct (castle_N kside HS) as (_ & _ & _ & _ & HE). rewrite Ek in HE. apply HE. }
  unfold k0 in *.
  destruct w_cases as [Ew|Ew]; rewrite Ew in Et, Hm, O0, O3, G1', OB, A4, A5 |- *;
    unfold E1, E8, G1, G8, C1, C8, F1, F8, D1, D8, H1, H8, A1, A8, B1, B8 in *;
    destruct kside; rewrite Et;
    change (4 + 1) with 5 in *; change (4 + 2) with 6 in *; change (4 + 3) with 7 in *;
    change (4 - 1) with 3 in *; change (4 - 2) with 2 in *; change (4 - 3) with 1 in *; change (4 - 4) with 0 in *;
    change (60 + 1) with 61 in *; change (60 + 2) with 62 in *; change (60 + 3) with 63 in *;
    change (60 - 1) with 59 in *; change (60 - 2) with 58 in *; change (60 - 3) with 57 in *; change (60 - 4) with 56 in *.
  - (* white O-O *)
    apply revCastleClause_mono. unfold revCastleClause. rewrite G1', !N.eqb_refl. cbn [andb].
    rewrite two_bits_empty, O0, O3, A4, A5. cbn [negb andb].
    assert (HB : bit 4 < 2 ^ 64) by (vm_compute; reflexivity). apply (proj2 (revAdd_In _ _ _ _ _ HB)). right. exists 4. split; [rewrite bit_bits; reflexivity | rewrite Et in Hm; exact Hm].
  - (* white O-O-O *)
    unfold revCastleClause at 1. change (2 =? 6) with false. cbn [andb].
    unfold revCastleClause. rewrite G1', !N.eqb_refl. cbn [andb].
    rewrite three_bits_empty, O0, O3, (OB eq_refl), A4, A5. cbn [negb andb].
    assert (HB : bit 4 < 2 ^ 64) by (vm_compute; reflexivity). apply (proj2 (revAdd_In _ _ _ _ _ HB)). right. exists 4. split; [rewrite bit_bits; reflexivity | rewrite Et in Hm; exact Hm].
  - (* black O-O *)
    apply revCastleClause_mono. unfold revCastleClause. rewrite G1', !N.eqb_refl. cbn [andb].
    rewrite two_bits_empty, O0, O3, A4, A5. cbn [negb andb].
    assert (HB : bit 60 < 2 ^ 64) by (vm_compute; reflexivity). apply (proj2 (revAdd_In _ _ _ _ _ HB)). right. exists 60. split; [rewrite bit_bits; reflexivity | rewrite Et in Hm; exact Hm].
  - (* black O-O-O *)
    unfold revCastleClause at 1. change (58 =? 62) with false. cbn [andb].
    unfold revCastleClause. rewrite G1', !N.eqb_refl. cbn [andb].
    rewrite three_bits_empty, O0, O3, (OB eq_refl), A4, A5. cbn [negb andb].
    assert (HB : bit 60 < 2 ^ 64) by (vm_compute; reflexivity). apply (proj2 (revAdd_In _ _ _ _ _ HB)). right. exists 60. split; [rewrite bit_bits; reflexivity | rewrite Et in Hm; exact Hm].
Qed.

End Raw.

End Castle.

(** * Completeness for castling *)
Theorem complete_castle zk (EKZ : emptyKeysZero zk) p m incl :
  WFrev zk p ->
  (incl = true \/ epSquare p = (-1)%Z \/
   (isPawnPiece (getPiece p (mfrom m)) = true /\ Z.of_N (mto m) = epSquare p)) ->
  In m (castleMoves (whiteMove p) p (occupiedBB p) (kingSq p (whiteMove p)) []) -> CompleteAt zk p m incl.
Proof.
  intros Hrev Hinc Hin. pose proof (wr_wf zk p Hrev) as Hwf'.
  assert (Hps : In m (pseudoLegalMoves p)).
  { unfold pseudoLegalMoves, pseudoLegalMovesT. cbv zeta.
    apply (pawnBlock_app p Hwf'). left. apply (knightBlock_app p Hwf'). left. apply (castleMoves_app p). right. exact Hin. }
  destruct (pseudo_move_good p Hwf' m Hps) as (_ & Hok & _).
  pose proof (proj1 (castleMoves_spec p Hwf' m) Hin) as Hin'.
  destruct (castle_parse zk p m Hok Hin') as (kside & HS).
  pose proof (castle_moveFacts p m Hok kside HS) as MF.
  apply (complete_given_raw zk EKZ p m incl Hrev MF Hinc).
  apply (raw_castle zk EKZ p m Hrev Hok kside HS).
Qed.
