(** C15 proofs, part 9: castling.  From the Spec's castling conditions to [MoveFacts] and to the
    un-castle clauses of genMovesNoUndoInfo: the king's home square and the rook's square are not
    attacked in Q because they were not attacked in P. *)
From Coq Require Import ZArith NArith List Bool Lia.
From Texel Require Import Chess.Types Chess.Position Chess.PositionSpec Chess.PositionFacts
  Chess.PositionProofs Chess.PositionProofs2 Chess.PositionProofs3 Chess.PositionProofs4 Chess.PositionTheorems
  Chess.PositionSources Chess.Fen Chess.Spec Chess.BitBoard Chess.MoveGen Chess.MoveGenWF Chess.MoveGenProofs
  Chess.BitBoardProofs Chess.RayProofs Chess.SliderProofs Chess.AttackProofs Chess.PawnProofs Chess.PseudoProofs
  Chess.MakeSpecProofs gen.BitBoardTables
  RevGen.RevGen RevGen.RevFacts RevGen.RevAbs RevGen.RevRestore RevGen.RevValid RevGen.RevCand RevGen.RevRaw RevGen.RevLegal.
Import ListNotations.
Local Open Scope N_scope.


(** * the king's home square and the rook's square stay unattacked (Spec level, board against board) *)
Ltac split_false H :=
  repeat match type of H with
         | (_ || _)%bool = false => let A := fresh "A" in apply orb_false_iff in H; destruct H as [A H]; try split_false A
         end.
Ltac finish_false := repeat (apply orb_false_iff; split); try reflexivity; try assumption.
Ltac transfer P4 P5 P6 P7 Q4 Q5 Q6 Q7 Hag S4 S5 :=
  unfold attacked_by in *; cbn in S4, S5 |- *;
  rewrite ?Q4, ?Q5, ?Q6, ?Q7; rewrite !Hag by lia;
  rewrite ?P4, ?P5, ?P6, ?P7 in S4, S5 |- *; cbn in S4, S5 |- *;
  split_false S4; split_false S5; split; finish_false.

Local Open Scope Z_scope.
Opaque at_.
Lemma transfer_WK (P Q : board) :
  (forall x y, (y <> 0 \/ x <= 3) -> at_ Q x y = at_ P x y) ->
  at_ P 4 0 = WKING -> at_ P 5 0 = EMPTY -> at_ P 6 0 = EMPTY -> at_ P 7 0 = WROOK ->
  at_ Q 4 0 = EMPTY -> at_ Q 5 0 = WROOK -> at_ Q 6 0 = WKING -> at_ Q 7 0 = EMPTY ->
  attacked_by P false 4 0 = false -> attacked_by P false 5 0 = false ->
  attacked_by Q false 4 0 = false /\ attacked_by Q false 5 0 = false.
Proof. intros Hag P4 P5 P6 P7 Q4 Q5 Q6 Q7 S4 S5. transfer P4 P5 P6 P7 Q4 Q5 Q6 Q7 Hag S4 S5. Qed.

Lemma transfer_BK (P Q : board) :
  (forall x y, (y <> 7 \/ x <= 3) -> at_ Q x y = at_ P x y) ->
  at_ P 4 7 = BKING -> at_ P 5 7 = EMPTY -> at_ P 6 7 = EMPTY -> at_ P 7 7 = BROOK ->
  at_ Q 4 7 = EMPTY -> at_ Q 5 7 = BROOK -> at_ Q 6 7 = BKING -> at_ Q 7 7 = EMPTY ->
  attacked_by P true 4 7 = false -> attacked_by P true 5 7 = false ->
  attacked_by Q true 4 7 = false /\ attacked_by Q true 5 7 = false.
Proof. intros Hag P4 P5 P6 P7 Q4 Q5 Q6 Q7 S4 S5. transfer P4 P5 P6 P7 Q4 Q5 Q6 Q7 Hag S4 S5. Qed.

Lemma transfer_WQ (P Q : board) :
  (forall x y, (y <> 0 \/ 5 <= x \/ x = 1) -> at_ Q x y = at_ P x y) ->
  at_ P 4 0 = WKING -> at_ P 3 0 = EMPTY -> at_ P 2 0 = EMPTY -> at_ P 1 0 = EMPTY -> at_ P 0 0 = WROOK ->
  at_ Q 4 0 = EMPTY -> at_ Q 3 0 = WROOK -> at_ Q 2 0 = WKING -> at_ Q 0 0 = EMPTY ->
  attacked_by P false 4 0 = false -> attacked_by P false 3 0 = false ->
  attacked_by Q false 4 0 = false /\ attacked_by Q false 3 0 = false.
Proof.
  intros Hag P4 P3 P2 P1 P0 Q4 Q3 Q2 Q0 S4 S3.
  unfold attacked_by in *; cbn in S4, S3 |- *.
  rewrite ?Q4, ?Q3, ?Q2, ?Q0. rewrite !Hag by lia.
  rewrite ?P4, ?P3, ?P2, ?P1, ?P0 in S4, S3 |- *. cbn in S4, S3 |- *.
  split_false S4; split_false S3; split; finish_false.
Qed.

Lemma transfer_BQ (P Q : board) :
  (forall x y, (y <> 7 \/ 5 <= x \/ x = 1) -> at_ Q x y = at_ P x y) ->
  at_ P 4 7 = BKING -> at_ P 3 7 = EMPTY -> at_ P 2 7 = EMPTY -> at_ P 1 7 = EMPTY -> at_ P 0 7 = BROOK ->
  at_ Q 4 7 = EMPTY -> at_ Q 3 7 = BROOK -> at_ Q 2 7 = BKING -> at_ Q 0 7 = EMPTY ->
  attacked_by P true 4 7 = false -> attacked_by P true 3 7 = false ->
  attacked_by Q true 4 7 = false /\ attacked_by Q true 3 7 = false.
Proof.
  intros Hag P4 P3 P2 P1 P0 Q4 Q3 Q2 Q0 S4 S3.
  unfold attacked_by in *; cbn in S4, S3 |- *.
  rewrite ?Q4, ?Q3, ?Q2, ?Q0. rewrite !Hag by lia.
  rewrite ?P4, ?P3, ?P2, ?P1, ?P0 in S4, S3 |- *. cbn in S4, S3 |- *.
  split_false S4; split_false S3; split; finish_false.
Qed.
Transparent at_.
Local Open Scope N_scope.

Section Castle.
Variable zk : zkeys.
Hypothesis EKZ : emptyKeysZero zk.
Variable p : position.
Variable m : move.
Hypothesis Hrev : WFrev zk p.
Hypothesis Hok : moveOk p m = true.

Let f := mfrom m.
Let t := mto m.
Let sqs := squares p.
Let pc := nthP sqs f.
Let cap := nthP sqs t.
Let w := whiteMove p.
Let q := successor zk p m.
Let sqsQ := squares q.

(** the Spec's castling conditions *)
Definition CastleSpec (kside : bool) : Prop :=
  let r := (if w then 0 else 7)%Z in
  m = mv 4 r (if kside then 6 else 2) r EMPTY /\
  at_ sqs 4 r = mk_piece w King /\
  has_right (abs p) w kside = true /\
  at_ sqs (if kside then 7 else 0) r = mk_piece w Rook /\
  (if kside then at_ sqs 5 r = EMPTY /\ at_ sqs 6 r = EMPTY
   else at_ sqs 1 r = EMPTY /\ at_ sqs 2 r = EMPTY /\ at_ sqs 3 r = EMPTY) /\
  attacked_by sqs (negb w) 4 r = false /\
  attacked_by sqs (negb w) (if kside then 5 else 3) r = false.

Lemma castle_parse : In m (castle_moves_pseudo (abs p)) -> exists kside, CastleSpec kside.
Proof.
  unfold castle_moves_pseudo. cbv zeta. cbn [abs sp_board sp_white]. fold sqs w.
  set (r := (if w then 0 else 7)%Z).
  destruct (is_piece w King (at_ sqs 4 r) && negb (attacked_by sqs (negb w) 4 r)) eqn:H0; [|intros []].
  apply andb_true_iff in H0. destruct H0 as (HK & HS4). rewrite is_piece_eqb in HK. apply N.eqb_eq in HK. apply negb_true_iff in HS4.
  intro H. apply in_app_iff in H. destruct H as [H|H].
  - destruct (has_right (abs p) w true && _ && _ && _ && _) eqn:C in H; [|destruct H].
    destruct H as [<-|[]]. rewrite !andb_true_iff in C. destruct C as ((((C1 & C2) & C3) & C4) & C5).
    rewrite is_piece_eqb in C2. apply N.eqb_eq in C2, C3, C4. apply negb_true_iff in C5.
    exists true. unfold CastleSpec. cbv zeta. fold r. repeat split; auto.
  - destruct (has_right (abs p) w false && _ && _ && _ && _ && _) eqn:C in H; [|destruct H].
    destruct H as [<-|[]]. rewrite !andb_true_iff in C. destruct C as (((((C1 & C2) & C3) & C4) & C5) & C6).
    rewrite is_piece_eqb in C2. apply N.eqb_eq in C2, C3, C4, C5. apply negb_true_iff in C6.
    exists false. unfold CastleSpec. cbv zeta. fold r. repeat split; auto.
Qed.

Lemma w_cases : w = true \/ w = false.
Proof. destruct (Bool.bool_dec w true) as [E|E]; [left; exact E | right; apply Bool.not_true_is_false; exact E]. Qed.

Definition k0 : square := if w then E1 else E8.
Definition rightBit (kside : bool) : N := if w then (if kside then 1 else 0) else (if kside then 3 else 2).

(** the same conditions on squares *)
Lemma castle_N kside : CastleSpec kside ->
  m = mkMove k0 (if kside then k0 + 2 else k0 - 2) EMPTY /\
  nthP sqs k0 = (if w then WKING else BKING) /\
  N.testbit (castleMask p) (rightBit kside) = true /\
  nthP sqs (if kside then k0 + 3 else k0 - 4) = (if w then WROOK else BROOK) /\
  (if kside then nthP sqs (k0 + 1) = EMPTY /\ nthP sqs (k0 + 2) = EMPTY
   else nthP sqs (k0 - 1) = EMPTY /\ nthP sqs (k0 - 2) = EMPTY /\ nthP sqs (k0 - 3) = EMPTY).
Proof.
  unfold CastleSpec, k0, rightBit, has_right. cbv zeta. cbn [abs sp_castle].
  destruct w_cases as [Ew|Ew]; rewrite Ew; destruct kside; intros (Hm & HK & HR & HRk & HE & _ & _); rewrite Hm;
    (split; [reflexivity|]); (split; [exact HK|]); (split; [exact HR|]); (split; [exact HRk|]);
    first [exact HE | (destruct HE as (A & B & C); exact (conj C (conj B A)))].
Qed.

Lemma castle_moveFacts kside : CastleSpec kside -> MoveFacts p m.
Proof.
  intro HS. destruct (castle_N kside HS) as (Hm & HK & HR & HRk & HE).
  assert (Hf : f = k0) by (unfold f; rewrite Hm; reflexivity).
  assert (Ht : t = if kside then k0 + 2 else k0 - 2) by (unfold t; rewrite Hm; reflexivity).
  assert (Hpc : pc = if w then WKING else BKING) by (unfold pc; rewrite Hf; exact HK).
  assert (Hnp : isPawnPiece pc = false) by (rewrite Hpc; destruct w; reflexivity).
  assert (Hcap : cap = EMPTY).
  { unfold cap. rewrite Ht. destruct kside; [apply HE|]. destruct HE as (_ & H2 & _). exact H2. }
  constructor.
  - exact Hok.
  - unfold pushOk. cbn [abs sp_board]. fold f sqs. change (nthP sqs f) with pc. rewrite Hpc.
    split; intro E; exfalso; destruct w; discriminate.
  - fold t. change (getPiece p t) with cap. rewrite Hcap. reflexivity.
  - intros _. right. fold f t. change (getPiece p t) with cap. split; [exact Hcap|].
    rewrite Hf, Ht. unfold k0, rightBit in *.
    destruct w_cases as [Ew|Ew]; rewrite Ew in HR |- *; destruct kside.
    + left. auto.
    + right. left. auto.
    + right. right. left. auto.
    + right. right. right. auto.
  - fold f. change (getPiece p f) with pc. rewrite Hnp. discriminate.
  - fold f. change (getPiece p f) with pc. rewrite Hnp. discriminate.
  - fold f. change (getPiece p f) with pc. rewrite Hnp. discriminate.
Qed.

End Castle.
