(** Executable model of lib/texelutillib/revmovegen.{hpp,cpp} (RevMoveGen), written like the C++:
    [genMovesNoUndoInfo] piece block by piece block, the lambdas of [genMoves]
    ([validCapturePiece], [getBaseCastleMask], [getCastleAddMask] with its [maxMask],
    [mustBeEpCapture], [getEpMask]), the triple loop over captured piece / castle-mask
    alternative / en-passant file, and [knownInvalid] with [pieceCountsValid],
    MoveGen::canTakeKing and the two TextIO::fixupEPSquare tests.

    Built on the shared chess model: Chess/Position.v (makeMove / unMakeMove), Chess/BitBoard.v
    (attack sets, bit scan), Chess/MoveGen.v (sqAttacked, canTakeKing, bit loops), Chess/Fen.v
    (fixupEPSquare).  Move lists are Coq lists in the order in which the C++ appends.
    No proofs in this file. *)
From Coq Require Import ZArith NArith List Bool.
From Texel Require Import Chess.Types Chess.Position Chess.BitBoard Chess.MoveGen Chess.Fen gen.BitBoardTables.
Import ListNotations.
Local Open Scope N_scope.

(** UnMove (revmovegen.hpp) *)
Record unMove := mkUnMove { um_move : move; um_ui : undoInfo }.

(** Piece::makeBlack *)
Definition makeBlack (pc : piece) : piece := if (EMPTY <? pc) && (pc <? BKING) then pc + 6 else pc.

(** RevMoveGen::addMovesByMask(moveList, fromMask, toSq, promoteTo) *)
Definition revAddMovesByMask (l : moveList) (fromMask : N) (toSq : square) (promoteTo : piece) : moveList :=
  forSquares fromMask (fun l sq0 => addMove l sq0 toSq promoteTo) l.

(** "1ULL << (sq + d)" with [sq + d] computed on int *)
Definition bitAt (sq : square) (d : Z) : N := bit (sqAdd sq d).

(* ------------------------------------------------------------------ *)
(** * genMovesNoUndoInfo, block by block ([wtm] = the side making the un-moves) *)

Definition revQueenBlock (wtm : bool) (pos : position) (l : moveList) : moveList :=
  let occupied := occupiedBB pos in
  forSquares (ptBB pos (myPiece wtm WQUEEN)) (fun l sq =>
    let m := andn (N.lor (rookAttacks sq occupied) (bishopAttacks sq occupied)) occupied in
    revAddMovesByMask l m sq EMPTY) l.

(** rooks standing on a corner whose castling flag is still set have not moved *)
Definition revRookSquares (wtm : bool) (pos : position) : N :=
  let squares := ptBB pos (myPiece wtm WROOK) in
  let squares := if a1Castle pos then andn squares (bit A1) else squares in
  let squares := if h1Castle pos then andn squares (bit H1) else squares in
  let squares := if a8Castle pos then andn squares (bit A8) else squares in
  let squares := if h8Castle pos then andn squares (bit H8) else squares in
  squares.

Definition revRookBlock (wtm : bool) (pos : position) (l : moveList) : moveList :=
  let occupied := occupiedBB pos in
  forSquares (revRookSquares wtm pos) (fun l sq =>
    let m := andn (rookAttacks sq occupied) occupied in
    revAddMovesByMask l m sq EMPTY) l.

Definition revBishopBlock (wtm : bool) (pos : position) (l : moveList) : moveList :=
  let occupied := occupiedBB pos in
  forSquares (ptBB pos (myPiece wtm WBISHOP)) (fun l sq =>
    let m := andn (bishopAttacks sq occupied) occupied in
    revAddMovesByMask l m sq EMPTY) l.

Definition revKnightBlock (wtm : bool) (pos : position) (l : moveList) : moveList :=
  let occupied := occupiedBB pos in
  forSquares (ptBB pos (myPiece wtm WKNIGHT)) (fun l sq =>
    let m := andn (knightAttacks sq) occupied in
    revAddMovesByMask l m sq EMPTY) l.

(** one of the two "un-castle" clauses: king on [kSq], rook on [rSq], the squares of [emptyMask]
    free, king's home square and the rook's square not attacked *)
Definition revCastleClause (wtm : bool) (pos : position) (occupied : N) (sq k0Sq kSq rSq : square) (emptyMask : N)
                           (l : moveList) : moveList :=
  if (sq =? kSq) && (getPiece pos rSq =? myPiece wtm WROOK) then
    if (N.land emptyMask occupied =? 0) &&
       negb (sqAttackedT wtm pos k0Sq occupied) &&
       negb (sqAttackedT wtm pos rSq occupied)
    then revAddMovesByMask l (bit k0Sq) kSq EMPTY
    else l
  else l.

Definition revKingBlock (wtm : bool) (pos : position) (l : moveList) : moveList :=
  let occupied := occupiedBB pos in
  let sq := kingSq pos wtm in
  if negb (((sq =? E1) && (a1Castle pos || h1Castle pos)) ||
           ((sq =? E8) && (a8Castle pos || h8Castle pos))) then
    let m := andn (kingAttacks sq) occupied in
    let l := revAddMovesByMask l m sq EMPTY in
    let k0Sq := if wtm then E1 else E8 in
    (* Short castle *)
    let l := revCastleClause wtm pos occupied sq k0Sq (if wtm then G1 else G8) (if wtm then F1 else F8)
                             (if wtm then N.lor (bit E1) (bit H1) else N.lor (bit E8) (bit H8)) l in
    (* Long castle *)
    revCastleClause wtm pos occupied sq k0Sq (if wtm then C1 else C8) (if wtm then D1 else D8)
                    (if wtm then N.lor (N.lor (bit A1) (bit B1)) (bit E1) else N.lor (N.lor (bit A8) (bit B8)) (bit E8)) l
  else l.

(** un-moves of a pawn standing on [sq]: straight, diagonal, double step *)
Definition revPawnFromMask (wtm : bool) (occupied : N) (sq : square) : N :=
  let m := if wtm then andn (N.lor (bPawnAttacks sq) (bitAt sq (-8))) maskRow1
           else andn (N.lor (wPawnAttacks sq) (bitAt sq 8)) maskRow8 in
  let m :=
    if sqY sq =? (if wtm then 3 else 4) then
      if N.land (bitAt sq (if wtm then -8 else 8)%Z) occupied =? 0
      then N.lor m (bitAt sq (if wtm then -16 else 16)%Z) else m
    else m in
  andn m occupied.

Definition revPawnBlock (wtm : bool) (pos : position) (l : moveList) : moveList :=
  let occupied := occupiedBB pos in
  forSquares (ptBB pos (myPiece wtm WPAWN)) (fun l sq =>
    revAddMovesByMask l (revPawnFromMask wtm occupied sq) sq EMPTY) l.

(** un-promotions: every piece of the side on its last rank may be a promoted pawn *)
Definition revPromoBlock (wtm : bool) (pos : position) (l : moveList) : moveList :=
  let occupied := occupiedBB pos in
  forSquares (N.land (colorBB pos wtm) (if wtm then maskRow8 else maskRow1)) (fun l sq =>
    let promoteTo := getPiece pos sq in
    if (promoteTo =? WKING) || (promoteTo =? BKING) then l
    else
      let m := if wtm then N.lor (bPawnAttacks sq) (bitAt sq (-8))
               else N.lor (wPawnAttacks sq) (bitAt sq 8) in
      let m := andn m occupied in
      revAddMovesByMask l m sq promoteTo) l.

Definition genMovesNoUndoInfo (pos : position) : moveList :=
  let wtm := negb (whiteMove pos) in        (* Other side makes the un-moves *)
  let l : moveList := [] in
  let l := revQueenBlock wtm pos l in
  let l := revRookBlock wtm pos l in
  let l := revBishopBlock wtm pos l in
  let l := revKnightBlock wtm pos l in
  let l := revKingBlock wtm pos l in
  let l := revPawnBlock wtm pos l in
  revPromoBlock wtm pos l.

(** the move list of genMoves: with an en-passant square the last move was the double push *)
Definition revMoveList (pos : position) : moveList :=
  let wtm := negb (whiteMove pos) in
  if (epSquare pos =? -1)%Z then genMovesNoUndoInfo pos
  else
    let epSq := Z.to_N (epSquare pos) in
    let delta := if wtm then 8%Z else (-8)%Z in
    revAddMovesByMask [] (bitAt epSq (- delta)) (sqAdd epSq delta) EMPTY.

(* ------------------------------------------------------------------ *)
(** * The lambdas of genMoves *)

(** Return true if "piece" is a valid captured piece (ignoring piece color) for a move *)
Definition validCapturePiece (m : move) (movingPiece captPiece : piece) : bool :=
  if captPiece =? EMPTY then true
  else if captPiece =? WKING then false
  else
    let shapeOk :=
      if (movingPiece =? WKING) || (movingPiece =? BKING) then
        negb (1 <? getKingDistance (mfrom m) (mto m))%Z          (* Castling moves cannot capture *)
      else if (movingPiece =? WPAWN) || (movingPiece =? BPAWN) then
        negb (sqX (mfrom m) =? sqX (mto m))                     (* Only diagonal pawn moves can capture *)
      else true in
    if negb shapeOk then false
    else if (captPiece =? WPAWN) && nz (N.land (bit (mto m)) maskRow1Row8) then false
    else true.

(** Return minimum valid castle mask given a position and a move to be undone *)
Definition getBaseCastleMask (pos : position) (m : move) (movingPiece : piece) : N :=
  let mask := castleMask pos in
  if ((movingPiece =? WKING) || (movingPiece =? BKING)) && (1 <? getKingDistance (mfrom m) (mto m))%Z then
    if mto m =? G1 then N.lor mask (bit H1_CASTLE)
    else if mto m =? G8 then N.lor mask (bit H8_CASTLE)
    else if mto m =? C1 then N.lor mask (bit A1_CASTLE)
    else if mto m =? C8 then N.lor mask (bit A8_CASTLE)
    else mask
  else mask.

(** maxMask: maximum castle mask for a board state (only a1 e1 h1 a8 e8 h8 are read) *)
Definition boardAt (board : list piece) (sq : square) : piece := nth (N.to_nat sq) board EMPTY.
Definition maxCastleMask (board : list piece) : N :=
  let cm := 0 in
  let cm :=
    if boardAt board E1 =? WKING then
      let cm := if boardAt board A1 =? WROOK then N.lor cm (bit A1_CASTLE) else cm in
      if boardAt board H1 =? WROOK then N.lor cm (bit H1_CASTLE) else cm
    else cm in
  if boardAt board E8 =? BKING then
    let cm := if boardAt board A8 =? BROOK then N.lor cm (bit A8_CASTLE) else cm in
    if boardAt board H8 =? BROOK then N.lor cm (bit H8_CASTLE) else cm
  else cm.

(** the board before the move as far as the six castling squares are concerned *)
Definition castleBoardBefore (pos : position) (m : move) (movingPiece capturedPiece : piece) : list piece :=
  let board := squares pos in
  let board := updN (mfrom m) movingPiece board in
  let board := updN (mto m) capturedPiece board in
  let board :=
    if (movingPiece =? WKING) && (mfrom m =? E1) then
      if mto m =? G1 then updN H1 WROOK board
      else if mto m =? C1 then updN A1 WROOK board
      else board
    else board in
  if (movingPiece =? BKING) && (mfrom m =? E8) then
    if mto m =? G8 then updN H8 BROOK board
    else if mto m =? C8 then updN A8 BROOK board
    else board
  else board.

(** Return mask of possible additional castling flags for a move *)
Definition getCastleAddMask (pos : position) (m : move) (movingPiece capturedPiece : piece) : N :=
  let maxMask0 := maxCastleMask (squares pos) in
  andn (maxCastleMask (castleBoardBefore pos m movingPiece capturedPiece)) maxMask0.

(** Return true if "m" can only be valid if it is an en passant capture *)
Definition mustBeEpCapture (m : move) (movingPiece capturedPiece : piece) : bool :=
  (makeWhite movingPiece =? WPAWN) && negb (sqX (mfrom m) =? sqX (mto m)) && (capturedPiece =? EMPTY).

(** the board before the move for the en-passant test *)
Definition epBoardBefore (pos : position) (m : move) (movingPiece capturedPiece : piece) (isEp : bool)
                         (x yDn : N) (oPawn : piece) : list piece :=
  let board := squares pos in
  let board := updN (mfrom m) movingPiece board in
  let board := updN (mto m) capturedPiece board in
  if isEp then updN (mkSq x yDn) oPawn board else board.

(** Return possible en passant files as a bit mask. Bit 8 corresponds to "no en passant file" *)
Definition getEpMask (pos : position) (m : move) (movingPiece capturedPiece : piece) (includeAllEpSquares : bool) : N :=
  let wtm := negb (whiteMove pos) in
  let y := if wtm then 5 else 2 in              (* En passant row *)
  let yUp := if wtm then 6 else 1 in            (* y + dy *)
  let yDn := if wtm then 4 else 3 in            (* y - dy *)
  let pawn := if wtm then WPAWN else BPAWN in
  let oPawn := if wtm then BPAWN else WPAWN in
  let epFileMask := if includeAllEpSquares then 255 else 0 in
  let x := sqX (mto m) in
  let epCase := mustBeEpCapture m movingPiece capturedPiece && (sqY (mto m) =? y) in
  let bothEmpty := (getPiece pos (mkSq x yUp) =? EMPTY) && (getPiece pos (mkSq x yDn) =? EMPTY) in
  if epCase && negb bothEmpty then 0                (* Move invalid regardless of EP square *)
  else
    let isEp := epCase in
    let epFileMask := if isEp then N.lor epFileMask (bit x) else epFileMask in
    let mask := bit 8 in
    if negb (epFileMask =? 0) then
      let board := epBoardBefore pos m movingPiece capturedPiece isEp x yDn oPawn in
      forSquares epFileMask (fun mask x =>
        if negb (boardAt board (mkSq x yUp) =? EMPTY) ||
           negb (boardAt board (mkSq x y) =? EMPTY) ||
           negb (boardAt board (mkSq x yDn) =? oPawn) then mask
        else if ((0 <? x) && (boardAt board (mkSq (x - 1) yDn) =? pawn)) ||
                ((x <? 7) && (boardAt board (mkSq (x + 1) yDn) =? pawn))
        then N.lor mask (bit x) else mask) mask
    else mask.

(* ------------------------------------------------------------------ *)
(** * knownInvalid *)

Definition pieceCnt (pos : position) (pc : piece) : Z := Z.of_N (bitCountT (ptBB pos pc)).

(** Return false if the piece counts are known to be impossible to obtain from the starting
    position using promotions and captures *)
Definition pieceCountsValid (pos : position) : bool :=
  let maxWPawns := 8%Z in
  let maxWPawns := (maxWPawns - Z.max 0 (pieceCnt pos WKNIGHT - 2))%Z in
  let maxWPawns := (maxWPawns - Z.max 0 (pieceCnt pos WBISHOP - 2))%Z in
  let maxWPawns := (maxWPawns - Z.max 0 (pieceCnt pos WROOK - 2))%Z in
  let maxWPawns := (maxWPawns - Z.max 0 (pieceCnt pos WQUEEN - 1))%Z in
  if (maxWPawns <? pieceCnt pos WPAWN)%Z then false
  else
    let maxBPawns := 8%Z in
    let maxBPawns := (maxBPawns - Z.max 0 (pieceCnt pos BKNIGHT - 2))%Z in
    let maxBPawns := (maxBPawns - Z.max 0 (pieceCnt pos BBISHOP - 2))%Z in
    let maxBPawns := (maxBPawns - Z.max 0 (pieceCnt pos BROOK - 2))%Z in
    let maxBPawns := (maxBPawns - Z.max 0 (pieceCnt pos BQUEEN - 1))%Z in
    if (maxBPawns <? pieceCnt pos BPAWN)%Z then false else true.

Section WithKeys.
Variable zk : zkeys.

(** the four tests, each on the position the C++ has at that point *)
Definition kiPrev (pos : position) (m : move) (ui : undoInfo) : position := unMakeMove zk pos m ui.
Definition kiEpStable (tmpPos : position) : bool :=
  (epSquare tmpPos =? epSquare (fixupEPSquare zk tmpPos))%Z.
Definition kiRemade (tmpPos : position) (m : move) : position :=
  fixupEPSquare zk (fst (makeMove zk (fixupEPSquare zk tmpPos) m)).

(** Return true if the position reached by undoing "m" is known to be invalid *)
Definition knownInvalid (pos : position) (m : move) (ui : undoInfo) : bool :=
  let tmpPos := kiPrev pos m ui in
  if negb (pieceCountsValid tmpPos) then true
  else
    let '(tmpPos, ctk) := canTakeKing zk tmpPos in
    if ctk then true
    else if negb (kiEpStable tmpPos) then true
    else if negb (epSquare (kiRemade tmpPos m) =? epSquare pos)%Z then true
    else false.

(* ------------------------------------------------------------------ *)
(** * genMoves *)

(** for (castle = add; ; castle = (castle - 1) & add) { ...; if (castle == 0) break; } *)
Fixpoint castleLoop (fuel : nat) (add castle : N) : list N :=
  match fuel with
  | O => [castle]
  | S k => if castle =? 0 then [castle] else castle :: castleLoop k add (N.land (castle - 1) add)
  end.
Definition castleAlternatives (add : N) : list N := castleLoop 16 add add.

(** while (epMask != 0) { int epFile = BitUtil::extractBit(epMask); ... } *)
Definition epFiles (epMask : N) : list N := forSquares epMask (fun l f => l ++ [f]) [].

Definition epSquareOfFile (wtm : bool) (epFile : N) : Z :=
  if epFile =? 8 then (-1)%Z else Z.of_N (mkSq epFile (if wtm then 5 else 2)).

Definition movingPieceOf (pos : position) (m : move) : piece :=
  if mpromote m =? EMPTY then getPiece pos (mto m)
  else if negb (whiteMove pos) then WPAWN else BPAWN.

(** the UndoInfo candidates of one move, before knownInvalid *)
Definition candidatesFor (pos : position) (includeAllEpSquares : bool) (m : move) : list unMove :=
  let wtm := negb (whiteMove pos) in
  let movingPiece := movingPieceOf pos m in
  flat_map (fun p0 =>
    if negb (validCapturePiece m movingPiece p0) then []
    else
      let captured := if wtm then makeBlack p0 else p0 in
      let baseCastleMask := getBaseCastleMask pos m movingPiece in
      let castleAddMask := andn (getCastleAddMask pos m movingPiece captured) baseCastleMask in
      flat_map (fun castle =>
        let cm := N.lor baseCastleMask castle in
        let epMask := getEpMask pos m movingPiece captured includeAllEpSquares in
        flat_map (fun epFile =>
          let ep := epSquareOfFile wtm epFile in
          if mustBeEpCapture m movingPiece captured && negb (Z.of_N (mto m) =? ep)%Z then []
          else [mkUnMove m (mkUndo captured cm ep 0%Z)])
          (epFiles epMask))
        (castleAlternatives castleAddMask))
    [EMPTY; WKING; WQUEEN; WROOK; WBISHOP; WKNIGHT; WPAWN].

Definition candidates (pos : position) (includeAllEpSquares : bool) : list unMove :=
  flat_map (candidatesFor pos includeAllEpSquares) (revMoveList pos).

Definition genMoves (pos : position) (includeAllEpSquares : bool) : list unMove :=
  filter (fun um => negb (knownInvalid pos (um_move um) (um_ui um))) (candidates pos includeAllEpSquares).

End WithKeys.
