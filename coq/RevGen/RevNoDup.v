(** C15 proofs, part 11: the list of un-moves has no duplicates. *)
From Coq Require Import ZArith NArith List Bool Lia.
From Texel Require Import Chess.Types Chess.Position Chess.PositionSpec Chess.PositionFacts
  Chess.PositionProofs Chess.PositionProofs2 Chess.PositionProofs3
  Chess.Fen Chess.Spec Chess.BitBoard Chess.MoveGen Chess.MoveGenWF Chess.MoveGenProofs
  Chess.BitBoardProofs Chess.AttackProofs gen.BitBoardTables
  RevGen.RevGen RevGen.RevFacts RevGen.RevCand RevGen.RevRaw RevGen.RevPawn RevGen.RevCons.
Import ListNotations.
Local Open Scope N_scope.

(** * the squares a bit loop visits *)
Fixpoint bitsOf (fuel : nat) (mask : N) : list square :=
  match fuel with
  | O => []
  | S k => if mask =? 0 then [] else firstSquare mask :: bitsOf k (clearLowest mask)
  end.

Lemma bbLoop_flat {A} (h : square -> list A) : forall fuel mask acc,
  bbLoop fuel mask (fun l sq => l ++ h sq) acc = acc ++ flat_map h (bitsOf fuel mask).
Proof.
  induction fuel as [|k IH]; intros mask acc; cbn [bbLoop bitsOf]; [rewrite app_nil_r; reflexivity|].
  destruct (mask =? 0); [rewrite app_nil_r; reflexivity|].
  rewrite IH. cbn [flat_map]. rewrite app_assoc. reflexivity.
Qed.

Lemma bitsOf_spec : forall fuel mask,
  (forall i, N.testbit mask i = true -> 64 - N.of_nat fuel <= i /\ i < 64) ->
  NoDup (bitsOf fuel mask) /\ forall s, In s (bitsOf fuel mask) -> N.testbit mask s = true.
Proof.
  induction fuel as [|k IH]; intros mask Hb; cbn [bitsOf]; [split; [constructor | intros s []]|].
  destruct (N.eqb_spec mask 0) as [->|Hnz]; [split; [constructor | intros s []]|].
  assert (Hpos : 0 < mask) by lia.
  assert (H64 : mask < 2 ^ 64) by (apply lt_2_64_of_bits; intros i Hi; apply Hb in Hi; lia).
  unfold firstSquare. rewrite (firstBitT_correct mask Hpos H64).
  pose proof (firstBit_testbit mask Hpos) as Hfb.
  pose proof (clearLowest_spec mask Hpos) as Hcl.
  assert (Hrec : forall i, N.testbit (clearLowest mask) i = true -> 64 - N.of_nat k <= i /\ i < 64).
  { intros i Hi. rewrite Hcl in Hi. apply andb_true_iff in Hi. destruct Hi as [Hi Hne].
    apply negb_true_iff, N.eqb_neq in Hne.
    pose proof (firstBit_lowest mask i Hpos Hi) as Hlow.
    destruct (Hb _ Hfb) as [Hlo _]. destruct (Hb _ Hi) as [_ Hhi]. split; [|exact Hhi].
    rewrite Nat2N.inj_succ in Hlo. lia. }
  destruct (IH (clearLowest mask) Hrec) as (Hnd & Hin). split.
  - constructor; [|exact Hnd]. intro H. apply Hin in H. rewrite Hcl, N.eqb_refl in H. cbn in H. rewrite andb_false_r in H. discriminate.
  - intros s [<-|H]; [exact Hfb|]. apply Hin in H. rewrite Hcl in H. apply andb_true_iff in H. apply H.
Qed.

Lemma bits64_spec mask : mask < 2 ^ 64 ->
  NoDup (bitsOf bbFuel mask) /\ forall s, In s (bitsOf bbFuel mask) -> N.testbit mask s = true.
Proof.
  intro H. apply bitsOf_spec. intros i Hi. split; [unfold bbFuel; cbn; lia | exact (bits_below_64 mask H i Hi)].
Qed.

(** * NoDup of appended lists and of a flat_map whose pieces can be told apart by a key *)
Lemma NoDup_app' {A} (l1 l2 : list A) :
  NoDup l1 -> NoDup l2 -> (forall x, In x l1 -> ~ In x l2) -> NoDup (l1 ++ l2).
Proof.
  induction l1 as [|a l1 IH]; intros H1 H2 Hd; cbn [app]; [exact H2|].
  inversion H1 as [|? ? Hna H1']; subst. constructor.
  - intro H. apply in_app_iff in H. destruct H as [H|H]; [contradiction|]. apply (Hd a); [left; reflexivity | exact H].
  - apply IH; [exact H1' | exact H2 | intros x Hx; apply Hd; right; exact Hx].
Qed.

Lemma NoDup_flat_map_key {A B K} (key : B -> K) (kx : A -> K) (h : A -> list B) (l : list A) :
  NoDup (map kx l) -> (forall x, In x l -> NoDup (h x)) -> (forall x b, In x l -> In b (h x) -> key b = kx x) ->
  NoDup (flat_map h l).
Proof.
  induction l as [|a l IH]; intros Hl Hh Hk; cbn [flat_map]; [constructor|].
  cbn [map] in Hl. inversion Hl as [|? ? Hna Hl']; subst.
  apply NoDup_app'.
  - apply Hh. left. reflexivity.
  - apply IH; [exact Hl' | intros x Hx; apply Hh; right; exact Hx | intros x b Hx Hb; apply (Hk x b); [right; exact Hx | exact Hb]].
  - intros b Hb Hb2. apply in_flat_map in Hb2. destruct Hb2 as (x & Hx & Hbx).
    apply Hna. rewrite <- (Hk a b (or_introl eq_refl) Hb), (Hk x b (or_intror Hx) Hbx). apply in_map. exact Hx.
Qed.

Lemma NoDup_map_inj {A B} (g : A -> B) (l : list A) :
  (forall a b, In a l -> In b l -> g a = g b -> a = b) -> NoDup l -> NoDup (map g l).
Proof.
  induction l as [|a l IH]; intros Hi Hn; cbn [map]; [constructor|].
  inversion Hn as [|? ? Hna Hn']; subst. constructor.
  - intro H. apply in_map_iff in H. destruct H as (b & E & Hb). apply Hna.
    rewrite (Hi a b (or_introl eq_refl) (or_intror Hb) (eq_sym E)). exact Hb.
  - apply IH; [intros x y Hx Hy; apply Hi; right; assumption | exact Hn'].
Qed.

Lemma NoDup_map_id {A} (l : list A) : NoDup l -> NoDup (map (fun x => x) l).
Proof. rewrite map_id. auto. Qed.

(** the list added for one target square *)
Lemma revAdd_map mask t' pr : revAddMovesByMask [] mask t' pr = map (fun s0 => mkMove s0 t' pr) (bitsOf bbFuel mask).
Proof.
  unfold revAddMovesByMask, forSquares, addMove.
  rewrite (bbLoop_flat (fun sq0 => [mkMove sq0 t' pr])). cbn [app].
  induction (bitsOf bbFuel mask) as [|a l IH]; cbn [flat_map map app]; [reflexivity | rewrite IH; reflexivity].
Qed.

Lemma revAdd_NoDup mask t' pr : mask < 2 ^ 64 -> NoDup (revAddMovesByMask [] mask t' pr).
Proof.
  intro H. rewrite revAdd_map. destruct (bits64_spec mask H) as (Hnd & _).
  apply NoDup_map_inj; [|exact Hnd]. intros a b _ _ E. inversion E. reflexivity.
Qed.

(** * the blocks of genMovesNoUndoInfo as appended lists *)
Lemma bbLoop_ext {A} (F G : list A -> square -> list A) : (forall l sq, F l sq = G l sq) ->
  forall fuel mask acc, bbLoop fuel mask F acc = bbLoop fuel mask G acc.
Proof.
  intros H fuel. induction fuel as [|k IH]; intros mask acc; cbn [bbLoop]; [reflexivity|].
  destruct (mask =? 0); [reflexivity|]. rewrite H. apply IH.
Qed.

Definition loopPiece (g : square -> N) (pr : square -> piece) (skip : square -> bool) (sq : square) : list move :=
  if skip sq then [] else revAddMovesByMask [] (g sq) sq (pr sq).

Lemma revLoopGen_eq g pr skip mask l :
  forSquares mask (fun l sq => if skip sq then l else revAddMovesByMask l (g sq) sq (pr sq)) l =
  l ++ flat_map (loopPiece g pr skip) (bitsOf bbFuel mask).
Proof.
  unfold forSquares. rewrite <- (bbLoop_flat (loopPiece g pr skip)). apply bbLoop_ext. intros l0 sq. unfold loopPiece.
  destruct (skip sq); [rewrite app_nil_r; reflexivity | apply revAdd_app].
Qed.

Lemma loopPiece_to g pr skip sq b : In b (loopPiece g pr skip sq) -> mto b = sq /\ mpromote b = pr sq /\ skip sq = false.
Proof.
  unfold loopPiece. destruct (skip sq); [intros []|]. intro H. apply revAdd_to in H. destruct H as [[]|(A & B)]. auto.
Qed.

Lemma revLoopGen_NoDup g pr skip mask :
  mask < 2 ^ 64 -> (forall sq, N.testbit mask sq = true -> skip sq = false -> g sq < 2 ^ 64) ->
  NoDup (flat_map (loopPiece g pr skip) (bitsOf bbFuel mask)).
Proof.
  intros Hm Hg. destruct (bits64_spec mask Hm) as (Hnd & Hin).
  apply (NoDup_flat_map_key mto (fun x => x)).
  - apply NoDup_map_id. exact Hnd.
  - intros sq Hs. unfold loopPiece. destruct (skip sq) eqn:E; [constructor|]. apply revAdd_NoDup. apply Hg; [apply Hin; exact Hs | exact E].
  - intros sq b _ Hb. apply (loopPiece_to g pr skip sq b Hb).
Qed.

Lemma loopPiece_bit g pr skip mask b : mask < 2 ^ 64 ->
  In b (flat_map (loopPiece g pr skip) (bitsOf bbFuel mask)) ->
  N.testbit mask (mto b) = true /\ mpromote b = pr (mto b) /\ skip (mto b) = false.
Proof.
  intros Hm H. destruct (bits64_spec mask Hm) as (_ & Hin). apply in_flat_map in H. destruct H as (sq & Hs & Hb).
  destruct (loopPiece_to g pr skip sq b Hb) as (A & B & C). rewrite A. auto.
Qed.
