(** C15 proofs, part 11: the list of un-moves has no duplicates. *)
From Coq Require Import ZArith NArith List Bool Lia.
From Texel Require Import Chess.Types Chess.Position Chess.PositionSpec Chess.PositionFacts
  Chess.PositionProofs Chess.PositionProofs2 Chess.PositionProofs3
  Chess.Fen Chess.Spec Chess.BitBoard Chess.MoveGen Chess.MoveGenWF Chess.MoveGenProofs
  Chess.BitBoardProofs Chess.AttackProofs Chess.SliderProofs gen.BitBoardTables
  RevGen.RevGen RevGen.RevFacts RevGen.RevValid RevGen.RevCand RevGen.RevRaw RevGen.RevPawn RevGen.RevCons.
Import ListNotations.
Local Open Scope N_scope.

(** * the squares a bit loop visits *)
Fixpoint bitsOf (fuel : nat) (mask : N) : list square :=
  match fuel with
  | O => []
  | S k => if mask =? 0 then [] else firstSquare mask :: bitsOf k (clearLowest mask)
  end.

Lemma bbLoop_flat {A} (h : square -> list A) : forall fuel mask acc,
  bbLoop fuel mask (fun l sq => l ++ h sq) acc = acc ++ flat_map h (bitsOf fuel mask).
Proof.
  induction fuel as [|k IH]; intros mask acc; cbn [bbLoop bitsOf]; [rewrite app_nil_r; reflexivity|].
  destruct (mask =? 0); [rewrite app_nil_r; reflexivity|].
  rewrite IH. cbn [flat_map]. rewrite app_assoc. reflexivity.
Qed.

Lemma bitsOf_spec : forall fuel mask,
  (forall i, N.testbit mask i = true -> 64 - N.of_nat fuel <= i /\ i < 64) ->
  NoDup (bitsOf fuel mask) /\ forall s, In s (bitsOf fuel mask) -> N.testbit mask s = true.
Proof.
  induction fuel as [|k IH]; intros mask Hb; cbn [bitsOf]; [split; [constructor | intros s []]|].
  destruct (N.eqb_spec mask 0) as [->|Hnz]; [split; [constructor | intros s []]|].
  assert (Hpos : 0 < mask) by lia.
  assert (H64 : mask < 2 ^ 64) by (apply lt_2_64_of_bits; intros i Hi; apply Hb in Hi; lia).
  unfold firstSquare. rewrite (firstBitT_correct mask Hpos H64).
  pose proof (firstBit_testbit mask Hpos) as Hfb.
  pose proof (clearLowest_spec mask Hpos) as Hcl.
  assert (Hrec : forall i, N.testbit (clearLowest mask) i = true -> 64 - N.of_nat k <= i /\ i < 64).
  { intros i Hi. rewrite Hcl in Hi. apply andb_true_iff in Hi. destruct Hi as [Hi Hne].
    apply negb_true_iff, N.eqb_neq in Hne.
    pose proof (firstBit_lowest mask i Hpos Hi) as Hlow.
    destruct (Hb _ Hfb) as [Hlo _]. destruct (Hb _ Hi) as [_ Hhi]. split; [|exact Hhi].
    rewrite Nat2N.inj_succ in Hlo. lia. }
  destruct (IH (clearLowest mask) Hrec) as (Hnd & Hin). split.
  - constructor; [|exact Hnd]. intro H. apply Hin in H. rewrite Hcl, N.eqb_refl in H. cbn in H. rewrite andb_false_r in H. discriminate.
  - intros s [<-|H]; [exact Hfb|]. apply Hin in H. rewrite Hcl in H. apply andb_true_iff in H. apply H.
Qed.

Lemma bits64_spec mask : mask < 2 ^ 64 ->
  NoDup (bitsOf bbFuel mask) /\ forall s, In s (bitsOf bbFuel mask) -> N.testbit mask s = true.
Proof.
  intro H. apply bitsOf_spec. intros i Hi. split; [unfold bbFuel; cbn; lia | exact (bits_below_64 mask H i Hi)].
Qed.

(** * NoDup of appended lists and of a flat_map whose pieces can be told apart by a key *)
Lemma NoDup_app' {A} (l1 l2 : list A) :
  NoDup l1 -> NoDup l2 -> (forall x, In x l1 -> ~ In x l2) -> NoDup (l1 ++ l2).
Proof.
  induction l1 as [|a l1 IH]; intros H1 H2 Hd; cbn [app]; [exact H2|].
  inversion H1 as [|? ? Hna H1']; subst. constructor.
  - intro H. apply in_app_iff in H. destruct H as [H|H]; [contradiction|]. apply (Hd a); [left; reflexivity | exact H].
  - apply IH; [exact H1' | exact H2 | intros x Hx; apply Hd; right; exact Hx].
Qed.

Lemma NoDup_flat_map_key {A B K} (key : B -> K) (kx : A -> K) (h : A -> list B) (l : list A) :
  NoDup (map kx l) -> (forall x, In x l -> NoDup (h x)) -> (forall x b, In x l -> In b (h x) -> key b = kx x) ->
  NoDup (flat_map h l).
Proof.
  induction l as [|a l IH]; intros Hl Hh Hk; cbn [flat_map]; [constructor|].
  cbn [map] in Hl. inversion Hl as [|? ? Hna Hl']; subst.
  apply NoDup_app'.
  - apply Hh. left. reflexivity.
  - apply IH; [exact Hl' | intros x Hx; apply Hh; right; exact Hx | intros x b Hx Hb; apply (Hk x b); [right; exact Hx | exact Hb]].
  - intros b Hb Hb2. apply in_flat_map in Hb2. destruct Hb2 as (x & Hx & Hbx).
    apply Hna. rewrite <- (Hk a b (or_introl eq_refl) Hb), (Hk x b (or_intror Hx) Hbx). apply in_map. exact Hx.
Qed.

Lemma NoDup_map_inj {A B} (g : A -> B) (l : list A) :
  (forall a b, In a l -> In b l -> g a = g b -> a = b) -> NoDup l -> NoDup (map g l).
Proof.
  induction l as [|a l IH]; intros Hi Hn; cbn [map]; [constructor|].
  inversion Hn as [|? ? Hna Hn']; subst. constructor.
  - intro H. apply in_map_iff in H. destruct H as (b & E & Hb). apply Hna.
    rewrite (Hi a b (or_introl eq_refl) (or_intror Hb) (eq_sym E)). exact Hb.
  - apply IH; [intros x y Hx Hy; apply Hi; right; assumption | exact Hn'].
Qed.

Lemma NoDup_map_id {A} (l : list A) : NoDup l -> NoDup (map (fun x => x) l).
Proof. rewrite map_id. auto. Qed.

(** the list added for one target square *)
Lemma revAdd_map mask t' pr : revAddMovesByMask [] mask t' pr = map (fun s0 => mkMove s0 t' pr) (bitsOf bbFuel mask).
Proof.
  unfold revAddMovesByMask, forSquares, addMove.
  rewrite (bbLoop_flat (fun sq0 => [mkMove sq0 t' pr])). cbn [app].
  induction (bitsOf bbFuel mask) as [|a l IH]; cbn [flat_map map app]; [reflexivity | rewrite IH; reflexivity].
Qed.

Lemma revAdd_NoDup mask t' pr : mask < 2 ^ 64 -> NoDup (revAddMovesByMask [] mask t' pr).
Proof.
  intro H. rewrite revAdd_map. destruct (bits64_spec mask H) as (Hnd & _).
  apply NoDup_map_inj; [|exact Hnd]. intros a b _ _ E. inversion E. reflexivity.
Qed.

(** * the blocks of genMovesNoUndoInfo as appended lists *)
Lemma bbLoop_ext {A} (F G : list A -> square -> list A) : (forall l sq, F l sq = G l sq) ->
  forall fuel mask acc, bbLoop fuel mask F acc = bbLoop fuel mask G acc.
Proof.
  intros H fuel. induction fuel as [|k IH]; intros mask acc; cbn [bbLoop]; [reflexivity|].
  destruct (mask =? 0); [reflexivity|]. rewrite H. apply IH.
Qed.

Definition loopPiece (g : square -> N) (pr : square -> piece) (skip : square -> bool) (sq : square) : list move :=
  if skip sq then [] else revAddMovesByMask [] (g sq) sq (pr sq).

Lemma revLoopGen_eq (g : square -> N) (pr : square -> piece) (skip : square -> bool) mask l :
  forSquares mask (fun l sq => if skip sq then l else revAddMovesByMask l (g sq) sq (pr sq)) l =
  l ++ flat_map (loopPiece g pr skip) (bitsOf bbFuel mask).
Proof.
  unfold forSquares. rewrite <- (bbLoop_flat (loopPiece g pr skip)). apply bbLoop_ext. intros l0 sq. unfold loopPiece.
  destruct (skip sq); [rewrite app_nil_r; reflexivity | apply revAdd_app].
Qed.

Lemma loopPiece_to g pr skip sq b : In b (loopPiece g pr skip sq) -> mto b = sq /\ mpromote b = pr sq /\ skip sq = false.
Proof.
  unfold loopPiece. destruct (skip sq); [intros []|]. intro H. apply revAdd_to in H. destruct H as [[]|(A & B)]. auto.
Qed.

Lemma revLoopGen_NoDup (g : square -> N) (pr : square -> piece) (skip : square -> bool) mask :
  mask < 2 ^ 64 -> (forall sq, N.testbit mask sq = true -> skip sq = false -> g sq < 2 ^ 64) ->
  NoDup (flat_map (loopPiece g pr skip) (bitsOf bbFuel mask)).
Proof.
  intros Hm Hg. destruct (bits64_spec mask Hm) as (Hnd & Hin).
  apply (NoDup_flat_map_key mto (fun x => x)).
  - apply NoDup_map_id. exact Hnd.
  - intros sq Hs. unfold loopPiece. destruct (skip sq) eqn:E; [constructor|]. apply revAdd_NoDup. apply Hg; [apply Hin; exact Hs | exact E].
  - intros sq b _ Hb. apply (loopPiece_to g pr skip sq b Hb).
Qed.

Lemma loopPiece_bit (g : square -> N) (pr : square -> piece) (skip : square -> bool) mask b : mask < 2 ^ 64 ->
  In b (flat_map (loopPiece g pr skip) (bitsOf bbFuel mask)) ->
  N.testbit mask (mto b) = true /\ mpromote b = pr (mto b) /\ skip (mto b) = false.
Proof.
  intros Hm H. destruct (bits64_spec mask Hm) as (_ & Hin). apply in_flat_map in H. destruct H as (sq & Hs & Hb).
  destruct (loopPiece_to g pr skip sq b Hb) as (A & B & C). rewrite A. auto.
Qed.

Section Raw.
Variable q : position.
Hypothesis Hwf : WF q.
Let wm := negb (whiteMove q).
Let occ := occupiedBB q.
Let BO : BoardOK q := WF_BoardOK q Hwf.

(** the class of a raw move: the piece on its to-square, or 255 for an un-promotion *)
Definition code (b : move) : N := if mpromote b =? EMPTY then getPiece q (mto b) else 255.

Lemma app_codes (l P : list move) (c : N) :
  NoDup l -> NoDup P -> (forall x, In x P -> code x = c) -> (forall x, In x l -> code x <> c) -> NoDup (l ++ P).
Proof.
  intros Hl HP Hc Hn. apply NoDup_app'; auto. intros x Hx Hx2. apply (Hn x Hx). apply Hc. exact Hx2.
Qed.

Lemma ptLt X : In X [WQUEEN; WROOK; WBISHOP; WKNIGHT; WKING; WPAWN] -> ptBB q (myPiece wm X) < 2 ^ 64.
Proof. intro H. apply (BoardOK_ptBB_lt q _ BO). apply myPiece_codes. cbn [In] in *. tauto. Qed.

(** a simple piece block: mask of the piece's squares (or a subset), from-mask g *)
Definition blockList (mask : N) (g : square -> N) : list move :=
  flat_map (loopPiece g (fun _ => EMPTY) (fun _ => false)) (bitsOf bbFuel mask).

Lemma blockList_props X mask g :
  In X [WQUEEN; WROOK; WBISHOP; WKNIGHT; WPAWN] -> mask < 2 ^ 64 ->
  (forall sq, N.testbit mask sq = true -> N.testbit (ptBB q (myPiece wm X)) sq = true) ->
  (forall sq, N.testbit mask sq = true -> g sq < 2 ^ 64) ->
  NoDup (blockList mask g) /\ forall x, In x (blockList mask g) -> code x = myPiece wm X.
Proof.
  intros HX Hm Hsub Hg. split.
  - apply revLoopGen_NoDup; [exact Hm | intros sq Hs _; apply Hg; exact Hs].
  - intros x Hx. destruct (loopPiece_bit _ _ _ mask x Hm Hx) as (Hb & Hp & _).
    unfold code. rewrite Hp, N.eqb_refl. apply Hsub in Hb.
    rewrite (BoardOK_ptBB q _ _ BO) in Hb by (apply myPiece_codes; cbn [In] in *; tauto).
    apply andb_true_iff in Hb. destruct Hb as (_ & Hb). apply N.eqb_eq in Hb. exact Hb.
Qed.

Lemma queen_eq l : revQueenBlock wm q l = l ++ blockList (ptBB q (myPiece wm WQUEEN)) (fun sq => andn (aQ q sq) occ).
Proof. exact (revLoopGen_eq (fun sq => andn (aQ q sq) occ) (fun _ => EMPTY) (fun _ => false) _ l). Qed.
Lemma rook_eq l : revRookBlock wm q l = l ++ blockList (revRookSquares wm q) (fun sq => andn (aR q sq) occ).
Proof. exact (revLoopGen_eq (fun sq => andn (aR q sq) occ) (fun _ => EMPTY) (fun _ => false) _ l). Qed.
Lemma bishop_eq l : revBishopBlock wm q l = l ++ blockList (ptBB q (myPiece wm WBISHOP)) (fun sq => andn (aB q sq) occ).
Proof. exact (revLoopGen_eq (fun sq => andn (aB q sq) occ) (fun _ => EMPTY) (fun _ => false) _ l). Qed.
Lemma knight_eq l : revKnightBlock wm q l = l ++ blockList (ptBB q (myPiece wm WKNIGHT)) (fun sq => andn (aN sq) occ).
Proof. exact (revLoopGen_eq (fun sq => andn (aN sq) occ) (fun _ => EMPTY) (fun _ => false) _ l). Qed.
Lemma pawn_eq l : revPawnBlock wm q l = l ++ blockList (ptBB q (myPiece wm WPAWN)) (fun sq => revPawnFromMask wm occ sq).
Proof. exact (revLoopGen_eq (fun sq => revPawnFromMask wm occ sq) (fun _ => EMPTY) (fun _ => false) _ l). Qed.

Lemma bitLt k : k < 64 -> bit k < 2 ^ 64.
Proof. intro H. unfold bit. rewrite N.shiftl_1_l. apply N.pow_lt_mono_r; lia. Qed.
Lemma bitAtLt s dz : (Z.of_N s + dz < 64)%Z -> bitAt s dz < 2 ^ 64.
Proof. intro H. unfold bitAt, sqAdd. apply bitLt. lia. Qed.
Lemma lorLt a b : a < 2 ^ 64 -> b < 2 ^ 64 -> N.lor a b < 2 ^ 64.
Proof.
  intros A B. apply lt_2_64_of_bits. intros i Hi. rewrite N.lor_spec in Hi. apply orb_true_iff in Hi.
  destruct Hi as [Hi|Hi]; [apply (bits_below_64 a A i Hi) | apply (bits_below_64 b B i Hi)].
Qed.

(** no pawn on the first or last rank *)
Lemma edge_no_pawn s : s < 64 -> (s < 8 \/ 56 <= s) -> isPawnPiece (getPiece q s) = false.
Proof.
  intros Hs He. destruct (WF_parts q Hwf) as (_ & _ & _ & _ & Ha).
  unfold accepted in Ha. cbv zeta in Ha. rewrite !andb_true_iff in Ha.
  destruct Ha as (((((((((((_ & _) & _) & _) & Hp) & _) & _) & _) & _) & _) & _) & _).
  rewrite forallb_forall in Hp. cbn [abs sp_board] in Hp.
  assert (Hin : In (zf s) [0; 1; 2; 3; 4; 5; 6; 7]%Z).
  { unfold zf. assert (0 <= Z.of_N s mod 8 < 8)%Z by (apply Z.mod_pos_bound; lia). cbn [In]. lia. }
  specialize (Hp _ Hin). rewrite !andb_true_iff, !negb_true_iff in Hp. destruct Hp as (((H1 & H2) & H3) & H4).
  rewrite (getPiece_at q s Hs). unfold isPawnPiece.
  unfold is_piece, mk_piece in H1, H2, H3, H4.
  destruct He as [He|He].
  - assert (zr s = 0%Z) by (unfold zr; apply Z.div_small; lia). rewrite H. rewrite H1, H2. reflexivity.
  - assert (zr s = 7%Z) by (unfold zr; pose proof (Z.div_mod (Z.of_N s) 8 ltac:(lia)); pose proof (Z.mod_pos_bound (Z.of_N s) 8 ltac:(lia)); lia).
    rewrite H. rewrite H3, H4. reflexivity.
Qed.

Lemma pawnMask_lt sq : N.testbit (ptBB q (myPiece wm WPAWN)) sq = true -> revPawnFromMask wm occ sq < 2 ^ 64.
Proof.
  intro Hb. rewrite (BoardOK_ptBB q _ sq BO) in Hb by (apply myPiece_codes; cbn; tauto).
  apply andb_true_iff in Hb. destruct Hb as (Hs & Hp). apply N.ltb_lt in Hs. apply N.eqb_eq in Hp.
  assert (Hmid : 8 <= sq < 56).
  { assert (Hpp : isPawnPiece (getPiece q sq) = true) by (rewrite Hp; generalize wm; intros []; reflexivity).
    destruct (N.lt_ge_cases sq 8) as [A|A]; [rewrite (edge_no_pawn sq Hs (or_introl A)) in Hpp; discriminate|].
    destruct (N.lt_ge_cases sq 56) as [B|B]; [lia|]. rewrite (edge_no_pawn sq Hs (or_intror B)) in Hpp. discriminate. }
  destruct (row_facts sq Hs) as (_ & _ & Lb & Lw).
  unfold revPawnFromMask, andn. apply ldiff_lt.
  generalize wm. intros [].
  - assert (B8 : bitAt sq (-8) < 2 ^ 64) by (apply bitAtLt; lia).
    assert (B16 : bitAt sq (-16) < 2 ^ 64) by (apply bitAtLt; lia).
    assert (HM0 : N.ldiff (N.lor (bPawnAttacks sq) (bitAt sq (-8))) maskRow1 < 2 ^ 64) by (apply ldiff_lt, lorLt; assumption).
    destruct (sqY sq =? 3); [destruct (_ =? 0)|]; [apply lorLt; assumption | exact HM0 | exact HM0].
  - assert (B8 : bitAt sq 8 < 2 ^ 64) by (apply bitAtLt; lia).
    assert (HM0 : N.ldiff (N.lor (wPawnAttacks sq) (bitAt sq 8)) maskRow8 < 2 ^ 64) by (apply ldiff_lt, lorLt; assumption).
    destruct (sqY sq =? 4) eqn:E4; [destruct (_ =? 0)|]; [|exact HM0 | exact HM0].
    apply lorLt; [exact HM0|]. apply N.eqb_eq in E4. unfold sqY in E4. apply bitAtLt.
    pose proof (N.div_mod sq 8 ltac:(lia)). pose proof (N.mod_lt sq 8 ltac:(lia)). lia.
Qed.

(** un-promotions *)
Definition promoMask : N := N.land (colorBB q wm) (if wm then maskRow8 else maskRow1).
Definition promoG (sq : square) : N :=
  andn (if wm then N.lor (bPawnAttacks sq) (bitAt sq (-8)) else N.lor (wPawnAttacks sq) (bitAt sq 8)) occ.
Definition promoSkip (sq : square) : bool := (getPiece q sq =? WKING) || (getPiece q sq =? BKING).
Definition promoList : list move := flat_map (loopPiece promoG (fun sq => getPiece q sq) promoSkip) (bitsOf bbFuel promoMask).

Lemma promo_eq l : revPromoBlock wm q l = l ++ promoList.
Proof. exact (revLoopGen_eq promoG (fun sq => getPiece q sq) promoSkip _ l). Qed.

Lemma colorLt : colorBB q wm < 2 ^ 64.
Proof.
  apply lt_2_64_of_bits. intros i Hi. rewrite (BoardOK_color q wm i BO) in Hi. apply andb_true_iff in Hi.
  destruct Hi as (Hi & _). apply N.ltb_lt. exact Hi.
Qed.

Lemma promoList_props : NoDup promoList /\ forall x, In x promoList -> code x = 255.
Proof.
  assert (Hm : promoMask < 2 ^ 64) by (apply land_lt_l, colorLt).
  split.
  - apply revLoopGen_NoDup; [exact Hm|]. intros sq Hs _. unfold promoMask in Hs. rewrite N.land_spec in Hs.
    apply andb_true_iff in Hs. destruct Hs as (Hc & Hr).
    assert (Hs64 : sq < 64) by (apply (bits_below_64 _ colorLt sq Hc)).
    destruct (row_facts sq Hs64) as (R1 & R8 & Lb & Lw).
    unfold promoG, andn. apply ldiff_lt. revert Hr. generalize wm. intros [] Hr.
    + apply lorLt; [exact Lb | apply bitAtLt; lia].
    + apply lorLt; [exact Lw|]. rewrite R1 in Hr. apply Z.eqb_eq in Hr. apply bitAtLt. unfold zr in Hr.
      pose proof (Z.div_mod (Z.of_N sq) 8 ltac:(lia)). pose proof (Z.mod_pos_bound (Z.of_N sq) 8 ltac:(lia)). lia.
  - intros x Hx. destruct (loopPiece_bit _ _ _ promoMask x Hm Hx) as (Hb & Hp & _).
    unfold promoMask in Hb. rewrite N.land_spec in Hb. apply andb_true_iff in Hb. destruct Hb as (Hb & _).
    rewrite (BoardOK_color q wm _ BO) in Hb. apply andb_true_iff in Hb. destruct Hb as (_ & Hb).
    unfold code. rewrite Hp. destruct (N.eqb_spec (getPiece q (mto x)) EMPTY) as [E|E]; [|reflexivity].
    rewrite E in Hb. revert Hb. generalize wm. intros []; discriminate.
Qed.

(** king steps and un-castlings *)
Let ks := kingSq q wm.
Definition castleList (k0Sq kSq rSq : square) (em : N) : list move :=
  if (ks =? kSq) && (getPiece q rSq =? myPiece wm WROOK) &&
     ((N.land em occ =? 0) && negb (sqAttackedT wm q k0Sq occ) && negb (sqAttackedT wm q rSq occ))
  then revAddMovesByMask [] (bit k0Sq) kSq EMPTY else [].

Lemma castle_eq k0Sq kSq rSq em l : revCastleClause wm q occ ks k0Sq kSq rSq em l = l ++ castleList k0Sq kSq rSq em.
Proof.
  unfold revCastleClause, castleList. destruct ((ks =? kSq) && (getPiece q rSq =? myPiece wm WROOK)); cbn [andb]; [|rewrite app_nil_r; reflexivity].
  destruct (_ && _); [apply revAdd_app | rewrite app_nil_r; reflexivity].
Qed.

Definition kingList : list move :=
  if negb (((ks =? E1) && (a1Castle q || h1Castle q)) || ((ks =? E8) && (a8Castle q || h8Castle q))) then
    (revAddMovesByMask [] (andn (kingAttacks ks) occ) ks EMPTY ++
     castleList (if wm then E1 else E8) (if wm then G1 else G8) (if wm then F1 else F8)
                (if wm then N.lor (bit E1) (bit H1) else N.lor (bit E8) (bit H8))) ++
    castleList (if wm then E1 else E8) (if wm then C1 else C8) (if wm then D1 else D8)
               (if wm then N.lor (N.lor (bit A1) (bit B1)) (bit E1) else N.lor (N.lor (bit A8) (bit B8)) (bit E8))
  else [].

Lemma king_eq l : revKingBlock wm q l = l ++ kingList.
Proof.
  unfold revKingBlock, kingList. cbv zeta. fold ks occ. destruct (negb (_ || _)); [|rewrite app_nil_r; reflexivity].
  rewrite castle_eq, castle_eq, (revAdd_app l). rewrite !app_assoc. reflexivity.
Qed.

Lemma castleList_elem k0Sq kSq rSq em x : k0Sq < 64 -> In x (castleList k0Sq kSq rSq em) -> x = mkMove k0Sq kSq EMPTY /\ ks = kSq.
Proof.
  intros Hk H. unfold castleList in H. destruct ((ks =? kSq) && _ && _) eqn:C; [|destruct H].
  apply andb_true_iff in C. destruct C as (C & _). apply andb_true_iff in C. destruct C as (C & _). apply N.eqb_eq in C.
  apply revAdd_In in H; [|apply bitLt; exact Hk]. destruct H as [[]|(s0 & Hb & ->)].
  rewrite bit_bits in Hb. apply N.eqb_eq in Hb. subst s0. auto.
Qed.

Lemma castleList_NoDup k0Sq kSq rSq em : k0Sq < 64 -> NoDup (castleList k0Sq kSq rSq em).
Proof. intro Hk. unfold castleList. destruct (_ && _ && _); [apply revAdd_NoDup, bitLt; exact Hk | constructor]. Qed.

Lemma kingList_props : NoDup kingList /\ forall x, In x kingList -> code x = myPiece wm WKING.
Proof.
  destruct (kingSq_spec_B q wm BO (king_exists q wm Hwf)) as (Hk64 & Hkp). fold ks in Hk64, Hkp.
  assert (HK : getPiece q ks = myPiece wm WKING) by (rewrite Hkp; generalize wm; intros []; reflexivity).
  assert (Hk0 : (if wm then E1 else E8) < 64) by (generalize wm; intros []; cbv; reflexivity).
  assert (Hstep : forall x, In x (revAddMovesByMask [] (andn (kingAttacks ks) occ) ks EMPTY) ->
                  exists s0, N.testbit (kingAttacks ks) s0 = true /\ x = mkMove s0 ks EMPTY).
  { intros x Hx. apply revAdd_In in Hx; [|apply ldiff_lt, kingAttacks_lt]. destruct Hx as [[]|(s0 & Hb & ->)].
    unfold andn in Hb. rewrite N.ldiff_spec in Hb. apply andb_true_iff in Hb. exists s0. split; [apply Hb | reflexivity]. }
  assert (Hnotstep : forall kSq, In kSq [G1; C1; G8; C8] -> N.testbit (kingAttacks kSq) (if kSq <? 32 then E1 else E8) = false).
  { intros kSq H. cbn [In] in H. destruct H as [<-|[<-|[<-|[<-|[]]]]]; vm_compute; reflexivity. }
  unfold kingList. destruct (negb (_ || _)); [|split; [constructor | intros x []]].
  split.
  - apply NoDup_app'; [apply NoDup_app' | | ].
    + apply revAdd_NoDup. apply ldiff_lt, kingAttacks_lt.
    + apply castleList_NoDup. exact Hk0.
    + intros x Hx Hx2. destruct (Hstep x Hx) as (s0 & Hb & ->). apply (castleList_elem _ _ _ _ _ Hk0) in Hx2.
      destruct Hx2 as (E & Eks). inversion E as [[E1' E2']]. revert Hb E1' Eks. generalize wm. intros [] Hb E1' Eks;
        rewrite E1', Eks in Hb; vm_compute in Hb; discriminate.
    + apply castleList_NoDup. exact Hk0.
    + intros x Hx Hx2. apply (castleList_elem _ _ _ _ _ Hk0) in Hx2. destruct Hx2 as (E & Eks).
      apply in_app_iff in Hx. destruct Hx as [Hx|Hx].
      * destruct (Hstep x Hx) as (s0 & Hb & E2'). rewrite E2' in E. inversion E as [[E1' E3']]. revert Hb E1' Eks. generalize wm. intros [] Hb E1' Eks;
          rewrite E1', Eks in Hb; vm_compute in Hb; discriminate.
      * apply (castleList_elem _ _ _ _ _ Hk0) in Hx. destruct Hx as (_ & Eks2). rewrite Eks in Eks2. revert Eks2. generalize wm. intros []; discriminate.
  - intros x Hx. unfold code. apply in_app_iff in Hx. destruct Hx as [Hx|Hx]; [apply in_app_iff in Hx; destruct Hx as [Hx|Hx]|].
    + destruct (Hstep x Hx) as (s0 & _ & ->). cbn [mpromote mto]. exact HK.
    + apply (castleList_elem _ _ _ _ _ Hk0) in Hx. destruct Hx as (-> & Eks). cbn [mpromote mto]. rewrite <- Eks. exact HK.
    + apply (castleList_elem _ _ _ _ _ Hk0) in Hx. destruct Hx as (-> & Eks). cbn [mpromote mto]. rewrite <- Eks. exact HK.
Qed.

(** chaining the seven blocks: every block has its own class *)
Lemma wm_cases : wm = true \/ wm = false.
Proof. unfold wm. destruct (whiteMove q); auto. Qed.

Definition codesIn (l : list move) (cs : list N) : Prop := forall x, In x l -> In (code x) cs.

Lemma chain_step (l P : list move) (c : N) (cs : list N) :
  NoDup l /\ codesIn l cs -> (NoDup P /\ forall x, In x P -> code x = c) -> ~ In c cs ->
  NoDup (l ++ P) /\ codesIn (l ++ P) (c :: cs).
Proof.
  intros (Hl & Hc) (HP & HPc) Hn. split.
  - apply (app_codes l P c Hl HP HPc). intros x Hx E. apply Hn. rewrite <- E. apply Hc. exact Hx.
  - intros x Hx. apply in_app_iff in Hx. destruct Hx as [Hx|Hx]; [right; apply Hc; exact Hx | left; symmetry; apply HPc; exact Hx].
Qed.

Lemma slider_g_lt (f : square -> N) (mask : N) (X : piece) :
  (forall sq, sq < 64 -> f sq < 2 ^ 64) ->
  (forall sq, N.testbit mask sq = true -> N.testbit (ptBB q (myPiece wm X)) sq = true) ->
  In X [WQUEEN; WROOK; WBISHOP; WKNIGHT; WKING; WPAWN] ->
  forall sq, N.testbit mask sq = true -> andn (f sq) occ < 2 ^ 64.
Proof.
  intros Hf Hsub HX sq Hb. unfold andn. apply ldiff_lt. apply Hf.
  apply Hsub in Hb. rewrite (BoardOK_ptBB q _ sq BO) in Hb by (apply myPiece_codes; destruct HX as [<-|[<-|[<-|[<-|[<-|[<-|[]]]]]]]; cbn; tauto).
  apply andb_true_iff in Hb. apply N.ltb_lt. apply Hb.
Qed.

Lemma genNoUndo_NoDup : NoDup (genMovesNoUndoInfo q).
Proof.
  unfold genMovesNoUndoInfo. cbv zeta. fold wm.
  rewrite promo_eq, pawn_eq, king_eq, knight_eq, bishop_eq, rook_eq, queen_eq.
  assert (H0 : NoDup (@nil move) /\ codesIn [] []) by (split; [constructor | intros x []]).
  assert (HQ := chain_step _ _ _ _ H0
     (blockList_props WQUEEN _ (fun sq => andn (aQ q sq) occ) ltac:(cbn; tauto) (ptLt WQUEEN ltac:(cbn; tauto)) (fun sq H => H)
        (slider_g_lt (aQ q) _ WQUEEN (fun sq H => lorLt _ _ (rookAttacks_lt sq occ H) (bishopAttacks_lt sq occ H)) (fun sq H => H) ltac:(cbn; tauto)))
     (fun H => H)).
  assert (HR := chain_step _ _ _ _ HQ
     (blockList_props WROOK _ (fun sq => andn (aR q sq) occ) ltac:(cbn; tauto) (rookSquares_lt q BO) (rookSquares_sub q)
        (slider_g_lt (aR q) _ WROOK (fun sq H => rookAttacks_lt sq occ H) (rookSquares_sub q) ltac:(cbn; tauto)))
     ltac:(destruct wm_cases as [E|E]; rewrite E; cbn; intros [H|[]]; discriminate)).
  assert (HB := chain_step _ _ _ _ HR
     (blockList_props WBISHOP _ (fun sq => andn (aB q sq) occ) ltac:(cbn; tauto) (ptLt WBISHOP ltac:(cbn; tauto)) (fun sq H => H)
        (slider_g_lt (aB q) _ WBISHOP (fun sq H => bishopAttacks_lt sq occ H) (fun sq H => H) ltac:(cbn; tauto)))
     ltac:(destruct wm_cases as [E|E]; rewrite E; cbn; intros [H|[H|[]]]; discriminate)).
  assert (HN := chain_step _ _ _ _ HB
     (blockList_props WKNIGHT _ (fun sq => andn (aN sq) occ) ltac:(cbn; tauto) (ptLt WKNIGHT ltac:(cbn; tauto)) (fun sq H => H)
        (slider_g_lt aN _ WKNIGHT (fun sq _ => proj2 (knightAttacks_lt sq)) (fun sq H => H) ltac:(cbn; tauto)))
     ltac:(destruct wm_cases as [E|E]; rewrite E; cbn; intros [H|[H|[H|[]]]]; discriminate)).
  assert (HK := chain_step _ _ _ _ HN kingList_props
     ltac:(destruct wm_cases as [E|E]; rewrite E; cbn; intros [H|[H|[H|[H|[]]]]]; discriminate)).
  assert (HP := chain_step _ _ _ _ HK
     (blockList_props WPAWN _ (fun sq => revPawnFromMask wm occ sq) ltac:(cbn; tauto) (ptLt WPAWN ltac:(cbn; tauto)) (fun sq H => H) pawnMask_lt)
     ltac:(destruct wm_cases as [E|E]; rewrite E; cbn; intros [H|[H|[H|[H|[H|[]]]]]]; discriminate)).
  assert (HPr := chain_step _ _ _ _ HP promoList_props
     ltac:(destruct wm_cases as [E|E]; rewrite E; cbn; intros [H|[H|[H|[H|[H|[H|[]]]]]]]; discriminate)).
  exact (proj1 HPr).
Qed.

Lemma revMoveList_NoDup : NoDup (revMoveList q).
Proof.
  unfold revMoveList. cbv zeta. destruct (Z.eqb_spec (epSquare q) (-1)) as [E|E]; [exact genNoUndo_NoDup|].
  apply revAdd_NoDup. fold wm.
  destruct (WF_parts q Hwf) as (_ & _ & _ & _ & Hacc). apply accepted_epShape in Hacc.
  destruct Hacc as [Hacc|(e & He & He64 & Hy & _)]; [exfalso; apply E; exact Hacc|].
  cbn [abs sp_ep sp_white] in He, Hy. rewrite He, N2Z.id. apply bitAtLt.
  unfold sqY in Hy. pose proof (N.div_mod e 8 ltac:(lia)). pose proof (N.mod_lt e 8 ltac:(lia)).
  destruct wm_cases as [Ew|Ew]; rewrite Ew; [lia|].
  unfold wm in Ew. apply negb_false_iff in Ew. rewrite Ew in Hy. lia.
Qed.

End Raw.

(** * the UndoInfo alternatives of one un-move are pairwise different *)
Fixpoint nodupb (l : list N) : bool :=
  match l with
  | [] => true
  | x :: t => negb (existsb (N.eqb x) t) && nodupb t
  end.
Lemma nodupb_sound l : nodupb l = true -> NoDup l.
Proof.
  induction l as [|a l IH]; intro H; [constructor|]. cbn [nodupb] in H. apply andb_true_iff in H. destruct H as (H1 & H2).
  constructor; [|apply IH; exact H2]. intro Hin. apply negb_true_iff in H1.
  assert (X : existsb (N.eqb a) l = true) by (apply existsb_exists; exists a; split; [exact Hin | apply N.eqb_refl]).
  rewrite X in H1. discriminate.
Qed.
Lemma castleAlt_nodup_sweep : forallb (fun a => nodupb (castleAlternatives a)) below16 = true.
Proof. vm_compute. reflexivity. Qed.
Lemma castleAlternatives_NoDup a : a < 16 -> NoDup (castleAlternatives a).
Proof.
  intro Ha. pose proof castleAlt_nodup_sweep as H. rewrite forallb_forall in H. apply nodupb_sound. apply H. apply below16_In. exact Ha.
Qed.

Lemma castleAlt_bound_sweep : forallb (fun a => forallb (fun c => c <? 16) (castleAlternatives a)) below16 = true.
Proof. vm_compute. reflexivity. Qed.
Lemma castleAlt_bound a c : a < 16 -> In c (castleAlternatives a) -> c < 16.
Proof.
  intros Ha Hc. pose proof castleAlt_bound_sweep as H. rewrite forallb_forall in H. specialize (H a (below16_In a Ha)).
  rewrite forallb_forall in H. apply N.ltb_lt. apply H. exact Hc.
Qed.

Lemma epFiles_bits mask : epFiles mask = bitsOf bbFuel mask.
Proof.
  unfold epFiles, forSquares. rewrite (bbLoop_flat (fun f => [f])). cbn [app].
  induction (bitsOf bbFuel mask) as [|a l IH]; cbn [flat_map app]; [reflexivity | rewrite IH; reflexivity].
Qed.

Lemma getEpMask_bits q m pc cap incl k : N.testbit (getEpMask q m pc cap incl) k = true -> k <= 8.
Proof.
  unfold getEpMask. cbv zeta.
  set (w := negb (whiteMove q)). set (x := sqX (mto m)).
  set (epCase := mustBeEpCapture m pc cap && (sqY (mto m) =? (if w then 5 else 2))).
  assert (Hx : x < 8) by (unfold x, sqX; apply N.mod_lt; lia).
  destruct (epCase && negb _); [rewrite N.bits_0; discriminate|].
  set (M := if epCase then N.lor (if incl then 255 else 0) (bit x) else (if incl then 255 else 0)).
  assert (HMb : forall i, N.testbit M i = true -> i < 8).
  { intros i Hi. unfold M in Hi. assert (H255 : N.testbit (if incl then 255 else 0) i = true -> i < 8).
    { destruct incl; [|rewrite N.bits_0; discriminate]. intro H. destruct (N.lt_ge_cases i 8) as [A|A]; [exact A|].
      change 255 with (N.ones 8) in H. rewrite N.ones_spec_high in H by exact A. discriminate. }
    destruct epCase; [|apply H255; exact Hi]. rewrite N.lor_spec in Hi. apply orb_true_iff in Hi. destruct Hi as [Hi|Hi]; [apply H255; exact Hi|].
    rewrite bit_bits in Hi. apply N.eqb_eq in Hi. lia. }
  assert (HM : M < 2 ^ 64) by (apply lt_2_64_of_bits; intros i Hi; apply HMb in Hi; lia).
  destruct (negb (M =? 0)).
  - intro H.
    apply (epLoop_bits (epBoardBefore q m pc cap epCase x (if w then 4 else 3) (if w then BPAWN else WPAWN)) w M (bit 8) k HM) in H.
    destruct H as [H|(H & _)]; [rewrite bit_bits in H; apply N.eqb_eq in H; lia | apply HMb in H; lia].
  - rewrite bit_bits. intro H. apply N.eqb_eq in H. lia.
Qed.

Lemma epSquareOfFile_inj w a b : a <= 8 -> b <= 8 -> epSquareOfFile w a = epSquareOfFile w b -> a = b.
Proof.
  intros Ha Hb. unfold epSquareOfFile, mkSq.
  destruct (N.eqb_spec a 8), (N.eqb_spec b 8); destruct w; lia.
Qed.

Lemma in_flat_map3 {A B C D} (f : A -> list B) (g : A -> B -> list C) (h : A -> B -> C -> list D) la x :
  In x (flat_map (fun a => flat_map (fun b => flat_map (h a b) (g a b)) (f a)) la) ->
  exists a b c, In a la /\ In b (f a) /\ In c (g a b) /\ In x (h a b c).
Proof.
  intro H. apply in_flat_map in H. destruct H as (a & Ha & H). apply in_flat_map in H. destruct H as (b & Hb & H).
  apply in_flat_map in H. destruct H as (c & Hc & H). exists a, b, c. auto.
Qed.

Lemma candidatesFor_NoDup q incl m : NoDup (candidatesFor q incl m).
Proof.
  unfold candidatesFor. cbv zeta. set (w := negb (whiteMove q)). set (pc := movingPieceOf q m).
  apply (NoDup_flat_map_key (fun um => u_captured (um_ui um)) (fun p0 => if w then makeBlack p0 else p0)).
  - destruct w; vm_compute; repeat (constructor; [cbn; intros H; repeat (destruct H as [H|H]; [discriminate|]); exact H|]); constructor.
  - intros p0 _. destruct (negb (validCapturePiece m pc p0)); [constructor|].
    set (cap := if w then makeBlack p0 else p0). set (base := getBaseCastleMask q m pc).
    set (add := andn (getCastleAddMask q m pc cap) base).
    assert (Hadd : add < 16).
    { apply lt16_of_bits. intros i Hi. unfold add, andn. rewrite N.ldiff_spec.
      unfold getCastleAddMask, andn. cbv zeta. rewrite N.ldiff_spec, (bits16 _ i (maxCastleMask_lt _) Hi). reflexivity. }
    apply (NoDup_flat_map_key (fun um => N.ldiff (u_castleMask (um_ui um)) base) (fun c => c)).
    + apply NoDup_map_id. apply castleAlternatives_NoDup. exact Hadd.
    + intros c _.
      apply (NoDup_flat_map_key (fun um => u_epSquare (um_ui um)) (epSquareOfFile w)).
      * assert (Hm : getEpMask q m pc cap incl < 2 ^ 64).
        { apply lt_2_64_of_bits. intros i Hi. apply getEpMask_bits in Hi. lia. }
        rewrite epFiles_bits. destruct (bits64_spec _ Hm) as (Hnd & Hin).
        apply NoDup_map_inj; [|exact Hnd]. intros a b Ha Hb. apply epSquareOfFile_inj.
        -- apply Hin in Ha. apply (getEpMask_bits _ _ _ _ _ _ Ha).
        -- apply Hin in Hb. apply (getEpMask_bits _ _ _ _ _ _ Hb).
      * intros f _. destruct (_ && _); [constructor | repeat constructor; intros []].
      * intros f b _ Hb. destruct (_ && _); [destruct Hb|]. destruct Hb as [<-|[]]. reflexivity.
    + intros c b Hc Hb. apply in_flat_map in Hb. destruct Hb as (f & _ & Hb).
      destruct (_ && _); [destruct Hb|]. destruct Hb as [<-|[]]. cbn [um_ui u_castleMask].
      assert (Hcc : c < 16).
      { exact (castleAlt_bound add c Hadd Hc). }
      apply (castleAlternatives_In add c Hadd Hcc) in Hc.
      apply N.bits_inj. intro i. rewrite N.ldiff_spec, N.lor_spec.
      destruct (N.testbit base i) eqn:Hb; [|rewrite andb_true_r; reflexivity].
      cbn [orb negb andb]. rewrite <- Hc, N.land_spec. unfold add, andn. rewrite N.ldiff_spec, Hb. cbn [negb]. rewrite andb_false_r, andb_false_r. reflexivity.
  - intros p0 b _ Hb. destruct (negb (validCapturePiece m pc p0)); [destruct Hb|].
    apply in_flat_map in Hb. destruct Hb as (c & _ & Hb). apply in_flat_map in Hb. destruct Hb as (f & _ & Hb).
    destruct (_ && _); [destruct Hb|]. destruct Hb as [<-|[]]. reflexivity.
Qed.

(** * the whole list *)
Theorem candidates_NoDup q incl : WF q -> NoDup (candidates q incl).
Proof.
  intro Hwf. unfold candidates.
  apply (NoDup_flat_map_key um_move (fun m => m)).
  - apply NoDup_map_id. apply revMoveList_NoDup. exact Hwf.
  - intros m _. apply candidatesFor_NoDup.
  - intros m b _ Hb. apply candidatesFor_In in Hb. destruct Hb as (p0 & c & f & Hb). cbv zeta in Hb.
    destruct Hb as (_ & _ & _ & _ & _ & ->). reflexivity.
Qed.

Theorem genMoves_NoDup zk q incl : WF q -> NoDup (genMoves zk q incl).
Proof. intro Hwf. unfold genMoves. apply NoDup_filter. apply candidates_NoDup. exact Hwf. Qed.
