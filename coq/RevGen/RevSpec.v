(** Specification side of C15, independent of the reverse move generator and of the engine's
    position code: everything here is stated over the mailbox FIDE rules of Chess/Spec.v
    ([legal_specb], [make_spec], [legal_moves_spec]).

    - [fixup_spec]: the en-passant right of a position is kept only when an en-passant capture is
      a legal move (what TextIO::fixupEPSquare is meant to do);
    - [step_spec]: the successor position Q of (P, m);
    - [expected_undo]: the undo information that takes Q back to P (captured piece, castling
      rights and en-passant square of P);
    - [counts_ok]: piece counts obtainable from the initial position by captures and promotions;
    - [complete_at] / [consistent_at]: the two halves of the property for one (P, m) / one
      un-move, as executable checks used by the finder on the output of the real code. *)
From Coq Require Import ZArith NArith List Bool.
From Texel Require Import Chess.Types Chess.Spec.
Import ListNotations.
Local Open Scope Z_scope.

Definition board_eqb (a b : board) : bool :=
  (length a =? length b)%nat && forallb (fun xy => N.eqb (fst xy) (snd xy)) (combine a b).

Definition spos_eqb (a b : spos) : bool :=
  board_eqb (sp_board a) (sp_board b) && Bool.eqb (sp_white a) (sp_white b) &&
  N.eqb (sp_castle a) (sp_castle b) && (sp_ep a =? sp_ep b).

(** some legal move is a pawn move onto the en-passant square *)
Definition ep_capture_legal (sp : spos) : bool :=
  existsb (fun m => (Z.of_N (mto m) =? sp_ep sp) &&
                    is_piece (sp_white sp) Pawn (at_ (sp_board sp) (file_of (mfrom m)) (rank_of (mfrom m))))
          (legal_moves_spec sp).

Definition fixup_spec (sp : spos) : spos :=
  if sp_ep sp =? -1 then sp
  else if ep_capture_legal sp then sp
  else mkSpos (sp_board sp) (sp_white sp) (sp_castle sp) (-1).

Definition step_spec (sp : spos) (m : move) : spos := fixup_spec (make_spec sp m).

(** captured piece (EMPTY for en passant: the pawn is put back by the e.p. rule), castling rights, e.p. square *)
Definition expected_undo (sp : spos) (m : move) : piece * N * Z :=
  (at_ (sp_board sp) (file_of (mto m)) (rank_of (mto m)), sp_castle sp, sp_ep sp).

(** piece counts: pawns + promoted pieces <= 8 per side *)
Definition cnt (b : board) (pc : piece) : Z := Z.of_nat (count_piece b pc).
Definition side_counts_ok (b : board) (w : bool) : bool :=
  cnt b (mk_piece w Pawn)
  + Z.max 0 (cnt b (mk_piece w Knight) - 2) + Z.max 0 (cnt b (mk_piece w Bishop) - 2)
  + Z.max 0 (cnt b (mk_piece w Rook) - 2) + Z.max 0 (cnt b (mk_piece w Queen) - 1) <=? 8.
Definition counts_ok (b : board) : bool := side_counts_ok b true && side_counts_ok b false.

(** a position of the domain of C15: accepted by the FEN reader's rules, counts obtainable,
    en-passant right only when it can be used, and the square behind the e.p. square is empty *)
(** the pawn that made the double step came from the square behind the e.p. square: it is empty
    (true of every position reached by play; not looked at by the FEN reader) *)
Definition ep_origin_ok (sp : spos) : bool :=
  (sp_ep sp =? -1) ||
  N.eqb (at_ (sp_board sp) (file_of (Z.to_N (sp_ep sp))) (rank_of (Z.to_N (sp_ep sp)) + (if sp_white sp then 1 else -1))) EMPTY.

Definition rev_domain (sp : spos) : bool :=
  accepted sp && counts_ok (sp_board sp) && spos_eqb (fixup_spec sp) sp && ep_origin_ok sp.

(** an un-move as the real code reports it *)
Record sunmove := mkSUn { su_move : move; su_cap : piece; su_castle : N; su_ep : Z }.

Definition sunmove_matches (m : move) (e : piece * N * Z) (u : sunmove) : bool :=
  move_eqb (su_move u) m && N.eqb (su_cap u) (fst (fst e)) && N.eqb (su_castle u) (snd (fst e)) && (su_ep u =? snd e).

(** completeness at (P, m): the list reported for Q = step_spec P m contains m with the undo
    information of P.  [allEp = false]: predecessors with an en-passant right are only required
    when m is the en-passant capture itself. *)
Definition is_ep_capture (sp : spos) (m : move) : bool :=
  is_piece (sp_white sp) Pawn (at_ (sp_board sp) (file_of (mfrom m)) (rank_of (mfrom m))) &&
  (Z.of_N (mto m) =? sp_ep sp).

Definition complete_required (sp : spos) (m : move) (allEp : bool) : bool :=
  rev_domain sp && legal_specb sp m && (allEp || (sp_ep sp =? -1) || is_ep_capture sp m).

Definition complete_at (sp : spos) (m : move) (allEp : bool) (listed : list sunmove) : bool :=
  negb (complete_required sp m allEp) || existsb (sunmove_matches m (expected_undo sp m)) listed.

(** consistency of one un-move: [prev] is the position the real unMakeMove produced from [q];
    the move must be legal there, lead back to [q], and [prev] must carry the undo information *)
Definition consistent_at (q : spos) (u : sunmove) (prev : spos) : bool :=
  accepted prev && legal_specb prev (su_move u) && spos_eqb (step_spec prev (su_move u)) q &&
  sunmove_matches (su_move u) (expected_undo prev (su_move u)) u.
