(** C15 proofs, part 12: consistency for slider un-moves.  The Spec's ray walk on a position that satisfies the
    board invariant only (the restored position is not known to be well-formed beforehand), the attack set seen
    from the other end of the move, and legality of queen, rook and bishop un-moves by the FIDE rules. *)
From Coq Require Import ZArith NArith List Bool Lia.
From Texel Require Import Chess.Types Chess.Position Chess.PositionSpec Chess.PositionFacts
  Chess.PositionProofs Chess.PositionProofs2 Chess.PositionProofs3 Chess.PositionProofs4 Chess.PositionTheorems
  Chess.PositionSources Chess.Fen Chess.Spec Chess.BitBoard Chess.MoveGen Chess.MoveGenWF Chess.MoveGenProofs
  Chess.BitBoardProofs Chess.RayProofs Chess.SliderProofs Chess.AttackProofs Chess.PawnProofs Chess.PseudoProofs
  Chess.MakeSpecProofs gen.BitBoardTables
  RevGen.RevGen RevGen.RevFacts RevGen.RevAbs RevGen.RevRestore RevGen.RevValid RevGen.RevCand RevGen.RevRaw RevGen.RevLegal
  RevGen.RevPawn RevGen.RevCons.
Import ListNotations.
Local Open Scope N_scope.

(** * the Spec's ray walk = the engine's cut ray minus own pieces (SliderProofs.ray_moves_cut from BoardOK) *)
Lemma ray_moves_cut_B : forall p w, BoardOK p -> forall k f0 r0 x y dx dy,
  on_board x y = true -> In (dx, dy) allDirs ->
  ray_moves (squares p) w k f0 r0 x y dx dy =
  map (fun t => mkMove (sq_of f0 r0) t EMPTY)
      (filter (fun t => negb (has_color w (getPiece p t))) (cutAt (occupiedBB p) (rayList k x y dx dy false))).
Proof.
  intros p w H. induction k as [|k IH]; intros f0 r0 x y dx dy Hob Hd; [reflexivity|].
  cbn [ray_moves rayList].
  assert (Hdxy : (dx = 0 \/ dx = 1 \/ dx = -1)%Z /\ (dy = 0 \/ dy = 1 \/ dy = -1)%Z).
  { unfold allDirs in Hd. cbn in Hd. intuition (try congruence); match goal with E : (_, _) = (_, _) |- _ => injection E; intros; subst; auto end. }
  pose proof Hob as Hob0. unfold on_board in Hob. rewrite !andb_true_iff, !Z.leb_le in Hob.
  set (x' := (if (dx =? 0)%Z then x else (x + dx)%Z)). set (y' := (if (dy =? 0)%Z then y else (y + dy)%Z)).
  assert (Ex : x' = (x + dx)%Z) by (subst x'; destruct (Z.eqb_spec dx 0); lia).
  assert (Ey : y' = (y + dy)%Z) by (subst y'; destruct (Z.eqb_spec dy 0); lia).
  assert (Hb1 : negb (dx =? 0)%Z && ((x' <? 0)%Z || (x' >? 7)%Z) = negb ((0 <=? x + dx)%Z && (x + dx <=? 7)%Z)).
  { rewrite Ex. destruct (Z.eqb_spec dx 0), (Z.ltb_spec (x + dx) 0), (Z.leb_spec 0 (x + dx)), (Z.leb_spec (x + dx) 7);
      rewrite ?Z.gtb_ltb; try destruct (Z.ltb_spec 7 (x + dx)); cbn; try reflexivity; lia. }
  assert (Hb2 : negb (dy =? 0)%Z && ((y' <? 0)%Z || (y' >? 7)%Z) = negb ((0 <=? y + dy)%Z && (y + dy <=? 7)%Z)).
  { rewrite Ey. destruct (Z.eqb_spec dy 0), (Z.ltb_spec (y + dy) 0), (Z.leb_spec 0 (y + dy)), (Z.leb_spec (y + dy) 7);
      rewrite ?Z.gtb_ltb; try destruct (Z.ltb_spec 7 (y + dy)); cbn; try reflexivity; lia. }
  rewrite Hb1, Hb2. unfold on_board at 1.
  destruct ((0 <=? x + dx)%Z && (x + dx <=? 7)%Z) eqn:E1; cbn [negb andb]; [|reflexivity].
  destruct ((0 <=? y + dy)%Z && (y + dy <=? 7)%Z) eqn:E2; cbn [negb andb].
  2:{ reflexivity. }
  assert (Hob' : on_board (x + dx) (y + dy) = true).
  { unfold on_board. rewrite andb_true_iff in E1, E2. destruct E1 as [-> ->], E2 as [-> ->]. reflexivity. }
  replace ((0 <=? x + dx)%Z && (x + dx <=? 7)%Z && (0 <=? y + dy)%Z && (y + dy <=? 7)%Z) with true
    by (symmetry; exact Hob').
  rewrite Ex, Ey. fold (sq_of (x + dx) (y + dy)). cbn [cutAt].
  destruct (sq_of_coords _ _ Hob') as [Hs64 _].
  rewrite occb_testbit, (occupied_testbit_B p _ H).
  replace (sq_of (x + dx) (y + dy) <? 64) with true by (symmetry; apply N.ltb_lt; exact Hs64). cbn [andb].
  rewrite (at_getPiece p _ _ Hob'). unfold mv.
  set (t := sq_of (x + dx) (y + dy)) in *.
  destruct (getPiece p t =? EMPTY) eqn:Ee; cbn [negb].
  - cbn [filter]. apply N.eqb_eq in Ee. rewrite Ee. cbn [has_color color_of negb map]. unfold EMPTY. cbn [has_color color_of negb map].
    f_equal. apply IH; assumption.
  - cbn [filter].
    assert (Hcol : has_color (negb w) (getPiece p t) = negb (has_color w (getPiece p t))).
    { pose proof (BoardOK_le12 p t H) as Hle. apply N.eqb_neq in Ee. unfold EMPTY in Ee.
      destruct (le12_cases _ Hle) as [E|[E|[E|[E|[E|[E|[E|[E|[E|[E|[E|[E|E]]]]]]]]]]]]; try congruence;
        rewrite E; destruct w; reflexivity. }
    rewrite Hcol. destruct (has_color w (getPiece p t)); reflexivity.
Qed.

Lemma slider_bridge_B p (atk : square -> N) (dirs : list (Z * Z)) : BoardOK p -> incl dirs allDirs ->
  (forall s t, s < 64 -> N.testbit (atk s) t = true -> exists d, In d dirs /\ In t (cutAt (occupiedBB p) (ray s d))) ->
  forall w s t, s < 64 -> N.testbit (atk s) t = true -> has_color w (getPiece p t) = false ->
  In (mkMove s t EMPTY) (slider_moves (squares p) w (zf s) (zr s) dirs).
Proof.
  intros BO dirs_ok atk_spec w s t Hs Ht1 Ht2. destruct (coords_of_sq s Hs) as [Hob [_ Hsq]].
  unfold slider_moves. rewrite in_flat_map.
  destruct (atk_spec s t Hs Ht1) as [d [Hd Hin]].
  exists d. split; [exact Hd|].
  rewrite (ray_moves_cut_B p w BO 7 _ _ _ _ _ _ Hob) by (rewrite <- surjective_pairing; apply dirs_ok; exact Hd).
  rewrite <- (ray_fuel s d Hs (dirs_ok d Hd)). rewrite Hsq.
  apply in_map_iff. exists t. split; [reflexivity|]. apply filter_In. split; [exact Hin|].
  rewrite Ht2. reflexivity.
Qed.

Section Slide.
Variable zk : zkeys.
Variable q : position.
Hypothesis Cq : Consistent zk q.
Hypothesis Hwf : WF q.
Variable incl : bool.
Variable um : unMove.
Hypothesis Hin : In um (genMoves zk q incl).

Let m := um_move um.
Let ui := um_ui um.
Let f := mfrom m.
Let t := mto m.
Let sqsQ := squares q.
Let mp := nthP sqsQ t.
Let wm := negb (whiteMove q).
Let prev := unMakeMove zk q m ui.

Hypothesis Hpr : mpromote m = EMPTY.
Hypothesis Hnp : isPawnPiece mp = false.
Hypothesis Hnu : isKingPiece mp = true -> t <> f + 2 /\ t + 2 <> f.
Hypothesis Hf : f < 64.
Hypothesis Ht : t < 64.
Hypothesis Hft : f <> t.
Hypothesis Hfe : nthP sqsQ f = EMPTY.

(** the undo information *)
Inductive Setup : Prop :=
| mkSetup (p0 : piece) : In p0 [EMPTY; WKING; WQUEEN; WROOK; WBISHOP; WKNIGHT; WPAWN] ->
    u_captured ui = (if wm then makeBlack p0 else p0) -> u_captured ui < 13 -> Setup.

Lemma setup : Setup.
Proof.
  destruct (proj1 (genMoves_In zk q incl um) Hin) as (Hc & _).
  apply candidates_In in Hc. destruct Hc as (m' & _ & Hc). apply candidatesFor_In in Hc. cbv zeta in Hc.
  destruct Hc as (p0 & castle & epFile & Hp0 & _ & _ & _ & _ & Eum).
  assert (Ecap : u_captured ui = (if wm then makeBlack p0 else p0)) by (unfold ui; rewrite Eum; reflexivity).
  apply (mkSetup p0 Hp0 Ecap). rewrite Ecap. unfold wm. cbn [In] in Hp0.
  destruct Hp0 as [<-|[<-|[<-|[<-|[<-|[<-|[<-|[]]]]]]]]; destruct (negb (whiteMove q)); cbv; reflexivity.
Qed.

Lemma lenQ64 : length sqsQ = 64%nat.
Proof. apply (lenQ zk q Cq). Qed.

Lemma prev_squares : u_captured ui < 13 -> squares prev = prevBoard q m ui.
Proof.
  intro Hcap. pose proof (prev_abs zk q Cq m ui Hf Ht Hft Hcap Hpr Hnp Hnu Hfe) as Ha.
  apply (f_equal sp_board) in Ha. exact Ha.
Qed.

Lemma prev_sq s : u_captured ui < 13 -> s < 64 ->
  nthP (squares prev) s = if s =? f then mp else if s =? t then u_captured ui else nthP sqsQ s.
Proof.
  intros Hcap Hs. rewrite (prev_squares Hcap). unfold prevBoard. fold f t sqsQ mp.
  rewrite !nthP_updN by (rewrite ?length_updN, lenQ64; lia). reflexivity.
Qed.

Lemma prev_BO : u_captured ui < 13 -> BoardOK prev.
Proof.
  intro Hcap. apply (Consistent_BoardOK zk 0 prev).
  exact (prev_consistent zk q Cq m ui Hf Ht Hft Hcap Hpr Hnp Hnu Hfe).
Qed.

(** the attack set seen from the other end: between the two squares nothing changed *)
Lemma atk_back (atk : square -> N -> N) (al : square -> square -> bool) : u_captured ui < 13 ->
  (forall s t' occ, s < 64 -> t' < 64 ->
     (N.testbit (atk s occ) t' = true <-> al s t' = true /\ N.land (squaresBetween s t') occ = 0)) ->
  (forall s t', s < 64 -> t' < 64 -> al s t' = al t' s) ->
  N.testbit (atk t (occupiedBB q)) f = true -> N.testbit (atk f (occupiedBB prev)) t = true.
Proof.
  intros Hcap Hspec Hsym Hatk.
  apply (Hspec t f _ Ht Hf) in Hatk. destruct Hatk as (Hal & Hbt).
  apply (Hspec f t _ Hf Ht). split; [rewrite (Hsym f t Hf Ht); exact Hal|].
  destruct (sym_facts f t Hf Ht) as (_ & _ & Hbs & Hbf & Hbtt & _). rewrite <- Hbs in Hbt.
  apply N.bits_inj. intro s. rewrite N.land_spec, N.bits_0.
  destruct (N.testbit (squaresBetween f t) s) eqn:Hb; [|reflexivity]. cbn [andb].
  assert (Hs64 : s < 64).
  { destruct (squaresBetween_spec f t Hf Ht) as (Hlt & _). apply (bits_below_64 _ Hlt s Hb). }
  assert (Hsf : s <> f) by (intro E; rewrite E, Hbf in Hb; discriminate).
  assert (Hst : s <> t) by (intro E; rewrite E, Hbtt in Hb; discriminate).
  assert (HoQ : N.testbit (occupiedBB q) s = false).
  { assert (Hx : N.testbit (N.land (squaresBetween f t) (occupiedBB q)) s = false) by (rewrite Hbt; apply N.bits_0).
    rewrite N.land_spec, Hb in Hx. exact Hx. }
  rewrite (occupied_testbit_B prev s (prev_BO Hcap)).
  change (getPiece prev s) with (nthP (squares prev) s). rewrite (prev_sq s Hcap Hs64).
  replace (s =? t) with false by (symmetry; apply N.eqb_neq; exact Hst).
  replace (s =? f) with false by (symmetry; apply N.eqb_neq; exact Hsf).
  rewrite (occupied_testbit_B q s (WF_BoardOK q Hwf)) in HoQ. exact HoQ.
Qed.

Theorem legal_slide (X : piece) (K : kind) (dirs : list (Z * Z)) (atk : square -> N) :
  (X = WROOK /\ K = Rook /\ dirs = rook_dirs) \/ (X = WBISHOP /\ K = Bishop /\ dirs = bishop_dirs) \/
  (X = WQUEEN /\ K = Queen /\ dirs = rook_dirs ++ bishop_dirs) ->
  (forall s t', s < 64 -> N.testbit (atk s) t' = true -> exists d, In d dirs /\ In t' (cutAt (occupiedBB prev) (ray s d))) ->
  mp = myPiece wm X -> N.testbit (atk f) t = true -> legal_spec (abs prev) m.
Proof.
  intros HXK Hcut Hmp Hatk. destruct setup as [p0 Hp0 Ecap Hcap].
  assert (Hdirs : List.incl dirs allDirs).
  { unfold allDirs. destruct HXK as [(_ & _ & ->)|[(_ & _ & ->)|(_ & _ & ->)]]; [apply incl_appl, incl_refl | apply incl_appr, incl_refl | apply incl_refl]. }
  assert (HmpK : mp = mk_piece wm K).
  { rewrite Hmp. destruct HXK as [(-> & -> & _)|[(-> & -> & _)|(-> & -> & _)]]; generalize wm; intros []; reflexivity. }
  assert (HnK : is_piece wm King mp = false).
  { rewrite HmpK. destruct HXK as [(_ & -> & _)|[(_ & -> & _)|(_ & -> & _)]]; generalize wm; intros []; reflexivity. }
  assert (HnP : is_piece wm Pawn mp = false).
  { rewrite HmpK. destruct HXK as [(_ & -> & _)|[(_ & -> & _)|(_ & -> & _)]]; generalize wm; intros []; reflexivity. }
  pose proof (prev_abs zk q Cq m ui Hf Ht Hft Hcap Hpr Hnp Hnu Hfe) as Ha.
  pose proof (prevBoard_f zk q Cq m ui Hf Ht Hft Hcap Hpr Hnu Hfe) as Bf. pose proof (prevBoard_t zk q Cq m ui Hf Ht Hft Hcap Hpr Hnu Hfe) as Bt.
  pose proof (remade_board zk q Cq m ui Hf Ht Hft Hcap Hpr Hnu Hfe) as Brm.
  fold f t sqsQ mp in Bf, Bt, Brm.
  pose proof (prev_squares Hcap) as Esq.
  set (pb := prevBoard q m ui) in *.
  assert (Hlen : length pb = 64%nat) by (unfold pb, prevBoard; rewrite !length_updN; apply lenQ64).
  assert (Hat : forall s, s < 64 -> at_ pb (zf s) (zr s) = nthP pb s).
  { intros s Hs. destruct (coords_of_sq s Hs) as (Hob & Hi & _). unfold at_, nthP. rewrite Hob, Hi. reflexivity. }
  destruct (coords_of_sq f Hf) as (Hobf & _ & Hsf). destruct (coords_of_sq t Ht) as (Hobt & _ & Hst).
  assert (Hm : m = mkMove f t EMPTY) by (rewrite (move_eta m), Hpr; reflexivity).
  unfold prev. unfold legal_spec. rewrite Ha. split.
  - unfold pseudo_moves. apply in_app_iff. left. apply in_flat_map. exists (zf f, zr f). split; [apply all_coords_on_board; exact Hobf|].
    cbn [fst snd].
    apply (piece_moves_In _ (zf f) (zr f) m).
    + cbn [sp_board]. rewrite (Hat f Hf), Bf, HmpK. generalize wm. intros []; destruct K; cbv; discriminate.
    + cbn [sp_board sp_white]. fold wm. rewrite (Hat f Hf), Bf.
      assert (Hsl : In m (slider_moves pb wm (zf f) (zr f) dirs)).
      { rewrite Hm. rewrite <- Esq.
        apply (slider_bridge_B prev atk dirs (prev_BO Hcap) Hdirs Hcut wm f t Hf Hatk).
        change (getPiece prev t) with (nthP (squares prev) t). rewrite Esq, Bt, Ecap. apply captured_not_own. exact Hp0. }
      destruct HXK as [(_ & -> & ->)|[(_ & -> & ->)|(_ & -> & ->)]].
      * right. right. left. split; [exact HmpK | exact Hsl].
      * right. right. right. left. split; [exact HmpK | exact Hsl].
      * right. right. right. right. left. split; [exact HmpK | exact Hsl].
  - cbn [sp_white]. fold wm.
    assert (Hb : sp_board (make_spec (mkSpos pb wm (u_castleMask ui) (u_epSquare ui)) m) = sqsQ).
    { rewrite (make_spec_board _ m Hf Ht). cbv zeta. cbn [sp_board sp_white]. fold f t.
      change (nth (N.to_nat f) pb EMPTY) with (nthP pb f). change (nth (N.to_nat t) pb EMPTY) with (nthP pb t). rewrite Bf, Hpr.
      rewrite HnP, HnK. cbn [andb]. change (EMPTY =? EMPTY) with true. cbv iota. exact Brm. }
    rewrite Hb.
    destruct (WF_parts q Hwf) as (_ & _ & _ & _ & Hacc). destruct (accepted_parts _ Hacc) as (_ & _ & _ & _ & Hck & _).
    cbn [abs sp_board sp_white] in Hck. exact Hck.
Qed.

End Slide.

(** * every un-move of a piece other than a pawn that is not an un-castling is legal by the FIDE rules *)
Section NonPawn.
Variable zk : zkeys.
Variable q : position.
Hypothesis Cq : Consistent zk q.
Hypothesis Hwf : WF q.
Variable incl : bool.
Variable um : unMove.
Hypothesis Hin : In um (genMoves zk q incl).

Let m := um_move um.
Let ui := um_ui um.
Let f := mfrom m.
Let t := mto m.
Let sqsQ := squares q.
Let mp := nthP sqsQ t.
Let wm := negb (whiteMove q).
Let prev := unMakeMove zk q m ui.

Hypothesis Hpr : mpromote m = EMPTY.
Hypothesis Hnp : isPawnPiece mp = false.
Hypothesis Hnu : isKingPiece mp = true -> t <> f + 2 /\ t + 2 <> f.

Lemma un_facts X (a : square -> N) : In X [WQUEEN; WROOK; WBISHOP] -> PieceUn q X a m ->
  f < 64 /\ t < 64 /\ f <> t /\ nthP sqsQ f = EMPTY /\ mp = myPiece wm X /\ N.testbit (a t) f = true.
Proof.
  intros HX (_ & A & B & C & D & E). repeat split; try assumption.
  intro Eft. change (getPiece q (mto m)) with (nthP sqsQ t) in B. change (getPiece q (mfrom m)) with (nthP sqsQ f) in D.
  rewrite Eft, B in D. revert D. cbn [In] in HX. generalize (negb (whiteMove q)). intros b.
  destruct HX as [<-|[<-|[<-|[]]]]; destruct b; discriminate.
Qed.

Lemma rook_cut occ s t' : N.testbit (rookAttacks s occ) t' = true -> exists d, In d rook_dirs /\ In t' (cutAt occ (ray s d)).
Proof. apply rookAttacks_cut. Qed.
Lemma bishop_cut occ s t' : N.testbit (bishopAttacks s occ) t' = true -> exists d, In d bishop_dirs /\ In t' (cutAt occ (ray s d)).
Proof. apply bishopAttacks_cut. Qed.

Theorem legal_nonpawn : legal_spec (abs prev) m.
Proof.
  destruct (raw_shape zk q Hwf incl um Hin Hpr Hnp Hnu) as [H|[(H & _)|[H|[H|[(H & _)|(k0 & kSq & Em & Hk0 & Hk2 & Hkk)]]]]].
  - (* queen *)
    destruct (un_facts WQUEEN _ ltac:(cbn; tauto) H) as (Hf & Ht & Hft & Hfe & Hmp & Ha).
    destruct (setup zk q incl um Hin) as [p0 _ _ Hcap].
    apply (legal_slide zk q Cq Hwf incl um Hin Hpr Hnp Hnu Hf Ht Hft Hfe WQUEEN Queen (rook_dirs ++ bishop_dirs)
             (fun s => N.lor (rookAttacks s (occupiedBB prev)) (bishopAttacks s (occupiedBB prev)))).
    + right. right. auto.
    + intros s t' _ Hb. rewrite N.lor_spec in Hb. apply orb_true_iff in Hb.
      destruct Hb as [Hb|Hb]; [apply rook_cut in Hb | apply bishop_cut in Hb]; destruct Hb as (d & Hd & Hi); exists d;
        (split; [apply in_or_app; auto | exact Hi]).
    + exact Hmp.
    + unfold aQ in Ha. rewrite N.lor_spec in Ha |- *. apply orb_true_iff in Ha. apply orb_true_iff. destruct Ha as [Ha|Ha]; [left | right].
      * apply (atk_back zk q Cq Hwf um Hpr Hnp Hnu Hf Ht Hft Hfe rookAttacks rookAligned Hcap rookAttacks_spec); [|exact Ha].
        intros s t' A B. apply (sym_facts s t' A B).
      * apply (atk_back zk q Cq Hwf um Hpr Hnp Hnu Hf Ht Hft Hfe bishopAttacks bishopAligned Hcap bishopAttacks_spec); [|exact Ha].
        intros s t' A B. apply (sym_facts s t' A B).
  - (* rook *)
    destruct (un_facts WROOK _ ltac:(cbn; tauto) H) as (Hf & Ht & Hft & Hfe & Hmp & Ha).
    destruct (setup zk q incl um Hin) as [p0 _ _ Hcap].
    apply (legal_slide zk q Cq Hwf incl um Hin Hpr Hnp Hnu Hf Ht Hft Hfe WROOK Rook rook_dirs (fun s => rookAttacks s (occupiedBB prev))).
    + left. auto.
    + intros s t' _ Hb. apply rook_cut. exact Hb.
    + exact Hmp.
    + apply (atk_back zk q Cq Hwf um Hpr Hnp Hnu Hf Ht Hft Hfe rookAttacks rookAligned Hcap rookAttacks_spec); [|exact Ha].
      intros s t' A B. apply (sym_facts s t' A B).
  - (* bishop *)
    destruct (un_facts WBISHOP _ ltac:(cbn; tauto) H) as (Hf & Ht & Hft & Hfe & Hmp & Ha).
    destruct (setup zk q incl um Hin) as [p0 _ _ Hcap].
    apply (legal_slide zk q Cq Hwf incl um Hin Hpr Hnp Hnu Hf Ht Hft Hfe WBISHOP Bishop bishop_dirs (fun s => bishopAttacks s (occupiedBB prev))).
    + right. left. auto.
    + intros s t' _ Hb. apply bishop_cut. exact Hb.
    + exact Hmp.
    + apply (atk_back zk q Cq Hwf um Hpr Hnp Hnu Hf Ht Hft Hfe bishopAttacks bishopAligned Hcap bishopAttacks_spec); [|exact Ha].
      intros s t' A B. apply (sym_facts s t' A B).
  - (* knight *)
    apply (legal_knight_king zk q Cq Hwf incl um Hin Hpr Hnp Hnu). left. destruct H as (_ & _ & B & _). exact B.
  - (* king *)
    apply (legal_knight_king zk q Cq Hwf incl um Hin Hpr Hnp Hnu). right. destruct H as (_ & _ & B & _). exact B.
  - (* un-castling: excluded *)
    exfalso. assert (Ef : f = k0) by (unfold f, m; rewrite Em; reflexivity). assert (Et : t = kSq) by (unfold t, m; rewrite Em; reflexivity).
    assert (HK : isKingPiece mp = true) by (unfold mp; rewrite Et; exact Hkk).
    destruct (Hnu HK) as (A & B). rewrite Ef, Et in A, B. destruct Hk2; lia.
Qed.

(** C15_consistent_statement for this class *)
Theorem consistent_nonpawn :
  Consistent zk prev /\ legal_spec (abs prev) m /\ abs (successor zk prev m) = abs q.
Proof.
  destruct (consistent_pieces zk q Cq Hwf incl um Hin Hpr Hnp Hnu) as (A & B).
  split; [exact A | split; [exact legal_nonpawn | exact B]].
Qed.

End NonPawn.
