(** C15 proofs, part 14: consistency for un-castlings.  The squares the king crosses are not attacked in
    the restored position because the king's home square and the rook's square are not attacked in Q and
    the king is not in check in Q; the restored position; making the move again; legality. *)
From Coq Require Import ZArith NArith List Bool Lia.
From Texel Require Import Chess.Types Chess.Position Chess.PositionSpec Chess.PositionFacts
  Chess.PositionProofs Chess.PositionProofs2 Chess.PositionProofs3 Chess.PositionProofs4 Chess.PositionTheorems
  Chess.PositionSources Chess.Fen Chess.Spec Chess.BitBoard Chess.MoveGen Chess.MoveGenWF Chess.MoveGenProofs
  Chess.BitBoardProofs Chess.RayProofs Chess.SliderProofs Chess.AttackProofs Chess.PawnProofs Chess.PseudoProofs
  Chess.MakeSpecProofs gen.BitBoardTables
  RevGen.RevGen RevGen.RevFacts RevGen.RevAbs RevGen.RevRestore RevGen.RevValid RevGen.RevCand RevGen.RevRaw RevGen.RevLegal
  RevGen.RevPawn RevGen.RevCastle RevGen.RevCons RevGen.RevNoDup RevGen.RevTheorems RevGen.RevConsPawn RevGen.RevSlide.
Import ListNotations.
Local Open Scope N_scope.

(** * from Q back to P: the three squares of the king's way are not attacked (Spec level, board against board) *)
Local Open Scope Z_scope.
Opaque at_.
Lemma back_WK (P Q : board) :
  (forall x y, (y <> 0 \/ x <= 3) -> at_ P x y = at_ Q x y) ->
  at_ P 4 0 = WKING -> at_ P 5 0 = EMPTY -> at_ P 6 0 = EMPTY -> at_ P 7 0 = WROOK ->
  at_ Q 4 0 = EMPTY -> at_ Q 5 0 = WROOK -> at_ Q 6 0 = WKING -> at_ Q 7 0 = EMPTY ->
  attacked_by Q false 4 0 = false -> attacked_by Q false 5 0 = false -> attacked_by Q false 6 0 = false ->
  attacked_by P false 4 0 = false /\ attacked_by P false 5 0 = false /\ attacked_by P false 6 0 = false.
Proof.
  intros Hag P4 P5 P6 P7 Q4 Q5 Q6 Q7 S4 S5 S6.
  unfold attacked_by in *; cbn in S4, S5, S6 |- *.
  rewrite ?P4, ?P5, ?P6, ?P7. rewrite !Hag by lia.
  rewrite ?Q4, ?Q5, ?Q6, ?Q7 in S4, S5, S6 |- *. cbn in S4, S5, S6 |- *.
  split_false S4; split_false S5; split_false S6; repeat split; finish_false.
Qed.
Lemma back_BK (P Q : board) :
  (forall x y, (y <> 7 \/ x <= 3) -> at_ P x y = at_ Q x y) ->
  at_ P 4 7 = BKING -> at_ P 5 7 = EMPTY -> at_ P 6 7 = EMPTY -> at_ P 7 7 = BROOK ->
  at_ Q 4 7 = EMPTY -> at_ Q 5 7 = BROOK -> at_ Q 6 7 = BKING -> at_ Q 7 7 = EMPTY ->
  attacked_by Q true 4 7 = false -> attacked_by Q true 5 7 = false -> attacked_by Q true 6 7 = false ->
  attacked_by P true 4 7 = false /\ attacked_by P true 5 7 = false /\ attacked_by P true 6 7 = false.
Proof.
  intros Hag P4 P5 P6 P7 Q4 Q5 Q6 Q7 S4 S5 S6.
  unfold attacked_by in *; cbn in S4, S5, S6 |- *.
  rewrite ?P4, ?P5, ?P6, ?P7. rewrite !Hag by lia.
  rewrite ?Q4, ?Q5, ?Q6, ?Q7 in S4, S5, S6 |- *. cbn in S4, S5, S6 |- *.
  split_false S4; split_false S5; split_false S6; repeat split; finish_false.
Qed.

Lemma back_WQ (P Q : board) :
  (forall x y, (y <> 0 \/ 5 <= x \/ x = 1) -> at_ P x y = at_ Q x y) ->
  at_ P 4 0 = WKING -> at_ P 3 0 = EMPTY -> at_ P 2 0 = EMPTY -> at_ P 0 0 = WROOK ->
  at_ Q 4 0 = EMPTY -> at_ Q 3 0 = WROOK -> at_ Q 2 0 = WKING -> at_ Q 1 0 = EMPTY -> at_ Q 0 0 = EMPTY ->
  attacked_by Q false 4 0 = false -> attacked_by Q false 3 0 = false -> attacked_by Q false 2 0 = false ->
  attacked_by P false 4 0 = false /\ attacked_by P false 3 0 = false /\ attacked_by P false 2 0 = false.
Proof.
  intros Hag P4 P3 P2 P0 Q4 Q3 Q2 Q1 Q0 S4 S3 S2.
  unfold attacked_by in *; cbn in S4, S3, S2 |- *.
  rewrite ?P4, ?P3, ?P2, ?P0. rewrite !Hag by lia.
  rewrite ?Q4, ?Q3, ?Q2, ?Q1, ?Q0 in S4, S3, S2 |- *. cbn in S4, S3, S2 |- *.
  split_false S4; split_false S3; split_false S2; repeat split; finish_false.
Qed.

Lemma back_BQ (P Q : board) :
  (forall x y, (y <> 7 \/ 5 <= x \/ x = 1) -> at_ P x y = at_ Q x y) ->
  at_ P 4 7 = BKING -> at_ P 3 7 = EMPTY -> at_ P 2 7 = EMPTY -> at_ P 0 7 = BROOK ->
  at_ Q 4 7 = EMPTY -> at_ Q 3 7 = BROOK -> at_ Q 2 7 = BKING -> at_ Q 1 7 = EMPTY -> at_ Q 0 7 = EMPTY ->
  attacked_by Q true 4 7 = false -> attacked_by Q true 3 7 = false -> attacked_by Q true 2 7 = false ->
  attacked_by P true 4 7 = false /\ attacked_by P true 3 7 = false /\ attacked_by P true 2 7 = false.
Proof.
  intros Hag P4 P3 P2 P0 Q4 Q3 Q2 Q1 Q0 S4 S3 S2.
  unfold attacked_by in *; cbn in S4, S3, S2 |- *.
  rewrite ?P4, ?P3, ?P2, ?P0. rewrite !Hag by lia.
  rewrite ?Q4, ?Q3, ?Q2, ?Q1, ?Q0 in S4, S3, S2 |- *. cbn in S4, S3, S2 |- *.
  split_false S4; split_false S3; split_false S2; repeat split; finish_false.
Qed.
Transparent at_.

Local Open Scope N_scope.

(** * the un-castle clauses of genMovesNoUndoInfo *)
Section Shape.
Variable q : position.
Hypothesis Hwf : WF q.
Let BO := WF_BoardOK q Hwf.
Let wm := negb (whiteMove q).
Let occ := occupiedBB q.
Let sqsQ := squares q.

Lemma castleClause_full sq k0Sq kSq rSq em l m : k0Sq < 64 ->
  In m (revCastleClause wm q occ sq k0Sq kSq rSq em l) ->
  In m l \/ (m = mkMove k0Sq kSq EMPTY /\ sq = kSq /\ getPiece q rSq = myPiece wm WROOK /\ N.land em occ = 0 /\
             sqAttackedT wm q k0Sq occ = false /\ sqAttackedT wm q rSq occ = false).
Proof.
  intro Hk. unfold revCastleClause. destruct ((sq =? kSq) && _) eqn:C; [|auto].
  apply andb_true_iff in C. destruct C as (C & C2). apply N.eqb_eq in C, C2.
  destruct (_ && _ && _) eqn:D; [|auto]. intro H.
  apply andb_true_iff in D. destruct D as (D & D3). apply andb_true_iff in D. destruct D as (D1 & D2).
  apply N.eqb_eq in D1. apply negb_true_iff in D2, D3.
  apply revAdd_In in H.
  - destruct H as [H|(s0 & Hb & ->)]; [left; exact H|]. right. rewrite bit_bits in Hb. apply N.eqb_eq in Hb. subst s0. auto 10.
  - unfold bit. rewrite N.shiftl_1_l. apply N.pow_lt_mono_r; lia.
Qed.

Definition k0Q : square := if wm then E1 else E8.

Inductive RawCastle (m : move) : Prop :=
| mkRC (kside : bool) :
    m = mkMove k0Q (if kside then k0Q + 2 else k0Q - 2) EMPTY ->
    kingSq q wm = (if kside then k0Q + 2 else k0Q - 2) ->
    nthP sqsQ (if kside then k0Q + 1 else k0Q - 1) = myPiece wm WROOK ->
    nthP sqsQ k0Q = EMPTY -> nthP sqsQ (if kside then k0Q + 3 else k0Q - 4) = EMPTY ->
    (kside = false -> nthP sqsQ (k0Q - 3) = EMPTY) ->
    sqAttackedT wm q k0Q occ = false -> sqAttackedT wm q (if kside then k0Q + 1 else k0Q - 1) occ = false ->
    RawCastle m.

Lemma wmS : wm = true \/ wm = false.
Proof. unfold wm. destruct (whiteMove q); auto. Qed.

Lemma mask_empty em s : N.land em occ = 0 -> N.testbit em s = true -> s < 64 -> nthP sqsQ s = EMPTY.
Proof.
  intros H Hb Hs. apply (occ_empty q BO s Hs).
  assert (X : N.testbit (N.land em occ) s = false) by (rewrite H; apply N.bits_0).
  rewrite N.land_spec, Hb in X. exact X.
Qed.

Lemma kingBlock_castle l m : In m (revKingBlock wm q l) ->
  In m l \/ (PieceUn q WKING (aK) m) \/ RawCastle m.
Proof.
  intro H. unfold revKingBlock in H. cbv zeta in H.
  destruct (kingSq_spec_B q wm BO (king_exists q _ Hwf)) as (Hk64 & Hkp).
  set (ks := kingSq q wm) in *.
  destruct (negb (((ks =? E1) && (a1Castle q || h1Castle q)) || ((ks =? E8) && (a8Castle q || h8Castle q)))) eqn:G; [|left; exact H].
  apply castleClause_full in H; [|destruct wm; cbv; reflexivity].
  destruct H as [H|(Hm & Hs & Hr & He & A1' & A2')].
  2:{ right. right. apply (mkRC m false); unfold k0Q.
      - rewrite Hm. destruct wmS as [E|E]; rewrite E; reflexivity.
      - fold ks. rewrite Hs. destruct wmS as [E|E]; rewrite E; reflexivity.
      - change (getPiece q ?s) with (nthP sqsQ s) in Hr. rewrite <- Hr. destruct wmS as [E|E]; rewrite E; reflexivity.
      - destruct wmS as [E|E]; rewrite E in He |- *; apply (mask_empty _ _ He); vm_compute; reflexivity.
      - destruct wmS as [E|E]; rewrite E in He |- *; apply (mask_empty _ _ He); vm_compute; reflexivity.
      - intros _. destruct wmS as [E|E]; rewrite E in He |- *; apply (mask_empty _ _ He); vm_compute; reflexivity.
      - exact A1'.
      - destruct wmS as [E|E]; rewrite E in A2' |- *; exact A2'. }
  apply castleClause_full in H; [|destruct wm; cbv; reflexivity].
  destruct H as [H|(Hm & Hs & Hr & He & A1' & A2')].
  2:{ right. right. apply (mkRC m true); unfold k0Q.
      - rewrite Hm. destruct wmS as [E|E]; rewrite E; reflexivity.
      - fold ks. rewrite Hs. destruct wmS as [E|E]; rewrite E; reflexivity.
      - change (getPiece q ?s) with (nthP sqsQ s) in Hr. rewrite <- Hr. destruct wmS as [E|E]; rewrite E; reflexivity.
      - destruct wmS as [E|E]; rewrite E in He |- *; apply (mask_empty _ _ He); vm_compute; reflexivity.
      - destruct wmS as [E|E]; rewrite E in He |- *; apply (mask_empty _ _ He); vm_compute; reflexivity.
      - intro X. discriminate X.
      - exact A1'.
      - destruct wmS as [E|E]; rewrite E in A2' |- *; exact A2'. }
  apply revAdd_In in H; [|apply ldiff_lt, kingAttacks_lt].
  destruct H as [H|(s0 & Hb & ->)]; [left; exact H|]. right. left.
  unfold andn in Hb. rewrite N.ldiff_spec in Hb. apply andb_true_iff in Hb. destruct Hb as (Hb1 & Hb2).
  apply negb_true_iff in Hb2.
  assert (Hs0 : s0 < 64) by (apply (bits_below_64 _ (kingAttacks_lt ks) s0 Hb1)).
  pose proof (occ_empty q BO s0 Hs0 Hb2) as He.
  unfold PieceUn. cbn [mfrom mto mpromote]. repeat split; auto.
Qed.

End Shape.

(** with an e.p. square the only raw move is the double step of the pawn behind it *)
Lemma ep_raw_pawn q m : WF q -> epSquare q <> (-1)%Z -> In m (revMoveList q) -> isPawnPiece (nthP (squares q) (mto m)) = true.
Proof.
  intros Hwf E Hraw. unfold revMoveList in Hraw. cbv zeta in Hraw.
  replace (epSquare q =? -1)%Z with false in Hraw by (symmetry; apply Z.eqb_neq; exact E).
  apply revAdd_to in Hraw. destruct Hraw as [[]|(Et & _)].
  destruct (WF_parts q Hwf) as (_ & _ & _ & _ & Ha).
  destruct (accepted_epShape _ Ha) as [H|(e & H1 & H2 & H3 & H4 & H5)]; cbn [abs sp_ep sp_white sp_board] in *; [contradiction|].
  rewrite H1, N2Z.id in Et. rewrite Et. unfold sqAdd. unfold sqY in H3.
  destruct (whiteMove q); cbn [negb].
  - replace (Z.to_N (Z.of_N e + -8)) with (e - 8) by (pose proof (N.div_mod e 8 ltac:(lia)); lia). rewrite H5. reflexivity.
  - replace (Z.to_N (Z.of_N e + 8)) with (e + 8) by lia. rewrite H5. reflexivity.
Qed.

Section CastleCons.
Variable zk : zkeys.
Hypothesis EKZ : emptyKeysZero zk.
Variable q : position.
Hypothesis Cq : Consistent zk q.
Hypothesis Hwf : WF q.
Variable incl : bool.
Variable um : unMove.
Hypothesis Hin : In um (genMoves zk q incl).

Let m := um_move um.
Let ui := um_ui um.
Let f := mfrom m.
Let t := mto m.
Let sqsQ := squares q.
Let mpT := nthP sqsQ t.
Let wm := negb (whiteMove q).
Let prev := unMakeMove zk q m ui.
Let BO := WF_BoardOK q Hwf.

Hypothesis Hpr : mpromote m = EMPTY.
Hypothesis HkT : isKingPiece mpT = true.
Hypothesis Htwo : t = f + 2 \/ t + 2 = f.

Lemma wmC : wm = true \/ wm = false.
Proof. unfold wm. destruct (whiteMove q); auto. Qed.
Lemma lenQ64 : length sqsQ = 64%nat.
Proof. apply (lenQ zk q Cq). Qed.

Lemma king_not_pawn pc : isKingPiece pc = true -> isPawnPiece pc = false.
Proof.
  unfold isKingPiece, isPawnPiece. intro H. apply orb_true_iff in H. destruct H as [H|H]; apply N.eqb_eq in H; rewrite H; reflexivity.
Qed.

Lemma m_raw : In m (revMoveList q).
Proof. destruct (proj1 (genMoves_In zk q incl um) Hin) as (Hc & _). apply (candidates_clock q incl um Hc). Qed.

Lemma ep_noneC : epSquare q = (-1)%Z.
Proof.
  destruct (Z.eq_dec (epSquare q) (-1)) as [E|E]; [exact E|]. exfalso.
  pose proof (ep_raw_pawn q m Hwf E m_raw) as Hp. fold t sqsQ mpT in Hp. rewrite (king_not_pawn _ HkT) in Hp. discriminate.
Qed.

Lemma myPiece_notking X : In X [WQUEEN; WROOK; WBISHOP; WKNIGHT] -> isKingPiece (myPiece wm X) = false.
Proof. intro H. cbn [In] in H. generalize wm. intro b. destruct H as [<-|[<-|[<-|[<-|[]]]]]; destruct b; reflexivity. Qed.

Theorem rawC : RawCastle q m.
Proof.
  pose proof m_raw as H. rewrite (revMoveList_noep q ep_noneC) in H. rewrite (gen_eq q) in H.
  apply (promoBlock_shape q BO) in H. destruct H as [H|H]; [|contradiction].
  apply (pawnBlock_shape q BO) in H. destruct H as [H|H].
  2:{ exfalso. change (getPiece q (mto m)) with mpT in H. pose proof (king_not_pawn _ HkT) as X. rewrite H in X.
      revert X. generalize (negb (whiteMove q)). intros []; discriminate. }
  apply (kingBlock_castle q Hwf) in H. destruct H as [H|[H|H]]; [| |exact H]; exfalso.
  - assert (Hn : isKingPiece (getPiece q (mto m)) = false).
    { apply (knightBlock_shape q BO) in H. destruct H as [H|(_ & _ & B & _)]; [|rewrite B; apply myPiece_notking; cbn; tauto].
      apply (bishopBlock_shape q BO) in H. destruct H as [H|(_ & _ & B & _)]; [|rewrite B; apply myPiece_notking; cbn; tauto].
      apply (rookBlock_shape q BO) in H. destruct H as [H|((_ & _ & B & _) & _)]; [|rewrite B; apply myPiece_notking; cbn; tauto].
      apply (queenBlock_shape q BO) in H. destruct H as [[]|(_ & _ & B & _)]. rewrite B; apply myPiece_notking; cbn; tauto. }
    change (getPiece q (mto m)) with mpT in Hn. congruence.
  - destruct H as (_ & A & _ & C & _ & E). fold t f in A, C, E. unfold aK in E.
    destruct (king_not_two t A) as (K1 & K2). destruct Htwo as [T|T].
    + assert (Ef : f = t - 2) by lia. rewrite Ef, K2 in E by lia. discriminate.
    + rewrite <- T in E. rewrite K1 in E. discriminate.
Qed.

(** the same in concrete squares *)
Inductive Conc : Prop :=
| mkConc (k0 : square) (kside : bool) (king rook : piece) :
    (k0 = 4 /\ wm = true /\ king = WKING /\ rook = WROOK) \/ (k0 = 60 /\ wm = false /\ king = BKING /\ rook = BROOK) ->
    f = k0 -> t = (if kside then k0 + 2 else k0 - 2) ->
    nthP sqsQ t = king -> nthP sqsQ (if kside then k0 + 1 else k0 - 1) = rook -> nthP sqsQ k0 = EMPTY ->
    nthP sqsQ (if kside then k0 + 3 else k0 - 4) = EMPTY -> (kside = false -> nthP sqsQ (k0 - 3) = EMPTY) ->
    attacked_by sqsQ (negb wm) (zf k0) (zr k0) = false ->
    attacked_by sqsQ (negb wm) (zf (if kside then k0 + 1 else k0 - 1)) (zr (if kside then k0 + 1 else k0 - 1)) = false ->
    attacked_by sqsQ (negb wm) (zf t) (zr t) = false -> Conc.

Lemma conc : Conc.
Proof.
  destruct rawC as [kside Em Hks Hr He1 He2 He3 A1' A2']. fold wm in Hks, Hr, A1', A2'. fold sqsQ in Hr, He1, He2, He3.
  assert (Ef : f = k0Q q) by (unfold f; rewrite Em; reflexivity).
  assert (Et : t = if kside then k0Q q + 2 else k0Q q - 2) by (unfold t; rewrite Em; reflexivity).
  destruct (kingSq_spec_B q wm BO (king_exists q _ Hwf)) as (Hk64 & Hkp).
  assert (Hking : nthP sqsQ t = (if wm then WKING else BKING)).
  { rewrite Et, <- Hks. change (nthP sqsQ (kingSq q wm)) with (getPiece q (kingSq q wm)). rewrite Hkp. generalize wm. intros []; reflexivity. }
  assert (HkQ : attacked_by sqsQ (negb wm) (zf t) (zr t) = false).
  { assert (Ht64 : t < 64) by (rewrite Et, <- Hks; exact Hk64).
    unfold sqsQ. rewrite <- (sqAttacked_spec_B q wm t BO Ht64). rewrite Et, <- Hks.
    rewrite (kingAttacked_spec_B q wm BO (king_exists q _ Hwf)).
    - destruct (WF_parts q Hwf) as (_ & _ & _ & _ & Ha). destruct (accepted_parts _ Ha) as (_ & _ & _ & _ & Hc & _).
      cbn [abs sp_board sp_white] in Hc. exact Hc.
    - intros s1 s2 H1 H2 E1' E2'. exact (king_unique q _ s1 s2 Hwf H1 H2 E1' E2'). }
  assert (Hk0 : k0Q q < 64) by (unfold k0Q; destruct (negb (whiteMove q)); cbv; reflexivity).
  assert (Hrs : (if kside then k0Q q + 1 else k0Q q - 1) < 64) by (unfold k0Q; destruct (negb (whiteMove q)), kside; cbv; reflexivity).
  assert (X1 : attacked_by sqsQ (negb wm) (zf (k0Q q)) (zr (k0Q q)) = false).
  { unfold sqsQ. rewrite <- (sqAttacked_spec_B q wm (k0Q q) BO Hk0). exact A1'. }
  assert (X2 : attacked_by sqsQ (negb wm) (zf (if kside then k0Q q + 1 else k0Q q - 1)) (zr (if kside then k0Q q + 1 else k0Q q - 1)) = false).
  { exact (eq_trans (eq_sym (sqAttacked_spec_B q wm _ BO Hrs)) A2'). }
  unfold k0Q in Ef, Et, Hr, He1, He2, He3, X1, X2. fold wm in Ef, Et, Hr, He1, He2, He3, X1, X2.
  destruct wmC as [Ew|Ew]; rewrite Ew in Ef, Et, Hr, He1, He2, He3, Hking; cbv iota in Ef, Et, Hr, He1, He2, He3, Hking.
  - rewrite Ew in X1 at 2. rewrite Ew in X1 at 2. rewrite Ew in X2 at 2. rewrite Ew in X2 at 2. rewrite Ew in X2 at 2. rewrite Ew in X2 at 2. cbv iota in X1, X2.
    apply (mkConc E1 kside WKING WROOK); auto.
  - rewrite Ew in X1 at 2. rewrite Ew in X1 at 2. rewrite Ew in X2 at 2. rewrite Ew in X2 at 2. rewrite Ew in X2 at 2. rewrite Ew in X2 at 2. cbv iota in X1, X2.
    apply (mkConc E8 kside BKING BROOK); auto.
Qed.

(** ** the undo information *)
Definition rightBit (k0 : square) (kside : bool) : N := if k0 =? 4 then (if kside then 1 else 0) else (if kside then 3 else 2).

Inductive CandC (k0 : square) (kside : bool) : Prop :=
| mkCandC : u_captured ui = EMPTY -> N.testbit (u_castleMask ui) (rightBit k0 kside) = true ->
            N.land (N.land (u_castleMask ui) (castleSqMask f)) (castleSqMask t) = castleMask q -> CandC k0 kside.

Lemma cmQ16 : castleMask q < 16.
Proof. apply (cmQ_lt16 q Hwf). Qed.

Lemma candC (k0 : square) (kside : bool) (king rook : piece) :
  (k0 = 4 /\ wm = true /\ king = WKING /\ rook = WROOK) \/ (k0 = 60 /\ wm = false /\ king = BKING /\ rook = BROOK) ->
  f = k0 -> t = (if kside then k0 + 2 else k0 - 2) -> nthP sqsQ t = king -> nthP sqsQ k0 = EMPTY -> CandC k0 kside.
Proof.
  intros Hcase Ef Et Hking He.
  destruct (proj1 (genMoves_In zk q incl um) Hin) as (Hcd & _).
  apply candidates_In in Hcd. destruct Hcd as (m' & _ & Hcd). apply candidatesFor_In in Hcd. cbv zeta in Hcd.
  destruct Hcd as (p0 & castle & epFile & Hp0 & Hv & Hca & _ & _ & Eum).
  assert (Em : m' = m) by (unfold m; rewrite Eum; reflexivity). subst m'.
  assert (Emv : movingPieceOf q m = king).
  { unfold movingPieceOf. rewrite Hpr. change (EMPTY =? EMPTY) with true. cbv iota. exact Hking. }
  rewrite Emv in Hv, Hca, Eum. fold wm in Hca, Eum.
  assert (Hdist : (1 <? getKingDistance f t)%Z = true).
  { rewrite Ef, Et. destruct Hcase as [(-> & _)|(-> & _)]; destruct kside; vm_compute; reflexivity. }
  assert (Hisk : (king =? WKING) || (king =? BKING) = true) by (destruct Hcase as [(_ & _ & -> & _)|(_ & _ & -> & _)]; reflexivity).
  assert (Hp0e : p0 = EMPTY).
  { unfold validCapturePiece in Hv. destruct (N.eqb_spec p0 EMPTY) as [E|E]; [exact E|]. exfalso.
    destruct (p0 =? WKING); [discriminate|]. rewrite Hisk in Hv. fold f t in Hv. rewrite Hdist in Hv. cbn [negb] in Hv. discriminate. }
  rewrite Hp0e in Hca, Eum. replace (if wm then makeBlack EMPTY else EMPTY) with EMPTY in Hca, Eum by (destruct wm; reflexivity).
  set (base := getBaseCastleMask q m king) in *.
  assert (Eui : ui = mkUndo EMPTY (N.lor base castle) (epSquareOfFile wm epFile) 0%Z) by (unfold ui; rewrite Eum; reflexivity).
  assert (Ebase : base = N.lor (castleMask q) (bit (rightBit k0 kside))).
  { unfold base, getBaseCastleMask. fold f t. rewrite Hisk, Hdist. cbn [andb]. rewrite Et.
    destruct Hcase as [(-> & _)|(-> & _)]; destruct kside; reflexivity. }
  set (add := andn (getCastleAddMask q m king EMPTY) base) in *.
  assert (Hadd16 : add < 16).
  { apply lt16_of_bits. intros i Hi. unfold add, andn, getCastleAddMask, andn. cbv zeta.
    rewrite !N.ldiff_spec, (bits16 _ i (maxCastleMask_lt _) Hi). reflexivity. }
  pose proof (castleAlternatives_lt _ _ Hadd16 Hca) as Hc16.
  apply (castleAlternatives_In _ _ Hadd16 Hc16) in Hca.
  assert (Hrb : rightBit k0 kside < 4) by (unfold rightBit; destruct (k0 =? 4), kside; lia).
  apply mkCandC.
  - rewrite Eui. reflexivity.
  - rewrite Eui. cbn [u_castleMask]. rewrite N.lor_spec, Ebase, N.lor_spec, bit_bits, N.eqb_refl. rewrite orb_true_r. reflexivity.
  - rewrite Eui. cbn [u_castleMask].
    apply N.bits_inj. intro i. rewrite !N.land_spec, N.lor_spec.
    destruct (N.lt_ge_cases i 4) as [Hi|Hi].
    2:{ rewrite (bits16 _ i cmQ16 Hi), (bits16 _ i Hc16 Hi).
        assert (Hb16 : base < 16).
        { rewrite Ebase. apply lt16_of_bits. intros j Hj. rewrite N.lor_spec, (bits16 _ j cmQ16 Hj), bit_bits.
          apply N.eqb_neq. lia. }
        rewrite (bits16 _ i Hb16 Hi). reflexivity. }
    rewrite !castleSqMask_tbl by exact Hi.
    destruct (N.eq_dec (homeK i) f) as [Eo|Eo].
    + (* own flags: cleared by the king move; Q has none because the king's home square is empty *)
      rewrite <- Eo. rewrite N.eqb_refl, orb_true_r. cbn [negb andb]. rewrite andb_false_r. cbn [andb].
      destruct (N.testbit (castleMask q) i) eqn:Hq; [|reflexivity]. exfalso.
      destruct (rights_q q Hwf i Hi Hq) as (HK & _). fold sqsQ in HK. rewrite Eo, Ef, He in HK.
      unfold kingOf in HK. destruct (i <? 2); discriminate.
    + (* the other side's flags: untouched *)
      assert (Hsq : (f =? homeR i) || (f =? homeK i) = false /\ (t =? homeR i) || (t =? homeK i) = false).
      { rewrite Et, Ef. rewrite Ef in Eo. revert Eo.
        destruct Hcase as [(-> & _)|(-> & _)]; destruct kside; destruct (four_cases i Hi) as [-> | [-> | [-> | ->]]]; cbn; intro Eo;
          try (split; reflexivity); exfalso; apply Eo; reflexivity. }
      destruct Hsq as (S1 & S2). rewrite S1, S2. cbn [negb]. rewrite !andb_true_r.
      assert (Hbi : N.testbit base i = N.testbit (castleMask q) i).
      { rewrite Ebase, N.lor_spec, bit_bits.
        replace (rightBit k0 kside =? i) with false; [apply orb_false_r|]. symmetry. apply N.eqb_neq. intro E. apply Eo. rewrite <- E, Ef.
        unfold rightBit, homeK. destruct Hcase as [(-> & _)|(-> & _)]; destruct kside; reflexivity. }
      rewrite Hbi.
      destruct (N.testbit castle i) eqn:Hc; [|apply orb_false_r]. exfalso.
      assert (Ha : N.testbit add i = true).
      { assert (X : N.testbit (N.land castle add) i = true) by (rewrite Hca; exact Hc).
        rewrite N.land_spec, Hc in X. exact X. }
      unfold add, andn, getCastleAddMask, andn in Ha. cbv zeta in Ha. rewrite !N.ldiff_spec in Ha.
      apply andb_true_iff in Ha. destruct Ha as (Ha & _). apply andb_true_iff in Ha. destruct Ha as (Hb & Hnq).
      apply negb_true_iff in Hnq. rewrite !maxCastleMask_tbl in Hb, Hnq by exact Hi.
      (* on the other side's home squares the rebuilt board is Q's *)
      assert (Hsame : forall s, s < 64 -> s <> f -> s <> t -> s <> (if kside then k0 + 3 else k0 - 4) ->
                boardAt (castleBoardBefore q m king EMPTY) s = boardAt (squares q) s).
      { intros s Hs N1 N2 N3. change (boardAt ?b s) with (nthP b s).
        unfold castleBoardBefore. cbv zeta. fold f t sqsQ. pose proof lenQ64 as Hl. rewrite Ef, Et in *.
        destruct Hcase as [(-> & _ & -> & _)|(-> & _ & -> & _)]; destruct kside;
          repeat match goal with |- context [if ?c then _ else _] =>
                   let v := eval vm_compute in c in
                   match v with true => change c with true | false => change c with false end; cbv iota end;
          rewrite !nthP_updN by (rewrite ?length_updN, Hl; lia);
          repeat match goal with |- context [s =? ?b] => destruct (N.eqb_spec s b) as [->|]; [exfalso; first [apply N3; reflexivity | apply N2; reflexivity | apply N1; reflexivity]|] end;
          reflexivity. }
      assert (HK64 : homeK i < 64) by (unfold homeK, E1, E8; destruct (i <? 2); lia).
      assert (HR64 : homeR i < 64) by (unfold homeR, A1, H1, A8, H8; destruct (i =? 0), (i =? 1), (i =? 2); lia).
      assert (Hoth : forall s, s = homeK i \/ s = homeR i -> s <> f /\ s <> t /\ s <> (if kside then k0 + 3 else k0 - 4)).
      { intros s Hs. rewrite Et, Ef. rewrite Ef in Eo. revert Eo Hs.
        destruct Hcase as [(-> & _)|(-> & _)]; destruct kside; destruct (four_cases i Hi) as [-> | [-> | [-> | ->]]]; cbn; intros Eo [-> | ->];
          try (exfalso; apply Eo; reflexivity); repeat split; discriminate. }
      destruct (Hoth (homeK i) (or_introl eq_refl)) as (K1 & K2 & K3). destruct (Hoth (homeR i) (or_intror eq_refl)) as (R1 & R2 & R3).
      rewrite (Hsame _ HK64 K1 K2 K3), (Hsame _ HR64 R1 R2 R3) in Hb. congruence.
Qed.

(** ** the restored position *)
Definition prevBoardC (kside : bool) (king rook : piece) : list piece :=
  let b := updN f king (updN t EMPTY sqsQ) in
  if kside then updN (f + 3) rook (updN (f + 1) EMPTY b) else updN (f - 4) rook (updN (f - 1) EMPTY b).

Lemma prev_StC (k0 : square) (kside : bool) (king rook : piece) :
  (k0 = 4 /\ wm = true /\ king = WKING /\ rook = WROOK) \/ (k0 = 60 /\ wm = false /\ king = BKING /\ rook = BROOK) ->
  f = k0 -> t = (if kside then k0 + 2 else k0 - 2) ->
  nthP sqsQ t = king -> nthP sqsQ (if kside then k0 + 1 else k0 - 1) = rook ->
  nthP sqsQ (if kside then k0 + 3 else k0 - 4) = EMPTY -> u_captured ui = EMPTY ->
  St zk 0 (prevBoardC kside king rook)
     (wm, u_halfMoveClock ui, (if whiteMove q then fullMoveCounter q - 1 else fullMoveCounter q)%Z, u_castleMask ui, u_epSquare ui) prev.
Proof.
  intros Hcase Ef Et Hking Hrook Hcorner Hcap0.
  assert (Hf : f < 64) by (rewrite Ef; destruct Hcase as [(-> & _)|(-> & _)]; lia).
  assert (Ht : t < 64) by (rewrite Et; destruct Hcase as [(-> & _)|(-> & _)]; destruct kside; lia).
  assert (Hcap : u_captured ui < 13) by (rewrite Hcap0; cbv; reflexivity).
  unfold prev. rewrite unMakeMove_unfold.
  pose proof (St_self zk q Cq) as S0. unfold scalars in S0.
  destruct (um_restore zk m _ _ _ _ _ _ q ui S0 Hf Ht Hcap) as (E1' & S1). fold f t sqsQ in E1', S1.
  rewrite Hpr in E1', S1. change (negb (EMPTY =? EMPTY)) with false in E1', S1. cbv iota in E1', S1.
  rewrite Hking in E1', S1. rewrite Hcap0 in S1. rewrite E1'. fold wm in S1.
  pose proof lenQ64 as Hl.
  assert (Hkw : king = (if wm then WKING else BKING)).
  { destruct Hcase as [(_ & -> & -> & _)|(_ & -> & -> & _)]; reflexivity. }
  assert (Hrk : 1 <= rook <= 12 /\ isPawnPiece rook = false).
  { destruct Hcase as [(_ & _ & _ & ->)|(_ & _ & _ & ->)]; split; try reflexivity; cbv; split; discriminate. }
  destruct Hrk as (Hr1 & Hr2).
  unfold prevBoardC. cbv zeta.
  rewrite um_ep_none.
  2:{ right. rewrite Hkw. destruct wm; split; discriminate. }
  destruct kside.
  - apply (um_castleK zk EKZ m _ _ _ _ _ _ _ king rook S1); fold f t; try assumption.
    + rewrite Et, Ef. reflexivity.
    + rewrite Ef. destruct Hcase as [(-> & _)|(-> & _)]; lia.
    + rewrite !nthP_updN by (rewrite ?length_updN, Hl; lia). rewrite Et, Ef.
      replace (k0 + 1 =? k0) with false by (symmetry; apply N.eqb_neq; lia).
      replace (k0 + 1 =? k0 + 2) with false by (symmetry; apply N.eqb_neq; lia). exact Hrook.
    + rewrite !nthP_updN by (rewrite ?length_updN, Hl; lia). rewrite Et, Ef.
      replace (k0 + 3 =? k0) with false by (symmetry; apply N.eqb_neq; lia).
      replace (k0 + 3 =? k0 + 2) with false by (symmetry; apply N.eqb_neq; lia). exact Hcorner.
  - assert (Hk4 : 4 <= k0) by (destruct Hcase as [(-> & _)|(-> & _)]; lia).
    apply (um_castleQ zk EKZ m _ _ _ _ _ _ _ king rook S1); fold f t; try assumption.
    + rewrite Et, Ef. reflexivity.
    + rewrite Ef. exact Hk4.
    + rewrite !nthP_updN by (rewrite ?length_updN, Hl; lia). rewrite Et, Ef.
      replace (k0 - 1 =? k0) with false by (symmetry; apply N.eqb_neq; lia).
      replace (k0 - 1 =? k0 - 2) with false by (symmetry; apply N.eqb_neq; lia). exact Hrook.
    + rewrite !nthP_updN by (rewrite ?length_updN, Hl; lia). rewrite Et, Ef.
      replace (k0 - 4 =? k0) with false by (symmetry; apply N.eqb_neq; lia).
      replace (k0 - 4 =? k0 - 2) with false by (symmetry; apply N.eqb_neq; lia). exact Hcorner.
Qed.

(** ** everything in concrete squares: four layouts *)
Definition Layout (k0 kSq rSq cSq : square) (kside w : bool) (king rook : piece) (rb : N) : Prop :=
  (k0 = 4 /\ kSq = 6 /\ rSq = 5 /\ cSq = 7 /\ kside = true /\ w = true /\ king = WKING /\ rook = WROOK /\ rb = 1) \/
  (k0 = 4 /\ kSq = 2 /\ rSq = 3 /\ cSq = 0 /\ kside = false /\ w = true /\ king = WKING /\ rook = WROOK /\ rb = 0) \/
  (k0 = 60 /\ kSq = 62 /\ rSq = 61 /\ cSq = 63 /\ kside = true /\ w = false /\ king = BKING /\ rook = BROOK /\ rb = 3) \/
  (k0 = 60 /\ kSq = 58 /\ rSq = 59 /\ cSq = 56 /\ kside = false /\ w = false /\ king = BKING /\ rook = BROOK /\ rb = 2).

Definition prevBoardL (k0 kSq rSq cSq : square) (king rook : piece) : list piece :=
  updN cSq rook (updN rSq EMPTY (updN k0 king (updN kSq EMPTY sqsQ))).

Inductive ConcL : Prop :=
| mkConcL (k0 kSq rSq cSq : square) (kside : bool) (king rook : piece) (rb : N) :
    Layout k0 kSq rSq cSq kside wm king rook rb -> f = k0 -> t = kSq ->
    nthP sqsQ kSq = king -> nthP sqsQ rSq = rook -> nthP sqsQ k0 = EMPTY -> nthP sqsQ cSq = EMPTY ->
    (kside = false -> nthP sqsQ (k0 - 3) = EMPTY) ->
    attacked_by sqsQ (negb wm) (zf k0) (zr k0) = false -> attacked_by sqsQ (negb wm) (zf rSq) (zr rSq) = false ->
    attacked_by sqsQ (negb wm) (zf kSq) (zr kSq) = false ->
    u_captured ui = EMPTY -> N.testbit (u_castleMask ui) rb = true ->
    N.land (N.land (u_castleMask ui) (castleSqMask k0)) (castleSqMask kSq) = castleMask q ->
    St zk 0 (prevBoardL k0 kSq rSq cSq king rook)
       (wm, u_halfMoveClock ui, (if whiteMove q then fullMoveCounter q - 1 else fullMoveCounter q)%Z, u_castleMask ui, u_epSquare ui) prev ->
    ConcL.

Lemma concL : ConcL.
Proof.
  destruct conc as [k0 kside king rook Hcase Ef Et Hking Hrook He1 He2 He3 X1 X2 X3].
  rewrite Et in Hking.
  destruct (candC k0 kside king rook Hcase Ef Et ltac:(rewrite Et; exact Hking) He1) as [C1' C2' C3'].
  pose proof (prev_StC k0 kside king rook Hcase Ef Et ltac:(rewrite Et; exact Hking) Hrook He2 C1') as S.
  unfold prevBoardC in S. cbv zeta in S. rewrite Ef, Et in S. rewrite Ef, Et in C3'. rewrite Et in X3.
  destruct Hcase as [(-> & Ew & -> & ->)|(-> & Ew & -> & ->)]; destruct kside.
  - apply (mkConcL 4 6 5 7 true WKING WROOK 1); try assumption; try exact S. left; repeat split; exact Ew.
  - apply (mkConcL 4 2 3 0 false WKING WROOK 0); try assumption; try exact S. right; left; repeat split; exact Ew.
  - apply (mkConcL 60 62 61 63 true BKING BROOK 3); try assumption; try exact S. right; right; left; repeat split; exact Ew.
  - apply (mkConcL 60 58 59 56 false BKING BROOK 2); try assumption; try exact S. right; right; right; repeat split; exact Ew.
Qed.

(** ** making the move again, legality *)
Ltac closed_ifs :=
  repeat match goal with |- context [if ?c then _ else _] =>
           let v := eval vm_compute in c in
           match v with true => change c with true | false => change c with false end; cbv iota end.
Ltac closed_sqs :=
  repeat match goal with |- context [toSq ?z] => let v := eval vm_compute in (toSq z) in change (toSq z) with v end.
Ltac pointwise Hl :=
  apply list_ext_N; [rewrite ?length_updN; exact Hl | exact Hl |];
  let s := fresh "s" in let Hs := fresh "Hs" in
  intros s Hs; rewrite !nthP_updN by (rewrite ?length_updN, Hl; lia);
  repeat match goal with |- context [s =? ?c] => destruct (N.eqb_spec s c) as [->|] end;
  try reflexivity; try (symmetry; assumption); try assumption.

Lemma makeA_C (k0 kSq rSq cSq : square) (kside : bool) (king rook : piece) (rb : N) (cm : N) (e : Z) :
  Layout k0 kSq rSq cSq kside wm king rook rb -> f = k0 -> t = kSq ->
  nthP sqsQ kSq = king -> nthP sqsQ rSq = rook -> nthP sqsQ k0 = EMPTY -> nthP sqsQ cSq = EMPTY ->
  sp_board (makeA (mkSpos (prevBoardL k0 kSq rSq cSq king rook) wm cm e) m) = sqsQ /\
  sp_white (makeA (mkSpos (prevBoardL k0 kSq rSq cSq king rook) wm cm e) m) = whiteMove q.
Proof.
  intros L Ef Et Hking Hrook He1 He2. pose proof lenQ64 as Hl.
  assert (Hm : m = mkMove k0 kSq EMPTY) by (rewrite (move_eta m), Hpr; fold f t; rewrite Ef, Et; reflexivity).
  split; [|unfold makeA; cbn [sp_white]; unfold wm; apply negb_involutive].
  rewrite Hm. unfold makeA. cbn [sp_board sp_white sp_castle sp_ep fst snd].
  unfold isCaptureBranch, quietA, castleBlockA. cbv zeta. cbn [mfrom mto mpromote]. unfold prevBoardL.
  destruct L as [L|[L|[L|L]]]; destruct L as (-> & -> & -> & -> & -> & Ew & -> & -> & ->);
    rewrite !nthP_updN by (rewrite ?length_updN, Hl; lia); closed_ifs; cbn [fst snd]; closed_sqs;
    rewrite !nthP_updN by (rewrite ?length_updN, Hl; lia); closed_ifs; pointwise Hl.
Qed.

Lemma at_updN_other (b : list piece) (s : square) (v : piece) x y :
  (on_board x y = true -> sq_of x y <> s) -> at_ (updN s v b) x y = at_ b x y.
Proof.
  intro H. unfold at_. destruct (on_board x y) eqn:Hob; [|reflexivity]. specialize (H eq_refl).
  change (nth (idx x y) ?l EMPTY) with (nth (idx x y) l EMPTY).
  assert (E : idx x y = N.to_nat (sq_of x y)).
  { unfold idx, sq_of. unfold on_board in Hob. rewrite !andb_true_iff, !Z.leb_le in Hob. lia. }
  rewrite E. change (nth (N.to_nat (sq_of x y)) ?l EMPTY) with (nthP l (sq_of x y)).
  apply nthP_updN_neq. intro E2. apply H. symmetry. exact E2.
Qed.

Lemma agree_rank (k0 kSq rSq cSq : square) (king rook : piece) (r : Z) (P : Z -> Prop) :
  (forall x, (0 <= x <= 7)%Z -> P x -> sq_of x r <> k0 /\ sq_of x r <> kSq /\ sq_of x r <> rSq /\ sq_of x r <> cSq) ->
  (forall x y, (0 <= x <= 7)%Z -> (0 <= y <= 7)%Z -> y <> r -> sq_of x y <> k0 /\ sq_of x y <> kSq /\ sq_of x y <> rSq /\ sq_of x y <> cSq) ->
  forall x y, (y <> r \/ P x) -> at_ (prevBoardL k0 kSq rSq cSq king rook) x y = at_ sqsQ x y.
Proof.
  intros H1 H2 x y Hxy. unfold prevBoardL.
  assert (Hne : on_board x y = true -> sq_of x y <> k0 /\ sq_of x y <> kSq /\ sq_of x y <> rSq /\ sq_of x y <> cSq).
  { intro Hob. unfold on_board in Hob. rewrite !andb_true_iff, !Z.leb_le in Hob.
    destruct (Z.eq_dec y r) as [->|Hy]; [apply H1; [lia | destruct Hxy as [Hxy|Hxy]; [contradiction | exact Hxy]] | apply H2; lia]. }
  rewrite !at_updN_other by (intro Hob; apply (Hne Hob)). reflexivity.
Qed.

Ltac at_val Hl :=
  match goal with |- at_ ?b ?x ?y = _ =>
    let s := eval vm_compute in (sq_of x y) in
    change (at_ b x y) with (nthP b s); unfold prevBoardL;
    rewrite ?nthP_updN by (rewrite ?length_updN, Hl; lia); closed_ifs; try reflexivity; try assumption
  end.

Lemma castle_inC (k0 kSq rSq cSq : square) (kside : bool) (king rook : piece) (rb : N) (cm : N) (e : Z) :
  Layout k0 kSq rSq cSq kside wm king rook rb -> f = k0 -> t = kSq ->
  nthP sqsQ kSq = king -> nthP sqsQ rSq = rook -> nthP sqsQ k0 = EMPTY -> nthP sqsQ cSq = EMPTY ->
  (kside = false -> nthP sqsQ (k0 - 3) = EMPTY) ->
  attacked_by sqsQ (negb wm) (zf k0) (zr k0) = false -> attacked_by sqsQ (negb wm) (zf rSq) (zr rSq) = false ->
  attacked_by sqsQ (negb wm) (zf kSq) (zr kSq) = false ->
  N.testbit cm rb = true ->
  In m (castle_moves (mkSpos (prevBoardL k0 kSq rSq cSq king rook) wm cm e)).
Proof.
  intros L Ef Et Hking Hrook He1 He2 He3 X1 X2 X3 Hrb. pose proof lenQ64 as Hl.
  assert (Hm : m = mkMove k0 kSq EMPTY) by (rewrite (move_eta m), Hpr; fold f t; rewrite Ef, Et; reflexivity).
  rewrite Hm. unfold castle_moves. cbv zeta. cbn [sp_board sp_white sp_castle]. unfold has_right. cbn [sp_castle].
  destruct L as [L|[L|[L|L]]]; destruct L as (-> & -> & -> & -> & -> & Ew & -> & -> & ->); rewrite Ew in *; cbn [negb] in *.
  - set (P := prevBoardL 4 6 5 7 WKING WROOK).
    assert (A4 : at_ P 4 0 = WKING) by (unfold P; at_val Hl). assert (A5 : at_ P 5 0 = EMPTY) by (unfold P; at_val Hl).
    assert (A6 : at_ P 6 0 = EMPTY) by (unfold P; at_val Hl). assert (A7 : at_ P 7 0 = WROOK) by (unfold P; at_val Hl).
    assert (Q4 : at_ sqsQ 4 0 = EMPTY) by at_val Hl. assert (Q5 : at_ sqsQ 5 0 = WROOK) by at_val Hl.
    assert (Q6 : at_ sqsQ 6 0 = WKING) by at_val Hl. assert (Q7 : at_ sqsQ 7 0 = EMPTY) by at_val Hl.
    assert (Hag : forall x y, (y <> 0 \/ x <= 3)%Z -> at_ P x y = at_ sqsQ x y).
    { apply (agree_rank 4 6 5 7 WKING WROOK 0%Z (fun x => (x <= 3)%Z)); intros; unfold sq_of; lia. }
    destruct (back_WK P sqsQ Hag A4 A5 A6 A7 Q4 Q5 Q6 Q7 X1 X2 X3) as (S4 & S5 & S6).
    rewrite A4, A5, A6, A7, S4, S5, S6, Hrb. cbn. left. reflexivity.
  - set (P := prevBoardL 4 2 3 0 WKING WROOK). specialize (He3 eq_refl).
    assert (A4 : at_ P 4 0 = WKING) by (unfold P; at_val Hl). assert (A3 : at_ P 3 0 = EMPTY) by (unfold P; at_val Hl).
    assert (A2 : at_ P 2 0 = EMPTY) by (unfold P; at_val Hl). assert (A0 : at_ P 0 0 = WROOK) by (unfold P; at_val Hl).
    assert (Q4 : at_ sqsQ 4 0 = EMPTY) by at_val Hl. assert (Q3 : at_ sqsQ 3 0 = WROOK) by at_val Hl.
    assert (Q2 : at_ sqsQ 2 0 = WKING) by at_val Hl. assert (Q1 : at_ sqsQ 1 0 = EMPTY) by at_val Hl. assert (Q0 : at_ sqsQ 0 0 = EMPTY) by at_val Hl.
    assert (Hag : forall x y, (y <> 0 \/ 5 <= x \/ x = 1)%Z -> at_ P x y = at_ sqsQ x y).
    { apply (agree_rank 4 2 3 0 WKING WROOK 0%Z (fun x => (5 <= x \/ x = 1)%Z)); intros; unfold sq_of; lia. }
    destruct (back_WQ P sqsQ Hag A4 A3 A2 A0 Q4 Q3 Q2 Q1 Q0 X1 X2 X3) as (S4 & S3 & S2).
    assert (A1' : at_ P 1 0 = EMPTY) by (rewrite Hag by lia; exact Q1).
    rewrite A4, A3, A2, A1', A0, S4, S3, S2, Hrb. cbn. destruct (_ && _); [right|]; left; reflexivity.
  - set (P := prevBoardL 60 62 61 63 BKING BROOK).
    assert (A4 : at_ P 4 7 = BKING) by (unfold P; at_val Hl). assert (A5 : at_ P 5 7 = EMPTY) by (unfold P; at_val Hl).
    assert (A6 : at_ P 6 7 = EMPTY) by (unfold P; at_val Hl). assert (A7 : at_ P 7 7 = BROOK) by (unfold P; at_val Hl).
    assert (Q4 : at_ sqsQ 4 7 = EMPTY) by at_val Hl. assert (Q5 : at_ sqsQ 5 7 = BROOK) by at_val Hl.
    assert (Q6 : at_ sqsQ 6 7 = BKING) by at_val Hl. assert (Q7 : at_ sqsQ 7 7 = EMPTY) by at_val Hl.
    assert (Hag : forall x y, (y <> 7 \/ x <= 3)%Z -> at_ P x y = at_ sqsQ x y).
    { apply (agree_rank 60 62 61 63 BKING BROOK 7%Z (fun x => (x <= 3)%Z)); intros; unfold sq_of; lia. }
    destruct (back_BK P sqsQ Hag A4 A5 A6 A7 Q4 Q5 Q6 Q7 X1 X2 X3) as (S4 & S5 & S6).
    rewrite A4, A5, A6, A7, S4, S5, S6, Hrb. cbn. left. reflexivity.
  - set (P := prevBoardL 60 58 59 56 BKING BROOK). specialize (He3 eq_refl).
    assert (A4 : at_ P 4 7 = BKING) by (unfold P; at_val Hl). assert (A3 : at_ P 3 7 = EMPTY) by (unfold P; at_val Hl).
    assert (A2 : at_ P 2 7 = EMPTY) by (unfold P; at_val Hl). assert (A0 : at_ P 0 7 = BROOK) by (unfold P; at_val Hl).
    assert (Q4 : at_ sqsQ 4 7 = EMPTY) by at_val Hl. assert (Q3 : at_ sqsQ 3 7 = BROOK) by at_val Hl.
    assert (Q2 : at_ sqsQ 2 7 = BKING) by at_val Hl. assert (Q1 : at_ sqsQ 1 7 = EMPTY) by at_val Hl. assert (Q0 : at_ sqsQ 0 7 = EMPTY) by at_val Hl.
    assert (Hag : forall x y, (y <> 7 \/ 5 <= x \/ x = 1)%Z -> at_ P x y = at_ sqsQ x y).
    { apply (agree_rank 60 58 59 56 BKING BROOK 7%Z (fun x => (5 <= x \/ x = 1)%Z)); intros; unfold sq_of; lia. }
    destruct (back_BQ P sqsQ Hag A4 A3 A2 A0 Q4 Q3 Q2 Q1 Q0 X1 X2 X3) as (S4 & S3 & S2).
    assert (A1' : at_ P 1 7 = EMPTY) by (rewrite Hag by lia; exact Q1).
    rewrite A4, A3, A2, A1', A0, S4, S3, S2, Hrb. cbn. destruct (_ && _); [right|]; left; reflexivity.
Qed.

Lemma make_specC (k0 kSq rSq cSq : square) (kside : bool) (king rook : piece) (rb : N) (cm : N) (e : Z) :
  Layout k0 kSq rSq cSq kside wm king rook rb -> f = k0 -> t = kSq ->
  nthP sqsQ kSq = king -> nthP sqsQ rSq = rook -> nthP sqsQ k0 = EMPTY -> nthP sqsQ cSq = EMPTY ->
  sp_board (make_spec (mkSpos (prevBoardL k0 kSq rSq cSq king rook) wm cm e) m) = sqsQ.
Proof.
  intros L Ef Et Hking Hrook He1 He2. pose proof lenQ64 as Hl.
  assert (Hm : m = mkMove k0 kSq EMPTY) by (rewrite (move_eta m), Hpr; fold f t; rewrite Ef, Et; reflexivity).
  assert (Hf : mfrom m < 64) by (fold f; rewrite Ef; destruct L as [L|[L|[L|L]]]; destruct L as (-> & _); lia).
  assert (Ht : mto m < 64) by (fold t; rewrite Et; destruct L as [L|[L|[L|L]]]; destruct L as (_ & -> & _); lia).
  rewrite (make_spec_board _ m Hf Ht). cbv zeta. cbn [sp_board sp_white]. rewrite Hm. cbn [mfrom mto mpromote].
  change (nth (N.to_nat ?s) ?b EMPTY) with (nthP b s). unfold prevBoardL.
  destruct L as [L|[L|[L|L]]]; destruct L as (-> & -> & -> & -> & -> & Ew & -> & -> & ->); rewrite Ew;
    rewrite !nthP_updN by (rewrite ?length_updN, Hl; lia); closed_ifs;
    repeat match goal with |- context [sq_of ?x ?y] => let v := eval vm_compute in (sq_of x y) in change (sq_of x y) with v end;
    pointwise Hl.
Qed.

(** C15_consistent_statement for un-castlings *)
Theorem consistent_castle :
  Consistent zk prev /\ legal_spec (abs prev) m /\ abs (successor zk prev m) = abs q.
Proof.
  destruct concL as [k0 kSq rSq cSq kside king rook rb L Ef Et Hking Hrook He1 He2 He3 X1 X2 X3 Hc0 Hrb Hcm S].
  destruct S as (Cp & Hs & Hsc).
  assert (Ha : abs prev = mkSpos (prevBoardL k0 kSq rSq cSq king rook) wm (u_castleMask ui) (u_epSquare ui)).
  { unfold scalars in Hsc. inversion Hsc. unfold abs. rewrite Hs. reflexivity. }
  split; [exact Cp|]. split.
  - unfold legal_spec. rewrite Ha. split.
    + unfold pseudo_moves. apply in_app_iff. right.
      apply (castle_inC k0 kSq rSq cSq kside king rook rb _ _ L Ef Et Hking Hrook He1 He2 He3 X1 X2 X3 Hrb).
    + rewrite (make_specC k0 kSq rSq cSq kside king rook rb _ _ L Ef Et Hking Hrook He1 He2). cbn [sp_white].
      destruct (WF_parts q Hwf) as (_ & _ & _ & _ & Hacc). destruct (accepted_parts _ Hacc) as (_ & _ & _ & _ & Hck & _).
      cbn [abs sp_board sp_white] in Hck. exact Hck.
  - assert (Hf : f < 64) by (rewrite Ef; destruct L as [L|[L|[L|L]]]; destruct L as (-> & _); lia).
    pose proof (makeMove_abs zk prev m Cp Hf) as Hm.
    destruct (makeA_C k0 kSq rSq cSq kside king rook rb (u_castleMask ui) (u_epSquare ui) L Ef Et Hking Hrook He1 He2) as (B1 & B2).
    assert (B3 : sp_castle (makeA (mkSpos (prevBoardL k0 kSq rSq cSq king rook) wm (u_castleMask ui) (u_epSquare ui)) m) = castleMask q).
    { unfold makeA. cbn [sp_castle]. fold f t. rewrite Ef, Et. exact Hcm. }
    rewrite Ha in Hm.
    pose proof (ep_remade zk q incl um Hin) as Hrem. fold m ui prev in Hrem. unfold successor in Hrem |- *.
    destruct (fixup_frame zk (fst (makeMove zk prev m))) as (F1 & _ & F3 & _).
    pose proof (squares_fixup zk (fst (makeMove zk prev m))) as F0.
    revert Hm Hrem F1 F3 F0. generalize (fst (makeMove zk prev m)). intros X Hm Hrem F1 F3 F0.
    unfold abs in Hm |- *. rewrite F0, F1, F3, Hrem.
    pose proof (f_equal sp_board Hm) as H1. pose proof (f_equal sp_white Hm) as H2. pose proof (f_equal sp_castle Hm) as H3.
    cbn [sp_board sp_white sp_castle] in H1, H2, H3. rewrite B1 in H1. rewrite B2 in H2. rewrite B3 in H3.
    rewrite H1, H2, H3. reflexivity.
Qed.

End CastleCons.

(** * all classes together: every reported un-move restores a position in which the move is legal by the FIDE
    rules and from which it leads back to Q *)
Theorem consistent_all zk (EKZ : emptyKeysZero zk) q incl um : WFrev zk q -> In um (genMoves zk q incl) ->
  let prev := unMakeMove zk q (um_move um) (um_ui um) in
  Consistent zk prev /\ legal_spec (abs prev) (um_move um) /\ abs (successor zk prev (um_move um)) = abs q.
Proof.
  intros Hrev Hin prev. pose proof Hrev as Hrev'. destruct Hrev' as [Cq Hwf _ _ _].
  set (m := um_move um). set (mpT := nthP (squares q) (mto m)).
  destruct (N.eq_dec (mpromote m) EMPTY) as [Hpr|Hpr].
  2:{ apply (consistent_pawnlike zk q Hrev incl um Hin). right. exact Hpr. }
  destruct (isPawnPiece mpT) eqn:Hp.
  { apply (consistent_pawnlike zk q Hrev incl um Hin). left. split; [exact Hpr | exact Hp]. }
  destruct (isKingPiece mpT) eqn:Hk.
  - destruct (N.eq_dec (mto m) (mfrom m + 2)) as [T|T].
    { apply (consistent_castle zk EKZ q Cq Hwf incl um Hin Hpr Hk). left. exact T. }
    destruct (N.eq_dec (mto m + 2) (mfrom m)) as [T2|T2].
    { apply (consistent_castle zk EKZ q Cq Hwf incl um Hin Hpr Hk). right. exact T2. }
    apply (consistent_nonpawn zk q Cq Hwf incl um Hin Hpr Hp). intros _. split; assumption.
  - apply (consistent_nonpawn zk q Cq Hwf incl um Hin Hpr Hp). fold m mpT. rewrite Hk. discriminate.
Qed.
