(** C15 proofs, part 7: from legality by the FIDE rules (Chess/Spec.v) to the engine-level facts
    the previous parts use.  A legal move is pseudo-legal for the engine (C01), hence produced by one
    of the seven blocks of pseudoLegalMoves; for the queen, rook, bishop, knight and king blocks
    this file derives [MoveFacts] and the geometric fact needed by RevRaw.v. *)
From Coq Require Import ZArith NArith List Bool Lia.
From Texel Require Import Chess.Types Chess.Position Chess.PositionSpec Chess.PositionFacts
  Chess.PositionProofs Chess.PositionProofs2 Chess.PositionProofs3 Chess.PositionProofs4 Chess.PositionTheorems
  Chess.PositionSources Chess.Fen Chess.Spec Chess.BitBoard Chess.MoveGen Chess.MoveGenWF Chess.MoveGenProofs
  Chess.BitBoardProofs Chess.RayProofs Chess.SliderProofs Chess.AttackProofs Chess.PawnProofs Chess.PseudoProofs
  gen.BitBoardTables
  RevGen.RevGen RevGen.RevFacts RevGen.RevAbs RevGen.RevRestore RevGen.RevValid RevGen.RevCand RevGen.RevRaw.
Import ListNotations.
Local Open Scope N_scope.

(** a legal move is produced by one of the blocks of pseudoLegalMoves *)
Lemma blocks_of_legal p m : WF p -> legal_spec (abs p) m ->
  let w := whiteMove p in
  In m (queenBlock w p []) \/ In m (rookBlock w p []) \/ In m (bishopBlock w p []) \/ In m (kingBlock w p []) \/
  In m (castleMoves w p (occupiedBB p) (kingSq p w) []) \/ In m (knightBlock w p []) \/ In m (pawnBlock w p []).
Proof.
  intros H Hl w. destruct (pseudo_exact_all p m H) as (_ & _ & Hx). specialize (Hx Hl).
  unfold pseudoLegalMoves, pseudoLegalMovesT in Hx. cbv zeta in Hx.
  rewrite (pawnBlock_app p H), (knightBlock_app p H), (castleMoves_app p), (kingBlock_app p),
          (bishopBlock_app p H), (rookBlock_app p H), (queenBlock_app p H) in Hx. cbn [In] in Hx. fold w in Hx. tauto.
Qed.

(** sqAttackedT is the disjunction of its five tests *)
Lemma sqAttackedT_or wtm pos sq occ :
  sqAttackedT wtm pos sq occ =
  nz (N.land (knightAttacks sq) (ptBB pos (myPiece (negb wtm) WKNIGHT))) ||
  nz (N.land (kingAttacks sq) (ptBB pos (myPiece (negb wtm) WKING))) ||
  (if wtm then nz (N.land (wPawnAttacks sq) (ptBB pos (myPiece (negb wtm) WPAWN)))
   else nz (N.land (bPawnAttacks sq) (ptBB pos (myPiece (negb wtm) WPAWN)))) ||
  nz (N.land (bishopAttacks sq occ) (N.lor (ptBB pos (myPiece (negb wtm) WBISHOP)) (ptBB pos (myPiece (negb wtm) WQUEEN)))) ||
  nz (N.land (rookAttacks sq occ) (N.lor (ptBB pos (myPiece (negb wtm) WROOK)) (ptBB pos (myPiece (negb wtm) WQUEEN)))).
Proof.
  unfold sqAttackedT. cbv zeta.
  destruct (nz (N.land (knightAttacks sq) _)); [reflexivity|].
  destruct (nz (N.land (kingAttacks sq) _)); [reflexivity|].
  destruct wtm; cbn [orb].
  - destruct (nz (N.land (wPawnAttacks sq) _)); [reflexivity|]. cbn [orb].
    destruct (nz (N.land (bishopAttacks sq occ) _)); [reflexivity|]. cbn [orb].
    destruct (nz (N.land (rookAttacks sq occ) _)); reflexivity.
  - destruct (nz (N.land (bPawnAttacks sq) _)); [reflexivity|]. cbn [orb].
    destruct (nz (N.land (bishopAttacks sq occ) _)); [reflexivity|]. cbn [orb].
    destruct (nz (N.land (rookAttacks sq occ) _)); reflexivity.
Qed.

Lemma nz_land a b k : N.testbit a k = true -> N.testbit b k = true -> nz (N.land a b) = true.
Proof. intros Ha Hb. apply nz_exists. exists k. rewrite N.land_spec, Ha, Hb. reflexivity. Qed.

Section Legal.
Variable zk : zkeys.
Variable p : position.
Variable m : move.
Hypothesis Hrev : WFrev zk p.

Let f := mfrom m.
Let t := mto m.
Let sqs := squares p.
Let pc := nthP sqs f.
Let cap := nthP sqs t.
Let w := whiteMove p.

Lemma HWF : WF p.
Proof. destruct Hrev as [_ H _ _ _]. exact H. Qed.

(** the side that moved last is not in check, so no pseudo-legal move takes the king *)
Lemma attacked_no_king : t < 64 -> has_color w cap = false ->
  sqAttackedT (negb w) p t (occupiedBB p) = true -> isKingPiece cap = false.
Proof.
  intros Ht Hcol Hatk. destruct (isKingPiece cap) eqn:Hk; [|reflexivity]. exfalso.
  pose proof HWF as H. pose proof (WF_BoardOK p H) as B.
  destruct (WF_parts p H) as (_ & _ & _ & _ & Ha). destruct (accepted_parts _ Ha) as (_ & _ & _ & _ & Hc & _).
  cbn [abs sp_board sp_white] in Hc. fold w in Hc.
  destruct (kingSq_spec p (negb w) H) as (Hk64 & Hkp).
  assert (Hcapk : cap = mk_piece (negb w) King).
  { unfold isKingPiece in Hk. apply orb_true_iff in Hk.
    destruct Hk as [Hk|Hk]; apply N.eqb_eq in Hk; rewrite Hk in *; destruct w; cbn in *; try reflexivity; discriminate. }
  assert (E : kingSq p (negb w) = t) by (apply (king_unique p (negb w) _ _ H Hk64 Ht Hkp); exact Hcapk).
  rewrite <- E in Hatk.
  rewrite (kingAttacked_spec_B p (negb w) B) in Hatk.
  - congruence.
  - apply (king_exists p (negb w) H).
  - intros s1 s2 A1' A2' B1' B2'. apply (king_unique p (negb w) s1 s2 H A1' A2' B1' B2').
Qed.

End Legal.
