(** C15 proofs, part 7: from legality by the FIDE rules (Chess/Spec.v) to the engine-level facts
    the previous parts use.  A legal move is pseudo-legal for the engine (C01), hence produced by one
    of the seven blocks of pseudoLegalMoves; for the queen, rook, bishop, knight and king blocks
    this file derives [MoveFacts] and the geometric fact needed by RevRaw.v. *)
From Coq Require Import ZArith NArith List Bool Lia.
From Texel Require Import Chess.Types Chess.Position Chess.PositionSpec Chess.PositionFacts
  Chess.PositionProofs Chess.PositionProofs2 Chess.PositionProofs3 Chess.PositionProofs4 Chess.PositionTheorems
  Chess.PositionSources Chess.Fen Chess.Spec Chess.BitBoard Chess.MoveGen Chess.MoveGenWF Chess.MoveGenProofs
  Chess.BitBoardProofs Chess.RayProofs Chess.SliderProofs Chess.AttackProofs Chess.PawnProofs Chess.PseudoProofs
  gen.BitBoardTables
  RevGen.RevGen RevGen.RevFacts RevGen.RevAbs RevGen.RevRestore RevGen.RevValid RevGen.RevCand RevGen.RevRaw.
Import ListNotations.
Local Open Scope N_scope.

(** a legal move is produced by one of the blocks of pseudoLegalMoves *)
Lemma blocks_of_legal p m : WF p -> legal_spec (abs p) m ->
  let w := whiteMove p in
  In m (queenBlock w p []) \/ In m (rookBlock w p []) \/ In m (bishopBlock w p []) \/ In m (kingBlock w p []) \/
  In m (castleMoves w p (occupiedBB p) (kingSq p w) []) \/ In m (knightBlock w p []) \/ In m (pawnBlock w p []).
Proof.
  intros H Hl w. destruct (pseudo_exact_all p m H) as (_ & _ & Hx). specialize (Hx Hl).
  unfold pseudoLegalMoves, pseudoLegalMovesT in Hx. cbv zeta in Hx.
  rewrite (pawnBlock_app p H), (knightBlock_app p H), (castleMoves_app p), (kingBlock_app p),
          (bishopBlock_app p H), (rookBlock_app p H), (queenBlock_app p H) in Hx. cbn [In] in Hx.
  destruct Hx as [[[[[[[[]|HQ]|HR]|HB]|HK]|HC]|HN]|HP].
  - left. exact HQ.
  - right. left. exact HR.
  - right. right. left. exact HB.
  - right. right. right. left. exact HK.
  - right. right. right. right. left. exact HC.
  - right. right. right. right. right. left. exact HN.
  - right. right. right. right. right. right. exact HP.
Qed.

(** sqAttackedT is the disjunction of its five tests *)
Lemma sqAttackedT_or wtm pos sq occ :
  sqAttackedT wtm pos sq occ =
  nz (N.land (knightAttacks sq) (ptBB pos (myPiece (negb wtm) WKNIGHT))) ||
  nz (N.land (kingAttacks sq) (ptBB pos (myPiece (negb wtm) WKING))) ||
  (if wtm then nz (N.land (wPawnAttacks sq) (ptBB pos (myPiece (negb wtm) WPAWN)))
   else nz (N.land (bPawnAttacks sq) (ptBB pos (myPiece (negb wtm) WPAWN)))) ||
  nz (N.land (bishopAttacks sq occ) (N.lor (ptBB pos (myPiece (negb wtm) WBISHOP)) (ptBB pos (myPiece (negb wtm) WQUEEN)))) ||
  nz (N.land (rookAttacks sq occ) (N.lor (ptBB pos (myPiece (negb wtm) WROOK)) (ptBB pos (myPiece (negb wtm) WQUEEN)))).
Proof.
  unfold sqAttackedT. cbv zeta.
  destruct (nz (N.land (knightAttacks sq) _)); [reflexivity|].
  destruct (nz (N.land (kingAttacks sq) _)); [reflexivity|].
  destruct wtm; cbn [orb].
  - destruct (nz (N.land (wPawnAttacks sq) _)); [reflexivity|]. cbn [orb].
    destruct (nz (N.land (bishopAttacks sq occ) _)); [reflexivity|]. cbn [orb].
    destruct (nz (N.land (rookAttacks sq occ) _)); reflexivity.
  - destruct (nz (N.land (bPawnAttacks sq) _)); [reflexivity|]. cbn [orb].
    destruct (nz (N.land (bishopAttacks sq occ) _)); [reflexivity|]. cbn [orb].
    destruct (nz (N.land (rookAttacks sq occ) _)); reflexivity.
Qed.

Lemma nz_land a b k : N.testbit a k = true -> N.testbit b k = true -> nz (N.land a b) = true.
Proof. intros Ha Hb. apply nz_exists. exists k. rewrite N.land_spec, Ha, Hb. reflexivity. Qed.

Section Legal.
Variable zk : zkeys.
Variable p : position.
Variable m : move.
Hypothesis Hrev : WFrev zk p.

Let f := mfrom m.
Let t := mto m.
Let sqs := squares p.
Let pc := nthP sqs f.
Let cap := nthP sqs t.
Let w := whiteMove p.

Lemma HWF : WF p.
Proof. destruct Hrev as [_ H _ _ _]. exact H. Qed.

(** the side that moved last is not in check, so no pseudo-legal move takes the king *)
Lemma attacked_no_king : t < 64 -> has_color w cap = false ->
  sqAttackedT (negb w) p t (occupiedBB p) = true -> isKingPiece cap = false.
Proof.
  intros Ht Hcol Hatk. destruct (isKingPiece cap) eqn:Hk; [|reflexivity]. exfalso.
  pose proof HWF as H. pose proof (WF_BoardOK p H) as B.
  destruct (WF_parts p H) as (_ & _ & _ & _ & Ha). destruct (accepted_parts _ Ha) as (_ & _ & _ & _ & Hc & _).
  cbn [abs sp_board sp_white] in Hc. fold w in Hc.
  destruct (kingSq_spec p (negb w) H) as (Hk64 & Hkp).
  assert (Hcapk : cap = mk_piece (negb w) King).
  { unfold isKingPiece in Hk. apply orb_true_iff in Hk.
    destruct Hk as [Hk|Hk]; apply N.eqb_eq in Hk; rewrite Hk in *; destruct w; cbn in *; try reflexivity; discriminate. }
  assert (E : kingSq p (negb w) = t) by (apply (king_unique p (negb w) _ _ H Hk64 Ht Hkp); exact Hcapk).
  rewrite <- E in Hatk.
  rewrite (kingAttacked_spec_B p (negb w) B) in Hatk.
  - congruence.
  - apply (king_exists p (negb w) H).
  - intros s1 s2 A1' A2' B1' B2'. apply (king_unique p (negb w) s1 s2 H A1' A2' B1' B2').
Qed.

Lemma own_myPiece X : In X [WQUEEN; WROOK; WBISHOP; WKNIGHT; WKING] ->
  ownPiece w (myPiece w X) = true /\ has_color w (myPiece w X) = true /\ isPawnPiece (myPiece w X) = false /\
  (myPiece w X =? (if w return piece then WPAWN else BPAWN)) = false /\
  (myPiece w X =? WPAWN) = false /\ (myPiece w X =? BPAWN) = false /\
  (X <> WKING -> isKingPiece (myPiece w X) = false /\ (myPiece w X =? (if w return piece then WKING else BKING)) = false).
Proof.
  intro HX. cbn [In] in HX.
  destruct HX as [<-|[<-|[<-|[<-|[<-|[]]]]]]; destruct w; cbn; repeat split; try reflexivity; congruence.
Qed.

Lemma not_has_color_own c : c < 13 -> has_color w c = false -> ownPiece w c = false.
Proof.
  intros Hc H. unfold ownPiece. destruct w.
  - rewrite white_has_color by exact Hc. exact H.
  - rewrite black_has_color by exact Hc. exact H.
Qed.

Lemma kingStep_dist s t' : s < 64 -> t' < 64 -> N.testbit (kingAttacks s) t' = true -> (getKingDistance s t' <= 1)%Z.
Proof.
  intros Hs Ht H.
  pose proof (sweep2 (fun s t' => if N.testbit (kingAttacks s) t' then (getKingDistance s t' <=? 1)%Z else true) eq_refl s t' Hs Ht) as G.
  cbv beta in G. rewrite H in G. apply Z.leb_le. exact G.
Qed.

(** MoveFacts for a move of the queen, rook, bishop, knight or king block *)
Lemma piece_moveFacts X :
  In X [WQUEEN; WROOK; WBISHOP; WKNIGHT; WKING] ->
  m = mkMove f t EMPTY -> f < 64 -> t < 64 -> pc = myPiece w X -> has_color w cap = false ->
  sqAttackedT (negb w) p t (occupiedBB p) = true ->
  (X = WKING -> N.testbit (kingAttacks f) t = true) ->
  MoveFacts p m.
Proof.
  intros HX Hm Hf Ht Hpc Hcol Hatk Hking.
  destruct (own_myPiece X HX) as (Ho & Hhc & Hnp & Hnpw & HnW & HnB & Hnk).
  assert (Hcap13 : cap < 13).
  { destruct Hrev as [C _ _ _ _]. destruct C. apply (getPiece_lt p t c_pieces). }
  assert (Hne : f <> t).
  { intro E. unfold cap in Hcol. rewrite <- E in Hcol. change (nthP sqs f) with pc in Hcol. rewrite Hpc, Hhc in Hcol. discriminate. }
  assert (Hprom : mpromote m = EMPTY) by (rewrite Hm; reflexivity).
  assert (Hmf : mfrom m = f) by reflexivity. assert (Hmt : mto m = t) by reflexivity.
  constructor.
  - (* moveOk *)
    unfold moveOk. cbv zeta. rewrite Hprom, Hmf, Hmt. fold w.
    change (getPiece p f) with pc. change (getPiece p t) with cap. rewrite Hpc.
    replace (f <? 64) with true by (symmetry; apply N.ltb_lt; exact Hf).
    replace (t <? 64) with true by (symmetry; apply N.ltb_lt; exact Ht).
    replace (f =? t) with false by (symmetry; apply N.eqb_neq; exact Hne).
    rewrite Ho, (not_has_color_own cap Hcap13 Hcol), Hnpw. cbn [negb andb]. change (EMPTY =? EMPTY) with true. cbv iota.
    destruct (N.eq_dec X WKING) as [EX|EX].
    + subst X. specialize (Hking eq_refl).
      replace (myPiece w WKING =? (if w return piece then WKING else BKING)) with true by (destruct w; reflexivity).
      destruct (king_not_two f Hf) as (A & B).
      replace (t =? f + 2) with false by (symmetry; apply N.eqb_neq; intro E; rewrite E, A in Hking; discriminate).
      destruct (2 <=? f) eqn:H2; [|reflexivity]. apply N.leb_le in H2.
      replace (t =? f - 2) with false by (symmetry; apply N.eqb_neq; intro E; rewrite E, (B H2) in Hking; discriminate).
      reflexivity.
    + destruct (Hnk EX) as (_ & E). rewrite E. reflexivity.
  - (* pushOk *)
    unfold pushOk. cbn [abs sp_board]. rewrite Hmf. fold sqs. change (nthP sqs f) with pc. rewrite Hpc. split; intro E.
    + apply N.eqb_eq in E. congruence.
    + apply N.eqb_eq in E. congruence.
  - rewrite Hmt. apply (attacked_no_king Ht Hcol Hatk).
  - rewrite Hmf, Hmt. intro Hk. left. destruct (N.eq_dec X WKING) as [EX|EX].
    + apply (kingStep_dist f t Hf Ht). apply Hking. exact EX.
    + exfalso. destruct (Hnk EX) as (E & _). change (getPiece p f) with pc in Hk. rewrite Hpc, E in Hk. discriminate.
  - rewrite Hmf. change (getPiece p f) with pc. rewrite Hpc, Hnp. discriminate.
  - rewrite Hmf. change (getPiece p f) with pc. rewrite Hpc, Hnp. discriminate.
  - rewrite Hmf. change (getPiece p f) with pc. rewrite Hpc, Hnp. discriminate.
Qed.

End Legal.

(** * Completeness for the moves of the queen, rook, bishop, knight and king blocks *)
Section Pieces.
Variable zk : zkeys.
Hypothesis EKZ : emptyKeysZero zk.
Variable p : position.
Variable m : move.
Variable incl : bool.
Hypothesis Hrev : WFrev zk p.
Hypothesis Hinc : incl = true \/ epSquare p = (-1)%Z \/
                  (isPawnPiece (getPiece p (mfrom m)) = true /\ Z.of_N (mto m) = epSquare p).

Let w := whiteMove p.
Let q := successor zk p m.
Let ui0 := withClock (snd (makeMove zk p m)) 0.

Definition CompleteAt : Prop :=
  In (mkUnMove m ui0) (genMoves zk q incl) /\
  normEmpty (unMakeMove zk q m ui0) = normEmpty (set_halfMoveClock p 0).

Lemma Hwf : WF p.
Proof. destruct Hrev as [_ H _ _ _]. exact H. Qed.

Lemma colorBit s : N.testbit (colorBB p w) s = false -> s < 64 -> has_color w (getPiece p s) = false.
Proof.
  intros H Hs. rewrite (colorBB_testbit p w s Hwf) in H.
  replace (s <? 64) with true in H by (symmetry; apply N.ltb_lt; exact Hs). exact H.
Qed.

Lemma pieceBit X s : In X [WQUEEN; WROOK; WBISHOP; WKNIGHT; WKING] ->
  N.testbit (ptBB p (myPiece w X)) s = true -> s < 64 /\ getPiece p s = myPiece w X.
Proof.
  intros HX H. rewrite (ptBB_testbit p _ s Hwf) in H.
  - apply andb_true_iff in H. destruct H as (A & B). apply N.ltb_lt in A. apply N.eqb_eq in B. auto.
  - cbn [In] in HX. destruct HX as [<-|[<-|[<-|[<-|[<-|[]]]]]]; destruct w; cbn; tauto.
Qed.

Lemma slider_sym (atk : square -> N -> N) (al : square -> square -> bool) occ s t' :
  (forall a b o, a < 64 -> b < 64 -> (N.testbit (atk a o) b = true <-> al a b = true /\ N.land (squaresBetween a b) o = 0)) ->
  (forall a b, a < 64 -> b < 64 -> al a b = al b a) ->
  s < 64 -> t' < 64 -> N.testbit (atk s occ) t' = true -> N.testbit (atk t' occ) s = true.
Proof.
  intros Hspec Hsym Hs Ht H. apply (Hspec s t' occ Hs Ht) in H. destruct H as (A & B).
  apply (Hspec t' s occ Ht Hs). split; [rewrite <- (Hsym s t' Hs Ht); exact A|].
  destruct (sym_facts s t' Hs Ht) as (_ & _ & E & _). rewrite <- E. exact B.
Qed.

(** common end of the five cases *)
Lemma finish X f t :
  In X [WQUEEN; WROOK; WBISHOP; WKNIGHT; WKING] ->
  m = mkMove f t EMPTY -> f < 64 -> t < 64 -> getPiece p f = myPiece w X -> has_color w (getPiece p t) = false ->
  sqAttackedT (negb w) p t (occupiedBB p) = true ->
  (X = WKING -> N.testbit (kingAttacks f) t = true) ->
  (MoveFacts p m -> In m (revMoveList q)) -> CompleteAt.
Proof.
  intros HX Hm Hf Ht Hpc Hcol Hatk Hk Hraw.
  assert (MF : MoveFacts p m).
  { apply (piece_moveFacts zk p m Hrev X HX); rewrite Hm; cbn [mfrom mto]; auto. }
  apply (complete_given_raw zk EKZ p m incl Hrev MF Hinc). apply Hraw. exact MF.
Qed.

Theorem complete_knightBlock : In m (knightBlock w p []) -> CompleteAt.
Proof.
  intro H. unfold knightBlock in H.
  apply forSquares_moves_In in H.
  2:{ apply (ptBB_lt p _ Hwf). destruct w; cbn; tauto. }
  2:{ intros sq _. apply ldiff_lt, knightAttacks_lt. }
  destruct H as [[]|(f & t & Hb & Ha & Hm)].
  destruct (pieceBit WKNIGHT f ltac:(cbn; tauto) Hb) as (Hf & Hpc).
  unfold andn in Ha. rewrite N.ldiff_spec in Ha. apply andb_true_iff in Ha. destruct Ha as (Ha & Hc). apply negb_true_iff in Hc.
  assert (Ht : t < 64) by (apply (bits_below_64 _ (proj2 (knightAttacks_lt f)) t Ha)).
  apply (finish WKNIGHT f t ltac:(cbn; tauto) Hm Hf Ht Hpc (colorBit t Hc Ht)).
  - rewrite sqAttackedT_or, negb_involutive. fold w.
    replace (nz (N.land (knightAttacks t) (ptBB p (myPiece w WKNIGHT)))) with true; [reflexivity|].
    symmetry. apply (nz_land _ _ f); [|exact Hb]. destruct (sym_facts f t Hf Ht) as (E & _). rewrite <- E. exact Ha.
  - discriminate.
  - intro MF. apply (raw_knight zk EKZ p m Hrev MF); rewrite Hm; cbn [mfrom mto]; assumption.
Qed.

Theorem complete_kingBlock : In m (kingBlock w p []) -> CompleteAt.
Proof.
  intro H. unfold kingBlock in H. cbv zeta in H.
  apply addMovesByMask_In in H; [|apply ldiff_lt, kingAttacks_lt].
  destruct H as [[]|(t & Ha & Hm)].
  set (f := kingSq p w) in *.
  destruct (kingSq_spec p w Hwf) as (Hf & Hpc0). fold f in Hf, Hpc0.
  assert (Hpc : getPiece p f = myPiece w WKING) by (rewrite Hpc0; destruct w; reflexivity).
  assert (Hb : N.testbit (ptBB p (myPiece w WKING)) f = true).
  { rewrite (ptBB_testbit p _ f Hwf) by (destruct w; cbn; tauto). rewrite Hpc, N.eqb_refl.
    replace (f <? 64) with true by (symmetry; apply N.ltb_lt; exact Hf). reflexivity. }
  unfold andn in Ha. rewrite N.ldiff_spec in Ha. apply andb_true_iff in Ha. destruct Ha as (Ha & Hc). apply negb_true_iff in Hc.
  assert (Ht : t < 64) by (apply (bits_below_64 _ (kingAttacks_lt f) t Ha)).
  apply (finish WKING f t ltac:(cbn; tauto) Hm Hf Ht Hpc (colorBit t Hc Ht)).
  - rewrite sqAttackedT_or, negb_involutive. fold w.
    replace (nz (N.land (kingAttacks t) (ptBB p (myPiece w WKING)))) with true; [rewrite orb_true_r; reflexivity|].
    symmetry. apply (nz_land _ _ f); [|exact Hb]. destruct (sym_facts f t Hf Ht) as (_ & E & _). rewrite <- E. exact Ha.
  - intros _. exact Ha.
  - intro MF. apply (raw_king zk EKZ p m Hrev MF); rewrite Hm; cbn [mfrom mto]; assumption.
Qed.

Theorem complete_bishopBlock : In m (bishopBlock w p []) -> CompleteAt.
Proof.
  intro H. unfold bishopBlock in H. cbv zeta in H.
  apply forSquares_moves_In in H.
  2:{ apply (ptBB_lt p _ Hwf). destruct w; cbn; tauto. }
  2:{ intros sq Hs. apply ldiff_lt, bishopAttacks_lt. exact Hs. }
  destruct H as [[]|(f & t & Hb & Ha & Hm)].
  destruct (pieceBit WBISHOP f ltac:(cbn; tauto) Hb) as (Hf & Hpc).
  unfold andn in Ha. rewrite N.ldiff_spec in Ha. apply andb_true_iff in Ha. destruct Ha as (Ha & Hc). apply negb_true_iff in Hc.
  assert (Ht : t < 64) by (apply (bishopAttacks_in_board f t _ Hf Ha)).
  apply (finish WBISHOP f t ltac:(cbn; tauto) Hm Hf Ht Hpc (colorBit t Hc Ht)).
  - rewrite sqAttackedT_or, negb_involutive. fold w.
    replace (nz (N.land (bishopAttacks t (occupiedBB p)) (N.lor (ptBB p (myPiece w WBISHOP)) (ptBB p (myPiece w WQUEEN))))) with true;
      [rewrite orb_true_r; reflexivity|].
    symmetry. apply (nz_land _ _ f); [|rewrite N.lor_spec, Hb; reflexivity].
    apply (slider_sym bishopAttacks bishopAligned _ f t bishopAttacks_spec (fun a b A B => proj2 (proj2 (proj2 (proj2 (proj2 (proj2 (sym_facts a b A B))))))) Hf Ht Ha).
  - discriminate.
  - intro MF. apply (raw_bishop zk EKZ p m Hrev MF); rewrite Hm; cbn [mfrom mto]; assumption.
Qed.

Theorem complete_rookBlock : In m (rookBlock w p []) -> CompleteAt.
Proof.
  intro H. unfold rookBlock in H. cbv zeta in H.
  apply forSquares_moves_In in H.
  2:{ apply (ptBB_lt p _ Hwf). destruct w; cbn; tauto. }
  2:{ intros sq Hs. apply ldiff_lt, rookAttacks_lt. exact Hs. }
  destruct H as [[]|(f & t & Hb & Ha & Hm)].
  destruct (pieceBit WROOK f ltac:(cbn; tauto) Hb) as (Hf & Hpc).
  unfold andn in Ha. rewrite N.ldiff_spec in Ha. apply andb_true_iff in Ha. destruct Ha as (Ha & Hc). apply negb_true_iff in Hc.
  assert (Ht : t < 64) by (apply (rookAttacks_in_board f t _ Hf Ha)).
  apply (finish WROOK f t ltac:(cbn; tauto) Hm Hf Ht Hpc (colorBit t Hc Ht)).
  - rewrite sqAttackedT_or, negb_involutive. fold w.
    replace (nz (N.land (rookAttacks t (occupiedBB p)) (N.lor (ptBB p (myPiece w WROOK)) (ptBB p (myPiece w WQUEEN))))) with true;
      [rewrite orb_true_r; reflexivity|].
    symmetry. apply (nz_land _ _ f); [|rewrite N.lor_spec, Hb; reflexivity].
    apply (slider_sym rookAttacks rookAligned _ f t rookAttacks_spec (fun a b A B => proj1 (proj2 (proj2 (proj2 (proj2 (proj2 (sym_facts a b A B))))))) Hf Ht Ha).
  - discriminate.
  - intro MF. apply (raw_rook zk EKZ p m Hrev MF); rewrite Hm; cbn [mfrom mto]; assumption.
Qed.

Theorem complete_queenBlock : In m (queenBlock w p []) -> CompleteAt.
Proof.
  intro H. unfold queenBlock in H. cbv zeta in H.
  apply forSquares_moves_In in H.
  2:{ apply (ptBB_lt p _ Hwf). destruct w; cbn; tauto. }
  2:{ intros sq Hs. apply ldiff_lt. apply lt_2_64_of_bits. intros i Hi. rewrite N.lor_spec, orb_true_iff in Hi.
      destruct Hi as [Hi|Hi]; [exact (rookAttacks_in_board sq i _ Hs Hi) | exact (bishopAttacks_in_board sq i _ Hs Hi)]. }
  destruct H as [[]|(f & t & Hb & Ha & Hm)].
  destruct (pieceBit WQUEEN f ltac:(cbn; tauto) Hb) as (Hf & Hpc).
  unfold andn in Ha. rewrite N.ldiff_spec in Ha. apply andb_true_iff in Ha. destruct Ha as (Ha & Hc). apply negb_true_iff in Hc.
  assert (Ht : t < 64).
  { rewrite N.lor_spec in Ha. apply orb_true_iff in Ha.
    destruct Ha as [A|A]; [apply (rookAttacks_in_board f t _ Hf A) | apply (bishopAttacks_in_board f t _ Hf A)]. }
  apply (finish WQUEEN f t ltac:(cbn; tauto) Hm Hf Ht Hpc (colorBit t Hc Ht)).
  - rewrite sqAttackedT_or, negb_involutive. fold w.
    rewrite N.lor_spec in Ha. apply orb_true_iff in Ha. destruct Ha as [A|A].
    + replace (nz (N.land (rookAttacks t (occupiedBB p)) (N.lor (ptBB p (myPiece w WROOK)) (ptBB p (myPiece w WQUEEN))))) with true;
        [rewrite orb_true_r; reflexivity|].
      symmetry. apply (nz_land _ _ f); [|rewrite N.lor_spec, Hb; apply orb_true_r].
      apply (slider_sym rookAttacks rookAligned _ f t rookAttacks_spec (fun a b A' B => proj1 (proj2 (proj2 (proj2 (proj2 (proj2 (sym_facts a b A' B))))))) Hf Ht A).
    + replace (nz (N.land (bishopAttacks t (occupiedBB p)) (N.lor (ptBB p (myPiece w WBISHOP)) (ptBB p (myPiece w WQUEEN))))) with true;
        [rewrite orb_true_r; reflexivity|].
      symmetry. apply (nz_land _ _ f); [|rewrite N.lor_spec, Hb; apply orb_true_r].
      apply (slider_sym bishopAttacks bishopAligned _ f t bishopAttacks_spec (fun a b A' B => proj2 (proj2 (proj2 (proj2 (proj2 (proj2 (sym_facts a b A' B))))))) Hf Ht A).
  - discriminate.
  - intro MF. apply (raw_queen zk EKZ p m Hrev MF); rewrite Hm; cbn [mfrom mto]; assumption.
Qed.

End Pieces.

(** * C15_complete, partial: every legal move that is not castling and not a pawn move *)
Theorem complete_partial zk (EKZ : emptyKeysZero zk) p m incl :
  WFrev zk p -> legal_spec (abs p) m ->
  (incl = true \/ epSquare p = (-1)%Z \/
   (isPawnPiece (getPiece p (mfrom m)) = true /\ Z.of_N (mto m) = epSquare p)) ->
  In m (castleMoves (whiteMove p) p (occupiedBB p) (kingSq p (whiteMove p)) []) \/
  In m (pawnBlock (whiteMove p) p []) \/
  CompleteAt zk p m incl.
Proof.
  intros Hrev Hl Hinc. pose proof (wr_wf zk p Hrev) as Hwf'.
  destruct (blocks_of_legal p m Hwf' Hl) as [H|[H|[H|[H|[H|[H|H]]]]]].
  - right. right. apply (complete_queenBlock zk EKZ p m incl Hrev Hinc H).
  - right. right. apply (complete_rookBlock zk EKZ p m incl Hrev Hinc H).
  - right. right. apply (complete_bishopBlock zk EKZ p m incl Hrev Hinc H).
  - right. right. apply (complete_kingBlock zk EKZ p m incl Hrev Hinc H).
  - left. exact H.
  - right. right. apply (complete_knightBlock zk EKZ p m incl Hrev Hinc H).
  - right. left. exact H.
Qed.
