(** C15: completeness of genMoves for every legal move (all seven classes). *)
From Coq Require Import ZArith NArith List Bool Lia.
From Texel Require Import Chess.Types Chess.Position Chess.PositionSpec Chess.PositionProofs Chess.PositionProofs2
  Chess.Fen Chess.Spec Chess.BitBoard Chess.MoveGen Chess.MoveGenWF
  RevGen.RevGen RevGen.RevRestore RevGen.RevValid RevGen.RevCand RevGen.RevLegal RevGen.RevPawn RevGen.RevCastle.
Import ListNotations.
Local Open Scope N_scope.

Theorem complete_all zk (EKZ : emptyKeysZero zk) p m incl :
  WFrev zk p -> legal_spec (abs p) m ->
  (incl = true \/ epSquare p = (-1)%Z \/
   (isPawnPiece (getPiece p (mfrom m)) = true /\ Z.of_N (mto m) = epSquare p)) ->
  CompleteAt zk p m incl.
Proof.
  intros Hrev Hl Hinc. pose proof (wr_wf zk p Hrev) as Hwf'.
  destruct (blocks_of_legal p m Hwf' Hl) as [H|[H|[H|[H|[H|[H|H]]]]]].
  - apply (complete_queenBlock zk EKZ p m incl Hrev Hinc H).
  - apply (complete_rookBlock zk EKZ p m incl Hrev Hinc H).
  - apply (complete_bishopBlock zk EKZ p m incl Hrev Hinc H).
  - apply (complete_kingBlock zk EKZ p m incl Hrev Hinc H).
  - apply (complete_castle zk EKZ p m incl Hrev Hinc H).
  - apply (complete_knightBlock zk EKZ p m incl Hrev Hinc H).
  - apply (complete_pawnBlock zk EKZ p m incl Hrev Hinc H).
Qed.

(** in the form of the property: some listed un-move has the move and restores P *)
Theorem complete_exists zk (EKZ : emptyKeysZero zk) p m incl :
  WFrev zk p -> legal_spec (abs p) m ->
  (incl = true \/ epSquare p = (-1)%Z \/
   (isPawnPiece (getPiece p (mfrom m)) = true /\ Z.of_N (mto m) = epSquare p)) ->
  let q := successor zk p m in
  exists um, In um (genMoves zk q incl) /\ um_move um = m /\
    normEmpty (unMakeMove zk q m (um_ui um)) = normEmpty (set_halfMoveClock p 0).
Proof.
  intros Hrev Hl Hinc q. destruct (complete_all zk EKZ p m incl Hrev Hl Hinc) as (H1 & H2).
  exists (mkUnMove m (withClock (snd (makeMove zk p m)) 0)). split; [exact H1|]. split; [reflexivity | exact H2].
Qed.
