(** C15 proofs, part 2: what Position::makeMove does to the four fields the reverse move
    generator talks about (board, side, castle mask, e.p. square), as a closed mailbox function
    [makeA] of those fields with the same branch structure as the C++.  For every position
    that satisfies the representation invariant, [abs (fst (makeMove zk p m)) = makeA (abs p) m].
    ([abs] is Chess/Spec.v's projection to (board, side, castle mask, e.p. square).) *)
From Coq Require Import ZArith NArith List Bool Lia.
From Texel Require Import Chess.Types Chess.Position Chess.PositionSpec Chess.PositionFacts
  Chess.PositionProofs Chess.PositionProofs2 Chess.PositionProofs3 Chess.PositionProofs4 Chess.Spec.
Import ListNotations.
Local Open Scope N_scope.

(** an own pawn [pw] stands next to file [x] on [row] *)
Definition adjPawn (sqs : list piece) (x row : N) (pw : piece) : bool :=
  ((0 <? x) && (nthP sqs (mkSq (x - 1) row) =? pw)) || ((x <? 7) && (nthP sqs (mkSq (x + 1) row) =? pw)).

(** "Handle en passant and epSquare": board and e.p. square after the block *)
Definition epBlockA (sqs : list piece) (m : move) (pc : piece) (prevEp : Z) : list piece * Z :=
  let f := mfrom m in let t := mto m in
  if pc =? WPAWN then
    if (Z.of_N t =? sqPlus f 16)%Z then (sqs, if adjPawn sqs (sqX t) 3 BPAWN then sqPlus f 8 else (-1)%Z)
    else if (Z.of_N t =? prevEp)%Z then (updN (toSq (sqPlus t (-8))) EMPTY sqs, (-1)%Z)
    else (sqs, (-1)%Z)
  else if pc =? BPAWN then
    if (Z.of_N t =? sqPlus f (-16))%Z then (sqs, if adjPawn sqs (sqX t) 4 WPAWN then sqPlus f (-8) else (-1)%Z)
    else if (Z.of_N t =? prevEp)%Z then (updN (toSq (sqPlus t 8)) EMPTY sqs, (-1)%Z)
    else (sqs, (-1)%Z)
  else (sqs, (-1)%Z).

(** "Handle castling": the rook's part of the move *)
Definition castleBlockA (sqs : list piece) (m : move) : list piece :=
  let f := mfrom m in let t := mto m in
  if isKingPiece (nthP sqs f) then
    if (Z.of_N t =? sqPlus f 2)%Z then
      updN (toSq (sqPlus f 1)) (nthP sqs (toSq (sqPlus f 3))) (updN (toSq (sqPlus f 3)) EMPTY sqs)
    else if (Z.of_N t =? sqPlus f (-2))%Z then
      updN (toSq (sqPlus f (-1))) (nthP sqs (toSq (sqPlus f (-4)))) (updN (toSq (sqPlus f (-4))) EMPTY sqs)
    else sqs
  else sqs.

Definition quietA (sqs : list piece) (m : move) : list piece :=
  let s1 := castleBlockA sqs m in
  updN (mto m) (nthP s1 (mfrom m)) (updN (mfrom m) EMPTY s1).

Definition captureA (sqs : list piece) (m : move) (pc : piece) (prevEp : Z) : list piece * Z :=
  let s1 := fst (epBlockA sqs m pc prevEp) in
  (updN (mto m) (if negb (mpromote m =? EMPTY) then mpromote m else pc) (updN (mfrom m) EMPTY s1),
   snd (epBlockA sqs m pc prevEp)).

Definition isCaptureBranch (sqs : list piece) (m : move) : bool :=
  negb (nthP sqs (mto m) =? EMPTY) || isPawnPiece (nthP sqs (mfrom m)).

Definition makeA (a : spos) (m : move) : spos :=
  let sqs := sp_board a in
  let r := if isCaptureBranch sqs m then captureA sqs m (nthP sqs (mfrom m)) (sp_ep a) else (quietA sqs m, (-1)%Z) in
  mkSpos (fst r) (negb (sp_white a))
         (N.land (N.land (sp_castle a) (castleSqMask (mfrom m))) (castleSqMask (mto m))) (snd r).

(* ------------------------------------------------------------------ *)
Section WithKeys.
Variable zk : zkeys.

(** the fields read by later tests do not change under these setters *)
Lemma bb_setEpSquare p e : pieceTypeBB (setEpSquare zk p e) = pieceTypeBB p.
Proof. unfold setEpSquare. destruct (negb _); reflexivity. Qed.
Lemma squares_setEpSquare p e : squares (setEpSquare zk p e) = squares p.
Proof. unfold setEpSquare. destruct (negb _); reflexivity. Qed.
Lemma epSquare_setEpSquare p e : epSquare (setEpSquare zk p e) = e.
Proof.
  unfold setEpSquare. destruct (Z.eqb_spec (epSquare p) e); simpl; [auto | reflexivity].
Qed.
Lemma castleMask_setEpSquare p e : castleMask (setEpSquare zk p e) = castleMask p.
Proof. unfold setEpSquare. destruct (negb _); reflexivity. Qed.
Lemma whiteMove_setEpSquare p e : whiteMove (setEpSquare zk p e) = whiteMove p.
Proof. unfold setEpSquare. destruct (negb _); reflexivity. Qed.

Lemma squares_setCastleMask p c : squares (setCastleMask zk p c) = squares p.
Proof. unfold setCastleMask. destruct (negb _); reflexivity. Qed.
Lemma epSquare_setCastleMask p c : epSquare (setCastleMask zk p c) = epSquare p.
Proof. unfold setCastleMask. destruct (negb _); reflexivity. Qed.
Lemma castleMask_setCastleMask p c : castleMask (setCastleMask zk p c) = c.
Proof.
  unfold setCastleMask. destruct (N.eqb_spec c (castleMask p)); simpl; [auto | reflexivity].
Qed.

Lemma pawnsAt_ext a b mk : pieceTypeBB a = pieceTypeBB b -> pawnsAt a mk = pawnsAt b mk.
Proof. intro H. unfold pawnsAt, ptBB. rewrite H. reflexivity. Qed.
Lemma kingsAt_ext a b mk : pieceTypeBB a = pieceTypeBB b -> kingsAt a mk = kingsAt b mk.
Proof. intro H. unfold kingsAt, ptBB. rewrite H. reflexivity. Qed.

Lemma epilogue_abs X m w :
  abs (mmEpilogue zk X m w) =
  mkSpos (squares X) (negb w) (N.land (N.land (castleMask X) (castleSqMask (mfrom m))) (castleSqMask (mto m))) (epSquare X).
Proof.
  unfold mmEpilogue, abs. cbv zeta.
  set (c := N.land (N.land (castleMask X) (castleSqMask (mfrom m))) (castleSqMask (mto m))).
  assert (H1 : forall Y, squares (if negb w then set_fullMoveCounter Y (fullMoveCounter Y + 1)%Z else Y) = squares Y)
    by (intro Y; destruct (negb w); reflexivity).
  assert (H2 : forall Y, castleMask (if negb w then set_fullMoveCounter Y (fullMoveCounter Y + 1)%Z else Y) = castleMask Y)
    by (intro Y; destruct (negb w); reflexivity).
  assert (H3 : forall Y, epSquare (if negb w then set_fullMoveCounter Y (fullMoveCounter Y + 1)%Z else Y) = epSquare Y)
    by (intro Y; destruct (negb w); reflexivity).
  proj_simpl. rewrite H1, H2, H3, squares_setCastleMask, castleMask_setCastleMask, epSquare_setCastleMask.
  reflexivity.
Qed.

(** the e.p. mask test of makeMove = an enemy pawn stands next to the target square *)
Lemma land_lor_0 a b c : (N.land (N.lor a b) c =? 0) = (N.land a c =? 0) && (N.land b c =? 0).
Proof.
  rewrite N.land_lor_distr_l.
  destruct (N.eqb_spec (N.land a c) 0) as [Ea|Ea], (N.eqb_spec (N.land b c) 0) as [Eb|Eb]; simpl.
  - rewrite Ea, Eb. reflexivity.
  - apply N.eqb_neq. rewrite Ea, N.lor_0_l. exact Eb.
  - apply N.eqb_neq. intro H. apply N.lor_eq_0_iff in H. tauto.
  - apply N.eqb_neq. intro H. apply N.lor_eq_0_iff in H. tauto.
Qed.

Lemma land_sqMask_l bb s : (N.land (sqMask s) bb =? 0) = negb (N.testbit bb s).
Proof. rewrite N.land_comm. apply land_sqMask. Qed.

Lemma epMask_adj k p x row pw (mk : N -> N) :
  ConsistentX zk k p -> x < 8 -> row < 8 -> 1 <= pw <= 12 ->
  (mk x = N.lor (if 0 <? x then sqMask (mkSq (x - 1) row) else 0) (if x <? 7 then sqMask (mkSq (x + 1) row) else 0)) ->
  negb (N.land (mk x) (ptBB p pw) =? 0) = adjPawn (squares p) x row pw.
Proof.
  intros C Hx Hr Hpw ->. rewrite land_lor_0. unfold adjPawn.
  rewrite negb_andb. f_equal.
  - destruct (0 <? x) eqn:E; cbv iota; cbn [andb]; [|rewrite N.land_0_l; reflexivity].
    rewrite land_sqMask_l, negb_involutive. apply N.ltb_lt in E.
    rewrite (testbit_ptBB zk k) by (auto; unfold mkSq; lia). unfold getPiece, nthP. apply N.eqb_sym.
  - destruct (x <? 7) eqn:E; cbv iota; cbn [andb]; [|rewrite N.land_0_l; reflexivity].
    rewrite land_sqMask_l, negb_involutive. apply N.ltb_lt in E.
    rewrite (testbit_ptBB zk k) by (auto; unfold mkSq; lia). unfold getPiece, nthP. apply N.eqb_sym.
Qed.

Lemma scalar_parts a b : scalars a = scalars b ->
  whiteMove a = whiteMove b /\ castleMask a = castleMask b /\ epSquare a = epSquare b.
Proof. unfold scalars. intro H. inversion H. auto. Qed.

(** the e.p. block *)
Lemma epBlock_abs k p m pc prevEp :
  ConsistentX zk k p -> epSquare p = (-1)%Z ->
  squares (mmEpBlock zk p m pc prevEp) = fst (epBlockA (squares p) m pc prevEp) /\
  epSquare (mmEpBlock zk p m pc prevEp) = snd (epBlockA (squares p) m pc prevEp) /\
  castleMask (mmEpBlock zk p m pc prevEp) = castleMask p.
Proof.
  intros C He. unfold mmEpBlock, epBlockA. cbv zeta.
  assert (Hx : sqX (mto m) < 8) by (unfold sqX; apply N.mod_lt; lia).
  destruct (pc =? WPAWN).
  - destruct (Z.of_N (mto m) =? sqPlus (mfrom m) 16)%Z.
    + rewrite (epMask_adj k p (sqX (mto m)) 3 BPAWN epMaskW C Hx) by (unfold BPAWN; try lia; reflexivity).
      destruct (adjPawn _ _ _ _); simpl.
      * rewrite squares_setEpSquare, epSquare_setEpSquare, castleMask_setEpSquare. auto.
      * auto.
    + destruct (Z.of_N (mto m) =? prevEp)%Z; simpl.
      * rewrite squares_clearPiece.
        destruct (scalar_parts _ _ (scalars_clearPiece zk p (toSq (sqPlus (mto m) (-8))))) as (_ & Hc' & He').
        rewrite He', Hc', He. auto.
      * auto.
  - destruct (pc =? BPAWN).
    + destruct (Z.of_N (mto m) =? sqPlus (mfrom m) (-16))%Z.
      * rewrite (epMask_adj k p (sqX (mto m)) 4 WPAWN epMaskB C Hx) by (unfold WPAWN; try lia; reflexivity).
        destruct (adjPawn _ _ _ _); simpl.
        -- rewrite squares_setEpSquare, epSquare_setEpSquare, castleMask_setEpSquare. auto.
        -- auto.
      * destruct (Z.of_N (mto m) =? prevEp)%Z; simpl.
        -- rewrite squares_clearPiece.
           destruct (scalar_parts _ _ (scalars_clearPiece zk p (toSq (sqPlus (mto m) 8)))) as (_ & Hc' & He').
           rewrite He', Hc', He. auto.
        -- auto.
    + simpl. auto.
Qed.

Lemma captureBranch_abs k p m pc prevEp :
  ConsistentX zk k p -> epSquare p = (-1)%Z ->
  squares (mmCaptureBranch zk p m pc prevEp) = fst (captureA (squares p) m pc prevEp) /\
  epSquare (mmCaptureBranch zk p m pc prevEp) = snd (captureA (squares p) m pc prevEp) /\
  castleMask (mmCaptureBranch zk p m pc prevEp) = castleMask p.
Proof.
  intros C He. unfold mmCaptureBranch, captureA. cbv zeta.
  assert (C0 : ConsistentX zk k (set_halfMoveClock p 0)) by (apply set_halfMoveClock_consistent; exact C).
  destruct (epBlock_abs k (set_halfMoveClock p 0) m pc prevEp C0 He) as (H1 & H2 & H3).
  cbn [fst snd].
  rewrite squares_setPiece, squares_clearPiece, H1.
  destruct (scalar_parts _ _ (scalars_setPiece zk (clearPiece zk (mmEpBlock zk (set_halfMoveClock p 0) m pc prevEp) (mfrom m))
                                               (mto m) (if negb (mpromote m =? EMPTY) then mpromote m else pc))) as (_ & Hc1 & He1).
  destruct (scalar_parts _ _ (scalars_clearPiece zk (mmEpBlock zk (set_halfMoveClock p 0) m pc prevEp) (mfrom m))) as (_ & Hc2 & He2).
  rewrite He1, He2, Hc1, Hc2, H2, H3. auto.
Qed.

Lemma castleBlock_abs p m :
  squares (mmCastleBlock zk p m (sqMask (mfrom m))) =
    (if kingsAt p (sqMask (mfrom m)) then
       if (Z.of_N (mto m) =? sqPlus (mfrom m) 2)%Z then
         updN (toSq (sqPlus (mfrom m) 1)) (getPiece p (toSq (sqPlus (mfrom m) 3))) (updN (toSq (sqPlus (mfrom m) 3)) EMPTY (squares p))
       else if (Z.of_N (mto m) =? sqPlus (mfrom m) (-2))%Z then
         updN (toSq (sqPlus (mfrom m) (-1))) (getPiece p (toSq (sqPlus (mfrom m) (-4)))) (updN (toSq (sqPlus (mfrom m) (-4))) EMPTY (squares p))
       else squares p
     else squares p) /\
  scalars (mmCastleBlock zk p m (sqMask (mfrom m))) = scalars p.
Proof.
  unfold mmCastleBlock. cbv zeta.
  destruct (kingsAt p (sqMask (mfrom m))); [|auto].
  destruct (Z.of_N (mto m) =? sqPlus (mfrom m) 2)%Z.
  - rewrite squares_movePieceNotPawn, scalars_movePieceNotPawn. auto.
  - destruct (Z.of_N (mto m) =? sqPlus (mfrom m) (-2))%Z.
    + rewrite squares_movePieceNotPawn, scalars_movePieceNotPawn. auto.
    + auto.
Qed.

Lemma quietBranch_abs k p m :
  ConsistentX zk k p -> mfrom m < 64 ->
  squares (mmQuietBranch zk p m (sqMask (mfrom m))) = quietA (squares p) m /\
  epSquare (mmQuietBranch zk p m (sqMask (mfrom m))) = epSquare p /\
  castleMask (mmQuietBranch zk p m (sqMask (mfrom m))) = castleMask p.
Proof.
  intros C Hf. unfold mmQuietBranch, quietA. cbv zeta.
  set (p1 := set_halfMoveClock p (halfMoveClock p + 1)%Z).
  destruct (castleBlock_abs p1 m) as (H1 & H2).
  rewrite squares_movePieceNotPawn.
  destruct (scalar_parts _ _ (scalars_movePieceNotPawn zk (mmCastleBlock zk p1 m (sqMask (mfrom m))) (mfrom m) (mto m))) as (_ & Hc & He).
  destruct (scalar_parts _ _ H2) as (_ & Hc2 & He2).
  rewrite Hc, He, Hc2, He2. split; [|split; reflexivity].
  assert (Hk : kingsAt p1 (sqMask (mfrom m)) = isKingPiece (nthP (squares p) (mfrom m))).
  { rewrite (kingsAt_ext p1 p) by reflexivity. apply (kingsAt_spec zk k); auto. }
  unfold getPiece at 1. rewrite H1. unfold castleBlockA. cbv zeta. rewrite Hk.
  reflexivity.
Qed.

(** makeMove on the four fields *)
Theorem makeMove_abs p m :
  Consistent zk p -> mfrom m < 64 -> abs (fst (makeMove zk p m)) = makeA (abs p) m.
Proof.
  intros C Hf. rewrite makeMove_fst.
  set (p0 := set_hashKey p (N.lxor (hashKey p) (zk_white zk))).
  set (p1 := setEpSquare zk p0 (-1)).
  assert (C0 : ConsistentX zk (zk_white zk) p0).
  { unfold p0. replace (zk_white zk) with (N.lxor 0 (zk_white zk)) at 1 by apply N.lxor_0_l. apply toggle_white_key. exact C. }
  assert (C1 : ConsistentX zk (zk_white zk) p1) by (apply setEpSquare_consistent; exact C0).
  assert (Hs1 : squares p1 = squares p) by (unfold p1; rewrite squares_setEpSquare; reflexivity).
  assert (Hb1 : pieceTypeBB p1 = pieceTypeBB p) by (unfold p1; rewrite bb_setEpSquare; reflexivity).
  assert (He1 : epSquare p1 = (-1)%Z) by (unfold p1; apply epSquare_setEpSquare).
  assert (Hc1 : castleMask p1 = castleMask p) by (unfold p1; rewrite castleMask_setEpSquare; reflexivity).
  rewrite epilogue_abs. unfold makeA, abs. cbn [sp_board sp_white sp_castle sp_ep].
  rewrite (pawnsAt_ext p1 p _ Hb1), (pawnsAt_spec zk 0 p (mfrom m) C Hf).
  unfold isCaptureBranch. fold (getPiece p (mto m)). fold (getPiece p (mfrom m)).
  change (nthP (squares p) (mto m)) with (getPiece p (mto m)).
  change (nthP (squares p) (mfrom m)) with (getPiece p (mfrom m)).
  destruct (negb (getPiece p (mto m) =? EMPTY) || isPawnPiece (getPiece p (mfrom m))).
  - destruct (captureBranch_abs (zk_white zk) p1 m (getPiece p (mfrom m)) (epSquare p) C1 He1) as (H1 & H2 & H3).
    rewrite H1, H2, H3, Hs1, Hc1. reflexivity.
  - destruct (quietBranch_abs (zk_white zk) p1 m C1 Hf) as (H1 & H2 & H3).
    rewrite H1, H2, H3, Hs1, Hc1, He1. reflexivity.
Qed.

End WithKeys.
