(** C15 proofs, part 1: shape of the list built by genMoves (membership in nested flat_maps,
    the filter by knownInvalid, the clock field). *)
From Coq Require Import ZArith NArith List Bool Lia.
From Texel Require Import Chess.Types Chess.Position Chess.BitBoard Chess.MoveGen Chess.Fen RevGen.RevGen.
Import ListNotations.
Local Open Scope N_scope.

Section Shape.
Variable zk : zkeys.

Lemma genMoves_In pos incl um :
  In um (genMoves zk pos incl) <->
  In um (candidates pos incl) /\ knownInvalid zk pos (um_move um) (um_ui um) = false.
Proof.
  unfold genMoves. rewrite filter_In, negb_true_iff. tauto.
Qed.

Lemma candidates_In pos incl um :
  In um (candidates pos incl) <-> exists m, In m (revMoveList pos) /\ In um (candidatesFor pos incl m).
Proof. unfold candidates. rewrite in_flat_map. tauto. Qed.

(** what a candidate of move [m] looks like *)
Lemma candidatesFor_In pos incl m um :
  In um (candidatesFor pos incl m) <->
  exists p0 castle epFile,
    let wtm := negb (whiteMove pos) in
    let movingPiece := movingPieceOf pos m in
    let captured := if wtm then makeBlack p0 else p0 in
    let base := getBaseCastleMask pos m movingPiece in
    let ep := epSquareOfFile wtm epFile in
    In p0 [EMPTY; WKING; WQUEEN; WROOK; WBISHOP; WKNIGHT; WPAWN] /\
    validCapturePiece m movingPiece p0 = true /\
    In castle (castleAlternatives (andn (getCastleAddMask pos m movingPiece captured) base)) /\
    In epFile (epFiles (getEpMask pos m movingPiece captured incl)) /\
    (mustBeEpCapture m movingPiece captured && negb (Z.of_N (mto m) =? ep)%Z) = false /\
    um = mkUnMove m (mkUndo captured (N.lor base castle) ep 0%Z).
Proof.
  unfold candidatesFor. cbv zeta. rewrite in_flat_map. split.
  - intros (p0 & Hp0 & H).
    destruct (validCapturePiece m (movingPieceOf pos m) p0) eqn:V; simpl in H; [|contradiction].
    apply in_flat_map in H. destruct H as (castle & Hc & H).
    apply in_flat_map in H. destruct H as (epFile & He & H).
    destruct (mustBeEpCapture _ _ _ && negb _) eqn:E; simpl in H; [contradiction|].
    destruct H as [H|[]]. exists p0, castle, epFile. repeat split; auto.
  - intros (p0 & castle & epFile & Hp0 & V & Hc & He & E & ->).
    exists p0. split; auto. rewrite V. simpl.
    apply in_flat_map. exists castle. split; auto.
    apply in_flat_map. exists epFile. split; auto.
    rewrite E. simpl. auto.
Qed.

(** UnMove::ui.halfMoveClock is always 0, and the move of every candidate is a raw reverse move *)
Lemma candidates_clock pos incl um : In um (candidates pos incl) -> u_halfMoveClock (um_ui um) = 0%Z /\ In (um_move um) (revMoveList pos).
Proof.
  intro H. apply candidates_In in H. destruct H as (m & Hm & H).
  apply candidatesFor_In in H. cbv zeta in H. destruct H as (p0 & c & e & _ & _ & _ & _ & _ & ->). simpl. auto.
Qed.

End Shape.
