(** C15 proofs, part 13: consistency for pawn un-moves (single and double step, capture, en-passant capture)
    and un-promotions.  The shape of the raw reverse moves, the undo information that survives the
    tests of genMoves, the restored position, making the move again, legality by the FIDE rules. *)
From Coq Require Import ZArith NArith List Bool Lia.
From Texel Require Import Chess.Types Chess.Position Chess.PositionSpec Chess.PositionFacts
  Chess.PositionProofs Chess.PositionProofs2 Chess.PositionProofs3 Chess.PositionProofs4 Chess.PositionTheorems
  Chess.PositionSources Chess.Fen Chess.Spec Chess.BitBoard Chess.MoveGen Chess.MoveGenWF Chess.MoveGenProofs
  Chess.BitBoardProofs Chess.RayProofs Chess.SliderProofs Chess.AttackProofs Chess.PawnProofs Chess.PseudoProofs
  Chess.MakeSpecProofs gen.BitBoardTables
  RevGen.RevGen RevGen.RevFacts RevGen.RevAbs RevGen.RevRestore RevGen.RevValid RevGen.RevCand RevGen.RevRaw RevGen.RevLegal
  RevGen.RevPawn RevGen.RevCons RevGen.RevNoDup RevGen.RevTheorems.
Import ListNotations.
Local Open Scope N_scope.

(** * the origin squares of a pawn un-move *)
Section Geo.
Variable q : position.
Hypothesis BO : BoardOK q.
Let wm := negb (whiteMove q).
Let occ := occupiedBB q.
Let sqsQ := squares q.
Let dQ : Z := dirOf wm.

Inductive Geo (f t : square) : Prop :=
| G_push : zf f = zf t -> zr f = (zr t - dQ)%Z -> Geo f t
| G_double : zf f = zf t -> zr f = (zr t - 2 * dQ)%Z -> zr t = (if wm then 3 else 4)%Z ->
             nthP sqsQ (sq_of (zf t) (zr t - dQ)) = EMPTY -> Geo f t
| G_diag : (zf f = zf t - 1 \/ zf f = zf t + 1)%Z -> zr f = (zr t - dQ)%Z -> Geo f t.

Lemma wmG : wm = true \/ wm = false.
Proof. unfold wm. destruct (whiteMove q); auto. Qed.

Lemma occ_empty s : s < 64 -> N.testbit occ s = false -> nthP sqsQ s = EMPTY.
Proof.
  intros Hs H. unfold occ in H. rewrite (occupied_testbit_B q s BO) in H.
  replace (s <? 64) with true in H by (symmetry; apply N.ltb_lt; exact Hs). cbn [andb] in H.
  apply negb_false_iff, N.eqb_eq in H. exact H.
Qed.

Lemma sq_of_zf_zr s : s < 64 -> sq_of (zf s) (zr s) = s.
Proof. intro H. apply (coords_of_sq s H). Qed.

(** one rank behind, same file *)
Lemma behind_coords (t : square) k : t < 64 -> (0 <= Z.of_N t - k * 8 < 64)%Z ->
  let s := Z.to_N (Z.of_N t - k * 8) in s < 64 /\ zf s = zf t /\ zr s = (zr t - k)%Z.
Proof.
  intros Ht Hr s. assert (Hs : s < 64) by (unfold s; lia). split; [exact Hs|].
  destruct (sq_decomp t Ht) as (A & B & C). destruct (sq_decomp s Hs) as (A' & B' & C').
  assert (Es : Z.of_N s = (Z.of_N t - k * 8)%Z) by (unfold s; lia). lia.
Qed.

(** the diagonal part: step_rel of the opposite pawn's attack table *)
Lemma diag_coords (f t : square) : f < 64 -> t < 64 ->
  N.testbit (if wm then bPawnAttacks t else wPawnAttacks t) f = true ->
  (zf f = zf t - 1 \/ zf f = zf t + 1)%Z /\ zr f = (zr t - dQ)%Z.
Proof.
  intros Hf Ht H. unfold dQ, dirOf. destruct wmG as [E|E]; rewrite E in H |- *.
  - destruct (bPawnAttacks_spec t Ht) as (_ & Hs). rewrite (Hs f Hf) in H. unfold step_rel, bpawn_offsets in H.
    cbn [existsb fst snd] in H. rewrite orb_false_r in H. apply orb_true_iff in H.
    destruct H as [H|H]; apply andb_true_iff in H; destruct H as (A & B); apply Z.eqb_eq in A, B; lia.
  - destruct (wPawnAttacks_spec t Ht) as (_ & Hs). rewrite (Hs f Hf) in H. unfold step_rel, wpawn_offsets in H.
    cbn [existsb fst snd] in H. rewrite orb_false_r in H. apply orb_true_iff in H.
    destruct H as [H|H]; apply andb_true_iff in H; destruct H as (A & B); apply Z.eqb_eq in A, B; lia.
Qed.

(** straight or diagonal, one step: the mask of the un-promotions and the first part of the pawn mask *)
Lemma step_mask_shape (f t : square) : t < 64 -> (if wm then 8 <= t else t < 56) ->
  N.testbit (if wm then N.lor (bPawnAttacks t) (bitAt t (-8)) else N.lor (wPawnAttacks t) (bitAt t 8)) f = true ->
  f < 64 /\ ((zf f = zf t /\ zr f = (zr t - dQ)%Z) \/ ((zf f = zf t - 1 \/ zf f = zf t + 1)%Z /\ zr f = (zr t - dQ)%Z)).
Proof.
  intros Ht Hr H. destruct (row_facts t Ht) as (_ & _ & Lb & Lw).
  unfold dQ, dirOf. destruct wmG as [E|E]; rewrite E in H, Hr |- *; rewrite N.lor_spec in H; apply orb_true_iff in H; destruct H as [H|H].
  - assert (Hf : f < 64) by (apply (bits_below_64 _ Lb f H)). split; [exact Hf|]. right.
    pose proof (diag_coords f t Hf Ht) as D. rewrite E in D. unfold dQ, dirOf in D. rewrite E in D. apply D. exact H.
  - unfold bitAt, sqAdd in H. rewrite bit_bits in H. apply N.eqb_eq in H.
    destruct (behind_coords t 1 Ht ltac:(lia)) as (A & B & C).
    replace (Z.to_N (Z.of_N t - 1 * 8)) with f in A, B, C by (rewrite <- H; f_equal; lia). split; [exact A|]. left. split; [exact B | lia].
  - assert (Hf : f < 64) by (apply (bits_below_64 _ Lw f H)). split; [exact Hf|]. right.
    pose proof (diag_coords f t Hf Ht) as D. rewrite E in D. unfold dQ, dirOf in D. rewrite E in D. apply D. exact H.
  - unfold bitAt, sqAdd in H. rewrite bit_bits in H. apply N.eqb_eq in H.
    destruct (behind_coords t (-1) Ht ltac:(lia)) as (A & B & C).
    replace (Z.to_N (Z.of_N t - -1 * 8)) with f in A, B, C by (rewrite <- H; f_equal; lia). split; [exact A|]. left. split; [exact B | lia].
Qed.

Theorem fromMask_shape (f t : square) : 8 <= t < 56 ->
  N.testbit (revPawnFromMask wm occ t) f = true ->
  f < 64 /\ nthP sqsQ f = EMPTY /\ zr f <> (if wm then 0 else 7)%Z /\ Geo f t.
Proof.
  intros Hr H. assert (Ht : t < 64) by lia.
  unfold revPawnFromMask, andn in H. cbv zeta in H. rewrite N.ldiff_spec in H. apply andb_true_iff in H.
  destruct H as (Hm & Ho). apply negb_true_iff in Ho.
  assert (Hmain : N.testbit (if wm then N.ldiff (N.lor (bPawnAttacks t) (bitAt t (-8))) maskRow1
                             else N.ldiff (N.lor (wPawnAttacks t) (bitAt t 8)) maskRow8) f = true ->
                  f < 64 /\ nthP sqsQ f = EMPTY /\ zr f <> (if wm then 0 else 7)%Z /\ Geo f t).
  { intro Hb.
    assert (Hb' : N.testbit (if wm then N.lor (bPawnAttacks t) (bitAt t (-8)) else N.lor (wPawnAttacks t) (bitAt t 8)) f = true /\
                  N.testbit (if wm then maskRow1 else maskRow8) f = false).
    { destruct wmG as [E|E]; rewrite E in Hb |- *; rewrite N.ldiff_spec in Hb; apply andb_true_iff in Hb; destruct Hb as (A & B);
        apply negb_true_iff in B; auto. }
    destruct Hb' as (Hs & Hrow).
    destruct (step_mask_shape f t Ht ltac:(destruct wmG as [E|E]; rewrite E; lia) Hs) as (Hf & Hg).
    split; [exact Hf|]. split; [apply (occ_empty f Hf Ho)|]. split.
    - destruct (row_facts f Hf) as (R1 & R8 & _). destruct wmG as [E|E]; rewrite E in Hrow |- *.
      + rewrite R1 in Hrow. apply Z.eqb_neq in Hrow. exact Hrow.
      + rewrite R8 in Hrow. apply Z.eqb_neq in Hrow. exact Hrow.
    - destruct Hg as [(A & B)|(A & B)]; [apply G_push | apply G_diag]; assumption. }
  destruct (sqY t =? (if wm then 3 else 4)) eqn:Ey; [|apply Hmain; exact Hm].
  destruct (N.land (bitAt t (if wm then -8 else 8)%Z) occ =? 0) eqn:Emid; [|apply Hmain; exact Hm].
  rewrite N.lor_spec in Hm. apply orb_true_iff in Hm. destruct Hm as [Hm|Hm]; [apply Hmain; exact Hm|].
  (* the double step *)
  apply N.eqb_eq in Ey. pose proof (sqY_zr t) as Hy. rewrite Ey in Hy.
  unfold bitAt in Emid. rewrite land_bit_0 in Emid. apply negb_true_iff in Emid.
  unfold bitAt, sqAdd in Hm. rewrite bit_bits in Hm. apply N.eqb_eq in Hm.
  destruct (sq_decomp t Ht) as (Dt & Dt1 & Dt2).
  unfold dQ, dirOf. destruct wmG as [E|E]; rewrite E in Hy, Hm, Emid |- *.
  - destruct (behind_coords t 2 Ht ltac:(lia)) as (A & B & C).
    replace (Z.to_N (Z.of_N t - 2 * 8)) with f in A, B, C by (rewrite <- Hm; f_equal; lia).
    destruct (behind_coords t 1 Ht ltac:(lia)) as (A1' & B1 & C1').
    split; [exact A|]. split; [apply (occ_empty f A Ho)|]. split; [lia|].
    apply G_double; unfold dQ, dirOf; rewrite ?E; try lia. rewrite <- B1. replace (zr t - 1)%Z with (zr (Z.to_N (Z.of_N t - 1 * 8))) by lia.
    rewrite (sq_of_zf_zr _ A1'). apply (occ_empty _ A1'). unfold sqAdd in Emid.
    replace (Z.to_N (Z.of_N t - 1 * 8)) with (Z.to_N (Z.of_N t + -8)) by (f_equal; lia). exact Emid.
  - destruct (behind_coords t (-2) Ht ltac:(lia)) as (A & B & C).
    replace (Z.to_N (Z.of_N t - -2 * 8)) with f in A, B, C by (rewrite <- Hm; f_equal; lia).
    destruct (behind_coords t (-1) Ht ltac:(lia)) as (A1' & B1 & C1').
    split; [exact A|]. split; [apply (occ_empty f A Ho)|]. split; [lia|].
    apply G_double; unfold dQ, dirOf; rewrite ?E; try lia. rewrite <- B1. replace (zr t - -1)%Z with (zr (Z.to_N (Z.of_N t - -1 * 8))) by lia.
    rewrite (sq_of_zf_zr _ A1'). apply (occ_empty _ A1'). unfold sqAdd in Emid.
    replace (Z.to_N (Z.of_N t - -1 * 8)) with (Z.to_N (Z.of_N t + 8)) by (f_equal; lia). exact Emid.
Qed.

End Geo.

(** * the raw reverse moves of pawns and the un-promotions *)
Section Shape.
Variable q : position.
Hypothesis Hwf : WF q.
Let BO := WF_BoardOK q Hwf.
Let wm := negb (whiteMove q).
Let occ := occupiedBB q.
Let sqsQ := squares q.
Let pw : piece := myPiece wm WPAWN.

Lemma myPiece_notpawn X : In X [WQUEEN; WROOK; WBISHOP; WKNIGHT; WKING] -> isPawnPiece (myPiece wm X) = false.
Proof. intro H. cbn [In] in H. generalize wm. intro b. destruct H as [<-|[<-|[<-|[<-|[<-|[]]]]]]; destruct b; reflexivity. Qed.

Lemma inner_not_pawn m :
  In m (revKingBlock wm q (revKnightBlock wm q (revBishopBlock wm q (revRookBlock wm q (revQueenBlock wm q []))))) ->
  mpromote m = EMPTY /\ isPawnPiece (getPiece q (mto m)) = false.
Proof.
  intro H.
  apply (kingBlock_shape q BO (king_exists q _ Hwf)) in H. destruct H as [H|[((A & _ & B & _) & _)|(k0 & kSq & -> & _ & _ & Hk)]].
  2:{ split; [exact A | rewrite B; apply myPiece_notpawn; cbn; tauto]. }
  2:{ cbn [mpromote mto]. split; [reflexivity|]. unfold isKingPiece in Hk. unfold isPawnPiece.
      apply orb_true_iff in Hk. destruct Hk as [Hk|Hk]; apply N.eqb_eq in Hk; rewrite Hk; reflexivity. }
  apply (knightBlock_shape q BO) in H. destruct H as [H|(A & _ & B & _)]; [|split; [exact A | rewrite B; apply myPiece_notpawn; cbn; tauto]].
  apply (bishopBlock_shape q BO) in H. destruct H as [H|(A & _ & B & _)]; [|split; [exact A | rewrite B; apply myPiece_notpawn; cbn; tauto]].
  apply (rookBlock_shape q BO) in H. destruct H as [H|((A & _ & B & _) & _)]; [|split; [exact A | rewrite B; apply myPiece_notpawn; cbn; tauto]].
  apply (queenBlock_shape q BO) in H. destruct H as [[]|(A & _ & B & _)]. split; [exact A | rewrite B; apply myPiece_notpawn; cbn; tauto].
Qed.

Lemma pawnBlock_full l m : In m (revPawnBlock wm q l) ->
  In m l \/ (mpromote m = EMPTY /\ mto m < 64 /\ getPiece q (mto m) = pw /\ N.testbit (revPawnFromMask wm occ (mto m)) (mfrom m) = true).
Proof.
  unfold revPawnBlock. cbv zeta. intro H.
  apply (proj1 (revLoopW_In (fun sq => revPawnFromMask wm (occupiedBB q) sq) (fun _ => EMPTY) (fun _ => false) _ l m
                  (BoardOK_ptBB_lt q _ BO (myPiece_codes wm WPAWN ltac:(cbn; tauto))))) in H.
  destruct H as [H|(sq & Hs & _ & H)]; [left; exact H|]. right.
  rewrite (BoardOK_ptBB q _ sq BO) in Hs by (apply myPiece_codes; cbn; tauto).
  apply andb_true_iff in Hs. destruct Hs as (Hs64 & Hs). apply N.ltb_lt in Hs64. apply N.eqb_eq in Hs.
  assert (Hmask : revPawnFromMask wm (occupiedBB q) sq < 2 ^ 64).
  { apply (pawnMask_lt q Hwf sq). rewrite (BoardOK_ptBB q _ sq BO) by (apply myPiece_codes; cbn; tauto).
    apply andb_true_iff. split; [apply N.ltb_lt; exact Hs64 | apply N.eqb_eq; exact Hs]. }
  apply (revAdd_In [] _ sq EMPTY m Hmask) in H. destruct H as [[]|(s0 & Hb & ->)]. cbn [mpromote mto mfrom]. auto.
Qed.

Definition promoStep (sq : square) : N :=
  if wm then N.lor (bPawnAttacks sq) (bitAt sq (-8)) else N.lor (wPawnAttacks sq) (bitAt sq 8).

Lemma wmS : wm = true \/ wm = false.
Proof. unfold wm. destruct (whiteMove q); auto. Qed.

Lemma lastRank_range sq : sq < 64 -> N.testbit (if wm then maskRow8 else maskRow1) sq = true ->
  zr sq = lastRank wm /\ (if wm then 8 <= sq else sq < 56).
Proof.
  intros Hs H. destruct (row_facts sq Hs) as (R1 & R8 & _). destruct (sq_decomp sq Hs) as (D & D1 & D2).
  unfold lastRank. destruct wmS as [E|E]; rewrite E in H |- *.
  - rewrite R8 in H. apply Z.eqb_eq in H. split; [exact H | lia].
  - rewrite R1 in H. apply Z.eqb_eq in H. split; [exact H | lia].
Qed.

Lemma promoBlock_full l m : In m (revPromoBlock wm q l) ->
  In m l \/ (mto m < 64 /\ mpromote m = getPiece q (mto m) /\ has_color wm (getPiece q (mto m)) = true /\
             isKingPiece (getPiece q (mto m)) = false /\ zr (mto m) = lastRank wm /\
             (if wm then 8 <= mto m else mto m < 56) /\
             N.testbit (promoStep (mto m)) (mfrom m) = true /\ N.testbit occ (mfrom m) = false).
Proof.
  unfold revPromoBlock. cbv zeta. intro H.
  assert (Hcol : colorBB q wm < 2 ^ 64) by (apply (colorLt q Hwf)).
  apply (proj1 (revLoopW_In
           (fun sq => andn (if wm then N.lor (bPawnAttacks sq) (bitAt sq (-8)) else N.lor (wPawnAttacks sq) (bitAt sq 8)) (occupiedBB q))
           (fun sq => getPiece q sq)
           (fun sq => (getPiece q sq =? WKING) || (getPiece q sq =? BKING))
           _ l m (land_lt_l _ _ 64 Hcol))) in H.
  destruct H as [H|(sq & Hs & Hk & H)]; [left; exact H|]. right.
  rewrite N.land_spec in Hs. apply andb_true_iff in Hs. destruct Hs as (Hc & Hrow).
  rewrite (BoardOK_color q wm sq BO) in Hc. apply andb_true_iff in Hc. destruct Hc as (Hs64 & Hc). apply N.ltb_lt in Hs64.
  destruct (lastRank_range sq Hs64 Hrow) as (Hlr & Hrange).
  assert (Hmask : andn (promoStep sq) (occupiedBB q) < 2 ^ 64).
  { unfold andn. apply ldiff_lt. unfold promoStep. destruct (row_facts sq Hs64) as (_ & _ & Lb & Lw).
    destruct wmS as [E|E]; rewrite E in Hrange |- *; cbv iota in Hrange; apply lorLt; try assumption; apply (bitAtLt q); lia. }
  apply (revAdd_In [] _ sq (getPiece q sq) m Hmask) in H. destruct H as [[]|(s0 & Hb & ->)]. cbn [mpromote mto mfrom].
  unfold andn in Hb. rewrite N.ldiff_spec in Hb. apply andb_true_iff in Hb. destruct Hb as (Hb1 & Hb2). apply negb_true_iff in Hb2.
  repeat split; auto.
Qed.

(** the two classes *)
Inductive PawnLike (m : move) : Prop :=
| PL_pawn : mpromote m = EMPTY -> nthP sqsQ (mto m) = pw -> 8 <= mto m < 56 ->
            N.testbit (revPawnFromMask wm occ (mto m)) (mfrom m) = true -> PawnLike m
| PL_promo : mpromote m = nthP sqsQ (mto m) -> mto m < 64 -> has_color wm (nthP sqsQ (mto m)) = true ->
             isKingPiece (nthP sqsQ (mto m)) = false -> zr (mto m) = lastRank wm ->
             (if wm then 8 <= mto m else mto m < 56) ->
             N.testbit (promoStep (mto m)) (mfrom m) = true -> N.testbit occ (mfrom m) = false -> PawnLike m.

Theorem raw_pawn_shape m : In m (genMovesNoUndoInfo q) ->
  (mpromote m = EMPTY /\ isPawnPiece (nthP sqsQ (mto m)) = true) \/ mpromote m <> EMPTY -> PawnLike m.
Proof.
  intros H Hcls. rewrite (gen_eq q) in H.
  apply promoBlock_full in H. destruct H as [H|(A & B & C & D & E & F & G & I)].
  2:{ apply PL_promo; assumption. }
  apply pawnBlock_full in H. destruct H as [H|(A & B & C & D)].
  - exfalso. destruct (inner_not_pawn m H) as (Hp & Hn). destruct Hcls as [(_ & Hc)|Hc]; [|contradiction].
    change (nthP sqsQ (mto m)) with (getPiece q (mto m)) in Hc. congruence.
  - apply PL_pawn; try assumption.
    destruct (N.lt_ge_cases (mto m) 8) as [L|L]; [|destruct (N.lt_ge_cases (mto m) 56) as [L2|L2]; [lia|]].
    + pose proof (edge_no_pawn q Hwf (mto m) B (or_introl L)) as X. rewrite C in X. unfold pw in X. revert X. generalize wm. intros []; discriminate.
    + pose proof (edge_no_pawn q Hwf (mto m) B (or_intror L2)) as X. rewrite C in X. unfold pw in X. revert X. generalize wm. intros []; discriminate.
Qed.

End Shape.

(** * consistency of the reported pawn un-moves and un-promotions *)
Section PawnCons.
Variable zk : zkeys.
Hypothesis EKZ : emptyKeysZero zk.
Variable q : position.
Hypothesis Hrev : WFrev zk q.
Variable incl : bool.
Variable um : unMove.
Hypothesis Hin : In um (genMoves zk q incl).

Let m := um_move um.
Let ui := um_ui um.
Let f := mfrom m.
Let t := mto m.
Let sqsQ := squares q.
Let mpT := nthP sqsQ t.
Let wm := negb (whiteMove q).
Let pw : piece := myPiece wm WPAWN.
Let prev := unMakeMove zk q m ui.
Let dQ : Z := dirOf wm.

Hypothesis Hcls : (mpromote m = EMPTY /\ isPawnPiece mpT = true) \/ mpromote m <> EMPTY.

Lemma Cq : Consistent zk q.
Proof. destruct Hrev as [H _ _ _ _]. exact H. Qed.
Lemma Hwf : WF q.
Proof. destruct Hrev as [_ H _ _ _]. exact H. Qed.
Lemma wmC : wm = true \/ wm = false.
Proof. unfold wm. destruct (whiteMove q); auto. Qed.
Lemma lenQ64 : length sqsQ = 64%nat.
Proof. apply (lenQ zk q Cq). Qed.

Lemma m_raw : In m (revMoveList q).
Proof. destruct (proj1 (genMoves_In zk q incl um) Hin) as (Hc & _). apply (candidates_clock q incl um Hc). Qed.

(** what the raw move looks like *)
Inductive RawP : Prop :=
| mkRawP : f < 64 -> t < 64 -> nthP sqsQ f = EMPTY -> Geo q f t ->
    (mpromote m = EMPTY /\ mpT = pw /\ 8 <= t < 56 /\ zr f <> (if wm then 0 else 7)%Z) \/
    (mpromote m = mpT /\ (exists k, In k promoKinds /\ mpT = mk_piece wm k) /\ zr t = lastRank wm) -> RawP.

Lemma pw_mk : pw = mk_piece wm Pawn.
Proof. unfold pw. apply myPiece_mk. Qed.

Lemma promo_kind pc : pc <= 12 -> has_color wm pc = true -> isKingPiece pc = false -> isPawnPiece pc = false ->
  exists k, In k promoKinds /\ pc = mk_piece wm k.
Proof.
  intros Hle Hc Hk Hp. generalize dependent wm. intros b Hc.
  destruct (le12_cases _ Hle) as [E|[E|[E|[E|[E|[E|[E|[E|[E|[E|[E|[E|E]]]]]]]]]]]]; subst pc; destruct b; try discriminate;
    [exists Queen | exists Rook | exists Bishop | exists Knight | exists Queen | exists Rook | exists Bishop | exists Knight];
    (split; [cbn; tauto | reflexivity]).
Qed.

Lemma rawP : RawP.
Proof.
  pose proof m_raw as Hraw. pose proof (WF_BoardOK q Hwf) as BO.
  destruct (Z.eq_dec (epSquare q) (-1)) as [Eep|Eep].
  - rewrite (revMoveList_noep q Eep) in Hraw.
    destruct (raw_pawn_shape q Hwf m Hraw Hcls) as [A B C D | A B C D E F G I].
    + destruct (fromMask_shape q BO f t C D) as (Hf & Hfe & Hrow & Hg).
      apply (mkRawP Hf ltac:(lia) Hfe Hg). left. auto.
    + fold sqsQ in A, C, D. fold wm in C, E, F, G. fold t in A, B, C, D, E, F, G, I. fold mpT in A, C, D. fold f in G, I.
      destruct (step_mask_shape q f t B F G) as (Hf & Hg).
      assert (Hfe : nthP sqsQ f = EMPTY) by (apply (occ_empty q BO f Hf I)).
      assert (Hgeo : Geo q f t) by (destruct Hg as [(X & Y)|(X & Y)]; [apply G_push | apply G_diag]; assumption).
      apply (mkRawP Hf B Hfe Hgeo). right. split; [exact A|]. split; [|exact E].
      apply promo_kind; auto.
      * apply (BoardOK_le12 q t BO).
      * destruct (sq_decomp t B) as (Dt & Dt1 & Dt2). unfold lastRank in E.
        apply (edge_no_pawn q Hwf t B). destruct wmC as [Ew|Ew]; rewrite Ew in E; cbv iota in E; lia.
  - (* the double step that set the e.p. square *)
    unfold revMoveList in Hraw. cbv zeta in Hraw.
    replace (epSquare q =? -1)%Z with false in Hraw by (symmetry; apply Z.eqb_neq; exact Eep).
    destruct (WF_parts q Hwf) as (_ & _ & _ & _ & Hacc).
    destruct (accepted_epShape _ Hacc) as [Hx|(e & He & He64 & Hy & Hee & Hpawn)]; [contradiction|].
    cbn [abs sp_ep sp_white sp_board] in He, Hy, Hee, Hpawn. fold sqsQ in Hee, Hpawn.
    destruct Hrev as [_ _ _ _ Horig]. specialize (Horig e He). fold sqsQ in Horig.
    rewrite He, N2Z.id in Hraw. fold wm in Hraw.
    unfold sqY in Hy. pose proof (N.div_mod e 8 ltac:(lia)) as Dm. pose proof (N.mod_lt e 8 ltac:(lia)) as Dl.
    assert (Hmask : bitAt e (- (if wm then 8 else -8)) < 2 ^ 64).
    { apply (bitAtLt q). unfold wm. case_eq (whiteMove q); intro Ew; rewrite Ew in Hy; cbn [negb]; lia. }
    apply (revAdd_In [] _ _ EMPTY m Hmask) in Hraw. destruct Hraw as [[]|(s0 & Hb & Em)].
    unfold bitAt, sqAdd in Hb, Em. rewrite bit_bits in Hb. apply N.eqb_eq in Hb.
    assert (Ef : f = s0) by (unfold f; rewrite Em; reflexivity).
    assert (Et : t = Z.to_N (Z.of_N e + (if wm then 8 else -8))) by (unfold t; rewrite Em; reflexivity).
    assert (Epr : mpromote m = EMPTY) by (rewrite Em; reflexivity).
    case_eq (whiteMove q); intro Ew.
    + (* black moved: from e + 8 to e - 8 *)
      assert (Ewm : wm = false) by (unfold wm; rewrite Ew; reflexivity).
      rewrite Ewm in Hb, Et. rewrite Ew in Hy, Horig, Hpawn.
      assert (Ef' : f = e + 8) by lia. assert (Et' : t = e - 8) by lia.
      assert (Ht : t < 64) by lia. assert (Hf : f < 64) by lia.
      destruct (sq_decomp t Ht) as (Dt & Dt1 & Dt2). destruct (sq_decomp f Hf) as (Df & Df1 & Df2). destruct (sq_decomp e He64) as (De & De1 & De2).
      assert (Hzt : zr t = 4%Z /\ zf t = zf e) by lia. assert (Hzf : zr f = 6%Z /\ zf f = zf e) by lia.
      apply (mkRawP Hf Ht); [rewrite Ef'; exact Horig | | left].
      * apply G_double; unfold dirOf; rewrite ?Ew; cbn [negb]; try lia.
        replace (sq_of (zf t) (zr t - -1)) with e; [exact Hee|]. destruct Hzt as (A & B). rewrite A, B.
        replace (4 - -1)%Z with (zr e) by lia. symmetry. apply (coords_of_sq e He64).
      * rewrite Ewm. split; [exact Epr|]. split; [unfold mpT, pw; rewrite Et', Ewm; exact Hpawn|]. split; lia.
    + assert (Ewm : wm = true) by (unfold wm; rewrite Ew; reflexivity).
      rewrite Ewm in Hb, Et. rewrite Ew in Hy, Horig, Hpawn.
      assert (Ef' : f = e - 8) by lia. assert (Et' : t = e + 8) by lia.
      assert (Ht : t < 64) by lia. assert (Hf : f < 64) by lia.
      destruct (sq_decomp t Ht) as (Dt & Dt1 & Dt2). destruct (sq_decomp f Hf) as (Df & Df1 & Df2). destruct (sq_decomp e He64) as (De & De1 & De2).
      assert (Hzt : zr t = 3%Z /\ zf t = zf e) by lia. assert (Hzf : zr f = 1%Z /\ zf f = zf e) by lia.
      apply (mkRawP Hf Ht); [rewrite Ef'; exact Horig | | left].
      * apply G_double; unfold dirOf; rewrite ?Ew; cbn [negb]; try lia.
        replace (sq_of (zf t) (zr t - 1)) with e; [exact Hee|]. destruct Hzt as (A & B). rewrite A, B.
        replace (3 - 1)%Z with (zr e) by lia. symmetry. apply (coords_of_sq e He64).
      * rewrite Ewm. split; [exact Epr|]. split; [unfold mpT, pw; rewrite Et', Ewm; exact Hpawn|]. split; lia.
Qed.

(** ** the undo information *)
Lemma geo_ranks : Geo q f t -> f <> t.
Proof.
  intros G E. destruct G as [_ B | _ B _ _ | _ B]; rewrite E in B; unfold dirOf in B; destruct wmC as [Ew|Ew]; unfold wm in Ew; rewrite Ew in B; lia.
Qed.

Lemma pw_facts : isPawnPiece pw = true /\ isKingPiece pw = false /\ pw <> EMPTY /\ pw < 13 /\
  (pw =? WKING) || (pw =? BKING) = false /\ (pw =? WPAWN) || (pw =? BPAWN) = true /\ makeWhite pw = WPAWN /\
  pw = (if wm then WPAWN else BPAWN) /\ has_color wm pw = true.
Proof. unfold pw. generalize wm. intros []; repeat split; try reflexivity; discriminate. Qed.

Lemma pw_not_king : (pw =? (if wm then WKING else BKING)) = false.
Proof. unfold pw. generalize wm. intros []; reflexivity. Qed.

Lemma moving_is_pawn : RawP -> movingPieceOf q m = pw.
Proof.
  intros [_ _ _ _ [(A & B & _)|(A & (k & Hk & B) & _)]]; unfold movingPieceOf.
  - rewrite A. change (EMPTY =? EMPTY) with true. cbv iota. exact B.
  - replace (mpromote m =? EMPTY) with false.
    + fold wm. destruct pw_facts as (_ & _ & _ & _ & _ & _ & _ & E & _). symmetry. exact E.
    + symmetry. apply N.eqb_neq. rewrite A, B. cbn [In promoKinds] in Hk. generalize wm. intro b.
      destruct Hk as [<-|[<-|[<-|[<-|[]]]]]; destruct b; discriminate.
Qed.

Definition dz : Z := if wm then 8 else -8.
Definition epRow : N := if wm then 5 else 2.
Definition straight : Prop := zf f = zf t.

Inductive CandP : Prop :=
| mkCandP (captured : piece) (epFile : N) :
    u_epSquare ui = epSquareOfFile wm epFile -> In epFile (epFiles (getEpMask q m pw captured incl)) ->
    u_captured ui = captured -> captured < 13 -> has_color wm captured = false ->
    (captured <> EMPTY -> has_color (negb wm) captured = true) ->
    N.land (N.land (u_castleMask ui) (castleSqMask f)) (castleSqMask t) = castleMask q ->
    (straight -> captured = EMPTY) ->
    (~ straight -> captured = EMPTY -> Z.of_N t = u_epSquare ui) ->
    CandP.

Lemma sqX_eqb a b : a < 64 -> b < 64 -> (sqX a =? sqX b) = (zf a =? zf b)%Z.
Proof.
  intros _ _. pose proof (sqX_zf a) as A. pose proof (sqX_zf b) as B.
  destruct (N.eqb_spec (sqX a) (sqX b)) as [E|E]; destruct (Z.eqb_spec (zf a) (zf b)) as [E2|E2]; try reflexivity; exfalso; [rewrite E in A; lia | apply E; lia].
Qed.

Lemma candP : RawP -> CandP.
Proof.
  intro R. pose proof (moving_is_pawn R) as Emv. destruct R as [Hf Ht Hfe Hg Hc].
  pose proof (geo_ranks Hg) as Hft.
  destruct (proj1 (genMoves_In zk q incl um) Hin) as (Hcd & _).
  apply candidates_In in Hcd. destruct Hcd as (m' & _ & Hcd). apply candidatesFor_In in Hcd. cbv zeta in Hcd.
  destruct Hcd as (p0 & castle & epFile & Hp0 & Hv & Hca & Hepf & Hmust & Eum).
  assert (Em : m' = m) by (unfold m; rewrite Eum; reflexivity). subst m'.
  rewrite Emv in Hv, Hca, Hepf, Hmust, Eum. fold wm in Hca, Hepf, Hmust, Eum.
  set (captured := if wm then makeBlack p0 else p0) in *.
  assert (Eui : ui = mkUndo captured (N.lor (getBaseCastleMask q m pw) castle) (epSquareOfFile wm epFile) 0%Z) by (unfold ui; rewrite Eum; reflexivity).
  destruct pw_facts as (P1 & P2 & P3 & P4 & P5 & P6 & P7 & P8 & P9).
  apply (mkCandP captured epFile).
  - rewrite Eui. reflexivity.
  - exact Hepf.
  - rewrite Eui. reflexivity.
  - unfold captured. cbn [In] in Hp0. destruct Hp0 as [<-|[<-|[<-|[<-|[<-|[<-|[<-|[]]]]]]]]; destruct wm; cbv; reflexivity.
  - apply (captured_not_own q p0 Hp0).
  - intro Hne. unfold validCapturePiece in Hv.
    destruct (N.eqb_spec p0 EMPTY) as [E0|E0]; [exfalso; apply Hne; unfold captured; rewrite E0; destruct wm; reflexivity|].
    destruct (N.eqb_spec p0 WKING) as [E1'|E1']; [discriminate|].
    unfold captured. cbn [In] in Hp0. destruct Hp0 as [<-|[<-|[<-|[<-|[<-|[<-|[<-|[]]]]]]]]; try congruence; destruct wm; reflexivity.
  - rewrite Eui. cbn [u_castleMask].
    apply (castle_back q Hwf m captured pw Hf Ht Hft Hfe); [|intro Hk; rewrite P2 in Hk; discriminate|exact Hca].
    intros i Hi Hq. destruct (rights_q q Hwf i Hi Hq) as (HK & HR). fold sqsQ in HK, HR.
    destruct Hc as [(_ & B & _)|(_ & (k & Hk & B) & C)].
    + split; intro E; fold t in E; rewrite <- E in *; fold mpT in HK, HR; rewrite B in *;
        [revert HR | revert HK]; unfold rookOf, kingOf, pw; generalize wm; intros []; destruct (i <? 2); discriminate.
    + split; intro E; fold t in E.
      * rewrite <- E in HR. fold mpT in HR. rewrite B in HR. unfold lastRank in C. rewrite E in C.
        cbn [In promoKinds] in Hk.
        destruct (four_cases i Hi) as [-> | [-> | [-> | ->]]]; destruct wmC as [Ew|Ew]; rewrite Ew in HR, C;
          try (vm_compute in C; discriminate); destruct Hk as [<-|[<-|[<-|[<-|[]]]]]; discriminate.
      * rewrite <- E in HK. fold mpT in HK. rewrite B in HK. cbn [In promoKinds] in Hk. revert HK. unfold kingOf. generalize wm. intro b.
        destruct Hk as [<-|[<-|[<-|[<-|[]]]]]; destruct b; destruct (i <? 2); discriminate.
  - intro Hs. unfold straight in Hs. unfold validCapturePiece in Hv.
    destruct (N.eqb_spec p0 EMPTY) as [E0|E0]; [unfold captured; rewrite E0; destruct wm; reflexivity|]. exfalso.
    destruct (p0 =? WKING); [discriminate|]. rewrite P5, P6 in Hv. fold f t in Hv. rewrite (sqX_eqb f t Hf Ht) in Hv.
    replace (zf f =? zf t)%Z with true in Hv by (symmetry; apply Z.eqb_eq; exact Hs). cbn [negb] in Hv. discriminate.
  - intros Hns Hce. unfold mustBeEpCapture in Hmust. rewrite P7 in Hmust. fold f t in Hmust.
    rewrite (sqX_eqb f t Hf Ht) in Hmust. unfold straight in Hns.
    replace (zf f =? zf t)%Z with false in Hmust by (symmetry; apply Z.eqb_neq; exact Hns).
    rewrite Hce in Hmust. change (WPAWN =? WPAWN) with true in Hmust. change (EMPTY =? EMPTY) with true in Hmust. cbn [negb andb] in Hmust.
    apply negb_false_iff, Z.eqb_eq in Hmust. rewrite Eui. cbn [u_epSquare]. exact Hmust.
Qed.

(** ** the e.p. square of the undo information *)
Definition yDnQ : N := if wm then 4 else 3.
Definition yUpQ : N := if wm then 6 else 1.
Definition oPawnQ : piece := if wm then BPAWN else WPAWN.

Lemma ep_in captured epFile : In epFile (epFiles (getEpMask q m pw captured incl)) -> epFile <= 8 /\ (epFile < 8 ->
  let epCase := mustBeEpCapture m pw captured && (sqY t =? epRow) in
  (epCase = true -> getPiece q (mkSq (sqX t) yUpQ) = EMPTY /\ getPiece q (mkSq (sqX t) yDnQ) = EMPTY) /\
  epFileOk (epBoardBefore q m pw captured epCase (sqX t) yDnQ oPawnQ) wm epFile = true).
Proof.
  intro H.
  assert (Hm : getEpMask q m pw captured incl < 2 ^ 64).
  { apply lt_2_64_of_bits. intros i Hi. apply getEpMask_bits in Hi. lia. }
  apply (epFiles_In _ _ Hm) in H. split; [apply (getEpMask_bits _ _ _ _ _ _ H)|]. intros H8 epCase.
  unfold getEpMask in H. cbv zeta in H. fold wm t in H. fold epRow yDnQ yUpQ oPawnQ in H. fold epCase in H.
  set (x := sqX t) in *.
  assert (Hx : x < 8) by (unfold x, sqX; apply N.mod_lt; lia).
  destruct (epCase && negb _) eqn:Ebe; [rewrite N.bits_0 in H; discriminate|].
  split.
  - intro Ec. rewrite Ec in Ebe. cbn [andb] in Ebe. apply negb_false_iff, andb_true_iff in Ebe. destruct Ebe as (A & B).
    apply N.eqb_eq in A, B. auto.
  - set (M := if epCase then N.lor (if incl then 255 else 0) (bit x) else (if incl then 255 else 0)) in *.
    assert (HMb : forall i, N.testbit M i = true -> i < 8).
    { intros i Hi. unfold M in Hi. assert (H255 : N.testbit (if incl then 255 else 0) i = true -> i < 8).
      { destruct incl; [|rewrite N.bits_0; discriminate]. intro H'. destruct (N.lt_ge_cases i 8) as [A|A]; [exact A|].
        change 255 with (N.ones 8) in H'. rewrite N.ones_spec_high in H' by exact A. discriminate. }
      destruct epCase; [|apply H255; exact Hi]. rewrite N.lor_spec in Hi. apply orb_true_iff in Hi. destruct Hi as [Hi|Hi]; [apply H255; exact Hi|].
      rewrite bit_bits in Hi. apply N.eqb_eq in Hi. lia. }
    assert (HM : M < 2 ^ 64) by (apply lt_2_64_of_bits; intros i Hi; apply HMb in Hi; lia).
    destruct (negb (M =? 0)).
    + apply (epLoop_bits (epBoardBefore q m pw captured epCase x yDnQ oPawnQ) wm M (bit 8) epFile HM) in H.
      destruct H as [H|(_ & H)]; [rewrite bit_bits in H; apply N.eqb_eq in H; lia | exact H].
    + rewrite bit_bits in H. apply N.eqb_eq in H. lia.
Qed.

Lemma epSquare_file epFile : epFile <= 8 -> Z.of_N t = epSquareOfFile wm epFile -> t < 64 ->
  epFile < 8 /\ sqY t = epRow /\ sqX t = epFile.
Proof.
  intros H8 E Ht. unfold epSquareOfFile in E. destruct (N.eqb_spec epFile 8) as [E8|E8]; [lia|].
  fold epRow in E. unfold mkSq in E. assert (Hlt : epFile < 8) by lia. split; [exact Hlt|].
  assert (Et : t = epRow * 8 + epFile) by lia. unfold sqY, sqX. rewrite Et.
  split; [rewrite N.div_add_l by lia; rewrite N.div_small by lia; lia | rewrite N.add_comm, N.mod_add by lia; apply N.mod_small; exact Hlt].
Qed.

Lemma sq_rowcol s : s < 64 -> Z.of_N (sqY s) = zr s /\ Z.of_N (sqX s) = zf s /\ s = sqY s * 8 + sqX s.
Proof.
  intro H. split; [apply sqY_zr|]. split; [apply sqX_zf|]. unfold sqY, sqX. pose proof (N.div_mod s 8 ltac:(lia)). lia.
Qed.

Definition IsEp : Prop := ~ straight /\ u_captured ui = EMPTY.

Lemma ep_case : RawP -> CandP -> IsEp ->
  Z.of_N t = u_epSquare ui /\ nthP sqsQ (Z.to_N (Z.of_N t - dz)) = EMPTY /\ sqY t = epRow /\ mpromote m = EMPTY.
Proof.
  intros R C (Hns & Hce). destruct R as [Hf Ht Hfe Hg Hc]. destruct C as [captured epFile Eep Hepf Ecap Hc13 Hcol Hcol2 Hcm Hst Hep].
  rewrite Ecap in Hce. pose proof (Hep Hns Hce) as Et. split; [exact Et|].
  destruct (ep_in captured epFile Hepf) as (H8 & Hok). rewrite Eep in Et.
  destruct (epSquare_file epFile H8 Et Ht) as (Hlt & Hy & Hx).
  destruct (Hok Hlt) as (Hboth & _).
  destruct pw_facts as (P1 & P2 & P3 & P4 & P5 & P6 & P7 & P8 & P9).
  assert (Hec : mustBeEpCapture m pw captured && (sqY t =? epRow) = true).
  { unfold mustBeEpCapture. rewrite P7. fold f t. rewrite (sqX_eqb f t Hf Ht). unfold straight in Hns.
    replace (zf f =? zf t)%Z with false by (symmetry; apply Z.eqb_neq; exact Hns). rewrite Hce, Hy, !N.eqb_refl. reflexivity. }
  destruct (Hboth Hec) as (_ & Hdn). destruct (sq_rowcol t Ht) as (_ & _ & Dt).
  split; [|split; [exact Hy|]].
  - change (getPiece q (mkSq (sqX t) yDnQ)) with (nthP sqsQ (mkSq (sqX t) yDnQ)) in Hdn.
    replace (Z.to_N (Z.of_N t - dz)) with (mkSq (sqX t) yDnQ); [exact Hdn|].
    unfold mkSq, yDnQ, dz. unfold epRow in Hy. destruct wmC as [Ew|Ew]; rewrite Ew in Hy |- *; lia.
  - destruct Hc as [(A & _)|(_ & _ & Hl)]; [exact A|]. exfalso. unfold lastRank in Hl. pose proof (sqY_zr t) as Z1. rewrite Hy in Z1.
    unfold epRow in Z1. destruct wmC as [Ew|Ew]; rewrite Ew in Z1, Hl; lia.
Qed.

Lemma geo_from : RawP -> straight -> (zr t = Z.of_N epRow -> Z.of_N f = (Z.of_N t - dz)%Z).
Proof.
  intros [Hf Ht _ Hg _] Hs Hr. unfold straight in Hs.
  destruct (sq_decomp f Hf) as (Df & _). destruct (sq_decomp t Ht) as (Dt & _).
  unfold dz, epRow in *. destruct Hg as [A B|A B C _|A B]; unfold dirOf in *; fold wm in B; try fold wm in C;
    destruct wmC as [Ew|Ew]; rewrite Ew in *; lia.
Qed.

Lemma nonep_case : RawP -> CandP -> ~ IsEp -> Z.of_N t <> u_epSquare ui.
Proof.
  intros R C Hn Et. pose proof (geo_from R) as Hgf. pose proof (geo_ranks ltac:(destruct R; assumption)) as Hft.
  destruct R as [Hf Ht Hfe Hg Hc]. destruct C as [captured epFile Eep Hepf Ecap Hc13 Hcol Hcol2 Hcm Hst Hep].
  destruct (ep_in captured epFile Hepf) as (H8 & Hok). rewrite Eep in Et.
  destruct (epSquare_file epFile H8 Et Ht) as (Hlt & Hy & Hx).
  destruct (Hok Hlt) as (_ & Hfile).
  destruct pw_facts as (P1 & P2 & P3 & P4 & P5 & P6 & P7 & P8 & P9).
  assert (Hec : mustBeEpCapture m pw captured = false).
  { unfold mustBeEpCapture. rewrite P7. fold f t. rewrite (sqX_eqb f t Hf Ht).
    destruct (Z.eqb_spec (zf f) (zf t)) as [E|E]; [reflexivity|]. cbn [negb andb].
    apply N.eqb_neq. intro Ec. apply Hn. split; [exact E | rewrite Ecap; exact Ec]. }
  rewrite Hec in Hfile. cbn [andb] in Hfile.
  unfold epFileOk in Hfile. cbv zeta in Hfile. rewrite !andb_true_iff in Hfile. destruct Hfile as (((_ & Hmid) & Hdn) & _).
  apply N.eqb_eq in Hmid, Hdn. unfold epBoardBefore in Hmid, Hdn. cbv zeta iota in Hmid, Hdn. fold f t sqsQ in Hmid, Hdn.
  fold epRow in Hmid. fold yDnQ oPawnQ in Hdn.
  destruct (sq_rowcol t Ht) as (Zy & _ & Dt).
  assert (Emid : mkSq epFile epRow = t) by (unfold mkSq; rewrite <- Hx, <- Hy; lia).
  rewrite Emid in Hmid. change (boardAt ?b ?s) with (nthP b s) in Hmid, Hdn.
  rewrite nthP_updN_eq in Hmid by (rewrite length_updN, lenQ64; lia).
  (* nothing was captured, so the move is straight, and the origin is the square below the e.p. square *)
  assert (Hs : straight).
  { destruct (Z.eq_dec (zf f) (zf t)) as [E|E]; [exact E|]. exfalso. apply Hn. split; [exact E | rewrite Ecap; exact Hmid]. }
  assert (Ef : Z.of_N f = (Z.of_N t - dz)%Z) by (apply Hgf; [exact Hs | rewrite <- Zy, Hy; reflexivity]).
  assert (Edn : mkSq epFile yDnQ = f).
  { unfold mkSq, yDnQ. unfold dz in Ef. unfold epRow in Hy. rewrite <- Hx. destruct wmC as [Ew|Ew]; rewrite Ew in Hy, Ef |- *; lia. }
  rewrite Edn in Hdn. rewrite nthP_updN_neq in Hdn by (intro E; apply Hft; symmetry; exact E).
  rewrite nthP_updN_eq in Hdn by (rewrite lenQ64; lia).
  rewrite P8 in Hdn. unfold oPawnQ in Hdn. destruct wmC as [Ew|Ew]; rewrite Ew in Hdn; discriminate.
Qed.

(** ** the restored position *)
Lemma isEp_dec : IsEp \/ ~ IsEp.
Proof.
  unfold IsEp, straight. destruct (Z.eq_dec (zf f) (zf t)) as [E|E]; [right; tauto|].
  destruct (N.eq_dec (u_captured ui) EMPTY) as [E2|E2]; [left; auto | right; tauto].
Qed.

Definition tb : square := Z.to_N (Z.of_N t - dz).       (* the square of the pawn captured en passant *)
Definition board1 : list piece := updN f pw (updN t (u_captured ui) sqsQ).
Definition prevBoardP (ep : bool) : list piece := if ep then updN tb oPawnQ board1 else board1.
Definition prevScalars : bool * Z * Z * N * Z :=
  (wm, u_halfMoveClock ui, (if whiteMove q then fullMoveCounter q - 1 else fullMoveCounter q)%Z, u_castleMask ui, u_epSquare ui).

Lemma prev_StP : RawP -> CandP ->
  (IsEp -> St zk 0 (prevBoardP true) prevScalars prev) /\ (~ IsEp -> St zk 0 (prevBoardP false) prevScalars prev).
Proof.
  intros R C. pose proof (ep_case R C) as Hepc. pose proof (nonep_case R C) as Hnep.
  pose proof (moving_is_pawn R) as Emv.
  destruct R as [Hf Ht Hfe Hg Hc]. destruct C as [captured epFile Eep Hepf Ecap Hc13 Hcol Hcol2 Hcm Hst Hep].
  assert (Hcap : u_captured ui < 13) by (rewrite Ecap; exact Hc13).
  destruct pw_facts as (P1 & P2 & P3 & P4 & P5 & P6 & P7 & P8 & P9).
  unfold prev. rewrite unMakeMove_unfold.
  pose proof (St_self zk q Cq) as S0. unfold scalars in S0.
  destruct (um_restore zk m _ _ _ _ _ _ q ui S0 Hf Ht Hcap) as (E1' & S1). fold f t sqsQ in E1', S1.
  assert (Epc : (if negb (mpromote m =? EMPTY) then (if negb (whiteMove q) then WPAWN else BPAWN) else nthP sqsQ t) = pw).
  { unfold movingPieceOf in Emv. change (getPiece q (mto m)) with (nthP sqsQ t) in Emv.
    destruct (mpromote m =? EMPTY); cbn [negb]; exact Emv. }
  rewrite Epc in E1', S1. rewrite E1'. fold board1 in S1. fold wm in S1.
  destruct (St_scalars zk _ _ _ _ _ _ _ _ S1) as (Hw1 & _ & _ & _ & He1).
  rewrite um_castle_none by (left; rewrite Hw1; exact pw_not_king).
  split.
  - intro I. destruct (Hepc I) as (Et & _ & Hy & _).
    assert (Dt : t = sqY t * 8 + sqX t) by (apply (sq_rowcol t Ht)). assert (Hx : sqX t < 8) by (unfold sqX; apply N.mod_lt; lia).
    unfold prevBoardP, prevScalars, tb, dz, oPawnQ. rewrite P8. unfold epRow in Hy. fold t.
    destruct wmC as [Ew|Ew]; rewrite Ew in Hy |- *; rewrite Ew in S1.
    + replace (Z.to_N (Z.of_N t - 8)) with (t - 8) by lia.
      apply (um_epW zk m _ _ _ _ _ _ _ S1); fold t; [exact Et | lia | exact Ht].
    + replace (Z.to_N (Z.of_N t - -8)) with (t + 8) by lia.
      apply (um_epB zk m _ _ _ _ _ _ _ S1); fold t; [exact Et | lia].
  - intro I. rewrite um_ep_none; [exact S1|]. left. rewrite He1. fold t. apply Hnep. exact I.
Qed.

Lemma prev_factsP : RawP -> CandP -> exists ep : bool, (if ep then IsEp else ~ IsEp) /\
  Consistent zk prev /\ abs prev = mkSpos (prevBoardP ep) wm (u_castleMask ui) (u_epSquare ui).
Proof.
  intros R C. destruct (prev_StP R C) as (S1 & S2).
  destruct isEp_dec as [I|I]; [exists true | exists false]; (split; [exact I|]).
  - destruct (S1 I) as (Cp & Hs & Hsc). split; [exact Cp|]. unfold scalars, prevScalars in Hsc. inversion Hsc. unfold abs. rewrite Hs. reflexivity.
  - destruct (S2 I) as (Cp & Hs & Hsc). split; [exact Cp|]. unfold scalars, prevScalars in Hsc. inversion Hsc. unfold abs. rewrite Hs. reflexivity.
Qed.

(** ** making the move again *)
Definition landing : piece := if negb (mpromote m =? EMPTY) then mpromote m else pw.

Lemma landing_mpT : RawP -> landing = mpT /\ mpT <> EMPTY.
Proof.
  intros [_ _ _ _ [(A & B & _)|(A & (k & Hk & B) & _)]]; unfold landing.
  - rewrite A. change (negb (EMPTY =? EMPTY)) with false. cbv iota. split; [symmetry; exact B|]. rewrite B. apply pw_facts.
  - assert (Hne : mpT <> EMPTY).
    { rewrite B. cbn [In promoKinds] in Hk. generalize wm. intro b. destruct Hk as [<-|[<-|[<-|[<-|[]]]]]; destruct b; discriminate. }
    replace (mpromote m =? EMPTY) with false by (symmetry; apply N.eqb_neq; rewrite A; exact Hne). cbn [negb]. split; [exact A | exact Hne].
Qed.

Lemma len_board1 : length board1 = 64%nat.
Proof. unfold board1. rewrite !length_updN. exact lenQ64. Qed.

Lemma remade_boardP (ep : bool) : RawP -> CandP -> (if ep then IsEp else ~ IsEp) ->
  fst (captureA (prevBoardP ep) m pw (u_epSquare ui)) = sqsQ.
Proof.
  intros R C I. pose proof (ep_case R C) as Hepc. pose proof (nonep_case R C) as Hnep.
  destruct (landing_mpT R) as (Hland & _). pose proof (geo_ranks ltac:(destruct R; assumption)) as Hft.
  destruct R as [Hf Ht Hfe Hg Hc].
  destruct pw_facts as (P1 & P2 & P3 & P4 & P5 & P6 & P7 & P8 & P9).
  unfold captureA. cbn [fst]. fold f t. fold landing. rewrite Hland.
  pose proof len_board1 as Hl1. pose proof lenQ64 as HlQ.
  destruct ep.
  - (* en passant *)
    destruct (Hepc I) as (Et & Hbe & Hy & Hpr). destruct I as (Hns & _).
    assert (Dt : t = sqY t * 8 + sqX t) by (apply (sq_rowcol t Ht)). assert (Hx : sqX t < 8) by (unfold sqX; apply N.mod_lt; lia).
    assert (Htb : tb < 64 /\ tb <> t /\ Z.of_N tb = (Z.of_N t - dz)%Z).
    { unfold tb, dz. unfold epRow in Hy. destruct wmC as [Ew|Ew]; rewrite Ew in Hy |- *; lia. }
    destruct Htb as (Htb & Htbt & Etb).
    assert (Htbf : tb <> f).
    { intro E. apply Hns. unfold straight. destruct (sq_decomp f Hf) as (Df & _). destruct (sq_decomp t Ht) as (Dt' & _).
      rewrite E in Etb. unfold dz in Etb.
      destruct Hg as [A _|A _ _ _|A B]; try exact A. exfalso. unfold dirOf in B. fold wm in B. destruct wmC as [Ew|Ew]; rewrite Ew in Etb, B; lia. }
    assert (Hnd : (Z.of_N t =? sqPlus f (if wm then 16 else -16))%Z = false).
    { apply Z.eqb_neq. intro E. apply Hns. unfold straight, sqPlus in *. destruct (sq_decomp f Hf) as (Df & ? & ?). destruct (sq_decomp t Ht) as (Dt' & ? & ?).
      destruct wmC as [Ew|Ew]; rewrite Ew in E; lia. }
    assert (Es1 : fst (epBlockA (prevBoardP true) m pw (u_epSquare ui)) = updN tb EMPTY (prevBoardP true)).
    { unfold epBlockA. cbv zeta. fold f t. rewrite P8. unfold tb, dz. destruct wmC as [Ew|Ew]; rewrite Ew in Hnd |- *.
      - change (WPAWN =? WPAWN) with true. cbv iota. rewrite Hnd. rewrite Et, Z.eqb_refl. cbn [fst]. unfold toSq, sqPlus. f_equal. lia.
      - change (BPAWN =? WPAWN) with false. change (BPAWN =? BPAWN) with true. cbv iota. rewrite Hnd. rewrite Et, Z.eqb_refl. cbn [fst]. unfold toSq, sqPlus. f_equal. lia. }
    rewrite Es1. unfold prevBoardP, board1.
    apply list_ext_N; [rewrite !length_updN; exact HlQ | exact HlQ|].
    intros s Hs. rewrite !nthP_updN by (rewrite ?length_updN, HlQ; lia).
    destruct (N.eqb_spec s t) as [->|]; [reflexivity|].
    destruct (N.eqb_spec s f) as [->|]; [symmetry; exact Hfe|].
    destruct (N.eqb_spec s tb) as [->|]; [symmetry; unfold tb; exact Hbe | reflexivity].
  - assert (Es1 : fst (epBlockA (prevBoardP false) m pw (u_epSquare ui)) = prevBoardP false).
    { unfold epBlockA. cbv zeta. fold f t. rewrite P8.
      replace (Z.of_N t =? u_epSquare ui)%Z with false by (symmetry; apply Z.eqb_neq; apply Hnep; exact I).
      destruct wmC as [Ew|Ew]; rewrite Ew.
      - change (WPAWN =? WPAWN) with true. cbv iota. destruct (_ =? _)%Z; reflexivity.
      - change (BPAWN =? WPAWN) with false. change (BPAWN =? BPAWN) with true. cbv iota. destruct (_ =? _)%Z; reflexivity. }
    rewrite Es1. unfold prevBoardP, board1.
    apply list_ext_N; [rewrite !length_updN; exact HlQ | exact HlQ|].
    intros s Hs. rewrite !nthP_updN by (rewrite ?length_updN, HlQ; lia).
    destruct (N.eqb_spec s t) as [->|]; [reflexivity|].
    destruct (N.eqb_spec s f) as [->|]; [symmetry; exact Hfe | reflexivity].
Qed.

Lemma prevBoard_ft (ep : bool) : RawP -> CandP -> (if ep then IsEp else ~ IsEp) ->
  nthP (prevBoardP ep) f = pw /\ nthP (prevBoardP ep) t = u_captured ui /\ length (prevBoardP ep) = 64%nat.
Proof.
  intros R C I. pose proof (ep_case R C) as Hepc. pose proof (geo_ranks ltac:(destruct R; assumption)) as Hft.
  destruct R as [Hf Ht Hfe Hg Hc]. pose proof lenQ64 as HlQ.
  assert (B1 : nthP board1 f = pw /\ nthP board1 t = u_captured ui).
  { unfold board1. rewrite !nthP_updN by (rewrite ?length_updN, HlQ; lia). rewrite N.eqb_refl.
    replace (t =? f) with false by (symmetry; apply N.eqb_neq; intro E; apply Hft; symmetry; exact E). rewrite N.eqb_refl. auto. }
  destruct ep; unfold prevBoardP; [|split; [apply B1 | split; [apply B1 | apply len_board1]]].
  destruct (Hepc I) as (Et & Hbe & Hy & Hpr). destruct I as (Hns & _).
  assert (Dt : t = sqY t * 8 + sqX t) by (apply (sq_rowcol t Ht)). assert (Hx : sqX t < 8) by (unfold sqX; apply N.mod_lt; lia).
  assert (Htb : tb < 64 /\ tb <> t /\ Z.of_N tb = (Z.of_N t - dz)%Z).
  { unfold tb, dz. unfold epRow in Hy. destruct wmC as [Ew|Ew]; rewrite Ew in Hy |- *; lia. }
  destruct Htb as (Htb & Htbt & Etb).
  assert (Htbf : tb <> f).
  { intro E. apply Hns. unfold straight. destruct (sq_decomp f Hf) as (Df & _). destruct (sq_decomp t Ht) as (Dt' & _).
    rewrite E in Etb. unfold dz in Etb.
    destruct Hg as [A _|A _ _ _|A B]; try exact A. exfalso. unfold dirOf in B. fold wm in B. destruct wmC as [Ew|Ew]; rewrite Ew in Etb, B; lia. }
  rewrite !nthP_updN by (rewrite ?length_updN, len_board1; lia).
  replace (f =? tb) with false by (symmetry; apply N.eqb_neq; intro E; apply Htbf; symmetry; exact E).
  replace (t =? tb) with false by (symmetry; apply N.eqb_neq; intro E; apply Htbt; symmetry; exact E).
  split; [apply B1 | split; [apply B1 | rewrite length_updN; apply len_board1]].
Qed.

Lemma ep_remade : epSquare (successor zk prev m) = epSquare q.
Proof.
  destruct (consistent_partial zk q incl um Hin) as (_ & _ & _ & _ & Hst' & Hrem).
  assert (E : kiRemade zk (fst (canTakeKing zk (unMakeMove zk q (um_move um) (um_ui um)))) (um_move um) = successor zk prev m).
  { unfold kiRemade, successor. rewrite canTakeKing_fst. rewrite (fixup_stable zk _ Hst'). reflexivity. }
  rewrite <- E. exact Hrem.
Qed.

Lemma makeA_P (ep : bool) : RawP -> CandP -> (if ep then IsEp else ~ IsEp) ->
  exists e, makeA (mkSpos (prevBoardP ep) wm (u_castleMask ui) (u_epSquare ui)) m = mkSpos sqsQ (whiteMove q) (castleMask q) e.
Proof.
  intros R C I. destruct (prevBoard_ft ep R C I) as (Bf & Bt & Bl). pose proof (remade_boardP ep R C I) as Hb.
  destruct C as [captured epFile Eep Hepf Ecap Hc13 Hcol Hcol2 Hcm Hst Hep].
  exists (snd (captureA (prevBoardP ep) m pw (u_epSquare ui))).
  unfold makeA. cbn [sp_board sp_white sp_castle sp_ep].
  assert (Hcb : isCaptureBranch (prevBoardP ep) m = true).
  { unfold isCaptureBranch. fold f t. rewrite Bf. destruct pw_facts as (P1 & _). rewrite P1. apply orb_true_r. }
  rewrite Hcb. fold f t. rewrite Bf, Hb, Hcm. unfold wm. rewrite negb_involutive. reflexivity.
Qed.

Theorem roundtripP : RawP -> CandP -> Consistent zk prev /\ abs (successor zk prev m) = abs q.
Proof.
  intros R C. destruct (prev_factsP R C) as (ep & I & Cp & Ha). split; [exact Cp|].
  destruct (makeA_P ep R C I) as (e & HA).
  assert (Hf : f < 64) by (destruct R; assumption).
  pose proof (makeMove_abs zk prev m Cp Hf) as Hm.
  assert (Hm' : abs (fst (makeMove zk prev m)) = mkSpos sqsQ (whiteMove q) (castleMask q) e) by (rewrite Hm, Ha; exact HA).
  pose proof ep_remade as Hrem. unfold successor in Hrem |- *.
  destruct (fixup_frame zk (fst (makeMove zk prev m))) as (F1 & _ & F3 & _).
  pose proof (squares_fixup zk (fst (makeMove zk prev m))) as F0.
  revert Hm' Hrem F1 F3 F0. generalize (fst (makeMove zk prev m)). intros X Hm' Hrem F1 F3 F0.
  unfold abs in Hm' |- *. rewrite F0, F1, F3, Hrem. injection Hm' as -> -> -> _. reflexivity.
Qed.

(** ** legality by the FIDE rules *)
Lemma isEp_iff : RawP -> CandP -> (IsEp <-> ~ straight /\ u_captured ui = EMPTY).
Proof. intros _ _. unfold IsEp. tauto. Qed.

Theorem pseudoP (ep : bool) : RawP -> CandP -> (if ep then IsEp else ~ IsEp) ->
  In m (pseudo_moves (mkSpos (prevBoardP ep) wm (u_castleMask ui) (u_epSquare ui))).
Proof.
  intros R C I. destruct (prevBoard_ft ep R C I) as (Bf & Bt & Bl).
  pose proof (ep_case R C) as Hepc. pose proof (geo_ranks ltac:(destruct R; assumption)) as Hft.
  destruct R as [Hf Ht Hfe Hg Hc]. destruct C as [captured epFile Eep Hepf Ecap Hc13 Hcol Hcol2 Hcm Hst Hep].
  set (pb := prevBoardP ep) in *.
  assert (Hat : forall s, s < 64 -> at_ pb (zf s) (zr s) = nthP pb s).
  { intros s Hs. destruct (coords_of_sq s Hs) as (Hob & Hi & _). unfold at_, nthP. rewrite Hob, Hi. reflexivity. }
  destruct (coords_of_sq f Hf) as (Hobf & _ & Hsf). destruct (coords_of_sq t Ht) as (Hobt & _ & Hst').
  destruct (sq_decomp t Ht) as (Dt & Dt1 & Dt2). destruct (sq_decomp f Hf) as (Df & Df1 & Df2).
  destruct pw_facts as (P1 & P2 & P3 & P4 & P5 & P6 & P7 & P8 & P9).
  assert (Htc : forall fx', fx' = zf t -> zr t = (zr f + dirOf wm)%Z ->
            on_board fx' (zr f + dirOf wm) = true /\ at_ pb fx' (zr f + dirOf wm) = u_captured ui /\ sq_of fx' (zr f + dirOf wm) = t).
  { intros fx' -> E. rewrite <- E. split; [exact Hobt|]. split; [rewrite (Hat t Ht); exact Bt | exact Hst']. }
  assert (Hm : forall fx' r', sq_of fx' r' = t -> m = mv (zf f) (zr f) fx' r' (mpromote m)).
  { intros fx' r' E. unfold mv. rewrite Hsf, E. apply move_eta. }
  (* promotion or not, by the rank of the target *)
  assert (Harr : forall fx', sq_of fx' (zr f + dirOf wm) = t -> zr t = (zr f + dirOf wm)%Z ->
            In m (pawn_arrive wm (zf f) (zr f) fx' (zr f + dirOf wm))).
  { intros fx' E Er. apply pawn_arrive_In. rewrite <- Er.
    destruct Hc as [(A & _ & B & _)|(A & (k & Hk & B) & Cl)].
    - right. split; [unfold lastRank; destruct wmC as [Ew|Ew]; rewrite Ew; lia|]. rewrite Er, <- A. apply Hm. exact E.
    - left. split; [exact Cl|]. exists k. split; [exact Hk|]. rewrite <- B, <- A, Er. apply Hm. exact E. }
  unfold pseudo_moves. apply in_app_iff. left. apply in_flat_map. exists (zf f, zr f). split; [apply all_coords_on_board; exact Hobf|].
  cbn [fst snd].
  apply (piece_moves_In _ (zf f) (zr f) m).
  { cbn [sp_board]. rewrite (Hat f Hf), Bf. lia. }
  cbn [sp_board sp_white]. rewrite (Hat f Hf), Bf. right. right. right. right. right. split; [exact pw_mk|].
  apply pawn_moves_In. cbn [sp_board sp_white sp_ep].
  destruct Hg as [A B | A B Cr Hmid | A B].
  - (* single step *)
    left. assert (Er : zr t = (zr f + dirOf wm)%Z) by (fold wm in B; lia).
    destruct (Htc (zf f) A Er) as (T1 & T2 & T3). unfold S_push1. split; [exact T1|]. split; [rewrite T2, Ecap; apply Hst; exact A|].
    apply Harr; assumption.
  - (* double step *)
    right. left. fold wm in B, Cr, Hmid.
    assert (Hns : ep = false).
    { destruct ep; [|reflexivity]. exfalso. destruct I as (Hns & _). apply Hns. exact A. }
    assert (Hpr : mpromote m = EMPTY).
    { destruct Hc as [(X & _)|(_ & _ & Cl)]; [exact X|]. exfalso. unfold lastRank in Cl. destruct wmC as [Ew|Ew]; rewrite Ew in Cl, Cr; lia. }
    assert (Hobm : on_board (zf f) (zr f + dirOf wm) = true).
    { unfold on_board in *. rewrite !andb_true_iff, !Z.leb_le in *. unfold dirOf in *. destruct wmC as [Ew|Ew]; rewrite Ew in *; lia. }
    destruct (sq_of_coords _ _ Hobm) as (Mid64 & Mf & Mr & _).
    unfold S_push2. split; [exact Hobm|]. split; [|split; [|split]].
    + set (mid := sq_of (zf f) (zr f + dirOf wm)) in *.
      replace (zf f) with (zf mid) by exact Mf. rewrite <- Mr. rewrite (Hat mid Mid64).
      replace (sq_of (zf t) (zr t - dirOf wm)) with mid in Hmid by (unfold mid; f_equal; lia).
      unfold pb. rewrite Hns. unfold prevBoardP, board1.
      assert (mid <> f /\ mid <> t).
      { destruct (sq_decomp mid Mid64) as (Dm & _). unfold dirOf in *. destruct wmC as [Ew|Ew]; rewrite Ew in *; split; intro E; rewrite E in *; lia. }
      rewrite !nthP_updN_neq by (intro E; symmetry in E; tauto). exact Hmid.
    + unfold startRank. destruct wmC as [Ew|Ew]; rewrite Ew in Cr, B |- *; unfold dirOf in B; lia.
    + replace (zr f + dirOf wm + dirOf wm)%Z with (zr t) by lia. rewrite A, (Hat t Ht), Bt, Ecap. apply Hst. exact A.
    + replace (zr f + dirOf wm + dirOf wm)%Z with (zr t) by lia. rewrite <- Hpr. apply Hm. rewrite A. exact Hst'.
  - (* capture *)
    fold wm in B. assert (Er : zr t = (zr f + dirOf wm)%Z) by lia.
    assert (Hns : ~ straight) by (unfold straight; lia).
    assert (Hcapt : forall fx', fx' = zf t -> S_capture pb wm (u_epSquare ui) (zf f) (zr f) fx' m).
    { intros fx' Efx. destruct (Htc fx' Efx Er) as (T1 & T2 & T3). unfold S_capture. split; [exact T1|]. rewrite T2, T3.
      destruct (N.eq_dec captured EMPTY) as [Ece|Ece].
      - right. rewrite Ecap, Ece. split; [generalize wm; intros []; reflexivity|]. split; [apply Hep; assumption|]. split; [reflexivity|].
        assert (Ie : IsEp) by (split; [exact Hns | rewrite Ecap; exact Ece]).
        destruct (Hepc Ie) as (_ & _ & _ & Hpr). rewrite <- Hpr. apply Hm. exact T3.
      - left. rewrite Ecap. split; [apply Hcol2; exact Ece|]. apply Harr; assumption. }
    destruct A as [A|A]; [right; right; right; apply Hcapt; lia | right; right; left; apply Hcapt; lia].
Qed.

Lemma make_specP (ep : bool) : RawP -> CandP -> (if ep then IsEp else ~ IsEp) ->
  sp_board (make_spec (mkSpos (prevBoardP ep) wm (u_castleMask ui) (u_epSquare ui)) m) = sqsQ.
Proof.
  intros R C I. destruct (prevBoard_ft ep R C I) as (Bf & Bt & Bl).
  pose proof (ep_case R C) as Hepc. pose proof (geo_ranks ltac:(destruct R; assumption)) as Hft.
  destruct (landing_mpT R) as (Hland & _).
  destruct R as [Hf Ht Hfe Hg Hc]. destruct C as [captured epFile Eep Hepf Ecap Hc13 Hcol Hcol2 Hcm Hst Hep].
  pose proof lenQ64 as HlQ. pose proof len_board1 as Hl1.
  rewrite (make_spec_board _ m Hf Ht). cbv zeta. cbn [sp_board sp_white]. fold f t.
  change (nth (N.to_nat f) (prevBoardP ep) EMPTY) with (nthP (prevBoardP ep) f).
  change (nth (N.to_nat t) (prevBoardP ep) EMPTY) with (nthP (prevBoardP ep) t). rewrite Bf, Bt.
  replace (is_piece wm King pw) with false by (unfold pw; generalize wm; intros []; reflexivity).
  replace (is_piece wm Pawn pw) with true by (unfold pw; generalize wm; intros []; reflexivity).
  cbn [andb].
  assert (Eland : (if mpromote m =? EMPTY then pw else mpromote m) = mpT).
  { rewrite <- Hland. unfold landing. destruct (mpromote m =? EMPTY); reflexivity. }
  rewrite Eland.
  destruct ep.
  - destruct (Hepc I) as (Et & Hbe & Hy & Hpr). destruct I as (Hns & Hce).
    replace (zf t =? zf f)%Z with false by (symmetry; apply Z.eqb_neq; intro E; apply Hns; unfold straight; lia).
    rewrite Hce. change (EMPTY =? EMPTY) with true. cbn [negb andb].
    assert (Dt : t = sqY t * 8 + sqX t) by (apply (sq_rowcol t Ht)). assert (Hx : sqX t < 8) by (unfold sqX; apply N.mod_lt; lia).
    assert (Htb : tb < 64 /\ tb <> t /\ Z.of_N tb = (Z.of_N t - dz)%Z).
    { unfold tb, dz. unfold epRow in Hy. destruct wmC as [Ew|Ew]; rewrite Ew in Hy |- *; lia. }
    destruct Htb as (Htb & Htbt & Etb).
    assert (Esq : sq_of (zf t) (zr f) = tb).
    { destruct (sq_decomp tb Htb) as (Db & Db1 & Db2). destruct (sq_decomp t Ht) as (Dt' & Dt1 & Dt2). destruct (sq_decomp f Hf) as (Df & Df1 & Df2).
      assert (Hzr : zr f = (zr t - dirOf wm)%Z) by (destruct Hg as [A B|A B _ _|A B]; fold wm in B; try exact B; exfalso; apply Hns; exact A).
      assert (zf tb = zf t /\ zr tb = zr f).
      { unfold dz in Etb. unfold dirOf in Hzr. destruct wmC as [Ew|Ew]; rewrite Ew in Etb, Hzr; lia. }
      destruct H as (X1 & X2). rewrite <- X1, <- X2. apply (coords_of_sq tb Htb). }
    rewrite Esq. unfold prevBoardP, board1.
    apply list_ext_N; [rewrite !length_updN; exact HlQ | exact HlQ|].
    intros s Hs. rewrite !nthP_updN by (rewrite ?length_updN, HlQ; lia).
    destruct (N.eqb_spec s t) as [->|]; [reflexivity|].
    destruct (N.eqb_spec s tb) as [->|]; [symmetry; unfold tb; exact Hbe|].
    destruct (N.eqb_spec s f) as [->|]; [symmetry; exact Hfe | reflexivity].
  - assert (His : negb (zf t =? zf f)%Z && (u_captured ui =? EMPTY) = false).
    { destruct (Z.eqb_spec (zf t) (zf f)) as [E|E]; [reflexivity|]. cbn [negb andb]. apply N.eqb_neq. intro Ece. apply I.
      split; [unfold straight; lia | exact Ece]. }
    rewrite His. unfold prevBoardP, board1.
    apply list_ext_N; [rewrite !length_updN; exact HlQ | exact HlQ|].
    intros s Hs. rewrite !nthP_updN by (rewrite ?length_updN, HlQ; lia).
    destruct (N.eqb_spec s t) as [->|]; [reflexivity|].
    destruct (N.eqb_spec s f) as [->|]; [symmetry; exact Hfe | reflexivity].
Qed.

(** C15_consistent_statement for pawn un-moves and un-promotions *)
Theorem consistent_pawnlike :
  Consistent zk prev /\ legal_spec (abs prev) m /\ abs (successor zk prev m) = abs q.
Proof.
  pose proof rawP as R. pose proof (candP R) as C.
  destruct (roundtripP R C) as (Cp & Hrt). split; [exact Cp|]. split; [|exact Hrt].
  destruct (prev_factsP R C) as (ep & I & _ & Ha). unfold legal_spec. rewrite Ha. split; [apply (pseudoP ep R C I)|].
  rewrite (make_specP ep R C I). cbn [sp_white].
  destruct (WF_parts q Hwf) as (_ & _ & _ & _ & Hacc). destruct (accepted_parts _ Hacc) as (_ & _ & _ & _ & Hck & _).
  cbn [abs sp_board sp_white] in Hck. exact Hck.
Qed.

End PawnCons.
