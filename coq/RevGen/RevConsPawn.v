(** C15 proofs, part 13: consistency for pawn un-moves (single and double step, capture, en-passant capture)
    and un-promotions.  The shape of the raw reverse moves, the undo information that survives the
    tests of genMoves, the restored position, making the move again, legality by the FIDE rules. *)
From Coq Require Import ZArith NArith List Bool Lia.
From Texel Require Import Chess.Types Chess.Position Chess.PositionSpec Chess.PositionFacts
  Chess.PositionProofs Chess.PositionProofs2 Chess.PositionProofs3 Chess.PositionProofs4 Chess.PositionTheorems
  Chess.PositionSources Chess.Fen Chess.Spec Chess.BitBoard Chess.MoveGen Chess.MoveGenWF Chess.MoveGenProofs
  Chess.BitBoardProofs Chess.RayProofs Chess.SliderProofs Chess.AttackProofs Chess.PawnProofs Chess.PseudoProofs
  Chess.MakeSpecProofs gen.BitBoardTables
  RevGen.RevGen RevGen.RevFacts RevGen.RevAbs RevGen.RevRestore RevGen.RevValid RevGen.RevCand RevGen.RevRaw RevGen.RevLegal
  RevGen.RevPawn RevGen.RevCons RevGen.RevNoDup.
Import ListNotations.
Local Open Scope N_scope.

(** * the origin squares of a pawn un-move *)
Section Geo.
Variable q : position.
Hypothesis BO : BoardOK q.
Let wm := negb (whiteMove q).
Let occ := occupiedBB q.
Let sqsQ := squares q.
Let dQ : Z := dirOf wm.

Inductive Geo (f t : square) : Prop :=
| G_push : zf f = zf t -> zr f = (zr t - dQ)%Z -> Geo f t
| G_double : zf f = zf t -> zr f = (zr t - 2 * dQ)%Z -> zr t = (if wm then 3 else 4)%Z ->
             nthP sqsQ (sq_of (zf t) (zr t - dQ)) = EMPTY -> Geo f t
| G_diag : (zf f = zf t - 1 \/ zf f = zf t + 1)%Z -> zr f = (zr t - dQ)%Z -> Geo f t.

Lemma wmG : wm = true \/ wm = false.
Proof. unfold wm. destruct (whiteMove q); auto. Qed.

Lemma occ_empty s : s < 64 -> N.testbit occ s = false -> nthP sqsQ s = EMPTY.
Proof.
  intros Hs H. unfold occ in H. rewrite (occupied_testbit_B q s BO) in H.
  replace (s <? 64) with true in H by (symmetry; apply N.ltb_lt; exact Hs). cbn [andb] in H.
  apply negb_false_iff, N.eqb_eq in H. exact H.
Qed.

Lemma sq_of_zf_zr s : s < 64 -> sq_of (zf s) (zr s) = s.
Proof. intro H. apply (coords_of_sq s H). Qed.

(** one rank behind, same file *)
Lemma behind_coords (t : square) k : t < 64 -> (0 <= Z.of_N t - k * 8 < 64)%Z ->
  let s := Z.to_N (Z.of_N t - k * 8) in s < 64 /\ zf s = zf t /\ zr s = (zr t - k)%Z.
Proof.
  intros Ht Hr s. assert (Hs : s < 64) by (unfold s; lia). split; [exact Hs|].
  destruct (sq_decomp t Ht) as (A & B & C). destruct (sq_decomp s Hs) as (A' & B' & C').
  assert (Es : Z.of_N s = (Z.of_N t - k * 8)%Z) by (unfold s; lia). lia.
Qed.

(** the diagonal part: step_rel of the opposite pawn's attack table *)
Lemma diag_coords (f t : square) : f < 64 -> t < 64 ->
  N.testbit (if wm then bPawnAttacks t else wPawnAttacks t) f = true ->
  (zf f = zf t - 1 \/ zf f = zf t + 1)%Z /\ zr f = (zr t - dQ)%Z.
Proof.
  intros Hf Ht H. unfold dQ, dirOf. destruct wmG as [E|E]; rewrite E in H |- *.
  - destruct (bPawnAttacks_spec t Ht) as (_ & Hs). rewrite (Hs f Hf) in H. unfold step_rel, bpawn_offsets in H.
    cbn [existsb fst snd] in H. rewrite orb_false_r in H. apply orb_true_iff in H.
    destruct H as [H|H]; apply andb_true_iff in H; destruct H as (A & B); apply Z.eqb_eq in A, B; lia.
  - destruct (wPawnAttacks_spec t Ht) as (_ & Hs). rewrite (Hs f Hf) in H. unfold step_rel, wpawn_offsets in H.
    cbn [existsb fst snd] in H. rewrite orb_false_r in H. apply orb_true_iff in H.
    destruct H as [H|H]; apply andb_true_iff in H; destruct H as (A & B); apply Z.eqb_eq in A, B; lia.
Qed.

(** straight or diagonal, one step: the mask of the un-promotions and the first part of the pawn mask *)
Lemma step_mask_shape (f t : square) : t < 64 -> (if wm then 8 <= t else t < 56) ->
  N.testbit (if wm then N.lor (bPawnAttacks t) (bitAt t (-8)) else N.lor (wPawnAttacks t) (bitAt t 8)) f = true ->
  f < 64 /\ ((zf f = zf t /\ zr f = (zr t - dQ)%Z) \/ ((zf f = zf t - 1 \/ zf f = zf t + 1)%Z /\ zr f = (zr t - dQ)%Z)).
Proof.
  intros Ht Hr H. destruct (row_facts t Ht) as (_ & _ & Lb & Lw).
  unfold dQ, dirOf. destruct wmG as [E|E]; rewrite E in H, Hr |- *; rewrite N.lor_spec in H; apply orb_true_iff in H; destruct H as [H|H].
  - assert (Hf : f < 64) by (apply (bits_below_64 _ Lb f H)). split; [exact Hf|]. right.
    pose proof (diag_coords f t Hf Ht) as D. rewrite E in D. unfold dQ, dirOf in D. rewrite E in D. apply D. exact H.
  - unfold bitAt, sqAdd in H. rewrite bit_bits in H. apply N.eqb_eq in H.
    destruct (behind_coords t 1 Ht ltac:(lia)) as (A & B & C).
    replace (Z.to_N (Z.of_N t - 1 * 8)) with f in A, B, C by (rewrite <- H; f_equal; lia). split; [exact A|]. left. split; [exact B | lia].
  - assert (Hf : f < 64) by (apply (bits_below_64 _ Lw f H)). split; [exact Hf|]. right.
    pose proof (diag_coords f t Hf Ht) as D. rewrite E in D. unfold dQ, dirOf in D. rewrite E in D. apply D. exact H.
  - unfold bitAt, sqAdd in H. rewrite bit_bits in H. apply N.eqb_eq in H.
    destruct (behind_coords t (-1) Ht ltac:(lia)) as (A & B & C).
    replace (Z.to_N (Z.of_N t - -1 * 8)) with f in A, B, C by (rewrite <- H; f_equal; lia). split; [exact A|]. left. split; [exact B | lia].
Qed.

Theorem fromMask_shape (f t : square) : 8 <= t < 56 ->
  N.testbit (revPawnFromMask wm occ t) f = true ->
  f < 64 /\ nthP sqsQ f = EMPTY /\ zr f <> (if wm then 0 else 7)%Z /\ Geo f t.
Proof.
  intros Hr H. assert (Ht : t < 64) by lia.
  unfold revPawnFromMask, andn in H. cbv zeta in H. rewrite N.ldiff_spec in H. apply andb_true_iff in H.
  destruct H as (Hm & Ho). apply negb_true_iff in Ho.
  assert (Hmain : N.testbit (if wm then N.ldiff (N.lor (bPawnAttacks t) (bitAt t (-8))) maskRow1
                             else N.ldiff (N.lor (wPawnAttacks t) (bitAt t 8)) maskRow8) f = true ->
                  f < 64 /\ nthP sqsQ f = EMPTY /\ zr f <> (if wm then 0 else 7)%Z /\ Geo f t).
  { intro Hb.
    assert (Hb' : N.testbit (if wm then N.lor (bPawnAttacks t) (bitAt t (-8)) else N.lor (wPawnAttacks t) (bitAt t 8)) f = true /\
                  N.testbit (if wm then maskRow1 else maskRow8) f = false).
    { destruct wmG as [E|E]; rewrite E in Hb |- *; rewrite N.ldiff_spec in Hb; apply andb_true_iff in Hb; destruct Hb as (A & B);
        apply negb_true_iff in B; auto. }
    destruct Hb' as (Hs & Hrow).
    destruct (step_mask_shape f t Ht ltac:(destruct wmG as [E|E]; rewrite E; lia) Hs) as (Hf & Hg).
    split; [exact Hf|]. split; [apply (occ_empty f Hf Ho)|]. split.
    - destruct (row_facts f Hf) as (R1 & R8 & _). destruct wmG as [E|E]; rewrite E in Hrow |- *.
      + rewrite R1 in Hrow. apply Z.eqb_neq in Hrow. exact Hrow.
      + rewrite R8 in Hrow. apply Z.eqb_neq in Hrow. exact Hrow.
    - destruct Hg as [(A & B)|(A & B)]; [apply G_push | apply G_diag]; assumption. }
  destruct (sqY t =? (if wm then 3 else 4)) eqn:Ey; [|apply Hmain; exact Hm].
  destruct (N.land (bitAt t (if wm then -8 else 8)%Z) occ =? 0) eqn:Emid; [|apply Hmain; exact Hm].
  rewrite N.lor_spec in Hm. apply orb_true_iff in Hm. destruct Hm as [Hm|Hm]; [apply Hmain; exact Hm|].
  (* the double step *)
  apply N.eqb_eq in Ey. pose proof (sqY_zr t) as Hy. rewrite Ey in Hy.
  unfold bitAt in Emid. rewrite land_bit_0 in Emid. apply negb_true_iff in Emid.
  unfold bitAt, sqAdd in Hm. rewrite bit_bits in Hm. apply N.eqb_eq in Hm.
  destruct (sq_decomp t Ht) as (Dt & Dt1 & Dt2).
  unfold dQ, dirOf. destruct wmG as [E|E]; rewrite E in Hy, Hm, Emid |- *.
  - destruct (behind_coords t 2 Ht ltac:(lia)) as (A & B & C).
    replace (Z.to_N (Z.of_N t - 2 * 8)) with f in A, B, C by (rewrite <- Hm; f_equal; lia).
    destruct (behind_coords t 1 Ht ltac:(lia)) as (A1' & B1 & C1').
    split; [exact A|]. split; [apply (occ_empty f A Ho)|]. split; [lia|].
    apply G_double; unfold dQ, dirOf; rewrite ?E; try lia. rewrite <- B1. replace (zr t - 1)%Z with (zr (Z.to_N (Z.of_N t - 1 * 8))) by lia.
    rewrite (sq_of_zf_zr _ A1'). apply (occ_empty _ A1'). unfold sqAdd in Emid.
    replace (Z.to_N (Z.of_N t - 1 * 8)) with (Z.to_N (Z.of_N t + -8)) by (f_equal; lia). exact Emid.
  - destruct (behind_coords t (-2) Ht ltac:(lia)) as (A & B & C).
    replace (Z.to_N (Z.of_N t - -2 * 8)) with f in A, B, C by (rewrite <- Hm; f_equal; lia).
    destruct (behind_coords t (-1) Ht ltac:(lia)) as (A1' & B1 & C1').
    split; [exact A|]. split; [apply (occ_empty f A Ho)|]. split; [lia|].
    apply G_double; unfold dQ, dirOf; rewrite ?E; try lia. rewrite <- B1. replace (zr t - -1)%Z with (zr (Z.to_N (Z.of_N t - -1 * 8))) by lia.
    rewrite (sq_of_zf_zr _ A1'). apply (occ_empty _ A1'). unfold sqAdd in Emid.
    replace (Z.to_N (Z.of_N t - -1 * 8)) with (Z.to_N (Z.of_N t + 8)) by (f_equal; lia). exact Emid.
Qed.

End Geo.

(** * the raw reverse moves of pawns and the un-promotions *)
Section Shape.
Variable q : position.
Hypothesis Hwf : WF q.
Let BO := WF_BoardOK q Hwf.
Let wm := negb (whiteMove q).
Let occ := occupiedBB q.
Let sqsQ := squares q.
Let pw : piece := myPiece wm WPAWN.

Lemma myPiece_notpawn X : In X [WQUEEN; WROOK; WBISHOP; WKNIGHT; WKING] -> isPawnPiece (myPiece wm X) = false.
Proof. intro H. cbn [In] in H. generalize wm. intro b. destruct H as [<-|[<-|[<-|[<-|[<-|[]]]]]]; destruct b; reflexivity. Qed.

Lemma inner_not_pawn m :
  In m (revKingBlock wm q (revKnightBlock wm q (revBishopBlock wm q (revRookBlock wm q (revQueenBlock wm q []))))) ->
  mpromote m = EMPTY /\ isPawnPiece (getPiece q (mto m)) = false.
Proof.
  intro H.
  apply (kingBlock_shape q BO (king_exists q _ Hwf)) in H. destruct H as [H|[((A & _ & B & _) & _)|(k0 & kSq & -> & _ & _ & Hk)]].
  2:{ split; [exact A | rewrite B; apply myPiece_notpawn; cbn; tauto]. }
  2:{ cbn [mpromote mto]. split; [reflexivity|]. unfold isKingPiece in Hk. unfold isPawnPiece.
      apply orb_true_iff in Hk. destruct Hk as [Hk|Hk]; apply N.eqb_eq in Hk; rewrite Hk; reflexivity. }
  apply (knightBlock_shape q BO) in H. destruct H as [H|(A & _ & B & _)]; [|split; [exact A | rewrite B; apply myPiece_notpawn; cbn; tauto]].
  apply (bishopBlock_shape q BO) in H. destruct H as [H|(A & _ & B & _)]; [|split; [exact A | rewrite B; apply myPiece_notpawn; cbn; tauto]].
  apply (rookBlock_shape q BO) in H. destruct H as [H|((A & _ & B & _) & _)]; [|split; [exact A | rewrite B; apply myPiece_notpawn; cbn; tauto]].
  apply (queenBlock_shape q BO) in H. destruct H as [[]|(A & _ & B & _)]. split; [exact A | rewrite B; apply myPiece_notpawn; cbn; tauto].
Qed.

Lemma pawnBlock_full l m : In m (revPawnBlock wm q l) ->
  In m l \/ (mpromote m = EMPTY /\ mto m < 64 /\ getPiece q (mto m) = pw /\ N.testbit (revPawnFromMask wm occ (mto m)) (mfrom m) = true).
Proof.
  unfold revPawnBlock. cbv zeta. intro H.
  apply (proj1 (revLoopW_In (fun sq => revPawnFromMask wm (occupiedBB q) sq) (fun _ => EMPTY) (fun _ => false) _ l m
                  (BoardOK_ptBB_lt q _ BO (myPiece_codes wm WPAWN ltac:(cbn; tauto))))) in H.
  destruct H as [H|(sq & Hs & _ & H)]; [left; exact H|]. right.
  rewrite (BoardOK_ptBB q _ sq BO) in Hs by (apply myPiece_codes; cbn; tauto).
  apply andb_true_iff in Hs. destruct Hs as (Hs64 & Hs). apply N.ltb_lt in Hs64. apply N.eqb_eq in Hs.
  assert (Hmask : revPawnFromMask wm (occupiedBB q) sq < 2 ^ 64).
  { apply (pawnMask_lt q Hwf sq). rewrite (BoardOK_ptBB q _ sq BO) by (apply myPiece_codes; cbn; tauto).
    apply andb_true_iff. split; [apply N.ltb_lt; exact Hs64 | apply N.eqb_eq; exact Hs]. }
  apply (revAdd_In [] _ sq EMPTY m Hmask) in H. destruct H as [[]|(s0 & Hb & ->)]. cbn [mpromote mto mfrom]. auto.
Qed.

Definition promoStep (sq : square) : N :=
  if wm then N.lor (bPawnAttacks sq) (bitAt sq (-8)) else N.lor (wPawnAttacks sq) (bitAt sq 8).

Lemma wmS : wm = true \/ wm = false.
Proof. unfold wm. destruct (whiteMove q); auto. Qed.

Lemma lastRank_range sq : sq < 64 -> N.testbit (if wm then maskRow8 else maskRow1) sq = true ->
  zr sq = lastRank wm /\ (if wm then 8 <= sq else sq < 56).
Proof.
  intros Hs H. destruct (row_facts sq Hs) as (R1 & R8 & _). destruct (sq_decomp sq Hs) as (D & D1 & D2).
  unfold lastRank. destruct wmS as [E|E]; rewrite E in H |- *.
  - rewrite R8 in H. apply Z.eqb_eq in H. split; [exact H | lia].
  - rewrite R1 in H. apply Z.eqb_eq in H. split; [exact H | lia].
Qed.

Lemma promoBlock_full l m : In m (revPromoBlock wm q l) ->
  In m l \/ (mto m < 64 /\ mpromote m = getPiece q (mto m) /\ has_color wm (getPiece q (mto m)) = true /\
             isKingPiece (getPiece q (mto m)) = false /\ zr (mto m) = lastRank wm /\
             (if wm then 8 <= mto m else mto m < 56) /\
             N.testbit (promoStep (mto m)) (mfrom m) = true /\ N.testbit occ (mfrom m) = false).
Proof.
  unfold revPromoBlock. cbv zeta. intro H.
  assert (Hcol : colorBB q wm < 2 ^ 64) by (apply (colorLt q Hwf)).
  apply (proj1 (revLoopW_In
           (fun sq => andn (if wm then N.lor (bPawnAttacks sq) (bitAt sq (-8)) else N.lor (wPawnAttacks sq) (bitAt sq 8)) (occupiedBB q))
           (fun sq => getPiece q sq)
           (fun sq => (getPiece q sq =? WKING) || (getPiece q sq =? BKING))
           _ l m (land_lt_l _ _ 64 Hcol))) in H.
  destruct H as [H|(sq & Hs & Hk & H)]; [left; exact H|]. right.
  rewrite N.land_spec in Hs. apply andb_true_iff in Hs. destruct Hs as (Hc & Hrow).
  rewrite (BoardOK_color q wm sq BO) in Hc. apply andb_true_iff in Hc. destruct Hc as (Hs64 & Hc). apply N.ltb_lt in Hs64.
  destruct (lastRank_range sq Hs64 Hrow) as (Hlr & Hrange).
  assert (Hmask : andn (promoStep sq) (occupiedBB q) < 2 ^ 64).
  { unfold andn. apply ldiff_lt. unfold promoStep. destruct (row_facts sq Hs64) as (_ & _ & Lb & Lw).
    destruct wmS as [E|E]; rewrite E in Hrange |- *; cbv iota in Hrange; apply lorLt; try assumption; apply (bitAtLt q); lia. }
  apply (revAdd_In [] _ sq (getPiece q sq) m Hmask) in H. destruct H as [[]|(s0 & Hb & ->)]. cbn [mpromote mto mfrom].
  unfold andn in Hb. rewrite N.ldiff_spec in Hb. apply andb_true_iff in Hb. destruct Hb as (Hb1 & Hb2). apply negb_true_iff in Hb2.
  repeat split; auto.
Qed.

(** the two classes *)
Inductive PawnLike (m : move) : Prop :=
| PL_pawn : mpromote m = EMPTY -> nthP sqsQ (mto m) = pw -> 8 <= mto m < 56 ->
            N.testbit (revPawnFromMask wm occ (mto m)) (mfrom m) = true -> PawnLike m
| PL_promo : mpromote m = nthP sqsQ (mto m) -> mto m < 64 -> has_color wm (nthP sqsQ (mto m)) = true ->
             isKingPiece (nthP sqsQ (mto m)) = false -> zr (mto m) = lastRank wm ->
             (if wm then 8 <= mto m else mto m < 56) ->
             N.testbit (promoStep (mto m)) (mfrom m) = true -> N.testbit occ (mfrom m) = false -> PawnLike m.

Theorem raw_pawn_shape m : In m (genMovesNoUndoInfo q) ->
  (mpromote m = EMPTY /\ isPawnPiece (nthP sqsQ (mto m)) = true) \/ mpromote m <> EMPTY -> PawnLike m.
Proof.
  intros H Hcls. rewrite (gen_eq q) in H.
  apply promoBlock_full in H. destruct H as [H|(A & B & C & D & E & F & G & I)].
  2:{ apply PL_promo; assumption. }
  apply pawnBlock_full in H. destruct H as [H|(A & B & C & D)].
  - exfalso. destruct (inner_not_pawn m H) as (Hp & Hn). destruct Hcls as [(_ & Hc)|Hc]; [|contradiction].
    change (nthP sqsQ (mto m)) with (getPiece q (mto m)) in Hc. congruence.
  - apply PL_pawn; try assumption.
    destruct (N.lt_ge_cases (mto m) 8) as [L|L]; [|destruct (N.lt_ge_cases (mto m) 56) as [L2|L2]; [lia|]].
    + pose proof (edge_no_pawn q Hwf (mto m) B (or_introl L)) as X. rewrite C in X. unfold pw in X. revert X. generalize wm. intros []; discriminate.
    + pose proof (edge_no_pawn q Hwf (mto m) B (or_intror L2)) as X. rewrite C in X. unfold pw in X. revert X. generalize wm. intros []; discriminate.
Qed.

End Shape.

(** * consistency of the reported pawn un-moves and un-promotions *)
Section PawnCons.
Variable zk : zkeys.
Hypothesis EKZ : emptyKeysZero zk.
Variable q : position.
Hypothesis Hrev : WFrev zk q.
Variable incl : bool.
Variable um : unMove.
Hypothesis Hin : In um (genMoves zk q incl).

Let m := um_move um.
Let ui := um_ui um.
Let f := mfrom m.
Let t := mto m.
Let sqsQ := squares q.
Let mpT := nthP sqsQ t.
Let wm := negb (whiteMove q).
Let pw : piece := myPiece wm WPAWN.
Let prev := unMakeMove zk q m ui.
Let dQ : Z := dirOf wm.

Hypothesis Hcls : (mpromote m = EMPTY /\ isPawnPiece mpT = true) \/ mpromote m <> EMPTY.

Lemma Cq : Consistent zk q.
Proof. destruct Hrev as [H _ _ _ _]. exact H. Qed.
Lemma Hwf : WF q.
Proof. destruct Hrev as [_ H _ _ _]. exact H. Qed.
Lemma wmC : wm = true \/ wm = false.
Proof. unfold wm. destruct (whiteMove q); auto. Qed.
Lemma lenQ64 : length sqsQ = 64%nat.
Proof. apply (lenQ zk q Cq). Qed.

Lemma m_raw : In m (revMoveList q).
Proof. destruct (proj1 (genMoves_In zk q incl um) Hin) as (Hc & _). apply (candidates_clock q incl um Hc). Qed.

(** what the raw move looks like *)
Inductive RawP : Prop :=
| mkRawP : f < 64 -> t < 64 -> nthP sqsQ f = EMPTY -> Geo q f t ->
    (mpromote m = EMPTY /\ mpT = pw /\ 8 <= t < 56 /\ zr f <> (if wm then 0 else 7)%Z) \/
    (mpromote m = mpT /\ (exists k, In k promoKinds /\ mpT = mk_piece wm k) /\ zr t = lastRank wm) -> RawP.

Lemma pw_mk : pw = mk_piece wm Pawn.
Proof. unfold pw. apply myPiece_mk. Qed.

Lemma promo_kind pc : pc <= 12 -> has_color wm pc = true -> isKingPiece pc = false -> isPawnPiece pc = false ->
  exists k, In k promoKinds /\ pc = mk_piece wm k.
Proof.
  intros Hle Hc Hk Hp. generalize dependent wm. intros b Hc.
  destruct (le12_cases _ Hle) as [E|[E|[E|[E|[E|[E|[E|[E|[E|[E|[E|[E|E]]]]]]]]]]]]; subst pc; destruct b; try discriminate;
    [exists Queen | exists Rook | exists Bishop | exists Knight | exists Queen | exists Rook | exists Bishop | exists Knight];
    (split; [cbn; tauto | reflexivity]).
Qed.

Lemma rawP : RawP.
Proof.
  pose proof m_raw as Hraw. pose proof (WF_BoardOK q Hwf) as BO.
  destruct (Z.eq_dec (epSquare q) (-1)) as [Eep|Eep].
  - rewrite (revMoveList_noep q Eep) in Hraw.
    destruct (raw_pawn_shape q Hwf m Hraw Hcls) as [A B C D | A B C D E F G I].
    + destruct (fromMask_shape q BO f t C D) as (Hf & Hfe & Hrow & Hg).
      apply (mkRawP Hf ltac:(lia) Hfe Hg). left. auto.
    + fold sqsQ in A, C, D. fold wm in C, E, F, G. fold t in A, B, C, D, E, F, G, I. fold mpT in A, C, D. fold f in G, I.
      destruct (step_mask_shape q f t B F G) as (Hf & Hg).
      assert (Hfe : nthP sqsQ f = EMPTY) by (apply (occ_empty q BO f Hf I)).
      assert (Hgeo : Geo q f t) by (destruct Hg as [(X & Y)|(X & Y)]; [apply G_push | apply G_diag]; assumption).
      apply (mkRawP Hf B Hfe Hgeo). right. split; [exact A|]. split; [|exact E].
      apply promo_kind; auto.
      * apply (BoardOK_le12 q t BO).
      * destruct (sq_decomp t B) as (Dt & Dt1 & Dt2). unfold lastRank in E.
        apply (edge_no_pawn q Hwf t B). destruct wmC as [Ew|Ew]; rewrite Ew in E; cbv iota in E; lia.
  - (* the double step that set the e.p. square *)
    unfold revMoveList in Hraw. cbv zeta in Hraw.
    replace (epSquare q =? -1)%Z with false in Hraw by (symmetry; apply Z.eqb_neq; exact Eep).
    destruct (WF_parts q Hwf) as (_ & _ & _ & _ & Hacc).
    destruct (accepted_epShape _ Hacc) as [Hx|(e & He & He64 & Hy & Hee & Hpawn)]; [contradiction|].
    cbn [abs sp_ep sp_white sp_board] in He, Hy, Hee, Hpawn. fold sqsQ in Hee, Hpawn.
    destruct Hrev as [_ _ _ _ Horig]. specialize (Horig e He). fold sqsQ in Horig.
    rewrite He, N2Z.id in Hraw. fold wm in Hraw.
    unfold sqY in Hy. pose proof (N.div_mod e 8 ltac:(lia)) as Dm. pose proof (N.mod_lt e 8 ltac:(lia)) as Dl.
    assert (Hmask : bitAt e (- (if wm then 8 else -8)) < 2 ^ 64).
    { apply (bitAtLt q). unfold wm. case_eq (whiteMove q); intro Ew; rewrite Ew in Hy; cbn [negb]; lia. }
    apply (revAdd_In [] _ _ EMPTY m Hmask) in Hraw. destruct Hraw as [[]|(s0 & Hb & Em)].
    unfold bitAt, sqAdd in Hb, Em. rewrite bit_bits in Hb. apply N.eqb_eq in Hb.
    assert (Ef : f = s0) by (unfold f; rewrite Em; reflexivity).
    assert (Et : t = Z.to_N (Z.of_N e + (if wm then 8 else -8))) by (unfold t; rewrite Em; reflexivity).
    assert (Epr : mpromote m = EMPTY) by (rewrite Em; reflexivity).
    case_eq (whiteMove q); intro Ew.
    + (* black moved: from e + 8 to e - 8 *)
      assert (Ewm : wm = false) by (unfold wm; rewrite Ew; reflexivity).
      rewrite Ewm in Hb, Et. rewrite Ew in Hy, Horig, Hpawn.
      assert (Ef' : f = e + 8) by lia. assert (Et' : t = e - 8) by lia.
      assert (Ht : t < 64) by lia. assert (Hf : f < 64) by lia.
      destruct (sq_decomp t Ht) as (Dt & Dt1 & Dt2). destruct (sq_decomp f Hf) as (Df & Df1 & Df2). destruct (sq_decomp e He64) as (De & De1 & De2).
      assert (Hzt : zr t = 4%Z /\ zf t = zf e) by lia. assert (Hzf : zr f = 6%Z /\ zf f = zf e) by lia.
      apply (mkRawP Hf Ht); [rewrite Ef'; exact Horig | | left].
      * apply G_double; unfold dirOf; rewrite ?Ew; cbn [negb]; try lia.
        replace (sq_of (zf t) (zr t - -1)) with e; [exact Hee|]. destruct Hzt as (A & B). rewrite A, B.
        replace (4 - -1)%Z with (zr e) by lia. symmetry. apply (coords_of_sq e He64).
      * rewrite Ewm. split; [exact Epr|]. split; [unfold mpT, pw; rewrite Et', Ewm; exact Hpawn|]. split; lia.
    + assert (Ewm : wm = true) by (unfold wm; rewrite Ew; reflexivity).
      rewrite Ewm in Hb, Et. rewrite Ew in Hy, Horig, Hpawn.
      assert (Ef' : f = e - 8) by lia. assert (Et' : t = e + 8) by lia.
      assert (Ht : t < 64) by lia. assert (Hf : f < 64) by lia.
      destruct (sq_decomp t Ht) as (Dt & Dt1 & Dt2). destruct (sq_decomp f Hf) as (Df & Df1 & Df2). destruct (sq_decomp e He64) as (De & De1 & De2).
      assert (Hzt : zr t = 3%Z /\ zf t = zf e) by lia. assert (Hzf : zr f = 1%Z /\ zf f = zf e) by lia.
      apply (mkRawP Hf Ht); [rewrite Ef'; exact Horig | | left].
      * apply G_double; unfold dirOf; rewrite ?Ew; cbn [negb]; try lia.
        replace (sq_of (zf t) (zr t - 1)) with e; [exact Hee|]. destruct Hzt as (A & B). rewrite A, B.
        replace (3 - 1)%Z with (zr e) by lia. symmetry. apply (coords_of_sq e He64).
      * rewrite Ewm. split; [exact Epr|]. split; [unfold mpT, pw; rewrite Et', Ewm; exact Hpawn|]. split; lia.
Qed.

End PawnCons.
