(** C15 proofs, part 10: consistency.  What the raw reverse moves of genMovesNoUndoInfo look like
    (only-if direction of the block lemmas), the four fields of the position unMakeMove restores,
    and for un-moves of pieces other than pawns that are not un-castlings: making the move again
    gives Q back; for knight and king un-moves the move is legal by the FIDE rules. *)
From Coq Require Import ZArith NArith List Bool Lia.
From Texel Require Import Chess.Types Chess.Position Chess.PositionSpec Chess.PositionFacts
  Chess.PositionProofs Chess.PositionProofs2 Chess.PositionProofs3 Chess.PositionProofs4 Chess.PositionTheorems
  Chess.PositionSources Chess.Fen Chess.Spec Chess.BitBoard Chess.MoveGen Chess.MoveGenWF Chess.MoveGenProofs
  Chess.BitBoardProofs Chess.RayProofs Chess.SliderProofs Chess.AttackProofs Chess.PawnProofs Chess.PseudoProofs
  Chess.MakeSpecProofs gen.BitBoardTables
  RevGen.RevGen RevGen.RevFacts RevGen.RevAbs RevGen.RevRestore RevGen.RevValid RevGen.RevCand RevGen.RevRaw RevGen.RevLegal
  RevGen.RevPawn.
Import ListNotations.
Local Open Scope N_scope.

(** * the raw reverse moves of the piece blocks *)
Section RawShape.
Variable q : position.
Hypothesis BO : BoardOK q.
Let wm := negb (whiteMove q).           (* the side that made the last move *)
Let occ := occupiedBB q.

Lemma codes X : In X [WQUEEN; WROOK; WBISHOP; WKNIGHT; WKING; WPAWN] -> In (myPiece wm X) pieceCodes.
Proof. intro H. apply myPiece_codes. cbn [In] in *. tauto. Qed.

Lemma occ_bit s : N.testbit occ s = (s <? 64) && negb (getPiece q s =? EMPTY).
Proof. apply (occupied_testbit_B q s BO). Qed.

(** a move whose from-square is a free square of the mask [a], to the square [sq] holding piece X *)
Definition PieceUn (X : piece) (a : square -> N) (m : move) : Prop :=
  mpromote m = EMPTY /\ mto m < 64 /\ getPiece q (mto m) = myPiece wm X /\
  mfrom m < 64 /\ getPiece q (mfrom m) = EMPTY /\ N.testbit (a (mto m)) (mfrom m) = true.

Lemma pieceLoop_shape X (a : square -> N) mask l m :
  In X [WQUEEN; WROOK; WBISHOP; WKNIGHT] ->
  (forall sq, sq < 64 -> a sq < 2 ^ 64) ->
  (forall sq, N.testbit mask sq = true -> N.testbit (ptBB q (myPiece wm X)) sq = true) -> mask < 2 ^ 64 ->
  In m (forSquares mask (fun l sq => revAddMovesByMask l (andn (a sq) occ) sq EMPTY) l) ->
  In m l \/ PieceUn X a m.
Proof.
  intros HX Ha Hmask Hlt H.
  apply revLoop_In in H; [|exact Hlt | intros sq Hs; apply ldiff_lt, Ha; exact Hs].
  destruct H as [H|(sq & s0 & Hs & Hb & ->)]; [left; exact H|]. right.
  apply Hmask in Hs. rewrite (BoardOK_ptBB q _ sq BO) in Hs by (apply codes; cbn [In] in *; tauto).
  apply andb_true_iff in Hs. destruct Hs as (Hs1 & Hs2). apply N.ltb_lt in Hs1. apply N.eqb_eq in Hs2.
  unfold andn in Hb. rewrite N.ldiff_spec in Hb. apply andb_true_iff in Hb. destruct Hb as (Hb1 & Hb2).
  apply negb_true_iff in Hb2.
  assert (Hs0 : s0 < 64) by (apply (bits_below_64 _ (Ha sq Hs1) s0 Hb1)).
  rewrite occ_bit in Hb2. replace (s0 <? 64) with true in Hb2 by (symmetry; apply N.ltb_lt; exact Hs0).
  cbn [andb] in Hb2. apply negb_false_iff, N.eqb_eq in Hb2.
  unfold PieceUn. cbn [mfrom mto mpromote]. repeat split; auto.
Qed.

Lemma bbLoop_all {A} (F : list A -> square -> list A) (P : A -> Prop) :
  (forall acc sq x, In x (F acc sq) -> In x acc \/ P x) ->
  forall fuel mask acc x, In x (bbLoop fuel mask F acc) -> In x acc \/ P x.
Proof.
  intros HF fuel. induction fuel as [|k IH]; intros mask acc x H; cbn [bbLoop] in H; [left; exact H|].
  destruct (mask =? 0); [left; exact H|].
  apply IH in H. destruct H as [H|H]; [|right; exact H]. apply HF in H. exact H.
Qed.

Lemma revAdd_to l mask t' pr m : In m (revAddMovesByMask l mask t' pr) -> In m l \/ (mto m = t' /\ mpromote m = pr).
Proof.
  unfold revAddMovesByMask, forSquares. intro H.
  apply (bbLoop_all (fun l0 sq0 => addMove l0 sq0 t' pr) (fun x => mto x = t' /\ mpromote x = pr)) in H; [exact H|].
  intros acc sq x Hx. apply addMove_In in Hx. destruct Hx as [Hx | ->]; [left; exact Hx | right; auto].
Qed.

Lemma pawnBlock_shape l m : In m (revPawnBlock wm q l) -> In m l \/ getPiece q (mto m) = myPiece wm WPAWN.
Proof.
  unfold revPawnBlock. cbv zeta. intro H.
  apply (proj1 (revLoopW_In (fun sq => revPawnFromMask wm (occupiedBB q) sq) (fun _ => EMPTY) (fun _ => false) _ l m
                  (BoardOK_ptBB_lt q _ BO (codes WPAWN ltac:(cbn; tauto))))) in H.
  destruct H as [H|(sq & Hs & _ & H)]; [left; exact H|]. right.
  apply revAdd_to in H. destruct H as [[]|(E & _)]. rewrite E.
  rewrite (BoardOK_ptBB q _ sq BO) in Hs by (apply codes; cbn; tauto).
  apply andb_true_iff in Hs. destruct Hs as (_ & Hs). apply N.eqb_eq in Hs. exact Hs.
Qed.

Lemma promoBlock_shape l m : In m (revPromoBlock wm q l) -> In m l \/ mpromote m <> EMPTY.
Proof.
  unfold revPromoBlock. cbv zeta. intro H.
  assert (Hcol : colorBB q wm < 2 ^ 64).
  { apply lt_2_64_of_bits. intros i Hi. rewrite (BoardOK_color q wm i BO) in Hi. apply andb_true_iff in Hi.
    destruct Hi as (Hi & _). apply N.ltb_lt. exact Hi. }
  apply (proj1 (revLoopW_In
           (fun sq => andn (if wm then N.lor (bPawnAttacks sq) (bitAt sq (-8)) else N.lor (wPawnAttacks sq) (bitAt sq 8)) (occupiedBB q))
           (fun sq => getPiece q sq)
           (fun sq => (getPiece q sq =? WKING) || (getPiece q sq =? BKING))
           _ l m (land_lt_l _ _ 64 Hcol))) in H.
  destruct H as [H|(sq & Hs & _ & H)]; [left; exact H|]. right.
  apply revAdd_to in H. destruct H as [[]|(_ & E)]. rewrite E.
  rewrite N.land_spec in Hs. apply andb_true_iff in Hs. destruct Hs as (Hs & _).
  rewrite (BoardOK_color q wm sq BO) in Hs. apply andb_true_iff in Hs. destruct Hs as (_ & Hs).
  intro E0. rewrite E0 in Hs. destruct wm; discriminate.
Qed.

Lemma castleClause_shape sq k0Sq kSq rSq em l m : k0Sq < 64 ->
  In m (revCastleClause wm q occ sq k0Sq kSq rSq em l) -> In m l \/ (m = mkMove k0Sq kSq EMPTY /\ sq = kSq).
Proof.
  intro Hk. unfold revCastleClause. destruct ((sq =? kSq) && _) eqn:C; [|auto].
  apply andb_true_iff in C. destruct C as (C & _). apply N.eqb_eq in C.
  destruct (_ && _); [|auto]. intro H.
  apply revAdd_In in H.
  - destruct H as [H|(s0 & Hb & ->)]; [left; exact H|]. right. rewrite bit_bits in Hb. apply N.eqb_eq in Hb. subst s0. auto.
  - unfold bit. rewrite N.shiftl_1_l. apply N.pow_lt_mono_r; lia.
Qed.

Hypothesis HKex : exists s, s < 64 /\ getPiece q s = mk_piece wm King.

Definition aQ (sq : square) : N := N.lor (rookAttacks sq occ) (bishopAttacks sq occ).
Definition aR (sq : square) : N := rookAttacks sq occ.
Definition aB (sq : square) : N := bishopAttacks sq occ.
Definition aN (sq : square) : N := knightAttacks sq.
Definition aK (sq : square) : N := kingAttacks sq.

Definition kingGuard (sq : square) : bool :=
  negb (((sq =? E1) && (a1Castle q || h1Castle q)) || ((sq =? E8) && (a8Castle q || h8Castle q))).

(** the raw reverse moves that are not pawn un-moves and not un-promotions *)
Definition RawPiece (m : move) : Prop :=
  PieceUn WQUEEN aQ m \/
  (PieceUn WROOK aR m /\ N.testbit (revRookSquares wm q) (mto m) = true) \/
  PieceUn WBISHOP aB m \/ PieceUn WKNIGHT aN m \/
  (PieceUn WKING aK m /\ kingGuard (mto m) = true) \/
  (exists k0 kSq, m = mkMove k0 kSq EMPTY /\ (k0 = E1 \/ k0 = E8) /\ (kSq = k0 + 2 \/ kSq + 2 = k0)).

Lemma aQ_lt sq : sq < 64 -> aQ sq < 2 ^ 64.
Proof.
  intro Hs. apply lt_2_64_of_bits. intros i Hi. unfold aQ in Hi. rewrite N.lor_spec, orb_true_iff in Hi.
  destruct Hi as [Hi|Hi]; [exact (rookAttacks_in_board sq i _ Hs Hi) | exact (bishopAttacks_in_board sq i _ Hs Hi)].
Qed.

Lemma knightBlock_shape l m : In m (revKnightBlock wm q l) -> In m l \/ PieceUn WKNIGHT aN m.
Proof.
  intro H.
  exact (pieceLoop_shape WKNIGHT aN _ l m (or_intror (or_intror (or_intror (or_introl eq_refl))))
           (fun sq _ => proj2 (knightAttacks_lt sq)) (fun sq Hx => Hx)
           (BoardOK_ptBB_lt q _ BO (codes WKNIGHT (or_intror (or_intror (or_intror (or_introl eq_refl)))))) H).
Qed.

Lemma bishopBlock_shape l m : In m (revBishopBlock wm q l) -> In m l \/ PieceUn WBISHOP aB m.
Proof.
  intro H.
  exact (pieceLoop_shape WBISHOP aB _ l m (or_intror (or_intror (or_introl eq_refl)))
           (fun sq Hs => bishopAttacks_lt sq occ Hs) (fun sq Hx => Hx)
           (BoardOK_ptBB_lt q _ BO (codes WBISHOP (or_intror (or_intror (or_introl eq_refl))))) H).
Qed.

Lemma queenBlock_shape l m : In m (revQueenBlock wm q l) -> In m l \/ PieceUn WQUEEN aQ m.
Proof.
  intro H.
  exact (pieceLoop_shape WQUEEN aQ _ l m (or_introl eq_refl) aQ_lt (fun sq Hx => Hx)
           (BoardOK_ptBB_lt q _ BO (codes WQUEEN (or_introl eq_refl))) H).
Qed.

Lemma rookSquares_sub sq : N.testbit (revRookSquares wm q) sq = true -> N.testbit (ptBB q (myPiece wm WROOK)) sq = true.
Proof.
  intro Hs. unfold revRookSquares, andn in Hs. cbv zeta in Hs.
  destruct (a1Castle q), (h1Castle q), (a8Castle q), (h8Castle q);
    repeat (rewrite N.ldiff_spec in Hs; apply andb_true_iff in Hs; destruct Hs as (Hs & _)); exact Hs.
Qed.
Lemma rookSquares_lt : revRookSquares wm q < 2 ^ 64.
Proof.
  assert (Hl : ptBB q (myPiece wm WROOK) < 2 ^ 64) by (apply (BoardOK_ptBB_lt q _ BO); apply codes; cbn; tauto).
  unfold revRookSquares, andn. cbv zeta.
  destruct (a1Castle q), (h1Castle q), (a8Castle q), (h8Castle q); repeat apply ldiff_lt; exact Hl.
Qed.

Lemma rookBlock_shape l m : In m (revRookBlock wm q l) ->
  In m l \/ (PieceUn WROOK aR m /\ N.testbit (revRookSquares wm q) (mto m) = true).
Proof.
  intro H.
  assert (H' : In m (forSquares (revRookSquares wm q) (fun l sq => revAddMovesByMask l (andn (aR sq) occ) sq EMPTY) l)) by exact H.
  clear H.
  apply (revLoop_In (fun sq => andn (aR sq) occ)) in H'; [|exact rookSquares_lt | intros sq Hs; apply ldiff_lt, rookAttacks_lt; exact Hs].
  destruct H' as [H|(sq & s0 & Hs & Hb & ->)]; [left; exact H|]. right.
  assert (Hin : In (mkMove s0 sq EMPTY) (forSquares (revRookSquares wm q) (fun l sq => revAddMovesByMask l (andn (aR sq) occ) sq EMPTY) [])).
  { apply (revLoop_In (fun sq => andn (aR sq) occ)); [exact rookSquares_lt | intros sq' Hs'; apply ldiff_lt, rookAttacks_lt; exact Hs' |].
    right. exists sq, s0. split; [exact Hs | split; [exact Hb | reflexivity]]. }
  apply (pieceLoop_shape WROOK aR _ _ _ (or_intror (or_introl eq_refl)) (fun sq Hs' => rookAttacks_lt sq occ Hs') rookSquares_sub rookSquares_lt) in Hin.
  destruct Hin as [[]|Hin]. split; [exact Hin | exact Hs].
Qed.

Lemma kingBlock_shape l m : In m (revKingBlock wm q l) ->
  In m l \/ (PieceUn WKING aK m /\ kingGuard (mto m) = true) \/
  (exists k0 kSq, m = mkMove k0 kSq EMPTY /\ (k0 = E1 \/ k0 = E8) /\ (kSq = k0 + 2 \/ kSq + 2 = k0)).
Proof.
  intro H. unfold revKingBlock in H. cbv zeta in H.
  destruct (kingSq_spec_B q wm BO HKex) as (Hk64 & Hkp).
  set (ks := kingSq q wm) in *.
  destruct (negb (((ks =? E1) && (a1Castle q || h1Castle q)) || ((ks =? E8) && (a8Castle q || h8Castle q)))) eqn:G; [|left; exact H].
  apply castleClause_shape in H; [|destruct wm; cbv; reflexivity].
  destruct H as [H|(Hm & Hs)].
  2:{ right. right. exists (if wm then E1 else E8), (if wm then C1 else C8). split; [exact Hm|]. destruct wm; cbv; auto. }
  apply castleClause_shape in H; [|destruct wm; cbv; reflexivity].
  destruct H as [H|(Hm & Hs)].
  2:{ right. right. exists (if wm then E1 else E8), (if wm then G1 else G8). split; [exact Hm|]. destruct wm; cbv; auto. }
  apply revAdd_In in H; [|apply ldiff_lt, kingAttacks_lt].
  destruct H as [H|(s0 & Hb & ->)]; [left; exact H|]. right. left.
  unfold andn in Hb. rewrite N.ldiff_spec in Hb. apply andb_true_iff in Hb. destruct Hb as (Hb1 & Hb2).
  apply negb_true_iff in Hb2.
  assert (Hs0 : s0 < 64) by (apply (bits_below_64 _ (kingAttacks_lt ks) s0 Hb1)).
  rewrite occ_bit in Hb2. replace (s0 <? 64) with true in Hb2 by (symmetry; apply N.ltb_lt; exact Hs0).
  cbn [andb] in Hb2. apply negb_false_iff, N.eqb_eq in Hb2.
  split; [|exact G]. unfold PieceUn. cbn [mfrom mto mpromote]. repeat split; auto.
Qed.

Theorem raw_piece_shape m :
  In m (genMovesNoUndoInfo q) -> mpromote m = EMPTY -> isPawnPiece (getPiece q (mto m)) = false -> RawPiece m.
Proof.
  intros H Hpr Hnp. unfold genMovesNoUndoInfo in H. cbv zeta in H. fold wm in H.
  apply promoBlock_shape in H. destruct H as [H|H]; [|contradiction].
  apply pawnBlock_shape in H. destruct H as [H|H]; [|rewrite H in Hnp; destruct wm; discriminate].
  apply kingBlock_shape in H. destruct H as [H|[H|H]];
    [|right; right; right; right; left; exact H | right; right; right; right; right; exact H].
  apply knightBlock_shape in H. destruct H as [H|H]; [|right; right; right; left; exact H].
  apply bishopBlock_shape in H. destruct H as [H|H]; [|right; right; left; exact H].
  apply rookBlock_shape in H. destruct H as [H|H]; [|right; left; exact H].
  apply queenBlock_shape in H. destruct H as [[]|H]. left. exact H.
Qed.

End RawShape.
