(** C15 proofs, part 10: consistency.  What the raw reverse moves of genMovesNoUndoInfo look like
    (only-if direction of the block lemmas), the four fields of the position unMakeMove restores,
    and for un-moves of pieces other than pawns that are not un-castlings: making the move again
    gives Q back; for knight and king un-moves the move is legal by the FIDE rules. *)
From Coq Require Import ZArith NArith List Bool Lia.
From Texel Require Import Chess.Types Chess.Position Chess.PositionSpec Chess.PositionFacts
  Chess.PositionProofs Chess.PositionProofs2 Chess.PositionProofs3 Chess.PositionProofs4 Chess.PositionTheorems
  Chess.PositionSources Chess.Fen Chess.Spec Chess.BitBoard Chess.MoveGen Chess.MoveGenWF Chess.MoveGenProofs
  Chess.BitBoardProofs Chess.RayProofs Chess.SliderProofs Chess.AttackProofs Chess.PawnProofs Chess.PseudoProofs
  Chess.MakeSpecProofs gen.BitBoardTables
  RevGen.RevGen RevGen.RevFacts RevGen.RevAbs RevGen.RevRestore RevGen.RevValid RevGen.RevCand RevGen.RevRaw RevGen.RevLegal
  RevGen.RevPawn.
Import ListNotations.
Local Open Scope N_scope.

Lemma revMoveList_noep q : epSquare q = (-1)%Z -> revMoveList q = genMovesNoUndoInfo q.
Proof. intro E. unfold revMoveList. cbv zeta. rewrite E. reflexivity. Qed.

(** * the raw reverse moves of the piece blocks *)
Section RawShape.
Variable q : position.
Hypothesis BO : BoardOK q.
Let wm := negb (whiteMove q).           (* the side that made the last move *)
Let occ := occupiedBB q.

Lemma codes X : In X [WQUEEN; WROOK; WBISHOP; WKNIGHT; WKING; WPAWN] -> In (myPiece wm X) pieceCodes.
Proof. intro H. apply myPiece_codes. cbn [In] in *. tauto. Qed.

Lemma occ_bit s : N.testbit occ s = (s <? 64) && negb (getPiece q s =? EMPTY).
Proof. apply (occupied_testbit_B q s BO). Qed.

(** a move whose from-square is a free square of the mask [a], to the square [sq] holding piece X *)
Definition PieceUn (X : piece) (a : square -> N) (m : move) : Prop :=
  mpromote m = EMPTY /\ mto m < 64 /\ getPiece q (mto m) = myPiece wm X /\
  mfrom m < 64 /\ getPiece q (mfrom m) = EMPTY /\ N.testbit (a (mto m)) (mfrom m) = true.

Lemma pieceLoop_shape X (a : square -> N) mask l m :
  In X [WQUEEN; WROOK; WBISHOP; WKNIGHT] ->
  (forall sq, sq < 64 -> a sq < 2 ^ 64) ->
  (forall sq, N.testbit mask sq = true -> N.testbit (ptBB q (myPiece wm X)) sq = true) -> mask < 2 ^ 64 ->
  In m (forSquares mask (fun l sq => revAddMovesByMask l (andn (a sq) occ) sq EMPTY) l) ->
  In m l \/ PieceUn X a m.
Proof.
  intros HX Ha Hmask Hlt H.
  apply revLoop_In in H; [|exact Hlt | intros sq Hs; apply ldiff_lt, Ha; exact Hs].
  destruct H as [H|(sq & s0 & Hs & Hb & ->)]; [left; exact H|]. right.
  apply Hmask in Hs. rewrite (BoardOK_ptBB q _ sq BO) in Hs by (apply codes; cbn [In] in *; tauto).
  apply andb_true_iff in Hs. destruct Hs as (Hs1 & Hs2). apply N.ltb_lt in Hs1. apply N.eqb_eq in Hs2.
  unfold andn in Hb. rewrite N.ldiff_spec in Hb. apply andb_true_iff in Hb. destruct Hb as (Hb1 & Hb2).
  apply negb_true_iff in Hb2.
  assert (Hs0 : s0 < 64) by (apply (bits_below_64 _ (Ha sq Hs1) s0 Hb1)).
  rewrite occ_bit in Hb2. replace (s0 <? 64) with true in Hb2 by (symmetry; apply N.ltb_lt; exact Hs0).
  cbn [andb] in Hb2. apply negb_false_iff, N.eqb_eq in Hb2.
  unfold PieceUn. cbn [mfrom mto mpromote]. repeat split; auto.
Qed.

Lemma bbLoop_all {A} (F : list A -> square -> list A) (P : A -> Prop) :
  (forall acc sq x, In x (F acc sq) -> In x acc \/ P x) ->
  forall fuel mask acc x, In x (bbLoop fuel mask F acc) -> In x acc \/ P x.
Proof.
  intros HF fuel. induction fuel as [|k IH]; intros mask acc x H; cbn [bbLoop] in H; [left; exact H|].
  destruct (mask =? 0); [left; exact H|].
  apply IH in H. destruct H as [H|H]; [|right; exact H]. apply HF in H. exact H.
Qed.

Lemma revAdd_to l mask t' pr m : In m (revAddMovesByMask l mask t' pr) -> In m l \/ (mto m = t' /\ mpromote m = pr).
Proof.
  unfold revAddMovesByMask, forSquares. intro H.
  apply (bbLoop_all (fun l0 sq0 => addMove l0 sq0 t' pr) (fun x => mto x = t' /\ mpromote x = pr)) in H; [exact H|].
  intros acc sq x Hx. apply addMove_In in Hx. destruct Hx as [Hx | ->]; [left; exact Hx | right; auto].
Qed.

Lemma pawnBlock_shape l m : In m (revPawnBlock wm q l) -> In m l \/ getPiece q (mto m) = myPiece wm WPAWN.
Proof.
  unfold revPawnBlock. cbv zeta. intro H.
  apply (proj1 (revLoopW_In (fun sq => revPawnFromMask wm (occupiedBB q) sq) (fun _ => EMPTY) (fun _ => false) _ l m
                  (BoardOK_ptBB_lt q _ BO (codes WPAWN ltac:(cbn; tauto))))) in H.
  destruct H as [H|(sq & Hs & _ & H)]; [left; exact H|]. right.
  apply revAdd_to in H. destruct H as [[]|(E & _)]. rewrite E.
  rewrite (BoardOK_ptBB q _ sq BO) in Hs by (apply codes; cbn; tauto).
  apply andb_true_iff in Hs. destruct Hs as (_ & Hs). apply N.eqb_eq in Hs. exact Hs.
Qed.

Lemma promoBlock_shape l m : In m (revPromoBlock wm q l) -> In m l \/ mpromote m <> EMPTY.
Proof.
  unfold revPromoBlock. cbv zeta. intro H.
  assert (Hcol : colorBB q wm < 2 ^ 64).
  { apply lt_2_64_of_bits. intros i Hi. rewrite (BoardOK_color q wm i BO) in Hi. apply andb_true_iff in Hi.
    destruct Hi as (Hi & _). apply N.ltb_lt. exact Hi. }
  apply (proj1 (revLoopW_In
           (fun sq => andn (if wm then N.lor (bPawnAttacks sq) (bitAt sq (-8)) else N.lor (wPawnAttacks sq) (bitAt sq 8)) (occupiedBB q))
           (fun sq => getPiece q sq)
           (fun sq => (getPiece q sq =? WKING) || (getPiece q sq =? BKING))
           _ l m (land_lt_l _ _ 64 Hcol))) in H.
  destruct H as [H|(sq & Hs & _ & H)]; [left; exact H|]. right.
  apply revAdd_to in H. destruct H as [[]|(_ & E)]. rewrite E.
  rewrite N.land_spec in Hs. apply andb_true_iff in Hs. destruct Hs as (Hs & _).
  rewrite (BoardOK_color q wm sq BO) in Hs. apply andb_true_iff in Hs. destruct Hs as (_ & Hs).
  intro E0. rewrite E0 in Hs. destruct wm; discriminate.
Qed.

Lemma castleClause_shape sq k0Sq kSq rSq em l m : k0Sq < 64 ->
  In m (revCastleClause wm q occ sq k0Sq kSq rSq em l) -> In m l \/ (m = mkMove k0Sq kSq EMPTY /\ sq = kSq).
Proof.
  intro Hk. unfold revCastleClause. destruct ((sq =? kSq) && _) eqn:C; [|auto].
  apply andb_true_iff in C. destruct C as (C & _). apply N.eqb_eq in C.
  destruct (_ && _); [|auto]. intro H.
  apply revAdd_In in H.
  - destruct H as [H|(s0 & Hb & ->)]; [left; exact H|]. right. rewrite bit_bits in Hb. apply N.eqb_eq in Hb. subst s0. auto.
  - unfold bit. rewrite N.shiftl_1_l. apply N.pow_lt_mono_r; lia.
Qed.

Hypothesis HKex : exists s, s < 64 /\ getPiece q s = mk_piece wm King.

Definition aQ (sq : square) : N := N.lor (rookAttacks sq occ) (bishopAttacks sq occ).
Definition aR (sq : square) : N := rookAttacks sq occ.
Definition aB (sq : square) : N := bishopAttacks sq occ.
Definition aN (sq : square) : N := knightAttacks sq.
Definition aK (sq : square) : N := kingAttacks sq.

Definition kingGuard (sq : square) : bool :=
  negb (((sq =? E1) && (a1Castle q || h1Castle q)) || ((sq =? E8) && (a8Castle q || h8Castle q))).

(** the raw reverse moves that are not pawn un-moves and not un-promotions *)
Definition RawPiece (m : move) : Prop :=
  PieceUn WQUEEN aQ m \/
  (PieceUn WROOK aR m /\ N.testbit (revRookSquares wm q) (mto m) = true) \/
  PieceUn WBISHOP aB m \/ PieceUn WKNIGHT aN m \/
  (PieceUn WKING aK m /\ kingGuard (mto m) = true) \/
  (exists k0 kSq, m = mkMove k0 kSq EMPTY /\ (k0 = E1 \/ k0 = E8) /\ (kSq = k0 + 2 \/ kSq + 2 = k0) /\ isKingPiece (getPiece q kSq) = true).

Lemma aQ_lt sq : sq < 64 -> aQ sq < 2 ^ 64.
Proof.
  intro Hs. apply lt_2_64_of_bits. intros i Hi. unfold aQ in Hi. rewrite N.lor_spec, orb_true_iff in Hi.
  destruct Hi as [Hi|Hi]; [exact (rookAttacks_in_board sq i _ Hs Hi) | exact (bishopAttacks_in_board sq i _ Hs Hi)].
Qed.

Lemma knightBlock_shape l m : In m (revKnightBlock wm q l) -> In m l \/ PieceUn WKNIGHT aN m.
Proof.
  intro H.
  exact (pieceLoop_shape WKNIGHT aN _ l m (or_intror (or_intror (or_intror (or_introl eq_refl))))
           (fun sq _ => proj2 (knightAttacks_lt sq)) (fun sq Hx => Hx)
           (BoardOK_ptBB_lt q _ BO (codes WKNIGHT (or_intror (or_intror (or_intror (or_introl eq_refl)))))) H).
Qed.

Lemma bishopBlock_shape l m : In m (revBishopBlock wm q l) -> In m l \/ PieceUn WBISHOP aB m.
Proof.
  intro H.
  exact (pieceLoop_shape WBISHOP aB _ l m (or_intror (or_intror (or_introl eq_refl)))
           (fun sq Hs => bishopAttacks_lt sq occ Hs) (fun sq Hx => Hx)
           (BoardOK_ptBB_lt q _ BO (codes WBISHOP (or_intror (or_intror (or_introl eq_refl))))) H).
Qed.

Lemma queenBlock_shape l m : In m (revQueenBlock wm q l) -> In m l \/ PieceUn WQUEEN aQ m.
Proof.
  intro H.
  exact (pieceLoop_shape WQUEEN aQ _ l m (or_introl eq_refl) aQ_lt (fun sq Hx => Hx)
           (BoardOK_ptBB_lt q _ BO (codes WQUEEN (or_introl eq_refl))) H).
Qed.

Lemma rookSquares_sub sq : N.testbit (revRookSquares wm q) sq = true -> N.testbit (ptBB q (myPiece wm WROOK)) sq = true.
Proof.
  intro Hs. unfold revRookSquares, andn in Hs. cbv zeta in Hs.
  destruct (a1Castle q), (h1Castle q), (a8Castle q), (h8Castle q);
    repeat (rewrite N.ldiff_spec in Hs; apply andb_true_iff in Hs; destruct Hs as (Hs & _)); exact Hs.
Qed.
Lemma rookSquares_lt : revRookSquares wm q < 2 ^ 64.
Proof.
  assert (Hl : ptBB q (myPiece wm WROOK) < 2 ^ 64) by (apply (BoardOK_ptBB_lt q _ BO); apply codes; cbn; tauto).
  unfold revRookSquares, andn. cbv zeta.
  destruct (a1Castle q), (h1Castle q), (a8Castle q), (h8Castle q); repeat apply ldiff_lt; exact Hl.
Qed.

Lemma rookBlock_shape l m : In m (revRookBlock wm q l) ->
  In m l \/ (PieceUn WROOK aR m /\ N.testbit (revRookSquares wm q) (mto m) = true).
Proof.
  intro H.
  assert (H' : In m (forSquares (revRookSquares wm q) (fun l sq => revAddMovesByMask l (andn (aR sq) occ) sq EMPTY) l)) by exact H.
  clear H.
  apply (revLoop_In (fun sq => andn (aR sq) occ)) in H'; [|exact rookSquares_lt | intros sq Hs; apply ldiff_lt, rookAttacks_lt; exact Hs].
  destruct H' as [H|(sq & s0 & Hs & Hb & ->)]; [left; exact H|]. right.
  assert (Hin : In (mkMove s0 sq EMPTY) (forSquares (revRookSquares wm q) (fun l sq => revAddMovesByMask l (andn (aR sq) occ) sq EMPTY) [])).
  { apply (revLoop_In (fun sq => andn (aR sq) occ)); [exact rookSquares_lt | intros sq' Hs'; apply ldiff_lt, rookAttacks_lt; exact Hs' |].
    right. exists sq, s0. split; [exact Hs | split; [exact Hb | reflexivity]]. }
  apply (pieceLoop_shape WROOK aR _ _ _ (or_intror (or_introl eq_refl)) (fun sq Hs' => rookAttacks_lt sq occ Hs') rookSquares_sub rookSquares_lt) in Hin.
  destruct Hin as [[]|Hin]. split; [exact Hin | exact Hs].
Qed.

Lemma kingBlock_shape l m : In m (revKingBlock wm q l) ->
  In m l \/ (PieceUn WKING aK m /\ kingGuard (mto m) = true) \/
  (exists k0 kSq, m = mkMove k0 kSq EMPTY /\ (k0 = E1 \/ k0 = E8) /\ (kSq = k0 + 2 \/ kSq + 2 = k0) /\ isKingPiece (getPiece q kSq) = true).
Proof.
  intro H. unfold revKingBlock in H. cbv zeta in H.
  destruct (kingSq_spec_B q wm BO HKex) as (Hk64 & Hkp).
  set (ks := kingSq q wm) in *.
  destruct (negb (((ks =? E1) && (a1Castle q || h1Castle q)) || ((ks =? E8) && (a8Castle q || h8Castle q)))) eqn:G; [|left; exact H].
  apply castleClause_shape in H; [|destruct wm; cbv; reflexivity].
  destruct H as [H|(Hm & Hs)].
  2:{ right. right. exists (if wm then E1 else E8), (if wm then C1 else C8). split; [exact Hm|].
      split; [destruct wm; auto|]. split; [destruct wm; cbv; auto|]. rewrite <- Hs, Hkp. destruct wm; reflexivity. }
  apply castleClause_shape in H; [|destruct wm; cbv; reflexivity].
  destruct H as [H|(Hm & Hs)].
  2:{ right. right. exists (if wm then E1 else E8), (if wm then G1 else G8). split; [exact Hm|].
      split; [destruct wm; auto|]. split; [destruct wm; cbv; auto|]. rewrite <- Hs, Hkp. destruct wm; reflexivity. }
  apply revAdd_In in H; [|apply ldiff_lt, kingAttacks_lt].
  destruct H as [H|(s0 & Hb & ->)]; [left; exact H|]. right. left.
  unfold andn in Hb. rewrite N.ldiff_spec in Hb. apply andb_true_iff in Hb. destruct Hb as (Hb1 & Hb2).
  apply negb_true_iff in Hb2.
  assert (Hs0 : s0 < 64) by (apply (bits_below_64 _ (kingAttacks_lt ks) s0 Hb1)).
  rewrite occ_bit in Hb2. replace (s0 <? 64) with true in Hb2 by (symmetry; apply N.ltb_lt; exact Hs0).
  cbn [andb] in Hb2. apply negb_false_iff, N.eqb_eq in Hb2.
  split; [|exact G]. unfold PieceUn. cbn [mfrom mto mpromote]. repeat split; auto.
Qed.

Lemma gen_eq : genMovesNoUndoInfo q =
  revPromoBlock wm q (revPawnBlock wm q (revKingBlock wm q (revKnightBlock wm q (revBishopBlock wm q (revRookBlock wm q (revQueenBlock wm q [])))))).
Proof. reflexivity. Qed.
Lemma myPawn_isPawn : isPawnPiece (myPiece wm WPAWN) = true.
Proof. generalize wm. intros []; reflexivity. Qed.

Theorem raw_piece_shape m :
  In m (genMovesNoUndoInfo q) -> mpromote m = EMPTY -> isPawnPiece (getPiece q (mto m)) = false -> RawPiece m.
Proof.
  intros H Hpr Hnp. rewrite gen_eq in H.
  apply promoBlock_shape in H. destruct H as [H|H]; [|contradiction].
  apply pawnBlock_shape in H. destruct H as [H|H]; [|rewrite H, myPawn_isPawn in Hnp; discriminate].
  apply kingBlock_shape in H. destruct H as [H|[H|H]];
    [|right; right; right; right; left; exact H | right; right; right; right; right; exact H].
  apply knightBlock_shape in H. destruct H as [H|H]; [|right; right; right; left; exact H].
  apply bishopBlock_shape in H. destruct H as [H|H]; [|right; right; left; exact H].
  apply rookBlock_shape in H. destruct H as [H|H]; [|right; left; exact H].
  apply queenBlock_shape in H. destruct H as [[]|H]. left. exact H.
Qed.

End RawShape.

(** * the position restored by an un-move of a piece (no promotion, no pawn, no un-castling) *)
Section Restored.
Variable zk : zkeys.
Hypothesis EKZ : emptyKeysZero zk.
Variable q : position.
Hypothesis Cq : Consistent zk q.
Variable m : move.
Variable ui : undoInfo.

Let f := mfrom m.
Let t := mto m.
Let sqsQ := squares q.
Let mp := nthP sqsQ t.
Let prev := unMakeMove zk q m ui.

Hypothesis Hf : f < 64.
Hypothesis Ht : t < 64.
Hypothesis Hft : f <> t.
Hypothesis Hcap : u_captured ui < 13.
Hypothesis Hpr : mpromote m = EMPTY.
Hypothesis Hnp : isPawnPiece mp = false.
Hypothesis Hnc : isKingPiece mp = true -> t <> f + 2 /\ t + 2 <> f.
Hypothesis Hfe : nthP sqsQ f = EMPTY.

Definition prevBoard : list piece := updN f mp (updN t (u_captured ui) sqsQ).

Lemma lenQ : length sqsQ = 64%nat.
Proof. destruct Cq. exact c_len. Qed.

Lemma prev_St :
  St zk 0 prevBoard
     (negb (whiteMove q), u_halfMoveClock ui, (if whiteMove q then fullMoveCounter q - 1 else fullMoveCounter q)%Z,
      u_castleMask ui, u_epSquare ui) prev.
Proof.
  unfold prev. rewrite unMakeMove_unfold.
  pose proof (St_self zk q Cq) as S0. unfold scalars in S0.
  destruct (um_restore zk m _ _ _ _ _ _ q ui S0 Hf Ht Hcap) as (E1' & S1). fold f t sqsQ in E1', S1.
  rewrite Hpr in E1', S1. change (negb (EMPTY =? EMPTY)) with false in E1', S1. cbv iota in E1', S1. fold mp in E1', S1.
  rewrite E1'.
  destruct (St_scalars zk _ _ _ _ _ _ _ _ S1) as (Hw1 & _ & _ & _ & He1).
  rewrite um_castle_none.
  - rewrite um_ep_none; [exact S1|]. right. unfold isPawnPiece in Hnp. apply orb_false_iff in Hnp. destruct Hnp as (A & B).
    apply N.eqb_neq in A, B. auto.
  - case_eq (isKingPiece mp); intro Hk.
    + right. destruct (Hnc Hk) as (A & B). fold f t. unfold sqPlus. split; lia.
    + left. rewrite Hw1. unfold isKingPiece in Hk. apply orb_false_iff in Hk. destruct Hk as (A & B).
      destruct (negb (whiteMove q)); assumption.
Qed.

Lemma prev_consistent : Consistent zk prev.
Proof. apply prev_St. Qed.

Lemma prev_abs : abs prev = mkSpos prevBoard (negb (whiteMove q)) (u_castleMask ui) (u_epSquare ui).
Proof.
  destruct prev_St as (_ & Hs & Hsc). unfold scalars in Hsc. inversion Hsc. unfold abs. rewrite Hs. reflexivity.
Qed.

(** making the move again: the board of Q *)
Lemma prevBoard_f : nthP prevBoard f = mp.
Proof. unfold prevBoard. apply nthP_updN_eq. rewrite length_updN, lenQ. lia. Qed.
Lemma prevBoard_t : nthP prevBoard t = u_captured ui.
Proof.
  unfold prevBoard. rewrite nthP_updN_neq by exact Hft. apply nthP_updN_eq. rewrite lenQ. lia.
Qed.

Lemma remade_board : updN t mp (updN f EMPTY prevBoard) = sqsQ.
Proof.
  pose proof lenQ as Hl. apply list_ext_N; [unfold prevBoard; rewrite !length_updN; exact Hl | exact Hl|].
  intros s Hs. unfold prevBoard. rewrite !nthP_updN by (rewrite ?length_updN, Hl; lia).
  destruct (N.eqb_spec s t) as [->|]; [reflexivity|].
  destruct (N.eqb_spec s f) as [->|]; [symmetry; exact Hfe | reflexivity].
Qed.

Lemma remade_abs :
  makeA (abs prev) m =
  mkSpos sqsQ (whiteMove q) (N.land (N.land (u_castleMask ui) (castleSqMask f)) (castleSqMask t)) (-1)%Z.
Proof.
  rewrite prev_abs. unfold makeA. cbn [sp_board sp_white sp_castle sp_ep]. fold f t.
  rewrite negb_involutive. f_equal.
  - unfold isCaptureBranch. fold f t. rewrite prevBoard_f, prevBoard_t, Hnp, orb_false_r.
    destruct (negb (u_captured ui =? EMPTY)).
    + unfold captureA, epBlockA. cbn [fst]. fold f t.
      unfold isPawnPiece in Hnp. apply orb_false_iff in Hnp. destruct Hnp as (A & B). rewrite A, B. cbn [fst].
      rewrite Hpr. change (negb (EMPTY =? EMPTY)) with false. cbv iota. apply remade_board.
    + cbn [fst]. unfold quietA, castleBlockA. cbv zeta. fold f t. rewrite prevBoard_f.
      case_eq (isKingPiece mp); intro Hk.
      * destruct (Hnc Hk) as (A & B).
        replace (Z.of_N t =? sqPlus f 2)%Z with false by (symmetry; apply Z.eqb_neq; unfold sqPlus; lia).
        replace (Z.of_N t =? sqPlus f (-2))%Z with false by (symmetry; apply Z.eqb_neq; unfold sqPlus; lia).
        rewrite prevBoard_f. apply remade_board.
      * rewrite prevBoard_f. apply remade_board.
  - unfold isCaptureBranch. fold f t. rewrite prevBoard_f, prevBoard_t, Hnp, orb_false_r.
    destruct (negb (u_captured ui =? EMPTY)); [|reflexivity].
    unfold captureA, epBlockA. cbn [snd]. fold f t.
    unfold isPawnPiece in Hnp. apply orb_false_iff in Hnp. destruct Hnp as (A & B). rewrite A, B. reflexivity.
Qed.

End Restored.

(** * the castle mask: un-making with any enumerated alternative and making again gives the mask of Q *)
Section CastleBack.
Variable q : position.
Hypothesis Hwf : WF q.
Variable m : move.
Variable captured : piece.
Variable mp : piece.      (* the moving piece: the piece on the to-square, or a pawn for an un-promotion *)

Let f := mfrom m.
Let t := mto m.
Let sqsQ := squares q.
Let wm := negb (whiteMove q).

Hypothesis Hf : f < 64.
Hypothesis Ht : t < 64.
Hypothesis Hft : f <> t.
Hypothesis Hfe : nthP sqsQ f = EMPTY.
(* the moved piece is not a rook that still has its castling flag, nor a king that has one *)
Hypothesis Hflag : forall i, i < 4 -> N.testbit (castleMask q) i = true -> t <> homeR i /\ t <> homeK i.
Hypothesis Hnc : isKingPiece mp = true -> (getKingDistance f t <= 1)%Z.

Lemma cmQ_lt16 : castleMask q < 16.
Proof.
  destruct (WF_parts q Hwf) as (_ & _ & _ & _ & Ha). destruct (accepted_parts _ Ha) as (_ & _ & _ & _ & _ & H & _). exact H.
Qed.

Lemma rights_q i : i < 4 -> N.testbit (castleMask q) i = true ->
  nthP sqsQ (homeK i) = kingOf i /\ nthP sqsQ (homeR i) = rookOf i.
Proof.
  intros Hi Hb. destruct (WF_parts q Hwf) as (_ & _ & _ & _ & Ha).
  destruct (accepted_parts _ Ha) as (_ & _ & _ & _ & _ & _ & H1 & H0 & H3 & H2).
  unfold has_right in H0, H1, H2, H3. cbn [abs sp_castle sp_board] in H0, H1, H2, H3.
  destruct (four_cases i Hi) as [-> | [-> | [-> | ->]]].
  - destruct (H0 Hb) as (A & B). apply N.eqb_eq in A, B. split; [exact A | exact B].
  - destruct (H1 Hb) as (A & B). apply N.eqb_eq in A, B. split; [exact A | exact B].
  - destruct (H2 Hb) as (A & B). apply N.eqb_eq in A, B. split; [exact A | exact B].
  - destruct (H3 Hb) as (A & B). apply N.eqb_eq in A, B. split; [exact A | exact B].
Qed.

Lemma base_is_cmQ : getBaseCastleMask q m mp = castleMask q.
Proof.
  unfold getBaseCastleMask. fold f t.
  destruct ((mp =? WKING) || (mp =? BKING)) eqn:Hk; [|reflexivity].
  replace (1 <? getKingDistance f t)%Z with false by (symmetry; apply Z.ltb_ge; apply Hnc; exact Hk). reflexivity.
Qed.

Lemma lenQ' : length sqsQ = 64%nat.
Proof. apply (WF_parts q Hwf). Qed.

(** the board rebuilt for the castle flags differs from Q only on from and to *)
Lemma before_other s : s < 64 -> s <> f -> s <> t -> boardAt (castleBoardBefore q m mp captured) s = nthP sqsQ s.
Proof.
  intros Hs64 Hsf Hst. change (boardAt (castleBoardBefore q m mp captured) s) with (nthP (castleBoardBefore q m mp captured) s).
  unfold castleBoardBefore. cbv zeta. fold f t sqsQ.
  assert (K1 : (mp =? WKING) && (f =? E1) = true -> (t =? G1) = false /\ (t =? C1) = false).
  { intro H. apply andb_true_iff in H. destruct H as (A & B). apply N.eqb_eq in A, B.
    assert (Hk : isKingPiece mp = true) by (rewrite A; reflexivity). pose proof (Hnc Hk) as Hd. rewrite B in Hd.
    split; apply N.eqb_neq; intro E; rewrite E in Hd; vm_compute in Hd; apply Hd; reflexivity. }
  assert (K2 : (mp =? BKING) && (f =? E8) = true -> (t =? G8) = false /\ (t =? C8) = false).
  { intro H. apply andb_true_iff in H. destruct H as (A & B). apply N.eqb_eq in A, B.
    assert (Hk : isKingPiece mp = true) by (rewrite A; reflexivity). pose proof (Hnc Hk) as Hd. rewrite B in Hd.
    split; apply N.eqb_neq; intro E; rewrite E in Hd; vm_compute in Hd; apply Hd; reflexivity. }
  pose proof lenQ' as Hl.
  destruct ((mp =? WKING) && (f =? E1)) eqn:C1'; [destruct (K1 eq_refl) as (-> & ->)|];
  (destruct ((mp =? BKING) && (f =? E8)) eqn:C2'; [destruct (K2 eq_refl) as (-> & ->)|]);
    rewrite !nthP_updN by (rewrite ?length_updN, Hl; lia);
    (replace (s =? t) with false by (symmetry; apply N.eqb_neq; exact Hst));
    (replace (s =? f) with false by (symmetry; apply N.eqb_neq; exact Hsf)); reflexivity.
Qed.

Theorem castle_back castle :
  In castle (castleAlternatives (andn (getCastleAddMask q m mp captured) (getBaseCastleMask q m mp))) ->
  N.land (N.land (N.lor (getBaseCastleMask q m mp) castle) (castleSqMask f)) (castleSqMask t) = castleMask q.
Proof.
  intro Hin. rewrite base_is_cmQ in *.
  set (add := getCastleAddMask q m mp captured) in *.
  assert (Hadd16 : andn add (castleMask q) < 16).
  { apply lt16_of_bits. intros i Hi. unfold andn, add, getCastleAddMask, andn. cbv zeta.
    rewrite !N.ldiff_spec, (bits16 _ i (maxCastleMask_lt _) Hi). reflexivity. }
  pose proof (castleAlternatives_lt _ _ Hadd16 Hin) as Hc16.
  apply (castleAlternatives_In _ _ Hadd16 Hc16) in Hin.
  apply N.bits_inj. intro i. rewrite !N.land_spec, N.lor_spec.
  destruct (N.lt_ge_cases i 4) as [Hi|Hi].
  2:{ rewrite (bits16 _ i cmQ_lt16 Hi), (bits16 _ i Hc16 Hi). reflexivity. }
  rewrite !castleSqMask_tbl by exact Hi.
  destruct (N.testbit (castleMask q) i) eqn:Hq.
  - (* a right of Q: neither from nor to is one of its home squares *)
    destruct (rights_q i Hi Hq) as (HK & HR). destruct (Hflag i Hi Hq) as (T1 & T2).
    assert (F1' : f <> homeR i) by (intro E; rewrite <- E, Hfe in HR; unfold rookOf in HR; destruct (i <? 2); discriminate).
    assert (F2' : f <> homeK i) by (intro E; rewrite <- E, Hfe in HK; unfold kingOf in HK; destruct (i <? 2); discriminate).
    replace (f =? homeR i) with false by (symmetry; apply N.eqb_neq; exact F1').
    replace (f =? homeK i) with false by (symmetry; apply N.eqb_neq; exact F2').
    replace (t =? homeR i) with false by (symmetry; apply N.eqb_neq; exact T1).
    replace (t =? homeK i) with false by (symmetry; apply N.eqb_neq; exact T2). reflexivity.
  - (* an additional flag is destroyed again by the move *)
    cbn [orb]. destruct (N.testbit castle i) eqn:Hc; [|reflexivity]. cbn [andb].
    assert (Ha : N.testbit (andn add (castleMask q)) i = true).
    { assert (X : N.testbit (N.land castle (andn add (castleMask q))) i = true) by (rewrite Hin; exact Hc).
      rewrite N.land_spec, Hc in X. exact X. }
    unfold andn, add, getCastleAddMask, andn in Ha. cbv zeta in Ha. rewrite !N.ldiff_spec in Ha.
    apply andb_true_iff in Ha. destruct Ha as (Ha & _). apply andb_true_iff in Ha. destruct Ha as (Hb & Hnq).
    apply negb_true_iff in Hnq. rewrite !maxCastleMask_tbl in Hb, Hnq by exact Hi. fold sqsQ in Hnq.
    destruct ((f =? homeR i) || (f =? homeK i)) eqn:Ef; [reflexivity|].
    destruct ((t =? homeR i) || (t =? homeK i)) eqn:Et; [reflexivity|]. exfalso.
    apply orb_false_iff in Ef, Et. destruct Ef as (E1' & E2'). destruct Et as (E3 & E4).
    apply N.eqb_neq in E1', E2', E3, E4.
    assert (HK64 : homeK i < 64) by (unfold homeK, E1, E8; destruct (i <? 2); lia).
    assert (HR64 : homeR i < 64) by (unfold homeR, A1, H1, A8, H8; destruct (i =? 0), (i =? 1), (i =? 2); lia).
    rewrite !before_other in Hb by auto. change (boardAt sqsQ) with (nthP sqsQ) in Hnq. congruence.
Qed.

End CastleBack.

(** * Consistency of the reported un-moves of pieces *)
Lemma rookSquares_flag q wm i : i < 4 ->
  N.testbit (revRookSquares wm q) (homeR i) = true -> N.testbit (castleMask q) i = false.
Proof.
  intros Hi H. unfold revRookSquares, andn, a1Castle, h1Castle, a8Castle, h8Castle in H. cbv zeta in H.
  destruct (N.testbit (castleMask q) i) eqn:Hq; [|reflexivity]. exfalso.
  destruct (four_cases i Hi) as [-> | [-> | [-> | ->]]]; rewrite Hq in H; unfold homeR in H; cbn [N.eqb Pos.eqb] in H;
    destruct (N.testbit (castleMask q) 0), (N.testbit (castleMask q) 1), (N.testbit (castleMask q) 2), (N.testbit (castleMask q) 3);
    try discriminate;
    repeat (rewrite N.ldiff_spec in H); rewrite ?bit_bits, ?N.eqb_refl in H;
    repeat match type of H with context [?a =? ?b] => let v := eval vm_compute in (a =? b) in change (a =? b) with v in H end;
    cbn [negb andb] in H; rewrite ?andb_false_r in H; try discriminate.
Qed.

Section Consistent.
Variable zk : zkeys.
Hypothesis EKZ : emptyKeysZero zk.
Variable q : position.
Hypothesis Cq : Consistent zk q.
Hypothesis Hwf : WF q.
Variable incl : bool.
Variable um : unMove.
Hypothesis Hin : In um (genMoves zk q incl).

Let m := um_move um.
Let ui := um_ui um.
Let f := mfrom m.
Let t := mto m.
Let sqsQ := squares q.
Let mp := nthP sqsQ t.
Let wm := negb (whiteMove q).
Let prev := unMakeMove zk q m ui.

(** the class: no promotion, the piece on the to-square is not a pawn, and the move is not an un-castling *)
Hypothesis Hpr : mpromote m = EMPTY.
Hypothesis Hnp : isPawnPiece mp = false.
Hypothesis Hnu : isKingPiece mp = true -> t <> f + 2 /\ t + 2 <> f.

Lemma ep_none : epSquare q = (-1)%Z.
Proof.
  destruct (Z.eq_dec (epSquare q) (-1)) as [E|E]; [exact E|]. exfalso.
  destruct (proj1 (genMoves_In zk q incl um) Hin) as (Hc & _). destruct (candidates_clock q incl um Hc) as (_ & Hraw).
  fold m in Hraw. unfold revMoveList in Hraw. cbv zeta in Hraw.
  replace (epSquare q =? -1)%Z with false in Hraw by (symmetry; apply Z.eqb_neq; exact E).
  apply revAdd_to in Hraw. destruct Hraw as [[]|(Et & _)]. fold t in Et.
  destruct (WF_parts q Hwf) as (_ & _ & _ & _ & Ha).
  destruct (accepted_epShape _ Ha) as [H|(e & H1 & H2 & H3 & H4 & H5)]; cbn [abs sp_ep sp_white sp_board] in *; [contradiction|].
  rewrite H1, N2Z.id in Et. fold sqsQ in H5.
  assert (Hp : isPawnPiece mp = true).
  { unfold mp. rewrite Et. unfold sqAdd. unfold sqY in H3.
    destruct (whiteMove q); cbn [negb].
    - replace (Z.to_N (Z.of_N e + -8)) with (e - 8) by (pose proof (N.div_mod e 8 ltac:(lia)); lia). rewrite H5. reflexivity.
    - replace (Z.to_N (Z.of_N e + 8)) with (e + 8) by lia. rewrite H5. reflexivity. }
  congruence.
Qed.

Lemma raw_shape : RawPiece q m.
Proof.
  destruct (proj1 (genMoves_In zk q incl um) Hin) as (Hc & _). destruct (candidates_clock q incl um Hc) as (_ & Hraw).
  fold m in Hraw. rewrite (revMoveList_noep q ep_none) in Hraw.
  exact (raw_piece_shape q (WF_BoardOK q Hwf) (king_exists q _ Hwf) m Hraw Hpr Hnp).
Qed.

(** common facts of the five classes *)
Inductive PieceFacts : Prop :=
| mkPF (X : piece) :
    In X [WQUEEN; WROOK; WBISHOP; WKNIGHT; WKING] -> t < 64 -> mp = myPiece wm X -> f < 64 -> nthP sqsQ f = EMPTY ->
    (X = WROOK -> N.testbit (revRookSquares wm q) t = true) ->
    (X = WKING -> kingGuard q t = true /\ N.testbit (kingAttacks t) f = true) ->
    (X = WKNIGHT -> N.testbit (knightAttacks t) f = true) -> PieceFacts.

Lemma piece_facts : PieceFacts.
Proof.
  destruct raw_shape as [H|[(H & Hr)|[H|[H|[(H & Hg)|(k0 & kSq & Em & Hk0 & Hk2 & Hkk)]]]]].
  - destruct H as (_ & A & B & C & D & _).
    apply (mkPF WQUEEN (or_introl eq_refl) A B C D); intro EX; discriminate EX.
  - destruct H as (_ & A & B & C & D & _).
    apply (mkPF WROOK (or_intror (or_introl eq_refl)) A B C D); intro EX; try discriminate EX. exact Hr.
  - destruct H as (_ & A & B & C & D & _).
    apply (mkPF WBISHOP (or_intror (or_intror (or_introl eq_refl))) A B C D); intro EX; discriminate EX.
  - destruct H as (_ & A & B & C & D & E).
    apply (mkPF WKNIGHT (or_intror (or_intror (or_intror (or_introl eq_refl)))) A B C D); intro EX; try discriminate EX. exact E.
  - destruct H as (_ & A & B & C & D & E).
    apply (mkPF WKING (or_intror (or_intror (or_intror (or_intror (or_introl eq_refl))))) A B C D); intro EX; try discriminate EX.
    split; [exact Hg | exact E].
  - exfalso. assert (Ef : f = k0) by (unfold f; rewrite Em; reflexivity). assert (Et : t = kSq) by (unfold t; rewrite Em; reflexivity).
    assert (HK : isKingPiece mp = true) by (unfold mp; rewrite Et; exact Hkk).
    destruct (Hnu HK) as (A & B). rewrite Ef, Et in A, B. destruct Hk2; lia.
Qed.

Lemma own_X X : In X [WQUEEN; WROOK; WBISHOP; WKNIGHT; WKING] ->
  has_color wm (myPiece wm X) = true /\ myPiece wm X <> EMPTY /\
  (X <> WROOK -> forall i, myPiece wm X <> rookOf i) /\ (X <> WKING -> forall i, myPiece wm X <> kingOf i /\ isKingPiece (myPiece wm X) = false).
Proof.
  intro HX. cbn [In] in HX. generalize wm. intro b.
  destruct HX as [<-|[<-|[<-|[<-|[<-|[]]]]]]; destruct b; cbn; repeat split; try discriminate; try congruence;
    intros; unfold rookOf, kingOf; destruct (_ <? 2); try discriminate; try (split; [discriminate | reflexivity]).
Qed.

(** un-making and making again: the restored position satisfies the invariant and leads back to Q *)
Theorem consistent_pieces : Consistent zk prev /\ abs (successor zk prev m) = abs q.
Proof.
  destruct piece_facts as [X HX Ht Hmp Hf Hfe Hrk Hkg _].
  destruct (own_X X HX) as (Hcol & Hne & HnR & HnK).
  assert (Hft : f <> t) by (intro E; unfold mp in Hmp; rewrite <- E, Hfe in Hmp; symmetry in Hmp; contradiction).
  (* the undo information *)
  destruct (proj1 (genMoves_In zk q incl um) Hin) as (Hc & _).
  apply candidates_In in Hc. destruct Hc as (m' & _ & Hc). apply candidatesFor_In in Hc. cbv zeta in Hc.
  destruct Hc as (p0 & castle & epFile & Hp0 & Hv & Hca & _ & _ & Eum).
  assert (Em : m' = m) by (unfold m; rewrite Eum; reflexivity). subst m'.
  assert (Emp : movingPieceOf q m = mp) by (unfold movingPieceOf; rewrite Hpr; reflexivity).
  rewrite Emp in Hca, Eum.
  set (captured := if negb (whiteMove q) then makeBlack p0 else p0) in *.
  assert (Eui : ui = mkUndo captured (N.lor (getBaseCastleMask q m mp) castle)
                             (epSquareOfFile (negb (whiteMove q)) epFile) 0%Z) by (unfold ui; rewrite Eum; reflexivity).
  assert (Hcap : u_captured ui < 13).
  { rewrite Eui. cbn [u_captured]. unfold captured. cbn [In] in Hp0.
    destruct Hp0 as [<-|[<-|[<-|[<-|[<-|[<-|[<-|[]]]]]]]]; destruct (negb (whiteMove q)); cbv; reflexivity. }
  assert (HnpQ : isPawnPiece (nthP (squares q) (mto m)) = false) by exact Hnp.
  assert (Hking : isKingPiece mp = true -> (getKingDistance f t <= 1)%Z).
  { intro HK. destruct (N.eq_dec X WKING) as [EX|EX].
    - destruct (Hkg EX) as (_ & Hb). apply (kingStep_dist f t Hf Ht).
      destruct (sym_facts f t Hf Ht) as (_ & Es & _). rewrite Es. exact Hb.
    - destruct (HnK EX 0) as (_ & Hk'). rewrite Hmp in HK. congruence. }
  assert (Hflag : forall i, i < 4 -> N.testbit (castleMask q) i = true -> t <> homeR i /\ t <> homeK i).
  { intros i Hi Hq. destruct (rights_q q Hwf i Hi Hq) as (HK & HR). fold sqsQ in HK, HR. split; intro E.
    - (* the rook of right i stands on t *)
      assert (E2 : mp = rookOf i) by (unfold mp; rewrite E; exact HR).
      destruct (N.eq_dec X WROOK) as [EX|EX].
      + specialize (Hrk EX). rewrite E in Hrk. rewrite (rookSquares_flag q wm i Hi Hrk) in Hq. discriminate.
      + apply (HnR EX i). rewrite <- Hmp. exact E2.
    - assert (E2 : mp = kingOf i) by (unfold mp; rewrite E; exact HK).
      destruct (N.eq_dec X WKING) as [EX|EX].
      + destruct (Hkg EX) as (Hg & _). unfold kingGuard in Hg.
        unfold a1Castle, h1Castle, a8Castle, h8Castle in Hg. apply negb_true_iff, orb_false_iff in Hg. destruct Hg as (G1' & G2').
        destruct (four_cases i Hi) as [-> | [-> | [-> | ->]]].
        * change (homeK 0) with E1 in E. rewrite E, N.eqb_refl in G1'. cbn [andb] in G1'. apply orb_false_iff in G1'. destruct G1'; congruence.
        * change (homeK 1) with E1 in E. rewrite E, N.eqb_refl in G1'. cbn [andb] in G1'. apply orb_false_iff in G1'. destruct G1'; congruence.
        * change (homeK 2) with E8 in E. rewrite E, N.eqb_refl in G2'. cbn [andb] in G2'. apply orb_false_iff in G2'. destruct G2'; congruence.
        * change (homeK 3) with E8 in E. rewrite E, N.eqb_refl in G2'. cbn [andb] in G2'. apply orb_false_iff in G2'. destruct G2'; congruence.
      + apply (proj1 (HnK EX i)). rewrite <- Hmp. exact E2. }
  pose proof (prev_consistent zk q Cq m ui Hf Ht Hft Hcap Hpr HnpQ Hnu Hfe) as Cp.
  split; [exact Cp|].
  pose proof (remade_abs zk q Cq m ui Hf Ht Hft Hcap Hpr HnpQ Hnu Hfe) as Hr.
  pose proof (makeMove_abs zk (unMakeMove zk q m ui) m Cp Hf) as Hm. rewrite Hr in Hm.
  assert (Hcm : N.land (N.land (u_castleMask ui) (castleSqMask f)) (castleSqMask t) = castleMask q).
  { rewrite Eui. cbn [u_castleMask].
    apply (castle_back q Hwf m captured mp Hf Ht Hft Hfe); auto. }
  fold f t in Hm. rewrite Hcm in Hm.
  unfold successor, prev.
  assert (Hep1 : epSquare (fst (makeMove zk (unMakeMove zk q m ui) m)) = (-1)%Z) by (apply (f_equal sp_ep) in Hm; exact Hm).
  assert (Hfix : fixupEPSquare zk (fst (makeMove zk (unMakeMove zk q m ui) m)) = fst (makeMove zk (unMakeMove zk q m ui) m)).
  { unfold fixupEPSquare. cbv zeta. rewrite Hep1. reflexivity. }
  rewrite Hfix, Hm. unfold abs. rewrite ep_none. reflexivity.
Qed.

(** ** legality of knight and king un-moves by the FIDE rules *)
Lemma captured_not_own p0 : In p0 [EMPTY; WKING; WQUEEN; WROOK; WBISHOP; WKNIGHT; WPAWN] ->
  has_color wm (if wm then makeBlack p0 else p0) = false.
Proof.
  intro H. cbn [In] in H. generalize wm. intro b.
  destruct H as [<-|[<-|[<-|[<-|[<-|[<-|[<-|[]]]]]]]]; destruct b; reflexivity.
Qed.

Theorem legal_step X (offs : list (Z * Z)) (K : kind) (atk : square -> N) :
  (X = WKNIGHT /\ offs = knight_offsets /\ K = Knight /\ atk = knightAttacks) \/
  (X = WKING /\ offs = king_offsets /\ K = King /\ atk = kingAttacks) ->
  mp = myPiece wm X -> N.testbit (atk t) f = true -> f < 64 -> t < 64 -> nthP sqsQ f = EMPTY ->
  legal_spec (abs prev) m.
Proof.
  intros HXK Hmp Hatk Hf Ht Hfe.
  assert (Hspec : forall s, s < 64 -> atk s < 2 ^ 64 /\ forall t', t' < 64 -> N.testbit (atk s) t' = step_rel offs s t').
  { destruct HXK as [(_ & -> & _ & ->)|(_ & -> & _ & ->)]; [apply knightAttacks_spec | apply kingAttacks_spec]. }
  assert (Hsym : N.testbit (atk f) t = true).
  { destruct (sym_facts f t Hf Ht) as (E1' & E2' & _). destruct HXK as [(_ & _ & _ & ->)|(_ & _ & _ & ->)]; congruence. }
  assert (HmpK : mp = mk_piece wm K).
  { rewrite Hmp. destruct HXK as [(-> & _ & -> & _)|(-> & _ & -> & _)]; generalize wm; intros []; reflexivity. }
  assert (Hft : f <> t) by (intro E; unfold mp in HmpK; rewrite <- E, Hfe in HmpK; generalize dependent wm; intros [] ?; destruct K; discriminate).
  assert (Hnk2 : isKingPiece mp = true -> t <> f + 2 /\ t + 2 <> f) by exact Hnu.
  (* the undo information *)
  destruct (proj1 (genMoves_In zk q incl um) Hin) as (Hc & _).
  apply candidates_In in Hc. destruct Hc as (m' & _ & Hc). apply candidatesFor_In in Hc. cbv zeta in Hc.
  destruct Hc as (p0 & castle & epFile & Hp0 & _ & _ & _ & _ & Eum).
  assert (Em : m' = m) by (unfold m; rewrite Eum; reflexivity). subst m'.
  set (captured := if negb (whiteMove q) then makeBlack p0 else p0) in *.
  assert (Ecap : u_captured ui = captured) by (unfold ui; rewrite Eum; reflexivity).
  assert (Hcap : u_captured ui < 13).
  { rewrite Ecap. unfold captured. cbn [In] in Hp0.
    destruct Hp0 as [<-|[<-|[<-|[<-|[<-|[<-|[<-|[]]]]]]]]; destruct (negb (whiteMove q)); cbv; reflexivity. }
  assert (HnpQ : isPawnPiece (nthP (squares q) (mto m)) = false) by exact Hnp.
  pose proof (prev_abs zk q Cq m ui Hf Ht Hft Hcap Hpr HnpQ Hnu Hfe) as Ha.
  pose proof (prevBoard_f zk q Cq m ui Hf Ht Hft Hcap Hpr Hnu Hfe) as Bf. pose proof (prevBoard_t zk q Cq m ui Hf Ht Hft Hcap Hpr Hnu Hfe) as Bt.
  pose proof (remade_board zk q Cq m ui Hf Ht Hft Hcap Hpr Hnu Hfe) as Brm.
  fold f t sqsQ mp in Bf, Bt, Brm.
  set (pb := prevBoard q m ui) in *.
  assert (Hlen : length pb = 64%nat) by (unfold pb, prevBoard; rewrite !length_updN; apply (lenQ zk q Cq)).
  assert (Hat : forall s, s < 64 -> at_ pb (zf s) (zr s) = nthP pb s).
  { intros s Hs. destruct (coords_of_sq s Hs) as (Hob & Hi & _). unfold at_, nthP. rewrite Hob, Hi. reflexivity. }
  destruct (coords_of_sq f Hf) as (Hobf & _ & Hsf). destruct (coords_of_sq t Ht) as (Hobt & _ & Hst).
  assert (Hm : m = mkMove f t EMPTY) by (rewrite (move_eta m), Hpr; reflexivity).
  unfold prev. unfold legal_spec. rewrite Ha. split.
  - (* pseudo-legal *)
    unfold pseudo_moves. apply in_app_iff. left. apply in_flat_map. exists (zf f, zr f). split; [apply all_coords_on_board; exact Hobf|].
    cbn [fst snd].
    apply (piece_moves_In _ (zf f) (zr f) m).
    + cbn [sp_board]. rewrite (Hat f Hf), Bf, HmpK. generalize wm. intros []; destruct K; cbv; discriminate.
    + cbn [sp_board sp_white]. fold wm. rewrite (Hat f Hf), Bf.
      assert (Hstep : In m (step_moves pb wm (zf f) (zr f) offs)).
      { apply step_moves_In. destruct (Hspec f Hf) as (_ & Hs). rewrite (Hs t Ht) in Hsym. unfold step_rel in Hsym.
        apply existsb_exists in Hsym. destruct Hsym as (d & Hd & He). apply andb_true_iff in He. destruct He as (E1' & E2').
        apply Z.eqb_eq in E1', E2'. exists d. split; [exact Hd|]. rewrite <- E1', <- E2'. split; [exact Hobt|].
        split; [rewrite (Hat t Ht), Bt, Ecap; apply captured_not_own; exact Hp0|].
        unfold mv. rewrite Hsf, Hst. exact Hm. }
      destruct HXK as [(_ & -> & -> & _)|(_ & -> & -> & _)].
      * right. left. split; [exact HmpK | exact Hstep].
      * left. split; [exact HmpK | exact Hstep].
  - (* the own king is not attacked afterwards: the board is that of Q *)
    cbn [sp_white]. fold wm.
    assert (Hb : sp_board (make_spec (mkSpos pb wm (u_castleMask ui) (u_epSquare ui)) m) = sqsQ).
    { rewrite (make_spec_board _ m Hf Ht). cbv zeta. cbn [sp_board sp_white]. fold f t.
      change (nth (N.to_nat f) pb EMPTY) with (nthP pb f). change (nth (N.to_nat t) pb EMPTY) with (nthP pb t). rewrite Bf, Hpr.
      replace (is_piece wm Pawn mp) with false by (rewrite HmpK; generalize wm; intros []; destruct HXK as [(_ & _ & -> & _)|(_ & _ & -> & _)]; reflexivity).
      cbn [andb]. change (EMPTY =? EMPTY) with true. cbv iota.
      assert (Hk2 : (is_piece wm King mp && (zf t - zf f =? 2)%Z = false) /\ (is_piece wm King mp && (zf t - zf f =? -2)%Z = false)).
      { destruct HXK as [(_ & _ & -> & _)|(_ & -> & -> & ->)].
        - rewrite HmpK. split; generalize wm; intros []; reflexivity.
        - destruct (Hspec f Hf) as (_ & Hs). rewrite (Hs t Ht) in Hsym. unfold step_rel in Hsym.
          apply existsb_exists in Hsym. destruct Hsym as (d & Hd & He). apply andb_true_iff in He. destruct He as (E1' & _).
          apply Z.eqb_eq in E1'.
          assert (Hdx : (-1 <= fst d <= 1)%Z) by (cbn [In king_offsets] in Hd; destruct Hd as [<-|[<-|[<-|[<-|[<-|[<-|[<-|[<-|[]]]]]]]]]; cbn; lia).
          split; apply andb_false_iff; right; apply Z.eqb_neq; lia. }
      destruct Hk2 as (K1 & K2). rewrite K1, K2. exact Brm. }
    rewrite Hb.
    destruct (WF_parts q Hwf) as (_ & _ & _ & _ & Hacc). destruct (accepted_parts _ Hacc) as (_ & _ & _ & _ & Hck & _).
    cbn [abs sp_board sp_white] in Hck. exact Hck.
Qed.

Lemma myPiece_inj X Y : In X [WQUEEN; WROOK; WBISHOP; WKNIGHT; WKING] -> In Y [WKNIGHT; WKING] ->
  myPiece wm X = myPiece wm Y -> X = Y.
Proof.
  intros HX HY. cbn [In] in HX, HY. generalize wm. intros b.
  destruct HX as [<-|[<-|[<-|[<-|[<-|[]]]]]]; destruct HY as [<-|[<-|[]]]; destruct b; cbn; intro E; try reflexivity; discriminate.
Qed.

Theorem legal_knight_king : (mp = myPiece wm WKNIGHT \/ mp = myPiece wm WKING) -> legal_spec (abs prev) m.
Proof.
  intro Hk. destruct piece_facts as [X HX Ht Hmp Hf Hfe _ Hkg Hkn].
  destruct Hk as [E|E].
  - assert (EX : X = WKNIGHT) by (apply (myPiece_inj X WKNIGHT HX); [cbn; tauto | congruence]).
    rewrite EX in Hmp. exact (legal_step WKNIGHT knight_offsets Knight knightAttacks (or_introl (conj eq_refl (conj eq_refl (conj eq_refl eq_refl)))) Hmp (Hkn EX) Hf Ht Hfe).
  - assert (EX : X = WKING) by (apply (myPiece_inj X WKING HX); [cbn; tauto | congruence]).
    rewrite EX in Hmp. exact (legal_step WKING king_offsets King kingAttacks (or_intror (conj eq_refl (conj eq_refl (conj eq_refl eq_refl)))) Hmp (proj2 (Hkg EX)) Hf Ht Hfe).
Qed.

End Consistent.
