(** C15 proofs, part 5: the undo-information alternatives enumerated by genMoves for a reverse
    move contain the undo information of the predecessor: captured piece (validCapturePiece),
    castle mask (getBaseCastleMask / getCastleAddMask / the subset loop) and e.p. square
    (getEpMask / mustBeEpCapture). *)
From Coq Require Import ZArith NArith List Bool Lia.
From Texel Require Import Chess.Types Chess.Position Chess.PositionSpec Chess.PositionFacts
  Chess.PositionProofs Chess.PositionProofs2 Chess.PositionProofs3 Chess.PositionProofs4 Chess.PositionTheorems
  Chess.PositionSources Chess.Fen Chess.Spec Chess.BitBoard Chess.MoveGen Chess.MoveGenWF Chess.MoveGenProofs
  Chess.BitBoardProofs Chess.AttackProofs gen.BitBoardTables RevGen.RevGen RevGen.RevFacts RevGen.RevAbs RevGen.RevRestore RevGen.RevValid.
Import ListNotations.
Local Open Scope N_scope.
Ltac Zify.zify_post_hook ::= Z.div_mod_to_equations.

(** * the subset loop over the additional castle flags *)
Definition below16 : list N := [0; 1; 2; 3; 4; 5; 6; 7; 8; 9; 10; 11; 12; 13; 14; 15].
Lemma below16_In a : a < 16 -> In a below16.
Proof. intro H. unfold below16. cbn [In]. lia. Qed.

Definition castleAltOk (a c : N) : bool :=
  Bool.eqb (existsb (N.eqb c) (castleAlternatives a)) (N.land c a =? c).
Lemma castleAlt_sweep : forallb (fun a => forallb (castleAltOk a) below16) below16 = true.
Proof. vm_compute. reflexivity. Qed.

Lemma castleAlternatives_In a c : a < 16 -> c < 16 -> (In c (castleAlternatives a) <-> N.land c a = c).
Proof.
  intros Ha Hc. pose proof castleAlt_sweep as H. rewrite forallb_forall in H.
  specialize (H a (below16_In a Ha)). rewrite forallb_forall in H. specialize (H c (below16_In c Hc)).
  unfold castleAltOk in H. apply Bool.eqb_prop in H.
  split.
  - intro Hin. apply N.eqb_eq. rewrite <- H. apply existsb_exists. exists c. split; [exact Hin | apply N.eqb_refl].
  - intro E. apply N.eqb_eq in E. rewrite <- H in E. apply existsb_exists in E. destruct E as (x & Hx & Ex).
    apply N.eqb_eq in Ex. subst x. exact Hx.
Qed.

Lemma castleAlternatives_lt a c : a < 16 -> In c (castleAlternatives a) -> c < 16.
Proof.
  intros Ha Hin.
  assert (H : forallb (fun a => forallb (fun c => c <? 16) (castleAlternatives a)) below16 = true) by (vm_compute; reflexivity).
  rewrite forallb_forall in H. specialize (H a (below16_In a Ha)). rewrite forallb_forall in H.
  apply N.ltb_lt. apply H. exact Hin.
Qed.

(** * bits of maxMask and of castleSqMask *)
Lemma maxCastleMask_bits b i : i < 4 ->
  N.testbit (maxCastleMask b) i =
  (if i =? 0 then (boardAt b E1 =? WKING) && (boardAt b A1 =? WROOK)
   else if i =? 1 then (boardAt b E1 =? WKING) && (boardAt b H1 =? WROOK)
   else if i =? 2 then (boardAt b E8 =? BKING) && (boardAt b A8 =? BROOK)
   else (boardAt b E8 =? BKING) && (boardAt b H8 =? BROOK)).
Proof.
  intro Hi. assert (Hc : i = 0 \/ i = 1 \/ i = 2 \/ i = 3) by lia.
  unfold maxCastleMask. cbv zeta.
  destruct (boardAt b E1 =? WKING), (boardAt b A1 =? WROOK), (boardAt b H1 =? WROOK),
           (boardAt b E8 =? BKING), (boardAt b A8 =? BROOK), (boardAt b H8 =? BROOK);
    destruct Hc as [-> | [-> | [-> | ->]]]; reflexivity.
Qed.

Lemma maxCastleMask_lt b : maxCastleMask b < 16.
Proof.
  unfold maxCastleMask. cbv zeta.
  destruct (boardAt b E1 =? WKING), (boardAt b A1 =? WROOK), (boardAt b H1 =? WROOK),
           (boardAt b E8 =? BKING), (boardAt b A8 =? BROOK), (boardAt b H8 =? BROOK); vm_compute; reflexivity.
Qed.

Lemma castleSqMask_bits s i : i < 4 ->
  N.testbit (castleSqMask s) i =
  (if i =? 0 then negb ((s =? A1) || (s =? E1))
   else if i =? 1 then negb ((s =? H1) || (s =? E1))
   else if i =? 2 then negb ((s =? A8) || (s =? E8))
   else negb ((s =? H8) || (s =? E8))).
Proof.
  intro Hi. unfold castleSqMask.
  assert (Hc : i = 0 \/ i = 1 \/ i = 2 \/ i = 3) by lia.
  destruct (N.eqb_spec s A1) as [->|]; [destruct Hc as [-> | [-> | [-> | ->]]]; reflexivity|].
  destruct (N.eqb_spec s E1) as [->|]; [destruct Hc as [-> | [-> | [-> | ->]]]; reflexivity|].
  destruct (N.eqb_spec s H1) as [->|]; [destruct Hc as [-> | [-> | [-> | ->]]]; reflexivity|].
  destruct (N.eqb_spec s A8) as [->|]; [destruct Hc as [-> | [-> | [-> | ->]]]; reflexivity|].
  destruct (N.eqb_spec s E8) as [->|]; [destruct Hc as [-> | [-> | [-> | ->]]]; reflexivity|].
  destruct (N.eqb_spec s H8) as [->|]; [destruct Hc as [-> | [-> | [-> | ->]]]; reflexivity|].
  destruct Hc as [-> | [-> | [-> | ->]]]; reflexivity.
Qed.



Lemma nthP_updN s x v l : s < N.of_nat (length l) -> nthP (updN x v l) s = if s =? x then v else nthP l s.
Proof.
  intro H. destruct (N.eqb_spec s x) as [->|Hne].
  - apply nthP_updN_eq. exact H.
  - apply nthP_updN_neq. auto.
Qed.


Lemma kingDist_plus2 s : s + 2 < 64 -> (1 < getKingDistance s (s + 2)%N)%Z.
Proof.
  intro H. assert (Hs : s < 64) by lia.
  pose proof (sweep1 (fun s => if s + 2 <? 64 then (1 <? getKingDistance s (s + 2)%N)%Z else true) eq_refl s Hs) as G.
  cbv beta in G. replace (s + 2 <? 64) with true in G by (symmetry; apply N.ltb_lt; exact H).
  apply Z.ltb_lt. exact G.
Qed.
Lemma kingDist_minus2 s : 2 <= s -> s < 64 -> (1 < getKingDistance s (s - 2)%N)%Z.
Proof.
  intros H Hs.
  pose proof (sweep1 (fun s => if 2 <=? s then (1 <? getKingDistance s (s - 2)%N)%Z else true) eq_refl s Hs) as G.
  cbv beta in G. replace (2 <=? s) with true in G by (symmetry; apply N.leb_le; exact H).
  apply Z.ltb_lt. exact G.
Qed.


Lemma bit_bits k i : N.testbit (bit k) i = (k =? i).
Proof. unfold bit. rewrite N.shiftl_1_l. apply N.pow2_bits_eqb. Qed.

(** * the loops over e.p. files *)
Lemma epFiles_In mask x : mask < 2 ^ 64 -> (In x (epFiles mask) <-> N.testbit mask x = true).
Proof.
  intro H. unfold epFiles.
  rewrite (forSquares_In (fun l f => l ++ [f]) N (fun x l => In x l) (fun sq x => x = sq)).
  - split.
    + intros [[]|(sq & Hs & ->)]. exact Hs.
    + intro Hx. right. exists x. auto.
  - intros acc sq y _. rewrite in_app_iff. cbn [In]. intuition.
  - exact H.
Qed.

(** the file test of getEpMask on the reconstructed board *)
Definition epFileOk (board : list piece) (wtm : bool) (x : N) : bool :=
  let y := if wtm then 5 else 2 in
  let yUp := if wtm then 6 else 1 in
  let yDn := if wtm then 4 else 3 in
  let pawn := if wtm then WPAWN else BPAWN in
  let oPawn := if wtm then BPAWN else WPAWN in
  (boardAt board (mkSq x yUp) =? EMPTY) && (boardAt board (mkSq x y) =? EMPTY) && (boardAt board (mkSq x yDn) =? oPawn) &&
  (((0 <? x) && (boardAt board (mkSq (x - 1) yDn) =? pawn)) || ((x <? 7) && (boardAt board (mkSq (x + 1) yDn) =? pawn))).

Lemma epLoop_bits (board : list piece) (wtm : bool) (M init k : N) : M < 2 ^ 64 ->
  let y : N := if wtm then 5 else 2 in
  let yUp : N := if wtm then 6 else 1 in
  let yDn : N := if wtm then 4 else 3 in
  let pawn : piece := if wtm then WPAWN else BPAWN in
  let oPawn : piece := if wtm then BPAWN else WPAWN in
  (N.testbit (forSquares M (fun mask x =>
        if negb (boardAt board (mkSq x yUp) =? EMPTY) ||
           negb (boardAt board (mkSq x y) =? EMPTY) ||
           negb (boardAt board (mkSq x yDn) =? oPawn) then mask
        else if ((0 <? x) && (boardAt board (mkSq (x - 1) yDn) =? pawn)) ||
                ((x <? 7) && (boardAt board (mkSq (x + 1) yDn) =? pawn))
        then N.lor mask (bit x) else mask) init) k = true <->
   N.testbit init k = true \/ (N.testbit M k = true /\ epFileOk board wtm k = true)).
Proof.
  intros HM y yUp yDn pawn oPawn.
  rewrite (forSquares_In _ N (fun k mask => N.testbit mask k = true) (fun sq k => k = sq /\ epFileOk board wtm sq = true)).
  - split.
    + intros [H|(sq & Hs & -> & Hc)]; auto.
    + intros [H|(Hs & Hc)]; auto. right. exists k. auto.
  - intros acc sq j _. unfold epFileOk. cbv zeta. fold y yUp yDn pawn oPawn.
    destruct (boardAt board (mkSq sq yUp) =? EMPTY), (boardAt board (mkSq sq y) =? EMPTY),
             (boardAt board (mkSq sq yDn) =? oPawn); cbn [negb orb andb];
      try (split; [intro H; left; exact H | intros [H|(_ & H)]; [exact H | discriminate]]).
    destruct (_ || _).
    + rewrite N.lor_spec, bit_bits, orb_true_iff, N.eqb_eq. split.
      * intros [H|H]; [left; exact H | right; split; [symmetry; exact H | reflexivity]].
      * intros [H|(H & _)]; [left; exact H | right; symmetry; exact H].
    + split; [intro H; left; exact H | intros [H|(_ & H)]; [exact H | discriminate]].
  - exact HM.
Qed.

(** the four castling rights as a table: home squares and pieces of right [i] *)
Definition homeK (i : N) : square := if i <? 2 then E1 else E8.
Definition homeR (i : N) : square := if i =? 0 then A1 else if i =? 1 then H1 else if i =? 2 then A8 else H8.
Definition kingOf (i : N) : piece := if i <? 2 then WKING else BKING.
Definition rookOf (i : N) : piece := if i <? 2 then WROOK else BROOK.

Lemma four_cases i : i < 4 -> i = 0 \/ i = 1 \/ i = 2 \/ i = 3.
Proof. lia. Qed.

Lemma maxCastleMask_tbl b i : i < 4 ->
  N.testbit (maxCastleMask b) i = (boardAt b (homeK i) =? kingOf i) && (boardAt b (homeR i) =? rookOf i).
Proof.
  intro Hi. rewrite maxCastleMask_bits by exact Hi.
  destruct (four_cases i Hi) as [-> | [-> | [-> | ->]]]; reflexivity.
Qed.

Lemma castleSqMask_tbl s i : i < 4 ->
  N.testbit (castleSqMask s) i = negb ((s =? homeR i) || (s =? homeK i)).
Proof.
  intro Hi. rewrite castleSqMask_bits by exact Hi.
  destruct (four_cases i Hi) as [-> | [-> | [-> | ->]]]; reflexivity.
Qed.

Lemma bits16 x i : x < 16 -> 4 <= i -> N.testbit x i = false.
Proof.
  intros Hx Hi. destruct (N.eq_dec x 0) as [->|Hn]; [apply N.bits_0|].
  apply N.bits_above_log2. assert (N.log2 x < 4); [|lia].
  apply N.log2_lt_pow2; [lia|]. exact Hx.
Qed.

Lemma lt16_of_bits x : (forall i, 4 <= i -> N.testbit x i = false) -> x < 16.
Proof.
  intro H. destruct (N.lt_ge_cases x 16) as [|Hge]; [assumption|]. exfalso.
  assert (Hx : x <> 0) by lia.
  pose proof (N.bit_log2 x Hx) as Hb. rewrite H in Hb; [discriminate|].
  change 4 with (N.log2 16). apply N.log2_le_mono. exact Hge.
Qed.

(* ------------------------------------------------------------------ *)
(** * facts about a legal move that [moveOk] does not contain
      (all are consequences of legality by the FIDE rules; see RevLegal.v) *)
Record MoveFacts (p : position) (m : move) : Prop := mkMoveFacts {
  mf_ok : moveOk p m = true;
  mf_push : pushOk (abs p) m;
  (* the king is never captured *)
  mf_noking : isKingPiece (getPiece p (mto m)) = false;
  (* a king moves one step, or two files when castling with the right still present *)
  mf_king : isKingPiece (getPiece p (mfrom m)) = true ->
            (getKingDistance (mfrom m) (mto m) <= 1)%Z \/
            (getPiece p (mto m) = EMPTY /\
             ((mfrom m = E1 /\ mto m = G1 /\ N.testbit (castleMask p) 1 = true) \/
              (mfrom m = E1 /\ mto m = C1 /\ N.testbit (castleMask p) 0 = true) \/
              (mfrom m = E8 /\ mto m = G8 /\ N.testbit (castleMask p) 3 = true) \/
              (mfrom m = E8 /\ mto m = C8 /\ N.testbit (castleMask p) 2 = true)));
  (* pawns capture diagonally, and a diagonal step to an empty square is the e.p. capture *)
  mf_pawncap : isPawnPiece (getPiece p (mfrom m)) = true -> getPiece p (mto m) <> EMPTY -> sqX (mfrom m) <> sqX (mto m);
  mf_pawndiag : isPawnPiece (getPiece p (mfrom m)) = true -> sqX (mfrom m) <> sqX (mto m) ->
                getPiece p (mto m) = EMPTY -> Z.of_N (mto m) = epSquare p;
  mf_epdiag : isPawnPiece (getPiece p (mfrom m)) = true -> Z.of_N (mto m) = epSquare p -> sqX (mfrom m) <> sqX (mto m)
}.

Section Cand.
Variable zk : zkeys.
Hypothesis EKZ : emptyKeysZero zk.
Variable p : position.
Variable m : move.
Hypothesis Hrev : WFrev zk p.
Hypothesis MF : MoveFacts p m.

Let f := mfrom m.
Let t := mto m.
Let sqs := squares p.
Let pc := nthP sqs f.
Let cap := nthP sqs t.
Let w := whiteMove p.
Let newpc := if negb (mpromote m =? EMPTY) then mpromote m else pc.
Let q := successor zk p m.
Let sqsQ := squares q.

Lemma Hlen : length sqs = 64%nat.
Proof. destruct Hrev as [C _ _ _ _]. destruct C. exact c_len. Qed.

Lemma q_abs :
  sqsQ = sp_board (makeA (abs p) m) /\ whiteMove q = negb w /\
  castleMask q = N.land (N.land (castleMask p) (castleSqMask f)) (castleSqMask t).
Proof.
  destruct Hrev as [C _ _ _ _]. destruct (moveOk_facts p m (mf_ok p m MF)) as (Hf & _).
  pose proof (makeMove_abs zk p m C Hf) as A.
  unfold sqsQ, q, successor. rewrite squares_fixup.
  destruct (fixup_frame zk (fst (makeMove zk p m))) as (H1 & _ & H3 & _).
  rewrite H1, H3.
  apply (f_equal sp_board) in A as A1. apply (f_equal sp_white) in A as A2. apply (f_equal sp_castle) in A as A3.
  cbn [abs sp_board sp_white sp_castle makeA] in A1, A2, A3. auto.
Qed.

(** own piece on the from-square; colour facts *)
Lemma own_pc : ownPiece w pc = true.
Proof. destruct (moveOk_facts p m (mf_ok p m MF)) as (_ & _ & _ & H & _). exact H. Qed.

Lemma pawn_is_own : isPawnPiece pc = true -> pc = (if w then WPAWN else BPAWN).
Proof.
  intro H. pose proof own_pc as Ho. unfold isPawnPiece in H. apply orb_true_iff in H.
  destruct H as [H|H]; apply N.eqb_eq in H; rewrite H in *; destruct w; try reflexivity; discriminate.
Qed.
Lemma king_is_own : isKingPiece pc = true -> pc = (if w then WKING else BKING).
Proof.
  intro H. pose proof own_pc as Ho. unfold isKingPiece in H. apply orb_true_iff in H.
  destruct H as [H|H]; apply N.eqb_eq in H; rewrite H in *; destruct w; try reflexivity; discriminate.
Qed.

(** the board of Q, by kind of move *)
Inductive BoardQ : Prop :=
| BQ_plain : sqsQ = updN t newpc (updN f EMPTY sqs) ->
             (isPawnPiece pc = true -> Z.of_N t <> epSquare p) ->
             (isKingPiece pc = true -> t <> f + 2 /\ t + 2 <> f) -> BoardQ
| BQ_epW : pc = WPAWN -> w = true -> Z.of_N t = epSquare p -> 8 <= t -> cap = EMPTY -> mpromote m = EMPTY ->
           nthP sqs (t - 8) = BPAWN ->
           sqsQ = updN t WPAWN (updN f EMPTY (updN (t - 8) EMPTY sqs)) -> BoardQ
| BQ_epB : pc = BPAWN -> w = false -> Z.of_N t = epSquare p -> t + 8 < 64 -> cap = EMPTY -> mpromote m = EMPTY ->
           nthP sqs (t + 8) = WPAWN ->
           sqsQ = updN t BPAWN (updN f EMPTY (updN (t + 8) EMPTY sqs)) -> BoardQ
| BQ_castleK : isKingPiece pc = true -> t = f + 2 -> f + 3 < 64 -> cap = EMPTY -> mpromote m = EMPTY ->
           nthP sqs (f + 1) = EMPTY -> nthP sqs (f + 3) = (if w then WROOK else BROOK) ->
           sqsQ = updN t pc (updN f EMPTY (updN (f + 1) (if w then WROOK else BROOK) (updN (f + 3) EMPTY sqs))) -> BoardQ
| BQ_castleQ : isKingPiece pc = true -> t + 2 = f -> 4 <= f -> cap = EMPTY -> mpromote m = EMPTY ->
           nthP sqs (f - 1) = EMPTY -> nthP sqs (f - 4) = (if w then WROOK else BROOK) ->
           sqsQ = updN t pc (updN f EMPTY (updN (f - 1) (if w then WROOK else BROOK) (updN (f - 4) EMPTY sqs))) -> BoardQ.

Lemma promo_pawn : mpromote m <> EMPTY -> isPawnPiece pc = true.
Proof.
  intro H. destruct (moveOk_facts p m (mf_ok p m MF)) as (_ & _ & _ & _ & _ & Hp & _).
  destruct (Hp H) as (E & _). fold f in E. change (getPiece p f) with pc in E. rewrite E.
  destruct (whiteMove p); reflexivity.
Qed.

Lemma boardQ : BoardQ.
Proof.
  destruct q_abs as (Hq & _). unfold makeA in Hq. cbn [abs sp_board sp_ep fst] in Hq. fold sqs f t in Hq.
  destruct (moveOk_facts p m (mf_ok p m MF)) as (Hf & Ht & Hne & Hown & Hcapn & Hpro & Hep & HcK & HcQ).
  fold f t in Hf, Ht, Hne, Hown, Hcapn, Hpro, Hep, HcK, HcQ. fold w in Hown, Hcapn, Hpro, Hep, HcK, HcQ.
  change (getPiece p f) with pc in *. change (getPiece p t) with cap in *.
  unfold isCaptureBranch in Hq. fold f t in Hq. change (nthP sqs t) with cap in Hq. change (nthP sqs f) with pc in Hq.
  destruct (negb (cap =? EMPTY) || isPawnPiece pc) eqn:Hcb.
  - (* capture / pawn branch *)
    unfold captureA in Hq. cbn [fst] in Hq. fold f t newpc in Hq. unfold epBlockA in Hq. cbv zeta in Hq. fold f t in Hq.
    assert (Hnk : isKingPiece pc = true -> t <> f + 2 /\ t + 2 <> f).
    { intro Hk. pose proof (king_is_own Hk) as Ek.
      assert (Hnp : isPawnPiece pc = false) by (rewrite Ek; destruct w; reflexivity).
      rewrite Hnp, orb_false_r in Hcb. apply negb_true_iff, N.eqb_neq in Hcb.
      split; intro E.
      - destruct (HcK Ek E) as (Hc & _). contradiction.
      - assert (E2 : t = f - 2) by lia. destruct (HcQ Ek ltac:(lia) E2) as (Hc & _). contradiction. }
    destruct (N.eqb_spec pc WPAWN) as [Ew|Ew].
    + assert (Hw : w = true) by (rewrite Ew in Hown; destruct w; [reflexivity|discriminate]).
      destruct (Z.eqb_spec (Z.of_N t) (sqPlus f 16)) as [E16|E16].
      * cbn [fst] in Hq. apply BQ_plain; auto.
        intros _ E. rewrite Hw in Hep. destruct (Hep Ew E) as (_ & _ & _ & _ & Hx). unfold sqPlus in E16. lia.
      * destruct (Z.eqb_spec (Z.of_N t) (epSquare p)) as [Ee|Ee]; cbn [fst] in Hq.
        -- rewrite Hw in Hep. destruct (Hep Ew Ee) as (Hc & Hp & H8 & Hb & _).
           replace (toSq (sqPlus t (-8))) with (t - 8) in Hq by (unfold toSq, sqPlus; lia).
           apply BQ_epW; auto. unfold newpc in Hq. rewrite Hp in Hq. cbn in Hq. rewrite Ew in Hq. exact Hq.
        -- apply BQ_plain; auto.
    + destruct (N.eqb_spec pc BPAWN) as [Eb|Eb].
      * assert (Hw : w = false) by (rewrite Eb in Hown; destruct w; [discriminate|reflexivity]).
        destruct (Z.eqb_spec (Z.of_N t) (sqPlus f (-16))) as [E16|E16].
        -- cbn [fst] in Hq. apply BQ_plain; auto.
           intros _ E. rewrite Hw in Hep. destruct (Hep Eb E) as (_ & _ & _ & _ & Hx). unfold sqPlus in E16. lia.
        -- destruct (Z.eqb_spec (Z.of_N t) (epSquare p)) as [Ee|Ee]; cbn [fst] in Hq.
           ++ rewrite Hw in Hep. destruct (Hep Eb Ee) as (Hc & Hp & H8 & Hb & _).
              replace (toSq (sqPlus t 8)) with (t + 8) in Hq by (unfold toSq, sqPlus; lia).
              apply BQ_epB; auto. unfold newpc in Hq. rewrite Hp in Hq. cbn in Hq. rewrite Eb in Hq. exact Hq.
           ++ apply BQ_plain; auto.
      * cbn [fst] in Hq. apply BQ_plain; auto.
        intro Hpp. unfold isPawnPiece in Hpp. apply orb_true_iff in Hpp. destruct Hpp as [E|E]; apply N.eqb_eq in E; contradiction.
  - (* quiet branch *)
    apply orb_false_iff in Hcb. destruct Hcb as (Hce & Hnp). apply negb_false_iff, N.eqb_eq in Hce.
    assert (Hpr : mpromote m = EMPTY).
    { destruct (N.eq_dec (mpromote m) EMPTY) as [E|E]; [exact E|]. pose proof (promo_pawn E). congruence. }
    assert (Hnew : newpc = pc) by (unfold newpc; rewrite Hpr; reflexivity).
    cbn [fst] in Hq. unfold quietA, castleBlockA in Hq. cbv zeta in Hq. fold f t in Hq. change (nthP sqs f) with pc in Hq.
    destruct (isKingPiece pc) eqn:Hk.
    + pose proof (king_is_own Hk) as Ek.
      destruct (Z.eqb_spec (Z.of_N t) (sqPlus f 2)) as [E2|E2].
      * assert (Et : t = f + 2) by (unfold sqPlus in E2; lia).
        destruct (HcK Ek Et) as (_ & H3 & H1 & Hr).
        replace (toSq (sqPlus f 1)) with (f + 1) in Hq by (unfold toSq, sqPlus; lia).
        replace (toSq (sqPlus f 3)) with (f + 3) in Hq by (unfold toSq, sqPlus; lia).
        change (getPiece p (f + 1)) with (nthP sqs (f + 1)) in H1. change (getPiece p (f + 3)) with (nthP sqs (f + 3)) in Hr.
        apply BQ_castleK; auto. rewrite Hr in Hq.
        rewrite nthP_updN_neq in Hq by lia. rewrite nthP_updN_neq in Hq by lia. exact Hq.
      * destruct (Z.eqb_spec (Z.of_N t) (sqPlus f (-2))) as [E3|E3].
        -- assert (Et : t = f - 2 /\ 2 <= f) by (unfold sqPlus in E3; lia). destruct Et as (Et & H2).
           destruct (HcQ Ek H2 Et) as (_ & H4 & H1 & Hr).
           replace (toSq (sqPlus f (-1))) with (f - 1) in Hq by (unfold toSq, sqPlus; lia).
           replace (toSq (sqPlus f (-4))) with (f - 4) in Hq by (unfold toSq, sqPlus; lia).
           change (getPiece p (f - 1)) with (nthP sqs (f - 1)) in H1. change (getPiece p (f - 4)) with (nthP sqs (f - 4)) in Hr.
           apply BQ_castleQ; auto; [lia|]. rewrite Hr in Hq.
           rewrite nthP_updN_neq in Hq by lia. rewrite nthP_updN_neq in Hq by lia. exact Hq.
        -- apply BQ_plain.
           ++ rewrite Hnew. exact Hq.
           ++ intro. congruence.
           ++ intros _. unfold sqPlus in E2, E3. split; lia.
    + apply BQ_plain.
      * rewrite Hnew. exact Hq.
      * intro. congruence.
      * intro. congruence.
Qed.

(** ** the moving piece and the captured piece as genMoves reconstructs them *)
Lemma sqsQ_t : nthP sqsQ t = newpc.
Proof.
  pose proof Hlen as Hl.
  destruct (moveOk_facts p m (mf_ok p m MF)) as (Hf & Ht & _). fold f t in Hf, Ht.
  destruct boardQ as [Hq _ _|Ew _ _ _ _ Hp _ Hq|Eb _ _ _ _ Hp _ Hq|_ _ _ _ Hp _ _ Hq|_ _ _ _ Hp _ _ Hq];
    rewrite Hq; rewrite nthP_updN_eq by (rewrite !length_updN, Hl; lia);
    try reflexivity; unfold newpc; rewrite Hp; cbn; congruence.
Qed.

Lemma whiteMove_q : whiteMove q = negb w.
Proof. apply q_abs. Qed.

Lemma movingPiece_eq : movingPieceOf q m = pc.
Proof.
  unfold movingPieceOf. rewrite whiteMove_q, negb_involutive. fold t.
  change (getPiece q t) with (nthP sqsQ t). rewrite sqsQ_t. unfold newpc.
  destruct (N.eqb_spec (mpromote m) EMPTY) as [E|E]; cbn [negb]; [reflexivity|].
  symmetry. apply pawn_is_own. apply promo_pawn. exact E.
Qed.

Lemma cap_lt : cap < 13.
Proof. destruct Hrev as [C _ _ _ _]. destruct C. apply (getPiece_lt p t c_pieces). Qed.
Lemma pc_lt : pc < 13.
Proof. destruct Hrev as [C _ _ _ _]. destruct C. apply (getPiece_lt p f c_pieces). Qed.

Lemma cap_not_own : ownPiece w cap = false.
Proof. destruct (moveOk_facts p m (mf_ok p m MF)) as (_ & _ & _ & _ & H & _). exact H. Qed.

Lemma captured_eq : (if w then makeBlack (makeWhite cap) else makeWhite cap) = cap /\
                    In (makeWhite cap) [EMPTY; WKING; WQUEEN; WROOK; WBISHOP; WKNIGHT; WPAWN].
Proof.
  pose proof cap_not_own as H. pose proof cap_lt as Hl. revert H. generalize cap Hl. clear.
  intros c Hc. revert c Hc.
  apply (piece_cases (fun c => ownPiece w c = false ->
          (if w then makeBlack (makeWhite c) else makeWhite c) = c /\
          In (makeWhite c) [EMPTY; WKING; WQUEEN; WROOK; WBISHOP; WKNIGHT; WPAWN]));
    destruct w; cbn; intro H; try discriminate; split; try reflexivity; tauto.
Qed.

(** no pawn stands on the first or last rank of an accepted position *)
Lemma no_edge_pawn s : s < 64 -> (s < 8 \/ 56 <= s) -> isPawnPiece (getPiece p s) = false.
Proof.
  intros Hs He. destruct Hrev as [_ Hwf _ _ _]. destruct (WF_parts p Hwf) as (_ & _ & _ & _ & Ha).
  unfold accepted in Ha. cbv zeta in Ha. rewrite !andb_true_iff in Ha.
  destruct Ha as (((((((((((_ & _) & _) & _) & Hp) & _) & _) & _) & _) & _) & _) & _).
  rewrite forallb_forall in Hp. cbn [abs sp_board] in Hp.
  assert (Hin : In (zf s) [0; 1; 2; 3; 4; 5; 6; 7]%Z).
  { unfold zf. assert (0 <= Z.of_N s mod 8 < 8)%Z by (apply Z.mod_pos_bound; lia). cbn [In]. lia. }
  specialize (Hp _ Hin). rewrite !andb_true_iff, !negb_true_iff in Hp. destruct Hp as (((H1 & H2) & H3) & H4).
  rewrite (getPiece_at p s Hs). unfold isPawnPiece.
  unfold is_piece, mk_piece in H1, H2, H3, H4.
  destruct He as [He|He].
  - assert (zr s = 0%Z) by (unfold zr; apply Z.div_small; lia). rewrite H. rewrite H1, H2. reflexivity.
  - assert (zr s = 7%Z) by (unfold zr; lia). rewrite H. rewrite H3, H4. reflexivity.
Qed.

Lemma row18_bit s : s < 64 -> nz (N.land (bit s) maskRow1Row8) = (s <? 8) || (56 <=? s).
Proof.
  intro Hs. pose proof (sweep1 (fun s => Bool.eqb (nz (N.land (bit s) maskRow1Row8)) ((s <? 8) || (56 <=? s))) eq_refl s Hs) as H.
  apply Bool.eqb_prop in H. exact H.
Qed.

Lemma validCapture_ok : validCapturePiece m pc (makeWhite cap) = true.
Proof.
  destruct (moveOk_facts p m (mf_ok p m MF)) as (Hf & Ht & _). fold f t in Hf, Ht.
  unfold validCapturePiece. fold f t.
  destruct (N.eqb_spec (makeWhite cap) EMPTY) as [E0|E0]; [reflexivity|].
  assert (Hcne : cap <> EMPTY) by (intro E; apply E0; rewrite E; reflexivity).
  destruct (N.eqb_spec (makeWhite cap) WKING) as [E1|E1].
  { exfalso. pose proof (mf_noking p m MF) as Hn. fold t in Hn. change (getPiece p t) with cap in Hn.
    pose proof cap_lt as Hl. revert E1 Hn. generalize cap Hl.
    apply (piece_cases (fun c => makeWhite c = WKING -> isKingPiece c = false -> False)); cbn; intros; discriminate. }
  assert (Hshape : (if (pc =? WKING) || (pc =? BKING) then negb (1 <? getKingDistance f t)%Z
                    else if (pc =? WPAWN) || (pc =? BPAWN) then negb (sqX f =? sqX t) else true) = true).
  { destruct ((pc =? WKING) || (pc =? BKING)) eqn:Hk.
    - destruct (mf_king p m MF Hk) as [Hd|(Hce & _)].
      + fold f t in Hd. apply negb_true_iff, Z.ltb_ge. exact Hd.
      + fold t in Hce. contradiction.
    - destruct ((pc =? WPAWN) || (pc =? BPAWN)) eqn:Hp; [|reflexivity].
      apply negb_true_iff, N.eqb_neq. apply (mf_pawncap p m MF Hp). exact Hcne. }
  rewrite Hshape. cbn [negb].
  destruct (N.eqb_spec (makeWhite cap) WPAWN) as [E6|E6]; [|reflexivity].
  cbn [andb]. rewrite row18_bit by exact Ht.
  assert (Hpw : isPawnPiece cap = true).
  { pose proof cap_lt as Hl. revert E6. generalize cap Hl.
    apply (piece_cases (fun c => makeWhite c = WPAWN -> isPawnPiece c = true)); cbn; intros; try discriminate; reflexivity. }
  destruct ((t <? 8) || (56 <=? t)) eqn:Hedge; [|reflexivity].
  exfalso. apply orb_true_iff in Hedge.
  assert (He : t < 8 \/ 56 <= t) by (destruct Hedge as [H|H]; [left; apply N.ltb_lt; exact H | right; apply N.leb_le; exact H]).
  pose proof (no_edge_pawn t Ht He) as Hn. change (getPiece p t) with cap in Hn. congruence.
Qed.

(** ** castle mask alternatives *)
Ltac upd_simpl := repeat rewrite nthP_updN by (rewrite ?length_updN, Hlen; lia).

Lemma sqsQ_f : nthP sqsQ f = EMPTY.
Proof.
  destruct (moveOk_facts p m (mf_ok p m MF)) as (Hf & Ht & Hne & _). fold f t in Hf, Ht, Hne.
  destruct boardQ as [Hq _ _|_ _ _ _ _ _ _ Hq|_ _ _ _ _ _ _ Hq|_ _ _ _ _ _ _ Hq|_ _ _ _ _ _ _ Hq];
    rewrite Hq; upd_simpl;
    (replace (f =? t) with false by (symmetry; apply N.eqb_neq; auto)); rewrite N.eqb_refl; reflexivity.
Qed.

Lemma own_newpc : ownPiece w newpc = true.
Proof.
  unfold newpc. destruct (N.eqb_spec (mpromote m) EMPTY) as [E|E]; cbn [negb]; [apply own_pc|].
  destruct (moveOk_facts p m (mf_ok p m MF)) as (_ & _ & _ & _ & _ & Hp & _). apply (Hp E).
Qed.

Lemma cmP_lt : castleMask p < 16.
Proof.
  destruct Hrev as [_ Hwf _ _ _]. destruct (WF_parts p Hwf) as (_ & _ & _ & _ & Ha).
  destruct (accepted_parts _ Ha) as (_ & _ & _ & _ & _ & H & _). exact H.
Qed.

Lemma rights_pieces i : i < 4 -> N.testbit (castleMask p) i = true ->
  nthP sqs (homeK i) = kingOf i /\ nthP sqs (homeR i) = rookOf i.
Proof.
  intros Hi Hb. destruct Hrev as [_ Hwf _ _ _]. destruct (WF_parts p Hwf) as (_ & _ & _ & _ & Ha).
  destruct (accepted_parts _ Ha) as (_ & _ & _ & _ & _ & _ & H1 & H0 & H3 & H2).
  unfold has_right in H0, H1, H2, H3. cbn [abs sp_castle sp_board] in H0, H1, H2, H3.
  destruct (four_cases i Hi) as [-> | [-> | [-> | ->]]].
  - destruct (H0 Hb) as (A & B). apply N.eqb_eq in A, B. split; [exact A | exact B].
  - destruct (H1 Hb) as (A & B). apply N.eqb_eq in A, B. split; [exact A | exact B].
  - destruct (H2 Hb) as (A & B). apply N.eqb_eq in A, B. split; [exact A | exact B].
  - destruct (H3 Hb) as (A & B). apply N.eqb_eq in A, B. split; [exact A | exact B].
Qed.


Definition six : list square := [A1; E1; H1; A8; E8; H8].

Ltac nth_lit := repeat first [ rewrite nthP_updN_eq by (rewrite ?length_updN, Hlen; lia)
                             | rewrite nthP_updN_neq by lia ].
(* the four castling cases of before_six: everything becomes literal *)
Ltac castle_six Hq Epc Ef Et Ew Hr Hs :=
  let HK := fresh "HK" in
  assert (HK : nthP sqs f = pc) by reflexivity;
  rewrite Ef, Epc in HK;
  rewrite Ef, Ew in Hr; rewrite Hq, Epc, Ef, Et, Ew;
  change (WKING =? BKING) with false; change (WKING =? WKING) with true;
  change (BKING =? WKING) with false; change (BKING =? BKING) with true;
  unfold six in Hs; cbn [In] in Hs;
  destruct Hs as [<-|[<-|[<-|[<-|[<-|[<-|[]]]]]]];
  unfold A1, E1, H1, A8, E8, H8, G1, C1, G8, C8 in *;
  cbn [N.eqb Pos.eqb andb N.add Pos.add Pos.succ N.sub Pos.sub Pos.sub_mask Pos.double_mask Pos.succ_double_mask Pos.double_pred_mask Pos.pred_double] in *;
  cbv iota; nth_lit; try reflexivity; try (symmetry; assumption); try assumption.

(** which castling it is, when the king moves two files *)
Lemma castle_which :
  isKingPiece pc = true -> (t = f + 2 \/ t + 2 = f) ->
  cap = EMPTY /\
  ((f = E1 /\ t = G1 /\ N.testbit (castleMask p) 1 = true /\ pc = WKING /\ w = true) \/
   (f = E1 /\ t = C1 /\ N.testbit (castleMask p) 0 = true /\ pc = WKING /\ w = true) \/
   (f = E8 /\ t = G8 /\ N.testbit (castleMask p) 3 = true /\ pc = BKING /\ w = false) \/
   (f = E8 /\ t = C8 /\ N.testbit (castleMask p) 2 = true /\ pc = BKING /\ w = false)).
Proof.
  intros Hk Ht2.
  destruct (moveOk_facts p m (mf_ok p m MF)) as (Hf & Ht & _). fold f t in Hf, Ht.
  destruct (mf_king p m MF Hk) as [Hd|(Hc & Hw)].
  { exfalso. fold f t in Hd. destruct Ht2 as [E|E].
    - rewrite E in Hd. pose proof (kingDist_plus2 f ltac:(lia)). lia.
    - assert (E2 : t = f - 2) by lia. rewrite E2 in Hd. pose proof (kingDist_minus2 f ltac:(lia) Hf). lia. }
  fold f t in Hc, Hw.
  split; [exact Hc|].
  pose proof own_pc as Ho.
  destruct Hw as [(E1' & E2' & Hb)|[(E1' & E2' & Hb)|[(E1' & E2' & Hb)|(E1' & E2' & Hb)]]].
  - destruct (rights_pieces 1 ltac:(lia) Hb) as (Kp & _). change (homeK 1) with E1 in Kp. rewrite <- E1' in Kp.
    change (nthP sqs f) with pc in Kp. change (kingOf 1) with WKING in Kp.
    left. repeat split; auto. rewrite Kp in Ho. destruct w; [reflexivity|discriminate].
  - destruct (rights_pieces 0 ltac:(lia) Hb) as (Kp & _). change (homeK 0) with E1 in Kp. rewrite <- E1' in Kp.
    change (nthP sqs f) with pc in Kp. change (kingOf 0) with WKING in Kp.
    right; left. repeat split; auto. rewrite Kp in Ho. destruct w; [reflexivity|discriminate].
  - destruct (rights_pieces 3 ltac:(lia) Hb) as (Kp & _). change (homeK 3) with E8 in Kp. rewrite <- E1' in Kp.
    change (nthP sqs f) with pc in Kp. change (kingOf 3) with BKING in Kp.
    right; right; left. repeat split; auto. rewrite Kp in Ho. destruct w; [discriminate|reflexivity].
  - destruct (rights_pieces 2 ltac:(lia) Hb) as (Kp & _). change (homeK 2) with E8 in Kp. rewrite <- E1' in Kp.
    change (nthP sqs f) with pc in Kp. change (kingOf 2) with BKING in Kp.
    right; right; right. repeat split; auto. rewrite Kp in Ho. destruct w; [discriminate|reflexivity].
Qed.

Lemma ep_rank : (epSquare p <> -1)%Z -> Z.of_N t = epSquare p -> sqY t = (if w then 5 else 2).
Proof.
  intros Hne He. destruct Hrev as [_ Hwf _ _ _]. destruct (WF_parts p Hwf) as (_ & _ & _ & _ & Ha).
  destruct (accepted_epShape _ Ha) as [H|(e & H1 & _ & H3 & _)]; cbn [abs sp_ep sp_white] in *; [contradiction|].
  assert (e = t) by lia. subst e. exact H3.
Qed.


(** the board genMoves rebuilds for the castle flags agrees with the predecessor on the six squares *)
Lemma before_six s : In s six -> boardAt (castleBoardBefore q m pc cap) s = nthP sqs s.
Proof.
  intro Hs. change (boardAt (castleBoardBefore q m pc cap) s) with (nthP (castleBoardBefore q m pc cap) s).
  destruct (moveOk_facts p m (mf_ok p m MF)) as (Hf & Ht & Hne & _). fold f t in Hf, Ht, Hne.
  assert (Hs64 : s < 64) by (unfold six, A1, E1, H1, A8, E8, H8 in Hs; cbn [In] in Hs; lia).
  unfold castleBoardBefore. cbv zeta. fold f t. change (squares q) with sqsQ.
  destruct boardQ as [Hq Hpe Hkk|Ew Hw He Hge Hc Hp Hb Hq|Eb Hw He Hge Hc Hp Hb Hq|Hk Et Hf3 Hc Hp Hn1 Hr Hq|Hk Et Hf4 Hc Hp Hn1 Hr Hq].
  - (* plain *)
    assert (K1 : (pc =? WKING) && (f =? E1) = true -> (t =? G1) = false /\ (t =? C1) = false).
    { intro H. apply andb_true_iff in H. destruct H as (A & B). apply N.eqb_eq in A, B.
      assert (Hk : isKingPiece pc = true) by (rewrite A; reflexivity). destruct (Hkk Hk) as (X & Y).
      rewrite B in X, Y. unfold E1 in X, Y. split; apply N.eqb_neq; unfold G1, C1; lia. }
    assert (K2 : (pc =? BKING) && (f =? E8) = true -> (t =? G8) = false /\ (t =? C8) = false).
    { intro H. apply andb_true_iff in H. destruct H as (A & B). apply N.eqb_eq in A, B.
      assert (Hk : isKingPiece pc = true) by (rewrite A; reflexivity). destruct (Hkk Hk) as (X & Y).
      rewrite B in X, Y. unfold E8 in X, Y. split; apply N.eqb_neq; unfold G8, C8; lia. }
    destruct ((pc =? WKING) && (f =? E1)) eqn:C1'; [destruct (K1 eq_refl) as (-> & ->)|];
    (destruct ((pc =? BKING) && (f =? E8)) eqn:C2'; [destruct (K2 eq_refl) as (-> & ->)|]);
      rewrite Hq; upd_simpl;
      (destruct (N.eqb_spec s t) as [Est|Est]; [rewrite Est; reflexivity|]);
      (destruct (N.eqb_spec s f) as [Esf|Esf]; [rewrite Esf|]; reflexivity).
  - (* e.p. capture by white *)
    rewrite Ew. change ((WPAWN =? WKING) && (f =? E1)) with false. change ((WPAWN =? BKING) && (f =? E8)) with false. cbv iota.
    rewrite Hq; upd_simpl.
    assert (Hne1 : (epSquare p <> -1)%Z) by lia.
    pose proof (ep_rank Hne1 He) as Hy. rewrite Hw in Hy. unfold sqY in Hy.
    destruct (N.eqb_spec s t) as [Est|Est]; [rewrite Est; reflexivity|].
    destruct (N.eqb_spec s f) as [Esf|Esf]; [rewrite Esf; symmetry; exact Ew|].
    destruct (N.eqb_spec s (t - 8)) as [Es8|Es8]; [|reflexivity].
    exfalso. unfold six, A1, E1, H1, A8, E8, H8 in Hs; cbn [In] in Hs. lia.
  - (* e.p. capture by black *)
    rewrite Eb. change ((BPAWN =? WKING) && (f =? E1)) with false. change ((BPAWN =? BKING) && (f =? E8)) with false. cbv iota.
    rewrite Hq; upd_simpl.
    assert (Hne1 : (epSquare p <> -1)%Z) by lia.
    pose proof (ep_rank Hne1 He) as Hy. rewrite Hw in Hy. unfold sqY in Hy.
    destruct (N.eqb_spec s t) as [Est|Est]; [rewrite Est; reflexivity|].
    destruct (N.eqb_spec s f) as [Esf|Esf]; [rewrite Esf; symmetry; exact Eb|].
    destruct (N.eqb_spec s (t + 8)) as [Es8|Es8]; [|reflexivity].
    exfalso. unfold six, A1, E1, H1, A8, E8, H8 in Hs; cbn [In] in Hs. lia.
  - (* castling, king side *)
    destruct (castle_which Hk (or_introl Et)) as (_ & [(Ef & Et' & _ & Epc & Ew)|[(Ef & Et' & _)|[(Ef & Et' & _ & Epc & Ew)|(Ef & Et' & _)]]]);
      try (exfalso; rewrite Ef, Et' in Et; discriminate).
    + castle_six Hq Epc Ef Et' Ew Hr Hs.
    + castle_six Hq Epc Ef Et' Ew Hr Hs.
  - (* castling, queen side *)
    destruct (castle_which Hk (or_intror Et)) as (_ & [(Ef & Et' & _)|[(Ef & Et' & _ & Epc & Ew)|[(Ef & Et' & _)|(Ef & Et' & _ & Epc & Ew)]]]);
      try (exfalso; rewrite Ef, Et' in Et; discriminate).
    + castle_six Hq Epc Ef Et' Ew Hr Hs.
    + castle_six Hq Epc Ef Et' Ew Hr Hs.
Qed.

Lemma homes_in_six i : i < 4 -> In (homeK i) six /\ In (homeR i) six.
Proof. intro Hi. destruct (four_cases i Hi) as [-> | [-> | [-> | ->]]]; cbn; tauto. Qed.

Lemma kingOf_king i : isKingPiece (kingOf i) = true.
Proof. unfold kingOf. destruct (i <? 2); reflexivity. Qed.

Lemma cmQ_bits i : i < 4 ->
  N.testbit (castleMask q) i =
  N.testbit (castleMask p) i && negb ((f =? homeR i) || (f =? homeK i)) && negb ((t =? homeR i) || (t =? homeK i)).
Proof.
  intro Hi. destruct q_abs as (_ & _ & ->). rewrite !N.land_spec, !castleSqMask_tbl by exact Hi. reflexivity.
Qed.

(** a right of the predecessor that the move destroys is possible before and impossible after *)
Lemma lost_right i : i < 4 -> N.testbit (castleMask p) i = true -> N.testbit (castleMask q) i = false ->
  N.testbit (maxCastleMask (castleBoardBefore q m pc cap)) i = true /\ N.testbit (maxCastleMask sqsQ) i = false.
Proof.
  intros Hi Hp Hq.
  destruct (rights_pieces i Hi Hp) as (HK & HR). destruct (homes_in_six i Hi) as (IK & IR).
  split.
  - rewrite maxCastleMask_tbl by exact Hi. rewrite (before_six _ IK), (before_six _ IR), HK, HR, !N.eqb_refl. reflexivity.
  - rewrite maxCastleMask_tbl by exact Hi. rewrite cmQ_bits, Hp in Hq by exact Hi. cbn [andb] in Hq.
    change (boardAt sqsQ (homeK i)) with (nthP sqsQ (homeK i)). change (boardAt sqsQ (homeR i)) with (nthP sqsQ (homeR i)).
    apply andb_false_iff in Hq. destruct Hq as [Hq|Hq]; apply negb_false_iff, orb_true_iff in Hq; destruct Hq as [E|E]; apply N.eqb_eq in E.
    + (* the rook left its corner *)
      rewrite <- E, sqsQ_f. apply andb_false_iff. right. unfold rookOf. destruct (i <? 2); reflexivity.
    + rewrite <- E, sqsQ_f. apply andb_false_iff. left. unfold kingOf. destruct (i <? 2); reflexivity.
    + (* something arrived on the rook's corner: an enemy piece *)
      rewrite <- E, sqsQ_t. apply andb_false_iff. right. apply N.eqb_neq. intro En.
      pose proof own_newpc as H1. pose proof cap_not_own as H2.
      assert (Ec : cap = rookOf i) by (unfold cap; rewrite E; exact HR). rewrite En, <- Ec in H1. congruence.
    + (* ... or on the king's square: impossible *)
      exfalso. pose proof (mf_noking p m MF) as Hn. fold t in Hn. change (getPiece p t) with cap in Hn.
      assert (Ec : cap = kingOf i) by (unfold cap; rewrite E; exact HK). rewrite Ec, kingOf_king in Hn. discriminate.
Qed.

Lemma cmQ_lt : castleMask q < 16.
Proof.
  destruct q_abs as (_ & _ & ->). apply lt16_of_bits. intros i Hi. rewrite !N.land_spec, (bits16 _ i cmP_lt Hi). reflexivity.
Qed.

(** the minimum castle mask: flags of Q, plus the flag used up when the move is castling *)
Lemma base_form :
  getBaseCastleMask q m pc = castleMask q \/
  exists k, k < 4 /\ getBaseCastleMask q m pc = N.lor (castleMask q) (bit k) /\ N.testbit (castleMask p) k = true.
Proof.
  unfold getBaseCastleMask. fold f t.
  destruct ((pc =? WKING) || (pc =? BKING)) eqn:Hk; [|left; reflexivity].
  destruct (mf_king p m MF Hk) as [Hd|(_ & Hw)].
  - fold f t in Hd. replace (1 <? getKingDistance f t)%Z with false by (symmetry; apply Z.ltb_ge; exact Hd). left. reflexivity.
  - fold f t in Hw. destruct (1 <? getKingDistance f t)%Z; [|left; reflexivity]. cbn [andb].
    destruct Hw as [(_ & E & Hb)|[(_ & E & Hb)|[(_ & E & Hb)|(_ & E & Hb)]]]; rewrite E; right.
    + exists 1. repeat split; auto; reflexivity.
    + exists 0. repeat split; auto; reflexivity.
    + exists 3. repeat split; auto; reflexivity.
    + exists 2. repeat split; auto; reflexivity.
Qed.

Theorem castle_alternative :
  exists castle,
    In castle (castleAlternatives (andn (getCastleAddMask q m pc cap) (getBaseCastleMask q m pc))) /\
    N.lor (getBaseCastleMask q m pc) castle = castleMask p.
Proof.
  set (base := getBaseCastleMask q m pc). set (add := getCastleAddMask q m pc cap).
  assert (Hbase_lt : base < 16).
  { destruct base_form as [E|(k & Hk & E & _)]; fold base in E; rewrite E; [apply cmQ_lt|].
    apply lt16_of_bits. intros i Hi. rewrite N.lor_spec, (bits16 _ i cmQ_lt Hi), bit_bits.
    apply N.eqb_neq. lia. }
  assert (Hsub : forall i, N.testbit base i = true -> N.testbit (castleMask p) i = true).
  { intros i Hb. destruct (N.lt_ge_cases i 4) as [Hi|Hi]; [|rewrite (bits16 _ i Hbase_lt Hi) in Hb; discriminate].
    destruct base_form as [E|(k & Hk & E & Hpk)]; fold base in E; rewrite E in Hb.
    - rewrite cmQ_bits in Hb by exact Hi. apply andb_true_iff in Hb. destruct Hb as (Hb & _).
      apply andb_true_iff in Hb. apply Hb.
    - rewrite N.lor_spec, bit_bits in Hb. apply orb_true_iff in Hb. destruct Hb as [Hb|Hb].
      + rewrite cmQ_bits in Hb by exact Hi. apply andb_true_iff in Hb. destruct Hb as (Hb & _).
        apply andb_true_iff in Hb. apply Hb.
      + apply N.eqb_eq in Hb. subst i. exact Hpk. }
  assert (Hadd : forall i, N.testbit (castleMask p) i = true -> N.testbit base i = false -> N.testbit add i = true).
  { intros i Hp Hb. destruct (N.lt_ge_cases i 4) as [Hi|Hi]; [|rewrite (bits16 _ i cmP_lt Hi) in Hp; discriminate].
    assert (Hq : N.testbit (castleMask q) i = false).
    { destruct base_form as [E|(k & Hk & E & _)]; fold base in E; rewrite E in Hb; [exact Hb|].
      rewrite N.lor_spec in Hb. apply orb_false_iff in Hb. apply Hb. }
    destruct (lost_right i Hi Hp Hq) as (H1 & H2).
    unfold add, getCastleAddMask, andn. cbv zeta. rewrite N.ldiff_spec. change (squares q) with sqsQ. rewrite H1, H2. reflexivity. }
  exists (N.ldiff (castleMask p) base). split.
  - apply castleAlternatives_In.
    + apply lt16_of_bits. intros i Hi. unfold andn. rewrite N.ldiff_spec.
      unfold add, getCastleAddMask, andn. cbv zeta. rewrite N.ldiff_spec, (bits16 _ i (maxCastleMask_lt _) Hi). reflexivity.
    + apply lt16_of_bits. intros i Hi. rewrite N.ldiff_spec, (bits16 _ i cmP_lt Hi). reflexivity.
    + apply N.bits_inj. intro i. unfold andn. rewrite N.land_spec, !N.ldiff_spec.
      destruct (N.testbit (castleMask p) i) eqn:Hp; [|reflexivity].
      destruct (N.testbit base i) eqn:Hb; [reflexivity|]. rewrite (Hadd i Hp Hb). reflexivity.
  - apply N.bits_inj. intro i. rewrite N.lor_spec, N.ldiff_spec.
    destruct (N.testbit base i) eqn:Hb; [rewrite (Hsub i Hb); reflexivity|].
    destruct (N.testbit (castleMask p) i); reflexivity.
Qed.

(** ** e.p. square alternatives *)
Lemma land7 a : (0 <= a)%Z -> Z.land a 7 = (a mod 8)%Z.
Proof. intro H. change 7%Z with (Z.ones 3). rewrite Z.land_ones by lia. reflexivity. Qed.

(** what the domain says about the e.p. square of the predecessor *)
Lemma ep_facts e : epSquare p = Z.of_N e ->
  e < 64 /\ sqY e = (if w then 5 else 2) /\ nthP sqs e = EMPTY /\
  (if w then nthP sqs (e - 8) = BPAWN else nthP sqs (e + 8) = WPAWN) /\
  nthP sqs (if w then e + 8 else e - 8) = EMPTY /\
  (if w then ((0 <? sqX e) && (nthP sqs (e - 9) =? WPAWN)) || ((sqX e <? 7) && (nthP sqs (e - 7) =? WPAWN)) = true
   else ((0 <? sqX e) && (nthP sqs (e + 7) =? BPAWN)) || ((sqX e <? 7) && (nthP sqs (e + 9) =? BPAWN)) = true).
Proof.
  intro He. destruct Hrev as [Cp Hwf _ Hfix Horig]. destruct (WF_parts p Hwf) as (_ & _ & _ & _ & Ha).
  destruct (accepted_epShape _ Ha) as [H|(e' & H1 & H2 & H3 & H4 & H5)]; cbn [abs sp_ep sp_white sp_board] in *; [lia|].
  assert (e' = e) by lia. subst e'. fold w sqs in H3, H4, H5.
  split; [exact H2|]. split; [exact H3|]. split; [exact H4|]. split; [exact H5|]. split; [apply (Horig e He)|].
  (* adjacency: the fix-up kept the square, so one of the two captures is legal, so its pawn is there *)
  unfold fixupEPSquare in Hfix. cbv zeta in Hfix. rewrite He in Hfix.
  replace (Z.of_N e =? -1)%Z with false in Hfix by (symmetry; apply Z.eqb_neq; lia). cbn [negb] in Hfix.
  destruct (epCaptureLegalFrom zk p (Z.land (Z.of_N e) 7 - 1) || epCaptureLegalFrom zk p (Z.land (Z.of_N e) 7 + 1)) eqn:HL.
  2:{ exfalso. rewrite epSquare_setEpSquare in Hfix. lia. }
  clear Hfix. rewrite land7 in HL by lia.
  assert (Hx : (Z.of_N e mod 8 = Z.of_N (sqX e))%Z) by (unfold sqX; rewrite N2Z.inj_mod; reflexivity).
  assert (Hy : Z.shiftr (Z.of_N e) 3 = Z.of_N (sqY e)) by (rewrite Z.shiftr_div_pow2 by lia; unfold sqY; rewrite N2Z.inj_div; reflexivity).
  assert (HLf : forall fx, epCaptureLegalFrom zk p fx = true ->
            onBoard fx (if w then Z.of_N (sqY e) - 1 else Z.of_N (sqY e) + 1)%Z = true /\
            getPiece p (Z.to_N ((if w then Z.of_N (sqY e) - 1 else Z.of_N (sqY e) + 1) * 8 + fx)) = (if w then WPAWN else BPAWN)).
  { intros fx HLx. unfold epCaptureLegalFrom in HLx. cbv zeta in HLx. rewrite He, Hy in HLx. fold w in HLx.
    match type of HLx with (if ?c then _ else _) = true => destruct c eqn:Hc; [|discriminate] end.
    apply andb_true_iff in Hc. destruct Hc as (Hob & Hpc). apply N.eqb_eq in Hpc. unfold pieceAtXY in Hpc. rewrite Hob in Hpc. auto. }
  rewrite Hx in HL. unfold sqX, sqY in *.
  apply orb_true_iff in HL. destruct HL as [HL|HL]; destruct (HLf _ HL) as (Hob & Hpc); clear HLf;
    unfold onBoard in Hob; rewrite !andb_true_iff in Hob; destruct Hob as (((Hx0 & Hx7) & Hy0) & Hy7);
    apply Z.leb_le in Hx0, Hy0; apply Z.ltb_lt in Hx7, Hy7; change (getPiece p) with (nthP sqs) in Hpc;
    destruct w; rewrite H3 in *; apply orb_true_iff.
  - left. apply andb_true_iff. split; [apply N.ltb_lt; lia|]. apply N.eqb_eq. rewrite <- Hpc. f_equal. lia.
  - left. apply andb_true_iff. split; [apply N.ltb_lt; lia|]. apply N.eqb_eq. rewrite <- Hpc. f_equal. lia.
  - right. apply andb_true_iff. split; [apply N.ltb_lt; lia|]. apply N.eqb_eq. rewrite <- Hpc. f_equal. lia.
  - right. apply andb_true_iff. split; [apply N.ltb_lt; lia|]. apply N.eqb_eq. rewrite <- Hpc. f_equal. lia.
Qed.

Lemma must_ep : mustBeEpCapture m pc cap = true -> isPawnPiece pc = true /\ Z.of_N t = epSquare p.
Proof.
  unfold mustBeEpCapture. fold f t. intro H. apply andb_true_iff in H. destruct H as (H & Hc).
  apply andb_true_iff in H. destruct H as (Hp & Hd). apply N.eqb_eq in Hp, Hc. apply negb_true_iff, N.eqb_neq in Hd.
  assert (Hpp : isPawnPiece pc = true).
  { pose proof pc_lt as Hl. revert Hp. generalize pc Hl.
    apply (piece_cases (fun c => makeWhite c = WPAWN -> isPawnPiece c = true)); cbn; intros; try discriminate; reflexivity. }
  split; [exact Hpp|]. apply (mf_pawndiag p m MF Hpp Hd Hc).
Qed.

Lemma isEp_must : isPawnPiece pc = true -> Z.of_N t = epSquare p -> mustBeEpCapture m pc cap = true.
Proof.
  intros Hp He. unfold mustBeEpCapture. fold f t.
  assert (Hc : cap = EMPTY).
  { destruct (moveOk_facts p m (mf_ok p m MF)) as (_ & _ & _ & _ & _ & _ & Hep & _). fold f t w in Hep.
    apply (Hep (pawn_is_own Hp) He). }
  rewrite Hc, N.eqb_refl, andb_true_r.
  replace (makeWhite pc =? WPAWN) with true.
  2:{ symmetry. unfold isPawnPiece in Hp. apply orb_true_iff in Hp. destruct Hp as [E|E]; apply N.eqb_eq in E; rewrite E; reflexivity. }
  cbn [andb]. apply negb_true_iff, N.eqb_neq. apply (mf_epdiag p m MF Hp He).
Qed.

(** the board rebuilt for the e.p. test, when the move is not the e.p. capture: equal to the
    predecessor's on the ranks 2..7 (castling rooks are not put back, they stand on rank 1 / 8) *)
Lemma before_mid s : 8 <= s < 56 -> ~ (isPawnPiece pc = true /\ Z.of_N t = epSquare p) ->
  nthP (updN t cap (updN f pc sqsQ)) s = nthP sqs s.
Proof.
  intros Hs Hnot.
  destruct (moveOk_facts p m (mf_ok p m MF)) as (Hf & Ht & Hne & _). fold f t in Hf, Ht, Hne.
  destruct boardQ as [Hq Hpe Hkk|Ew Hw He Hge Hc Hp Hb Hq|Eb Hw He Hge Hc Hp Hb Hq|Hk Et Hf3 Hc Hp Hn1 Hr Hq|Hk Et Hf4 Hc Hp Hn1 Hr Hq].
  - rewrite Hq. upd_simpl.
    destruct (N.eqb_spec s t) as [Est|Est]; [rewrite Est; reflexivity|].
    destruct (N.eqb_spec s f) as [Esf|Esf]; [rewrite Esf|]; reflexivity.
  - exfalso. apply Hnot. rewrite Ew. auto.
  - exfalso. apply Hnot. rewrite Eb. auto.
  - destruct (castle_which Hk (or_introl Et)) as (_ & [(Ef & Et' & _)|[(Ef & Et' & _)|[(Ef & Et' & _)|(Ef & Et' & _)]]]);
      rewrite Hq, Ef, Et'; unfold E1, E8, G1, G8, C1, C8 in *; upd_simpl;
      repeat match goal with |- context [s =? ?c] => destruct (N.eqb_spec s c); [exfalso; lia|] end; reflexivity.
  - destruct (castle_which Hk (or_intror Et)) as (_ & [(Ef & Et' & _)|[(Ef & Et' & _)|[(Ef & Et' & _)|(Ef & Et' & _)]]]);
      rewrite Hq, Ef, Et'; unfold E1, E8, G1, G8, C1, C8 in *; upd_simpl;
      repeat match goal with |- context [s =? ?c] => destruct (N.eqb_spec s c); [exfalso; lia|] end; reflexivity.
Qed.

Lemma epFileOk_of_facts board e :
  epSquare p = Z.of_N e ->
  (forall s, 8 <= s < 56 -> nthP board s = nthP sqs s) ->
  epFileOk board w (sqX e) = true.
Proof.
  intros He Hb. destruct (ep_facts e He) as (H64 & Hy & Hemp & Hopp & Horig & Hadj).
  unfold epFileOk. cbv zeta. change boardAt with nthP. unfold sqY in Hy.
  assert (Hx : sqX e < 8) by (unfold sqX; apply N.mod_lt; lia).
  pose proof (N.div_mod e 8 ltac:(lia)) as Hdm. pose proof (N.mod_lt e 8 ltac:(lia)) as Hml.
  destruct w.
  - assert (E1' : mkSq (sqX e) 6 = e + 8) by (unfold mkSq, sqX; lia).
    assert (E2' : mkSq (sqX e) 5 = e) by (unfold mkSq, sqX; lia).
    assert (E3' : mkSq (sqX e) 4 = e - 8) by (unfold mkSq, sqX; lia).
    rewrite E1', E2', E3'. rewrite !Hb by (unfold mkSq, sqX in *; lia).
    rewrite Horig, Hemp, Hopp. cbn [N.eqb andb]. change (EMPTY =? EMPTY) with true. change (BPAWN =? BPAWN) with true. cbn [andb].
    apply orb_true_iff in Hadj. apply orb_true_iff. destruct Hadj as [Ha|Ha]; apply andb_true_iff in Ha; destruct Ha as (Ha1 & Ha2).
    + left. rewrite Ha1. cbn [andb]. apply N.ltb_lt in Ha1. rewrite ?Hb by (unfold mkSq, sqX in *; lia).
      replace (mkSq (sqX e - 1) 4) with (e - 9) by (unfold mkSq, sqX in *; lia). exact Ha2.
    + right. rewrite Ha1. cbn [andb]. apply N.ltb_lt in Ha1. rewrite ?Hb by (unfold mkSq, sqX in *; lia).
      replace (mkSq (sqX e + 1) 4) with (e - 7) by (unfold mkSq, sqX in *; lia). exact Ha2.
  - assert (E1' : mkSq (sqX e) 1 = e - 8) by (unfold mkSq, sqX; lia).
    assert (E2' : mkSq (sqX e) 2 = e) by (unfold mkSq, sqX; lia).
    assert (E3' : mkSq (sqX e) 3 = e + 8) by (unfold mkSq, sqX; lia).
    rewrite E1', E2', E3'. rewrite !Hb by (unfold mkSq, sqX in *; lia).
    rewrite Horig, Hemp, Hopp. change (EMPTY =? EMPTY) with true. change (WPAWN =? WPAWN) with true. cbn [andb].
    apply orb_true_iff in Hadj. apply orb_true_iff. destruct Hadj as [Ha|Ha]; apply andb_true_iff in Ha; destruct Ha as (Ha1 & Ha2).
    + left. rewrite Ha1. cbn [andb]. apply N.ltb_lt in Ha1. rewrite ?Hb by (unfold mkSq, sqX in *; lia).
      replace (mkSq (sqX e - 1) 3) with (e + 7) by (unfold mkSq, sqX in *; lia). exact Ha2.
    + right. rewrite Ha1. cbn [andb]. apply N.ltb_lt in Ha1. rewrite ?Hb by (unfold mkSq, sqX in *; lia).
      replace (mkSq (sqX e + 1) 3) with (e + 9) by (unfold mkSq, sqX in *; lia). exact Ha2.
Qed.

Lemma epSquareOfFile_ep e : epSquare p = Z.of_N e -> epSquareOfFile w (sqX e) = Z.of_N e.
Proof.
  intro He. destruct (ep_facts e He) as (H64 & Hy & _). unfold epSquareOfFile.
  assert (Hx : sqX e < 8) by (unfold sqX; apply N.mod_lt; lia).
  replace (sqX e =? 8) with false by (symmetry; apply N.eqb_neq; lia).
  pose proof (N.div_mod e 8 ltac:(lia)) as Hdm. pose proof (N.mod_lt e 8 ltac:(lia)) as Hml.
  f_equal. unfold sqY in Hy. unfold mkSq, sqX. destruct w; lia.
Qed.

Lemma mask255_lt x : x < 8 -> N.lor 255 (bit x) < 2 ^ 64 /\ bit x < 2 ^ 64 /\ N.testbit (N.lor 255 (bit x)) x = true /\ N.testbit 255 x = true.
Proof.
  intro H. assert (Hc : x = 0 \/ x = 1 \/ x = 2 \/ x = 3 \/ x = 4 \/ x = 5 \/ x = 6 \/ x = 7) by lia.
  repeat (destruct Hc as [->|Hc]; [repeat split; vm_compute; reflexivity|]). subst x. repeat split; vm_compute; reflexivity.
Qed.

Theorem ep_alternative incl :
  (incl = true \/ epSquare p = (-1)%Z \/ (isPawnPiece pc = true /\ Z.of_N t = epSquare p)) ->
  exists epFile,
    In epFile (epFiles (getEpMask q m pc cap incl)) /\
    epSquareOfFile w epFile = epSquare p /\
    mustBeEpCapture m pc cap && negb (Z.of_N t =? epSquare p)%Z = false.
Proof.
  intro Hinc.
  assert (Hfin : mustBeEpCapture m pc cap && negb (Z.of_N t =? epSquare p)%Z = false).
  { destruct (mustBeEpCapture m pc cap) eqn:Hm; [|reflexivity]. destruct (must_ep Hm) as (_ & E).
    rewrite E, Z.eqb_refl. reflexivity. }
  destruct (moveOk_facts p m (mf_ok p m MF)) as (Hf & Ht & Hne & _). fold f t in Hf, Ht, Hne.
  assert (Hxt : sqX t < 8) by (unfold sqX; apply N.mod_lt; lia).
  unfold getEpMask. cbv zeta. rewrite whiteMove_q, negb_involutive. fold t.
  set (y := if w then 5 else 2). set (yUp := if w then 6 else 1). set (yDn := if w then 4 else 3).
  set (oPawn := if w then BPAWN else WPAWN).
  destruct (mustBeEpCapture m pc cap) eqn:Hm.
  - (* the move is the e.p. capture *)
    destruct (must_ep Hm) as (Hpp & He).
    assert (Hne1 : (epSquare p <> -1)%Z) by lia.
    pose proof (ep_rank Hne1 He) as Hy. fold y in Hy. rewrite Hy, N.eqb_refl. cbn [andb].
    symmetry in He. destruct (ep_facts t He) as (_ & _ & Hemp & Hopp & Horig & _).
    assert (Hdiag : sqX f <> sqX t) by (apply (mf_epdiag p m MF Hpp); auto).
    assert (Hcap0 : cap = EMPTY) by exact Hemp.
    (* the two squares that must be empty in Q *)
    assert (HQ : getPiece q (mkSq (sqX t) yUp) = EMPTY /\ getPiece q (mkSq (sqX t) yDn) = EMPTY /\
                 forall s, s < 64 -> nthP (updN (mkSq (sqX t) yDn) oPawn (updN t cap (updN f pc sqsQ))) s = nthP sqs s).
    { change (getPiece q) with (nthP sqsQ). unfold y, yUp, yDn, oPawn in *. unfold sqY in Hy.
      pose proof (N.div_mod t 8 ltac:(lia)) as Hdm. pose proof (N.mod_lt t 8 ltac:(lia)) as Hml.
      pose proof (N.div_mod f 8 ltac:(lia)) as Hdmf. pose proof (N.mod_lt f 8 ltac:(lia)) as Hmlf.
      destruct boardQ as [Hq Hpe Hkk|Ew Hw He' Hge Hc Hp Hb Hq|Eb Hw He' Hge Hc Hp Hb Hq|Hk Et Hf3 Hc Hp Hn1 Hr Hq|Hk Et Hf4 Hc Hp Hn1 Hr Hq].
      - exfalso. apply (Hpe Hpp). auto.
      - rewrite Hw in *. replace (mkSq (sqX t) 6) with (t + 8) by (unfold mkSq, sqX; lia).
        replace (mkSq (sqX t) 4) with (t - 8) by (unfold mkSq, sqX; lia). rewrite Hq.
        assert (f <> t + 8).
        { intro E; apply Hdiag; rewrite E; unfold sqX.
          pose proof (N.div_mod (t + 8) 8 ltac:(lia)). pose proof (N.mod_lt (t + 8) 8 ltac:(lia)). lia. }
        assert (f <> t - 8).
        { intro E; apply Hdiag; rewrite E; unfold sqX.
          pose proof (N.div_mod (t - 8) 8 ltac:(lia)). pose proof (N.mod_lt (t - 8) 8 ltac:(lia)). lia. }
        split; [|split].
        + upd_simpl. repeat match goal with |- context [?a =? ?c] => destruct (N.eqb_spec a c); [exfalso; lia|] end. exact Horig.
        + upd_simpl. repeat match goal with |- context [?a =? ?c] => destruct (N.eqb_spec a c); try (exfalso; lia) end; reflexivity.
        + intros s Hs. upd_simpl.
          destruct (N.eqb_spec s (t - 8)) as [E8'|E8']; [rewrite E8'; symmetry; exact Hopp|].
          destruct (N.eqb_spec s t) as [Est|Est]; [rewrite Est; reflexivity|].
          destruct (N.eqb_spec s f) as [Esf|Esf]; [rewrite Esf; reflexivity|]. reflexivity.
      - rewrite Hw in *. replace (mkSq (sqX t) 1) with (t - 8) by (unfold mkSq, sqX; lia).
        replace (mkSq (sqX t) 3) with (t + 8) by (unfold mkSq, sqX; lia). rewrite Hq.
        assert (f <> t + 8).
        { intro E; apply Hdiag; rewrite E; unfold sqX.
          pose proof (N.div_mod (t + 8) 8 ltac:(lia)). pose proof (N.mod_lt (t + 8) 8 ltac:(lia)). lia. }
        assert (f <> t - 8).
        { intro E; apply Hdiag; rewrite E; unfold sqX.
          pose proof (N.div_mod (t - 8) 8 ltac:(lia)). pose proof (N.mod_lt (t - 8) 8 ltac:(lia)). lia. }
        split; [|split].
        + upd_simpl. repeat match goal with |- context [?a =? ?c] => destruct (N.eqb_spec a c); [exfalso; lia|] end. exact Horig.
        + upd_simpl. repeat match goal with |- context [?a =? ?c] => destruct (N.eqb_spec a c); try (exfalso; lia) end; reflexivity.
        + intros s Hs. upd_simpl.
          destruct (N.eqb_spec s (t + 8)) as [E8'|E8']; [rewrite E8'; symmetry; exact Hopp|].
          destruct (N.eqb_spec s t) as [Est|Est]; [rewrite Est; reflexivity|].
          destruct (N.eqb_spec s f) as [Esf|Esf]; [rewrite Esf; reflexivity|]. reflexivity.
      - exfalso. pose proof (king_is_own Hk) as Ek. rewrite Ek in Hpp. destruct w; discriminate.
      - exfalso. pose proof (king_is_own Hk) as Ek. rewrite Ek in Hpp. destruct w; discriminate. }
    destruct HQ as (HQ1 & HQ2 & HQ3). rewrite HQ1, HQ2, !N.eqb_refl. cbn [andb negb].
    destruct (mask255_lt (sqX t) Hxt) as (L1 & L2 & B1 & B2).
    set (M := N.lor (if incl then 255 else 0) (bit (sqX t))).
    assert (HM : M < 2 ^ 64 /\ N.testbit M (sqX t) = true).
    { unfold M. destruct incl; [split; assumption|]. rewrite N.lor_0_l. split; [exact L2|]. rewrite bit_bits. apply N.eqb_refl. }
    destruct HM as (HM1 & HM2).
    replace (negb (M =? 0)) with true.
    2:{ symmetry. apply negb_true_iff, N.eqb_neq. intro E. rewrite E, N.bits_0 in HM2. discriminate. }
    exists (sqX t). split; [|split; [|exact Hfin]].
    + apply epFiles_In.
      { (* the result is below 2^64: bit 8 or a file bit *)
        apply lt_2_64_of_bits. intros i Hi. unfold epBoardBefore in Hi. fold f t in Hi. change (squares q) with sqsQ in Hi.
        apply (epLoop_bits _ w M (bit 8) i HM1) in Hi. destruct Hi as [Hi|(Hi & _)].
        - rewrite bit_bits in Hi. apply N.eqb_eq in Hi. lia.
        - apply (bits_below_64 M HM1 i Hi). }
      unfold epBoardBefore. fold f t. change (squares q) with sqsQ.
      apply (epLoop_bits _ w M (bit 8) (sqX t) HM1). right. split; [exact HM2|].
      apply (epFileOk_of_facts _ t He). intros s Hs. apply HQ3. lia.
    + rewrite (epSquareOfFile_ep t He). symmetry. exact He.
  - (* any other move *)
    cbn [andb]. set (M := if incl then 255 else 0).
    assert (Hnot : ~ (isPawnPiece pc = true /\ Z.of_N t = epSquare p)).
    { intros (A & B). rewrite (isEp_must A B) in Hm. discriminate. }
    assert (HM1 : M < 2 ^ 64) by (unfold M; destruct incl; vm_compute; reflexivity).
    match goal with |- context [epFiles ?R] => set (res := R) end.
    assert (Hres : forall k, N.testbit res k = true <->
                   k = 8 \/ (N.testbit M k = true /\ epFileOk (epBoardBefore q m pc cap false (sqX t) yDn oPawn) w k = true)).
    { intro k. unfold res. destruct (N.eqb_spec M 0) as [E0|E0]; cbn [negb].
      - rewrite bit_bits, N.eqb_eq, E0, N.bits_0. split; [intro H; left; auto | intros [H|(H & _)]; [auto | discriminate]].
      - split.
        + intro Hi. apply (epLoop_bits (epBoardBefore q m pc cap false (sqX t) yDn oPawn) w M (bit 8) k HM1) in Hi.
          rewrite bit_bits, N.eqb_eq in Hi. destruct Hi as [Hi|Hi]; auto.
        + intro Hi. apply (epLoop_bits (epBoardBefore q m pc cap false (sqX t) yDn oPawn) w M (bit 8) k HM1).
          rewrite bit_bits, N.eqb_eq. destruct Hi as [Hi|Hi]; auto. }
    clearbody res.
    destruct (Z.eq_dec (epSquare p) (-1)) as [Em|Em].
    + exists 8. split; [|split; [|exact Hfin]].
      * apply epFiles_In.
        { apply lt_2_64_of_bits. intros i Hi. apply Hres in Hi. destruct Hi as [->|(Hi & _)]; [lia|apply (bits_below_64 M HM1 i Hi)]. }
        apply Hres. left. reflexivity.
      * rewrite Em. reflexivity.
    + assert (Hincl : incl = true) by (destruct Hinc as [H|[H|H]]; [exact H | contradiction | exfalso; exact (Hnot H)]).
      destruct Hrev as [_ Hwf _ _ _]. destruct (WF_parts p Hwf) as (_ & _ & _ & _ & Ha).
      destruct (accepted_epShape _ Ha) as [H|(e & H1 & H2 & _)]; cbn [abs sp_ep] in *; [contradiction|].
      assert (Hxe : sqX e < 8) by (unfold sqX; apply N.mod_lt; lia).
      exists (sqX e). split; [|split; [|exact Hfin]].
      * apply epFiles_In.
        { apply lt_2_64_of_bits. intros i Hi. apply Hres in Hi. destruct Hi as [->|(Hi & _)]; [lia|apply (bits_below_64 M HM1 i Hi)]. }
        apply Hres. right. split.
        -- unfold M. rewrite Hincl. apply (mask255_lt (sqX e) Hxe).
        -- apply (epFileOk_of_facts _ e H1). intros s Hs. unfold epBoardBefore. fold f t. change (squares q) with sqsQ.
           apply before_mid; auto.
      * rewrite (epSquareOfFile_ep e H1). symmetry. exact H1.
Qed.

(** ** the candidate with the undo information of the predecessor *)
Lemma undo_of_make : snd (makeMove zk p m) = mkUndo cap (castleMask p) (epSquare p) (halfMoveClock p).
Proof. reflexivity. Qed.

Theorem candidate_of_raw incl :
  (incl = true \/ epSquare p = (-1)%Z \/ (isPawnPiece pc = true /\ Z.of_N t = epSquare p)) ->
  In (mkUnMove m (withClock (snd (makeMove zk p m)) 0)) (candidatesFor q incl m).
Proof.
  intro Hinc. apply candidatesFor_In. cbv zeta.
  rewrite whiteMove_q, negb_involutive, movingPiece_eq.
  destruct captured_eq as (Hcap & Hin).
  destruct castle_alternative as (castle & Hc1 & Hc2).
  destruct (ep_alternative incl Hinc) as (epFile & He1 & He2 & He3).
  exists (makeWhite cap), castle, epFile. fold w. rewrite Hcap.
  split; [exact Hin|]. split; [apply validCapture_ok|]. split; [exact Hc1|]. split; [exact He1|].
  split; [rewrite He2; exact He3|].
  rewrite Hc2, He2. reflexivity.
Qed.

End Cand.

(** * Completeness of genMoves, given that the reverse move itself is generated *)
Section CompleteGivenRaw.
Variable zk : zkeys.
Hypothesis EKZ : emptyKeysZero zk.

Theorem complete_given_raw p m incl :
  WFrev zk p -> MoveFacts p m ->
  (incl = true \/ epSquare p = (-1)%Z \/
   (isPawnPiece (getPiece p (mfrom m)) = true /\ Z.of_N (mto m) = epSquare p)) ->
  let q := successor zk p m in
  let ui0 := withClock (snd (makeMove zk p m)) 0 in
  In m (revMoveList q) ->
  In (mkUnMove m ui0) (genMoves zk q incl) /\
  normEmpty (unMakeMove zk q m ui0) = normEmpty (set_halfMoveClock p 0).
Proof.
  intros Hrev MF Hinc q ui0 Hraw. split.
  - apply genMoves_In. split.
    + apply candidates_In. exists m. split; [exact Hraw|]. apply (candidate_of_raw zk p m Hrev MF incl Hinc).
    + cbn [um_move um_ui]. apply (restored_not_knownInvalid zk EKZ p m Hrev (mf_ok p m MF) (mf_push p m MF)).
  - destruct Hrev as [Cp _ _ _ _]. apply (restore_clock0 zk EKZ p m Cp (mf_ok p m MF)).
Qed.

End CompleteGivenRaw.
