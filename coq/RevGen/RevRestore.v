(** C15 proofs, part 3: the undo information of (P, m) with the clock field set to 0 — the only
    form RevMoveGen reports — takes Q = fixupEP(makeMove P m) back to P with halfMoveClock 0.
    Built on C02's take-back theorem (Chess/PositionTheorems.v: make_unmake_general). *)
From Coq Require Import ZArith NArith List Bool Lia.
From Texel Require Import Chess.Types Chess.Position Chess.PositionSpec Chess.PositionFacts
  Chess.PositionProofs Chess.PositionProofs2 Chess.PositionProofs3 Chess.PositionProofs4 Chess.PositionTheorems
  Chess.PositionSources Chess.Fen.
Import ListNotations.
Local Open Scope N_scope.

(** the undo information with the clock field replaced *)
Definition withClock (ui : undoInfo) (h : Z) : undoInfo :=
  mkUndo (u_captured ui) (u_castleMask ui) (u_epSquare ui) h.

Section Restore.
Variable zk : zkeys.

(** set_halfMoveClock commutes with everything unMakeMove does after restoring the clock *)
Lemma setPiece_hmc p sq pc h : setPiece zk (set_halfMoveClock p h) sq pc = set_halfMoveClock (setPiece zk p sq pc) h.
Proof.
  destruct p. unfold setPiece, removedBlock, addedBlock, getPiece, ptBB. cbv zeta. proj_simpl.
  break_if; reflexivity.
Qed.
Lemma mpnp_hmc p f t h :
  movePieceNotPawn zk (set_halfMoveClock p h) f t = set_halfMoveClock (movePieceNotPawn zk p f t) h.
Proof.
  destruct p. unfold movePieceNotPawn, getPiece, ptBB. cbv zeta. proj_simpl.
  break_if; reflexivity.
Qed.
Lemma hmc_hmc p h h' : set_halfMoveClock (set_halfMoveClock p h') h = set_halfMoveClock p h.
Proof. reflexivity. Qed.
Lemma fmc_hmc p v h : set_fullMoveCounter (set_halfMoveClock p h) v = set_halfMoveClock (set_fullMoveCounter p v) h.
Proof. reflexivity. Qed.

Lemma umRestore1_clock q m ui h :
  umRestore1 zk q m (withClock ui h) = set_halfMoveClock (umRestore1 zk q m ui) h.
Proof. reflexivity. Qed.

Lemma umRestoreBlock_clock q m ui h :
  umRestoreBlock zk q m (withClock ui h) =
  (set_halfMoveClock (fst (umRestoreBlock zk q m ui)) h, snd (umRestoreBlock zk q m ui)).
Proof.
  unfold umRestoreBlock. cbv zeta. rewrite umRestore1_clock.
  generalize (umRestore1 zk q m ui). intro R.
  change (whiteMove (set_halfMoveClock R h)) with (whiteMove R).
  destruct (negb (mpromote m =? EMPTY)).
  - rewrite setPiece_hmc. generalize (setPiece zk R (mfrom m) (if whiteMove R then WPAWN else BPAWN)). intro X.
    destruct (negb (whiteMove R)); reflexivity.
  - destruct (negb (whiteMove R)); reflexivity.
Qed.

Lemma umCastleBlock_clock p m pc h :
  umCastleBlock zk (set_halfMoveClock p h) m pc = set_halfMoveClock (umCastleBlock zk p m pc) h.
Proof.
  unfold umCastleBlock. cbv zeta.
  change (whiteMove (set_halfMoveClock p h)) with (whiteMove p).
  repeat match goal with |- context [if ?c then _ else _] => destruct c end;
    try reflexivity; apply mpnp_hmc.
Qed.

Lemma umEpBlock_clock p m pc h :
  umEpBlock zk (set_halfMoveClock p h) m pc = set_halfMoveClock (umEpBlock zk p m pc) h.
Proof.
  unfold umEpBlock.
  change (epSquare (set_halfMoveClock p h)) with (epSquare p).
  repeat match goal with |- context [if ?c then _ else _] => destruct c end;
    try reflexivity; apply setPiece_hmc.
Qed.

Theorem unMakeMove_clock q m ui h :
  unMakeMove zk q m (withClock ui h) = set_halfMoveClock (unMakeMove zk q m ui) h.
Proof.
  rewrite !unMakeMove_unfold, umRestoreBlock_clock. cbn [fst snd].
  rewrite umCastleBlock_clock, umEpBlock_clock. reflexivity.
Qed.

Lemma normEmpty_hmc p h : normEmpty (set_halfMoveClock p h) = set_halfMoveClock (normEmpty p) h.
Proof. reflexivity. Qed.

Hypothesis EKZ : emptyKeysZero zk.

(** (P, m) |-> Q *)
Definition successor (p : position) (m : move) : position := fixupEPSquare zk (fst (makeMove zk p m)).

Lemma squares_fixup p : squares (fixupEPSquare zk p) = squares p.
Proof.
  unfold fixupEPSquare. cbv zeta. destruct (negb _); [|reflexivity]. destruct (_ || _); [reflexivity|].
  unfold setEpSquare. destruct (negb _); reflexivity.
Qed.
Lemma fixup_frame p :
  whiteMove (fixupEPSquare zk p) = whiteMove p /\ fullMoveCounter (fixupEPSquare zk p) = fullMoveCounter p /\
  castleMask (fixupEPSquare zk p) = castleMask p /\ halfMoveClock (fixupEPSquare zk p) = halfMoveClock p /\
  pieceTypeBB (fixupEPSquare zk p) = pieceTypeBB p /\ whiteBB (fixupEPSquare zk p) = whiteBB p /\
  blackBB (fixupEPSquare zk p) = blackBB p /\
  (epSquare (fixupEPSquare zk p) = epSquare p \/ epSquare (fixupEPSquare zk p) = (-1)%Z).
Proof.
  unfold fixupEPSquare. cbv zeta. destruct (negb _); [|repeat split; auto]. destruct (_ || _); [repeat split; auto|].
  unfold setEpSquare. destruct (Z.eqb_spec (epSquare p) (-1)); cbn [negb]; repeat split; auto.
Qed.

(** the fix-up leaves a position alone when it keeps the e.p. square *)
Lemma fixup_stable p : epSquare (fixupEPSquare zk p) = epSquare p -> fixupEPSquare zk p = p.
Proof.
  unfold fixupEPSquare. cbv zeta. destruct (Z.eqb_spec (epSquare p) (-1)) as [E|E]; cbn [negb]; [reflexivity|].
  destruct (_ || _); [reflexivity|].
  unfold setEpSquare. destruct (Z.eqb_spec (epSquare p) (-1)); cbn [negb]; [contradiction|].
  cbn [epSquare set_epSquare]. intro H. symmetry in H. contradiction.
Qed.

Theorem restore_clock0 p m :
  Consistent zk p -> moveOk p m = true ->
  let q := successor p m in
  let ui0 := withClock (snd (makeMove zk p m)) 0 in
  Consistent zk q /\ Consistent zk (unMakeMove zk q m ui0) /\
  normEmpty (unMakeMove zk q m ui0) = normEmpty (set_halfMoveClock p 0).
Proof.
  intros C Hok q ui0.
  destruct (make_unmake_general zk EKZ p m C Hok) as (Cm & H).
  assert (Cq : Consistent zk q) by (apply fixupEPSquare_consistent; exact Cm).
  assert (M : matchesMade zk p m q).
  { unfold matchesMade, q, successor. rewrite squares_fixup.
    destruct (fixup_frame (fst (makeMove zk p m))) as (H1 & H2 & _). auto. }
  destruct (H q Cq M) as (Cu & Eu).
  unfold ui0. rewrite unMakeMove_clock. split; [exact Cq|]. split.
  - apply set_halfMoveClock_consistent. exact Cu.
  - rewrite !normEmpty_hmc, Eu. reflexivity.
Qed.

End Restore.
