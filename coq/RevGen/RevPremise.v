(** C15: the hypotheses of the completeness theorems as executable tests, so that the check can
    evaluate them on every (P, m) it generates (for pawn moves and castling [MoveFacts] is a
    hypothesis of C15_complete_given_raw that is not derived from legality inside Coq). *)
From Coq Require Import ZArith NArith List Bool Lia.
From Texel Require Import Chess.Types Chess.Position Chess.PositionSpec Chess.PositionProofs Chess.PositionProofs2
  Chess.PositionProofs3 Chess.Fen Chess.Spec Chess.BitBoard Chess.MoveGen Chess.MoveGenWF
  RevGen.RevGen RevGen.RevAbs RevGen.RevValid RevGen.RevCand.
Import ListNotations.
Local Open Scope N_scope.

Definition pushOkb (p : position) (m : move) : bool :=
  let f := mfrom m in let t := mto m in
  (if (getPiece p f =? WPAWN) && (t =? f + 16)
   then (8 <=? f) && (f <? 16) && (getPiece p (f + 8) =? EMPTY) && (mpromote m =? EMPTY) else true) &&
  (if (getPiece p f =? BPAWN) && (f =? t + 16)
   then (48 <=? f) && (f <? 56) && (getPiece p (t + 8) =? EMPTY) && (mpromote m =? EMPTY) else true).

Definition kingFactb (p : position) (m : move) : bool :=
  let f := mfrom m in let t := mto m in
  if isKingPiece (getPiece p f) then
    (getKingDistance f t <=? 1)%Z ||
    ((getPiece p t =? EMPTY) &&
     (((f =? E1) && (t =? G1) && N.testbit (castleMask p) 1) || ((f =? E1) && (t =? C1) && N.testbit (castleMask p) 0) ||
      ((f =? E8) && (t =? G8) && N.testbit (castleMask p) 3) || ((f =? E8) && (t =? C8) && N.testbit (castleMask p) 2)))
  else true.

Definition pawnFactb (p : position) (m : move) : bool :=
  let f := mfrom m in let t := mto m in
  if isPawnPiece (getPiece p f) then
    (if negb (getPiece p t =? EMPTY) then negb (sqX f =? sqX t) else true) &&
    (if negb (sqX f =? sqX t) && (getPiece p t =? EMPTY) then (Z.of_N t =? epSquare p)%Z else true) &&
    (if (Z.of_N t =? epSquare p)%Z then negb (sqX f =? sqX t) else true)
  else true.

Definition moveFactsb (p : position) (m : move) : bool :=
  moveOk p m && pushOkb p m && negb (isKingPiece (getPiece p (mto m))) && kingFactb p m && pawnFactb p m.

Lemma moveFactsb_sound p m : moveFactsb p m = true -> MoveFacts p m.
Proof.
  unfold moveFactsb. rewrite !andb_true_iff. intros ((((H1 & H2) & H3) & H4) & H5).
  apply negb_true_iff in H3.
  constructor; auto.
  - (* pushOk *)
    unfold pushOkb in H2. cbv zeta in H2. apply andb_true_iff in H2. destruct H2 as (A & B).
    unfold pushOk. cbn [abs sp_board]. change (nthP (squares p)) with (getPiece p). split; intros E1' E2'.
    + rewrite E1', E2', !N.eqb_refl in A. cbn [andb] in A. rewrite !andb_true_iff in A. destruct A as (((A1 & A2) & A3) & A4).
      apply N.leb_le in A1. apply N.ltb_lt in A2. apply N.eqb_eq in A3, A4. auto.
    + rewrite E1', N.eqb_refl in B.
      replace (mfrom m =? mto m + 16) with true in B by (symmetry; apply N.eqb_eq; exact E2').
      cbn [andb] in B. rewrite !andb_true_iff in B. destruct B as (((A1 & A2) & A3) & A4).
      apply N.leb_le in A1. apply N.ltb_lt in A2. apply N.eqb_eq in A3, A4. auto.
  - (* king *)
    intro Hk. unfold kingFactb in H4. cbv zeta in H4. rewrite Hk in H4. apply orb_true_iff in H4.
    destruct H4 as [H4|H4]; [left; apply Z.leb_le; exact H4|]. right.
    apply andb_true_iff in H4. destruct H4 as (Hc & H4). apply N.eqb_eq in Hc. split; [exact Hc|].
    rewrite !orb_true_iff, !andb_true_iff, !N.eqb_eq in H4. tauto.
  - intros Hp Hc. unfold pawnFactb in H5. cbv zeta in H5. rewrite Hp in H5. rewrite !andb_true_iff in H5. destruct H5 as ((A & _) & _).
    replace (getPiece p (mto m) =? EMPTY) with false in A by (symmetry; apply N.eqb_neq; exact Hc). cbn [negb] in A.
    apply negb_true_iff, N.eqb_neq in A. exact A.
  - intros Hp Hd Hc. unfold pawnFactb in H5. cbv zeta in H5. rewrite Hp in H5. rewrite !andb_true_iff in H5. destruct H5 as ((_ & A) & _).
    replace (sqX (mfrom m) =? sqX (mto m)) with false in A by (symmetry; apply N.eqb_neq; exact Hd).
    rewrite Hc, N.eqb_refl in A. cbn [negb andb] in A. apply Z.eqb_eq. exact A.
  - intros Hp He. unfold pawnFactb in H5. cbv zeta in H5. rewrite Hp in H5. rewrite !andb_true_iff in H5. destruct H5 as (_ & A).
    rewrite He, Z.eqb_refl in A. apply negb_true_iff, N.eqb_neq in A. exact A.
Qed.

(** the executable part of [WFrev] (the representation invariant is C02's business: every position
    of the correspondence run satisfies it there) *)
Definition originOkb (p : position) : bool :=
  if (epSquare p =? -1)%Z then true
  else getPiece p (if whiteMove p then Z.to_N (epSquare p) + 8 else Z.to_N (epSquare p) - 8) =? EMPTY.

Definition wfrevb (zk : zkeys) (p : position) : bool :=
  wfb p && pieceCountsValid p && (epSquare (fixupEPSquare zk p) =? epSquare p)%Z && originOkb p.

Lemma wfrevb_sound zk p : Consistent zk p -> wfrevb zk p = true -> WFrev zk p.
Proof.
  intros C H. unfold wfrevb in H. rewrite !andb_true_iff in H. destruct H as (((H1 & H2) & H3) & H4).
  constructor; auto.
  - apply Z.eqb_eq. exact H3.
  - intros e He. unfold originOkb in H4. rewrite He in H4.
    replace (Z.of_N e =? -1)%Z with false in H4 by (symmetry; apply Z.eqb_neq; lia).
    rewrite N2Z.id in H4. apply N.eqb_eq in H4. exact H4.
Qed.
