(** C15 proofs, part 4: the predecessor restored from the undo information of (P, m) is not
    rejected by knownInvalid.  Everything knownInvalid looks at (piece counts, king capture,
    the two e.p. fix-ups) depends on a position only through its board, side, castle mask and
    e.p. square, for positions that satisfy the representation invariant. *)
From Coq Require Import ZArith NArith List Bool Lia.
From Texel Require Import Chess.Types Chess.Position Chess.PositionSpec Chess.PositionFacts
  Chess.PositionProofs Chess.PositionProofs2 Chess.PositionProofs3 Chess.PositionProofs4 Chess.PositionTheorems
  Chess.PositionSources Chess.Fen Chess.Spec Chess.BitBoard Chess.MoveGen Chess.MoveGenWF Chess.MoveGenProofs
  Chess.AttackProofs RevGen.RevGen RevGen.RevAbs RevGen.RevRestore.
Import ListNotations.
Local Open Scope N_scope.
Ltac Zify.zify_post_hook ::= Z.div_mod_to_equations.

(** * bitboards of a position satisfying the representation invariant *)
Lemma white_has_color pc : pc < 13 -> isWhitePiece pc = has_color true pc.
Proof. revert pc. apply piece_cases; reflexivity. Qed.
Lemma black_has_color pc : pc < 13 -> isBlackPiece pc = has_color false pc.
Proof. revert pc. apply piece_cases; reflexivity. Qed.

Lemma Consistent_BoardOK zk k p : ConsistentX zk k p -> BoardOK p.
Proof.
  intro C. destruct C. split; [|split].
  - intro s. pose proof (getPiece_lt p s c_pieces). lia.
  - intros pc s Hpc.
    assert (Hr : 1 <= pc <= 12) by (unfold pieceCodes in Hpc; cbn [In] in Hpc; lia).
    rewrite c_bb by exact Hr. rewrite testbit_bbOf, c_len. change (N.of_nat 64) with 64.
    unfold getPiece. rewrite (N.eqb_sym pc). reflexivity.
  - intros w s. pose proof (getPiece_lt p s c_pieces) as Hlt. unfold colorBB. destruct w.
    + rewrite c_white, testbit_bbOf, c_len. change (N.of_nat 64) with 64. fold (getPiece p s).
      rewrite white_has_color by exact Hlt. reflexivity.
    + rewrite c_black, testbit_bbOf, c_len. change (N.of_nat 64) with 64. fold (getPiece p s).
      rewrite black_has_color by exact Hlt. reflexivity.
Qed.

Section Valid.
Variable zk : zkeys.
Hypothesis EKZ : emptyKeysZero zk.

(** * canTakeKing *)
Lemma setWhiteMove_flip p :
  setWhiteMove zk p (negb (whiteMove p)) =
  set_whiteMove (set_hashKey p (N.lxor (hashKey p) (zk_white zk))) (negb (whiteMove p)).
Proof. unfold setWhiteMove. destruct (whiteMove p); reflexivity. Qed.

Lemma canTakeKing_fst p : fst (canTakeKing zk p) = p.
Proof.
  unfold canTakeKing. cbv zeta. cbn [fst]. rewrite (setWhiteMove_flip p).
  rewrite setWhiteMove_flip. destruct p. proj_simpl. rewrite negb_involutive, lxor_cancel_r. reflexivity.
Qed.

Lemma sqAttackedT_ext w a b s o : pieceTypeBB a = pieceTypeBB b -> sqAttackedT w a s o = sqAttackedT w b s o.
Proof. intro H. unfold sqAttackedT, ptBB. rewrite H. reflexivity. Qed.
Lemma kingSq_ext a b w : pieceTypeBB a = pieceTypeBB b -> kingSq a w = kingSq b w.
Proof. intro H. unfold kingSq, ptBB. rewrite H. reflexivity. Qed.

Lemma canTakeKing_snd p :
  snd (canTakeKing zk p) = sqAttackedT (negb (whiteMove p)) p (kingSq p (negb (whiteMove p))) (occupiedBB p).
Proof.
  unfold canTakeKing. cbv zeta. cbn [snd]. rewrite setWhiteMove_flip.
  unfold inCheck, sqAttacked, sqAttackedOcc.
  set (x := set_whiteMove (set_hashKey p (N.lxor (hashKey p) (zk_white zk))) (negb (whiteMove p))).
  change (whiteMove x) with (negb (whiteMove p)). change (occupiedBB x) with (occupiedBB p).
  rewrite (kingSq_ext x p) by reflexivity. apply sqAttackedT_ext. reflexivity.
Qed.

(** a position with the board and side of a well-formed one: the side that moved is not in check *)
Lemma canTakeKing_false p q :
  WF p -> Consistent zk q -> squares q = squares p -> whiteMove q = whiteMove p ->
  snd (canTakeKing zk q) = false.
Proof.
  intros H Cq Hs Hw. rewrite canTakeKing_snd.
  pose proof (Consistent_BoardOK zk 0 q Cq) as Bq.
  assert (Hg : forall s, getPiece q s = getPiece p s) by (intro s; unfold getPiece; rewrite Hs; reflexivity).
  rewrite (kingAttacked_spec_B q (negb (whiteMove q)) Bq).
  - destruct (WF_parts p H) as (_ & _ & _ & _ & Ha). destruct (accepted_parts _ Ha) as (_ & _ & _ & _ & Hc & _).
    cbn [abs sp_board sp_white] in Hc. rewrite Hs, Hw. exact Hc.
  - destruct (king_exists p (negb (whiteMove q)) H) as (s & Hs64 & Hk). exists s. rewrite Hg. auto.
  - intros s1 s2 H1 H2 E1 E2. rewrite Hg in E1, E2. exact (king_unique p _ s1 s2 H H1 H2 E1 E2).
Qed.

(** * piece counts *)
Lemma pieceCountsValid_ext a b :
  (forall pc, 1 <= pc -> ptBB a pc = ptBB b pc) -> pieceCountsValid a = pieceCountsValid b.
Proof.
  intro H. unfold pieceCountsValid, pieceCnt. cbv zeta.
  rewrite !(H WKNIGHT), !(H WBISHOP), !(H WROOK), !(H WQUEEN), !(H WPAWN),
          !(H BKNIGHT), !(H BBISHOP), !(H BROOK), !(H BQUEEN), !(H BPAWN) by (cbv; discriminate).
  reflexivity.
Qed.

(** * the en-passant fix-up *)
(** the mailbox attack test reads the board only *)
Definition boardPos (sqs : list piece) : position :=
  mkPos sqs nil 0 0 true 0%Z 0%Z 0 0%Z 0 0 0%Z 0%Z 0%Z 0%Z 0%Z.
Lemma attackedBy_board p sq c : attackedBy p sq c = attackedBy (boardPos (squares p)) sq c.
Proof. reflexivity. Qed.
Lemma attackedBy_ext a b sq c : squares a = squares b -> attackedBy a sq c = attackedBy b sq c.
Proof. intro H. rewrite (attackedBy_board a), (attackedBy_board b), H. reflexivity. Qed.
Lemma pieceAtXY_ext a b x y : squares a = squares b -> pieceAtXY a x y = pieceAtXY b x y.
Proof. intro H. unfold pieceAtXY, getPiece. rewrite H. reflexivity. Qed.

(** shape of an e.p. square (what the FEN reader enforces): right rank, empty, enemy pawn in front of it *)
Definition epShapeAt (a : spos) : Prop :=
  exists e : N, sp_ep a = Z.of_N e /\ e < 64 /\ sqY e = (if sp_white a then 5 else 2) /\
     nthP (sp_board a) e = EMPTY /\
     (if sp_white a then nthP (sp_board a) (e - 8) = BPAWN else nthP (sp_board a) (e + 8) = WPAWN).
Definition epShape (a : spos) : Prop := sp_ep a = (-1)%Z \/ epShapeAt a.

Lemma getKingSq_consistent p w : Consistent zk p ->
  getKingSq p w = firstBit (bbOf (N.eqb (if w then WKING else BKING)) (squares p)).
Proof.
  intro C. destruct C. unfold getKingSq, wKingSq, bKingSq. destruct w; rewrite c_bb by (cbv; split; discriminate); reflexivity.
Qed.

(** the candidate e.p. capture of fixupEPSquare has the shape makeMove/unMakeMove rely on *)
Lemma moveOk_epCapture p fx e :
  epSquare p = Z.of_N e -> e < 64 -> sqY e = (if whiteMove p then 5 else 2) ->
  getPiece p e = EMPTY ->
  (if whiteMove p then getPiece p (e - 8) = BPAWN else getPiece p (e + 8) = WPAWN) ->
  let fy := (if whiteMove p then Z.shiftr (Z.of_N e) 3 - 1 else Z.shiftr (Z.of_N e) 3 + 1)%Z in
  onBoard fx fy = true ->
  getPiece p (Z.to_N (fy * 8 + fx)) = (if whiteMove p then WPAWN else BPAWN) ->
  moveOk p (mkMove (Z.to_N (fy * 8 + fx)) e EMPTY) = true.
Proof.
  intros Hep He Hy Hemp Hpawn fy Hob Hpc.
  unfold onBoard in Hob. rewrite !andb_true_iff in Hob. destruct Hob as (((Hx0 & Hx7) & Hy0) & Hy7).
  apply Z.leb_le in Hx0, Hy0. apply Z.ltb_lt in Hx7, Hy7.
  assert (Hsh : Z.shiftr (Z.of_N e) 3 = Z.of_N (sqY e)).
  { rewrite Z.shiftr_div_pow2 by lia. unfold sqY. rewrite N2Z.inj_div. reflexivity. }
  unfold moveOk. cbv zeta. cbn [mfrom mto mpromote]. rewrite Hpc, Hemp, Hep.
  set (f := Z.to_N (fy * 8 + fx)) in *.
  destruct (whiteMove p) eqn:Ew.
  - assert (Hf : f = e - 9 + Z.to_N (fx - Z.of_N (sqX e) + 1) \/ True) by (right; exact I). clear Hf.
    assert (Hfv : Z.of_N f = (32 + fx)%Z) by (unfold f, fy; rewrite Hsh, Hy; lia).
    assert (Hev : 40 <= e < 48) by (unfold sqY in Hy; lia).
    replace (f <? 64) with true by (symmetry; apply N.ltb_lt; lia).
    replace (e <? 64) with true by (symmetry; apply N.ltb_lt; lia).
    replace (f =? e) with false by (symmetry; apply N.eqb_neq; lia).
    rewrite Z.eqb_refl, Hpawn.
    replace (8 <=? e) with true by (symmetry; apply N.leb_le; lia).
    replace (e =? f + 16) with false by (symmetry; apply N.eqb_neq; lia).
    reflexivity.
  - assert (Hfv : Z.of_N f = (24 + fx)%Z) by (unfold f, fy; rewrite Hsh, Hy; lia).
    assert (Hev : 16 <= e < 24) by (unfold sqY in Hy; lia).
    replace (f <? 64) with true by (symmetry; apply N.ltb_lt; lia).
    replace (e <? 64) with true by (symmetry; apply N.ltb_lt; lia).
    replace (f =? e) with false by (symmetry; apply N.eqb_neq; lia).
    rewrite Z.eqb_refl, Hpawn.
    replace (e + 8 <? 64) with true by (symmetry; apply N.ltb_lt; lia).
    replace (e + 16 =? f) with false by (symmetry; apply N.eqb_neq; lia).
    reflexivity.
Qed.

(** two positions with the same four fields: the e.p. capture test gives the same answer *)
Lemma epCap_congr p q fx :
  Consistent zk p -> Consistent zk q -> abs p = abs q -> epShapeAt (abs p) ->
  epCaptureLegalFrom zk p fx = epCaptureLegalFrom zk q fx.
Proof.
  intros Cp Cq Ha Hs.
  assert (Hsq : squares p = squares q) by (apply (f_equal sp_board) in Ha; exact Ha).
  assert (Hw : whiteMove p = whiteMove q) by (apply (f_equal sp_white) in Ha; exact Ha).
  assert (He : epSquare p = epSquare q) by (apply (f_equal sp_ep) in Ha; exact Ha).
  unfold epCaptureLegalFrom. cbv zeta. rewrite <- He, <- Hw, <- (pieceAtXY_ext p q _ _ Hsq).
  set (fy := (if whiteMove p then Z.shiftr (epSquare p) 3 - 1 else Z.shiftr (epSquare p) 3 + 1)%Z).
  match goal with |- (if ?c then _ else _) = (if ?c' then _ else _) => change c' with c; destruct c eqn:Hc end;
    [|reflexivity].
  apply andb_true_iff in Hc. destruct Hc as [Hob Hpc]. apply N.eqb_eq in Hpc.
  unfold pieceAtXY in Hpc. rewrite Hob in Hpc.
  set (m := mkMove (Z.to_N (fy * 8 + fx)) (Z.to_N (epSquare p)) EMPTY).
  assert (Hf : mfrom m < 64).
  { unfold m, onBoard in *. cbn [mfrom]. rewrite !andb_true_iff in Hob. destruct Hob as (((Hx0 & Hx7) & Hy0) & Hy7).
    apply Z.leb_le in Hx0, Hy0. apply Z.ltb_lt in Hx7, Hy7. lia. }
  destruct Hs as (e & Hs1 & Hs2 & Hs3 & Hs4 & Hs5).
  cbn [abs sp_ep sp_white sp_board] in Hs1, Hs3, Hs4, Hs5.
  assert (Hmk : forall r, Consistent zk r -> abs r = abs p -> moveOk r m = true).
  { intros r Cr Hr.
    assert (Hrs : squares r = squares p) by (apply (f_equal sp_board) in Hr; exact Hr).
    assert (Hrw : whiteMove r = whiteMove p) by (apply (f_equal sp_white) in Hr; exact Hr).
    assert (Hre : epSquare r = epSquare p) by (apply (f_equal sp_ep) in Hr; exact Hr).
    unfold m. rewrite Hs1, N2Z.id. unfold fy. rewrite Hs1. rewrite <- Hrw.
    apply moveOk_epCapture.
    - rewrite Hre. exact Hs1.
    - exact Hs2.
    - rewrite Hrw. exact Hs3.
    - unfold getPiece. rewrite Hrs. exact Hs4.
    - rewrite Hrw. unfold getPiece. rewrite Hrs. exact Hs5.
    - rewrite Hrw. unfold fy in Hob. rewrite Hs1 in Hob. exact Hob.
    - rewrite Hrw. unfold getPiece. rewrite Hrs. unfold fy in Hpc. rewrite Hs1 in Hpc. exact Hpc. }
  pose proof (makeMove_consistent zk EKZ p m Cp (Hmk p Cp eq_refl)) as Cp'.
  pose proof (makeMove_consistent zk EKZ q m Cq (Hmk q Cq (eq_sym Ha))) as Cq'.
  pose proof (makeMove_abs zk p m Cp Hf) as Ap. pose proof (makeMove_abs zk q m Cq Hf) as Aq.
  rewrite Ha in Ap. rewrite <- Aq in Ap.
  assert (Hsq' : squares (fst (makeMove zk p m)) = squares (fst (makeMove zk q m))) by (apply (f_equal sp_board) in Ap; exact Ap).
  rewrite (getKingSq_consistent _ _ Cp'), (getKingSq_consistent _ _ Cq'), Hsq'.
  rewrite (attackedBy_ext _ _ _ _ Hsq'). reflexivity.
Qed.

Lemma fixup_congr p q :
  Consistent zk p -> Consistent zk q -> abs p = abs q -> epShape (abs p) ->
  abs (fixupEPSquare zk p) = abs (fixupEPSquare zk q).
Proof.
  intros Cp Cq Ha Hs.
  assert (He : epSquare p = epSquare q) by (apply (f_equal sp_ep) in Ha; exact Ha).
  unfold fixupEPSquare. cbv zeta. rewrite <- He.
  destruct (Z.eqb_spec (epSquare p) (-1)) as [E|E]; cbn [negb]; [exact Ha|].
  destruct Hs as [Hs|Hs]; [cbn [abs sp_ep] in Hs; contradiction|].
  rewrite <- !(epCap_congr p q _ Cp Cq Ha Hs).
  destruct (_ || _); [exact Ha|].
  unfold abs. rewrite !squares_setEpSquare, !whiteMove_setEpSquare, !castleMask_setEpSquare, !epSquare_setEpSquare.
  apply (f_equal sp_board) in Ha as H1. apply (f_equal sp_white) in Ha as H2. apply (f_equal sp_castle) in Ha as H3.
  cbn [abs sp_board sp_white sp_castle] in H1, H2, H3. rewrite H1, H2, H3. reflexivity.
Qed.

(** the e.p. clause of [accepted] in engine coordinates *)
Lemma accepted_epShape sp : accepted sp = true -> epShape sp.
Proof.
  intro H. unfold accepted in H. cbv zeta in H. apply andb_true_iff in H. destruct H as [_ H].
  apply orb_true_iff in H. destruct H as [H|H]; [left; apply Z.eqb_eq; exact H|]. right.
  rewrite !andb_true_iff in H. destruct H as [[H1 H2] [[H3 H4] H5]].
  apply Z.leb_le in H1. apply Z.ltb_lt in H2. apply Z.eqb_eq in H3. apply N.eqb_eq in H4.
  unfold is_piece in H5. apply N.eqb_eq in H5.
  exists (Z.to_N (sp_ep sp)). rewrite Z2N.id by lia.
  assert (Hob : on_board (sp_ep sp mod 8) (sp_ep sp / 8) = true).
  { unfold on_board. rewrite !andb_true_iff, !Z.leb_le. lia. }
  unfold at_ in H4. rewrite Hob in H4.
  assert (Hidx : idx (sp_ep sp mod 8) (sp_ep sp / 8) = N.to_nat (Z.to_N (sp_ep sp))) by (unfold idx; lia).
  rewrite Hidx in H4.
  split; [reflexivity|]. split; [lia|]. split.
  { unfold sqY. destruct (sp_white sp); lia. }
  split; [exact H4|].
  unfold at_ in H5.
  destruct (sp_white sp).
  - assert (Hob2 : on_board (sp_ep sp mod 8) 4 = true) by (unfold on_board; rewrite !andb_true_iff, !Z.leb_le; lia).
    rewrite Hob2 in H5. unfold nthP. replace (N.to_nat (Z.to_N (sp_ep sp) - 8)) with (idx (sp_ep sp mod 8) 4) by (unfold idx; lia).
    exact H5.
  - assert (Hob2 : on_board (sp_ep sp mod 8) 3 = true) by (unfold on_board; rewrite !andb_true_iff, !Z.leb_le; lia).
    rewrite Hob2 in H5. unfold nthP. replace (N.to_nat (Z.to_N (sp_ep sp) + 8)) with (idx (sp_ep sp mod 8) 3) by (unfold idx; lia).
    exact H5.
Qed.

Lemma moveOk_ext p q m : abs p = abs q -> moveOk p m = moveOk q m.
Proof.
  intro Ha.
  apply (f_equal sp_board) in Ha as H1. apply (f_equal sp_white) in Ha as H2. apply (f_equal sp_ep) in Ha as H3.
  cbn [abs sp_board sp_white sp_ep] in H1, H2, H3.
  unfold moveOk, getPiece. rewrite H1, H2, H3. reflexivity.
Qed.

(** double pushes start from the pawn's home rank over an empty square and do not promote
    (true of every legal move; [moveOk] alone does not say it) *)
Definition pushOk (a : spos) (m : move) : Prop :=
  (nthP (sp_board a) (mfrom m) = WPAWN -> mto m = mfrom m + 16 ->
     8 <= mfrom m < 16 /\ nthP (sp_board a) (mfrom m + 8) = EMPTY /\ mpromote m = EMPTY) /\
  (nthP (sp_board a) (mfrom m) = BPAWN -> mfrom m = mto m + 16 ->
     48 <= mfrom m < 56 /\ nthP (sp_board a) (mto m + 8) = EMPTY /\ mpromote m = EMPTY).

(** the e.p. square set by makeMove has the right shape *)
Lemma makeA_epShape a m :
  length (sp_board a) = 64%nat -> mfrom m < 64 -> mto m < 64 ->
  ownPiece (sp_white a) (nthP (sp_board a) (mfrom m)) = true -> pushOk a m ->
  epShape (makeA a m).
Proof.
  intros Hl Hf Ht Hown (HpW & HpB).
  unfold epShape, makeA. cbn [sp_ep sp_white sp_board].
  destruct (isCaptureBranch (sp_board a) m) eqn:Hcb; [|left; reflexivity].
  unfold captureA. cbn [snd fst]. unfold epBlockA. cbv zeta.
  set (sqs := sp_board a) in *. set (f := mfrom m) in *. set (t := mto m) in *.
  destruct (N.eqb_spec (nthP sqs f) WPAWN) as [Ew|Ew].
  - destruct (Z.eqb_spec (Z.of_N t) (sqPlus f 16)) as [E16|E16].
    + cbn [fst snd]. destruct (adjPawn sqs (sqX t) 3 BPAWN); [|left; reflexivity].
      right. assert (Et : t = f + 16) by (unfold sqPlus in E16; lia).
      destruct (HpW Ew Et) as (Hr & He & Hp).
      assert (Hw : sp_white a = true).
      { rewrite Ew in Hown. destruct (sp_white a); [reflexivity|discriminate]. }
      exists (f + 8). unfold epShapeAt. cbn [sp_ep sp_white sp_board]. rewrite Hw. cbn [negb].
      split; [unfold sqPlus; lia|]. split; [lia|]. split; [unfold sqY; lia|].
      rewrite Hp. cbn [N.eqb negb]. change (negb (EMPTY =? EMPTY)) with false. cbv iota.
      split.
      * rewrite nthP_updN_neq by lia. rewrite nthP_updN_neq by lia. exact He.
      * replace (f + 8 + 8) with t by lia. rewrite nthP_updN_eq by (rewrite length_updN, Hl; lia). exact Ew.
    + destruct (Z.of_N t =? sp_ep a)%Z; left; reflexivity.
  - destruct (N.eqb_spec (nthP sqs f) BPAWN) as [Eb|Eb]; [|left; reflexivity].
    destruct (Z.eqb_spec (Z.of_N t) (sqPlus f (-16))) as [E16|E16].
    + cbn [fst snd]. destruct (adjPawn sqs (sqX t) 4 WPAWN); [|left; reflexivity].
      right. assert (Et : f = t + 16) by (unfold sqPlus in E16; lia).
      destruct (HpB Eb Et) as (Hr & He & Hp).
      assert (Hw : sp_white a = false).
      { rewrite Eb in Hown. destruct (sp_white a); [discriminate|reflexivity]. }
      exists (t + 8). unfold epShapeAt. cbn [sp_ep sp_white sp_board]. rewrite Hw. cbn [negb].
      split; [unfold sqPlus; lia|]. split; [lia|]. split; [unfold sqY; lia|].
      rewrite Hp. change (negb (EMPTY =? EMPTY)) with false. cbv iota.
      split.
      * rewrite nthP_updN_neq by lia. rewrite nthP_updN_neq by lia. exact He.
      * replace (t + 8 - 8) with t by lia. rewrite nthP_updN_eq by (rewrite length_updN, Hl; lia). exact Eb.
    + destruct (Z.of_N t =? sp_ep a)%Z; left; reflexivity.
Qed.

(** * the domain of C15 and the main lemma of this part *)
(** well-formed + obtainable piece counts + the e.p. square survives the fix-up and has an empty origin square *)
Record WFrev (p : position) : Prop := mkWFrev {
  wr_cons : Consistent zk p;
  wr_wf : WF p;
  wr_counts : pieceCountsValid p = true;
  wr_epfix : epSquare (fixupEPSquare zk p) = epSquare p;
  (* the pawn that made the double step came from the square behind the e.p. square: it is empty
     (true of every position reached by play; the FEN reader does not look at that square) *)
  wr_origin : forall e : N, epSquare p = Z.of_N e -> nthP (squares p) (if whiteMove p then e + 8 else e - 8) = EMPTY
}.

Lemma abs_of_normEmpty p q h : normEmpty q = normEmpty (set_halfMoveClock p h) -> abs q = abs p.
Proof.
  intro H. apply normEmpty_fields in H. destruct H as (H1 & _ & _ & _ & H5 & _ & _ & H8 & H9 & _).
  unfold abs. rewrite H1, H5, H8, H9. reflexivity.
Qed.

Theorem restored_not_knownInvalid p m :
  WFrev p -> moveOk p m = true -> pushOk (abs p) m ->
  knownInvalid zk (successor zk p m) m (withClock (snd (makeMove zk p m)) 0) = false.
Proof.
  intros [Cp Hwf Hcnt Hfix _] Hok Hpush.
  destruct (restore_clock0 zk EKZ p m Cp Hok) as (Cq & C0 & E0).
  set (q := successor zk p m) in *. set (ui0 := withClock (snd (makeMove zk p m)) 0) in *.
  unfold knownInvalid. cbv zeta. unfold kiPrev.
  set (p0 := unMakeMove zk q m ui0) in *.
  pose proof (abs_of_normEmpty p p0 0%Z E0) as Ha.
  pose proof (normEmpty_fields _ _ E0) as (Hsq & Hbb & _ & _ & Hwm & _).
  (* 1: piece counts *)
  rewrite (pieceCountsValid_ext p0 p) by (intros pc Hpc; rewrite (Hbb pc Hpc); reflexivity).
  rewrite Hcnt. cbn [negb].
  (* 2: king capture *)
  rewrite (surjective_pairing (canTakeKing zk p0)), canTakeKing_fst.
  rewrite (canTakeKing_false p p0 Hwf C0 Hsq Hwm).
  (* 3: the e.p. square of the predecessor survives the fix-up *)
  destruct (WF_parts p Hwf) as (Hlen & _ & _ & _ & Hacc).
  pose proof (accepted_epShape _ Hacc) as Hshape.
  assert (Hshape0 : epShape (abs p0)) by (rewrite Ha; exact Hshape).
  pose proof (fixup_congr p0 p C0 Cp Ha Hshape0) as Hfc.
  assert (Hep0 : epSquare p0 = epSquare p) by (apply (f_equal sp_ep) in Ha; exact Ha).
  assert (Hst : epSquare (fixupEPSquare zk p0) = epSquare p0).
  { apply (f_equal sp_ep) in Hfc. cbn [abs sp_ep] in Hfc. rewrite Hfc, Hfix, Hep0. reflexivity. }
  unfold kiEpStable. rewrite Hst, Z.eqb_refl. cbn [negb].
  (* 4: making the move again gives the e.p. square of q *)
  unfold kiRemade. rewrite (fixup_stable zk p0 Hst).
  assert (Hok0 : moveOk p0 m = true) by (rewrite (moveOk_ext p0 p m Ha); exact Hok).
  pose proof (makeMove_consistent zk EKZ p0 m C0 Hok0) as Cx0.
  pose proof (makeMove_consistent zk EKZ p m Cp Hok) as Cx.
  destruct (moveOk_facts p m Hok) as (Hf & Ht & Hne & Hown & _).
  pose proof (makeMove_abs zk p0 m C0 Hf) as A0. pose proof (makeMove_abs zk p m Cp Hf) as A1.
  rewrite Ha in A0. rewrite <- A1 in A0.
  assert (Hsx : epShape (abs (fst (makeMove zk p0 m)))).
  { rewrite A0, A1. apply makeA_epShape; auto. }
  pose proof (fixup_congr _ _ Cx0 Cx A0 Hsx) as Hfx.
  apply (f_equal sp_ep) in Hfx. cbn [abs sp_ep] in Hfx. rewrite Hfx.
  unfold q, successor. rewrite Z.eqb_refl. reflexivity.
Qed.

End Valid.
