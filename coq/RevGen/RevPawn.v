(** C15 proofs, part 8: pawn moves.  From the FIDE description of a pawn move (push, double push,
    capture, en-passant capture, each with or without promotion) to [MoveFacts] and to the fact that
    genMovesNoUndoInfo lists the reverse move (revPawnBlock / revPromoBlock). *)
From Coq Require Import ZArith NArith List Bool Lia.
From Texel Require Import Chess.Types Chess.Position Chess.PositionSpec Chess.PositionFacts
  Chess.PositionProofs Chess.PositionProofs2 Chess.PositionProofs3 Chess.PositionProofs4 Chess.PositionTheorems
  Chess.PositionSources Chess.Fen Chess.Spec Chess.BitBoard Chess.MoveGen Chess.MoveGenWF Chess.MoveGenProofs
  Chess.BitBoardProofs Chess.RayProofs Chess.SliderProofs Chess.AttackProofs Chess.PawnProofs Chess.PseudoProofs
  Chess.MakeSpecProofs gen.BitBoardTables
  RevGen.RevGen RevGen.RevFacts RevGen.RevAbs RevGen.RevRestore RevGen.RevValid RevGen.RevCand RevGen.RevRaw RevGen.RevLegal.
Import ListNotations.
Local Open Scope N_scope.

(** * loops whose per-square mask is only known to be a 64-bit word on the squares of the loop mask *)
Lemma bbLoop_app {A} (h : square -> list A) : forall fuel mask acc,
  bbLoop fuel mask (fun l sq => l ++ h sq) acc = acc ++ bbLoop fuel mask (fun l sq => l ++ h sq) [].
Proof.
  induction fuel as [|k IH]; intros mask acc; cbn [bbLoop]; [rewrite app_nil_r; reflexivity|].
  destruct (mask =? 0); [rewrite app_nil_r; reflexivity|].
  rewrite IH. rewrite (IH _ ([] ++ h (firstSquare mask))). cbn [app]. rewrite app_assoc. reflexivity.
Qed.

Lemma revAdd_app l mask t' pr :
  revAddMovesByMask l mask t' pr = l ++ revAddMovesByMask [] mask t' pr.
Proof.
  unfold revAddMovesByMask, forSquares, addMove.
  apply (bbLoop_app (fun sq0 => [mkMove sq0 t' pr])).
Qed.

(** one loop lemma for revPawnBlock and revPromoBlock: [skip] = the king test, [pr] = the promotion piece *)
Lemma revLoopW_In (g : square -> N) (pr : square -> piece) (skip : square -> bool) mask l m :
  mask < 2 ^ 64 ->
  (In m (forSquares mask (fun l sq => if skip sq then l else revAddMovesByMask l (g sq) sq (pr sq)) l) <->
   In m l \/ exists sq, N.testbit mask sq = true /\ skip sq = false /\ In m (revAddMovesByMask [] (g sq) sq (pr sq))).
Proof.
  intro Hm.
  rewrite (forSquares_In (fun l sq => if skip sq then l else revAddMovesByMask l (g sq) sq (pr sq)) move (fun x l => In x l)
                         (fun sq x => skip sq = false /\ In x (revAddMovesByMask [] (g sq) sq (pr sq)))).
  - split.
    + intros [H|(sq & Hs & H1 & H2)]; [left; exact H | right; exists sq; auto].
    + intros [H|(sq & Hs & H1 & H2)]; [left; exact H | right; exists sq; auto].
  - intros acc sq x _. destruct (skip sq).
    + split; [intro H; left; exact H | intros [H|(H & _)]; [exact H | discriminate]].
    + rewrite revAdd_app, in_app_iff. split; [intros [H|H]; auto | intros [H|(_ & H)]; auto].
  - exact Hm.
Qed.

Ltac Zify.zify_post_hook ::= Z.div_mod_to_equations.

Lemma move_eta (x : move) : x = mkMove (mfrom x) (mto x) (mpromote x).
Proof. destruct x; reflexivity. Qed.

Section Pawn.
Variable zk : zkeys.
Hypothesis EKZ : emptyKeysZero zk.
Variable p : position.
Variable m : move.
Hypothesis Hrev : WFrev zk p.

Let f := mfrom m.
Let t := mto m.
Let sqs := squares p.
Let pc := nthP sqs f.
Let cap := nthP sqs t.
Let w := whiteMove p.
Let q := successor zk p m.
Let sqsQ := squares q.
Let d := dirOf w.

Definition promoOK : Prop :=
  (zr t = lastRank w /\ exists k, In k promoKinds /\ mpromote m = mk_piece w k) \/
  (zr t <> lastRank w /\ mpromote m = EMPTY).

(** a pawn move by the FIDE rules, in the coordinates of the from- and to-square *)
Inductive PawnMove : Prop :=
| PM_push : zf t = zf f -> zr t = (zr f + d)%Z -> cap = EMPTY -> promoOK -> PawnMove
| PM_double : zf t = zf f -> zr t = (zr f + 2 * d)%Z -> zr f = startRank w ->
              nthP sqs (sq_of (zf f) (zr f + d)) = EMPTY -> cap = EMPTY -> mpromote m = EMPTY -> PawnMove
| PM_capture : (zf t = zf f - 1 \/ zf t = zf f + 1)%Z -> zr t = (zr f + d)%Z ->
               has_color (negb w) cap = true -> promoOK -> PawnMove
| PM_ep : (zf t = zf f - 1 \/ zf t = zf f + 1)%Z -> zr t = (zr f + d)%Z ->
          cap = EMPTY -> Z.of_N t = epSquare p -> mpromote m = EMPTY -> PawnMove.

Definition PawnOn : Prop := f < 64 /\ t < 64 /\ pc = mk_piece w Pawn.

Lemma Hwf : WF p.
Proof. destruct Hrev as [_ H _ _ _]. exact H. Qed.

Lemma arrive_parts fx r fx' r' : on_board fx r = true -> on_board fx' r' = true ->
  In m (pawn_arrive w fx r fx' r') ->
  f = sq_of fx r /\ t = sq_of fx' r' /\
  ((r' = lastRank w /\ exists k, In k promoKinds /\ mpromote m = mk_piece w k) \/ (r' <> lastRank w /\ mpromote m = EMPTY)).
Proof.
  intros _ _ H. apply pawn_arrive_In in H. unfold mv in H.
  destruct H as [(E & k & Hk & ->)|(E & ->)]; cbn [mfrom mto mpromote]; (split; [reflexivity|]); (split; [reflexivity|]).
  - left. split; [exact E|]. exists k. auto.
  - right. auto.
Qed.

Theorem pawnMove_of_spec :
  (exists fx r, on_board fx r = true /\ at_ sqs fx r = mk_piece w Pawn /\ In m (pawn_moves (abs p) fx r)) ->
  PawnOn /\ PawnMove.
Proof.
  intros (fx & r & Hob & Hat & Hin).
  apply pawn_moves_In in Hin. cbn [abs sp_board sp_white sp_ep] in Hin. fold sqs w in Hin.
  destruct (sq_of_coords fx r Hob) as (Hs64 & Hzf & Hzr & _).
  assert (Hat' : nthP sqs (sq_of fx r) = mk_piece w Pawn) by (rewrite <- Hat; symmetry; apply (at_getPiece p fx r Hob)).
  assert (G : forall fx' r', on_board fx' r' = true ->
              sq_of fx' r' < 64 /\ zf (sq_of fx' r') = fx' /\ zr (sq_of fx' r') = r' /\ at_ sqs fx' r' = nthP sqs (sq_of fx' r')).
  { intros fx' r' Hob'. destruct (sq_of_coords fx' r' Hob') as (A & B & C & _). repeat split; auto. apply (at_getPiece p fx' r' Hob'). }
  destruct Hin as [(Hob1 & He1 & Ha)|[(Hob1 & He1 & Hr & He2 & Hm)|[(Hob1 & Hc)|(Hob1 & Hc)]]].
  - (* push *)
    destruct (arrive_parts _ _ _ _ Hob Hob1 Ha) as (Ef & Et & Hpr). destruct (G _ _ Hob1) as (T64 & Tf & Tr & Tat).
    split; [unfold PawnOn, pc; rewrite Ef, Et; auto|].
    apply PM_push; unfold cap, promoOK, d; rewrite ?Ef, ?Et, ?Tf, ?Tr, ?Hzf, ?Hzr; auto; try (rewrite <- Tat; exact He1).
  - (* double push *)
    assert (Hob2 : on_board fx (r + dirOf w + dirOf w) = true).
    { unfold on_board in *. rewrite !andb_true_iff, !Z.leb_le in *. unfold dirOf, startRank in *. destruct w; lia. }
    destruct (G _ _ Hob1) as (M64 & Mf & Mr & Mat). destruct (G _ _ Hob2) as (T64 & Tf & Tr & Tat).
    unfold mv in Hm.
    assert (Ef : f = sq_of fx r) by (unfold f; rewrite Hm; reflexivity).
    assert (Et : t = sq_of fx (r + dirOf w + dirOf w)) by (unfold t; rewrite Hm; reflexivity).
    split; [unfold PawnOn, pc; rewrite Ef, Et; auto|].
    apply PM_double; unfold cap, d; rewrite ?Ef, ?Et, ?Tf, ?Tr, ?Hzf, ?Hzr; auto; try lia;
      try (rewrite <- Mat; exact He1); try (rewrite <- Tat; exact He2); try (rewrite Hm; reflexivity).
  - (* capture towards the a-file *)
    destruct (G _ _ Hob1) as (T64 & Tf & Tr & Tat).
    destruct Hc as [(Hcol & Ha)|(Hcol & Hep & Hemp & Hm)].
    + destruct (arrive_parts _ _ _ _ Hob Hob1 Ha) as (Ef & Et & Hpr).
      split; [unfold PawnOn, pc; rewrite Ef, Et; auto|].
      apply PM_capture; unfold cap, promoOK, d; rewrite ?Ef, ?Et, ?Tf, ?Tr, ?Hzf, ?Hzr; auto; try (rewrite <- Tat; exact Hcol).
    + unfold mv in Hm.
      assert (Ef : f = sq_of fx r) by (unfold f; rewrite Hm; reflexivity).
      assert (Et : t = sq_of (fx - 1) (r + dirOf w)) by (unfold t; rewrite Hm; reflexivity).
      split; [unfold PawnOn, pc; rewrite Ef, Et; auto|].
      apply PM_ep; unfold cap, d; rewrite ?Ef, ?Et, ?Tf, ?Tr, ?Hzf, ?Hzr; auto;
        try (rewrite <- Tat; exact Hemp); try (rewrite Hm; reflexivity).
  - (* capture towards the h-file *)
    destruct (G _ _ Hob1) as (T64 & Tf & Tr & Tat).
    destruct Hc as [(Hcol & Ha)|(Hcol & Hep & Hemp & Hm)].
    + destruct (arrive_parts _ _ _ _ Hob Hob1 Ha) as (Ef & Et & Hpr).
      split; [unfold PawnOn, pc; rewrite Ef, Et; auto|].
      apply PM_capture; unfold cap, promoOK, d; rewrite ?Ef, ?Et, ?Tf, ?Tr, ?Hzf, ?Hzr; auto; try (rewrite <- Tat; exact Hcol).
    + unfold mv in Hm.
      assert (Ef : f = sq_of fx r) by (unfold f; rewrite Hm; reflexivity).
      assert (Et : t = sq_of (fx + 1) (r + dirOf w)) by (unfold t; rewrite Hm; reflexivity).
      split; [unfold PawnOn, pc; rewrite Ef, Et; auto|].
      apply PM_ep; unfold cap, d; rewrite ?Ef, ?Et, ?Tf, ?Tr, ?Hzf, ?Hzr; auto;
        try (rewrite <- Tat; exact Hemp); try (rewrite Hm; reflexivity).
Qed.

(** ** MoveFacts for pawn moves *)
Hypothesis Hok : moveOk p m = true.
Hypothesis HP : PawnOn.
Hypothesis HM : PawnMove.

Lemma dec_f : (Z.of_N f = zr f * 8 + zf f /\ 0 <= zf f <= 7 /\ 0 <= zr f <= 7)%Z.
Proof. apply sq_decomp. apply HP. Qed.
Lemma dec_t : (Z.of_N t = zr t * 8 + zf t /\ 0 <= zf t <= 7 /\ 0 <= zr t <= 7)%Z.
Proof. apply sq_decomp. apply HP. Qed.
Lemma sqX_zf s : Z.of_N (sqX s) = zf s.
Proof. unfold sqX, zf. rewrite N2Z.inj_mod. reflexivity. Qed.

Lemma pc_pawn : isPawnPiece pc = true /\ isKingPiece pc = false /\ (pc = WPAWN -> w = true) /\ (pc = BPAWN -> w = false).
Proof.
  destruct HP as (_ & _ & E). rewrite E.
  destruct (Bool.bool_dec w true) as [Ew|Ew]; [|apply Bool.not_true_is_false in Ew]; rewrite Ew; cbn; repeat split; auto; discriminate.
Qed.

Lemma enemy_not_empty c : has_color (negb w) c = true -> c <> EMPTY /\ has_color w c = false.
Proof.
  intro H. destruct (Bool.bool_dec w true) as [Ew|Ew]; [|apply Bool.not_true_is_false in Ew]; rewrite Ew in H |- *;
    (split; [intro E; rewrite E in H; discriminate|]);
    unfold has_color in *; (destruct (color_of c) as [b|]; [|discriminate]); destruct b; cbn in *; congruence.
Qed.

Lemma nthP_at s : s < 64 -> nthP sqs s = at_ sqs (zf s) (zr s).
Proof. intro H. apply (getPiece_at p s H). Qed.

(** the own pawn attacks the target square of a capture *)
Lemma pawn_attacks_target :
  (zf t = zf f - 1 \/ zf t = zf f + 1)%Z -> zr t = (zr f + d)%Z ->
  sqAttackedT (negb w) p t (occupiedBB p) = true.
Proof.
  intros Hx Hy. destruct HP as (Hf & Ht & Epc).
  assert (Hb : N.testbit (ptBB p (myPiece w WPAWN)) f = true).
  { rewrite (ptBB_testbit p _ f Hwf) by (apply myPiece_codes; cbn; tauto).
    change (getPiece p f) with pc. rewrite Epc. replace (f <? 64) with true by (symmetry; apply N.ltb_lt; exact Hf).
    destruct (myPiece_mk w) as (_ & _ & _ & _ & ->). rewrite N.eqb_refl. reflexivity. }
  rewrite sqAttackedT_or, negb_involutive. fold w.
  match goal with |- _ || _ || ?X || _ || _ = true => assert (HX : X = true); [|rewrite HX, !orb_true_r; reflexivity] end.
  unfold d, dirOf in Hy.
  destruct (Bool.bool_dec w true) as [Ew|Ew]; [|apply Bool.not_true_is_false in Ew]; rewrite Ew in Hy, Hb |- *; cbn [negb].
  - apply (nz_land _ _ f); [|exact Hb]. destruct (bPawnAttacks_spec t Ht) as (_ & Hs). rewrite (Hs f Hf).
    unfold step_rel, bpawn_offsets. cbn [existsb fst snd]. rewrite orb_false_r.
    apply orb_true_iff. destruct Hx as [Hx|Hx]; [right|left]; apply andb_true_iff; split; apply Z.eqb_eq; lia.
  - apply (nz_land _ _ f); [|exact Hb]. destruct (wPawnAttacks_spec t Ht) as (_ & Hs). rewrite (Hs f Hf).
    unfold step_rel, wpawn_offsets. cbn [existsb fst snd]. rewrite orb_false_r.
    apply orb_true_iff. destruct Hx as [Hx|Hx]; [right|left]; apply andb_true_iff; split; apply Z.eqb_eq; lia.
Qed.

Theorem pawn_moveFacts : MoveFacts p m.
Proof.
  destruct HP as (Hf & Ht & Epc). destruct pc_pawn as (Hpp & Hnk & HwW & HwB).
  destruct dec_f as (Df & Df1 & Df2). destruct dec_t as (Dt & Dt1 & Dt2).
  constructor.
  - exact Hok.
  - (* pushOk *)
    unfold pushOk. cbn [abs sp_board]. fold f t sqs. change (nthP sqs f) with pc. split; intros Ew Et.
    + assert (Hw : w = true) by (apply HwW; exact Ew).
      assert (Hz : (zr t = zr f + 2 /\ zf t = zf f)%Z) by lia.
      destruct HM as [_ Hy _ _|Hx Hy Hs He Hc Hp|_ Hy _ _|_ Hy _ _ _]; unfold d, dirOf in Hy; rewrite Hw in Hy; try lia.
      unfold d, dirOf, startRank in Hs, He. rewrite Hw in Hs, He. split; [lia|]. split; [|exact Hp].
      replace (f + 8) with (sq_of (zf f) (zr f + 1)) by (unfold sq_of; lia). exact He.
    + assert (Hw : w = false) by (apply HwB; exact Ew).
      assert (Hz : (zr t = zr f - 2 /\ zf t = zf f)%Z) by lia.
      destruct HM as [_ Hy _ _|Hx Hy Hs He Hc Hp|_ Hy _ _|_ Hy _ _ _]; unfold d, dirOf in Hy; rewrite Hw in Hy; try lia.
      unfold d, dirOf, startRank in Hs, He. rewrite Hw in Hs, He. split; [lia|]. split; [|exact Hp].
      replace (t + 8) with (sq_of (zf f) (zr f + -1)) by (unfold sq_of; lia). exact He.
  - (* the king is not captured *)
    fold t. change (getPiece p t) with cap.
    destruct HM as [_ _ Hc _|_ _ _ _ Hc _|Hx Hy Hcol _|_ _ Hc _ _]; try (rewrite Hc; reflexivity).
    destruct (enemy_not_empty cap Hcol) as (_ & Hcw).
    apply (attacked_no_king zk p m Hrev Ht Hcw). apply pawn_attacks_target; assumption.
  - fold f. change (getPiece p f) with pc. rewrite Hnk. discriminate.
  - (* captures are diagonal *)
    fold f t. change (getPiece p t) with cap. intros _ Hc Hsx.
    assert (Hzx : zf f = zf t) by (rewrite <- !sqX_zf, Hsx; reflexivity).
    destruct HM as [_ _ Hc' _|_ _ _ _ Hc' _|Hx _ _ _|_ _ Hc' _ _]; try contradiction; lia.
  - (* a diagonal step to an empty square is the e.p. capture *)
    fold f t. change (getPiece p t) with cap. intros _ Hsx Hc.
    assert (Hzx : zf f <> zf t) by (rewrite <- !sqX_zf; intro E; apply Hsx; lia).
    destruct HM as [Hx _ _ _|Hx _ _ _ _ _|_ _ Hcol _|_ _ _ He _]; try (exfalso; lia); [|exact He].
    destruct (enemy_not_empty cap Hcol) as (Hne & _). contradiction.
  - (* the e.p. capture is diagonal *)
    fold f t. intros _ He Hsx.
    assert (Hzx : zf f = zf t) by (rewrite <- !sqX_zf, Hsx; reflexivity).
    destruct (MakeSpecProofs.ep_facts p Hwf) as [Hm1|(E1' & E2' & E3' & E4')]; [lia|]. fold w sqs in E2', E3', E4'.
    rewrite <- He in E1', E2', E3', E4'.
    assert (Ez : (Z.of_N t mod 8 = zf t /\ Z.of_N t / 8 = zr t)%Z) by (unfold zf, zr; auto). destruct Ez as (Ez1 & Ez2).
    rewrite Ez1, Ez2 in *.
    destruct HM as [Hx Hy Hc _|Hx Hy Hs _ _ _|Hx _ Hcol _|Hx _ _ _ _]; try lia.
    + (* a push onto the e.p. square would start from the square of the enemy pawn *)
      assert (Hfa : nthP sqs f = mk_piece (negb w) Pawn).
      { rewrite (nthP_at f Hf). rewrite <- E4'. unfold d, dirOf in Hy.
        destruct (Bool.bool_dec w true) as [Ew|Ew]; [|apply Bool.not_true_is_false in Ew]; rewrite Ew in Hy, E2' |- *; f_equal; lia. }
      change (nthP sqs f) with pc in Hfa. rewrite Epc in Hfa.
      destruct (Bool.bool_dec w true) as [Ew|Ew]; [|apply Bool.not_true_is_false in Ew]; rewrite Ew in Hfa; discriminate.
    + unfold startRank, d, dirOf in Hy, Hs.
      destruct (Bool.bool_dec w true) as [Ew|Ew]; [|apply Bool.not_true_is_false in Ew]; rewrite Ew in Hy, Hs, E2'; lia.
Qed.

(** ** the reverse pawn move is generated *)
Let MF : MoveFacts p m := pawn_moveFacts.

Definition rowP (s : square) : bool :=
  Bool.eqb (N.testbit maskRow1 s) (zr s =? 0)%Z && Bool.eqb (N.testbit maskRow8 s) (zr s =? 7)%Z &&
  (bPawnAttacks s <? 2 ^ 64) && (wPawnAttacks s <? 2 ^ 64).
Lemma row_ok : forallb rowP allSquares = true.
Proof. vm_compute. reflexivity. Qed.
Lemma row_facts s : s < 64 ->
  N.testbit maskRow1 s = (zr s =? 0)%Z /\ N.testbit maskRow8 s = (zr s =? 7)%Z /\
  bPawnAttacks s < 2 ^ 64 /\ wPawnAttacks s < 2 ^ 64.
Proof.
  intro H. pose proof (sweep1 rowP row_ok s H) as G. unfold rowP in G. rewrite !andb_true_iff in G.
  destruct G as (((A & B) & C) & D). apply Bool.eqb_prop in A, B. apply N.ltb_lt in C, D. auto.
Qed.

Lemma bit_lt k : k < 64 -> bit k < 2 ^ 64.
Proof. intro H. unfold bit. rewrite N.shiftl_1_l. apply N.pow_lt_mono_r; lia. Qed.

Lemma sqY_zr s : Z.of_N (sqY s) = zr s.
Proof. unfold sqY, zr. rewrite N2Z.inj_div. reflexivity. Qed.

Lemma f_mid : 8 <= f < 56.
Proof.
  destruct HP as (Hf & _ & Epc). destruct pc_pawn as (Hpp & _).
  destruct (N.lt_ge_cases f 8) as [A|A].
  - pose proof (no_edge_pawn zk p m Hrev f Hf (or_introl A)) as H. change (getPiece p f) with pc in H. congruence.
  - destruct (N.lt_ge_cases f 56) as [B|B]; [lia|].
    pose proof (no_edge_pawn zk p m Hrev f Hf (or_intror B)) as H. change (getPiece p f) with pc in H. congruence.
Qed.

Lemma occQ_f : N.testbit (occupiedBB q) f = false.
Proof.
  unfold q, f. rewrite (occQ_bit zk EKZ p m Hrev MF (mfrom m)), (sqsQ_f zk p m Hrev MF). change (EMPTY =? EMPTY) with true.
  apply andb_false_r.
Qed.

Lemma getQ_t : getPiece q t = (if negb (mpromote m =? EMPTY) then mpromote m else pc).
Proof. unfold q, t, pc, sqs, f. apply (sqsQ_t zk p m Hrev MF). Qed.

(** squares other than from / to / the e.p. victim keep their piece *)
Lemma sqsQ_other s : s < 64 -> s <> f -> s <> t ->
  (isPawnPiece pc = true -> Z.of_N t = epSquare p -> s <> (if w then t - 8 else t + 8)) ->
  nthP sqsQ s = nthP sqs s.
Proof.
  intros Hs Hsf Hst Hep. pose proof (Hlen zk p Hrev) as Hl. destruct pc_pawn as (Hpp & Hnk & _).
  unfold sqsQ, q, f, t, sqs, pc, w in *.
  destruct (boardQ zk p m Hrev MF) as [Hq _ _|Ew Hw He Hge Hc Hp Hb Hq|Eb Hw He Hge Hc Hp Hb Hq|Hk _ _ _ _ _ _ _|Hk _ _ _ _ _ _ _].
  - rewrite Hq. rewrite !nthP_updN by (rewrite ?length_updN, Hl; lia).
    replace (s =? mto m) with false by (symmetry; apply N.eqb_neq; exact Hst).
    replace (s =? mfrom m) with false by (symmetry; apply N.eqb_neq; exact Hsf). reflexivity.
  - specialize (Hep Hpp He). rewrite Hw in Hep.
    rewrite Hq. rewrite !nthP_updN by (rewrite ?length_updN, Hl; lia).
    replace (s =? mto m) with false by (symmetry; apply N.eqb_neq; exact Hst).
    replace (s =? mfrom m) with false by (symmetry; apply N.eqb_neq; exact Hsf).
    replace (s =? mto m - 8) with false by (symmetry; apply N.eqb_neq; exact Hep). reflexivity.
  - specialize (Hep Hpp He). rewrite Hw in Hep.
    rewrite Hq. rewrite !nthP_updN by (rewrite ?length_updN, Hl; lia).
    replace (s =? mto m) with false by (symmetry; apply N.eqb_neq; exact Hst).
    replace (s =? mfrom m) with false by (symmetry; apply N.eqb_neq; exact Hsf).
    replace (s =? mto m + 8) with false by (symmetry; apply N.eqb_neq; exact Hep). reflexivity.
  - unfold sqs, f in Hnk. congruence.
  - unfold sqs, f in Hnk. congruence.
Qed.

Lemma land_bit_0 k occ : (N.land (bit k) occ =? 0) = negb (N.testbit occ k).
Proof.
  destruct (N.testbit occ k) eqn:E; cbn [negb].
  - apply N.eqb_neq. intro H. assert (X : N.testbit (N.land (bit k) occ) k = false) by (rewrite H; apply N.bits_0).
    rewrite N.land_spec, bit_bits, N.eqb_refl, E in X. discriminate.
  - apply N.eqb_eq. apply N.bits_inj. intro j. rewrite N.land_spec, bit_bits, N.bits_0.
    destruct (N.eqb_spec k j) as [<-|]; [rewrite E; reflexivity | reflexivity].
Qed.

Lemma w_cases : w = true \/ w = false.
Proof. destruct (Bool.bool_dec w true) as [E|E]; [left; exact E | right; apply Bool.not_true_is_false; exact E]. Qed.

(** a double push never lands on the e.p. square *)
Lemma double_not_ep : zr t = (zr f + 2 * d)%Z -> zr f = startRank w -> Z.of_N t <> epSquare p.
Proof.
  intros Hy Hs He.
  assert (Hne : (epSquare p <> -1)%Z) by lia.
  pose proof (ep_rank zk p m Hrev Hne He) as Hr. fold t w in Hr.
  pose proof (sqY_zr t) as Hz. rewrite Hr in Hz. unfold d, dirOf, startRank in Hy, Hs.
  destruct w_cases as [Ew|Ew]; rewrite Ew in Hy, Hs, Hz; lia.
Qed.

(** the from-mask of the reverse pawn block contains the from-square *)
Lemma fromMask_has : N.testbit (revPawnFromMask w (occupiedBB q) t) f = true.
Proof.
  destruct HP as (Hf & Ht & Epc). destruct dec_f as (Df & Df1 & Df2). destruct dec_t as (Dt & Dt1 & Dt2).
  pose proof f_mid as Hfm. destruct (row_facts f Hf) as (R1 & R8 & _).
  assert (Hzr0 : (zr f =? 0)%Z = false) by (apply Z.eqb_neq; lia).
  assert (Hzr7 : (zr f =? 7)%Z = false) by (apply Z.eqb_neq; lia).
  unfold revPawnFromMask. unfold andn. rewrite N.ldiff_spec, occQ_f. cbn [negb]. rewrite andb_true_r.
  unfold d, dirOf, startRank in *.
  destruct w_cases as [Ew|Ew]; rewrite Ew; cbv iota.
  - (* white *)
    assert (M0 : (zf t = zf f \/ zf t = zf f - 1 \/ zf t = zf f + 1)%Z -> zr t = (zr f + 1)%Z ->
                 N.testbit (N.ldiff (N.lor (bPawnAttacks t) (bitAt t (-8))) maskRow1) f = true).
    { intros Hx Hy. rewrite N.ldiff_spec, R1, Hzr0, N.lor_spec. cbn [negb]. rewrite andb_true_r.
      destruct Hx as [Hx|Hx].
      - apply orb_true_iff. right. unfold bitAt, sqAdd. rewrite bit_bits. apply N.eqb_eq. lia.
      - apply orb_true_iff. left. destruct (bPawnAttacks_spec t Ht) as (_ & Hs). rewrite (Hs f Hf).
        unfold step_rel, bpawn_offsets. cbn [existsb fst snd]. rewrite orb_false_r.
        apply orb_true_iff. destruct Hx as [Hx|Hx]; [right|left]; apply andb_true_iff; split; apply Z.eqb_eq; lia. }
    assert (Mext : forall X, N.testbit (N.ldiff (N.lor (bPawnAttacks t) (bitAt t (-8))) maskRow1) f = true ->
              N.testbit (if sqY t =? 3 then if N.land (bitAt t (-8)) (occupiedBB q) =? 0
                                            then N.lor (N.ldiff (N.lor (bPawnAttacks t) (bitAt t (-8))) maskRow1) X
                                            else N.ldiff (N.lor (bPawnAttacks t) (bitAt t (-8))) maskRow1
                         else N.ldiff (N.lor (bPawnAttacks t) (bitAt t (-8))) maskRow1) f = true).
    { intros X HX. destruct (sqY t =? 3); [|exact HX]. destruct (_ =? 0); [|exact HX]. rewrite N.lor_spec, HX. reflexivity. }
    destruct HM as [Hx Hy _ _|Hx Hy Hs He Hc Hp|Hx Hy _ _|Hx Hy _ _ _]; unfold d, dirOf in Hy; rewrite Ew in Hy;
      try (unfold d, dirOf, startRank in Hs, He; rewrite Ew in Hs, He).
    + apply Mext, M0; auto.
    + (* double push *)
      assert (Hsy : sqY t = 3) by (pose proof (sqY_zr t); lia). rewrite Hsy, N.eqb_refl.
      assert (Hmid : sq_of (zf f) (zr f + 1) = t - 8) by (unfold sq_of; lia).
      assert (Hb8 : bitAt t (-8) = bit (t - 8)) by (unfold bitAt, sqAdd; f_equal; lia).
      rewrite Hb8, land_bit_0.
      assert (Ho : N.testbit (occupiedBB q) (t - 8) = false).
      { unfold q. rewrite (occQ_bit zk EKZ p m Hrev MF). fold q sqsQ.
        rewrite sqsQ_other; try lia.
        - rewrite <- Hmid, He. change (EMPTY =? EMPTY) with true. apply andb_false_r.
        - intros _ E. exfalso. apply (double_not_ep); unfold d, dirOf, startRank; rewrite ?Ew; auto. }
      rewrite Ho. cbn [negb]. rewrite N.lor_spec. apply orb_true_iff. right.
      unfold bitAt, sqAdd. rewrite bit_bits. apply N.eqb_eq. lia.
    + apply Mext, M0; auto; tauto.
    + apply Mext, M0; auto; tauto.
  - (* black *)
    assert (M0 : (zf t = zf f \/ zf t = zf f - 1 \/ zf t = zf f + 1)%Z -> zr t = (zr f + -1)%Z ->
                 N.testbit (N.ldiff (N.lor (wPawnAttacks t) (bitAt t 8)) maskRow8) f = true).
    { intros Hx Hy. rewrite N.ldiff_spec, R8, Hzr7, N.lor_spec. cbn [negb]. rewrite andb_true_r.
      destruct Hx as [Hx|Hx].
      - apply orb_true_iff. right. unfold bitAt, sqAdd. rewrite bit_bits. apply N.eqb_eq. lia.
      - apply orb_true_iff. left. destruct (wPawnAttacks_spec t Ht) as (_ & Hs). rewrite (Hs f Hf).
        unfold step_rel, wpawn_offsets. cbn [existsb fst snd]. rewrite orb_false_r.
        apply orb_true_iff. destruct Hx as [Hx|Hx]; [right|left]; apply andb_true_iff; split; apply Z.eqb_eq; lia. }
    assert (Mext : forall X, N.testbit (N.ldiff (N.lor (wPawnAttacks t) (bitAt t 8)) maskRow8) f = true ->
              N.testbit (if sqY t =? 4 then if N.land (bitAt t 8) (occupiedBB q) =? 0
                                            then N.lor (N.ldiff (N.lor (wPawnAttacks t) (bitAt t 8)) maskRow8) X
                                            else N.ldiff (N.lor (wPawnAttacks t) (bitAt t 8)) maskRow8
                         else N.ldiff (N.lor (wPawnAttacks t) (bitAt t 8)) maskRow8) f = true).
    { intros X HX. destruct (sqY t =? 4); [|exact HX]. destruct (_ =? 0); [|exact HX]. rewrite N.lor_spec, HX. reflexivity. }
    destruct HM as [Hx Hy _ _|Hx Hy Hs He Hc Hp|Hx Hy _ _|Hx Hy _ _ _]; unfold d, dirOf in Hy; rewrite Ew in Hy;
      try (unfold d, dirOf, startRank in Hs, He; rewrite Ew in Hs, He).
    + apply Mext, M0; auto.
    + assert (Hsy : sqY t = 4) by (pose proof (sqY_zr t); lia). rewrite Hsy, N.eqb_refl.
      assert (Hmid : sq_of (zf f) (zr f + -1) = t + 8) by (unfold sq_of; lia).
      assert (Hb8 : bitAt t 8 = bit (t + 8)) by (unfold bitAt, sqAdd; f_equal; lia).
      rewrite Hb8, land_bit_0.
      assert (Ho : N.testbit (occupiedBB q) (t + 8) = false).
      { unfold q. rewrite (occQ_bit zk EKZ p m Hrev MF). fold q sqsQ.
        rewrite sqsQ_other; try lia.
        - rewrite <- Hmid, He. change (EMPTY =? EMPTY) with true. apply andb_false_r.
        - intros _ E. exfalso. apply (double_not_ep); unfold d, dirOf, startRank; rewrite ?Ew; auto. }
      rewrite Ho. cbn [negb]. rewrite N.lor_spec. apply orb_true_iff. right.
      unfold bitAt, sqAdd. rewrite bit_bits. apply N.eqb_eq. lia.
    + apply Mext, M0; auto; tauto.
    + apply Mext, M0; auto; tauto.
Qed.

(** the target square lies ahead of the from-square *)
Lemma t_ahead : if w then f < t else t < f.
Proof.
  destruct dec_f as (Df & Df1 & Df2). destruct dec_t as (Dt & Dt1 & Dt2).
  assert (Hy : (zr t = zr f + d \/ zr t = zr f + 2 * d)%Z) by (destruct HM; auto).
  unfold d, dirOf in Hy. destruct w_cases as [Ew|Ew]; rewrite Ew in Hy |- *; lia.
Qed.

Lemma bitAt_lt s dz : (0 <= Z.of_N s + dz < 64)%Z \/ (Z.of_N s + dz < 0)%Z -> bitAt s dz < 2 ^ 64.
Proof. intro H. unfold bitAt, sqAdd. apply bit_lt. lia. Qed.

Lemma fromMask_lt occ : revPawnFromMask w occ t < 2 ^ 64.
Proof.
  destruct HP as (Hf & Ht & _). pose proof t_ahead as Ha. pose proof f_mid as Hfm.
  destruct (row_facts t Ht) as (_ & _ & Lb & Lw).
  assert (Hlor : forall a b, a < 2 ^ 64 -> b < 2 ^ 64 -> N.lor a b < 2 ^ 64).
  { intros a b A B. apply lt_2_64_of_bits. intros i Hi. rewrite N.lor_spec in Hi. apply orb_true_iff in Hi.
    destruct Hi as [Hi|Hi]; [apply (bits_below_64 a A i Hi) | apply (bits_below_64 b B i Hi)]. }
  unfold revPawnFromMask, andn. apply ldiff_lt.
  destruct w_cases as [Ew|Ew]; rewrite Ew in Ha |- *; cbv iota.
  - assert (B8 : bitAt t (-8) < 2 ^ 64) by (apply bitAt_lt; lia).
    assert (B16 : bitAt t (-16) < 2 ^ 64) by (apply bitAt_lt; lia).
    assert (HM0 : N.ldiff (N.lor (bPawnAttacks t) (bitAt t (-8))) maskRow1 < 2 ^ 64) by (apply ldiff_lt, Hlor; assumption).
    destruct (sqY t =? 3); [destruct (_ =? 0)|]; [apply Hlor; assumption | exact HM0 | exact HM0].
  - assert (B8 : bitAt t 8 < 2 ^ 64) by (apply bitAt_lt; lia).
    assert (HM0 : N.ldiff (N.lor (wPawnAttacks t) (bitAt t 8)) maskRow8 < 2 ^ 64) by (apply ldiff_lt, Hlor; assumption).
    destruct (sqY t =? 4) eqn:E4; [destruct (_ =? 0)|]; [|exact HM0 | exact HM0].
    apply Hlor; [exact HM0|].
    apply N.eqb_eq in E4. unfold sqY in E4. apply bitAt_lt. pose proof (N.div_mod t 8 ltac:(lia)). pose proof (N.mod_lt t 8 ltac:(lia)). lia.
Qed.

Lemma m_eta : m = mkMove f t (mpromote m).
Proof. unfold f, t. apply move_eta. Qed.

Lemma genQ : genMovesNoUndoInfo q =
  revPromoBlock w q (revPawnBlock w q (revKingBlock w q (revKnightBlock w q (revBishopBlock w q (revRookBlock w q (revQueenBlock w q [])))))).
Proof. unfold q, w. apply (gen_unfold zk p m Hrev MF). Qed.

Lemma myPawn : myPiece w WPAWN = mk_piece w Pawn.
Proof. destruct (myPiece_mk w) as (_ & _ & _ & _ & E). exact E. Qed.

(** pushes, double pushes without e.p. square, captures and e.p. captures that do not promote *)
Theorem raw_pawn_noprom : mpromote m = EMPTY -> In m (revMoveList q).
Proof.
  intro Hpr. destruct HP as (Hf & Ht & Epc).
  destruct (Z.eq_dec (epSquare q) (-1)) as [Eq|Eq]; [|apply (raw_doublepush_ep zk p m Hrev MF Eq)].
  unfold revMoveList. cbv zeta. rewrite Eq. change ((-1 =? -1)%Z) with true. cbv iota.
  pose proof (whiteMove_q zk p m Hrev MF) as Hwq. fold q w in Hwq.
  rewrite genQ. apply revPromoBlock_mono. unfold revPawnBlock. cbv zeta.
  apply (proj2 (revLoopW_In (fun sq => revPawnFromMask w (occupiedBB q) sq) (fun _ => EMPTY) (fun _ => false)
                             (ptBB q (myPiece w WPAWN)) _ m
                             (BoardOK_ptBB_lt q _ (BOq zk EKZ p m Hrev MF) (myPiece_codes w WPAWN ltac:(cbn; tauto))))).
  right. exists t. split; [|split; [reflexivity|]].
  - rewrite (BoardOK_ptBB q _ t (BOq zk EKZ p m Hrev MF)) by (apply myPiece_codes; cbn; tauto).
    rewrite getQ_t, Hpr. change (negb (EMPTY =? EMPTY)) with false. cbv iota. rewrite Epc, myPawn, N.eqb_refl.
    replace (t <? 64) with true by (symmetry; apply N.ltb_lt; exact Ht). reflexivity.
  - apply revAdd_In; [apply fromMask_lt|]. right. exists f. split; [apply fromMask_has|].
    rewrite m_eta at 1. rewrite Hpr. reflexivity.
Qed.

(** promotions, with or without capture *)
Theorem raw_pawn_prom : (exists k, In k promoKinds /\ mpromote m = mk_piece w k) -> zr t = lastRank w -> In m (revMoveList q).
Proof.
  intros (k & Hk & Hpr) Hlast. destruct HP as (Hf & Ht & Epc).
  destruct dec_f as (Df & Df1 & Df2). destruct dec_t as (Dt & Dt1 & Dt2).
  destruct (Z.eq_dec (epSquare q) (-1)) as [Eq|Eq]; [|apply (raw_doublepush_ep zk p m Hrev MF Eq)].
  unfold revMoveList. cbv zeta. rewrite Eq. change ((-1 =? -1)%Z) with true. cbv iota.
  rewrite genQ. unfold revPromoBlock. cbv zeta.
  assert (Hne : mpromote m <> EMPTY) by (rewrite Hpr; destruct w_cases as [Ew'|Ew']; rewrite Ew'; destruct k; discriminate).
  assert (HQt : getPiece q t = mk_piece w k).
  { rewrite getQ_t. destruct (N.eqb_spec (mpromote m) EMPTY); [contradiction|]. exact Hpr. }
  pose proof (BOq zk EKZ p m Hrev MF) as BO. fold q in BO.
  assert (Hcol : colorBB q w < 2 ^ 64).
  { apply lt_2_64_of_bits. intros i Hi. rewrite (BoardOK_color q w i BO) in Hi. apply andb_true_iff in Hi.
    destruct Hi as (Hi & _). apply N.ltb_lt. exact Hi. }
  (* geometry: from-square diagonally or straight behind t *)
  assert (Hgeo : ((zf t = zf f \/ zf t = zf f - 1 \/ zf t = zf f + 1) /\ zr t = zr f + d)%Z).
  { destruct HM as [Hx Hy _ _|_ _ _ _ _ Hp|Hx Hy _ _|_ _ _ _ Hp]; try congruence; split; auto; tauto. }
  destruct Hgeo as (Hx & Hy). unfold d, dirOf in Hy. unfold lastRank in Hlast.
  destruct (row_facts t Ht) as (R1 & R8 & Lb & Lw).
  apply (proj2 (revLoopW_In
           (fun sq => andn (if w then N.lor (bPawnAttacks sq) (bitAt sq (-8)) else N.lor (wPawnAttacks sq) (bitAt sq 8)) (occupiedBB q))
           (fun sq => getPiece q sq)
           (fun sq => (getPiece q sq =? WKING) || (getPiece q sq =? BKING))
           (N.land (colorBB q w) (if w then maskRow8 else maskRow1)) _ m (land_lt_l _ _ 64 Hcol))).
  right. exists t. split; [|split].
  - rewrite N.land_spec, (BoardOK_color q w t BO), HQt.
    replace (t <? 64) with true by (symmetry; apply N.ltb_lt; exact Ht).
    replace (has_color w (mk_piece w k)) with true by (destruct w_cases as [Ew'|Ew']; rewrite Ew'; destruct k; reflexivity). cbn [andb].
    destruct w_cases as [Ew|Ew]; rewrite Ew in Hlast |- *; [rewrite R8 | rewrite R1]; apply Z.eqb_eq; exact Hlast.
  - rewrite HQt. unfold promoKinds in Hk. cbn [In] in Hk.
    destruct w_cases as [Ew'|Ew']; rewrite Ew'; destruct Hk as [<-|[<-|[<-|[<-|[]]]]]; reflexivity.
  - assert (Hmask : N.testbit (andn (if w then N.lor (bPawnAttacks t) (bitAt t (-8)) else N.lor (wPawnAttacks t) (bitAt t 8)) (occupiedBB q)) f = true).
    { unfold andn. rewrite N.ldiff_spec, occQ_f. cbn [negb]. rewrite andb_true_r.
      destruct w_cases as [Ew|Ew]; rewrite Ew in Hy, Hlast |- *; rewrite N.lor_spec; apply orb_true_iff.
      - destruct Hx as [Hx|Hx].
        + right. unfold bitAt, sqAdd. rewrite bit_bits. apply N.eqb_eq. lia.
        + left. destruct (bPawnAttacks_spec t Ht) as (_ & Hs). rewrite (Hs f Hf).
          unfold step_rel, bpawn_offsets. cbn [existsb fst snd]. rewrite orb_false_r.
          apply orb_true_iff. destruct Hx as [Hx|Hx]; [right|left]; apply andb_true_iff; split; apply Z.eqb_eq; lia.
      - destruct Hx as [Hx|Hx].
        + right. unfold bitAt, sqAdd. rewrite bit_bits. apply N.eqb_eq. lia.
        + left. destruct (wPawnAttacks_spec t Ht) as (_ & Hs). rewrite (Hs f Hf).
          unfold step_rel, wpawn_offsets. cbn [existsb fst snd]. rewrite orb_false_r.
          apply orb_true_iff. destruct Hx as [Hx|Hx]; [right|left]; apply andb_true_iff; split; apply Z.eqb_eq; lia. }
    apply revAdd_In.
    + unfold andn. apply ldiff_lt.
      assert (Hlor : forall a b, a < 2 ^ 64 -> b < 2 ^ 64 -> N.lor a b < 2 ^ 64).
      { intros a b A B. apply lt_2_64_of_bits. intros i Hi. rewrite N.lor_spec in Hi. apply orb_true_iff in Hi.
        destruct Hi as [Hi|Hi]; [apply (bits_below_64 a A i Hi) | apply (bits_below_64 b B i Hi)]. }
      destruct w_cases as [Ew|Ew]; rewrite Ew in Hlast |- *; apply Hlor; try assumption; apply bitAt_lt; lia.
    + right. exists f. split; [exact Hmask|]. rewrite m_eta at 1. rewrite HQt, Hpr. reflexivity.
Qed.

(** every pawn move *)
Theorem raw_pawn : In m (revMoveList q).
Proof.
  assert (Hp : promoOK \/ mpromote m = EMPTY) by (destruct HM; auto).
  destruct Hp as [[(Hl & Hk)|(_ & He)]|He].
  - apply raw_pawn_prom; assumption.
  - apply raw_pawn_noprom; exact He.
  - apply raw_pawn_noprom; exact He.
Qed.

End Pawn.

(** * Completeness for the moves of the pawn block *)
Theorem complete_pawnBlock zk (EKZ : emptyKeysZero zk) p m incl :
  WFrev zk p ->
  (incl = true \/ epSquare p = (-1)%Z \/
   (isPawnPiece (getPiece p (mfrom m)) = true /\ Z.of_N (mto m) = epSquare p)) ->
  In m (pawnBlock (whiteMove p) p []) -> CompleteAt zk p m incl.
Proof.
  intros Hrev Hinc Hin. pose proof (wr_wf zk p Hrev) as Hwf'.
  assert (Hps : In m (pseudoLegalMoves p)).
  { unfold pseudoLegalMoves, pseudoLegalMovesT. cbv zeta. apply (pawnBlock_app p Hwf'). right. exact Hin. }
  destruct (pseudo_move_good p Hwf' m Hps) as (_ & Hok & _).
  apply (pawnBlock_spec p m Hwf') in Hin.
  destruct (pawnMove_of_spec zk p m Hin) as (HP & HM).
  pose proof (pawn_moveFacts zk p m Hrev Hok HP HM) as MF.
  apply (complete_given_raw zk EKZ p m incl Hrev MF Hinc).
  apply (raw_pawn zk EKZ p m Hrev Hok HP HM).
Qed.
