(** C15: the theorems cited by Properties_C15.v that are not in the earlier parts, and the
    non-vacuity examples (concrete positions read from FEN by the model of TextIO::readFEN with the
    engine's own Zobrist tables). *)
From Coq Require Import ZArith NArith List Bool Lia.
From Texel Require Import Chess.Types Chess.Position Chess.PositionSpec Chess.PositionFacts
  Chess.PositionProofs Chess.PositionProofs2 Chess.PositionProofs3 Chess.PositionTheorems Chess.PositionInst
  Chess.PositionExamples Chess.Fen Chess.Spec Chess.BitBoard Chess.MoveGen Chess.MoveGenWF
  RevGen.RevGen RevGen.RevFacts RevGen.RevAbs RevGen.RevRestore RevGen.RevValid RevGen.RevCand RevGen.RevRaw RevGen.RevLegal
  RevGen.RevPremise RevGen.RevCons.
Import ListNotations.
Local Open Scope N_scope.

(** * consistency, partial: what knownInvalid guarantees about every reported un-move *)
Theorem consistent_partial zk pos incl um :
  In um (genMoves zk pos incl) ->
  let prev := unMakeMove zk pos (um_move um) (um_ui um) in
  In (um_move um) (revMoveList pos) /\ u_halfMoveClock (um_ui um) = 0%Z /\
  pieceCountsValid prev = true /\                                     (* obtainable piece counts *)
  snd (canTakeKing zk prev) = false /\                                (* the side that moved last is not in check *)
  epSquare (fixupEPSquare zk prev) = epSquare prev /\                 (* its e.p. square can be used *)
  epSquare (kiRemade zk (fst (canTakeKing zk prev)) (um_move um)) = epSquare pos.   (* making the move again gives the e.p. square of pos *)
Proof.
  intros H prev. apply genMoves_In in H. destruct H as (Hc & Hk).
  destruct (candidates_clock pos incl um Hc) as (H0 & Hraw).
  split; [exact Hraw|]. split; [exact H0|].
  unfold knownInvalid in Hk. cbv zeta in Hk. unfold kiPrev in Hk. fold prev in Hk.
  destruct (pieceCountsValid prev); [|discriminate]. cbn [negb] in Hk.
  destruct (canTakeKing zk prev) as [tmp ctk] eqn:Ec. cbn [fst snd].
  destruct ctk; [discriminate|].
  unfold kiEpStable in Hk.
  assert (Hst : epSquare (fixupEPSquare zk tmp) = epSquare tmp).
  { destruct (Z.eqb_spec (epSquare tmp) (epSquare (fixupEPSquare zk tmp))) as [E|E]; [auto|discriminate]. }
  assert (Etmp : tmp = prev).
  { pose proof (canTakeKing_fst zk prev) as F. rewrite Ec in F. exact F. }
  rewrite Hst, Z.eqb_refl in Hk. cbn [negb] in Hk.
  destruct (Z.eqb_spec (epSquare (kiRemade zk tmp (um_move um))) (epSquare pos)) as [E|E]; [|discriminate].
  rewrite <- Etmp. auto.
Qed.

(** * Examples (non-vacuity) *)
(** "rnbqkbnr/pppp1ppp/8/8/3pP3/8/PPP2PPP/RNBQKBNR b KQkq e3 0 3": black to move, e.p. capture d4xe3 is legal *)
Definition epFEN : list N :=
  [114; 110; 98; 113; 107; 98; 110; 114; 47; 112; 112; 112; 112; 49; 112; 112; 112; 47; 56; 47; 56; 47; 51; 112; 80;
   51; 47; 56; 47; 80; 80; 80; 50; 80; 80; 80; 47; 82; 78; 66; 81; 75; 66; 78; 82; 32; 98; 32; 75; 81; 107; 113; 32;
   101; 51; 32; 48; 32; 51].
Definition epPos : position := posOf epFEN.
(** kiwipete: "r3k2r/p1ppqpb1/bn2pnp1/3PN3/1p2P3/2N2Q1p/PPPBBPPP/R3K2R w KQkq - 0 1" *)
Definition kiwiFEN : list N :=
  [114; 51; 107; 50; 114; 47; 112; 49; 112; 112; 113; 112; 98; 49; 47; 98; 110; 50; 112; 110; 112; 49; 47; 51; 80; 78;
   51; 47; 49; 112; 50; 80; 51; 47; 50; 78; 50; 81; 49; 112; 47; 80; 80; 80; 66; 66; 80; 80; 80; 47; 82; 51; 75; 50;
   82; 32; 119; 32; 75; 81; 107; 113; 32; 45; 32; 48; 32; 49].
Definition kiwiPos : position := posOf kiwiFEN.

Lemma epPos_WFrev : WFrev zk0 epPos.
Proof.
  constructor.
  - apply consistentb_sound. vm_compute. reflexivity.
  - vm_compute. reflexivity.
  - vm_compute. reflexivity.
  - vm_compute. reflexivity.
  - intros e He. assert (E0 : epSquare epPos = 20%Z) by (vm_compute; reflexivity). rewrite E0 in He.
    assert (E : e = 20) by lia. subst e. vm_compute. reflexivity.
Qed.

Lemma kiwiPos_WFrev : WFrev zk0 kiwiPos.
Proof.
  constructor.
  - apply consistentb_sound. vm_compute. reflexivity.
  - vm_compute. reflexivity.
  - vm_compute. reflexivity.
  - vm_compute. reflexivity.
  - intros e He. exfalso. assert (E0 : epSquare kiwiPos = (-1)%Z) by (vm_compute; reflexivity). rewrite E0 in He. lia.
Qed.

(** ... Ng8-f6 in the e.p. position (the predecessor keeps its e.p. square e3: includeAllEpSquares) *)
Example complete_example_knight :
  legal_spec (abs epPos) (mkMove 62 45 EMPTY) /\
  CompleteAt zk0 epPos (mkMove 62 45 EMPTY) true /\
  In (mkUnMove (mkMove 62 45 EMPTY) (mkUndo EMPTY 15 20%Z 0%Z)) (genMoves zk0 (successor zk0 epPos (mkMove 62 45 EMPTY)) true).
Proof.
  assert (L : legal_specb (abs epPos) (mkMove 62 45 EMPTY) = true).
  { vm_compute. reflexivity. }
  assert (K : In (mkMove 62 45 EMPTY) (knightBlock (whiteMove epPos) epPos [])).
  { vm_compute. tauto. }
  assert (H : CompleteAt zk0 epPos (mkMove 62 45 EMPTY) true).
  { apply (complete_knightBlock zk0 zk0_emptyKeysZero epPos _ true epPos_WFrev).
    - left. reflexivity.
    - exact K. }
  split.
  - exact (proj1 (legal_specb_spec (abs epPos) (mkMove 62 45 EMPTY)) L).
  - split.
    + exact H.
    + exact (proj1 H).
Qed.

(** ... Ra1-b1 in kiwipete loses the right a1: Q has castle mask 14, the un-move restores 15;
    Qf3xh3 captures a pawn; Ke1-f1 loses both white rights *)
Example complete_example_rook_queen_king :
  CompleteAt zk0 kiwiPos (mkMove 0 1 EMPTY) false /\
  castleMask (successor zk0 kiwiPos (mkMove 0 1 EMPTY)) = 14 /\
  In (mkUnMove (mkMove 0 1 EMPTY) (mkUndo EMPTY 15 (-1)%Z 0%Z)) (genMoves zk0 (successor zk0 kiwiPos (mkMove 0 1 EMPTY)) false) /\
  CompleteAt zk0 kiwiPos (mkMove 21 23 EMPTY) false /\
  In (mkUnMove (mkMove 21 23 EMPTY) (mkUndo BPAWN 15 (-1)%Z 0%Z)) (genMoves zk0 (successor zk0 kiwiPos (mkMove 21 23 EMPTY)) false) /\
  CompleteAt zk0 kiwiPos (mkMove 4 5 EMPTY) false /\
  In (mkUnMove (mkMove 4 5 EMPTY) (mkUndo EMPTY 15 (-1)%Z 0%Z)) (genMoves zk0 (successor zk0 kiwiPos (mkMove 4 5 EMPTY)) false).
Proof.
  assert (Hi : false = true \/ epSquare kiwiPos = (-1)%Z \/
               (isPawnPiece (getPiece kiwiPos 0) = true /\ Z.of_N 0 = epSquare kiwiPos)) by (right; left; reflexivity).
  assert (H1 : CompleteAt zk0 kiwiPos (mkMove 0 1 EMPTY) false).
  { apply (complete_rookBlock zk0 zk0_emptyKeysZero kiwiPos _ false kiwiPos_WFrev); [right; left; reflexivity | vm_compute; tauto]. }
  assert (H2 : CompleteAt zk0 kiwiPos (mkMove 21 23 EMPTY) false).
  { apply (complete_queenBlock zk0 zk0_emptyKeysZero kiwiPos _ false kiwiPos_WFrev); [right; left; reflexivity | vm_compute; tauto]. }
  assert (H3 : CompleteAt zk0 kiwiPos (mkMove 4 5 EMPTY) false).
  { apply (complete_kingBlock zk0 zk0_emptyKeysZero kiwiPos _ false kiwiPos_WFrev); [right; left; reflexivity | vm_compute; tauto]. }
  split; [exact H1|]. split; [vm_compute; reflexivity|]. split; [exact (proj1 H1)|].
  split; [exact H2|]. split; [exact (proj1 H2)|]. split; [exact H3 | exact (proj1 H3)].
Qed.

(** the un-move list of a concrete position, computed by the model: the position after Ra1-b1 in
    kiwipete has 30 un-moves (with and without additional e.p. squares); each satisfies the
    consistency facts above *)
Example genMoves_example :
  length (genMoves zk0 (successor zk0 kiwiPos (mkMove 0 1 EMPTY)) false) = 30%nat /\
  length (genMoves zk0 (successor zk0 kiwiPos (mkMove 0 1 EMPTY)) true) = 30%nat /\
  forall um, In um (genMoves zk0 (successor zk0 kiwiPos (mkMove 0 1 EMPTY)) false) ->
    pieceCountsValid (unMakeMove zk0 (successor zk0 kiwiPos (mkMove 0 1 EMPTY)) (um_move um) (um_ui um)) = true.
Proof.
  split; [vm_compute; reflexivity|]. split; [vm_compute; reflexivity|].
  intros um H. apply (consistent_partial zk0 _ false um H).
Qed.

(** * the double push that leaves a usable e.p. square (complete, given [MoveFacts]) *)
Theorem complete_doublepush_ep zk (EKZ : emptyKeysZero zk) p m incl :
  WFrev zk p -> MoveFacts p m ->
  (incl = true \/ epSquare p = (-1)%Z \/
   (isPawnPiece (getPiece p (mfrom m)) = true /\ Z.of_N (mto m) = epSquare p)) ->
  (epSquare (successor zk p m) <> -1)%Z -> CompleteAt zk p m incl.
Proof.
  intros Hrev MF Hinc Hne. apply (complete_given_raw zk EKZ p m incl Hrev MF Hinc).
  apply (raw_doublepush_ep zk p m Hrev MF Hne).
Qed.

(** "rnbqkbnr/pppp1ppp/8/8/3p4/8/PPP1PPPP/RNBQKBNR w KQkq - 0 3": after e2-e4 the e.p. square e3 stays (d4xe3 is legal) *)
Definition preEpFEN : list N := [114; 110; 98; 113; 107; 98; 110; 114; 47; 112; 112; 112; 112; 49; 112; 112; 112; 47; 56; 47; 56; 47; 51; 112; 52; 47; 56; 47; 80; 80; 80; 49; 80; 80; 80; 80; 47; 82; 78; 66; 81; 75; 66; 78; 82; 32; 119; 32; 75; 81; 107; 113; 32; 45; 32; 48; 32; 51].
Definition preEpPos : position := posOf preEpFEN.

Lemma preEpPos_WFrev : WFrev zk0 preEpPos.
Proof.
  apply wfrevb_sound; [apply consistentb_sound; vm_compute; reflexivity | vm_compute; reflexivity].
Qed.

Example complete_example_doublepush :
  MoveFacts preEpPos (mkMove 12 28 EMPTY) /\
  epSquare (successor zk0 preEpPos (mkMove 12 28 EMPTY)) = 20%Z /\
  CompleteAt zk0 preEpPos (mkMove 12 28 EMPTY) false /\
  genMoves zk0 (successor zk0 preEpPos (mkMove 12 28 EMPTY)) false =
    [mkUnMove (mkMove 12 28 EMPTY) (mkUndo EMPTY 15 (-1)%Z 0%Z)].
Proof.
  assert (MF : MoveFacts preEpPos (mkMove 12 28 EMPTY)) by (apply moveFactsb_sound; vm_compute; reflexivity).
  assert (E : epSquare (successor zk0 preEpPos (mkMove 12 28 EMPTY)) = 20%Z) by (vm_compute; reflexivity).
  split; [exact MF|]. split; [exact E|]. split.
  - apply (complete_doublepush_ep zk0 zk0_emptyKeysZero preEpPos _ false preEpPos_WFrev MF).
    + right. left. vm_compute. reflexivity.
    + rewrite E. discriminate.
  - vm_compute. reflexivity.
Qed.

(** * consistency: non-vacuity.  Q = kiwipete after Ra1-b1; the un-move Na4-c3 (restoring castle mask 14) *)
Definition qAfterRb1 : position := successor zk0 kiwiPos (mkMove 0 1 EMPTY).
Definition umNa4c3 : unMove := mkUnMove (mkMove 24 18 EMPTY) (mkUndo EMPTY 14 (-1)%Z 0%Z).

Example consistent_example :
  In umNa4c3 (genMoves zk0 qAfterRb1 false) /\
  Consistent zk0 (unMakeMove zk0 qAfterRb1 (mkMove 24 18 EMPTY) (mkUndo EMPTY 14 (-1)%Z 0%Z)) /\
  abs (successor zk0 (unMakeMove zk0 qAfterRb1 (mkMove 24 18 EMPTY) (mkUndo EMPTY 14 (-1)%Z 0%Z)) (mkMove 24 18 EMPTY)) = abs qAfterRb1 /\
  legal_spec (abs (unMakeMove zk0 qAfterRb1 (mkMove 24 18 EMPTY) (mkUndo EMPTY 14 (-1)%Z 0%Z))) (mkMove 24 18 EMPTY).
Proof.
  assert (Hin : In umNa4c3 (genMoves zk0 qAfterRb1 false)) by (vm_compute; tauto).
  assert (Cq : Consistent zk0 qAfterRb1) by (apply consistentb_sound; vm_compute; reflexivity).
  assert (Hw : WF qAfterRb1) by (vm_compute; reflexivity).
  split; [exact Hin|].
  assert (H1 : mpromote (um_move umNa4c3) = EMPTY) by reflexivity.
  assert (H2 : isPawnPiece (nthP (squares qAfterRb1) (mto (um_move umNa4c3))) = false) by (vm_compute; reflexivity).
  assert (H3 : isKingPiece (nthP (squares qAfterRb1) (mto (um_move umNa4c3))) = true ->
               mto (um_move umNa4c3) <> mfrom (um_move umNa4c3) + 2 /\ mto (um_move umNa4c3) + 2 <> mfrom (um_move umNa4c3)).
  { intro H. vm_compute in H. discriminate. }
  destruct (RevCons.consistent_pieces zk0 qAfterRb1 Cq Hw false umNa4c3 Hin H1 H2 H3) as (A & B).
  split; [exact A|]. split; [exact B|].
  apply (RevCons.legal_knight_king zk0 qAfterRb1 Cq Hw false umNa4c3 Hin H1 H2 H3).
  left. vm_compute. reflexivity.
Qed.
