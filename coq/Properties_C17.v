(** C17 — move, position and game text formats round-trip and reject garbage safely.
    Only statements; every proof is [exact <lemma>].
    Model: TextIO/MoveText.v (moveToUCIString, uciStringToMove, moveToString, stringToMove; generic in
    the legal move list and in the check / mate oracles), TextIO/MoveTextP.v (instantiated with the
    FIDE Spec), TextIO/UciLine.v (UCI tokenizer and `position` command), TextIO/FenIx.v (readFEN with
    the C++'s index arithmetic), Chess/Fen.v (readFEN / toFEN, by the position agent); tied to
    lib/texellib/textio.cpp and app/texel/uciprotocol.cpp by the correspondence check (props/c17.py).
    TextIO/PgnScan.v models the PGN tokenizer (PgnScanner).  NOT covered by any theorem here: the PGN
    parser / game tree (gametree.cpp) and the UCI commands other than `position` -- tested only. *)
From Coq Require Import ZArith NArith List Bool.
From Texel Require Import Chess.Types Chess.Position Chess.Fen Chess.PositionInst Chess.Spec
  TextIO.MoveText TextIO.MoveTextP TextIO.UciLine TextIO.FenIx TextIO.UciProofs TextIO.ParseSweep
  TextIO.MoveTextFacts TextIO.MoveTextProofs TextIO.MoveTextTheorems TextIO.FenIxProofs
  TextIO.PgnScan TextIO.PgnScanProofs.
Import ListNotations.
Local Open Scope N_scope.

(** UCI move strings: every move on the board whose promotion piece is EMPTY or a Q/R/B/N of the
    colour promoting on the target rank parses back to itself. *)
Theorem C17_uci_roundtrip : forall m, uciWellFormed m -> uciStringToMove (moveToUCIString m) = m.
Proof. exact uci_roundtrip. Qed.
Print Assumptions C17_uci_roundtrip.

(** what the scan of stringToMove makes of EVERY string moveToString can print (all piece letters,
    all four kinds of source-square information, both separators, all target squares, all
    promotion letters, both sides): the MoveInfo it builds is exactly the printed information *)
Theorem C17_parse_printed_shapes : forall wtm d fx fy sep x2 y2,
  disCase d fx fy -> In sep seps -> x2 < 8 -> y2 < 8 ->
  (forall L, In L pieceLetters ->
     parseMoveInfo wtm (shapeStr [L] d sep x2 y2 []) =
     Some (mkInfo (charToPiece wtm L) fx fy (Z.of_N x2) (Z.of_N y2) (Z.of_N EMPTY), strEqb sep [ch_x])) /\
  (forall pr, In pr promLetters ->
     parseMoveInfo wtm (shapeStr [] d sep x2 y2 pr) =
     Some (mkInfo (pawnPieceZ wtm fx fy) fx fy (Z.of_N x2) (Z.of_N y2) (promZ wtm pr), strEqb sep [ch_x])).
Proof.
  exact (fun wtm d fx fy sep x2 y2 Hd Hs Hx Hy =>
           conj (fun L HL => parse_piece_shape wtm L d fx fy sep x2 y2 HL Hd Hs Hx Hy)
                (fun pr Hp => parse_pawn_shape wtm d fx fy sep pr x2 y2 Hd Hs Hp Hx Hy)).
Qed.
Print Assumptions C17_parse_printed_shapes.

(** Long form: for ANY duplicate-free list of moves of the side to move that are on the board and
    promote only pawns (to Q/R/B/N of their colour), any board and any check / mate oracle, the long
    form of a member parses back to that member. *)
Theorem C17_long_roundtrip : forall p legal gc mate,
  legalShapeLong p legal -> forall m, In m legal ->
  stringToMove p legal (moveToString p legal gc mate m true) = m.
Proof. exact long_roundtrip. Qed.
Print Assumptions C17_long_roundtrip.

(** Short form: additionally no empty move in the list and pawn moves have the geometry of chess
    (straight = no capture, one square or two over an empty square; otherwise a capture one rank
    forward).  Then the short form with its minimal disambiguation (none / file / rank / both,
    computed from the counts over the list) parses back to the move it was printed from. *)
Theorem C17_short_roundtrip : forall p legal gc mate,
  legalShape p legal -> forall m, In m legal ->
  stringToMove p legal (moveToString p legal gc mate m false) = m.
Proof. exact short_roundtrip. Qed.
Print Assumptions C17_short_roundtrip.

(** ... hence no two moves of such a list share a short form. *)
Theorem C17_short_injective : forall p legal gc mate,
  legalShape p legal -> forall a b, In a legal -> In b legal ->
  moveToString p legal gc mate a false = moveToString p legal gc mate b false -> a = b.
Proof. exact short_injective. Qed.
Print Assumptions C17_short_injective.

(** The same at the level of a position, with the legal moves and the check / mate verdicts of the
    FIDE specification: the hypothesis is ONE executable test of the position ([legalShapeb]; the
    check evaluates it on every generated position and records the count). *)
Theorem C17_position_roundtrips : forall p, legalShapeb p (legalOf p) = true ->
  (forall m, In m (legalOf p) -> stringToMoveP p (moveToStringP p m false) = m) /\
  (forall m, In m (legalOf p) -> stringToMoveP p (moveToStringP p m true) = m) /\
  (forall a b, In a (legalOf p) -> In b (legalOf p) -> moveToStringP p a false = moveToStringP p b false -> a = b).
Proof.
  exact (fun p H => conj (short_roundtrip_P p H) (conj (long_roundtrip_P p H) (short_injective_P p H))).
Qed.
Print Assumptions C17_position_roundtrips.

(** FEN reader: the index model of readFEN (TextIO/FenIx.v: every fen[i], fen.substr(i, n) and board
    access at a computed index is an explicit range check, an access outside the string or outside the
    64 squares would return [IxOut site]) computes, for EVERY byte string and every key table, exactly
    the structural model [Fen.readFEN] with its error constructors -- so no out-of-range access is
    reachable and the fuel (length + 1 per loop) always suffices. *)
Theorem C17_fen_total : forall zk s,
  readFENix zk s = inject (readFEN zk s) /\                    (* inject: FenOk p => IxOk p, FenErr e => IxErr e *)
  (forall site, readFENix zk s <> IxOut site) /\ readFENix zk s <> IxFuel.
Proof. exact (fun zk s => conj (readFENix_total zk s) (readFENix_in_range zk s)). Qed.
Print Assumptions C17_fen_total.

(** The hypothesis holds on EVERY position that passes the acceptance test of the specification
    ([Spec.accepted]: 64 squares, one king each, no pawn on the first/last rank, side not to move not in
    check, castling rights and en-passant square consistent with the board), for the legal moves of the
    FIDE specification: own piece on the source square, promotion only by pawns, pawn geometry. *)
Theorem C17_legal_shape : forall p, accepted (abs p) = true -> legalShapeb p (legalOf p) = true.
Proof. exact legal_shape_accepted. Qed.
Print Assumptions C17_legal_shape.

(** DESIGN.md's statement: accepted position, legal move (FIDE specification) => the short and the
    long form parse back to the move; and no two legal moves share a short form. *)
Theorem C17_roundtrip_accepted : forall p, accepted (abs p) = true ->
  (forall m, legal_spec (abs p) m ->
     stringToMoveP p (moveToStringP p m false) = m /\ stringToMoveP p (moveToStringP p m true) = m) /\
  (forall a b, legal_spec (abs p) a -> legal_spec (abs p) b ->
     moveToStringP p a false = moveToStringP p b false -> a = b).
Proof. exact (fun p H => conj (roundtrips_accepted p H) (short_injective_accepted p H)). Qed.
Print Assumptions C17_roundtrip_accepted.

(** PGN tokenizer (TextIO/PgnScan.v models PgnScanner::getTokenChar / nextToken: escape lines, the line
    feed delivered once at end of input, one character of push-back, partial tokens dropped at END; tied
    to the C++ token by token on generated, mutated and random bytes).  The tokenizer half of the PGN
    round trip: printing ANY token list in the printer's range with ANY separators -- white space
    anywhere, and NO separator wherever two tokens cannot merge (symbol|integer before symbol|integer,
    NAG before a digit) -- and scanning the text gives back the token list.  The range: integers are
    non-empty digit strings, symbols non-empty strings of non-blank non-terminator characters that are not
    all digits, NAG numbers are digit strings, brace comments contain no right brace, rest-of-line comments
    no line break, strings anything; no percent sign in the text (escape lines are not printed). *)
Theorem C17_pgn_scan_roundtrip : forall l trail,
  noPercent (printToks l trail) = true -> forallb isSpaceP trail = true -> wfStyle None l ->
  scan (printToks l trail) = map (fun x => erase (snd x)) l.
Proof. exact scan_print_style. Qed.
Print Assumptions C17_pgn_scan_roundtrip.

(** the same with the look-ahead condition stated on the text: after an integer / symbol comes a blank
    or a terminator, after a NAG a non-digit (each [returnTokenChar] site of the scanner) *)
Theorem C17_pgn_scan_lookahead : forall l trail,
  noPercent (printToks l trail) = true -> forallb isSpaceP trail = true -> wfList l trail ->
  scan (printToks l trail) = map (fun x => erase (snd x)) l.
Proof. exact scan_print. Qed.
Print Assumptions C17_pgn_scan_lookahead.

(** * Statements not proved *)

(** every position the FEN reader returns passes the acceptance test of the specification (the link
    between [Fen.readFEN] and [Spec.accepted] belongs to the position / move generation models; it is
    evaluated by the check on every generated position and recorded in the evidence) *)
Definition C17_fen_accepted_statement : Prop :=
  forall s p, readFEN zk0 s = FenOk p -> accepted (abs p) = true.

(** NOT modelled, hence no formal statement: the PGN PARSER and game tree (Node::parsePgn, PgnReader::readPGN,
    GameTree: the tree half of the PGN round trip, "parse (tokens of tree t) = t") and the UCI commands
    other than `position`; write -> parse -> compare (tree equality in the harness, every adjacency
    style of the tokens) and crash-freedom on arbitrary bytes are tested only. *)
