(** C17 — move, position and game text formats round-trip and reject garbage safely.
    Only statements; every proof is [exact <lemma>].
    Model: TextIO/MoveText.v (moveToUCIString, uciStringToMove, moveToString, stringToMove; generic in
    the legal move list), TextIO/MoveTextP.v (instantiated with the FIDE Spec), TextIO/UciLine.v,
    Chess/Fen.v (readFEN/toFEN, by the position agent); tied to lib/texellib/textio.cpp and
    app/texel/uciprotocol.cpp by the correspondence check (props/c17.py). *)
From Coq Require Import ZArith NArith List Bool.
From Texel Require Import Chess.Types Chess.Position Chess.Fen Chess.Spec
  TextIO.MoveText TextIO.MoveTextP TextIO.UciLine TextIO.UciProofs.
Import ListNotations.
Local Open Scope N_scope.

(** UCI move strings: every move on the board whose promotion piece is EMPTY or a Q/R/B/N of the
    colour promoting on the target rank parses back to itself. *)
Theorem C17_uci_roundtrip : forall m, uciWellFormed m -> uciStringToMove (moveToUCIString m) = m.
Proof. exact uci_roundtrip. Qed.
Print Assumptions C17_uci_roundtrip.
