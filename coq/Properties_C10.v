(** C10 — search control always terminates with exactly one result.
    Only statements; every proof is [exact <lemma>] into Workers/WorkersTheorems.v.
    Model: Workers/Workers.v — the transition system of the engine thread (tid 0), the helper
    threads (tids 1..N, communicator tree [parent] as WorkerThread::createWorkers builds it) and
    the UCI thread as environment; one transition = one critical section or one notifier
    operation of lib/texellib/hw/parallel.cpp / app/texel/enginecontrol.cpp / search.cpp.
    [reach N parent s]: s is reachable from [init] by ANY finite interleaving of transitions,
    so every theorem below holds for every number of helpers N, every tree and every schedule.
    The model is tied to the code by trace validation (props/c10.py, Workers/Checker.v). *)
From Coq Require Import ZArith List Bool Arith.
From Texel Require Import Workers.Workers Workers.WorkersLemmas Workers.WorkersInv
  Workers.WorkersTheorems Workers.WorkersLive Workers.WorkersLiveProofs Workers.WorkersFair Workers.WorkersExamples Workers.WorkersMeasureProofs Workers.WorkersFairExample
  Workers.Checker Workers.WorkersRestart Workers.Race Workers.Access Workers.HandshakeProofs.
Import ListNotations.

(** stopAckWaitChildren of every communicator is exactly the number of its children whose
    subtree has not been acknowledged yet in the current stop round (never negative), and when
    the engine thread finds stopAckWaitChildren = 0 and !stopAckWaitSelf at its barrier test,
    every helper has entered and acknowledged this round, owes nothing and holds no job *)
Theorem C10_acks_exact : forall N parent, tree_ok N parent -> forall s, reach N parent s ->
  (forall p, p <= N ->
     wc (th s p) = Z.of_nat (length (filter (unacked s p) (children N parent p))) /\
     (0 <= wc (th s p))%Z) /\
  (pc (th s 0) = PPoll KAck -> hasStopAck (th s 0) = true ->
     forall c, helper N c -> ae (th s c) = se (th s 0) /\ se (th s c) = se (th s 0) /\
                             self (th s c) = false /\ wc (th s c) = 0%Z /\
                             job (th s c) = (-1)%Z).
Proof. exact acks_exact. Qed.
Print Assumptions C10_acks_exact.

(** a REPORT_RESULT at the head of the engine thread's mailbox during iterativeDeepening was
    produced in the current search (ghost search number [sd] = number of searches started):
    jobIds restart at 0 in every search, yet a result of an earlier search can never be taken
    for the current one; it is accepted iff its jobId equals Search::jobId *)
Theorem C10_result_current_job : forall N parent, tree_ok N parent ->
  forall s j sd f r, reach N parent s -> master_searching s ->
  qu s 0 = CReport j sd f :: r ->
  sd = sid s /\ (1 <= j)%Z /\ helper N f /\ parent f = Some 0.
Proof. exact result_current_job. Qed.
Print Assumptions C10_result_current_job.

(** after the stop-ack barrier (and before the next search) no helper holds a job, has a
    START/INIT/STOP/result/ack queued, forwards one, or owes an acknowledgement *)
Theorem C10_no_stale_search : forall N parent, tree_ok N parent ->
  forall s, reach N parent s -> master_idle s -> forall c, helper N c -> helper_idle s c.
Proof. exact no_stale_search. Qed.
Print Assumptions C10_no_stale_search.

(** exactly one bestmove per search: the number of finishSearch calls equals the number of
    searches started whenever the engine thread is idle, and is one behind while it searches *)
Theorem C10_one_bestmove : forall N parent, tree_ok N parent -> forall s, reach N parent s ->
  nbest s <= sid s <= S (nbest s) /\
  (master_idle s -> nbest s = sid s) /\
  (master_searching s -> S (nbest s) = sid s).
Proof. exact one_bestmove. Qed.
Print Assumptions C10_one_bestmove.

(** whenever a thread is blocked in Notifier::wait although its mailbox is non-empty / it holds
    a job / a search or quit request is pending, its notifier flag is set *)
Theorem C10_no_lost_wakeup : forall N parent, tree_ok N parent -> forall s, reach N parent s ->
  (forall c, helper N c -> pc (th s c) = PWait KMain ->
     (qu s c <> [] \/ job (th s c) <> (-1)%Z \/ self (th s c) = true) -> flag s c = true) /\
  ((pc (th s 0) = PWait KAck \/ pc (th s 0) = PWait KQuit) -> qu s 0 <> [] -> flag s 0 = true) /\
  (pc (th s 0) = PWait KTop -> (search s = true \/ quitf s = true) ->
     flag s 0 = true \/ epc s <> EIdle).
Proof. exact no_lost_wakeup. Qed.
Print Assumptions C10_no_lost_wakeup.

(** progress, safety half: while the engine thread collects stop acknowledgements the system is
    never stuck — some thread can take a transition that changes the state (no deadlock, no
    lost acknowledgement), in every reachable state *)
Theorem C10_stop_no_deadlock : forall N parent, tree_ok N parent ->
  forall s, reach N parent s -> mphase (pc (th s 0)) = Some PhStop ->
  exists t a s', t <= N /\ step N parent s t a = Some s' /\ s' <> s.
Proof. exact stop_no_deadlock. Qed.
Print Assumptions C10_stop_no_deadlock.

(** progress: on every weakly fair infinite execution (WorkersLive: every step is a transition
    of a thread or of the UCI thread, which may issue go / stop / ponderhit / setoption for ever;
    [weakly_fair]: no thread stays able to make progress for ever without moving) a stop round
    ends — the engine thread passes its stop-ack barrier and is idle again — for every number
    of helpers and every communicator tree.  Proof (Workers/WorkersMeasure*.v, WorkersFair.v): a
    measure over outstanding acks, queued commands (weighted by the sub-tree they still have to
    visit), helpers still in search and notifier flags decreases with every state-changing
    helper transition and every engine-thread transition except its idle wake-up cycle, and is
    untouched by the UCI thread *)
Theorem C10_stop_terminates : forall N parent, tree_ok N parent ->
  forall e : nat -> state, reach N parent (e 0) -> execution N parent e -> weakly_fair N parent e ->
  forall i, mphase (pc (th (e i) 0)) = Some PhStop ->
  exists k, i <= k /\ master_idle (e k).
Proof. exact stop_terminates. Qed.
Print Assumptions C10_stop_terminates.

(** non-vacuity of C10_stop_terminates: a weakly fair infinite execution (N = 2, chain) that
    is in the stop phase at position 15 and idle again at position 30 *)
Theorem C10_stop_terminates_example :
  tree_ok 2 ex_parent /\
  reach 2 ex_parent (ex_fair_exec 0) /\ execution 2 ex_parent ex_fair_exec /\
  weakly_fair 2 ex_parent ex_fair_exec /\
  mphase (pc (th (ex_fair_exec 15) 0)) = Some PhStop /\ master_idle (ex_fair_exec 30).
Proof. split; [exact ex_tree | exact ex_fair_execution]. Qed.
Print Assumptions C10_stop_terminates_example.

(** the fairness assumption above is the constructive form of the textbook one *)
Theorem C10_weak_fairness_form : forall N parent e, weakly_fair N parent e ->
  forall t i, t <= N -> (forall k, i <= k -> can_progress N parent (e k) t) ->
  exists k a, i <= k /\ step N parent (e k) t a = Some (e (S k)) /\ e (S k) <> e k.
Proof. exact weakly_fair_impl. Qed.
Print Assumptions C10_weak_fairness_form.

(** "setoption Threads between searches": when the trace checker's executable quiescence test
    passes, rebuilding the worker tree ([reconf]: surviving threads keep their state, new ones
    start fresh) leads to a state from which every reachable state satisfies the invariants of
    the NEW tree — so the theorems above (stated for [Inv] states in WorkersTheorems.*_inv) hold
    across thread-count changes *)
Theorem C10_reconfiguration_sound : forall N parent s keep N' parent',
  tree_ok N parent -> tree_ok N' parent' -> reach N parent s -> quiescentb N s = true ->
  (forall t, keep t = true -> helper N t) ->
  forall s', reachF N' parent' (reconf s keep) s' ->
  Inv N' parent' s' /\
  (master_idle s' -> forall c, helper N' c -> helper_idle s' c) /\
  (nbest s' <= sid s' <= S (nbest s')).
Proof. exact reconfiguration_sound. Qed.
Print Assumptions C10_reconfiguration_sound.

(** option changes end with the engine ready for the next command: in the LTS extended with the
    option hand-shake (Workers/Access.v: setOptionWhenIdle / setOptions / waitOptionsSet; [xreach]
    = reachable by any schedule, with its access trace), whenever the UCI thread gets past
    waitOptionsSet — the answer to isready, stop ([XWaitOpt]) or the set-up of go / go ponder —
    no option is pending and none is being applied.  Tied to the code by the H5b events
    SETOPT / OPTTAKE / WOPT / RDFIN in the trace replay (Checker.v: code 30). *)
Theorem C10_options_applied_before_ready : forall N parent x tr xl x',
  xreach N parent x tr -> xstep N parent true x xl = Some x' ->
  (xl = XWaitOpt \/ exists p, xl = XL (LE (EGo p))) -> options_settled x.
Proof. exact options_applied_before_ready. Qed.
Print Assumptions C10_options_applied_before_ready.

(** non-vacuity: concrete schedules reaching the states the theorems speak about *)
Theorem C10_examples :
  tree_ok 2 ex_parent /\
  (exists s, run 2 ex_parent init ex_accept_sched = Some s /\ master_searching s /\
             exists j sd f r, qu s 0 = CReport j sd f :: r /\ j = job (th s 0)) /\
  (exists s, run 2 ex_parent init ex_barrier_sched = Some s /\ pc (th s 0) = PPoll KAck /\
             hasStopAck (th s 0) = true).
Proof. exact examples_reach. Qed.
Print Assumptions C10_examples.
