(** C17_fen_total: the index model of readFEN ([FenIx.readFENix]: every [fen[i]], [substr] and board
    access is an explicit range check) never reports an out-of-range access, never runs out of fuel,
    and computes exactly the structural model [Fen.readFEN]. *)
From Coq Require Import ZArith NArith List Bool Lia.
From Texel Require Import Chess.Types Chess.Position Chess.Fen TextIO.FenIx.
Import ListNotations.
Local Open Scope N_scope.

(* ---------- lists and indices ---------- *)
Lemma skipn_cons_nth : forall (A : Type) (l : list A) i, (i < length l)%nat ->
  exists c, nth_error l i = Some c /\ skipn i l = c :: skipn (S i) l.
Proof.
  intros A l. induction l as [|a l IH]; intros i H; cbn [length] in H; [lia|].
  destruct i as [|i].
  - exists a. split; reflexivity.
  - destruct (IH i) as [c [H1 H2]]; [lia|]. exists c. split; [exact H1|]. cbn [skipn]. exact H2.
Qed.

Lemma skipn_nil_iff : forall (A : Type) (l : list A) i, (i <= length l)%nat ->
  (skipn i l = [] <-> (length l <= i)%nat).
Proof.
  intros A l i H. split; intro E.
  - pose proof (skipn_length i l) as L. rewrite E in L. cbn in L. lia.
  - apply skipn_all2. exact E.
Qed.

Definition inject (r : fenResult) : ix position :=
  match r with FenOk p => IxOk p | FenErr e => IxErr e end.

Section WithKeys.
Variable zk : zkeys.
Variable fen : str.

Local Notation flen := (flen fen).

Lemma getc_ok : forall site i c, nth_error fen i = Some c -> getc fen site i = IxOk c.
Proof. intros site i c H. unfold getc. rewrite H. reflexivity. Qed.

Lemma ltb_flen : forall i, (i < flen)%nat -> (i <? flen)%nat = true.
Proof. intros. apply Nat.ltb_lt. assumption. Qed.
Lemma ltb_flen_false : forall i, (flen <= i)%nat -> (i <? flen)%nat = false.
Proof. intros. apply Nat.ltb_ge. assumption. Qed.

(* ---------- the loops ---------- *)
Lemma skipIx_spec : forall fuel i, (i <= flen)%nat -> (flen - i < fuel)%nat ->
  exists j, skipIx fen fuel i = IxOk j /\ (i <= j <= flen)%nat /\ skipn j fen = skipSpaces (skipn i fen).
Proof.
  induction fuel as [|f IH]; intros i Hi Hf; [lia|]. cbn [skipIx].
  destruct (Nat.ltb_spec i flen) as [L|L].
  - destruct (skipn_cons_nth _ fen i L) as [c [Hc Hs]]. rewrite (getc_ok 3 i c Hc), Hs. cbn [skipSpaces].
    destruct (c =? ch_space).
    + destruct (IH (S i)) as [j [H1 [H2 H3]]]; [unfold FenIx.flen in *; lia|unfold FenIx.flen in *; lia|].
      exists j. repeat split; auto; lia.
    + exists i. repeat split; auto; lia.
  - exists i. assert (skipn i fen = []) as E by (apply skipn_all2; exact L). rewrite E. repeat split; auto.
Qed.

Lemma tokenEndIx_spec : forall fuel i, (i <= flen)%nat -> (flen - i < fuel)%nat ->
  exists j, tokenEndIx fen fuel i = IxOk j /\ (i <= j <= flen)%nat /\
            skipn j fen = snd (token (skipn i fen)) /\
            firstn (j - i) (skipn i fen) = fst (token (skipn i fen)).
Proof.
  induction fuel as [|f IH]; intros i Hi Hf; [lia|]. cbn [tokenEndIx].
  destruct (Nat.ltb_spec i flen) as [L|L].
  - destruct (skipn_cons_nth _ fen i L) as [c [Hc Hs]]. rewrite (getc_ok 8 i c Hc), Hs. cbn [token].
    destruct (c =? ch_space).
    + exists i. rewrite Nat.sub_diag. repeat split; auto; lia.
    + destruct (IH (S i)) as [j [H1 [H2 [H3 H4]]]]; [unfold FenIx.flen in *; lia|unfold FenIx.flen in *; lia|].
      exists j. destruct (token (skipn (S i) fen)) as [a b] eqn:ET. cbn [fst snd] in *.
      repeat split; auto; try lia.
      replace (j - i)%nat with (S (j - S i)) by lia. cbn [firstn]. rewrite H4. reflexivity.
  - exists i. assert (skipn i fen = []) as E by (apply skipn_all2; exact L). rewrite E, Nat.sub_diag. repeat split; auto.
Qed.

Lemma castleIx_spec : forall fuel i mask, (i <= flen)%nat -> (flen - i < fuel)%nat ->
  match readCastle (skipn i fen) mask with
  | inl e => castleIx fen fuel i mask = IxErr e
  | inr (m, rest) => exists j, castleIx fen fuel i mask = IxOk (m, j) /\ (i <= j <= flen)%nat /\ skipn j fen = rest
  end.
Proof.
  induction fuel as [|f IH]; intros i mask Hi Hf; [lia|]. cbn [castleIx].
  destruct (Nat.ltb_spec i flen) as [L|L].
  - destruct (skipn_cons_nth _ fen i L) as [c [Hc Hs]]. rewrite (getc_ok 5 i c Hc), Hs. cbn [readCastle].
    assert (HS : (S i <= flen)%nat /\ (flen - S i < f)%nat) by (unfold FenIx.flen in *; lia). destruct HS as [HS1 HS2].
    assert (Hstep : forall mask', match readCastle (skipn (S i) fen) mask' with
                    | inl e => castleIx fen f (S i) mask' = IxErr e
                    | inr (m, rest) => exists j, castleIx fen f (S i) mask' = IxOk (m, j) /\ (i <= j <= flen)%nat /\ skipn j fen = rest end).
    { intro mask'. specialize (IH (S i) mask' HS1 HS2). destruct (readCastle (skipn (S i) fen) mask') as [e|[m rest]]; [exact IH|].
      destruct IH as [j [H1 [H2 H3]]]. exists j. repeat split; auto; lia. }
    destruct (c =? ch_space).
    { exists i. rewrite Hs. repeat split; auto; lia. }
    destruct (c =? 75); [apply Hstep|]. destruct (c =? 81); [apply Hstep|].
    destruct (c =? 107); [apply Hstep|]. destruct (c =? 113); [apply Hstep|].
    destruct (c =? ch_dash); [apply Hstep|]. reflexivity.
  - assert (skipn i fen = []) as E by (apply skipn_all2; exact L). rewrite E. cbn [readCastle].
    exists i. repeat split; auto.
Qed.

Lemma placeIx_spec : forall fuel i p row col, (i <= flen)%nat -> (flen - i < fuel)%nat ->
  (0 <= row <= 7)%Z -> (0 <= col)%Z ->
  match readPlacement zk (skipn i fen) p row col with
  | inl e => placeIx zk fen fuel i p row col = IxErr e
  | inr (p', rest) => exists j, placeIx zk fen fuel i p row col = IxOk (p', j) /\ (i <= j <= flen)%nat /\ skipn j fen = rest
  end.
Proof.
  induction fuel as [|f IH]; intros i p row col Hi Hf Hrow Hcol; [lia|]. cbn [placeIx].
  destruct (Nat.ltb_spec i flen) as [L|L].
  - destruct (skipn_cons_nth _ fen i L) as [c [Hc Hs]]. rewrite (getc_ok 1 i c Hc), Hs. cbn [readPlacement].
    assert (HS : (S i <= flen)%nat /\ (flen - S i < f)%nat) by (unfold FenIx.flen in *; lia). destruct HS as [HS1 HS2].
    assert (Hstep : forall p' row' col', (0 <= row' <= 7)%Z -> (0 <= col')%Z ->
              match readPlacement zk (skipn (S i) fen) p' row' col' with
              | inl e => placeIx zk fen f (S i) p' row' col' = IxErr e
              | inr (p'', rest) => exists j, placeIx zk fen f (S i) p' row' col' = IxOk (p'', j) /\ (i <= j <= flen)%nat /\ skipn j fen = rest end).
    { intros p' row' col' Hr' Hc'. specialize (IH (S i) p' row' col' HS1 HS2 Hr' Hc').
      destruct (readPlacement zk (skipn (S i) fen) p' row' col') as [e|[p'' rest]]; [exact IH|].
      destruct IH as [j [H1 [H2 H3]]]. exists j. repeat split; auto; lia. }
    destruct (c =? ch_space).
    { exists i. rewrite Hs. repeat split; auto; lia. }
    destruct ((49 <=? c) && (c <=? 56)).
    { apply Hstep; lia. }
    destruct (c =? ch_slash).
    { destruct (Z.ltb_spec (row - 1) 0); [reflexivity|]. apply Hstep; lia. }
    destruct (fenCharToPiece c) as [pc|]; [|reflexivity].
    unfold safeSetPiece.
    destruct (Z.ltb_spec 7 col); [reflexivity|].
    destruct (((pc =? WPAWN) || (pc =? BPAWN)) && ((row =? 0)%Z || (row =? 7)%Z)); [reflexivity|].
    assert (sqIndexOk (row * 8 + col) = true) as ->.
    { unfold sqIndexOk. apply andb_true_iff. split; [apply Z.leb_le|apply Z.ltb_lt]; lia. }
    apply Hstep; lia.
  - assert (skipn i fen = []) as E by (apply skipn_all2; exact L). rewrite E. cbn [readPlacement].
    exists i. repeat split; auto.
Qed.

(* ---------- the en-passant field ---------- *)
Lemma getSquare_range : forall c0 c1, (getSquare c0 c1 =? -1)%Z = false ->
  (0 <= getSquare c0 c1 < 64)%Z.
Proof.
  intros c0 c1 H. unfold getSquare in *.
  destruct ((scharVal c0 - 97 <? 0)%Z || (7 <? scharVal c0 - 97)%Z || (scharVal c1 - 49 <? 0)%Z || (7 <? scharVal c1 - 49)%Z) eqn:E.
  - discriminate H.
  - apply orb_false_iff in E. destruct E as [E E4]. apply orb_false_iff in E. destruct E as [E E3].
    apply orb_false_iff in E. destruct E as [E1 E2].
    apply Z.ltb_ge in E1, E2, E3, E4. lia.
Qed.

Lemma shiftr3_eq : forall z want, (0 <= z < 64)%Z -> (Z.shiftr z 3 =? want)%Z = true -> (want * 8 <= z < want * 8 + 8)%Z.
Proof.
  intros z want Hz H. apply Z.eqb_eq in H. rewrite Z.shiftr_div_pow2 in H by lia. change (2 ^ 3)%Z with 8%Z in H.
  pose proof (Z.div_mod z 8). pose proof (Z.mod_pos_bound z 8). lia.
Qed.

Lemma epIx_spec : forall p i, (i < flen)%nat ->
  epIx zk fen p i = match readEp zk p (skipn i fen) with inl e => IxErr e | inr p' => IxOk p' end.
Proof.
  intros p i L. destruct (skipn_cons_nth _ fen i L) as [c0 [Hc Hs]].
  unfold epIx. rewrite (getc_ok 6 i c0 Hc), Hs. cbn [readEp].
  destruct (negb (c0 =? ch_dash)); [|reflexivity].
  destruct (Nat.leb_spec (flen - 1) i) as [L2|L2].
  - assert (skipn (S i) fen = []) as E by (apply skipn_all2; unfold FenIx.flen in *; lia). rewrite E. reflexivity.
  - assert (S i < flen)%nat as L3 by lia.
    destruct (skipn_cons_nth _ fen (S i) L3) as [c1 [Hc1 Hs1]]. rewrite Hs1.
    unfold substr. assert ((i <=? flen)%nat = true) as -> by (apply Nat.leb_le; lia).
    rewrite Hs, Hs1. cbn [firstn].
    destruct (negb (getSquare c0 c1 =? -1)%Z) eqn:EV; [|reflexivity].
    apply negb_true_iff in EV. pose proof (getSquare_range c0 c1 EV) as HR.
    set (epSq := getSquare c0 c1) in *.
    assert (sqIndexOk epSq = true) as HI.
    { unfold sqIndexOk. apply andb_true_iff. split; [apply Z.leb_le|apply Z.ltb_lt]; lia. }
    destruct (whiteMove p).
    + destruct (Z.shiftr epSq 3 =? 5)%Z eqn:EY; cbn [negb orb]; [|reflexivity].
      pose proof (shiftr3_eq epSq 5 HR EY) as HY.
      unfold getPieceIx. rewrite HI.
      destruct (negb (getPiece p (Z.to_N epSq) =? EMPTY)); cbn [orb]; [reflexivity|].
      assert (sqIndexOk (epSq - 8) = true) as ->.
      { unfold sqIndexOk. apply andb_true_iff. split; [apply Z.leb_le|apply Z.ltb_lt]; lia. }
      replace (Z.to_N (epSq - 8)) with (Z.to_N epSq - 8) by lia. reflexivity.
    + destruct (Z.shiftr epSq 3 =? 2)%Z eqn:EY; cbn [negb orb]; [|reflexivity].
      pose proof (shiftr3_eq epSq 2 HR EY) as HY.
      unfold getPieceIx. rewrite HI.
      destruct (negb (getPiece p (Z.to_N epSq) =? EMPTY)); cbn [orb]; [reflexivity|].
      assert (sqIndexOk (epSq + 8) = true) as ->.
      { unfold sqIndexOk. apply andb_true_iff. split; [apply Z.leb_le|apply Z.ltb_lt]; lia. }
      replace (Z.to_N (epSq + 8)) with (Z.to_N epSq + 8) by lia. reflexivity.
Qed.

(* ---------- the stages of readFEN, structural side ---------- *)
(** Fen.v's own pieces are used through their BEHAVIOUR only: [fenCounters_eq] and [finish_stage]
    below are the only places that look inside [fenCounters] / [fenFinish]; [readFEN_stages] is the
    only place that looks inside [readFEN]. *)
Lemma stoi_nil_guard : forall (tok : str) (p : position) (f : Z -> position),
  match tok with
  | [] => p
  | _ => match stoi tok with Some v => f v | None => p end
  end = match stoi tok with Some v => f v | None => p end.
Proof. intros [|c t] p f; reflexivity. Qed.

(** the two counter fields, in terms of the first token after the blanks *)
Definition setCounter (set : position -> Z -> position) (p : position) (s : str) : position :=
  match stoi (fst (token (skipSpaces s))) with Some v => set p v | None => p end.

Lemma fenCounters_eq : forall p s,
  fenCounters p s =
  setCounter setFullMoveCounter (setCounter setHalfMoveClock p s) (snd (token (skipSpaces s))).
Proof.
  intros p s. unfold fenCounters, setCounter. cbv zeta.
  destruct (token (skipSpaces s)) as [t1 r1]. cbn [fst snd].
  destruct (token (skipSpaces r1)) as [t2 r2]. cbn [fst snd].
  rewrite !stoi_nil_guard. reflexivity.
Qed.

Definition epFEN (p : position) (s : str) : fenResult :=
  match (match s with [] => inr p | _ => readEp zk p s end) with
  | inl e => FenErr e
  | inr p => fenFinish zk (fenCounters p (snd (token s)))
  end.

Definition castleFEN (p : position) (s : str) : fenResult :=
  match readCastle s 0 with
  | inl e => FenErr e
  | inr (cm, s) => epFEN (setCastleMask zk p (fixCastleMask p cm)) (skipSpaces s)
  end.

Definition sideFEN (p : position) (s : str) : fenResult :=
  match skipSpaces s with
  | [] => FenErr ErrInvalidSide
  | c :: s => castleFEN (setWhiteMove zk p (c =? ch_w)) (skipSpaces s)
  end.

Lemma readFEN_stages :
  readFEN zk fen = match readPlacement zk fen (emptyPosition zk) 7%Z 0%Z with
                   | inl e => FenErr e
                   | inr (p, s) => sideFEN p s
                   end.
Proof.
  unfold readFEN, sideFEN, castleFEN, epFEN. cbv zeta.
  destruct (readPlacement zk fen (emptyPosition zk) 7%Z 0%Z) as [e|[p s]]; [reflexivity|].
  destruct (skipSpaces s) as [|c s']; [reflexivity|].
  destruct (readCastle (skipSpaces s') 0) as [e|[cm s'']]; reflexivity.
Qed.

(* ---------- the same stages, index side ---------- *)
Local Notation fuel0 := (S flen).

Definition finishIx (p : position) : ix position :=
  if negb (Nat.eqb (countPiece p WKING) 1) then IxErr ErrWhiteKing
  else if negb (Nat.eqb (countPiece p BKING) 1) then IxErr ErrBlackKing
  else
    let p2 := setWhiteMove zk p (negb (whiteMove p)) in
    if inCheck p2 then IxErr ErrKingCapture
    else IxOk (fixupEPSquare zk p).

Lemma finish_stage : forall p, finishIx p = inject (fenFinish zk p).
Proof.
  intro p. unfold finishIx, fenFinish.
  destruct (negb (Nat.eqb (countPiece p WKING) 1)); [reflexivity|].
  destruct (negb (Nat.eqb (countPiece p BKING) 1)); [reflexivity|].
  cbv zeta. destruct (inCheck (setWhiteMove zk p (negb (whiteMove p)))); reflexivity.
Qed.

Definition counter2Ix (p : position) (i : nat) : ix position :=
  bindIx (skipIx fen fuel0 i) (fun i =>
  bindIx (if (i <? flen)%nat
          then bindIx (counterIx fen fuel0 i) (fun '(v, i) =>
                 IxOk (match v with Some v => setFullMoveCounter p v | None => p end, i))
          else IxOk (p, i)) (fun '(p, _) => finishIx p)).

Definition counter1Ix (p : position) (i : nat) : ix position :=
  bindIx (skipIx fen fuel0 i) (fun i =>
  bindIx (if (i <? flen)%nat
          then bindIx (counterIx fen fuel0 i) (fun '(v, i) =>
                 IxOk (match v with Some v => setHalfMoveClock p v | None => p end, i))
          else IxOk (p, i)) (fun '(p, i) => counter2Ix p i)).

Definition epStageIx (p : position) (i : nat) : ix position :=
  bindIx (if (i <? flen)%nat
          then bindIx (epIx zk fen p i) (fun p => bindIx (tokenEndIx fen fuel0 i) (fun i => IxOk (p, i)))
          else IxOk (p, i)) (fun '(p, i) => counter1Ix p i).

Definition castleStageIx (p : position) (i : nat) : ix position :=
  bindIx (castleIx fen fuel0 i 0) (fun '(cm, i) =>
  let p := setCastleMask zk p (fixCastleMask p cm) in
  bindIx (skipIx fen fuel0 i) (fun i => epStageIx p i)).

Definition sideStageIx (p : position) (i : nat) : ix position :=
  bindIx (skipIx fen fuel0 i) (fun i =>
  if (flen <=? i)%nat then IxErr ErrInvalidSide else
  bindIx (getc fen 4 i) (fun c =>
  let p := setWhiteMove zk p (c =? ch_w) in
  bindIx (skipIx fen fuel0 (S i)) (fun i => castleStageIx p i))).

Lemma readFENix_stages :
  readFENix zk fen = bindIx (placeIx zk fen fuel0 0 (emptyPosition zk) 7%Z 0%Z) (fun '(p, i) => sideStageIx p i).
Proof. reflexivity. Qed.

(** a counter field: value and end index / rest of the string *)
Lemma counterIx_spec : forall i, (i <= flen)%nat ->
  exists j, counterIx fen fuel0 i = IxOk (stoi (fst (token (skipn i fen))), j) /\ (i <= j <= flen)%nat /\
            skipn j fen = snd (token (skipn i fen)).
Proof.
  intros i Hi. unfold counterIx.
  destruct (tokenEndIx_spec fuel0 i Hi) as [j [H1 [H2 [H3 H4]]]]; [lia|].
  rewrite H1. unfold substr. assert ((i <=? flen)%nat = true) as -> by (apply Nat.leb_le; exact Hi).
  rewrite H4. exists j. repeat split; auto; lia.
Qed.

Lemma counter2_stage : forall p i, (i <= flen)%nat ->
  counter2Ix p i = inject (fenFinish zk (setCounter setFullMoveCounter p (skipn i fen))).
Proof.
  intros p i Hi. unfold counter2Ix, setCounter.
  destruct (skipIx_spec fuel0 i Hi) as [j [H1 [H2 H3]]]; [lia|]. rewrite H1. cbn [bindIx]. rewrite <- H3.
  destruct (Nat.ltb_spec j flen) as [L|L].
  - destruct (counterIx_spec j) as [k [K1 [K2 K3]]]; [lia|]. rewrite K1. cbn [bindIx]. apply finish_stage.
  - assert (skipn j fen = []) as E by (apply skipn_all2; exact L). rewrite E. cbn [token fst bindIx]. apply finish_stage.
Qed.

Lemma counter1_stage : forall p i, (i <= flen)%nat ->
  counter1Ix p i = inject (fenFinish zk (fenCounters p (skipn i fen))).
Proof.
  intros p i Hi. rewrite fenCounters_eq. unfold counter1Ix. unfold setCounter at 2.
  destruct (skipIx_spec fuel0 i Hi) as [j [H1 [H2 H3]]]; [lia|]. rewrite H1. cbn [bindIx]. rewrite <- H3.
  destruct (Nat.ltb_spec j flen) as [L|L].
  - destruct (counterIx_spec j) as [k [K1 [K2 K3]]]; [lia|]. rewrite K1. cbn [bindIx].
    rewrite <- K3. apply counter2_stage. lia.
  - assert (skipn j fen = []) as E by (apply skipn_all2; exact L). rewrite E. cbn [token fst snd bindIx].
    rewrite counter2_stage by lia. rewrite E. reflexivity.
Qed.

Lemma ep_stage : forall p i, (i <= flen)%nat -> epStageIx p i = inject (epFEN p (skipn i fen)).
Proof.
  intros p i Hi. unfold epStageIx, epFEN.
  destruct (Nat.ltb_spec i flen) as [L|L].
  - rewrite (epIx_spec p i L).
    destruct (skipn_cons_nth _ fen i L) as [c0 [_ Hs]].
    assert (match skipn i fen with [] => inr p | _ :: _ => readEp zk p (skipn i fen) end = readEp zk p (skipn i fen)) as ->
      by (rewrite Hs; reflexivity).
    destruct (readEp zk p (skipn i fen)) as [e|p']; [reflexivity|]. cbn [bindIx].
    destruct (tokenEndIx_spec fuel0 i Hi) as [j [H1 [H2 [H3 _]]]]; [lia|]. rewrite H1. cbn [bindIx].
    rewrite <- H3. apply counter1_stage. lia.
  - assert (skipn i fen = []) as E by (apply skipn_all2; exact L). rewrite E. cbn [bindIx token snd].
    rewrite counter1_stage by exact Hi. rewrite E. reflexivity.
Qed.

Lemma castle_stage : forall p i, (i <= flen)%nat -> castleStageIx p i = inject (castleFEN p (skipn i fen)).
Proof.
  intros p i Hi. unfold castleStageIx, castleFEN.
  pose proof (castleIx_spec fuel0 i 0 Hi) as H. specialize (H ltac:(lia)).
  destruct (readCastle (skipn i fen) 0) as [e|[cm rest]].
  - rewrite H. reflexivity.
  - destruct H as [j [H1 [H2 H3]]]. rewrite H1. cbn [bindIx].
    destruct (skipIx_spec fuel0 j) as [k [K1 [K2 K3]]]; [lia|lia|]. rewrite K1. cbn [bindIx].
    rewrite <- H3, <- K3. apply ep_stage. lia.
Qed.

Lemma side_stage : forall p i, (i <= flen)%nat -> sideStageIx p i = inject (sideFEN p (skipn i fen)).
Proof.
  intros p i Hi. unfold sideStageIx, sideFEN.
  destruct (skipIx_spec fuel0 i Hi) as [j [H1 [H2 H3]]]; [lia|]. rewrite H1. cbn [bindIx]. rewrite <- H3.
  destruct (Nat.leb_spec flen j) as [L|L].
  - assert (skipn j fen = []) as E by (apply skipn_all2; exact L). rewrite E. reflexivity.
  - destruct (skipn_cons_nth _ fen j L) as [c [Hc Hs]]. rewrite Hs, (getc_ok 4 j c Hc). cbn [bindIx].
    destruct (skipIx_spec fuel0 (S j)) as [k [K1 [K2 K3]]]; [unfold FenIx.flen in *; lia|lia|]. rewrite K1. cbn [bindIx].
    rewrite <- K3. apply castle_stage. lia.
Qed.

Theorem readFENix_total : readFENix zk fen = inject (readFEN zk fen).
Proof.
  rewrite readFENix_stages, readFEN_stages.
  pose proof (placeIx_spec fuel0 0 (emptyPosition zk) 7%Z 0%Z) as H.
  specialize (H ltac:(lia) ltac:(lia) ltac:(lia) ltac:(lia)). cbn [skipn] in H.
  destruct (readPlacement zk fen (emptyPosition zk) 7%Z 0%Z) as [e|[p rest]].
  - rewrite H. reflexivity.
  - destruct H as [j [H1 [H2 H3]]]. rewrite H1. cbn [bindIx]. rewrite <- H3. apply side_stage. lia.
Qed.

End WithKeys.

(** in particular: no out-of-range access and no fuel exhaustion, for every byte string *)
Corollary readFENix_in_range : forall zk fen,
  (forall site, readFENix zk fen <> IxOut site) /\ readFENix zk fen <> IxFuel.
Proof.
  intros zk fen. rewrite readFENix_total. destruct (readFEN zk fen); cbn [inject]; split; try intro; discriminate.
Qed.

(** non-vacuity: the guarded sites are reached.  "4k3/8/8/8/8/8/8/4K3 w - e" ends inside the
    en-passant field (the [i >= length - 1] test), "4k3/8/8/8/8/8/8/4K3 w - e6 x" reads both
    characters and rejects the square through the board; the position-less string "8/8 w" is refused *)
Example fenIx_examples :
  let zk := mkZKeys [] 0 [] [] [] 0 in
  readFENix zk [52;107;51;47;56;47;56;47;56;47;56;47;56;47;56;47;52;75;51;32;119;32;45;32;101] = IxErr ErrInvalidEp /\
  (exists p, readFENix zk [52;107;51;47;56;47;56;47;56;47;56;47;56;47;56;47;52;75;51;32;119;32;45;32;101;54;32;120] = IxOk p
             /\ epSquare p = (-1)%Z) /\
  readFENix zk [56;47;56;32;119] = IxErr ErrWhiteKing.
Proof. cbv zeta. split; [vm_compute; reflexivity|split; [eexists; split; vm_compute; reflexivity|vm_compute; reflexivity]]. Qed.
