(** Executable model of the text side of a UCI command line (app/texel/uciprotocol.cpp):
    trim (util.cpp), UCIProtocol::tokenize and the "position" command of handleCommand, which is
    where FEN strings and UCI move strings from the GUI enter the engine.  The other commands
    only hand numbers / option strings to the engine object and are not modelled (they are driven
    through the real binary by the check).  No proofs here. *)
From Coq Require Import ZArith NArith List Bool.
From Texel Require Import Chess.Types Chess.Position Chess.Fen TextIO.MoveText.
Import ListNotations.
Local Open Scope N_scope.

(** isspace in the "C" locale; bytes >= 128 are negative [char]s, never white space *)
Fixpoint dropSpaces (s : str) : str :=
  match s with
  | c :: t => if isSpaceC c then dropSpaces t else s
  | [] => []
  end.

(** trim(s): substring from the first to the last non-space character *)
Definition trim (s : str) : str := rev (dropSpaces (rev (dropSpaces s))).

(** UCIProtocol::tokenize after trim: [cur] is the word being read (reversed), [acc] the tokens
    so far (reversed).  The loop starts with inWord = true, so an empty line gives ONE empty token. *)
Fixpoint tokLoop (s : str) (inWord : bool) (cur : str) (acc : list str) : list str :=
  match s with
  | [] => if inWord then rev (rev cur :: acc) else rev acc
  | c :: t =>
    if inWord then
      (if isSpaceC c then tokLoop t false [] (rev cur :: acc) else tokLoop t true (c :: cur) acc)
    else
      (if isSpaceC c then tokLoop t false [] acc else tokLoop t true [c] acc)
  end.
Definition tokenize (line : str) : list str := tokLoop (trim line) true [] [].

Definition s_position : str := [112; 111; 115; 105; 116; 105; 111; 110].
Definition s_startpos : str := [115; 116; 97; 114; 116; 112; 111; 115].
Definition s_fen : str := [102; 101; 110].
Definition s_moves : str := [109; 111; 118; 101; 115].
(** TextIO::startPosFEN *)
Definition startPosFEN : str :=
  [114;110;98;113;107;98;110;114;47;112;112;112;112;112;112;112;112;47;56;47;56;47;56;47;56;47;
   80;80;80;80;80;80;80;80;47;82;78;66;81;75;66;78;82;32;119;32;75;81;107;113;32;45;32;48;32;49].

(** outcome of one "position" line: state untouched / readFEN threw (state untouched) / new state *)
Inductive posCmd :=
| PosNone
| PosErr (e : fenError)
| PosSet (p : position) (ms : list move).

(** the tokens up to "moves", each followed by a space *)
Fixpoint takeFen (toks : list str) (sb : str) : str * list str :=
  match toks with
  | [] => (sb, [])
  | t :: r => if strEqb t s_moves then (sb, toks) else takeFen r (sb ++ t ++ [ch_space])
  end.

(** the move loop stops at the first token that is not a UCI move *)
Fixpoint movesUntilEmpty (toks : list str) : list move :=
  match toks with
  | [] => []
  | t :: r => let m := uciStringToMove t in if isEmptyMove m then [] else m :: movesUntilEmpty r
  end.

Section WithKeys.
Variable zk : zkeys.

(** [tokens] = all tokens of the line, tokens[0] = "position" *)
Definition handlePosition (tokens : list str) : posCmd :=
  match tokens with
  | _ :: t1 :: rest =>
    let '(fen, rest') :=
      if strEqb t1 s_startpos then (startPosFEN, rest)
      else if strEqb t1 s_fen then (let '(sb, r) := takeFen rest [] in (trim sb, r))
      else ([], rest) in
    match fen with
    | [] => PosNone
    | _ =>
      match readFEN zk fen with
      | FenErr e => PosErr e
      | FenOk p =>
        PosSet p (match rest' with
                  | m :: ms => if strEqb m s_moves then movesUntilEmpty ms else []
                  | [] => []
                  end)
      end
    end
  | _ => PosNone
  end.

(** one command line: Some = it is a "position" command *)
Definition uciLine (line : str) : option posCmd :=
  match tokenize line with
  | cmd :: rest => if strEqb cmd s_position then Some (handlePosition (cmd :: rest)) else None
  | [] => None
  end.

End WithKeys.
