(** Basic facts used by the round-trip proofs of the move text model: squares and coordinates,
    the meaning of the matching loop, unique matches, piece and promotion letters, the case
    split of the disambiguation and of the castling test. *)
From Coq Require Import ZArith NArith List Bool Lia.
From Texel Require Import Chess.Types Chess.Position Chess.Fen TextIO.MoveText TextIO.ParseSweep.
Import ListNotations.
Local Open Scope N_scope.

(* ---------- squares ---------- *)
Lemma sqX_lt8 : forall s, sqX s < 8.
Proof. intro s. unfold sqX. apply N.mod_lt. discriminate. Qed.

Lemma sqY_lt8 : forall s, s < 64 -> sqY s < 8.
Proof. intros s H. unfold sqY. apply N.div_lt_upper_bound; [discriminate|exact H]. Qed.

Lemma sq_eq : forall a b, sqX a = sqX b -> sqY a = sqY b -> a = b.
Proof.
  intros a b HX HY. unfold sqX, sqY in *.
  rewrite (N.div_mod a 8), (N.div_mod b 8) by discriminate. rewrite HX, HY. reflexivity.
Qed.

(* ---------- the hypotheses on a legal move list, as boolean tests ---------- *)
Definition ownPieceb (wtm : bool) (pc : piece) : bool :=
  if wtm then (1 <=? pc) && (pc <=? 6) else (7 <=? pc) && (pc <=? 12).

(** promotion piece: none, or queen / rook / bishop / knight of the moving side *)
Definition ownPromob (wtm : bool) (pr : piece) : bool :=
  (pr =? EMPTY) || (if wtm then (2 <=? pr) && (pr <=? 5) else (8 <=? pr) && (pr <=? 11)).

(** a move of the side to move, on the board, promotion piece only for pawns *)
Definition moveOKb (p : position) (m : move) : bool :=
  (mfrom m <? 64) && (mto m <? 64) && ownPieceb (whiteMove p) (getPiece p (mfrom m)) &&
  (if getPiece p (mfrom m) =? ownPawn p then ownPromob (whiteMove p) (mpromote m) else mpromote m =? EMPTY).

(** geometry of a pawn move: straight moves do not capture, go one square or two squares over an
    empty square; all other pawn moves capture (a piece or en passant) and go one rank forward *)
Definition pawnShapeb (p : position) (m : move) : bool :=
  let f := mfrom m in let t := mto m in
  if sqX t =? sqX f then
    negb (isCapture p m) &&
    (if whiteMove p then (t =? f + 8) || ((t =? f + 16) && (getPiece p (f + 8) =? EMPTY))
     else (f =? t + 8) || ((f =? t + 16) && (getPiece p (t + 8) =? EMPTY)))
  else
    isCapture p m && (if whiteMove p then sqY t =? sqY f + 1 else sqY f =? sqY t + 1).

Definition shortOKb (p : position) (m : move) : bool :=
  moveOKb p m && negb (isEmptyMove m) &&
  (if getPiece p (mfrom m) =? ownPawn p then pawnShapeb p m else true).

(** hypotheses of the long-form round trip / of the short-form round trip *)
Definition legalShapeLong (p : position) (legal : list move) : Prop :=
  NoDup legal /\ forallb (moveOKb p) legal = true.
Definition legalShape (p : position) (legal : list move) : Prop :=
  NoDup legal /\ forallb (shortOKb p) legal = true.

Lemma legalShape_long : forall p legal, legalShape p legal -> legalShapeLong p legal.
Proof.
  intros p legal [ND H]. split; [exact ND|].
  apply forallb_forall. intros m Hm. apply (proj1 (forallb_forall _ _) H) in Hm.
  unfold shortOKb in Hm. apply andb_true_iff in Hm. destruct Hm as [Hm _].
  apply andb_true_iff in Hm. destruct Hm as [Hm _]. exact Hm.
Qed.

Lemma moveOKb_parts : forall p m, moveOKb p m = true ->
  mfrom m < 64 /\ mto m < 64 /\ ownPieceb (whiteMove p) (getPiece p (mfrom m)) = true /\
  (if getPiece p (mfrom m) =? ownPawn p then ownPromob (whiteMove p) (mpromote m) else mpromote m =? EMPTY) = true.
Proof.
  intros p m H. unfold moveOKb in H.
  apply andb_true_iff in H. destruct H as [H H4].
  apply andb_true_iff in H. destruct H as [H H3].
  apply andb_true_iff in H. destruct H as [H1 H2].
  apply N.ltb_lt in H1. apply N.ltb_lt in H2. auto.
Qed.

(* ---------- the matching loop ---------- *)
Lemma guard_iff : forall v w : Z, negb ((0 <=? v)%Z && negb (v =? w)%Z) = true <-> (v < 0)%Z \/ v = w.
Proof.
  intros v w. destruct (Z.leb_spec 0 v) as [E1|E1]; destruct (Z.eqb_spec v w) as [E2|E2]; cbn [negb andb];
    split; intro H; try reflexivity; try discriminate; lia.
Qed.

Lemma matchInfo_iff : forall p pc fx fy tx ty pr m,
  matchInfo p (mkInfo pc fx fy tx ty pr) m = true <->
  ((pc < 0)%Z \/ pc = Z.of_N (getPiece p (mfrom m))) /\
  ((fx < 0)%Z \/ fx = Z.of_N (sqX (mfrom m))) /\
  ((fy < 0)%Z \/ fy = Z.of_N (sqY (mfrom m))) /\
  ((tx < 0)%Z \/ tx = Z.of_N (sqX (mto m))) /\
  ((ty < 0)%Z \/ ty = Z.of_N (sqY (mto m))) /\
  ((pr < 0)%Z \/ pr = Z.of_N (mpromote m)).
Proof.
  intros. unfold matchInfo. cbn [mi_piece mi_fromX mi_fromY mi_toX mi_toY mi_prom].
  rewrite !andb_true_iff, !guard_iff. tauto.
Qed.

Lemma filter_unique : forall (f : move -> bool) l m,
  NoDup l -> In m l -> f m = true -> (forall m', In m' l -> f m' = true -> m' = m) -> filter f l = [m].
Proof.
  intros f l m ND. induction ND as [|a l Ha ND IH]; intros Hin Hf Hu.
  - destruct Hin.
  - cbn [filter]. destruct Hin as [->|Hin].
    + rewrite Hf. f_equal.
      assert (forall x, In x l -> f x = false) as Hnone.
      { intros x Hx. destruct (f x) eqn:E; [|reflexivity].
        assert (x = m) by (apply Hu; [right; exact Hx|exact E]). subst x. contradiction. }
      clear -Hnone. induction l as [|b l IH]; [reflexivity|].
      cbn [filter]. rewrite (Hnone b (or_introl eq_refl)). apply IH. intros x Hx. apply Hnone. right; exact Hx.
    + destruct (f a) eqn:E.
      * assert (a = m) by (apply Hu; [left; reflexivity|exact E]). subst a. contradiction.
      * apply IH; auto. intros m' Hm'. apply Hu. right; exact Hm'.
Qed.

Lemma selectMove_single : forall p legal info cap m,
  filter (matchInfo p info) legal = [m] -> selectMove p legal info cap = m.
Proof. intros p legal info cap m H. unfold selectMove. rewrite H. reflexivity. Qed.

(** two members of a duplicate-free list of length < 2 are equal *)
Lemma short_list_unique : forall (l : list move) a b, (length l < 2)%nat -> In a l -> In b l -> a = b.
Proof.
  intros l a b H Ha Hb. destruct l as [|x [|y l]]; cbn [length] in H; try lia.
  - destruct Ha.
  - destruct Ha as [Ha|Ha]; [|destruct Ha]. destruct Hb as [Hb|Hb]; [|destruct Hb]. congruence.
Qed.

Lemma takeNonEmpty_id : forall l, forallb (fun m => negb (isEmptyMove m)) l = true -> takeNonEmpty l = l.
Proof.
  induction l as [|a l IH]; [reflexivity|]. cbn [forallb takeNonEmpty]. intro H.
  apply andb_true_iff in H. destruct H as [Ha Hl]. apply negb_true_iff in Ha. rewrite Ha. f_equal. apply IH, Hl.
Qed.

(* ---------- letters ---------- *)
Lemma N_range_cases_1_6 : forall pc, (1 <=? pc) && (pc <=? 6) = true -> pc = 1 \/ pc = 2 \/ pc = 3 \/ pc = 4 \/ pc = 5 \/ pc = 6.
Proof. intros pc H. apply andb_true_iff in H. destruct H as [H1 H2]. apply N.leb_le in H1. apply N.leb_le in H2. lia. Qed.
Lemma N_range_cases_7_12 : forall pc, (7 <=? pc) && (pc <=? 12) = true -> pc = 7 \/ pc = 8 \/ pc = 9 \/ pc = 10 \/ pc = 11 \/ pc = 12.
Proof. intros pc H. apply andb_true_iff in H. destruct H as [H1 H2]. apply N.leb_le in H1. apply N.leb_le in H2. lia. Qed.

(** a piece of the side to move that is not a pawn prints as one of K Q R B N, and that letter
    is read back (with the side to move) as the same piece *)
Lemma pieceLetter_of : forall wtm pc,
  ownPieceb wtm pc = true -> (pc =? (if wtm then WPAWN else BPAWN)) = false ->
  exists L, pieceToChar pc false = [L] /\ In L pieceLetters /\ charToPiece wtm L = Z.of_N pc.
Proof.
  intros wtm pc H Hp. unfold ownPieceb in H. destruct wtm.
  - apply N_range_cases_1_6 in H.
    destruct H as [-> | [-> | [-> | [-> | [-> | -> ]]]]]; try discriminate Hp;
      [exists ch_K|exists ch_Q|exists ch_R|exists ch_B|exists ch_N]; (split; [reflexivity|split; [cbn; tauto|reflexivity]]).
  - apply N_range_cases_7_12 in H.
    destruct H as [-> | [-> | [-> | [-> | [-> | -> ]]]]]; try discriminate Hp;
      [exists ch_K|exists ch_Q|exists ch_R|exists ch_B|exists ch_N]; (split; [reflexivity|split; [cbn; tauto|reflexivity]]).
Qed.

(** the promotion suffix of moveBody is one of "", Q, R, B, N and reads back as the piece *)
Definition promStr (pr : piece) : str := if negb (pr =? EMPTY) then pieceToChar pr false else [].

Lemma promStr_of : forall wtm pr, ownPromob wtm pr = true ->
  In (promStr pr) promLetters /\ promZ wtm (promStr pr) = Z.of_N pr.
Proof.
  intros wtm pr H. unfold ownPromob in H. apply orb_true_iff in H. destruct H as [H|H].
  - apply N.eqb_eq in H. subst pr. split; [cbn; tauto|reflexivity].
  - destruct wtm.
    + apply andb_true_iff in H. destruct H as [H1 H2]. apply N.leb_le in H1. apply N.leb_le in H2.
      assert (pr = 2 \/ pr = 3 \/ pr = 4 \/ pr = 5) as C by lia.
      destruct C as [-> | [-> | [-> | -> ]]]; (split; [cbn; tauto|reflexivity]).
    + apply andb_true_iff in H. destruct H as [H1 H2]. apply N.leb_le in H1. apply N.leb_le in H2.
      assert (pr = 8 \/ pr = 9 \/ pr = 10 \/ pr = 11) as C by lia.
      destruct C as [-> | [-> | [-> | -> ]]]; (split; [cbn; tauto|reflexivity]).
Qed.

Lemma promStr_empty : promStr EMPTY = [] /\ forall wtm, promZ wtm [] = Z.of_N EMPTY.
Proof. split; reflexivity. Qed.

Lemma ownPawn_letter : forall p, pieceToChar (ownPawn p) false = [].
Proof. intro p. unfold ownPawn. destruct (whiteMove p); reflexivity. Qed.

(* ---------- the castling test ---------- *)
Lemma castleString_cases : forall p m,
  castleString p m = [] \/
  (castleString p m = strOO /\
   ((mfrom m = E1 /\ getPiece p E1 = WKING /\ mto m = G1) \/ (mfrom m = E8 /\ getPiece p E8 = BKING /\ mto m = G8))) \/
  (castleString p m = strOOO /\
   ((mfrom m = E1 /\ getPiece p E1 = WKING /\ mto m = C1) \/ (mfrom m = E8 /\ getPiece p E8 = BKING /\ mto m = C8))).
Proof.
  intros p m. unfold castleString.
  destruct ((mfrom m =? E1) && (getPiece p E1 =? WKING)) eqn:E1w.
  - apply andb_true_iff in E1w. destruct E1w as [A B]. apply N.eqb_eq in A. apply N.eqb_eq in B.
    destruct (mto m =? G1) eqn:T1; [apply N.eqb_eq in T1; right; left; split; [reflexivity|left; auto]|].
    destruct (mto m =? C1) eqn:T2; [apply N.eqb_eq in T2; right; right; split; [reflexivity|left; auto]|].
    left; reflexivity.
  - destruct ((mfrom m =? E8) && (getPiece p E8 =? BKING)) eqn:E8b; [|left; reflexivity].
    apply andb_true_iff in E8b. destruct E8b as [A B]. apply N.eqb_eq in A. apply N.eqb_eq in B.
    destruct (mto m =? G8) eqn:T1; [apply N.eqb_eq in T1; right; left; split; [reflexivity|right; auto]|].
    destruct (mto m =? C8) eqn:T2; [apply N.eqb_eq in T2; right; right; split; [reflexivity|right; auto]|].
    left; reflexivity.
Qed.

(* ---------- the disambiguation ---------- *)
Definition sameTargetSet (p : position) (legal : list move) (pc : piece) (mv : move) : list move :=
  filter (sameTarget p pc (mto mv)) (takeNonEmpty legal).

Lemma disambiguation_cases : forall p legal pc mv,
  let S := sameTargetSet p legal pc mv in
  let x1 := sqX (mfrom mv) in let y1 := sqY (mfrom mv) in
  ((length S < 2)%nat /\ disambiguation p legal pc mv = []) \/
  ((length (filter (fun m => N.eqb (sqX (mfrom m)) x1) S) < 2)%nat /\ disambiguation p legal pc mv = [fileChar x1]) \/
  ((length (filter (fun m => N.eqb (sqY (mfrom m)) y1) S) < 2)%nat /\ disambiguation p legal pc mv = [rankChar y1]) \/
  disambiguation p legal pc mv = [fileChar x1; rankChar y1].
Proof.
  intros p legal pc mv S x1 y1. unfold disambiguation. fold (sameTargetSet p legal pc mv). fold S. fold x1. fold y1.
  destruct (length S <? 2)%nat eqn:E1; [apply Nat.ltb_lt in E1; left; auto|].
  destruct (length (filter (fun m => N.eqb (sqX (mfrom m)) x1) S) <? 2)%nat eqn:E2; [apply Nat.ltb_lt in E2; right; left; auto|].
  destruct (length (filter (fun m => N.eqb (sqY (mfrom m)) y1) S) <? 2)%nat eqn:E3; [apply Nat.ltb_lt in E3; right; right; left; auto|].
  right; right; right; reflexivity.
Qed.
