(** The move-text functions of [MoveText.v] at the level of a position, as the C++ entry points
    TextIO::moveToString(pos, move, longForm) and TextIO::stringToMove(pos, str) behave:
    the legal move list and the check / mate verdicts are those of the FIDE specification
    (Chess/Spec.v) -- independent of the engine's move generator.  Results do not depend on the
    ORDER of the legal list (counts, a unique match, a unique capturing match), so the set of
    legal moves is all that is taken from the rules.  No proofs here. *)
From Coq Require Import ZArith NArith List Bool.
From Texel Require Import Chess.Types Chess.Position Chess.Fen Chess.Spec TextIO.MoveText.
Import ListNotations.
Local Open Scope N_scope.

(** one occurrence (the last) of every element: a set as a duplicate-free list *)
Fixpoint dedup (l : list move) : list move :=
  match l with
  | [] => []
  | a :: t => if existsb (move_eqb a) t then dedup t else a :: dedup t
  end.

(** the legal moves of the position as a SET: the duplicate-free enumeration of the moves the
    FIDE specification allows ([Spec.legal_moves_spec] has no duplicates on any position the
    check has generated; the model does not rely on that) *)
Definition legalOf (p : position) : list move := dedup (legal_moves_spec (abs p)).
Definition gcOf (p : position) (m : move) : bool := gives_check_spec (abs p) m.
Definition mateOf (p : position) (m : move) : bool :=
  match legal_moves_spec (make_spec (abs p) m) with [] => true | _ => false end.

Definition moveToStringP (p : position) (m : move) (longForm : bool) : str :=
  moveToString p (legalOf p) (gcOf p) (mateOf p) m longForm.

Definition stringToMoveP (p : position) (s : str) : move := stringToMove p (legalOf p) s.

(** the same with the legal list given (the driver computes it once per position) *)
Definition moveToStringL (p : position) (legal : list move) (m : move) (longForm : bool) : str :=
  moveToString p legal (gcOf p) (mateOf p) m longForm.
