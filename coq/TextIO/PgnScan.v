(** Executable model of the PGN tokenizer PgnScanner::nextToken / getTokenChar
    (lib/texelutillib/gametree.cpp) as a total function from bytes to the list of tokens delivered
    before the first END token, and of a token printer with a free choice of separators.
    Strings are lists of byte values (list N).  No proofs here.

    getTokenChar delivers the bytes of the input except '%' escape lines (a '%' in column 0 up to
    and including the next LF/CR) and then, ONCE, a line feed at the end of input; after that every
    call throws and nextToken returns END.  [delivered] is that character stream; the push-back of
    one character (returnTokenChar) is "do not consume" on it.  An exception in the middle of a
    token (end of input inside a brace comment or a string) drops the partial token: END. *)
From Coq Require Import NArith List Bool.
Import ListNotations.
Local Open Scope N_scope.

Definition bytes := list N.

(* ---------- characters ---------- *)
Definition isNl (c : N) : bool := (c =? 10) || (c =? 13).
(** isspace / isdigit in the "C" locale; bytes >= 128 (negative chars) are neither *)
Definition isSpaceP (c : N) : bool := (c =? 32) || ((9 <=? c) && (c <=? 13)).
Definition isDigitP (c : N) : bool := (48 <=? c) && (c <=? 57).
(** the terminator set of the symbol loop: period asterisk brackets parentheses left-brace semicolon double-quote dollar *)
Definition isTerm (c : N) : bool :=
  (c =? 46) || (c =? 42) || (c =? 91) || (c =? 93) || (c =? 40) || (c =? 41) ||
  (c =? 123) || (c =? 59) || (c =? 34) || (c =? 36).

(* ---------- getTokenChar ---------- *)
(** [skipping]: inside a '%' escape line; [col0]: the previous delivered character was LF/CR
    (true at the start) *)
Fixpoint chars (skipping col0 : bool) (s : bytes) : bytes :=
  match s with
  | [] => []
  | c :: t =>
    if skipping then (if isNl c then chars false true t else chars true col0 t)
    else if (c =? 37) && col0 then chars true true t
    else c :: chars false (isNl c) t
  end.

(** everything getTokenChar ever returns: the input without escape lines, then one LF *)
Definition delivered (s : bytes) : bytes := chars false true s ++ [10].

(* ---------- nextToken ---------- *)
Inductive ptok :=
| TString (s : bytes) | TInteger (s : bytes) | TPeriod | TAsterisk | TLBracket | TRBracket
| TLParen | TRParen | TNag (s : bytes) | TSymbol (s : bytes) | TComment (s : bytes).

(** where the scanner is inside a token; accumulators hold the token text so far *)
Inductive mode :=
| Top
| InBrace (acc : bytes)
| InLine (acc : bytes)
| InStr (acc : bytes) (escaped : bool)
| InNag (acc : bytes)
| InSym (acc : bytes) (onlyDigits : bool).

(** a character read at the start of a token: a finished one-character token and/or a new mode *)
Definition topChar (c : N) : option ptok * mode :=
  if isSpaceP c then (None, Top)
  else if c =? 46 then (Some TPeriod, Top)
  else if c =? 42 then (Some TAsterisk, Top)
  else if c =? 91 then (Some TLBracket, Top)
  else if c =? 93 then (Some TRBracket, Top)
  else if c =? 40 then (Some TLParen, Top)
  else if c =? 41 then (Some TRParen, Top)
  else if c =? 123 then (None, InBrace [])
  else if c =? 59 then (None, InLine [])
  else if c =? 34 then (None, InStr [] false)
  else if c =? 36 then (None, InNag [])
  else (None, InSym [c] (isDigitP c)).

Definition consOpt (o : option ptok) (l : list ptok) : list ptok :=
  match o with Some t => t :: l | None => l end.

(** the token loop over the delivered characters; running out of characters inside a token is the
    exception path of the C++: the partial token is dropped and END follows *)
Fixpoint go (m : mode) (d : bytes) : list ptok :=
  match d with
  | [] => []
  | c :: t =>
    match m with
    | Top => let '(o, m') := topChar c in consOpt o (go m' t)
    | InBrace acc => if c =? 125 then TComment acc :: go Top t else go (InBrace (acc ++ [c])) t
    | InLine acc => if isNl c then TComment acc :: go Top t else go (InLine (acc ++ [c])) t
    | InStr acc esc =>
      if esc then go (InStr (acc ++ [c]) false) t
      else if c =? 34 then TString acc :: go Top t
      else if c =? 92 then go (InStr acc true) t
      else go (InStr (acc ++ [c]) false) t
    | InNag acc =>
      if isDigitP c then go (InNag (acc ++ [c])) t
      else TNag acc :: (let '(o, m') := topChar c in consOpt o (go m' t))        (* returnTokenChar(c) *)
    | InSym acc od =>
      if isSpaceP c || isTerm c
      then (if od then TInteger acc else TSymbol acc) ::
           (let '(o, m') := topChar c in consOpt o (go m' t))                    (* returnTokenChar(c) *)
      else go (InSym (acc ++ [c]) (od && isDigitP c)) t
    end
  end.

(** all tokens up to the first END *)
Definition scan (s : bytes) : list ptok := go Top (delivered s).

(* ---------- a printer with free separators ---------- *)
(** a token to print: comments in either syntax *)
Inductive wtok :=
| WTok (t : ptok)            (* anything but a comment *)
| WBrace (s : bytes)         (* { s } *)
| WLine (s : bytes) (nl : N). (* ; s <nl> *)

Definition erase (w : wtok) : ptok :=
  match w with WTok t => t | WBrace s => TComment s | WLine s _ => TComment s end.

(** inside a string the double quote and the backslash are written with a backslash *)
Fixpoint escapeStr (s : bytes) : bytes :=
  match s with
  | [] => []
  | c :: t => if (c =? 34) || (c =? 92) then 92 :: c :: escapeStr t else c :: escapeStr t
  end.

Definition printTok (w : wtok) : bytes :=
  match w with
  | WTok (TString s) => 34 :: escapeStr s ++ [34]
  | WTok (TInteger s) => s
  | WTok TPeriod => [46]
  | WTok TAsterisk => [42]
  | WTok TLBracket => [91]
  | WTok TRBracket => [93]
  | WTok TLParen => [40]
  | WTok TRParen => [41]
  | WTok (TNag s) => 36 :: s
  | WTok (TSymbol s) => s
  | WTok (TComment s) => 123 :: s ++ [125]
  | WBrace s => 123 :: s ++ [125]
  | WLine s nl => 59 :: s ++ [nl]
  end.

(** [(sep, w)]: the separator written BEFORE the token; [trail]: what follows the last token *)
Fixpoint printToks (l : list (bytes * wtok)) (trail : bytes) : bytes :=
  match l with
  | [] => trail
  | (sep, w) :: t => sep ++ printTok w ++ printToks t trail
  end.
