(** The tokenizer half of the PGN round trip: scanning the text printed from a token list, with ANY
    choice of separators that the token grammar allows, gives back the token list. *)
From Coq Require Import NArith List Bool Lia.
From Texel Require Import TextIO.PgnScan.
Import ListNotations.
Local Open Scope N_scope.

(* ---------- the range of the printer ---------- *)
(** a character that may stand inside a symbol: not white space, not one of the terminators *)
Definition symChar (c : N) : bool := negb (isSpaceP c) && negb (isTerm c).

Definition wfTok (w : wtok) : Prop :=
  match w with
  | WTok (TInteger s) => s <> [] /\ forallb isDigitP s = true
  | WTok (TSymbol s) => s <> [] /\ forallb symChar s = true /\ forallb isDigitP s = false
  | WTok (TNag s) => forallb isDigitP s = true
  | WTok (TComment s) | WBrace s => forallb (fun c => negb (c =? 125)) s = true
  | WLine s nl => forallb (fun c => negb (isNl c)) s = true /\ isNl nl = true
  | _ => True
  end.

(** what must follow a token whose end is found by looking at the next character *)
Definition followOK (w : wtok) (rest : bytes) : Prop :=
  match w with
  | WTok (TInteger _) | WTok (TSymbol _) =>
    match rest with c :: _ => isSpaceP c || isTerm c = true | [] => False end
  | WTok (TNag _) => match rest with c :: _ => isDigitP c = false | [] => False end
  | _ => True
  end.

(** separators are white space; every token is printable; every look-ahead sees a proper follower
    (in the text itself or, after the last token, in the trailer / the line feed at end of input) *)
Fixpoint wfList (l : list (bytes * wtok)) (trail : bytes) : Prop :=
  match l with
  | [] => True
  | (sep, w) :: t =>
    forallb isSpaceP sep = true /\ wfTok w /\ followOK w (printToks t trail ++ [10]) /\ wfList t trail
  end.

Definition noPercent (s : bytes) : bool := forallb (fun c => negb (c =? 37)) s.

(* ---------- getTokenChar on texts without escape lines ---------- *)
Lemma chars_noPercent : forall s b, noPercent s = true -> chars false b s = s.
Proof.
  induction s as [|c t IH]; intros b H; [reflexivity|]. cbn [noPercent forallb] in H.
  apply andb_true_iff in H. destruct H as [H1 H2]. apply negb_true_iff in H1.
  cbn [chars]. rewrite H1. cbn [andb]. f_equal. apply IH. exact H2.
Qed.

(* ---------- the token loop, one kind of token at a time ---------- *)
Lemma go_top_cons : forall c t, go Top (c :: t) = let '(o, m') := topChar c in consOpt o (go m' t).
Proof. reflexivity. Qed.

Lemma go_spaces : forall sep r, forallb isSpaceP sep = true -> go Top (sep ++ r) = go Top r.
Proof.
  induction sep as [|c t IH]; intros r H; [reflexivity|]. cbn [forallb] in H.
  apply andb_true_iff in H. destruct H as [H1 H2].
  cbn [app]. rewrite go_top_cons. unfold topChar. rewrite H1. cbn [consOpt]. apply IH. exact H2.
Qed.

Lemma go_brace : forall s acc r, forallb (fun c => negb (c =? 125)) s = true ->
  go (InBrace acc) (s ++ 125 :: r) = TComment (acc ++ s) :: go Top r.
Proof.
  induction s as [|c t IH]; intros acc r H.
  - cbn [app go]. rewrite N.eqb_refl, app_nil_r. reflexivity.
  - cbn [forallb] in H. apply andb_true_iff in H. destruct H as [H1 H2]. apply negb_true_iff in H1.
    cbn [app go]. rewrite H1. rewrite IH by exact H2. rewrite <- app_assoc. reflexivity.
Qed.

Lemma go_line : forall s acc nl r, forallb (fun c => negb (isNl c)) s = true -> isNl nl = true ->
  go (InLine acc) (s ++ nl :: r) = TComment (acc ++ s) :: go Top r.
Proof.
  induction s as [|c t IH]; intros acc nl r H Hn.
  - cbn [app go]. rewrite Hn, app_nil_r. reflexivity.
  - cbn [forallb] in H. apply andb_true_iff in H. destruct H as [H1 H2]. apply negb_true_iff in H1.
    cbn [app go]. rewrite H1. rewrite IH by assumption. rewrite <- app_assoc. reflexivity.
Qed.

Lemma go_string : forall s acc r,
  go (InStr acc false) (escapeStr s ++ 34 :: r) = TString (acc ++ s) :: go Top r.
Proof.
  induction s as [|c t IH]; intros acc r.
  - cbn [escapeStr app go]. rewrite N.eqb_refl, app_nil_r. reflexivity.
  - cbn [escapeStr]. destruct ((c =? 34) || (c =? 92)) eqn:E.
    + cbn [app go]. change (92 =? 34) with false. change (92 =? 92) with true. cbn iota.
      rewrite IH. rewrite <- app_assoc. reflexivity.
    + apply orb_false_iff in E. destruct E as [E1 E2]. cbn [app go]. rewrite E1, E2.
      rewrite IH. rewrite <- app_assoc. reflexivity.
Qed.

Lemma go_nag : forall s acc c r, forallb isDigitP s = true -> isDigitP c = false ->
  go (InNag acc) (s ++ c :: r) = TNag (acc ++ s) :: go Top (c :: r).
Proof.
  induction s as [|d t IH]; intros acc c r H Hc.
  - cbn [app go]. rewrite Hc, app_nil_r. reflexivity.
  - cbn [forallb] in H. apply andb_true_iff in H. destruct H as [H1 H2].
    cbn [app go]. rewrite H1. rewrite IH by assumption. rewrite <- app_assoc. reflexivity.
Qed.

Lemma symChar_split : forall c, symChar c = true -> isSpaceP c || isTerm c = false.
Proof.
  intros c H. unfold symChar in H. apply andb_true_iff in H. destruct H as [H1 H2].
  apply negb_true_iff in H1. apply negb_true_iff in H2. rewrite H1, H2. reflexivity.
Qed.

Lemma go_sym : forall s acc od c r, forallb symChar s = true -> isSpaceP c || isTerm c = true ->
  go (InSym acc od) (s ++ c :: r) =
  (if od && forallb isDigitP s then TInteger (acc ++ s) else TSymbol (acc ++ s)) :: go Top (c :: r).
Proof.
  induction s as [|d t IH]; intros acc od c r H Hc.
  - cbn [app go forallb]. rewrite Hc, app_nil_r, andb_true_r. reflexivity.
  - cbn [forallb] in H. apply andb_true_iff in H. destruct H as [H1 H2].
    cbn [app go]. rewrite (symChar_split d H1). rewrite IH by assumption.
    cbn [forallb]. rewrite <- app_assoc, andb_assoc. reflexivity.
Qed.

(** a symbol character read at the start of a token opens a symbol *)
Lemma topChar_sym : forall c, symChar c = true -> topChar c = (None, InSym [c] (isDigitP c)).
Proof.
  intros c H. unfold symChar in H. apply andb_true_iff in H. destruct H as [H1 H2].
  apply negb_true_iff in H1. apply negb_true_iff in H2. unfold isTerm in H2.
  repeat (apply orb_false_iff in H2; destruct H2 as [H2 ?]).
  unfold topChar. rewrite H1.
  repeat match goal with E : (c =? _) = false |- _ => rewrite E; clear E end. reflexivity.
Qed.

Lemma digit_symChar : forall c, isDigitP c = true -> symChar c = true.
Proof.
  intros c H. unfold isDigitP in H. apply andb_true_iff in H. destruct H as [H1 H2].
  apply N.leb_le in H1. apply N.leb_le in H2. unfold symChar, isSpaceP, isTerm.
  repeat match goal with |- context [c =? ?k] => destruct (N.eqb_spec c k); [lia|] end.
  destruct (N.leb_spec 9 c); destruct (N.leb_spec c 13); try lia; reflexivity.
Qed.

Lemma digits_symChars : forall s, forallb isDigitP s = true -> forallb symChar s = true.
Proof.
  induction s as [|c t IH]; [reflexivity|]. cbn [forallb]. intro H.
  apply andb_true_iff in H. destruct H as [H1 H2]. rewrite (digit_symChar c H1), (IH H2). reflexivity.
Qed.

(** one printed token, whatever follows it (as long as the look-ahead condition holds) *)
Lemma go_token : forall w rest, wfTok w -> followOK w rest ->
  go Top (printTok w ++ rest) = erase w :: go Top rest.
Proof.
  intros w rest HW HF. destruct w as [t|s|s nl].
  - destruct t as [s|s| | | | | | |s|s|s]; cbn [printTok erase wfTok followOK] in *.
    + (* string *) cbn [app]. rewrite go_top_cons. cbn. rewrite <- app_assoc. apply (go_string s [] rest).
    + (* integer *)
      destruct HW as [Hne Hd]. destruct s as [|d s]; [contradiction|].
      destruct rest as [|c r]; [destruct HF|].
      cbn [forallb] in Hd. apply andb_true_iff in Hd. destruct Hd as [Hd1 Hd2].
      cbn [app]. rewrite go_top_cons, (topChar_sym d (digit_symChar d Hd1)). cbn [consOpt].
      rewrite (go_sym s [d] (isDigitP d) c r (digits_symChars s Hd2) HF). rewrite Hd1, Hd2. reflexivity.
    + cbn [app]. rewrite go_top_cons. reflexivity.
    + cbn [app]. rewrite go_top_cons. reflexivity.
    + cbn [app]. rewrite go_top_cons. reflexivity.
    + cbn [app]. rewrite go_top_cons. reflexivity.
    + cbn [app]. rewrite go_top_cons. reflexivity.
    + cbn [app]. rewrite go_top_cons. reflexivity.
    + (* NAG *)
      destruct rest as [|c r]; [destruct HF|].
      cbn [app]. rewrite go_top_cons. cbn. apply (go_nag s [] c r HW HF).
    + (* symbol *)
      destruct HW as [Hne [Hs Hnd]]. destruct s as [|d s]; [contradiction|].
      destruct rest as [|c r]; [destruct HF|].
      cbn [forallb] in Hs. apply andb_true_iff in Hs. destruct Hs as [Hs1 Hs2].
      cbn [app]. rewrite go_top_cons, (topChar_sym d Hs1). cbn [consOpt].
      rewrite (go_sym s [d] (isDigitP d) c r Hs2 HF). cbn [forallb] in Hnd. rewrite Hnd. reflexivity.
    + (* comment printed in braces *)
      cbn [app]. rewrite go_top_cons. cbn. rewrite <- app_assoc. apply (go_brace s [] rest HW).
  - cbn [printTok erase wfTok] in *. cbn [app]. rewrite go_top_cons. cbn. rewrite <- app_assoc. apply (go_brace s [] rest HW).
  - cbn [printTok erase wfTok] in *. destruct HW as [H1 H2].
    cbn [app]. rewrite go_top_cons. cbn. rewrite <- app_assoc. apply (go_line s [] nl rest H1 H2).
Qed.

Lemma go_list : forall l trail, forallb isSpaceP trail = true -> wfList l trail ->
  go Top (printToks l trail ++ [10]) = map (fun x => erase (snd x)) l.
Proof.
  induction l as [|[sep w] t IH]; intros trail HT HL.
  - cbn [printToks map]. rewrite go_spaces by exact HT. reflexivity.
  - cbn [wfList] in HL. destruct HL as [Hsep [HW [HF HL]]].
    cbn [printToks map snd]. rewrite <- !app_assoc. rewrite go_spaces by exact Hsep.
    rewrite (go_token w _ HW HF). f_equal. apply IH; assumption.
Qed.

(** * The tokenizer half of the PGN round trip *)
Theorem scan_print : forall l trail,
  noPercent (printToks l trail) = true -> forallb isSpaceP trail = true -> wfList l trail ->
  scan (printToks l trail) = map (fun x => erase (snd x)) l.
Proof.
  intros l trail HP HT HL. unfold scan, delivered. rewrite chars_noPercent by exact HP.
  apply go_list; assumption.
Qed.

(* ---------- the same with the syntactic gluing rule of the writer ---------- *)
(** two tokens may be glued unless they would merge: symbol|integer before symbol|integer, or a NAG
    before a token that starts with a digit (the rule of harness/text_harness.cpp: needSep) *)
Definition symbolLike (w : wtok) : bool :=
  match w with WTok (TInteger _) | WTok (TSymbol _) => true | _ => false end.
Definition startsWithDigit (w : wtok) : bool :=
  match printTok w with c :: _ => isDigitP c | [] => false end.
Definition needSepb (w w2 : wtok) : bool :=
  match w with
  | WTok (TInteger _) | WTok (TSymbol _) => symbolLike w2
  | WTok (TNag _) => startsWithDigit w2
  | _ => false
  end.

Lemma space_not_digit : forall c, isSpaceP c = true -> isDigitP c = false.
Proof.
  intros c H. unfold isSpaceP in H. unfold isDigitP.
  apply orb_true_iff in H. destruct H as [H|H].
  - apply N.eqb_eq in H. subst c. reflexivity.
  - apply andb_true_iff in H. destruct H as [H1 H2]. apply N.leb_le in H1. apply N.leb_le in H2.
    destruct (N.leb_spec 48 c); [lia|reflexivity].
Qed.

Lemma follow_space : forall w c rest, isSpaceP c = true -> followOK w (c :: rest).
Proof.
  intros w c rest H. destruct w as [t|s|s nl]; cbn [followOK]; auto.
  destruct t; auto; try (rewrite H; reflexivity). apply space_not_digit. exact H.
Qed.

(** after the last token: the trailer, or the line feed that ends the input *)
Lemma follow_end : forall w trail, forallb isSpaceP trail = true -> followOK w (trail ++ [10]).
Proof.
  intros w [|c t] H.
  - apply follow_space. reflexivity.
  - cbn [forallb] in H. apply andb_true_iff in H. destruct H as [H _]. apply follow_space. exact H.
Qed.

Lemma follow_rule : forall w sep w2 rest, forallb isSpaceP sep = true -> wfTok w2 ->
  (sep <> [] \/ needSepb w w2 = false) -> followOK w (sep ++ printTok w2 ++ rest).
Proof.
  intros w sep w2 rest Hsep HW2 [Hne|Hglue].
  - destruct sep as [|c t]; [contradiction|]. cbn [forallb] in Hsep. apply andb_true_iff in Hsep.
    destruct Hsep as [Hc _]. apply follow_space. exact Hc.
  - destruct sep as [|c t]; [|cbn [forallb] in Hsep; apply andb_true_iff in Hsep; destruct Hsep as [Hc _]; apply follow_space; exact Hc].
    cbn [app]. destruct w as [t|s|s nl]; cbn [followOK]; auto.
    destruct t as [s|s| | | | | | |s|s|s]; auto; cbn [needSepb] in Hglue.
    + (* integer before w2 *)
      destruct w2 as [t2|s2|s2 nl2]; [destruct t2 as [s2|s2| | | | | | |s2|s2|s2]|..]; cbn [symbolLike] in Hglue; try discriminate; reflexivity.
    + (* NAG before w2 *)
      unfold startsWithDigit in Hglue. destruct (printTok w2) as [|c r] eqn:E.
      * destruct w2 as [t2|s2|s2 nl2]; [destruct t2 as [s2|s2| | | | | | |s2|s2|s2]|..]; cbn [printTok wfTok] in *; try discriminate;
          destruct HW2 as [Hn _]; contradiction.
      * cbn [app]. exact Hglue.
    + (* symbol before w2 *)
      destruct w2 as [t2|s2|s2 nl2]; [destruct t2 as [s2|s2| | | | | | |s2|s2|s2]|..]; cbn [symbolLike] in Hglue; try discriminate; reflexivity.
Qed.

(** the writer's rule, as a predicate on the list: separators are white space and are non-empty
    wherever [needSepb] demands it *)
Fixpoint wfStyle (prev : option wtok) (l : list (bytes * wtok)) : Prop :=
  match l with
  | [] => True
  | (sep, w) :: t =>
    forallb isSpaceP sep = true /\ wfTok w /\
    (match prev with Some w0 => sep <> [] \/ needSepb w0 w = false | None => True end) /\
    wfStyle (Some w) t
  end.

Lemma wfStyle_wfList : forall l prev trail, forallb isSpaceP trail = true -> wfStyle prev l -> wfList l trail.
Proof.
  induction l as [|[sep w] t IH]; intros prev trail HT H; [exact I|].
  cbn [wfStyle] in H. destruct H as [Hsep [HW [_ Hrest]]]. cbn [wfList].
  repeat split; auto.
  - destruct t as [|[sep2 w2] t2].
    + cbn [printToks]. apply follow_end. exact HT.
    + cbn [wfStyle] in Hrest. destruct Hrest as [Hsep2 [HW2 [Hrule _]]].
      cbn [printToks]. rewrite <- !app_assoc. apply follow_rule; assumption.
  - eapply IH; eauto.
Qed.

Theorem scan_print_style : forall l trail,
  noPercent (printToks l trail) = true -> forallb isSpaceP trail = true -> wfStyle None l ->
  scan (printToks l trail) = map (fun x => erase (snd x)) l.
Proof.
  intros l trail HP HT HS. apply scan_print; auto. eapply wfStyle_wfList; eauto.
Qed.

(* ---------- example (non-vacuity): everything glued that may be glued ---------- *)
(** 1.e4(Bc4$1)Nc6!{c}$2$3;x<LF>[Event<quoted string a, escaped quote, b>]1 <blank><LF>1-0 : the NAG directly
    before the closing parenthesis is the case of the seeded change C17b; the text ends in a symbol
    without trailing white space *)
Definition exampleToks : list (bytes * wtok) :=
  [([], WTok (TInteger [49])); ([], WTok TPeriod); ([], WTok (TSymbol [101; 52])); ([], WTok TLParen);
   ([], WTok (TSymbol [66; 99; 52])); ([], WTok (TNag [49])); ([], WTok TRParen);
   ([], WTok (TSymbol [78; 99; 54; 33])); ([], WBrace [99]); ([], WTok (TNag [50])); ([], WTok (TNag [51]));
   ([], WLine [120] 10); ([], WTok TLBracket); ([], WTok (TSymbol [69; 118; 101; 110; 116]));
   ([], WTok (TString [97; 34; 98])); ([], WTok TRBracket); ([], WTok (TInteger [49])); ([32; 10], WTok (TSymbol [49; 45; 48]))].

Example scan_print_example :
  wfStyle None exampleToks /\
  printToks exampleToks [] =
    [49;46;101;52;40;66;99;52;36;49;41;78;99;54;33;123;99;125;36;50;36;51;59;120;10;
     91;69;118;101;110;116;34;97;92;34;98;34;93;49;32;10;49;45;48] /\
  scan (printToks exampleToks []) = map (fun x => erase (snd x)) exampleToks.
Proof.
  split; [|split; [reflexivity|vm_compute; reflexivity]].
  cbn; repeat split; try reflexivity; try discriminate; try (right; reflexivity); try (left; discriminate).
Qed.
