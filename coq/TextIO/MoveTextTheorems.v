(** The round-trip theorems at the level of a position (legal moves, check and mate verdicts of
    the FIDE specification), the boolean form of their hypothesis, and examples showing that the
    hypothesis is satisfiable on non-trivial positions (three queens that need file AND rank,
    a capture-promotion with check, castling, en passant). *)
From Coq Require Import ZArith NArith List Bool Lia.
From Texel Require Import Chess.Types Chess.Position Chess.Fen Chess.PositionInst Chess.Spec
  TextIO.MoveText TextIO.MoveTextP TextIO.ParseSweep TextIO.MoveTextFacts TextIO.MoveTextProofs TextIO.SpecShape.
Import ListNotations.
Local Open Scope N_scope.

Fixpoint nodupb (l : list move) : bool :=
  match l with
  | [] => true
  | a :: t => negb (existsb (move_eqb a) t) && nodupb t
  end.

Lemma nodupb_NoDup : forall l, nodupb l = true -> NoDup l.
Proof.
  induction l as [|a l IH]; [constructor|]. cbn [nodupb]. intro H.
  apply andb_true_iff in H. destruct H as [H1 H2]. constructor; [|apply IH, H2].
  intro Hin. apply negb_true_iff in H1.
  assert (existsb (move_eqb a) l = true) as E.
  { apply existsb_exists. exists a. split; [exact Hin|apply move_eqb_eq; reflexivity]. }
  congruence.
Qed.

(** the hypothesis of the short-form theorems as one executable test (the check evaluates it on
    every generated position) *)
Definition legalShapeb (p : position) (legal : list move) : bool :=
  nodupb legal && forallb (shortOKb p) legal.

Lemma legalShapeb_ok : forall p legal, legalShapeb p legal = true -> legalShape p legal.
Proof.
  intros p legal H. apply andb_true_iff in H. destruct H as [H1 H2].
  split; [apply nodupb_NoDup, H1|exact H2].
Qed.

Theorem short_roundtrip_P : forall p, legalShapeb p (legalOf p) = true ->
  forall m, In m (legalOf p) -> stringToMoveP p (moveToStringP p m false) = m.
Proof.
  intros p H m Hm. unfold stringToMoveP, moveToStringP. apply short_roundtrip; [apply legalShapeb_ok, H|exact Hm].
Qed.

Theorem long_roundtrip_P : forall p, legalShapeb p (legalOf p) = true ->
  forall m, In m (legalOf p) -> stringToMoveP p (moveToStringP p m true) = m.
Proof.
  intros p H m Hm. unfold stringToMoveP, moveToStringP.
  apply long_roundtrip; [apply legalShape_long, legalShapeb_ok, H|exact Hm].
Qed.

Theorem short_injective_P : forall p, legalShapeb p (legalOf p) = true ->
  forall a b, In a (legalOf p) -> In b (legalOf p) ->
  moveToStringP p a false = moveToStringP p b false -> a = b.
Proof.
  intros p H a b Ha Hb E. unfold moveToStringP in E.
  exact (short_injective p (legalOf p) (gcOf p) (mateOf p) (legalShapeb_ok _ _ H) a b Ha Hb E).
Qed.

(* ---------- the hypothesis holds on every accepted position ---------- *)
Lemma existsb_move_In : forall a l, existsb (move_eqb a) l = true <-> In a l.
Proof.
  intros a l. rewrite existsb_exists. split.
  - intros [x [Hx E]]. apply move_eqb_eq in E. subst x. exact Hx.
  - intro H. exists a. split; [exact H|apply move_eqb_eq; reflexivity].
Qed.

Lemma dedup_In : forall l x, In x (dedup l) <-> In x l.
Proof.
  induction l as [|a l IH]; intro x; [tauto|]. cbn [dedup].
  destruct (existsb (move_eqb a) l) eqn:E.
  - rewrite IH. apply existsb_move_In in E. split; [right; assumption|]. intros [<-|H]; assumption.
  - cbn [In]. rewrite IH. tauto.
Qed.

Lemma dedup_nodupb : forall l, nodupb (dedup l) = true.
Proof.
  induction l as [|a l IH]; [reflexivity|]. cbn [dedup].
  destruct (existsb (move_eqb a) l) eqn:E; [exact IH|].
  cbn [nodupb]. rewrite IH, andb_true_r. apply negb_true_iff.
  destruct (existsb (move_eqb a) (dedup l)) eqn:E2; [|reflexivity].
  apply (proj1 (existsb_move_In a _)) in E2. apply (proj1 (dedup_In l a)) in E2.
  apply (proj2 (existsb_move_In a l)) in E2. congruence.
Qed.

Lemma legalOf_In : forall p m, In m (legalOf p) <-> legal_spec (abs p) m.
Proof. intros p m. unfold legalOf. rewrite dedup_In. apply legal_moves_spec_In. Qed.

(** on every position that passes the acceptance test of the specification (what the FEN reader
    enforces), the legal moves satisfy the hypothesis of the round-trip theorems *)
Theorem legal_shape_accepted : forall p, accepted (abs p) = true -> legalShapeb p (legalOf p) = true.
Proof.
  intros p H. unfold legalShapeb. apply andb_true_iff. split; [apply dedup_nodupb|].
  apply forallb_forall. intros m Hm. apply legalOf_In in Hm. exact (spec_legal_moves_ok p H m Hm).
Qed.

(** the statement of DESIGN.md: accepted position, legal move, every form parses back *)
Theorem roundtrips_accepted : forall p, accepted (abs p) = true ->
  forall m, legal_spec (abs p) m ->
  stringToMoveP p (moveToStringP p m false) = m /\ stringToMoveP p (moveToStringP p m true) = m.
Proof.
  intros p H m Hm. apply legalOf_In in Hm. pose proof (legal_shape_accepted p H) as HS.
  split; [apply short_roundtrip_P|apply long_roundtrip_P]; assumption.
Qed.

Theorem short_injective_accepted : forall p, accepted (abs p) = true ->
  forall a b, legal_spec (abs p) a -> legal_spec (abs p) b ->
  moveToStringP p a false = moveToStringP p b false -> a = b.
Proof.
  intros p H a b Ha Hb. apply legalOf_In in Ha. apply legalOf_In in Hb.
  exact (short_injective_P p (legal_shape_accepted p H) a b Ha Hb).
Qed.

(* ---------- examples (non-vacuity) ---------- *)
Definition posOfFen (s : str) : position :=
  match readFEN zk0 s with FenOk p => p | FenErr _ => emptyPosition zk0 end.

(** 8/7k/8/8/8/Q7/8/Q1Q4K w - - 0 1 : queens on a1, a3, c1 all reach c3 *)
Definition fenThreeQueens : str :=
  [56;47;55;107;47;56;47;56;47;56;47;81;55;47;56;47;81;49;81;52;75;32;119;32;45;32;45;32;48;32;49].
(** 3r2k1/4P3/8/8/8/8/8/4K3 w - - 0 1 : e7xd8=Q+ (capture, promotion, check) *)
Definition fenCapturePromo : str :=
  [51;114;50;107;49;47;52;80;51;47;56;47;56;47;56;47;56;47;56;47;52;75;51;32;119;32;45;32;45;32;48;32;49].
(** r3k2r/8/8/3pP3/8/8/8/R3K2R w KQkq d6 0 2 : castling both sides and en passant *)
Definition fenCastleEp : str :=
  [114;51;107;50;114;47;56;47;56;47;51;112;80;51;47;56;47;56;47;56;47;82;51;75;50;82;32;119;32;75;81;107;113;32;100;54;32;48;32;50].

Example three_queens_hypothesis :
  let p := posOfFen fenThreeQueens in
  accepted (abs p) = true /\ legalShapeb p (legalOf p) = true /\ length (legalOf p) = 49%nat /\
  In (mkMove 0 18 EMPTY) (legalOf p) /\
  moveToStringP p (mkMove 0 18 EMPTY) false = [ch_Q; 97; 49; 99; 51] /\      (* Qa1c3 *)
  moveToStringP p (mkMove 16 18 EMPTY) false = [ch_Q; 51; 99; 51] /\         (* Q3c3  *)
  moveToStringP p (mkMove 2 18 EMPTY) false = [ch_Q; 99; 99; 51] /\          (* Qcc3  *)
  stringToMoveP p [ch_Q; 97; 49; 99; 51] = mkMove 0 18 EMPTY.
Proof. vm_compute. intuition. Qed.

Example capture_promotion_hypothesis :
  let p := posOfFen fenCapturePromo in
  legalShapeb p (legalOf p) = true /\
  In (mkMove 52 59 WQUEEN) (legalOf p) /\
  moveToStringP p (mkMove 52 59 WQUEEN) false = [101; ch_x; 100; 56; ch_Q; ch_plus] /\    (* exd8Q+ *)
  moveToStringP p (mkMove 52 59 WQUEEN) true = [101; 55; ch_x; 100; 56; ch_Q; ch_plus] /\ (* e7xd8Q+ *)
  stringToMoveP p [101; ch_x; 100; 56; ch_Q; ch_plus] = mkMove 52 59 WQUEEN.
Proof. vm_compute. intuition. Qed.

Example castle_ep_hypothesis :
  let p := posOfFen fenCastleEp in
  legalShapeb p (legalOf p) = true /\
  moveToStringP p (mkMove 4 6 EMPTY) false = strOO /\
  moveToStringP p (mkMove 4 2 EMPTY) false = strOOO /\
  moveToStringP p (mkMove 36 43 EMPTY) false = [101; ch_x; 100; 54] /\                     (* exd6 (en passant) *)
  stringToMoveP p strOOO = mkMove 4 2 EMPTY /\
  stringToMoveP p [101; ch_x; 100; 54] = mkMove 36 43 EMPTY.
Proof. vm_compute. intuition. Qed.
