(** Round trips of the move text model: for every move of a legal-shaped list, the long form and
    the short form printed by [moveToString] are parsed back by [stringToMove] to the same move;
    hence no two moves of the list share a text form. *)
From Coq Require Import ZArith NArith List Bool Lia.
From Texel Require Import Chess.Types Chess.Position Chess.Fen TextIO.MoveText TextIO.ParseSweep TextIO.MoveTextFacts.
Import ListNotations.
Local Open Scope N_scope.

Lemma move_eq : forall a b, mfrom a = mfrom b -> mto a = mto b -> mpromote a = mpromote b -> a = b.
Proof. intros [a1 a2 a3] [b1 b2 b3]; cbn [mfrom mto mpromote]; intros -> -> ->; reflexivity. Qed.

Lemma ZofN_nonneg_alt : forall (n : N) (z : Z), ((Z.of_N n < 0)%Z \/ Z.of_N n = z) -> Z.of_N n = z.
Proof. intros n z [H|H]; [lia|exact H]. Qed.

Section RoundTrip.
Variable p : position.
Variable legal : list move.
Variables gc mate : move -> bool.

Definition infoOf (pc fx fy : Z) (m : move) : moveInfo :=
  mkInfo pc fx fy (Z.of_N (sqX (mto m))) (Z.of_N (sqY (mto m))) (Z.of_N (mpromote m)).

(** what a match against the info printed for [m] says about the other move *)
Lemma match_infoOf : forall pc fx fy m m',
  matchInfo p (infoOf pc fx fy m) m' = true ->
  mto m' = mto m /\ mpromote m' = mpromote m /\
  ((pc < 0)%Z \/ pc = Z.of_N (getPiece p (mfrom m'))) /\
  ((fx < 0)%Z \/ fx = Z.of_N (sqX (mfrom m'))) /\
  ((fy < 0)%Z \/ fy = Z.of_N (sqY (mfrom m'))).
Proof.
  intros pc fx fy m m' H. unfold infoOf in H. apply matchInfo_iff in H.
  destruct H as [Hp [Hfx [Hfy [Htx [Hty Hpr]]]]].
  apply ZofN_nonneg_alt in Htx. apply ZofN_nonneg_alt in Hty. apply ZofN_nonneg_alt in Hpr.
  apply N2Z.inj in Htx. apply N2Z.inj in Hty. apply N2Z.inj in Hpr.
  repeat split; auto. apply sq_eq; auto.
Qed.

Lemma match_self : forall pc fx fy m,
  ((pc < 0)%Z \/ pc = Z.of_N (getPiece p (mfrom m))) ->
  ((fx < 0)%Z \/ fx = Z.of_N (sqX (mfrom m))) ->
  ((fy < 0)%Z \/ fy = Z.of_N (sqY (mfrom m))) ->
  matchInfo p (infoOf pc fx fy m) m = true.
Proof. intros. unfold infoOf. apply matchInfo_iff. repeat split; auto. Qed.

(** source square fully given: the match is the move *)
Lemma unique_full : forall pc m m',
  matchInfo p (infoOf pc (Z.of_N (sqX (mfrom m))) (Z.of_N (sqY (mfrom m))) m) m' = true -> m' = m.
Proof.
  intros pc m m' H. apply match_infoOf in H. destruct H as [Ht [Hpr [_ [Hx Hy]]]].
  apply ZofN_nonneg_alt in Hx. apply ZofN_nonneg_alt in Hy. apply N2Z.inj in Hx. apply N2Z.inj in Hy.
  apply move_eq; auto. apply sq_eq; auto.
Qed.

(** the generic last step: the parsed info matches exactly [m] *)
Lemma select_from_info : forall m info cap core,
  NoDup legal -> In m legal ->
  parseMoveInfo (whiteMove p) core = Some (info, cap) ->
  matchInfo p info m = true ->
  (forall m', In m' legal -> matchInfo p info m' = true -> m' = m) ->
  stringToMove p legal (core ++ checkSuffix gc mate m) = m.
Proof.
  intros m info cap core ND Hin Hparse Hself Huniq.
  unfold stringToMove. rewrite parse_suffix, Hparse.
  apply selectMove_single. apply filter_unique; auto.
Qed.

(** the body of moveToString in the association used by the parser sweep *)
Lemma moveBody_shape : forall mv long,
  let pc := getPiece p (mfrom mv) in
  let x1 := sqX (mfrom mv) in let y1 := sqY (mfrom mv) in
  moveBody p legal mv long =
  shapeStr (pieceToChar pc false)
           (if long then [fileChar x1; rankChar y1]
            else if pc =? ownPawn p then (if isCapture p mv then [fileChar x1] else [])
                 else disambiguation p legal pc mv)
           (if long then [if isCapture p mv then ch_x else ch_dash]
            else if isCapture p mv then [ch_x] else [])
           (sqX (mto mv)) (sqY (mto mv)) (promStr (mpromote mv)).
Proof. intros mv long. unfold moveBody, shapeStr, promStr. destruct long; reflexivity. Qed.

Lemma sep_long_in : forall b : bool, In [if b then ch_x else ch_dash] seps /\
  strEqb [if b then ch_x else ch_dash] [ch_x] = b.
Proof. intros [|]; split; cbn; tauto || reflexivity. Qed.

Lemma sep_short_in : forall b : bool, In (if b then [ch_x] else []) seps /\
  strEqb (if b then [ch_x] else []) [ch_x] = b.
Proof. intros [|]; split; cbn; tauto || reflexivity. Qed.

(** own king on its original square: the side to move *)
Lemma own_wking : ownPieceb (whiteMove p) WKING = true -> whiteMove p = true.
Proof. destruct (whiteMove p); [reflexivity|discriminate]. Qed.
Lemma own_bking : ownPieceb (whiteMove p) BKING = true -> whiteMove p = false.
Proof. destruct (whiteMove p); [discriminate|reflexivity]. Qed.

(** castling strings: the info is the complete description of the move *)
Lemma castle_roundtrip : forall m c l,
  NoDup legal -> In m legal -> moveOKb p m = true -> castleString p m = c :: l ->
  stringToMove p legal ((c :: l) ++ checkSuffix gc mate m) = m.
Proof.
  intros m c l ND Hin Hok HC.
  destruct (moveOKb_parts p m Hok) as [Hf [Ht [Hown Hpr]]].
  destruct (castleString_cases p m) as [E|[[E C]|[E C]]]; [rewrite E in HC; discriminate| |];
    rewrite <- HC, E;
    (destruct C as [[Hfrom [Hpc Hto]]|[Hfrom [Hpc Hto]]];
     rewrite Hfrom in Hown, Hpr; rewrite Hpc in Hown, Hpr;
     [pose proof (own_wking Hown) as Hw|pose proof (own_bking Hown) as Hw];
     unfold ownPawn in Hpr; rewrite Hw in Hpr; cbn in Hpr; apply N.eqb_eq in Hpr;
     (eapply select_from_info; [exact ND|exact Hin|rewrite Hw; apply parse_castle| |])).
  all: try (apply matchInfo_iff; rewrite Hfrom, Hto, Hpr, ?Hpc; cbn; repeat split; right; reflexivity).
  all: intros m' _ Hm'; apply matchInfo_iff in Hm'; cbn [castleInfo] in Hm';
       destruct Hm' as [_ [Hfx [Hfy [Htx [Hty Hp']]]]];
       destruct Hfx as [Hfx|Hfx]; [cbn in Hfx; lia|]; destruct Hfy as [Hfy|Hfy]; [cbn in Hfy; lia|];
       destruct Htx as [Htx|Htx]; [cbn in Htx; lia|]; destruct Hty as [Hty|Hty]; [cbn in Hty; lia|];
       destruct Hp' as [Hp'|Hp']; [cbn in Hp'; lia|];
       apply move_eq; [rewrite Hfrom|rewrite Hto|rewrite Hpr];
       try (apply sq_eq; apply N2Z.inj; [rewrite <- Hfx|rewrite <- Hfy]; reflexivity);
       try (apply sq_eq; apply N2Z.inj; [rewrite <- Htx|rewrite <- Hty]; reflexivity);
       try (apply N2Z.inj; rewrite <- Hp'; reflexivity).
Qed.

Lemma pawnPieceZ_both : forall wtm a b, pawnPieceZ wtm (Z.of_N a) (Z.of_N b) = (-1)%Z.
Proof.
  intros. unfold pawnPieceZ.
  destruct (Z.leb_spec 0 (Z.of_N a)); [|lia]. destruct (Z.leb_spec 0 (Z.of_N b)); [|lia]. reflexivity.
Qed.
Lemma pawnPieceZ_nofy : forall wtm fx, pawnPieceZ wtm fx (-1)%Z = Z.of_N (if wtm then WPAWN else BPAWN).
Proof. intros. unfold pawnPieceZ. rewrite andb_false_r. reflexivity. Qed.

Lemma legal_moveOK : forall m, forallb (moveOKb p) legal = true -> In m legal -> moveOKb p m = true.
Proof. intros m H Hin. exact (proj1 (forallb_forall _ _) H m Hin). Qed.

(** * Long form *)
Theorem long_roundtrip : legalShapeLong p legal -> forall m, In m legal ->
  stringToMove p legal (moveToString p legal gc mate m true) = m.
Proof.
  intros [ND Hall] m Hin. pose proof (legal_moveOK m Hall Hin) as Hok.
  unfold moveToString. destruct (castleString p m) as [|c l] eqn:EC.
  2: { apply castle_roundtrip; auto. }
  destruct (moveOKb_parts p m Hok) as [Hf [Ht [Hown Hpr]]].
  rewrite moveBody_shape. cbv zeta.
  destruct (sep_long_in (isCapture p m)) as [Hs1 Hs2].
  assert (HD : disCase [fileChar (sqX (mfrom m)); rankChar (sqY (mfrom m))]
                       (Z.of_N (sqX (mfrom m))) (Z.of_N (sqY (mfrom m)))).
  { apply DBoth; [apply sqX_lt8|apply sqY_lt8; exact Hf]. }
  destruct (getPiece p (mfrom m) =? ownPawn p) eqn:EP.
  - apply N.eqb_eq in EP. rewrite EP, ownPawn_letter.
    destruct (promStr_of _ _ Hpr) as [HprIn HprZ].
    eapply select_from_info with (info := infoOf (-1)%Z (Z.of_N (sqX (mfrom m))) (Z.of_N (sqY (mfrom m))) m)
                                 (cap := isCapture p m); auto.
    + rewrite (parse_pawn_shape (whiteMove p) _ _ _ _ _ _ _ HD Hs1 HprIn (sqX_lt8 _) (sqY_lt8 _ Ht)).
      rewrite HprZ, Hs2, pawnPieceZ_both. reflexivity.
    + apply match_self; [left; lia|right; reflexivity|right; reflexivity].
    + intros m' _ Hm'. eapply unique_full; exact Hm'.
  - unfold ownPawn in EP. destruct (pieceLetter_of _ _ Hown EP) as [L [HL [HLin HLz]]].
    apply N.eqb_eq in Hpr. rewrite HL, Hpr. change (promStr EMPTY) with (@nil N).
    eapply select_from_info with (info := infoOf (Z.of_N (getPiece p (mfrom m))) (Z.of_N (sqX (mfrom m))) (Z.of_N (sqY (mfrom m))) m)
                                 (cap := isCapture p m); auto.
    + rewrite (parse_piece_shape (whiteMove p) L _ _ _ _ _ _ HLin HD Hs1 (sqX_lt8 _) (sqY_lt8 _ Ht)).
      rewrite HLz, Hs2. unfold infoOf. rewrite Hpr. reflexivity.
    + apply match_self; right; reflexivity.
    + intros m' _ Hm'. eapply unique_full; exact Hm'.
Qed.

(** * Short form *)
Lemma shortOKb_parts : forall m, shortOKb p m = true ->
  moveOKb p m = true /\ isEmptyMove m = false /\
  (getPiece p (mfrom m) = ownPawn p -> pawnShapeb p m = true).
Proof.
  intros m H. unfold shortOKb in H.
  apply andb_true_iff in H. destruct H as [H H3].
  apply andb_true_iff in H. destruct H as [H1 H2]. apply negb_true_iff in H2.
  repeat split; auto. intro E. rewrite E, N.eqb_refl in H3. exact H3.
Qed.

Lemma legal_noEmpty : forallb (shortOKb p) legal = true -> takeNonEmpty legal = legal.
Proof.
  intro H. apply takeNonEmpty_id. apply forallb_forall. intros m Hm.
  apply (proj1 (forallb_forall _ _) H) in Hm. apply shortOKb_parts in Hm. destruct Hm as [_ [E _]].
  rewrite E. reflexivity.
Qed.

(** a pawn move that captures is diagonal and one rank forward; one that does not is straight *)
Lemma pawnShape_capture : forall m, pawnShapeb p m = true -> isCapture p m = true ->
  sqX (mto m) <> sqX (mfrom m) /\
  (if whiteMove p then sqY (mto m) = sqY (mfrom m) + 1 else sqY (mfrom m) = sqY (mto m) + 1).
Proof.
  intros m H HC. unfold pawnShapeb in H. rewrite HC in H.
  destruct (sqX (mto m) =? sqX (mfrom m)) eqn:E; [cbn in H; discriminate|].
  apply N.eqb_neq in E. split; [exact E|]. cbn [andb] in H.
  destruct (whiteMove p); apply N.eqb_eq in H; exact H.
Qed.

Lemma pawnShape_diagonal : forall m, pawnShapeb p m = true -> sqX (mto m) <> sqX (mfrom m) ->
  (if whiteMove p then sqY (mto m) = sqY (mfrom m) + 1 else sqY (mfrom m) = sqY (mto m) + 1).
Proof.
  intros m H HX. unfold pawnShapeb in H. apply N.eqb_neq in HX. rewrite HX in H.
  apply andb_true_iff in H. destruct H as [_ H]. destruct (whiteMove p); apply N.eqb_eq in H; exact H.
Qed.

Lemma pawnShape_quiet : forall m, pawnShapeb p m = true -> isCapture p m = false ->
  (if whiteMove p then mto m = mfrom m + 8 \/ (mto m = mfrom m + 16 /\ getPiece p (mfrom m + 8) = EMPTY)
   else mfrom m = mto m + 8 \/ (mfrom m = mto m + 16 /\ getPiece p (mto m + 8) = EMPTY)).
Proof.
  intros m H HC. unfold pawnShapeb in H. rewrite HC in H.
  destruct (sqX (mto m) =? sqX (mfrom m)); [|cbn in H; discriminate]. cbn [negb andb] in H.
  destruct (whiteMove p); apply orb_true_iff in H; (destruct H as [H|H];
    [apply N.eqb_eq in H; left; exact H
    |apply andb_true_iff in H; destruct H as [H1 H2]; apply N.eqb_eq in H1; apply N.eqb_eq in H2; right; auto]).
Qed.

Lemma isCapture_same : forall m m', mto m' = mto m -> getPiece p (mfrom m) = ownPawn p ->
  getPiece p (mfrom m') = ownPawn p -> isCapture p m' = isCapture p m.
Proof. intros m m' Ht E E'. unfold isCapture. rewrite Ht, E, E'. reflexivity. Qed.

Lemma ownPawn_not_empty : ownPawn p <> EMPTY.
Proof. unfold ownPawn. destruct (whiteMove p); discriminate. Qed.

Lemma sameTargetSet_In : forall pc m x, takeNonEmpty legal = legal ->
  (In x (sameTargetSet p legal pc m) <-> In x legal /\ getPiece p (mfrom x) = pc /\ mto x = mto m).
Proof.
  intros pc m x HT. unfold sameTargetSet. rewrite HT, filter_In. unfold sameTarget.
  rewrite andb_true_iff, !N.eqb_eq. tauto.
Qed.

Theorem short_roundtrip : legalShape p legal -> forall m, In m legal ->
  stringToMove p legal (moveToString p legal gc mate m false) = m.
Proof.
  intros [ND Hall] m Hin.
  pose proof (proj1 (forallb_forall _ _) Hall) as HallP.
  destruct (shortOKb_parts m (HallP m Hin)) as [Hok [_ Hshape]].
  pose proof (legal_noEmpty Hall) as HT.
  unfold moveToString. destruct (castleString p m) as [|c l] eqn:EC.
  2: { apply castle_roundtrip; auto. }
  destruct (moveOKb_parts p m Hok) as [Hf [Ht [Hown Hpr]]].
  rewrite moveBody_shape. cbv zeta.
  destruct (getPiece p (mfrom m) =? ownPawn p) eqn:EP.
  - (* pawn moves *)
    apply N.eqb_eq in EP. rewrite EP, ownPawn_letter.
    destruct (promStr_of _ _ Hpr) as [HprIn HprZ].
    specialize (Hshape EP).
    destruct (isCapture p m) eqn:ECap.
    + (* capture: file of the source square is printed *)
      destruct (pawnShape_capture m Hshape ECap) as [HXne HY].
      destruct (sep_short_in true) as [Hs1 Hs2].
      eapply select_from_info with (info := infoOf (Z.of_N (ownPawn p)) (Z.of_N (sqX (mfrom m))) (-1)%Z m) (cap := true); auto.
      * rewrite (parse_pawn_shape (whiteMove p) _ _ _ _ _ _ _ (DFile _ (sqX_lt8 _)) Hs1 HprIn (sqX_lt8 _) (sqY_lt8 _ Ht)).
        rewrite HprZ, Hs2, pawnPieceZ_nofy. reflexivity.
      * apply match_self; [right; rewrite EP; reflexivity|right; reflexivity|left; lia].
      * intros m' Hin' Hm'. apply match_infoOf in Hm'. destruct Hm' as [Ht' [Hpr' [Hpc' [Hfx' _]]]].
        apply ZofN_nonneg_alt in Hpc'. apply N2Z.inj in Hpc'. apply ZofN_nonneg_alt in Hfx'. apply N2Z.inj in Hfx'.
        destruct (shortOKb_parts m' (HallP m' Hin')) as [_ [_ Hshape']]. specialize (Hshape' (eq_sym Hpc')).
        assert (HXne' : sqX (mto m') <> sqX (mfrom m')) by (rewrite Ht', <- Hfx'; exact HXne).
        pose proof (pawnShape_diagonal m' Hshape' HXne') as HY'. rewrite Ht' in HY'.
        apply move_eq; auto. apply sq_eq; [symmetry; exact Hfx'|]. destruct (whiteMove p); lia.
    + (* quiet pawn move: only the target square *)
      pose proof (pawnShape_quiet m Hshape ECap) as HG.
      destruct (sep_short_in false) as [Hs1 Hs2].
      eapply select_from_info with (info := infoOf (Z.of_N (ownPawn p)) (-1)%Z (-1)%Z m) (cap := false); auto.
      * rewrite (parse_pawn_shape (whiteMove p) _ _ _ _ _ _ _ DNone Hs1 HprIn (sqX_lt8 _) (sqY_lt8 _ Ht)).
        rewrite HprZ, Hs2, pawnPieceZ_nofy. reflexivity.
      * apply match_self; [right; rewrite EP; reflexivity|left; lia|left; lia].
      * intros m' Hin' Hm'. apply match_infoOf in Hm'. destruct Hm' as [Ht' [Hpr' [Hpc' _]]].
        apply ZofN_nonneg_alt in Hpc'. apply N2Z.inj in Hpc'. symmetry in Hpc'.
        destruct (shortOKb_parts m' (HallP m' Hin')) as [_ [_ Hshape']]. specialize (Hshape' Hpc').
        pose proof (isCapture_same m m' Ht' EP Hpc') as HC'. rewrite ECap in HC'.
        pose proof (pawnShape_quiet m' Hshape' HC') as HG'. rewrite Ht' in HG'.
        pose proof ownPawn_not_empty as HNE.
        apply move_eq; auto.
        destruct (whiteMove p).
        -- destruct HG as [HG|[HG HE]]; destruct HG' as [HG'|[HG' HE']]; try lia.
           ++ exfalso. assert (mfrom m' + 8 = mfrom m) as Q by lia. rewrite Q, EP in HE'. exact (HNE HE').
           ++ exfalso. assert (mfrom m + 8 = mfrom m') as Q by lia. rewrite Q, Hpc' in HE. exact (HNE HE).
        -- destruct HG as [HG|[HG HE]]; destruct HG' as [HG'|[HG' HE']]; try lia.
           ++ exfalso. rewrite <- HG, EP in HE'. exact (HNE HE').
           ++ exfalso. rewrite <- HG', Hpc' in HE. exact (HNE HE).
  - (* piece moves *)
    destruct (sep_short_in (isCapture p m)) as [Hs1 Hs2].
    pose proof EP as EP0. unfold ownPawn in EP. destruct (pieceLetter_of _ _ Hown EP) as [L [HL [HLin HLz]]].
    apply N.eqb_eq in Hpr. rewrite HL, Hpr. change (promStr EMPTY) with (@nil N).
    set (pc := getPiece p (mfrom m)) in *.
    assert (HmS : In m (sameTargetSet p legal pc m)) by (apply sameTargetSet_In; auto).
    assert (Hgen : forall fx fy,
              disCase (disambiguation p legal pc m) fx fy ->
              ((fx < 0)%Z \/ fx = Z.of_N (sqX (mfrom m))) -> ((fy < 0)%Z \/ fy = Z.of_N (sqY (mfrom m))) ->
              (forall m', In m' (sameTargetSet p legal pc m) -> mpromote m' = mpromote m ->
                 ((fx < 0)%Z \/ fx = Z.of_N (sqX (mfrom m'))) -> ((fy < 0)%Z \/ fy = Z.of_N (sqY (mfrom m'))) -> m' = m) ->
              stringToMove p legal
                (shapeStr [L] (disambiguation p legal pc m) (if isCapture p m then [ch_x] else [])
                          (sqX (mto m)) (sqY (mto m)) [] ++ checkSuffix gc mate m) = m).
    { intros fx fy HD Hfx Hfy Huniq.
      eapply select_from_info with (info := infoOf (Z.of_N pc) fx fy m) (cap := isCapture p m); auto.
      - rewrite (parse_piece_shape (whiteMove p) L _ _ _ _ _ _ HLin HD Hs1 (sqX_lt8 _) (sqY_lt8 _ Ht)).
        rewrite HLz. unfold infoOf. rewrite Hpr. f_equal. f_equal. destruct (isCapture p m); reflexivity.
      - apply match_self; auto.
      - intros m' Hin' Hm'. apply match_infoOf in Hm'. destruct Hm' as [Ht' [Hpr' [Hpc' [Hfx' Hfy']]]].
        apply ZofN_nonneg_alt in Hpc'. apply N2Z.inj in Hpc'.
        apply Huniq; auto. apply sameTargetSet_In; auto. }
    destruct (disambiguation_cases p legal pc m) as [[HL1 HD]|[[HL2 HD]|[[HL3 HD]|HD]]]; cbv zeta in *.
    + (* no other piece of the kind reaches the square *)
      apply (Hgen (-1)%Z (-1)%Z); [rewrite HD; constructor|left; lia|left; lia|].
      intros m' HS' _ _ _. exact (short_list_unique _ m' m HL1 HS' HmS).
    + (* file *)
      apply (Hgen (Z.of_N (sqX (mfrom m))) (-1)%Z); [rewrite HD; constructor; apply sqX_lt8|right; reflexivity|left; lia|].
      intros m' HS' _ Hfx' _. apply ZofN_nonneg_alt in Hfx'. apply N2Z.inj in Hfx'.
      apply (short_list_unique _ m' m HL2); apply filter_In; split; auto; apply N.eqb_eq; auto.
    + (* rank *)
      apply (Hgen (-1)%Z (Z.of_N (sqY (mfrom m)))); [rewrite HD; constructor; apply sqY_lt8; exact Hf|left; lia|right; reflexivity|].
      intros m' HS' _ _ Hfy'. apply ZofN_nonneg_alt in Hfy'. apply N2Z.inj in Hfy'.
      apply (short_list_unique _ m' m HL3); apply filter_In; split; auto; apply N.eqb_eq; auto.
    + (* file and rank *)
      apply (Hgen (Z.of_N (sqX (mfrom m))) (Z.of_N (sqY (mfrom m))));
        [rewrite HD; constructor; [apply sqX_lt8|apply sqY_lt8; exact Hf]|right; reflexivity|right; reflexivity|].
      intros m' HS' Hpr' Hfx' Hfy'. apply ZofN_nonneg_alt in Hfx'. apply N2Z.inj in Hfx'.
      apply ZofN_nonneg_alt in Hfy'. apply N2Z.inj in Hfy'.
      apply sameTargetSet_In in HS'; auto. destruct HS' as [_ [_ Ht']].
      apply move_eq; auto. apply sq_eq; auto.
Qed.

(** no two moves of a legal-shaped list share a short form (or a long form) *)
Corollary short_injective : legalShape p legal -> forall a b, In a legal -> In b legal ->
  moveToString p legal gc mate a false = moveToString p legal gc mate b false -> a = b.
Proof.
  intros H a b Ha Hb E.
  rewrite <- (short_roundtrip H a Ha), <- (short_roundtrip H b Hb), E. reflexivity.
Qed.

Corollary long_injective : legalShapeLong p legal -> forall a b, In a legal -> In b legal ->
  moveToString p legal gc mate a true = moveToString p legal gc mate b true -> a = b.
Proof.
  intros H a b Ha Hb E.
  rewrite <- (long_roundtrip H a Ha), <- (long_roundtrip H b Hb), E. reflexivity.
Qed.

End RoundTrip.
