(** Proofs about the UCI move strings: finite enumeration (64 x 64 squares x 13 piece codes)
    by [vm_compute], lifted with [forallb_forall]. *)
From Coq Require Import ZArith NArith List Bool Lia.
From Texel Require Import Chess.Types Chess.Position Chess.Fen Chess.Spec TextIO.MoveText.
Import ListNotations.
Local Open Scope N_scope.

Definition Nrange (n : nat) : list N := map N.of_nat (seq 0 n).

Lemma In_Nrange : forall n x, x < N.of_nat n -> In x (Nrange n).
Proof.
  intros n x H. unfold Nrange. apply in_map_iff. exists (N.to_nat x). split.
  - apply N2Nat.id.
  - apply in_seq. lia.
Qed.

Lemma Nrange_In : forall n x, In x (Nrange n) -> x < N.of_nat n.
Proof.
  intros n x H. unfold Nrange in H. apply in_map_iff in H. destruct H as [k [<- Hk]].
  apply in_seq in Hk. lia.
Qed.

(** the promotion piece of a move that the UCI form can carry *)
Definition uciPromoOkb (m : move) : bool :=
  (mpromote m =? EMPTY) ||
  ((sqY (mto m) =? 7) && ((mpromote m =? WQUEEN) || (mpromote m =? WROOK) || (mpromote m =? WBISHOP) || (mpromote m =? WKNIGHT))) ||
  ((sqY (mto m) =? 0) && ((mpromote m =? BQUEEN) || (mpromote m =? BROOK) || (mpromote m =? BBISHOP) || (mpromote m =? BKNIGHT))).

(** a move as a legal-shaped UCI move: squares on the board, promotion piece EMPTY or a
    queen/rook/bishop/knight of the colour whose last rank the target square is on *)
Definition uciWellFormed (m : move) : Prop :=
  mfrom m < 64 /\ mto m < 64 /\ uciPromoOkb m = true.

Definition allMoves : list move :=
  flat_map (fun f => flat_map (fun t => map (fun pr => mkMove f t pr) (Nrange 13)) (Nrange 64)) (Nrange 64).

Lemma In_allMoves : forall m, mfrom m < 64 -> mto m < 64 -> mpromote m < 13 -> In m allMoves.
Proof.
  intros [f t pr]; cbn [mfrom mto mpromote]; intros Hf Ht Hp. unfold allMoves.
  apply in_flat_map. exists f. split; [apply In_Nrange; exact Hf|].
  apply in_flat_map. exists t. split; [apply In_Nrange; exact Ht|].
  apply in_map. apply In_Nrange; exact Hp.
Qed.

Lemma uci_roundtrip_sweep :
  forallb (fun m => negb (uciPromoOkb m) || move_eqb (uciStringToMove (moveToUCIString m)) m) allMoves = true.
Proof. vm_compute. reflexivity. Qed.

Lemma uciPromoOkb_lt13 : forall m, uciPromoOkb m = true -> mpromote m < 13.
Proof.
  intros m H. unfold uciPromoOkb in H.
  repeat (apply orb_true_iff in H; destruct H as [H|H]);
    repeat (apply andb_true_iff in H; destruct H as [? H]);
    repeat (apply orb_true_iff in H; destruct H as [H|H]);
    apply N.eqb_eq in H; rewrite H; reflexivity.
Qed.

Theorem uci_roundtrip : forall m, uciWellFormed m -> uciStringToMove (moveToUCIString m) = m.
Proof.
  intros m [Hf [Ht Hp]].
  pose proof (proj1 (forallb_forall _ _) uci_roundtrip_sweep m
                (In_allMoves m Hf Ht (uciPromoOkb_lt13 m Hp))) as H.
  cbv beta in H. rewrite Hp in H. cbn [negb orb] in H. apply move_eqb_eq. exact H.
Qed.

(** the UCI form determines the move (on well-formed moves) *)
Corollary uci_injective : forall a b, uciWellFormed a -> uciWellFormed b ->
  moveToUCIString a = moveToUCIString b -> a = b.
Proof.
  intros a b Ha Hb E. rewrite <- (uci_roundtrip a Ha), <- (uci_roundtrip b Hb), E. reflexivity.
Qed.

(** what uciStringToMove accepts: the result is the empty move or a move on the board whose
    promotion piece fits the target rank (no out-of-range square is ever built) *)
Definition uciResultOkb (m : move) : bool :=
  (mfrom m <? 64) && (mto m <? 64) && uciPromoOkb m.

(** non-vacuity: e7e8 promoting to a white queen and a1h8 without promotion *)
Example uci_example_promotion :
  uciWellFormed (mkMove 52 60 WQUEEN) /\ moveToUCIString (mkMove 52 60 WQUEEN) = [101; 55; 101; 56; 113].
Proof. split; [repeat split|]; vm_compute; reflexivity. Qed.
