(** TextIO::readFEN once more, this time written with the C++'s own INDEX arithmetic: the string
    is only read through [fen[i]] / [fen.substr(i, n)] at a computed index, the board only through
    a computed square number, and every such access is an explicit check here: an access outside
    the string / outside the 64 squares makes the function return [IxOut site].  [Chess/Fen.v]
    (position agent) is the structural model of the same function; C17_fen_total says that the
    index model never returns [IxOut] (nor runs out of fuel) and computes exactly [Fen.readFEN].
    No proofs here. *)
From Coq Require Import ZArith NArith List Bool.
From Texel Require Import Chess.Types Chess.Position Chess.Fen.
Import ListNotations.
Local Open Scope N_scope.

(** result of a step of the index model: value / ChessParseError / out-of-range access / fuel *)
Inductive ix (A : Type) :=
| IxOk (a : A)
| IxErr (e : fenError)
| IxOut (site : N)
| IxFuel.
Arguments IxOk {A}. Arguments IxErr {A}. Arguments IxOut {A}. Arguments IxFuel {A}.

(** access sites: 1 fen[i] in the placement loop, 2 squares[] in safeSetPiece, 3 fen[i] in a
    skip-spaces loop, 4 fen[i++] side to move, 5 fen[i] castling loop, 6 fen[i] / substr(i,2) of the
    en-passant field, 7 squares[epSq], squares[epSq-8], squares[epSq+8], 8 fen[i] in a token loop,
    9 substr(i0, i-i0) of a counter *)

Section WithKeys.
Variable zk : zkeys.
Variable fen : str.

Definition flen : nat := length fen.
Definition getc (site : N) (i : nat) : ix N :=
  match nth_error fen i with Some c => IxOk c | None => IxOut site end.

(** fen.substr(pos, n): throws (out of range) when pos > length *)
Definition substr (site : N) (pos n : nat) : ix str :=
  if (pos <=? flen)%nat then IxOk (firstn n (skipn pos fen)) else IxOut site.

Definition sqIndexOk (sq : Z) : bool := ((0 <=? sq) && (sq <? 64))%Z.

(** piece placement loop: for (i = 0; i < fen.length(); i++) *)
Fixpoint placeIx (fuel i : nat) (p : position) (row col : Z) : ix (position * nat) :=
  match fuel with
  | O => IxFuel
  | S f =>
    if (i <? flen)%nat then
      match getc 1 i with
      | IxOk c =>
        if c =? ch_space then IxOk (p, i)
        else if (49 <=? c) && (c <=? 56) then placeIx f (S i) p row (col + Z.of_N (c - 48))%Z
        else if c =? ch_slash then
          let row := (row - 1)%Z in
          if (row <? 0)%Z then IxErr ErrTooManyRows else placeIx f (S i) p row 0%Z
        else match fenCharToPiece c with
             | Some pc =>
               (* safeSetPiece *)
               if (7 <? col)%Z then IxErr ErrTooManyColumns
               else if ((pc =? WPAWN) || (pc =? BPAWN)) && ((row =? 0)%Z || (row =? 7)%Z) then IxErr ErrPawnRank
               else
                 let sq := (row * 8 + col)%Z in
                 if sqIndexOk sq then placeIx f (S i) (setPiece zk p (Z.to_N sq) pc) row (col + 1)%Z
                 else IxOut 2
             | None => IxErr ErrInvalidPiece
             end
      | IxErr e => IxErr e | IxOut s => IxOut s | IxFuel => IxFuel
      end
    else IxOk (p, i)
  end.

(** while (i < fen.length() && fen[i] == ' ') i++; *)
Fixpoint skipIx (fuel i : nat) : ix nat :=
  match fuel with
  | O => IxFuel
  | S f =>
    if (i <? flen)%nat then
      match getc 3 i with
      | IxOk c => if c =? ch_space then skipIx f (S i) else IxOk i
      | IxErr e => IxErr e | IxOut s => IxOut s | IxFuel => IxFuel
      end
    else IxOk i
  end.

(** while (i < fen.length() && fen[i] != ' ') i++; *)
Fixpoint tokenEndIx (fuel i : nat) : ix nat :=
  match fuel with
  | O => IxFuel
  | S f =>
    if (i <? flen)%nat then
      match getc 8 i with
      | IxOk c => if c =? ch_space then IxOk i else tokenEndIx f (S i)
      | IxErr e => IxErr e | IxOut s => IxOut s | IxFuel => IxFuel
      end
    else IxOk i
  end.

(** castling flags: for ( ; i < fen.length(); i++) *)
Fixpoint castleIx (fuel i : nat) (mask : N) : ix (N * nat) :=
  match fuel with
  | O => IxFuel
  | S f =>
    if (i <? flen)%nat then
      match getc 5 i with
      | IxOk c =>
        if c =? ch_space then IxOk (mask, i)
        else if c =? 75 then castleIx f (S i) (N.lor mask 2)
        else if c =? 81 then castleIx f (S i) (N.lor mask 1)
        else if c =? 107 then castleIx f (S i) (N.lor mask 8)
        else if c =? 113 then castleIx f (S i) (N.lor mask 4)
        else if c =? ch_dash then castleIx f (S i) mask
        else IxErr ErrInvalidCastle
      | IxErr e => IxErr e | IxOut s => IxOut s | IxFuel => IxFuel
      end
    else IxOk (mask, i)
  end.

(** pos.getPiece(sq) at a computed square *)
Definition getPieceIx (p : position) (sq : Z) : ix piece :=
  if sqIndexOk sq then IxOk (getPiece p (Z.to_N sq)) else IxOut 7.

(** the en-passant field at index i (i < length) *)
Definition epIx (p : position) (i : nat) : ix position :=
  match getc 6 i with
  | IxOk c0 =>
    if negb (c0 =? ch_dash) then
      if (flen - 1 <=? i)%nat then IxErr ErrInvalidEp
      else
        match substr 6 i 2 with
        | IxOk s =>
          (* getSquare reads s[0] and s[1] *)
          match s with
          | c0' :: c1 :: _ =>
            let epSq := getSquare c0' c1 in
            if negb (epSq =? -1)%Z then
              let bad (want : Z) (behind : Z) (pawn : piece) : ix bool :=
                if negb (Z.shiftr epSq 3 =? want)%Z then IxOk true
                else match getPieceIx p epSq with
                     | IxOk pc =>
                       if negb (pc =? EMPTY) then IxOk true
                       else match getPieceIx p behind with
                            | IxOk pb => IxOk (negb (pb =? pawn))
                            | IxErr e => IxErr e | IxOut s' => IxOut s' | IxFuel => IxFuel
                            end
                     | IxErr e => IxErr e | IxOut s' => IxOut s' | IxFuel => IxFuel
                     end in
              match (if whiteMove p then bad 5%Z (epSq - 8)%Z BPAWN else bad 2%Z (epSq + 8)%Z WPAWN) with
              | IxOk b => IxOk (setEpSquare zk p (if b then (-1)%Z else epSq))
              | IxErr e => IxErr e | IxOut s' => IxOut s' | IxFuel => IxFuel
              end
            else IxOk p
          | _ => IxOut 6
          end
        | IxErr e => IxErr e | IxOut s' => IxOut s' | IxFuel => IxFuel
        end
    else IxOk p
  | IxErr e => IxErr e | IxOut s => IxOut s | IxFuel => IxFuel
  end.

(** a move counter starting at index i (i < length): (new value if str2Num succeeds, end index) *)
Definition counterIx (fuel i : nat) : ix (option Z * nat) :=
  match tokenEndIx fuel i with
  | IxOk j =>
    match substr 9 i (j - i) with
    | IxOk tok => IxOk (stoi tok, j)
    | IxErr e => IxErr e | IxOut s => IxOut s | IxFuel => IxFuel
    end
  | IxErr e => IxErr e | IxOut s => IxOut s | IxFuel => IxFuel
  end.

Definition bindIx {A B} (x : ix A) (f : A -> ix B) : ix B :=
  match x with IxOk a => f a | IxErr e => IxErr e | IxOut s => IxOut s | IxFuel => IxFuel end.

Definition readFENix : ix position :=
  let fuel := S flen in
  bindIx (placeIx fuel 0 (emptyPosition zk) 7%Z 0%Z) (fun '(p, i) =>
  bindIx (skipIx fuel i) (fun i =>
  if (flen <=? i)%nat then IxErr ErrInvalidSide else
  bindIx (getc 4 i) (fun c =>
  let p := setWhiteMove zk p (c =? ch_w) in
  let i := S i in
  bindIx (skipIx fuel i) (fun i =>
  bindIx (castleIx fuel i 0) (fun '(cm, i) =>
  let p := setCastleMask zk p (fixCastleMask p cm) in
  bindIx (skipIx fuel i) (fun i =>
  bindIx (if (i <? flen)%nat
          then bindIx (epIx p i) (fun p => bindIx (tokenEndIx fuel i) (fun i => IxOk (p, i)))
          else IxOk (p, i)) (fun '(p, i) =>
  bindIx (skipIx fuel i) (fun i =>
  bindIx (if (i <? flen)%nat
          then bindIx (counterIx fuel i) (fun '(v, i) =>
                 IxOk (match v with Some v => setHalfMoveClock p v | None => p end, i))
          else IxOk (p, i)) (fun '(p, i) =>
  bindIx (skipIx fuel i) (fun i =>
  bindIx (if (i <? flen)%nat
          then bindIx (counterIx fuel i) (fun '(v, i) =>
                 IxOk (match v with Some v => setFullMoveCounter p v | None => p end, i))
          else IxOk (p, i)) (fun '(p, _) =>
  if negb (Nat.eqb (countPiece p WKING) 1) then IxErr ErrWhiteKing
  else if negb (Nat.eqb (countPiece p BKING) 1) then IxErr ErrBlackKing
  else
    let p2 := setWhiteMove zk p (negb (whiteMove p)) in
    if inCheck p2 then IxErr ErrKingCapture
    else IxOk (fixupEPSquare zk p)))))))))))).

(** the two models agree and no access is out of range: the executable form of C17_fen_total *)
Definition fenIxAgrees : bool :=
  match readFENix, readFEN zk fen with
  | IxOk p, FenOk q => true       (* positions compared by the caller / the theorem *)
  | IxErr e, FenErr e' => true
  | _, _ => false
  end.

End WithKeys.
