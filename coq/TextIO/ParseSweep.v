(** What stringToMove's character scan makes of every string that moveToString can print:
    finite enumeration (side to move x piece letter x disambiguation x separator x target square
    x promotion letter) evaluated by [vm_compute] and lifted to universally quantified lemmas. *)
From Coq Require Import ZArith NArith List Bool Lia.
From Texel Require Import Chess.Types Chess.Position Chess.Fen TextIO.MoveText.
Import ListNotations.
Local Open Scope N_scope.

(* ---------- bounded quantifiers ---------- *)
Definition all8 (f : N -> bool) : bool := f 0 && f 1 && f 2 && f 3 && f 4 && f 5 && f 6 && f 7.
Lemma all8_spec : forall f, all8 f = true -> forall x, x < 8 -> f x = true.
Proof.
  intros f H x Hx. unfold all8 in H.
  repeat (apply andb_true_iff in H; destruct H as [H ?]).
  assert (x = 0 \/ x = 1 \/ x = 2 \/ x = 3 \/ x = 4 \/ x = 5 \/ x = 6 \/ x = 7) as C by lia.
  repeat (destruct C as [C|C]; [subst x; assumption|]). subst x; assumption.
Qed.

Definition allBool (f : bool -> bool) : bool := f true && f false.
Lemma allBool_spec : forall f, allBool f = true -> forall b, f b = true.
Proof. intros f H b. apply andb_true_iff in H. destruct H, b; assumption. Qed.

Definition allIn {A} (l : list A) (f : A -> bool) : bool := forallb f l.
Lemma allIn_spec : forall A (l : list A) f, allIn l f = true -> forall x, In x l -> f x = true.
Proof. intros A l f H. apply forallb_forall. exact H. Qed.

(* ---------- the shapes ---------- *)
(** letter ++ (disambiguation ++ separator) ++ target square ++ promotion letter:
    exactly the association of [moveBody] *)
Definition shapeStr (letter d sep : str) (x2 y2 : N) (prom : str) : str :=
  letter ++ (d ++ sep) ++ [fileChar x2; rankChar y2] ++ prom.

Definition pieceLetters : list N := [ch_K; ch_Q; ch_R; ch_B; ch_N].
Definition promLetters : list str := [[]; [ch_Q]; [ch_R]; [ch_B]; [ch_N]].
Definition seps : list str := [[]; [ch_x]; [ch_dash]].

(** the promotion piece that the scan reads from a promotion letter string *)
Definition promZ (wtm : bool) (s : str) : Z :=
  match s with c :: _ => charToPiece wtm c | [] => Z.of_N EMPTY end.

(** quantifier over the four kinds of source-square information: (string, fromX, fromY) *)
Definition allDis (f : str -> Z -> Z -> bool) : bool :=
  f [] (-1)%Z (-1)%Z &&
  all8 (fun x => f [fileChar x] (Z.of_N x) (-1)%Z) &&
  all8 (fun y => f [rankChar y] (-1)%Z (Z.of_N y)) &&
  all8 (fun x => all8 (fun y => f [fileChar x; rankChar y] (Z.of_N x) (Z.of_N y))).

Inductive disCase : str -> Z -> Z -> Prop :=
| DNone : disCase [] (-1)%Z (-1)%Z
| DFile : forall x, x < 8 -> disCase [fileChar x] (Z.of_N x) (-1)%Z
| DRank : forall y, y < 8 -> disCase [rankChar y] (-1)%Z (Z.of_N y)
| DBoth : forall x y, x < 8 -> y < 8 -> disCase [fileChar x; rankChar y] (Z.of_N x) (Z.of_N y).

Lemma allDis_spec : forall f, allDis f = true -> forall d fx fy, disCase d fx fy -> f d fx fy = true.
Proof.
  intros f H d fx fy C. unfold allDis in H.
  apply andb_true_iff in H. destruct H as [H HB].
  apply andb_true_iff in H. destruct H as [H HR].
  apply andb_true_iff in H. destruct H as [HN HF].
  destruct C.
  - exact HN.
  - exact (all8_spec _ HF x H).
  - exact (all8_spec _ HR y H).
  - pose proof (all8_spec _ HB x H) as H1. cbv beta in H1. exact (all8_spec _ H1 y H0).
Qed.

Definition infoEqb (a b : moveInfo) : bool :=
  (mi_piece a =? mi_piece b)%Z && (mi_fromX a =? mi_fromX b)%Z && (mi_fromY a =? mi_fromY b)%Z &&
  (mi_toX a =? mi_toX b)%Z && (mi_toY a =? mi_toY b)%Z && (mi_prom a =? mi_prom b)%Z.
Lemma infoEqb_eq : forall a b, infoEqb a b = true -> a = b.
Proof.
  intros [a1 a2 a3 a4 a5 a6] [b1 b2 b3 b4 b5 b6]; unfold infoEqb; cbn [mi_piece mi_fromX mi_fromY mi_toX mi_toY mi_prom].
  rewrite !andb_true_iff, !Z.eqb_eq. intros [[[[[-> ->] ->] ->] ->] ->]. reflexivity.
Qed.

Definition parsesTo (wtm : bool) (s : str) (info : moveInfo) (cap : bool) : bool :=
  match parseMoveInfo wtm s with
  | Some (i, c) => infoEqb i info && Bool.eqb c cap
  | None => false
  end.
Lemma parsesTo_eq : forall wtm s info cap, parsesTo wtm s info cap = true -> parseMoveInfo wtm s = Some (info, cap).
Proof.
  intros wtm s info cap H. unfold parsesTo in H. destruct (parseMoveInfo wtm s) as [[i c]|]; [|discriminate].
  apply andb_true_iff in H. destruct H as [H1 H2]. apply infoEqb_eq in H1. apply Bool.eqb_prop in H2. subst. reflexivity.
Qed.

(** the kernel must unfold the sweep constants before the bounded quantifiers (otherwise the
    conversion check evaluates the whole sweep a second time with the lazy machine) *)
Strategy 100 [all8 allBool allIn allDis parsesTo].

(* ---------- piece moves (K Q R B N), short and long form ---------- *)
Definition sweepPiece : bool :=
  allBool (fun wtm => allIn pieceLetters (fun L => allDis (fun d fx fy => allIn seps (fun sep =>
    all8 (fun x2 => all8 (fun y2 =>
      parsesTo wtm (shapeStr [L] d sep x2 y2 [])
               (mkInfo (charToPiece wtm L) fx fy (Z.of_N x2) (Z.of_N y2) (Z.of_N EMPTY))
               (strEqb sep [ch_x]))))))).

Lemma sweepPiece_ok : sweepPiece = true.
Proof. vm_compute. reflexivity. Qed.

Lemma parse_piece_shape : forall wtm L d fx fy sep x2 y2,
  In L pieceLetters -> disCase d fx fy -> In sep seps -> x2 < 8 -> y2 < 8 ->
  parseMoveInfo wtm (shapeStr [L] d sep x2 y2 []) =
  Some (mkInfo (charToPiece wtm L) fx fy (Z.of_N x2) (Z.of_N y2) (Z.of_N EMPTY), strEqb sep [ch_x]).
Proof.
  intros wtm L d fx fy sep x2 y2 HL Hd Hs Hx Hy.
  apply parsesTo_eq.
  exact (all8_spec _ (all8_spec _ (allIn_spec _ _ _ (allDis_spec _ (allIn_spec _ _ _
           (allBool_spec _ sweepPiece_ok wtm) L HL) d fx fy Hd) sep Hs) x2 Hx) y2 Hy).
Qed.

(* ---------- pawn moves, short and long form, with promotion letter ---------- *)
Definition pawnPieceZ (wtm : bool) (fx fy : Z) : Z :=
  if (0 <=? fx)%Z && (0 <=? fy)%Z then (-1)%Z else Z.of_N (if wtm then WPAWN else BPAWN).

Definition sweepPawn : bool :=
  allBool (fun wtm => allDis (fun d fx fy => allIn seps (fun sep => allIn promLetters (fun pr =>
    all8 (fun x2 => all8 (fun y2 =>
      parsesTo wtm (shapeStr [] d sep x2 y2 pr)
               (mkInfo (pawnPieceZ wtm fx fy) fx fy (Z.of_N x2) (Z.of_N y2) (promZ wtm pr))
               (strEqb sep [ch_x]))))))).

Lemma sweepPawn_ok : sweepPawn = true.
Proof. vm_compute. reflexivity. Qed.

Lemma parse_pawn_shape : forall wtm d fx fy sep pr x2 y2,
  disCase d fx fy -> In sep seps -> In pr promLetters -> x2 < 8 -> y2 < 8 ->
  parseMoveInfo wtm (shapeStr [] d sep x2 y2 pr) =
  Some (mkInfo (pawnPieceZ wtm fx fy) fx fy (Z.of_N x2) (Z.of_N y2) (promZ wtm pr), strEqb sep [ch_x]).
Proof.
  intros wtm d fx fy sep pr x2 y2 Hd Hs Hp Hx Hy.
  apply parsesTo_eq.
  exact (all8_spec _ (all8_spec _ (allIn_spec _ _ _ (allIn_spec _ _ _ (allDis_spec _
           (allBool_spec _ sweepPawn_ok wtm) d fx fy Hd) sep Hs) pr Hp) x2 Hx) y2 Hy).
Qed.

(* ---------- castling strings ---------- *)
Lemma parse_castle : forall wtm,
  parseMoveInfo wtm strOO = Some (castleInfo wtm 6%Z, false) /\
  parseMoveInfo wtm strOOO = Some (castleInfo wtm 2%Z, false).
Proof. intros [|]; split; vm_compute; reflexivity. Qed.

(* ---------- the check / mate suffix is invisible to the parser ---------- *)
Lemma stripMoveStr_app : forall a b, stripMoveStr (a ++ b) = stripMoveStr a ++ stripMoveStr b.
Proof. intros. unfold stripMoveStr. apply filter_app. Qed.

Lemma parse_suffix : forall wtm s gc mate mv,
  parseMoveInfo wtm (s ++ checkSuffix gc mate mv) = parseMoveInfo wtm s.
Proof.
  intros. unfold parseMoveInfo. rewrite stripMoveStr_app.
  assert (stripMoveStr (checkSuffix gc mate mv) = []) as ->.
  { unfold checkSuffix. destruct (gc mv); [destruct (mate mv)|]; reflexivity. }
  rewrite app_nil_r. reflexivity.
Qed.
