(** Executable model of the move-text functions of lib/texellib/textio.cpp:
    moveToUCIString / uciStringToMove, moveToString (short and long form) and stringToMove.
    Strings are lists of byte values ([Fen.str] = list N, 0..255), [char] is signed as in the
    C++ build ([Fen.scharVal]).  The functions are GENERIC in the legal move list: the C++
    generates it itself (pseudoLegalMoves + removeIllegal); here it is an argument, together with
    the two oracles that decide the '+' / '#' suffix.  [MoveTextP.v] instantiates them with the
    FIDE specification (Chess/Spec.v).  No proofs here. *)
From Coq Require Import ZArith NArith List Bool.
From Texel Require Import Chess.Types Chess.Position Chess.Fen.
Import ListNotations.
Local Open Scope N_scope.

(** Move() : from = to = a1, no promotion; Move::isEmpty looks at from and to only *)
Definition emptyMove : move := mkMove 0 0 EMPTY.
Definition isEmptyMove (m : move) : bool := (mfrom m =? 0) && (mto m =? 0).

(* ---------- characters ---------- *)
Definition ch_x : N := 120.     Definition ch_eq : N := 61.     Definition ch_hash : N := 35.
Definition ch_O : N := 79.      Definition ch_o : N := 111.
Definition ch_Q : N := 81.      Definition ch_R : N := 82.      Definition ch_B : N := 66.
Definition ch_N : N := 78.      Definition ch_K : N := 75.      Definition ch_P : N := 80.
Definition ch_q : N := 113.     Definition ch_r : N := 114.     Definition ch_n : N := 110.
Definition ch_k : N := 107.     Definition ch_p : N := 112.

Fixpoint strEqb (a b : str) : bool :=
  match a, b with
  | [], [] => true
  | x :: a', y :: b' => (x =? y) && strEqb a' b'
  | _, _ => false
  end.

(** TextIO::squareToString *)
Definition fileChar (x : N) : N := ch_a + x.
Definition rankChar (y : N) : N := ch_1 + y.
Definition squareToString (s : square) : str := [fileChar (sqX s); rankChar (sqY s)].

(* ---------- UCI move strings ---------- *)
Definition isQueen (pc : piece) : bool := (pc =? WQUEEN) || (pc =? BQUEEN).
Definition isRook (pc : piece) : bool := (pc =? WROOK) || (pc =? BROOK).
Definition isBishop (pc : piece) : bool := (pc =? WBISHOP) || (pc =? BBISHOP).
Definition isKnight (pc : piece) : bool := (pc =? WKNIGHT) || (pc =? BKNIGHT).
Definition isKing (pc : piece) : bool := (pc =? WKING) || (pc =? BKING).
Definition isPawn (pc : piece) : bool := (pc =? WPAWN) || (pc =? BPAWN).

(** the switch of moveToUCIString on the promotion piece *)
Definition uciPromoChar (pc : piece) : str :=
  if isQueen pc then [ch_q] else if isRook pc then [ch_r] else if isBishop pc then [ch_b]
  else if isKnight pc then [ch_n] else [].

Definition moveToUCIString (m : move) : str :=
  squareToString (mfrom m) ++ squareToString (mto m) ++ uciPromoChar (mpromote m).

(** the switch of uciStringToMove on the fifth character (' ' when the string has four) *)
Definition uciPromoPiece (white : bool) (c : N) : option piece :=
  if c =? ch_space then Some EMPTY
  else if c =? ch_q then Some (if white then WQUEEN else BQUEEN)
  else if c =? ch_r then Some (if white then WROOK else BROOK)
  else if c =? ch_b then Some (if white then WBISHOP else BBISHOP)
  else if c =? ch_n then Some (if white then WKNIGHT else BKNIGHT)
  else None.

Definition uciStringToMove (s : str) : move :=
  match s with
  | c0 :: c1 :: c2 :: c3 :: rest =>
    match rest with
    | _ :: _ :: _ => emptyMove                                   (* length > 5 *)
    | _ =>
      let fromSq := getSquare c0 c1 in
      let toSq := getSquare c2 c3 in
      if (fromSq =? -1)%Z || (toSq =? -1)%Z then emptyMove
      else
        let mk pc := mkMove (Z.to_N fromSq) (Z.to_N toSq) pc in
        match rest with
        | [] => mk EMPTY
        | prom :: _ =>
          let y := Z.shiftr toSq 3 in
          if (y =? 7)%Z then match uciPromoPiece true prom with Some pc => mk pc | None => emptyMove end
          else if (y =? 0)%Z then match uciPromoPiece false prom with Some pc => mk pc | None => emptyMove end
          else emptyMove
        end
    end
  | _ => emptyMove                                               (* length < 4 *)
  end.

(* ---------- moveToString ---------- *)
Definition ownPawn (p : position) : piece := if whiteMove p then WPAWN else BPAWN.

(** static isCapture(pos, move) *)
Definition isCapture (p : position) (m : move) : bool :=
  negb (getPiece p (mto m) =? EMPTY) ||
  ((getPiece p (mfrom m) =? ownPawn p) && (Z.of_N (mto m) =? epSquare p)%Z).

(** TextIO::pieceToChar *)
Definition pieceToChar (pc : piece) (handlePawn : bool) : str :=
  if isQueen pc then [ch_Q] else if isRook pc then [ch_R] else if isBishop pc then [ch_B]
  else if isKnight pc then [ch_N] else if isKing pc then [ch_K]
  else if isPawn pc then (if handlePawn then [ch_P] else []) else [].

(** the disambiguation loop stops at the first empty move of the list *)
Fixpoint takeNonEmpty (l : list move) : list move :=
  match l with
  | [] => []
  | m :: t => if isEmptyMove m then [] else m :: takeNonEmpty t
  end.

Definition sameTarget (p : position) (pc : piece) (to : square) (m : move) : bool :=
  (getPiece p (mfrom m) =? pc) && (mto m =? to).

(** file / rank / both, from the three counters of the loop *)
Definition disambiguation (p : position) (legal : list move) (pc : piece) (mv : move) : str :=
  let x1 := sqX (mfrom mv) in
  let y1 := sqY (mfrom mv) in
  let ms := filter (sameTarget p pc (mto mv)) (takeNonEmpty legal) in
  let numSameTarget := length ms in
  let numSameFile := length (filter (fun m => sqX (mfrom m) =? x1) ms) in
  let numSameRow := length (filter (fun m => sqY (mfrom m) =? y1) ms) in
  if (numSameTarget <? 2)%nat then []
  else if (numSameFile <? 2)%nat then [fileChar x1]
  else if (numSameRow <? 2)%nat then [rankChar y1]
  else [fileChar x1; rankChar y1].

Definition G1 : square := 6.    Definition C1 : square := 2.
Definition G8 : square := 62.   Definition C8 : square := 58.
Definition strOO : str := [ch_O; ch_dash; ch_O].
Definition strOOO : str := [ch_O; ch_dash; ch_O; ch_dash; ch_O].

(** the castling test at the start of moveToString (empty = not a castling move) *)
Definition castleString (p : position) (mv : move) : str :=
  if (mfrom mv =? E1) && (getPiece p E1 =? WKING) then
    (if mto mv =? G1 then strOO else if mto mv =? C1 then strOOO else [])
  else if (mfrom mv =? E8) && (getPiece p E8 =? BKING) then
    (if mto mv =? G8 then strOO else if mto mv =? C8 then strOOO else [])
  else [].

(** the [if (ret.length() == 0)] block *)
Definition moveBody (p : position) (legal : list move) (mv : move) (longForm : bool) : str :=
  let pc := getPiece p (mfrom mv) in
  let x1 := sqX (mfrom mv) in let y1 := sqY (mfrom mv) in
  let x2 := sqX (mto mv) in let y2 := sqY (mto mv) in
  pieceToChar pc false ++
  (if longForm then [fileChar x1; rankChar y1; if isCapture p mv then ch_x else ch_dash]
   else
     (if pc =? ownPawn p then (if isCapture p mv then [fileChar x1] else [])
      else disambiguation p legal pc mv) ++
     (if isCapture p mv then [ch_x] else [])) ++
  [fileChar x2; rankChar y2] ++
  (if negb (mpromote mv =? EMPTY) then pieceToChar (mpromote mv) false else []).

(** [gc m]: MoveGen::givesCheck; [mate m]: the side to move has no legal reply after m *)
Definition checkSuffix (gc mate : move -> bool) (mv : move) : str :=
  if gc mv then (if mate mv then [ch_hash] else [ch_plus]) else [].

Definition moveToString (p : position) (legal : list move) (gc mate : move -> bool)
                        (mv : move) (longForm : bool) : str :=
  (match castleString p mv with
   | [] => moveBody p legal mv longForm
   | s => s
   end) ++ checkSuffix gc mate mv.

(* ---------- stringToMove ---------- *)
(** struct MoveInfo: -1 = unspecified *)
Record moveInfo := mkInfo { mi_piece : Z; mi_fromX : Z; mi_fromY : Z; mi_toX : Z; mi_toY : Z; mi_prom : Z }.
Definition noInfo : moveInfo := mkInfo (-1) (-1) (-1) (-1) (-1) (-1).
Definition set_piece (i : moveInfo) (v : Z) := mkInfo v (mi_fromX i) (mi_fromY i) (mi_toX i) (mi_toY i) (mi_prom i).
Definition set_fromX (i : moveInfo) (v : Z) := mkInfo (mi_piece i) v (mi_fromY i) (mi_toX i) (mi_toY i) (mi_prom i).
Definition set_fromY (i : moveInfo) (v : Z) := mkInfo (mi_piece i) (mi_fromX i) v (mi_toX i) (mi_toY i) (mi_prom i).
Definition set_toX (i : moveInfo) (v : Z) := mkInfo (mi_piece i) (mi_fromX i) (mi_fromY i) v (mi_toY i) (mi_prom i).
Definition set_toY (i : moveInfo) (v : Z) := mkInfo (mi_piece i) (mi_fromX i) (mi_fromY i) (mi_toX i) v (mi_prom i).
Definition set_prom (i : moveInfo) (v : Z) := mkInfo (mi_piece i) (mi_fromX i) (mi_fromY i) (mi_toX i) (mi_toY i) v.

(** TextIO::charToPiece: lower-case 'b' is NOT a bishop *)
Definition charToPiece (white : bool) (c : N) : Z :=
  if (c =? ch_Q) || (c =? ch_q) then Z.of_N (if white then WQUEEN else BQUEEN)
  else if (c =? ch_R) || (c =? ch_r) then Z.of_N (if white then WROOK else BROOK)
  else if c =? ch_B then Z.of_N (if white then WBISHOP else BBISHOP)
  else if (c =? ch_N) || (c =? ch_n) then Z.of_N (if white then WKNIGHT else BKNIGHT)
  else if (c =? ch_K) || (c =? ch_k) then Z.of_N (if white then WKING else BKING)
  else if (c =? ch_P) || (c =? ch_p) then Z.of_N (if white then WPAWN else BPAWN)
  else (-1)%Z.

Record scanSt := mkSS { ss_info : moveInfo; ss_atToSq : bool; ss_capture : bool }.

(** one iteration of the character loop; [isFirst]: i == 0, [isLast]: i == length-1 *)
Definition scanChar (wtm isFirst isLast : bool) (st : scanSt) (c : N) : scanSt :=
  let info := ss_info st in
  let pc := charToPiece wtm c in
  if isFirst && (0 <=? pc)%Z then mkSS (set_piece info pc) (ss_atToSq st) (ss_capture st)   (* continue *)
  else
    let tmpX := (scharVal c - 97)%Z in
    let info :=
      if (0 <=? tmpX)%Z && (tmpX <? 8)%Z then
        (if ss_atToSq st || (0 <=? mi_fromX info)%Z then set_toX info tmpX else set_fromX info tmpX)
      else info in
    let tmpY := (scharVal c - 49)%Z in
    let info :=
      if (0 <=? tmpY)%Z && (tmpY <? 8)%Z then
        (if ss_atToSq st || (0 <=? mi_fromY info)%Z then set_toY info tmpY else set_fromY info tmpY)
      else info in
    let atToSq := if (c =? ch_x) || (c =? ch_dash) then true else ss_atToSq st in
    let capture := if c =? ch_x then true else ss_capture st in
    let info :=
      if isLast then
        (let pp := charToPiece wtm c in if (0 <=? pp)%Z then set_prom info pp else info)
      else info in
    mkSS info atToSq capture.

Fixpoint scanFrom (wtm isFirst : bool) (s : str) (st : scanSt) : scanSt :=
  match s with
  | [] => st
  | c :: t => scanFrom wtm false t (scanChar wtm isFirst (match t with [] => true | _ => false end) st c)
  end.

(** the four fix-ups after the loop *)
Definition defaulting (wtm : bool) (info : moveInfo) : moveInfo :=
  let info := if (0 <=? mi_fromX info)%Z && (mi_toX info <? 0)%Z
              then set_fromX (set_toX info (mi_fromX info)) (-1)%Z else info in
  let info := if (0 <=? mi_fromY info)%Z && (mi_toY info <? 0)%Z
              then set_fromY (set_toY info (mi_fromY info)) (-1)%Z else info in
  let info :=
    if (mi_piece info <? 0)%Z then
      (let haveAll := (0 <=? mi_fromX info)%Z && (0 <=? mi_fromY info)%Z &&
                      (0 <=? mi_toX info)%Z && (0 <=? mi_toY info)%Z in
       if negb haveAll then set_piece info (Z.of_N (if wtm then WPAWN else BPAWN)) else info)
    else info in
  if (mi_prom info <? 0)%Z then set_prom info (Z.of_N EMPTY) else info.

Definition isStripped (c : N) : bool := (c =? ch_eq) || (c =? ch_plus) || (c =? ch_hash).
Definition stripMoveStr (s : str) : str := filter (fun c => negb (isStripped c)) s.

Definition castleInfo (wtm : bool) (toX : Z) : moveInfo :=
  let r := if wtm then 0%Z else 7%Z in
  mkInfo (Z.of_N (if wtm then WKING else BKING)) 4%Z r toX r (Z.of_N EMPTY).

(** everything of stringToMove before the move list is generated:
    None = the null move string "--"; otherwise the MoveInfo and the capture flag *)
Definition parseMoveInfo (wtm : bool) (strMoveIn : str) : option (moveInfo * bool) :=
  let s := stripMoveStr strMoveIn in
  if strEqb s [ch_dash; ch_dash] then None
  else if strEqb s strOO || strEqb s [ch_0; ch_dash; ch_0] || strEqb s [ch_o; ch_dash; ch_o]
  then Some (castleInfo wtm 6%Z, false)
  else if strEqb s strOOO || strEqb s [ch_0; ch_dash; ch_0; ch_dash; ch_0]
          || strEqb s [ch_o; ch_dash; ch_o; ch_dash; ch_o]
  then Some (castleInfo wtm 2%Z, false)
  else
    let st := scanFrom wtm true s (mkSS noInfo false false) in
    Some (defaulting wtm (ss_info st), ss_capture st).

(** the body of the matching loop *)
Definition matchInfo (p : position) (info : moveInfo) (m : move) : bool :=
  let pc := Z.of_N (getPiece p (mfrom m)) in
  negb ((0 <=? mi_piece info)%Z && negb (mi_piece info =? pc)%Z) &&
  negb ((0 <=? mi_fromX info)%Z && negb (mi_fromX info =? Z.of_N (sqX (mfrom m)))%Z) &&
  negb ((0 <=? mi_fromY info)%Z && negb (mi_fromY info =? Z.of_N (sqY (mfrom m)))%Z) &&
  negb ((0 <=? mi_toX info)%Z && negb (mi_toX info =? Z.of_N (sqX (mto m)))%Z) &&
  negb ((0 <=? mi_toY info)%Z && negb (mi_toY info =? Z.of_N (sqY (mto m)))%Z) &&
  negb ((0 <=? mi_prom info)%Z && negb (mi_prom info =? Z.of_N (mpromote m))%Z).

(** the final loop: the only match that captures a piece standing on the target square *)
Fixpoint captureTieBreak (p : position) (ms : list move) (mv : move) : move :=
  match ms with
  | [] => mv
  | m :: t =>
    if negb (getPiece p (mto m) =? EMPTY) then
      (if isEmptyMove mv then captureTieBreak p t m else emptyMove)
    else captureTieBreak p t mv
  end.

Definition selectMove (p : position) (legal : list move) (info : moveInfo) (capture : bool) : move :=
  match filter (matchInfo p info) legal with
  | [] => emptyMove
  | [m] => m
  | ms => if negb capture then emptyMove else captureTieBreak p ms emptyMove
  end.

Definition stringToMove (p : position) (legal : list move) (s : str) : move :=
  match parseMoveInfo (whiteMove p) s with
  | None => emptyMove
  | Some (info, capture) => selectMove p legal info capture
  end.
