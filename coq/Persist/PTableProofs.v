(** C14 — proofs about the table models: sparse maps; the generation of an entry matters only
    through "is it the current one" (simulation [tt_rel]); on a cleared table all non-zero
    generations are indistinguishable, generation 0 is not (finding F5). *)
From Coq Require Import ZArith NArith List Bool Lia.
From Texel Require Import Persist.PTable Persist.Persist.
Import ListNotations.
Local Open Scope N_scope.

(** * sparse maps *)
Lemma sget_filter_other : forall {A} (d : A) m i j, i <> j ->
  sget d (filter (fun p => negb (fst p =? i)) m) j = sget d m j.
Proof.
  induction m as [|[k x] r IH]; intros i j Hij; simpl; auto.
  destruct (k =? i) eqn:E; simpl.
  - apply N.eqb_eq in E. subst k.
    destruct (i =? j) eqn:E2; [apply N.eqb_eq in E2; congruence|]. apply IH; auto.
  - destruct (k =? j); auto.
Qed.

Lemma sget_sset : forall {A} (d : A) m i x j,
  sget d (sset m i x) j = if i =? j then x else sget d m j.
Proof.
  intros. unfold sset. simpl. destruct (i =? j) eqn:E; auto.
  apply sget_filter_other. apply N.eqb_neq; auto.
Qed.

Lemma tt_get_set : forall t i e j, tt_get (tt_set t i e) j = if i =? j then e else tt_get t j.
Proof. intros. unfold tt_get, tt_set. simpl. apply sget_sset. Qed.

(** * the simulation relation: same geometry, entries equal up to "generation is current" *)
Definition tt_rel (t1 t2 : TT) : Prop :=
  tableSize t1 = tableSize t2 /\ usedSize t1 = usedSize t2 /\ contemptHash t1 = contemptHash t2 /\
  generation t1 < 16 /\ generation t2 < 16 /\
  forall i, norm_entry (generation t1) (tt_get t1 i) = norm_entry (generation t2) (tt_get t2 i).

Lemma norm_fields : forall g1 g2 a b, norm_entry g1 a = norm_entry g2 b ->
  e_key a = e_key b /\ e_move a = e_move b /\ e_score a = e_score b /\ e_depth a = e_depth b /\
  e_busy a = e_busy b /\ e_type a = e_type b /\ e_eval a = e_eval b /\ is_cur g1 a = is_cur g2 b.
Proof.
  intros g1 g2 a b H. unfold norm_entry in H. injection H as Hk Hm Hs Hd Hb Hg Ht He.
  repeat split; auto. unfold is_cur.
  destruct (e_gen a =? g1), (e_gen b =? g2); auto; discriminate.
Qed.

Lemma betterThan_rel : forall g1 g2 a1 b1 a2 b2,
  norm_entry g1 a1 = norm_entry g2 a2 -> norm_entry g1 b1 = norm_entry g2 b2 ->
  betterThan g1 a1 b1 = betterThan g2 a2 b2.
Proof.
  intros g1 g2 a1 b1 a2 b2 Ha Hb.
  apply norm_fields in Ha. apply norm_fields in Hb.
  destruct Ha as (_ & _ & _ & Hda & _ & Hta & _ & Hca).
  destruct Hb as (_ & _ & _ & Hdb & _ & Htb & _ & Hcb).
  unfold betterThan, prio. rewrite Hca, Hcb, Hda, Hdb, Hta, Htb. reflexivity.
Qed.

Lemma getIndex_rel : forall t1 t2 k, usedSize t1 = usedSize t2 -> getIndex t1 k = getIndex t2 k.
Proof. intros. unfold getIndex. rewrite H. reflexivity. Qed.

Definition acc_rel (g1 g2 : N) (a1 a2 : Entry * N * bool) : Prop :=
  norm_entry g1 (fst (fst a1)) = norm_entry g2 (fst (fst a2)) /\ snd (fst a1) = snd (fst a2) /\ snd a1 = snd a2.

Lemma pick_step_rel : forall t1 t2 key idx0 a1 a2 i, tt_rel t1 t2 ->
  acc_rel (generation t1) (generation t2) a1 a2 ->
  acc_rel (generation t1) (generation t2) (pick_step t1 key idx0 a1 i) (pick_step t2 key idx0 a2 i).
Proof.
  intros t1 t2 key idx0 [[e1 x1] f1] [[e2 x2] f2] i R (He & Hx & Hf). simpl in He, Hx, Hf. subst x2 f2.
  unfold pick_step. destruct f1.
  - split; [|split]; auto.
  - destruct R as (_ & _ & _ & _ & _ & Hget).
    pose proof (Hget (idx0 + i)) as Hg.
    pose proof (norm_fields _ _ _ _ Hg) as (Hk & _).
    rewrite <- Hk.
    destruct (e_key (tt_get t1 (idx0 + i)) =? key).
    + split; [|split]; auto.
    + rewrite (betterThan_rel _ _ _ _ _ _ He Hg).
      destruct (betterThan (generation t2) e2 (tt_get t2 (idx0 + i))); split; [|split|..]; auto.
Qed.

Lemma pick_slot_rel : forall t1 t2 key idx0, tt_rel t1 t2 ->
  norm_entry (generation t1) (fst (pick_slot t1 key idx0)) = norm_entry (generation t2) (fst (pick_slot t2 key idx0))
  /\ snd (pick_slot t1 key idx0) = snd (pick_slot t2 key idx0).
Proof.
  intros t1 t2 key idx0 R. unfold pick_slot.
  assert (A0 : acc_rel (generation t1) (generation t2)
                 (tt_get t1 idx0, idx0, e_key (tt_get t1 idx0) =? key)
                 (tt_get t2 idx0, idx0, e_key (tt_get t2 idx0) =? key)).
  { destruct R as (_ & _ & _ & _ & _ & Hget). pose proof (Hget idx0) as Hg.
    pose proof (norm_fields _ _ _ _ Hg) as (Hk & _).
    split; [|split]; cbn [fst snd]; auto. rewrite Hk. reflexivity. }
  cbn [fold_left].
  pose proof (pick_step_rel t1 t2 key idx0 _ _ 1 R A0) as A1.
  pose proof (pick_step_rel t1 t2 key idx0 _ _ 2 R A1) as A2.
  pose proof (pick_step_rel t1 t2 key idx0 _ _ 3 R A2) as A3.
  destruct (pick_step t1 key idx0 _ 3) as [[ea xa] fa].
  destruct (pick_step t2 key idx0 _ 3) as [[eb xb] fb].
  destruct A3 as (H1 & H2 & _). cbn [fst snd] in *. auto.
Qed.

Lemma tt_rel_set : forall t1 t2 i e1 e2, tt_rel t1 t2 ->
  norm_entry (generation t1) e1 = norm_entry (generation t2) e2 ->
  tt_rel (tt_set t1 i e1) (tt_set t2 i e2).
Proof.
  intros t1 t2 i e1 e2 (H1 & H2 & H3 & H4 & H5 & H6) He.
  unfold tt_rel. cbn [tt_set tableSize usedSize contemptHash generation].
  repeat split; auto.
  intro j. rewrite !tt_get_set. destruct (i =? j); auto.
Qed.

Lemma getScore_rel : forall g1 g2 a b ply, norm_entry g1 a = norm_entry g2 b -> getScore a ply = getScore b ply.
Proof.
  intros. apply norm_fields in H. destruct H as (_ & _ & Hs & _). unfold getScore. rewrite Hs. reflexivity.
Qed.

Lemma tt_insert_rel : forall t1 t2 key move score type ply depth ev busy, tt_rel t1 t2 ->
  tt_rel (tt_insert t1 key move score type ply depth ev busy)
         (tt_insert t2 key move score type ply depth ev busy).
Proof.
  intros t1 t2 key move score type ply depth ev busy R.
  unfold tt_insert.
  pose proof R as (Hts & Hus & Hch & Hg1 & Hg2 & Hget).
  rewrite Hch. rewrite (getIndex_rel t1 t2 _ Hus).
  set (k := N.lxor key (contemptHash t2)).
  set (i0 := getIndex t2 k).
  pose proof (pick_slot_rel t1 t2 k i0 R) as (Pe & Pi).
  destruct (pick_slot t1 k i0) as [ent1 idx1]. destruct (pick_slot t2 k i0) as [ent2 idx2].
  cbn [fst snd] in Pe, Pi. subst idx2.
  pose proof (norm_fields _ _ _ _ Pe) as (Hk & Hm & Hs & Hd & Hb & Ht & He & Hc).
  rewrite Hk, Hd, Ht, Hm. rewrite (getScore_rel _ _ _ _ ply Pe).
  match goal with |- tt_rel (if ?c then _ else _) _ => destruct c end; auto.
  apply tt_rel_set; auto.
  unfold norm_entry. cbn [e_key e_move e_score e_depth e_busy e_gen e_type e_eval].
  rewrite !(N.mod_small _ 16) by assumption. rewrite !N.eqb_refl. reflexivity.
Qed.

(** probe: same hit/miss, results equal up to "generation is current" *)
Definition norm_res (g : N) (r : option Entry) : option Entry := option_map (norm_entry g) r.

Lemma probe_loop_rel : forall is t1 t2 key idx0, tt_rel t1 t2 ->
  tt_rel (fst (probe_loop t1 key idx0 is)) (fst (probe_loop t2 key idx0 is)) /\
  norm_res (generation t1) (snd (probe_loop t1 key idx0 is)) =
  norm_res (generation t2) (snd (probe_loop t2 key idx0 is)).
Proof.
  induction is as [|i r IH]; intros t1 t2 key idx0 R; cbn [probe_loop].
  - split; auto.
  - pose proof R as (Hts & Hus & Hch & Hg1 & Hg2 & Hget).
    pose proof (Hget (idx0 + i)) as Hg.
    pose proof (norm_fields _ _ _ _ Hg) as (Hk & Hm & Hs & Hd & Hb & Ht & He & Hc).
    rewrite <- Hk.
    destruct (e_key (tt_get t1 (idx0 + i)) =? key); [|apply IH; auto].
    unfold is_cur in Hc. rewrite Hc.
    destruct (e_gen (tt_get t2 (idx0 + i)) =? generation t2) eqn:E.
    + cbn [fst snd]. split; auto. unfold norm_res, option_map. f_equal. exact Hg.
    + cbn [fst snd].
      assert (X : norm_entry (generation t1)
                    (mkEntry (e_key (tt_get t1 (idx0 + i))) (e_move (tt_get t1 (idx0 + i)))
                       (e_score (tt_get t1 (idx0 + i))) (e_depth (tt_get t1 (idx0 + i)))
                       (e_busy (tt_get t1 (idx0 + i))) (generation t1 mod 16)
                       (e_type (tt_get t1 (idx0 + i))) (e_eval (tt_get t1 (idx0 + i)))) =
                  norm_entry (generation t2)
                    (mkEntry (e_key (tt_get t2 (idx0 + i))) (e_move (tt_get t2 (idx0 + i)))
                       (e_score (tt_get t2 (idx0 + i))) (e_depth (tt_get t2 (idx0 + i)))
                       (e_busy (tt_get t2 (idx0 + i))) (generation t2 mod 16)
                       (e_type (tt_get t2 (idx0 + i))) (e_eval (tt_get t2 (idx0 + i))))).
      { unfold norm_entry. cbn [e_key e_move e_score e_depth e_busy e_gen e_type e_eval].
        rewrite !(N.mod_small _ 16) by assumption. rewrite !N.eqb_refl.
        rewrite Hk, Hm, Hs, Hd, Hb, Ht, He. reflexivity. }
      rewrite <- Hk in X. split.
      * apply tt_rel_set; [exact R | exact X].
      * unfold norm_res, option_map. f_equal. exact X.
Qed.

Lemma tt_probe_rel : forall t1 t2 key, tt_rel t1 t2 ->
  tt_rel (fst (tt_probe t1 key)) (fst (tt_probe t2 key)) /\
  norm_res (generation t1) (snd (tt_probe t1 key)) = norm_res (generation t2) (snd (tt_probe t2 key)).
Proof.
  intros t1 t2 key R. unfold tt_probe.
  pose proof R as (Hts & Hus & Hch & _).
  rewrite Hch. rewrite (getIndex_rel t1 t2 _ Hus). apply probe_loop_rel; auto.
Qed.

(** insert and probe never change geometry or the generation counter *)
Lemma tt_set_frame : forall t i e,
  generation (tt_set t i e) = generation t /\ tableSize (tt_set t i e) = tableSize t /\
  usedSize (tt_set t i e) = usedSize t /\ tbResident (tt_set t i e) = tbResident t /\
  notUsedCnt (tt_set t i e) = notUsedCnt t /\ contemptHash (tt_set t i e) = contemptHash t.
Proof. intros. unfold tt_set. cbn. repeat split. Qed.

Lemma tt_insert_frame : forall t key move score type ply depth ev busy,
  let t' := tt_insert t key move score type ply depth ev busy in
  generation t' = generation t /\ tableSize t' = tableSize t /\ usedSize t' = usedSize t /\
  tbResident t' = tbResident t /\ notUsedCnt t' = notUsedCnt t /\ contemptHash t' = contemptHash t.
Proof.
  intros. subst t'. unfold tt_insert.
  destruct (pick_slot _ _ _) as [ent idx].
  match goal with |- context [if ?c then tt_set _ _ _ else _] => destruct c end.
  - apply tt_set_frame.
  - repeat split.
Qed.

Lemma probe_loop_frame : forall is t key idx0,
  let t' := fst (probe_loop t key idx0 is) in
  generation t' = generation t /\ tableSize t' = tableSize t /\ usedSize t' = usedSize t /\
  tbResident t' = tbResident t /\ notUsedCnt t' = notUsedCnt t /\ contemptHash t' = contemptHash t.
Proof.
  induction is as [|i r IH]; intros; subst t'; cbn [probe_loop].
  - cbn. repeat split.
  - destruct (e_key (tt_get t (idx0 + i)) =? key); [|apply IH].
    destruct (e_gen (tt_get t (idx0 + i)) =? generation t); cbn [fst].
    + repeat split.
    + apply tt_set_frame.
Qed.

Lemma tt_probe_frame : forall t key,
  let t' := fst (tt_probe t key) in
  generation t' = generation t /\ tableSize t' = tableSize t /\ usedSize t' = usedSize t /\
  tbResident t' = tbResident t /\ notUsedCnt t' = notUsedCnt t /\ contemptHash t' = contemptHash t.
Proof. intros. subst t'. unfold tt_probe. apply probe_loop_frame. Qed.

(** * from equal views to the relation *)
Lemma norm_empty : forall g,
  norm_entry g empty_entry = mkEntry 0 0 0 0 false (if g =? 0 then 1 else 0) 0 0.
Proof. intro g. destruct g; reflexivity. Qed.

Lemma sget_norm_map : forall g1 g2 (m1 m2 : smap Entry),
  (g1 =? 0) = (g2 =? 0) ->
  map (fun p => (fst p, norm_entry g1 (snd p))) m1 = map (fun p => (fst p, norm_entry g2 (snd p))) m2 ->
  forall i, norm_entry g1 (sget empty_entry m1 i) = norm_entry g2 (sget empty_entry m2 i).
Proof.
  intros g1 g2 m1. induction m1 as [|[j x] r IH]; intros m2 H0 Hm i; destruct m2 as [|[j2 x2] r2]; try discriminate.
  - cbn [sget]. rewrite !norm_empty, H0. reflexivity.
  - cbn [map fst snd] in Hm.
    assert (Hj : j = j2) by congruence.
    assert (Hx : norm_entry g1 x = norm_entry g2 x2) by congruence.
    assert (Hr : map (fun p => (fst p, norm_entry g1 (snd p))) r = map (fun p => (fst p, norm_entry g2 (snd p))) r2) by congruence.
    subst j2. cbn [sget]. destruct (j =? i); auto.
Qed.

(** * a cleared table: all non-zero generations are indistinguishable *)
Definition cleared (g size : N) : TT := mkTT [] g size size None 0%Z 0.

Lemma cleared_rel : forall g1 g2 size, g1 < 16 -> g2 < 16 -> (g1 =? 0) = (g2 =? 0) ->
  tt_rel (cleared g1 size) (cleared g2 size).
Proof.
  intros. unfold tt_rel, cleared. cbn. repeat split; auto.
  intro i. unfold tt_get. cbn [slots sget generation]. rewrite !norm_empty, H1. reflexivity.
Qed.

(** table operations a search performs, and the (normalised) results of its probes *)
Inductive TOp := TIns (key move : N) (score : Z) (type : N) (ply depth ev : Z) (busy : bool) | TPrb (key : N).

Fixpoint tt_run (t : TT) (ops : list TOp) : TT * list (option Entry) :=
  match ops with
  | [] => (t, [])
  | TIns k m s ty p d e b :: r => tt_run (tt_insert t k m s ty p d e b) r
  | TPrb k :: r =>
      let '(t', res) := tt_probe t k in
      let '(t'', l) := tt_run t' r in (t'', norm_res (generation t) res :: l)
  end.

Lemma tt_run_rel : forall ops t1 t2, tt_rel t1 t2 ->
  tt_rel (fst (tt_run t1 ops)) (fst (tt_run t2 ops)) /\ snd (tt_run t1 ops) = snd (tt_run t2 ops).
Proof.
  induction ops as [|o r IH]; intros t1 t2 R; cbn [tt_run].
  - split; auto.
  - destruct o as [k m s ty p d e b|k].
    + apply IH. apply tt_insert_rel; auto.
    + pose proof (tt_probe_rel t1 t2 k R) as (R' & Hres).
      destruct (tt_probe t1 k) as [t1' r1]. destruct (tt_probe t2 k) as [t2' r2].
      cbn [fst snd] in R', Hres.
      pose proof (IH t1' t2' R') as (R'' & Hl).
      destruct (tt_run t1' r) as [a la]. destruct (tt_run t2' r) as [b lb].
      cbn [fst snd] in *. split; auto. rewrite Hres, Hl. reflexivity.
Qed.

(** the generation counter is invisible on a cleared table as long as it is not 0 ... *)
Theorem nonzero_generations_equivalent : forall g1 g2 size ops,
  0 < g1 < 16 -> 0 < g2 < 16 ->
  snd (tt_run (cleared g1 size) ops) = snd (tt_run (cleared g2 size) ops).
Proof.
  intros g1 g2 size ops [H1 H1'] [H2 H2'].
  apply tt_run_rel. apply cleared_rel; auto.
  destruct (g1 =? 0) eqn:E1; [apply N.eqb_eq in E1; lia|].
  destruct (g2 =? 0) eqn:E2; [apply N.eqb_eq in E2; lia|]. reflexivity.
Qed.

(** ... and generation 0 is visible (finding F5): with generation 0 an all-zero slot looks
    current, and the second insert into a bucket overwrites a live depth-0 entry although
    three slots are free. *)
Definition f5_ops : list TOp :=
  [TIns 1 (8 + 16 * 64) 10%Z 2 0%Z 0%Z 0%Z false;
   TIns 2 (9 + 17 * 64) 20%Z 2 0%Z 0%Z 0%Z false;
   TPrb 1].

Theorem generation_zero_observable :
  snd (tt_run (cleared 1 1048576) f5_ops) <> snd (tt_run (cleared 0 1048576) f5_ops).
Proof. vm_compute. discriminate. Qed.
