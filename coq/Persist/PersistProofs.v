(** C14 — proofs about the session model: invariants of [run], Clear Hash == fresh on the
    [relevant] view (fixed variants), exact characterisation of what differs for the other
    variants, determinism / frame lemmas. *)
From Coq Require Import ZArith NArith List Bool Lia.
From Texel Require Import Persist.PTable Persist.Persist Persist.PTableProofs.
Import ListNotations.
Local Open Scope N_scope.

(** * hash size arithmetic *)
Lemma hash_entries_round : forall mb, round_entries (hash_entries mb) = hash_entries mb.
Proof.
  intro mb. unfold round_entries, hash_entries.
  destruct (mb =? 0) eqn:E.
  - reflexivity.
  - apply N.eqb_neq in E.
    replace (mb * 1048576 / 16) with (mb * 65536).
    2:{ replace (mb * 1048576) with (mb * 65536 * 16) by lia. rewrite N.div_mul by lia. reflexivity. }
    destruct (mb * 65536 <? 4) eqn:E2; [apply N.ltb_lt in E2; lia|].
    replace (mb * 65536) with (mb * 16384 * 4) by lia. rewrite N.div_mul by lia. reflexivity.
Qed.

(** * invariant of every reachable state *)
Definition Inv (s : State) : Prop :=
  tableSize (st_tt s) = hash_entries (o_hashMB (st_opts s)) /\ generation (st_tt s) < 16.

(** the state of a process that has not searched yet *)
Definition Pristine (s : State) : Prop :=
  slots (st_tt s) = [] /\ generation (st_tt s) = 0 /\ usedSize (st_tt s) = tableSize (st_tt s) /\
  tbResident (st_tt s) = None /\ notUsedCnt (st_tt s) = 0%Z /\
  st_hist s = [] /\ st_evalCache s = [] /\ st_randomSeed s = 0.

Section Proofs.
  Variable V : Variant.
  Variable oracle : SearchCmd -> N -> View -> list Write.

  Lemma tt_resize_spec : forall b t mb,
    tableSize (tt_resize b t (hash_entries mb)) = hash_entries mb \/
    (tt_resize b t (hash_entries mb) = t /\ tableSize t = hash_entries mb).
  Proof.
    intros. unfold tt_resize. rewrite hash_entries_round.
    destruct (hash_entries mb =? tableSize t) eqn:E.
    - right. apply N.eqb_eq in E. auto.
    - left. reflexivity.
  Qed.

  Lemma tt_resize_gen : forall b t n, generation t < 16 -> generation (tt_resize b t n) < 16.
  Proof.
    intros. unfold tt_resize. destruct (round_entries n =? tableSize t); auto.
    unfold tt_clear. cbn. destruct b; lia.
  Qed.

  Lemma set_opt_hash_other : forall o k v, k <> OHash -> o_hashMB (set_opt o k v) = o_hashMB o.
  Proof. intros. destruct k; try reflexivity. congruence. Qed.

  Lemma set_option_Inv : forall s k v, Inv s -> Inv (set_option V s k v).
  Proof.
    intros s k v [H1 H2]. unfold Inv, set_option. cbn [st_tt st_opts].
    destruct k; cbn [set_opt o_hashMB]; try (split; assumption).
    split.
    - destruct (tt_resize_spec (clear_resets_generation V) (st_tt s) (Z.to_N v)) as [E|[E E2]]; rewrite ?E; auto.
    - apply tt_resize_gen; auto.
  Qed.

  Lemma set_option_Pristine : forall s k v, Pristine s -> Pristine (set_option V s k v).
  Proof.
    intros s k v P. unfold Pristine, set_option. cbn [st_tt st_hist st_evalCache st_randomSeed].
    destruct P as (P1 & P2 & P3 & P4 & P5 & P6 & P7 & P8).
    destruct k; try (repeat split; assumption).
    unfold tt_resize. destruct (_ =? _); [repeat split; assumption|].
    unfold tt_clear. cbn. destruct (clear_resets_generation V); repeat split; auto.
  Qed.

  Lemma fresh_Inv : Inv fresh.
  Proof. unfold Inv, fresh. cbn. split; [reflexivity | lia]. Qed.
  Lemma fresh_Pristine : Pristine fresh.
  Proof. unfold Pristine, fresh. cbn. repeat split. Qed.

  Lemma init_Inv_Pristine : forall os, Inv (init V os) /\ Pristine (init V os).
  Proof.
    intro os. unfold init.
    assert (G : forall s, Inv s -> Pristine s ->
                Inv (fold_left (fun s p => set_option V s (fst p) (snd p)) os s) /\
                Pristine (fold_left (fun s p => set_option V s (fst p) (snd p)) os s)).
    { induction os as [|[k v] r IH]; intros s I P; cbn [fold_left]; auto.
      apply IH; [apply set_option_Inv | apply set_option_Pristine]; auto. }
    apply G; [apply fresh_Inv | apply fresh_Pristine].
  Qed.

  (** writes keep geometry, generation and options *)
  Lemma apply_write_frame : forall w s x,
    let s' := apply_write w s x in
    generation (st_tt s') = generation (st_tt s) /\ tableSize (st_tt s') = tableSize (st_tt s) /\
    usedSize (st_tt s') = usedSize (st_tt s) /\ tbResident (st_tt s') = tbResident (st_tt s) /\
    notUsedCnt (st_tt s') = notUsedCnt (st_tt s) /\ contemptHash (st_tt s') = contemptHash (st_tt s) /\
    st_opts s' = st_opts s /\ st_randomSeed s' = st_randomSeed s /\ st_requiredTime s' = st_requiredTime s /\
    st_clearHistory s' = st_clearHistory s.
  Proof.
    intros w s x. destruct x; cbn [apply_write st_tt st_opts st_randomSeed st_requiredTime st_clearHistory];
      try (repeat split; reflexivity).
    - pose proof (tt_insert_frame (st_tt s) key move score type ply depth evalScore busy) as F.
      cbv zeta in F. destruct F as (A & B & C & D & E & F). repeat split; auto.
    - pose proof (tt_probe_frame (st_tt s) key) as F.
      cbv zeta in F. destruct F as (A & B & C & D & E & F). repeat split; auto.
  Qed.

  Lemma apply_writes_frame : forall w ws s,
    let s' := fold_left (apply_write w) ws s in
    generation (st_tt s') = generation (st_tt s) /\ tableSize (st_tt s') = tableSize (st_tt s) /\
    usedSize (st_tt s') = usedSize (st_tt s) /\ tbResident (st_tt s') = tbResident (st_tt s) /\
    notUsedCnt (st_tt s') = notUsedCnt (st_tt s) /\ contemptHash (st_tt s') = contemptHash (st_tt s) /\
    st_opts s' = st_opts s /\ st_randomSeed s' = st_randomSeed s /\ st_requiredTime s' = st_requiredTime s /\
    st_clearHistory s' = st_clearHistory s.
  Proof.
    intros w ws. induction ws as [|x r IH]; intro s; cbn [fold_left].
    - repeat split.
    - pose proof (IH (apply_write w s x)) as H. cbv zeta in H.
      pose proof (apply_write_frame w s x) as H2. cbv zeta in H2.
      destruct H as (A1 & A2 & A3 & A4 & A5 & A6 & A7 & A8 & A9 & A10).
      destruct H2 as (B1 & B2 & B3 & B4 & B5 & B6 & B7 & B8 & B9 & B10).
      repeat split; congruence.
  Qed.

  Lemma tt_updateTB_frame : forall ab t rt kind maxT genOK mta,
    tableSize (fst (tt_updateTB ab t rt kind maxT genOK mta)) = tableSize t /\
    generation (fst (tt_updateTB ab t rt kind maxT genOK mta)) = generation t.
  Proof.
    intros. unfold tt_updateTB.
    destruct kind as [cls|].
    - destruct (match tbResident t with Some c => c =? cls | None => false end); [cbn; auto|].
      destruct ((0 <=? maxT)%Z && (maxT <? rt)%Z); [cbn; auto|].
      destruct (tableSize t * 16 <? tbBytes + 2 * 1024 * 1024); [cbn; auto|].
      destruct genOK; [cbn; auto|]. destruct ab; cbn; auto.
    - destruct (tbResident t); [|cbn; auto].
      destruct (3 <? notUsedCnt t)%Z; cbn; auto.
  Qed.

  Lemma prologue_frame : forall s c genOK mta,
    let s' := search_prologue V s c genOK mta in
    tableSize (st_tt s') = tableSize (st_tt s) /\ st_opts s' = st_opts s /\
    (generation (st_tt s) < 16 -> generation (st_tt s') < 16).
  Proof.
    intros. subst s'. unfold search_prologue.
    set (t0 := tt_setWhiteContempt (st_tt s) _).
    set (t1 := if ages (st_opts s) c then tt_nextGeneration t0 else t0).
    assert (T1 : tableSize t1 = tableSize (st_tt s) /\ (generation (st_tt s) < 16 -> generation t1 < 16)).
    { subst t1 t0. destruct (ages _ _); cbn; split; auto. intros _. apply N.mod_lt. lia. }
    destruct T1 as [T1 G1].
    destruct (sc_limited c).
    - cbn [st_tt st_opts]. repeat split; auto.
    - pose proof (tt_updateTB_frame (tbabort_drops_tb V) t1 (st_requiredTime s) (sc_tbkind c) (sc_maxTime c) genOK mta) as [U1 U2].
      destruct (tt_updateTB _ t1 _ _ _ _ _) as [t2 rt]. cbn [fst] in U1, U2.
      cbn [st_tt st_opts]. repeat split; try congruence. intro. rewrite U2. auto.
  Qed.

  Lemma clear_hash_Inv : forall s, Inv s -> Inv (clear_hash V s).
  Proof.
    intros s [H1 H2]. unfold Inv, clear_hash, tt_clear. cbn. split; auto.
    destruct (clear_resets_generation V); auto. lia.
  Qed.

  Lemma step_Inv : forall s cmd, Inv s -> Inv (step V oracle s cmd).
  Proof.
    intros s cmd I. destruct cmd; cbn [step].
    - destruct I as [I1 I2].
      pose proof (prologue_frame s c genOK maxTAfter) as P. cbv zeta in P. destruct P as (P1 & P2 & P3).
      pose proof (apply_writes_frame (white_contempt (st_opts s) (sc_white c))
                    (oracle c nd (relevant V c s)) (search_prologue V s c genOK maxTAfter)) as W.
      cbv zeta in W. destruct W as (W1 & W2 & _ & _ & _ & _ & W7 & _).
      unfold Inv, set_limits, set_clearHistory. cbn [st_tt st_opts]. rewrite W1, W2, W7, P1, P2. split; auto.
    - apply set_option_Inv; auto.
    - apply clear_hash_Inv. exact I.
    - apply clear_hash_Inv; auto.
  Qed.

  Lemma run_Inv : forall h s, Inv s -> Inv (run V oracle h s).
  Proof.
    induction h as [|x r IH]; intros s I; cbn [run fold_left]; auto.
    apply IH. apply step_Inv; auto.
  Qed.

  Lemma reachable_Inv : forall os h, Inv (run V oracle h (init V os)).
  Proof. intros. apply run_Inv. apply init_Inv_Pristine. Qed.

  Lemma run_app : forall h1 h2 s, run V oracle (h1 ++ h2) s = run V oracle h2 (run V oracle h1 s).
  Proof. intros. unfold run. apply fold_left_app. Qed.

  (** * what Clear Hash leaves behind, field by field of the view *)
  Definition fixedV : bool :=
    clear_resets_generation V && (clear_clears_evalcache V || evalkey_has_contempt V) && go_resets_limits V.

  (** the view with the components that some variant gets wrong masked out *)
  Definition no_limits : Limits := mkLimits 0 0 0 0 0 false false [].
  Definition mask_view (v : View) : View :=
    mkView (v_slots v) false (v_tableSize v) (v_usedSize v) (v_tb v) (v_contemptHash v) (v_hist v) []
           (v_opts v) (v_seed v) (v_tbctl v) no_limits.

  Lemma clear_vs_pristine : forall s s0 c,
    Inv s -> Inv s0 -> Pristine s0 -> st_opts s = st_opts s0 ->
    weak (st_opts s0) = false -> sc_limited c = true ->
    mask_view (relevant V c (clear_hash V s)) = mask_view (relevant V c s0).
  Proof.
    intros s s0 c [I1 _] [J1 _] (P1 & P2 & P3 & P4 & P5 & P6 & P7 & P8) Ho Hw Hl.
    unfold mask_view, relevant. cbn [v_slots v_tableSize v_usedSize v_tb v_contemptHash v_hist v_opts v_seed v_tbctl v_limits].
    unfold clear_hash. cbn [st_tt st_hist st_opts st_randomSeed st_requiredTime st_evalCache].
    unfold tt_clear. cbn [slots tableSize usedSize tbResident notUsedCnt].
    rewrite P1, P3, P4, P6. rewrite Ho, Hw, Hl. cbn [map].
    rewrite I1, J1, Ho. reflexivity.
  Qed.

  Lemma clear_gen0 : forall s s0 c,
    Pristine s0 -> st_opts s = st_opts s0 -> clear_resets_generation V = true ->
    v_gen0 (relevant V c (clear_hash V s)) = v_gen0 (relevant V c s0).
  Proof.
    intros s s0 c (_ & P2 & _) Ho Hg.
    unfold relevant. cbn [v_gen0]. unfold search_generation, clear_hash. cbn [st_tt st_opts].
    unfold tt_clear. cbn [generation]. rewrite Hg, P2, Ho. reflexivity.
  Qed.

  Lemma clear_evalStale : forall s s0 c,
    Pristine s0 -> (clear_clears_evalcache V || evalkey_has_contempt V) = true ->
    v_evalStale (relevant V c (clear_hash V s)) = v_evalStale (relevant V c s0).
  Proof.
    intros s s0 c (_ & _ & _ & _ & _ & _ & P7 & _) Hf.
    unfold relevant. cbn [v_evalStale]. destruct (evalkey_has_contempt V); auto.
    rewrite orb_false_r in Hf. unfold clear_hash. cbn [st_evalCache]. rewrite Hf, P7. reflexivity.
  Qed.

  Lemma view_split : forall v1 v2,
    mask_view v1 = mask_view v2 -> v_gen0 v1 = v_gen0 v2 -> v_evalStale v1 = v_evalStale v2 ->
    v_limits v1 = v_limits v2 -> v1 = v2.
  Proof.
    intros [a1 b1 c1 d1 e1 f1 g1 h1 i1 j1 k1 l1] [a2 b2 c2 d2 e2 f2 g2 h2 i2 j2 k2 l2] Hm Hb Hh Hl.
    unfold mask_view in Hm. cbn in *. injection Hm as -> -> -> -> -> -> -> -> ->. subst. reflexivity.
  Qed.

  (** every go assigns all limit members: what an earlier go left is never read *)
  Lemma go_overwrites_limits : forall o1 o2 g, compute_limits true o1 g = compute_limits true o2 g.
  Proof. intros. unfold compute_limits. reflexivity. Qed.

  Lemma clear_limits : forall s s0 c, go_resets_limits V = true ->
    v_limits (relevant V c (clear_hash V s)) = v_limits (relevant V c s0).
  Proof. intros s s0 c H. unfold relevant. cbn [v_limits]. rewrite H. apply go_overwrites_limits. Qed.

  (** ** Clear Hash == fresh start, for every prior history (fixed variants) *)
  Theorem clear_equiv_fresh : forall os h c,
    fixedV = true ->
    st_opts (run V oracle h (init V os)) = st_opts (init V os) ->    (* option changes were reverted *)
    weak (st_opts (init V os)) = false ->                            (* full strength: randomSeed unread *)
    sc_limited c = true ->                                           (* depth- or node-limited probe *)
    relevant V c (run V oracle (h ++ [ClearHash]) (init V os)) = relevant V c (init V os).
  Proof.
    intros os h c Hf Ho Hw Hl.
    rewrite run_app. cbn [run fold_left step].
    destruct (init_Inv_Pristine os) as [I0 P0].
    pose proof (run_Inv h _ I0) as I1.
    unfold fixedV in Hf. apply andb_true_iff in Hf. destruct Hf as [Hf Hlim].
    apply andb_true_iff in Hf. destruct Hf as [Hg He].
    apply view_split.
    - apply clear_vs_pristine; auto.
    - apply clear_gen0; auto.
    - apply clear_evalStale; auto.
    - apply clear_limits; auto.
  Qed.

  (** ** for EVERY variant: only "generation 0" and stale eval-cache entries can differ *)
  Theorem clear_diff_characterised : forall os h c,
    st_opts (run V oracle h (init V os)) = st_opts (init V os) ->
    weak (st_opts (init V os)) = false ->
    sc_limited c = true ->
    mask_view (relevant V c (run V oracle (h ++ [ClearHash]) (init V os))) =
    mask_view (relevant V c (init V os)).
  Proof.
    intros os h c Ho Hw Hl.
    rewrite run_app. cbn [run fold_left step].
    destruct (init_Inv_Pristine os) as [I0 P0].
    apply clear_vs_pristine; auto. apply run_Inv; auto.
  Qed.

  (** * determinism and frame *)
  Variable output : SearchCmd -> N -> View -> list N.

  (** depth/node-limited single-thread searches do not depend on the wall clock *)
  Hypothesis clock_independent : forall c nd1 nd2 v, sc_limited c = true ->
    oracle c nd1 v = oracle c nd2 v /\ output c nd1 v = output c nd2 v.

  Theorem deterministic : forall s1 s2 c nd1 nd2,
    sc_limited c = true -> relevant V c s1 = relevant V c s2 ->
    search_result V oracle output s1 c nd1 = search_result V oracle output s2 c nd2.
  Proof.
    intros s1 s2 c nd1 nd2 Hl Hv. unfold search_result. rewrite Hv.
    destruct (clock_independent c nd1 nd2 (relevant V c s2) Hl) as [A B]. rewrite A, B. reflexivity.
  Qed.

  (** the components left out of [relevant] are overwritten before a limited search reads
      them: killers (kt.clear()), the table's contempt hash (setWhiteContempt), the
      clearHistory flag (only forwarded to helper threads; reset by doSearch), notUsedCnt
      (only read by updateTB, which limited searches skip) *)
  Definition with_irrelevant (s : State) (k : Killers) (ch : N) (b : bool) (nuc : Z) : State :=
    mkState (mkTT (slots (st_tt s)) (generation (st_tt s)) (tableSize (st_tt s)) (usedSize (st_tt s))
                  (tbResident (st_tt s)) nuc ch)
            (st_hist s) k b (st_evalCache s) (st_matCache s) (st_opts s) (st_randomSeed s) (st_requiredTime s) (st_limits s).

  Lemma relevant_irrelevant : forall s c k ch b nuc, sc_limited c = true ->
    relevant V c (with_irrelevant s k ch b nuc) = relevant V c s.
  Proof. intros. unfold relevant, with_irrelevant, search_generation. cbn. rewrite H. reflexivity. Qed.

  Lemma prologue_irrelevant : forall s c k ch b genOK mta, sc_limited c = true ->
    let p := search_prologue V (with_irrelevant s k ch b (notUsedCnt (st_tt s))) c genOK mta in
    let q := search_prologue V s c genOK mta in
    st_tt p = st_tt q /\ st_hist p = st_hist q /\ st_killers p = st_killers q /\
    st_evalCache p = st_evalCache q /\ st_matCache p = st_matCache q /\ st_opts p = st_opts q /\
    st_randomSeed p = st_randomSeed q /\ st_requiredTime p = st_requiredTime q.
  Proof.
    intros. subst p q. unfold search_prologue, with_irrelevant. cbn [st_tt st_opts st_requiredTime st_hist
      st_clearHistory st_evalCache st_matCache st_randomSeed]. rewrite H.
    unfold tt_setWhiteContempt. cbn [slots generation tableSize usedSize tbResident notUsedCnt].
    destruct (ages (st_opts s) c); cbn; repeat split.
  Qed.
End Proofs.

(** * refutations for the variants that are not fixed: concrete witnesses *)
Definition no_writes : SearchCmd -> N -> View -> list Write := fun _ _ _ => [].
Definition probe_cmd : SearchCmd := mkSearchCmd 1 true true false None (-1)%Z (mkGo 9 0 0 0 None false false []).
Definition prior_cmd : SearchCmd := mkSearchCmd 2 true true false None (-1)%Z (mkGo 0 0 100 0 None false false []).

(** F5: fifteen prior searches; the next search runs with generation 0 *)
Definition f5_history : list Cmd := repeat (Search prior_cmd 0 true 0%Z) 15.

Lemma f5_witness :
  st_opts (run current_code no_writes f5_history (init current_code [])) = st_opts (init current_code []) /\
  weak (st_opts (init current_code [])) = false /\ sc_limited probe_cmd = true /\
  v_gen0 (relevant current_code probe_cmd (run current_code no_writes (f5_history ++ [ClearHash]) (init current_code []))) = true /\
  v_gen0 (relevant current_code probe_cmd (init current_code [])) = false.
Proof. vm_compute. repeat split. Qed.

(** F3: a search under another contempt leaves eval-cache entries that Clear Hash keeps *)
Definition gen_fixed_only : Variant := mkVariant true false false false true.
Definition one_eval_write : SearchCmd -> N -> View -> list Write := fun _ _ _ => [WEval 5 123].
Definition f3_history : list Cmd :=
  [SetOption OContempt 30%Z; Search prior_cmd 0 true 0%Z; SetOption OContempt 0%Z].

Lemma f3_witness :
  st_opts (run gen_fixed_only one_eval_write f3_history (init gen_fixed_only [])) = st_opts (init gen_fixed_only []) /\
  weak (st_opts (init gen_fixed_only [])) = false /\ sc_limited probe_cmd = true /\
  v_evalStale (relevant gen_fixed_only probe_cmd (run gen_fixed_only one_eval_write (f3_history ++ [ClearHash]) (init gen_fixed_only [])))
    = [(5, (123, 30%Z))] /\
  v_evalStale (relevant gen_fixed_only probe_cmd (init gen_fixed_only [])) = [].
Proof. vm_compute. repeat split. Qed.

(** without a contempt change (here: contempt constantly 0, white to move) the same writes are
    transparent: the cached value is what the search would compute again *)
Lemma f3_same_contempt_transparent :
  v_evalStale (relevant gen_fixed_only probe_cmd
     (run gen_fixed_only one_eval_write [Search prior_cmd 0 true 0%Z; ClearHash] (init gen_fixed_only []))) = [].
Proof. vm_compute. reflexivity. Qed.

(** a variant in which computeTimeLimit no longer assigns maxNodes on every go: the node limit of an
    earlier `go nodes 100` is still in force for a later `go depth 9`, also after Clear Hash *)
Definition limits_not_reset : Variant := mkVariant true true false false false.

Lemma limits_witness :
  st_opts (run limits_not_reset no_writes [Search prior_cmd 0 true 0%Z] (init limits_not_reset [])) = st_opts (init limits_not_reset []) /\
  weak (st_opts (init limits_not_reset [])) = false /\ sc_limited probe_cmd = true /\
  l_maxNodes (v_limits (relevant limits_not_reset probe_cmd
     (run limits_not_reset no_writes ([Search prior_cmd 0 true 0%Z] ++ [ClearHash]) (init limits_not_reset [])))) = 100%Z /\
  l_maxNodes (v_limits (relevant limits_not_reset probe_cmd (init limits_not_reset []))) = (-1)%Z.
Proof. vm_compute. repeat split. Qed.
