(** C14 — soundness of the [relevant] view for the transposition table (equal views give the
    same probe results for every sequence of table operations), and concrete examples showing
    that the hypotheses of the main theorems are satisfiable on non-trivial sessions. *)
From Coq Require Import ZArith NArith List Bool Lia.
From Texel Require Import Persist.PTable Persist.Persist Persist.PTableProofs Persist.PersistProofs.
Import ListNotations.
Local Open Scope N_scope.

(** equal views => the tables the two searches start from (after startThread's
    setWhiteContempt / nextGeneration) are related by [tt_rel] *)
Theorem view_sound_tt : forall V s1 s2 c genOK mta,
  sc_limited c = true -> Inv s1 -> Inv s2 ->
  relevant V c s1 = relevant V c s2 ->
  tt_rel (st_tt (search_prologue V s1 c genOK mta)) (st_tt (search_prologue V s2 c genOK mta)).
Proof.
  intros V s1 s2 c genOK mta Hl [_ G1] [_ G2] Hv.
  unfold relevant in Hv.
  injection Hv as Hslots Hg0 Hts Hus Htb Hch _ _ Hopts _ _ _.
  unfold search_prologue. rewrite Hl. cbn [st_tt].
  unfold search_generation in Hslots, Hg0.
  unfold tt_rel.
  destruct (ages (st_opts s1) c) eqn:A1; rewrite <- Hopts, A1 in *;
    cbn [tt_nextGeneration tt_setWhiteContempt tableSize usedSize contemptHash generation];
    (repeat split; auto; try (apply N.mod_lt; lia));
    intro i; unfold tt_get; cbn [slots]; apply sget_norm_map; auto.
Qed.

(** hence: the probe results of ANY sequence of inserts/probes agree (up to the generation
    bits, which the search never reads back) *)
Theorem view_sound_probes : forall V s1 s2 c genOK mta ops,
  sc_limited c = true -> Inv s1 -> Inv s2 ->
  relevant V c s1 = relevant V c s2 ->
  snd (tt_run (st_tt (search_prologue V s1 c genOK mta)) ops) =
  snd (tt_run (st_tt (search_prologue V s2 c genOK mta)) ops).
Proof. intros. apply tt_run_rel. eapply view_sound_tt; eauto. Qed.

(** * non-vacuity *)
Definition ex_oracle : SearchCmd -> N -> View -> list Write := fun c nd v =>
  [WInsert (1 + sc_text c) (8 + 16 * 64) 10%Z 2 0%Z 3%Z 5%Z false;
   WInsert 2 (9 + 17 * 64) 20%Z 1 1%Z 4%Z (-7)%Z false;
   WProbe 2; WHistSuccess 3 20 4%Z; WHistFail 9 41 2%Z; WKiller 2 77; WEval 5 123; WMat 9 4].

Definition ex_opts : list (Opt * Z) := [(OHash, 1%Z); (OContempt, 25%Z); (OOther 7, 3%Z)].
Definition ex_cmd (txt : N) (white limited : bool) : SearchCmd :=
  mkSearchCmd txt white limited false None 50%Z (if limited then mkGo 0 0 (Z.of_N txt * 100) 0 None false false [7] else mkGo 0 0 0 50 None false false []).
Definition ex_history : list Cmd :=
  [Search (ex_cmd 10 false true) 0 true 0%Z;
   SetOption OContempt (-40)%Z;
   Search (ex_cmd 11 true false) 5 true 0%Z;
   UciNewGame 777;
   SetOption OHash 4%Z;
   Search (mkSearchCmd 12 true false true (Some 3) (-1)%Z (mkGo 0 0 0 0 None true false [])) 9 true 0%Z;     (* go infinite on a KQK-like root *)
   SetOption OAnalyseMode 1%Z;
   Search (ex_cmd 13 false true) 0 true 0%Z;
   SetOption OAnalyseMode 0%Z;
   SetOption OHash 1%Z;
   Search (ex_cmd 14 true true) 0 true 0%Z;
   SetOption OContempt 25%Z].

(** the hypotheses of [clear_equiv_fresh] hold for this session, and the state before
    Clear Hash is dirty in every component *)
Example ex_hypotheses :
  let s := run fixed_code ex_oracle ex_history (init fixed_code ex_opts) in
  st_opts s = st_opts (init fixed_code ex_opts) /\ weak (st_opts (init fixed_code ex_opts)) = false /\
  slots (st_tt s) <> [] /\ generation (st_tt s) = 1 /\ st_hist s <> [] /\ st_killers s <> [] /\
  st_evalCache s <> [] /\ st_randomSeed s = 777 /\
  relevant fixed_code (ex_cmd 1 true true) s <> relevant fixed_code (ex_cmd 1 true true) (init fixed_code ex_opts).
Proof. vm_compute. repeat split; discriminate. Qed.

Example ex_conclusion :
  relevant fixed_code (ex_cmd 1 true true) (run fixed_code ex_oracle (ex_history ++ [ClearHash]) (init fixed_code ex_opts))
  = relevant fixed_code (ex_cmd 1 true true) (init fixed_code ex_opts).
Proof. apply clear_equiv_fresh; vm_compute; reflexivity. Qed.

(** the on-demand tablebase becomes resident in the session above and Clear Hash drops it *)
Example ex_tb_resident :
  tbResident (st_tt (run fixed_code ex_oracle (firstn 6 ex_history) (init fixed_code ex_opts))) = None /\
  tbResident (st_tt (run fixed_code ex_oracle
     [SetOption OHash 16%Z; Search (mkSearchCmd 12 true false true (Some 3) (-1)%Z (mkGo 0 0 0 0 None true false [])) 9 true 0%Z] fresh)) = Some 3 /\
  tbResident (st_tt (run fixed_code ex_oracle
     [SetOption OHash 16%Z; Search (mkSearchCmd 12 true false true (Some 3) (-1)%Z (mkGo 0 0 0 0 None true false [])) 9 true 0%Z; ClearHash] fresh)) = None.
Proof. vm_compute. repeat split. Qed.

(** [view_sound_probes] is applicable to a cleared and a pristine state *)
Example ex_view_sound :
  let a := run fixed_code ex_oracle (ex_history ++ [ClearHash]) (init fixed_code ex_opts) in
  let b := init fixed_code ex_opts in
  snd (tt_run (st_tt (search_prologue fixed_code a (ex_cmd 1 true true) true 0%Z)) f5_ops) =
  snd (tt_run (st_tt (search_prologue fixed_code b (ex_cmd 1 true true) true 0%Z)) f5_ops) /\
  snd (tt_run (st_tt (search_prologue fixed_code b (ex_cmd 1 true true) true 0%Z)) f5_ops) <> [None].
Proof. vm_compute. split; [reflexivity | discriminate]. Qed.
