(** C14 — the tables that outlive a search (small abstract models, executable).

    - [TT]: lib/texellib/transpositionTable.{hpp,cpp}: [reSize], [setUsedSize], [clear],
      [setWhiteContempt], [getIndex], [TTEntry::betterThan], [insert], [probe],
      [nextGeneration], [updateTB] (control part only).  The table is a sparse map from slot
      index to entry; an absent slot is the all-zero slot.  Entries keep the decoded bit fields.
    - [Hist]: lib/texellib/history.{hpp,cpp}: [init], [reScale], [addSuccess], [addFail].
    - [Killers]: lib/texellib/killerTable.{hpp,cpp}: [clear], [addKiller].
    - eval cache: lib/texellib/evaluate.{hpp,cpp}: slot -> raw data word (+ a ghost tag, see
      Persist.v).

    Everything is written with the control structure of the C++ so that the op-sequence
    correspondence (harness/persist_harness.cpp vs drivers/persist_driver.ml) localises a
    disagreement.  This file contains no proofs. *)
From Coq Require Import ZArith NArith List Bool Lia.
Import ListNotations.
Local Open Scope N_scope.

(** * Code variants: the booleans that distinguish the current code from the proposed fixes.
    The check decides by API-level correspondence which variant /repo matches. *)
Record Variant := mkVariant {
  clear_resets_generation : bool;   (* TranspositionTable::clear() sets generation = 0 *)
  clear_clears_evalcache  : bool;   (* the Clear Hash listener empties EvalHashTables::evalHash *)
  evalkey_has_contempt    : bool;   (* Evaluate::evalPos mixes whiteContempt into the cache key *)
  tbabort_drops_tb        : bool;   (* updateTB uninstalls a partially generated tablebase (fix of F4) *)
  go_resets_limits        : bool    (* EngineControl::computeTimeLimit assigns EVERY limit member on every go *)
}.

Definition current_code : Variant := mkVariant false false false false true.
Definition fixed_code   : Variant := mkVariant true true false false true.

(** * Sparse maps N -> A with a default (absent = default) *)
Section SMap.
  Context {A : Type}.
  Definition smap := list (N * A).
  Fixpoint sget (d : A) (m : smap) (i : N) : A :=
    match m with
    | [] => d
    | (j, x) :: r => if j =? i then x else sget d r i
    end.
  Definition sset (m : smap) (i : N) (x : A) : smap :=
    (i, x) :: filter (fun p => negb (fst p =? i)) m.
End SMap.
Arguments smap : clear implicits.

(** * Transposition table *)
Record Entry := mkEntry {
  e_key : N;      (* 64 bits *)
  e_move : N;     (* 16 bits: from + (to<<6) + (promote<<12) *)
  e_score : N;    (* 16 bits raw (two's complement) *)
  e_depth : N;    (* 9 bits *)
  e_busy : bool;
  e_gen : N;      (* 4 bits *)
  e_type : N;     (* 2 bits: 0 empty, 1 exact, 2 GE, 3 LE *)
  e_eval : N      (* 16 bits raw *)
}.

Definition empty_entry : Entry := mkEntry 0 0 0 0 false 0 0 0.

Definition entry_eqb (a b : Entry) : bool :=
  (e_key a =? e_key b) && (e_move a =? e_move b) && (e_score a =? e_score b) &&
  (e_depth a =? e_depth b) && Bool.eqb (e_busy a) (e_busy b) && (e_gen a =? e_gen b) &&
  (e_type a =? e_type b) && (e_eval a =? e_eval b).

Record TT := mkTT {
  slots : smap Entry;
  generation : N;          (* U8, always < 16 *)
  tableSize : N;
  usedSize : N;
  tbResident : option N;   (* material class of the resident on-demand tablebase (tbGen) *)
  notUsedCnt : Z;
  contemptHash : N
}.

Definition two64 : N := 18446744073709551616.
Definition mask64 (x : N) : N := x mod two64.

Definition tt_get (t : TT) (i : N) : Entry := sget empty_entry (slots t) i.
Definition tt_set (t : TT) (i : N) (e : Entry) : TT :=
  mkTT (sset (slots t) i e) (generation t) (tableSize t) (usedSize t) (tbResident t)
       (notUsedCnt t) (contemptHash t).

(** [setUsedSize]: topBits < 256, shift, mask *)
Fixpoint us_loop (fuel : nat) (top shift : N) : N * N :=
  match fuel with
  | O => (top, shift)
  | S f => if 256 <=? top then us_loop f (top / 2) (shift + 1) else (top, shift)
  end.
Definition us_fuel : nat := 64.
Definition usedSizeTopBits (s : N) : N := fst (us_loop us_fuel s 0).
Definition usedSizeShift (s : N) : N := snd (us_loop us_fuel s 0).
Definition usedSizeMask (s : N) : N := ((2 ^ usedSizeShift s - 1) / 4) * 4.

(** [getIndex] *)
Definition getIndex (t : TT) (key : N) : N :=
  let r := N.shiftr key 48 in
  let r := r * usedSizeTopBits (usedSize t) in
  let r := N.shiftr r 16 in
  let r := N.shiftl r (usedSizeShift (usedSize t)) in
  N.lor r (N.land key (usedSizeMask (usedSize t))).

(** [clear] (the memset and the bookkeeping; [reset_gen] is the proposed fix) *)
Definition tt_clear (reset_gen : bool) (t : TT) : TT :=
  mkTT [] (if reset_gen then 0 else generation t) (tableSize t) (tableSize t) None 0%Z
       (contemptHash t).

(** [reSize]: numEntries < 4 -> 4; rounded down to a multiple of 4; unchanged size = no-op *)
Definition round_entries (n : N) : N := let n := if n <? 4 then 4 else n in (n / 4) * 4.
Definition tt_resize (reset_gen : bool) (t : TT) (n : N) : TT :=
  let n := round_entries n in
  if n =? tableSize t then t
  else tt_clear reset_gen (mkTT (slots t) 0 n (usedSize t) (tbResident t) (notUsedCnt t) (contemptHash t)).

Definition tt_nextGeneration (t : TT) : TT :=
  mkTT (slots t) ((generation t + 1) mod 16) (tableSize t) (usedSize t) (tbResident t)
       (notUsedCnt t) (contemptHash t).

Definition contempt_mult : N := 11400714819300000071.   (* 0x9E3779B97DE88147 *)
Definition contempt_hash (c : Z) : N :=
  if (0 <? c)%Z then mask64 (contempt_mult * Z.to_N c)
  else if (c <? 0)%Z then two64 - 1 - mask64 (contempt_mult * Z.to_N (- c))
  else 0.
Definition tt_setWhiteContempt (t : TT) (c : Z) : TT :=
  mkTT (slots t) (generation t) (tableSize t) (usedSize t) (tbResident t) (notUsedCnt t)
       (contempt_hash c).

(** scores: 16-bit two's complement, mate scores shifted by the ply *)
Definition sext16 (x : N) : Z := let x := Z.of_N (x mod 65536) in if (x <? 32768)%Z then x else (x - 65536)%Z.
Definition trunc16 (z : Z) : N := Z.to_N (z mod 65536).
Definition MATE0 : Z := 32000.
Definition isWinScore (s : Z) : bool := (MATE0 / 2 <? s)%Z.
Definition isLoseScore (s : Z) : bool := (s <? - (MATE0 / 2))%Z.
Definition getScore (e : Entry) (ply : Z) : Z :=
  let sc := sext16 (e_score e) in
  if isWinScore sc then (sc - ply)%Z else if isLoseScore sc then (sc + ply)%Z else sc.
Definition encScore (score ply : Z) : N :=
  trunc16 (if isWinScore score then (score + ply)%Z else if isLoseScore score then (score - ply)%Z else score).

(** [TTEntry::betterThan] — the replacement test.  The generation of an entry is only ever
    compared with the current generation. *)
Definition is_cur (g : N) (e : Entry) : bool := e_gen e =? g.
Definition prio (e : Entry) : N := e_depth e + (if e_type e =? 1 then 3 else 0).
Definition betterThan (g : N) (a b : Entry) : bool :=
  if negb (Bool.eqb (is_cur g a) (is_cur g b)) then is_cur g a
  else if negb (prio a =? prio b) then prio b <? prio a
  else false.

(** slot selection loop of [insert]: returns (entry, index) *)
Definition pick_step (t : TT) (key idx0 : N) (acc : Entry * N * bool) (i : N) : Entry * N * bool :=
  let '(ent, idx, found) := acc in
  if found then acc
  else
    let tmp := tt_get t (idx0 + i) in
    if e_key tmp =? key then (tmp, idx0 + i, true)
    else if betterThan (generation t) ent tmp then (tmp, idx0 + i, false)
    else acc.
Definition pick_slot (t : TT) (key idx0 : N) : Entry * N :=
  let tmp0 := tt_get t idx0 in      (* i = 0: first candidate *)
  let '(ent, idx, _) := fold_left (pick_step t key idx0) [1; 2; 3] (tmp0, idx0, e_key tmp0 =? key) in
  (ent, idx).

Definition to_depth (d : Z) : N := Z.to_N (Z.max 0 d).

Definition tt_insert (t : TT) (key move : N) (score : Z) (type : N) (ply depth evalScore : Z)
           (busy : bool) : TT :=
  let key := N.lxor key (contemptHash t) in
  let depth := to_depth depth in
  let idx0 := getIndex t key in
  let '(ent, idx) := pick_slot t key idx0 in
  let doStore :=
    if busy then true
    else if (e_key ent =? key) && (depth <? e_depth ent) && (e_type ent =? type) then
      if type =? 1 then false
      else if (type =? 2) && (score <=? getScore ent ply)%Z then false
      else if (type =? 3) && (getScore ent ply <=? score)%Z then false
      else true
    else true in
  if doStore then
    let from := move mod 64 in
    let to := (move / 64) mod 64 in
    let mv := if negb (e_key ent =? key) || negb (from =? to) then move mod 65536 else e_move ent in
    tt_set t idx (mkEntry key mv (encScore score ply) (depth mod 512) busy (generation t mod 16)
                          (type mod 4) (trunc16 evalScore))
  else t.

(** [probe]: the matching slot gets the current generation; [None] = T_EMPTY result *)
Fixpoint probe_loop (t : TT) (key idx0 : N) (is : list N) : TT * option Entry :=
  match is with
  | [] => (t, None)
  | i :: r =>
      let ent := tt_get t (idx0 + i) in
      if e_key ent =? key then
        if e_gen ent =? generation t then (t, Some ent)
        else
          let ent' := mkEntry (e_key ent) (e_move ent) (e_score ent) (e_depth ent) (e_busy ent)
                              (generation t mod 16) (e_type ent) (e_eval ent) in
          (tt_set t (idx0 + i) ent', Some ent')
      else probe_loop t key idx0 r
  end.
Definition tt_probe (t : TT) (key : N) : TT * option Entry :=
  let key := N.lxor key (contemptHash t) in
  probe_loop t key (getIndex t key) [0; 1; 2; 3].

(** [updateTB], control part.  [kind = None]: position not suitable (more than 4 men or
    pawns); [Some cls]: suitable, material class [cls].  [genOK]: the generator ran to
    completion; [maxTAfter]: value of maxTimeMillis when a failed generation returns.
    A partially generated table that stays installed (finding F4 of C12) is class 0: what
    probeDTM answers on it is garbage; here it never counts as a hit.
    Returns the table and the new value of the function-local static [requiredTime]. *)
Definition tbBytes : N := 5 * 1024 * 1024.
Definition tt_updateTB (abort_drops : bool) (t : TT) (requiredTime : Z) (kind : option N) (maxT : Z)
           (genOK : bool) (maxTAfter : Z) : TT * Z :=
  match kind with
  | None =>
      match tbResident t with
      | None => (t, requiredTime)
      | Some _ =>
          if (3 <? notUsedCnt t)%Z then
            (mkTT (slots t) (generation t) (tableSize t) (tableSize t) None 0%Z (contemptHash t), requiredTime)
          else
            (mkTT (slots t) (generation t) (tableSize t) (usedSize t) (tbResident t) (notUsedCnt t + 1)%Z
                  (contemptHash t), requiredTime)
      end
  | Some cls =>
      let hit := match tbResident t with Some c => c =? cls | None => false end in
      if hit then
        (mkTT (slots t) (generation t) (tableSize t) (usedSize t) (tbResident t) 0%Z (contemptHash t), requiredTime)
      else if (0 <=? maxT)%Z && (maxT <? requiredTime)%Z then (t, requiredTime)
      else if tableSize t * 16 <? tbBytes + 2 * 1024 * 1024 then (t, requiredTime)
      else if genOK then
        (mkTT (slots t) (generation t) (tableSize t) (tableSize t - tbBytes / 16) (Some cls) 0%Z
              (contemptHash t), requiredTime)
      else
        ((if abort_drops
          then mkTT (slots t) (generation t) (tableSize t) (tableSize t) None 0%Z (contemptHash t)
          else mkTT (slots t) (generation t) (tableSize t) (usedSize t) (Some 0) (notUsedCnt t) (contemptHash t)),
         if (maxTAfter =? 0)%Z then requiredTime else (Z.max maxTAfter requiredTime * 2)%Z)
  end.

(** * History table: (piece * 64 + square) -> (nValues, scaledScore) *)
Definition Hist := smap (N * N).
Definition hist_init : Hist := [].
Definition hist_reScale (h : Hist) : Hist := map (fun p => (fst p, (fst (snd p) / 4, snd (snd p)))) h.
Definition depthWeight (d : Z) : N :=
  nth (Z.to_nat (Z.max 0 (Z.min d 5))) [0; 1; 6; 19; 42; 56] 0.
Definition hist_idx (p sq : N) : N := p * 64 + sq.
Definition hist_addSuccess (h : Hist) (p sq : N) (depth : Z) : Hist :=
  let cnt := depthWeight depth in
  if cnt =? 0 then h
  else
    let '(sum, fp) := sget (0, 0) h (hist_idx p sq) in
    let fp' := (fp * sum + (50 * 1024 - 1) * cnt) / (sum + cnt) in
    sset h (hist_idx p sq) (N.min (sum + cnt) 1000 mod 65536, fp' mod 65536).
Definition hist_addFail (h : Hist) (p sq : N) (depth : Z) : Hist :=
  let cnt := depthWeight depth in
  if cnt =? 0 then h
  else
    let '(sum, fp) := sget (0, 0) h (hist_idx p sq) in
    let fp' := fp * sum / (sum + cnt) in
    sset h (hist_idx p sq) (N.min (sum + cnt) 1000 mod 65536, fp' mod 65536).

(** * Killer table: ply -> (move0, move1) *)
Definition Killers := smap (N * N).
Definition killers_clear : Killers := [].
Definition killer_plies : Z := 200.      (* MAX_SEARCH_DEPTH * 2 *)
Definition killers_add (k : Killers) (ply : Z) (m : N) : Killers :=
  if (killer_plies <=? ply)%Z then k
  else
    let i := Z.to_N ply in
    let '(m0, m1) := sget (0, 0) k i in
    if m =? m0 then k else sset k i (m, m0).

(** * Eval cache: slot -> (raw data word, ghost tag = whiteContempt under which the score was
    computed).  Absent = the default word 0xffffffffffff0000. *)
Definition EvalCache := smap (N * Z).
Definition eval_default : N := 18446744073709486080.
