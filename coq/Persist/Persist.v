(** C14 — everything that outlives a search and the operations of a UCI session on it.

    Modelled from app/texel/enginecontrol.cpp (EngineControl constructor: the Hash and
    "Clear Hash" listeners; [newGame]; [startThread]; [getWhiteContempt];
    EngineMainThread::doSearch) and lib/texellib/search.cpp ([Search::iterativeDeepening] up
    to the first iteration: kt.clear(), updateTB, ht.reScale()).

    A search itself is NOT modelled: it is an ORACLE (Section variables [oracle], [output])
    that is given the command, a nondeterministic input (wall clock, stop time) and the
    [relevant] view of the state, and answers with a list of writes to the transposition
    table, history table, killer table, eval and material caches.  That the real search
    touches nothing else and reads nothing else is the FRAME ASSUMPTION of C14 (exercised by
    the in-process sessions of the correspondence check and by the two-process finder). *)
From Coq Require Import ZArith NArith List Bool Lia.
From Texel Require Import Persist.PTable.
Import ListNotations.
Local Open Scope N_scope.

(** * Options (only those the model's own transitions read are separate fields) *)
Record Options := mkOptions {
  o_hashMB : N;
  o_contempt : Z;
  o_analyseMode : bool;
  o_analyzeContempt : Z;
  o_analysisAgeHash : bool;
  o_autoContempt : bool;
  o_oppContempt : Z;          (* EngineControl::opponentBasedContempt (UCI_Opponent + ContemptFile) *)
  o_strength : Z;
  o_limitStrength : bool;
  o_other : list (N * Z)      (* MultiPV, UseNullMove, MinProbeDepth, MaxNPS, UCI_Elo, OwnBook, ...:
                                 read by the search only *)
}.

Definition default_options : Options :=
  mkOptions 16 0 false 0 true false 0 1000 false [].

Inductive Opt :=
| OHash | OContempt | OAnalyseMode | OAnalyzeContempt | OAnalysisAgeHash | OAutoContempt
| OOppContempt | OStrength | OLimitStrength | OOther (id : N).

Definition zbool (v : Z) : bool := negb (v =? 0)%Z.

Fixpoint set_other (l : list (N * Z)) (id : N) (v : Z) : list (N * Z) :=
  match l with
  | [] => [(id, v)]
  | (j, x) :: r => if j =? id then (j, v) :: r else (j, x) :: set_other r id v
  end.

Definition set_opt (o : Options) (k : Opt) (v : Z) : Options :=
  match k with
  | OHash => mkOptions (Z.to_N v) (o_contempt o) (o_analyseMode o) (o_analyzeContempt o) (o_analysisAgeHash o) (o_autoContempt o) (o_oppContempt o) (o_strength o) (o_limitStrength o) (o_other o)
  | OContempt => mkOptions (o_hashMB o) v (o_analyseMode o) (o_analyzeContempt o) (o_analysisAgeHash o) (o_autoContempt o) (o_oppContempt o) (o_strength o) (o_limitStrength o) (o_other o)
  | OAnalyseMode => mkOptions (o_hashMB o) (o_contempt o) (zbool v) (o_analyzeContempt o) (o_analysisAgeHash o) (o_autoContempt o) (o_oppContempt o) (o_strength o) (o_limitStrength o) (o_other o)
  | OAnalyzeContempt => mkOptions (o_hashMB o) (o_contempt o) (o_analyseMode o) v (o_analysisAgeHash o) (o_autoContempt o) (o_oppContempt o) (o_strength o) (o_limitStrength o) (o_other o)
  | OAnalysisAgeHash => mkOptions (o_hashMB o) (o_contempt o) (o_analyseMode o) (o_analyzeContempt o) (zbool v) (o_autoContempt o) (o_oppContempt o) (o_strength o) (o_limitStrength o) (o_other o)
  | OAutoContempt => mkOptions (o_hashMB o) (o_contempt o) (o_analyseMode o) (o_analyzeContempt o) (o_analysisAgeHash o) (zbool v) (o_oppContempt o) (o_strength o) (o_limitStrength o) (o_other o)
  | OOppContempt => mkOptions (o_hashMB o) (o_contempt o) (o_analyseMode o) (o_analyzeContempt o) (o_analysisAgeHash o) (o_autoContempt o) v (o_strength o) (o_limitStrength o) (o_other o)
  | OStrength => mkOptions (o_hashMB o) (o_contempt o) (o_analyseMode o) (o_analyzeContempt o) (o_analysisAgeHash o) (o_autoContempt o) (o_oppContempt o) v (o_limitStrength o) (o_other o)
  | OLimitStrength => mkOptions (o_hashMB o) (o_contempt o) (o_analyseMode o) (o_analyzeContempt o) (o_analysisAgeHash o) (o_autoContempt o) (o_oppContempt o) (o_strength o) (zbool v) (o_other o)
  | OOther id => mkOptions (o_hashMB o) (o_contempt o) (o_analyseMode o) (o_analyzeContempt o) (o_analysisAgeHash o) (o_autoContempt o) (o_oppContempt o) (o_strength o) (o_limitStrength o) (set_other (o_other o) id v)
  end.

(** reduced strength (Search::weak) is the only reader of [randomSeed] *)
Definition weak (o : Options) : bool := o_limitStrength o || (o_strength o <? 1000)%Z.

(** EngineControl::getWhiteContempt *)
Definition white_contempt (o : Options) (whiteMove : bool) : Z :=
  if o_analyseMode o then o_analyzeContempt o
  else
    let c := if o_autoContempt o then o_oppContempt o else o_contempt o in
    if whiteMove then c else (- c)%Z.

(** EngineMainThread::setupTT: number of 16-byte entries for a Hash value in MB *)
Definition hash_entries (mb : N) : N := if mb =? 0 then 1024 else mb * 1048576 / 16.

(** * The `go` parameters and the limit members of EngineControl they are turned into *)
Record GoParams := mkGo {
  g_depth : Z; g_mate : Z; g_nodes : Z; g_movetime : Z;     (* 0 = not given *)
  g_clock : option (Z * Z);     (* (minTimeLimit, maxTimeLimit) the clock branch of computeTimeLimit yields
                                   for wtime/btime/winc/binc/movestogo (time management: property C06) *)
  g_infinite : bool; g_ponder : bool;
  g_searchmoves : list N
}.
Definition default_go : GoParams := mkGo 0 0 0 0 None false false [].

Record Limits := mkLimits {
  l_minTime : Z; l_maxTime : Z; l_earlyStop : Z; l_maxDepth : Z; l_maxNodes : Z;
  l_ponder : bool; l_infinite : bool; l_searchMoves : list N
}.

(** EngineControl::computeTimeLimit + the assignments of startSearch/startPonder.  [resets]: the
    code assigns every member ([maxNodes = -1] included) before looking at the parameters. *)
Definition compute_limits (resets : bool) (old : option Limits) (g : GoParams) : Limits :=
  let mn0 := if resets then (-1)%Z else match old with Some l => l_maxNodes l | None => (-1)%Z end in
  let md := if g_infinite g then (-1)%Z
            else let d := if (0 <? g_depth g)%Z then g_depth g else (-1)%Z in
                 if (0 <? g_mate g)%Z then (if (d =? -1)%Z then (g_mate g * 2 - 1)%Z else Z.min d (g_mate g * 2 - 1))%Z else d in
  let mn := if g_infinite g then mn0 else if (0 <? g_nodes g)%Z then g_nodes g else mn0 in
  let '(mint, maxt, es) :=
    if g_infinite g then ((-1)%Z, (-1)%Z, (-1)%Z)
    else if (0 <? g_movetime g)%Z then (g_movetime g, g_movetime g, 10000%Z)
    else match g_clock g with Some (a, b) => (a, b, (-1)%Z) | None => ((-1)%Z, (-1)%Z, (-1)%Z) end in
  mkLimits mint maxt es md mn (g_ponder g)
           (if g_ponder g then false else (maxt <? 0)%Z && (md <? 0)%Z && (mn <? 0)%Z)
           (g_searchmoves g).

(** * The persistent state *)
Record State := mkState {
  st_tt : TT;
  st_hist : Hist;
  st_killers : Killers;
  st_clearHistory : bool;         (* EngineMainThread::clearHistory: forwarded to helper threads only *)
  st_evalCache : EvalCache;
  st_matCache : smap N;           (* Evaluate::materialHash: a pure function of the material id *)
  st_opts : Options;
  st_randomSeed : N;
  st_requiredTime : Z;            (* function-local static in TranspositionTable::updateTB *)
  st_limits : option Limits       (* EngineControl::{min,max}TimeLimit, earlyStopPercentage, maxDepth, maxNodes,
                                     ponder, infinite, searchMoves: members that survive between go commands;
                                     None = no go yet (the members are uninitialised in a fresh engine) *)
}.

(** a freshly started engine after the EngineControl constructor ran (Hash listener called) *)
Definition fresh_tt : TT :=
  mkTT [] 0 (hash_entries 16) (hash_entries 16) None 0%Z 0.
Definition fresh : State :=
  mkState fresh_tt hist_init killers_clear false [] [] default_options 0 3000%Z None.

(** * Commands *)
Record SearchCmd := mkSearchCmd {
  sc_text : N;              (* position + go parameters, opaque to the model *)
  sc_white : bool;          (* side to move at the root *)
  sc_limited : bool;        (* maxDepth >= 0 or maxNodes >= 0: depth- or node-limited *)
  sc_infinite : bool;       (* EngineControl::infinite *)
  sc_tbkind : option N;     (* root position suitable for on-demand TB generation: material class *)
  sc_maxTime : Z;           (* maxTimeMillis handed to updateTB *)
  sc_go : GoParams          (* the parameters of the go command *)
}.

Inductive Write :=
| WInsert (key move : N) (score : Z) (type : N) (ply depth evalScore : Z) (busy : bool)
| WProbe (key : N)
| WHistSuccess (p sq : N) (depth : Z)
| WHistFail (p sq : N) (depth : Z)
| WKiller (ply : Z) (m : N)
| WEval (idx data : N)
| WMat (idx data : N).

Inductive Cmd :=
| Search (c : SearchCmd) (nd : N) (genOK : bool) (maxTAfter : Z)
| SetOption (k : Opt) (v : Z)
| UciNewGame (seed : N)      (* Random().nextU64(): seeded from the clock *)
| ClearHash.

(** * The view of the state a search started by command [c] reads *)
Definition norm_entry (g : N) (e : Entry) : Entry :=
  mkEntry (e_key e) (e_move e) (e_score e) (e_depth e) (e_busy e) (if e_gen e =? g then 1 else 0)
          (e_type e) (e_eval e).

(** generation the search will run with (EngineControl::startThread) *)
Definition ages (o : Options) (c : SearchCmd) : bool :=
  if o_analyseMode o || sc_infinite c then o_analysisAgeHash o else true.
Definition search_generation (s : State) (c : SearchCmd) : N :=
  if ages (st_opts s) c then (generation (st_tt s) + 1) mod 16 else generation (st_tt s).

Record View := mkView {
  v_slots : list (N * Entry);   (* table contents, generations reduced to "current or not" *)
  v_gen0 : bool;                (* the search runs with generation 0: empty slots look current *)
  v_tableSize : N;
  v_usedSize : N;
  v_tb : option N;
  v_contemptHash : N;
  v_hist : Hist;
  v_evalStale : list (N * (N * Z));   (* cache entries computed under another contempt *)
  v_opts : Options;
  v_seed : option N;
  v_tbctl : option (Z * Z);     (* notUsedCnt, requiredTime: read by updateTB (unlimited searches only) *)
  v_limits : Limits             (* the limits the search runs with: computeTimeLimit applied to the go parameters
                                   (and, if some member is not assigned on every go, to what an earlier go left) *)
}.

Section Model.
  Variable V : Variant.

  Definition relevant (c : SearchCmd) (s : State) : View :=
    let g := search_generation s c in
    let w := white_contempt (st_opts s) (sc_white c) in
    mkView (map (fun p => (fst p, norm_entry g (snd p))) (slots (st_tt s)))
           (g =? 0)
           (tableSize (st_tt s)) (usedSize (st_tt s)) (tbResident (st_tt s))
           (contempt_hash w)
           (st_hist s)
           (if evalkey_has_contempt V then []
            else filter (fun p => negb (snd (snd p) =? w)%Z) (st_evalCache s))
           (st_opts s)
           (if weak (st_opts s) then Some (st_randomSeed s) else None)
           (if sc_limited c then None else Some (notUsedCnt (st_tt s), st_requiredTime s))
           (compute_limits (go_resets_limits V) (st_limits s) (sc_go c)).

  (** the search oracle: writes and UCI output as a function of command, nondeterministic
      input and view *)
  Variable oracle : SearchCmd -> N -> View -> list Write.

  Definition apply_write (w : Z) (s : State) (x : Write) : State :=
    match x with
    | WInsert key move score type ply depth ev busy =>
        mkState (tt_insert (st_tt s) key move score type ply depth ev busy) (st_hist s) (st_killers s)
                (st_clearHistory s) (st_evalCache s) (st_matCache s) (st_opts s) (st_randomSeed s) (st_requiredTime s) (st_limits s)
    | WProbe key =>
        mkState (fst (tt_probe (st_tt s) key)) (st_hist s) (st_killers s)
                (st_clearHistory s) (st_evalCache s) (st_matCache s) (st_opts s) (st_randomSeed s) (st_requiredTime s) (st_limits s)
    | WHistSuccess p sq d =>
        mkState (st_tt s) (hist_addSuccess (st_hist s) p sq d) (st_killers s)
                (st_clearHistory s) (st_evalCache s) (st_matCache s) (st_opts s) (st_randomSeed s) (st_requiredTime s) (st_limits s)
    | WHistFail p sq d =>
        mkState (st_tt s) (hist_addFail (st_hist s) p sq d) (st_killers s)
                (st_clearHistory s) (st_evalCache s) (st_matCache s) (st_opts s) (st_randomSeed s) (st_requiredTime s) (st_limits s)
    | WKiller ply m =>
        mkState (st_tt s) (st_hist s) (killers_add (st_killers s) ply m)
                (st_clearHistory s) (st_evalCache s) (st_matCache s) (st_opts s) (st_randomSeed s) (st_requiredTime s) (st_limits s)
    | WEval idx data =>
        mkState (st_tt s) (st_hist s) (st_killers s)
                (st_clearHistory s) (sset (st_evalCache s) idx (data, w)) (st_matCache s) (st_opts s) (st_randomSeed s) (st_requiredTime s) (st_limits s)
    | WMat idx data =>
        mkState (st_tt s) (st_hist s) (st_killers s)
                (st_clearHistory s) (st_evalCache s) (sset (st_matCache s) idx data) (st_opts s) (st_randomSeed s) (st_requiredTime s) (st_limits s)
    end.

  (** EngineControl::startThread (setWhiteContempt, nextGeneration rule), then
      Search::iterativeDeepening's prologue (kt.clear, updateTB for unlimited searches,
      ht.reScale), before any node is searched *)
  Definition search_prologue (s : State) (c : SearchCmd) (genOK : bool) (maxTAfter : Z) : State :=
    let w := white_contempt (st_opts s) (sc_white c) in
    let t := tt_setWhiteContempt (st_tt s) w in
    let t := if ages (st_opts s) c then tt_nextGeneration t else t in
    let '(t, rt) := if sc_limited c then (t, st_requiredTime s)
                    else tt_updateTB (tbabort_drops_tb V) t (st_requiredTime s) (sc_tbkind c) (sc_maxTime c) genOK maxTAfter in
    mkState t (hist_reScale (st_hist s)) killers_clear (st_clearHistory s) (st_evalCache s)
            (st_matCache s) (st_opts s) (st_randomSeed s) rt (st_limits s).

  Definition set_clearHistory (s : State) (b : bool) : State :=
    mkState (st_tt s) (st_hist s) (st_killers s) b (st_evalCache s) (st_matCache s) (st_opts s)
            (st_randomSeed s) (st_requiredTime s) (st_limits s).

  Definition set_limits (s : State) (l : Limits) : State :=
    mkState (st_tt s) (st_hist s) (st_killers s) (st_clearHistory s) (st_evalCache s) (st_matCache s) (st_opts s)
            (st_randomSeed s) (st_requiredTime s) (Some l).

  (** the "Clear Hash" listener of EngineControl *)
  Definition clear_hash (s : State) : State :=
    mkState (tt_clear (clear_resets_generation V) (st_tt s)) hist_init (st_killers s) true
            (if clear_clears_evalcache V then [] else st_evalCache s)
            (st_matCache s) (st_opts s) (st_randomSeed s) (st_requiredTime s) (st_limits s).

  (** Parameters::set + listeners: only the Hash listener (setupTT) touches the state *)
  Definition set_option (s : State) (k : Opt) (v : Z) : State :=
    let o := set_opt (st_opts s) k v in
    let t := match k with
             | OHash => tt_resize (clear_resets_generation V) (st_tt s) (hash_entries (o_hashMB o))
             | _ => st_tt s
             end in
    mkState t (st_hist s) (st_killers s) (st_clearHistory s) (st_evalCache s) (st_matCache s) o
            (st_randomSeed s) (st_requiredTime s) (st_limits s).

  (** a fresh process in which the options [os] were set before anything else *)
  Definition init (os : list (Opt * Z)) : State :=
    fold_left (fun s p => set_option s (fst p) (snd p)) os fresh.

  Definition step (s : State) (cmd : Cmd) : State :=
    match cmd with
    | Search c nd genOK maxTAfter =>
        let ws := oracle c nd (relevant c s) in
        let w := white_contempt (st_opts s) (sc_white c) in
        let s1 := search_prologue s c genOK maxTAfter in
        let s2 := fold_left (apply_write w) ws s1 in
        set_limits (set_clearHistory s2 false)          (* EngineMainThread::doSearch *)
                   (compute_limits (go_resets_limits V) (st_limits s) (sc_go c))   (* startSearch / startPonder *)
    | SetOption k v => set_option s k v
    | UciNewGame seed =>
        clear_hash (mkState (st_tt s) (st_hist s) (st_killers s) (st_clearHistory s) (st_evalCache s)
                            (st_matCache s) (st_opts s) seed (st_requiredTime s) (st_limits s))
    | ClearHash => clear_hash s
    end.

  Definition run (h : list Cmd) (s : State) : State := fold_left step h s.

  (** UCI output of the search (info lines, bestmove), also an oracle *)
  Variable output : SearchCmd -> N -> View -> list N.
  Definition search_result (s : State) (c : SearchCmd) (nd : N) : list N * list Write :=
    (output c nd (relevant c s), oracle c nd (relevant c s)).
End Model.
