(** C06 -- the [hard] value iterativeDeepening derives from the node fraction of the best move
    (piecewise linear, four double operations per interpolation piece) is finite and within
    [0,4] for EVERY double, including NaN and infinities.  Enclosures by multiples of 1/64. *)
From Coq Require Import ZArith Reals Lia Lra Floats Uint63 Bool.
From Flocq Require Import Core.Core IEEE754.BinarySingleNaN IEEE754.PrimFloat.
From Texel Require Import TimeMgmt.TimeMgmt TimeMgmt.TimeSpec TimeMgmt.FloatFacts.
Set Warnings "-inexact-float".
Local Open Scope Z_scope.

Local Instance Hprec64' : FLX.Prec_gt_0 prec := eq_refl _.
Local Instance Hmax64' : Prec_lt_emax prec emax := eq_refl _.

(** ** enclosures by multiples of 1/64 *)
Definition q64 (a : Z) : R := (IZR a / 64)%R.

Lemma q64_generic : forall a, Z.abs a < 2 ^ 53 -> generic_format radix2 fexp64 (q64 a).
Proof.
  intros a Ha. apply generic_format_FLT. exists (Float radix2 a (-6)).
  - unfold q64, F2R. cbn [Fnum Fexp].
    change (bpow radix2 (-6)) with (/ IZR (Zpower_pos radix2 6))%R.
    replace (Zpower_pos radix2 6) with 64 by reflexivity. reflexivity.
  - exact Ha.
  - cbn [Fexp]. unfold emax, prec. lia.
Qed.

Lemma round_q64 : forall x a b, Z.abs a < 2 ^ 53 -> Z.abs b < 2 ^ 53 ->
  (q64 a <= x <= q64 b)%R -> (q64 a <= rnd64 x <= q64 b)%R.
Proof.
  intros x a b Ha Hb [H1 H2]. split.
  - apply round_ge_generic; try typeclasses eauto; [now apply q64_generic | exact H1].
  - apply round_le_generic; try typeclasses eauto; [now apply q64_generic | exact H2].
Qed.

Lemma q64_lt_emax : forall x a b, Z.abs a < 2 ^ 53 -> Z.abs b < 2 ^ 53 ->
  (q64 a <= x <= q64 b)%R -> Rlt_bool (Rabs x) (bpow radix2 emax) = true.
Proof.
  intros x a b Ha Hb [H1 H2].
  apply (small_lt_emax x (- 2 ^ 52) (2 ^ 52)); [reflexivity | reflexivity |].
  unfold q64 in *.
  assert (IZR (- 2 ^ 53) <= IZR a)%R by (apply IZR_le; lia).
  assert (IZR b <= IZR (2 ^ 53))%R by (apply IZR_le; lia).
  change (IZR (- 2 ^ 53)) with (-9007199254740992)%R in *.
  change (IZR (2 ^ 53)) with (9007199254740992)%R in *.
  change (IZR (- 2 ^ 52)) with (-4503599627370496)%R.
  change (IZR (2 ^ 52)) with (4503599627370496)%R.
  split; lra.
Qed.

Lemma mul64 : forall x y a b,
  is_finite (Prim2B x) = true -> is_finite (Prim2B y) = true ->
  Z.abs a < 2 ^ 53 -> Z.abs b < 2 ^ 53 ->
  (q64 a <= B2R (Prim2B x) * B2R (Prim2B y) <= q64 b)%R ->
  is_finite (Prim2B (x * y)) = true /\ (q64 a <= B2R (Prim2B (x * y)) <= q64 b)%R.
Proof.
  intros x y a b Hx Hy Ha Hb H.
  rewrite mul_equiv.
  generalize (Bmult_correct prec emax Hprec Hmax mode_NE (Prim2B x) (Prim2B y)).
  simpl round_mode. change (SpecFloat.fexp prec emax) with fexp64.
  pose proof (round_q64 _ a b Ha Hb H) as Hr.
  rewrite (q64_lt_emax _ a b Ha Hb Hr).
  intros (E1 & E2 & _). rewrite E1, E2, Hx, Hy. now split.
Qed.

Lemma div64 : forall x y a b,
  is_finite (Prim2B x) = true -> (B2R (Prim2B y) <> 0)%R ->
  Z.abs a < 2 ^ 53 -> Z.abs b < 2 ^ 53 ->
  (q64 a <= B2R (Prim2B x) / B2R (Prim2B y) <= q64 b)%R ->
  is_finite (Prim2B (x / y)) = true /\ (q64 a <= B2R (Prim2B (x / y)) <= q64 b)%R.
Proof.
  intros x y a b Hx Hy Ha Hb H.
  rewrite div_equiv.
  generalize (Bdiv_correct prec emax Hprec Hmax mode_NE (Prim2B x) (Prim2B y) Hy).
  simpl round_mode. change (SpecFloat.fexp prec emax) with fexp64.
  pose proof (round_q64 _ a b Ha Hb H) as Hr.
  rewrite (q64_lt_emax _ a b Ha Hb Hr).
  intros (E1 & E2 & _). rewrite E1, E2, Hx. now split.
Qed.

Lemma add64 : forall x y a b,
  is_finite (Prim2B x) = true -> is_finite (Prim2B y) = true ->
  Z.abs a < 2 ^ 53 -> Z.abs b < 2 ^ 53 ->
  (q64 a <= B2R (Prim2B x) + B2R (Prim2B y) <= q64 b)%R ->
  is_finite (Prim2B (x + y)) = true /\ (q64 a <= B2R (Prim2B (x + y)) <= q64 b)%R.
Proof.
  intros x y a b Hx Hy Ha Hb H.
  rewrite add_equiv.
  generalize (Bplus_correct prec emax Hprec Hmax mode_NE (Prim2B x) (Prim2B y) Hx Hy).
  simpl round_mode. change (SpecFloat.fexp prec emax) with fexp64.
  pose proof (round_q64 _ a b Ha Hb H) as Hr.
  rewrite (q64_lt_emax _ a b Ha Hb Hr).
  intros (E1 & E2 & _). rewrite E1, E2. now split.
Qed.

Lemma sub64 : forall x y a b,
  is_finite (Prim2B x) = true -> is_finite (Prim2B y) = true ->
  Z.abs a < 2 ^ 53 -> Z.abs b < 2 ^ 53 ->
  (q64 a <= B2R (Prim2B x) - B2R (Prim2B y) <= q64 b)%R ->
  is_finite (Prim2B (x - y)) = true /\ (q64 a <= B2R (Prim2B (x - y)) <= q64 b)%R.
Proof.
  intros x y a b Hx Hy Ha Hb H.
  rewrite sub_equiv.
  generalize (Bminus_correct prec emax Hprec Hmax mode_NE (Prim2B x) (Prim2B y) Hx Hy).
  simpl round_mode. change (SpecFloat.fexp prec emax) with fexp64.
  pose proof (round_q64 _ a b Ha Hb H) as Hr.
  rewrite (q64_lt_emax _ a b Ha Hb Hr).
  intros (E1 & E2 & _). rewrite E1, E2. now split.
Qed.

(** real value of a concrete finite double with negative exponent *)
Lemma B2R_finite_neg_exp : forall x s m p, Prim2SF x = S754_finite s m (Zneg p) ->
  B2R (Prim2B x) = (IZR (cond_Zopp s (Zpos m)) / IZR (Z.pow_pos 2 p))%R.
Proof.
  intros x s m p H. rewrite B2R_Prim2B_SF, H. unfold SF2R, F2R. cbn [Fnum Fexp]. reflexivity.
Qed.

Ltac eval_const c H :=
  let v := eval vm_compute in (Prim2SF c) in
  match v with
  | S754_finite ?s ?m (Zneg ?p) =>
      let E := fresh in
      assert (E : Prim2SF c = S754_finite s m (Zneg p)) by (vm_compute; reflexivity);
      pose proof (B2R_finite_neg_exp c s m p E) as H; clear E;
      let w := eval vm_compute in (Z.pow_pos 2 p) in
      change (Z.pow_pos 2 p) with w in H;
      cbn [cond_Zopp Z.opp] in H
  end.


(** a double that is not below [lo] but below [hi] (both finite) is finite and lies in between *)
Lemma between_finite : forall f lo hi,
  is_finite (Prim2B lo) = true -> is_finite (Prim2B hi) = true ->
  PrimFloat.ltb f lo = false -> PrimFloat.ltb f hi = true ->
  is_finite (Prim2B f) = true /\ (B2R (Prim2B lo) <= B2R (Prim2B f) < B2R (Prim2B hi))%R.
Proof.
  intros f lo hi Hlo Hhi H1 H2.
  rewrite ltb_equiv in H1, H2.
  assert (Hf : is_finite (Prim2B f) = true).
  { destruct (Prim2B f) as [s | s | | s m e Hb]; try reflexivity.
    - destruct s.
      + destruct (Prim2B lo) as [s' | s' | | s' m' e' Hb']; try discriminate; discriminate H1.
      + destruct (Prim2B hi) as [s' | s' | | s' m' e' Hb']; try discriminate; discriminate H2.
    - discriminate H2. }
  split; [exact Hf |].
  rewrite Bltb_correct in H1, H2 by assumption.
  destruct (Rlt_bool_spec (B2R (Prim2B f)) (B2R (Prim2B lo))); [discriminate |].
  destruct (Rlt_bool_spec (B2R (Prim2B f)) (B2R (Prim2B hi))); [| discriminate].
  split; assumption.
Qed.

Ltac fin := (rewrite <- is_finite_equiv; vm_compute; reflexivity).

Lemma hf_ok_q64 : forall x a b, is_finite (Prim2B x) = true -> 0 <= a -> b <= 256 ->
  (q64 a <= B2R (Prim2B x) <= q64 b)%R -> hf_ok x = true.
Proof.
  intros x a b Hf Ha Hb [H1 H2]. apply hf_ok_real. split; [exact Hf |].
  unfold q64 in *.
  assert (0 <= IZR a)%R by (apply IZR_le; lia).
  assert (IZR b <= 256)%R by (apply IZR_le; lia).
  lra.
Qed.

(** first interpolation piece: 0.2 <= f < 0.4 *)
Lemma hardOf_piece1 : forall f, PrimFloat.ltb f 0.2%float = false -> PrimFloat.ltb f 0.4%float = true ->
  hf_ok (3.5 + (1 - 3.5) * (f - 0.2) / (0.4 - 0.2))%float = true.
Proof.
  intros f H1 H2.
  destruct (between_finite f 0.2%float 0.4%float) as [Ff Rf]; [fin | fin | assumption | assumption |].
  eval_const 0.2%float E02. eval_const 0.4%float E04.
  eval_const (1 - 3.5)%float EB. eval_const (0.4 - 0.2)%float ED. eval_const 3.5%float EA.
  rewrite E02, E04 in Rf.
  assert (F02 : is_finite (Prim2B 0.2%float) = true) by fin.
  assert (FB : is_finite (Prim2B (1 - 3.5)%float) = true) by fin.
  assert (FD : is_finite (Prim2B (0.4 - 0.2)%float) = true) by fin.
  assert (FA : is_finite (Prim2B 3.5%float) = true) by fin.
  set (x := B2R (Prim2B f)) in *.
  destruct (sub64 f 0.2%float 0 13 Ff F02) as [Fd Rd]; [reflexivity | reflexivity | |].
  { rewrite E02. fold x. unfold q64. lra. }
  set (d := (f - 0.2)%float) in *.
  destruct (mul64 (1 - 3.5)%float d (-33) 0 FB Fd) as [Fp Rp]; [reflexivity | reflexivity | |].
  { rewrite EB. unfold q64 in *. lra. }
  set (p := ((1 - 3.5) * d)%float) in *.
  destruct (div64 p (0.4 - 0.2)%float (-176) 0 Fp) as [Fq Rq]; [rewrite ED; lra | reflexivity | reflexivity | |].
  { rewrite ED. unfold q64 in *. lra. }
  set (q := (p / (0.4 - 0.2))%float) in *.
  destruct (add64 3.5%float q 48 224 FA Fq) as [Fv Rv]; [reflexivity | reflexivity | |].
  { rewrite EA. unfold q64 in *. lra. }
  apply (hf_ok_q64 _ 48 224 Fv); [lia | lia | exact Rv].
Qed.

(** second interpolation piece: 0.6 <= f < 0.85 *)
Lemma hardOf_piece2 : forall f, PrimFloat.ltb f 0.6%float = false -> PrimFloat.ltb f 0.85%float = true ->
  hf_ok (1 + (0.3 - 1) * (f - 0.6) / (0.85 - 0.6))%float = true.
Proof.
  intros f H1 H2.
  destruct (between_finite f 0.6%float 0.85%float) as [Ff Rf]; [fin | fin | assumption | assumption |].
  eval_const 0.6%float E06. eval_const 0.85%float E085.
  eval_const (0.3 - 1)%float EB. eval_const (0.85 - 0.6)%float ED. eval_const 1%float EA.
  rewrite E06, E085 in Rf.
  assert (F06 : is_finite (Prim2B 0.6%float) = true) by fin.
  assert (FB : is_finite (Prim2B (0.3 - 1)%float) = true) by fin.
  assert (FD : is_finite (Prim2B (0.85 - 0.6)%float) = true) by fin.
  assert (FA : is_finite (Prim2B 1%float) = true) by fin.
  set (x := B2R (Prim2B f)) in *.
  destruct (sub64 f 0.6%float 0 17 Ff F06) as [Fd Rd]; [reflexivity | reflexivity | |].
  { rewrite E06. fold x. unfold q64. lra. }
  set (d := (f - 0.6)%float) in *.
  destruct (mul64 (0.3 - 1)%float d (-12) 0 FB Fd) as [Fp Rp]; [reflexivity | reflexivity | |].
  { rewrite EB. unfold q64 in *. lra. }
  set (p := ((0.3 - 1) * d)%float) in *.
  destruct (div64 p (0.85 - 0.6)%float (-52) 0 Fp) as [Fq Rq]; [rewrite ED; lra | reflexivity | reflexivity | |].
  { rewrite ED. unfold q64 in *. lra. }
  set (q := (p / (0.85 - 0.6))%float) in *.
  destruct (add64 1%float q 12 64 FA Fq) as [Fv Rv]; [reflexivity | reflexivity | |].
  { rewrite EA. unfold q64 in *. lra. }
  apply (hf_ok_q64 _ 12 64 Fv); [lia | lia | exact Rv].
Qed.

Theorem hardOf_range : forall f, hf_ok (hardOf f) = true.
Proof.
  intro f. unfold hardOf.
  destruct (PrimFloat.ltb f 0.2%float) eqn:E1; [vm_compute; reflexivity |].
  destruct (PrimFloat.ltb f 0.4%float) eqn:E2; [now apply hardOf_piece1 |].
  destruct (PrimFloat.ltb f 0.6%float) eqn:E3; [vm_compute; reflexivity |].
  destruct (PrimFloat.ltb f 0.85%float) eqn:E4; [now apply hardOf_piece2 |].
  vm_compute; reflexivity.
Qed.
