(** C06 -- the facts about IEEE binary64 arithmetic that the time-management theorems need,
    proved with Flocq from the specification of Coq's primitive floats.  Statements exported to
    the other files mention only the model's functions ([Z2F], [F2Z], [fmin], ...) and [Z]. *)
From Coq Require Import ZArith Reals Lia Lra Floats Uint63 Bool.
From Flocq Require Import Core.Core IEEE754.BinarySingleNaN IEEE754.PrimFloat.
From Texel Require Import TimeMgmt.TimeMgmt.
Local Open Scope Z_scope.

Notation fexp64 := (FLT_exp (3 - emax - prec) prec).
Notation rnd64 := (round radix2 fexp64 ZnearestE).

Local Instance Hprec64 : FLX.Prec_gt_0 prec := eq_refl _.
Local Instance Hmax64 : Prec_lt_emax prec emax := eq_refl _.

(** ** integers below 2^53 are binary64 numbers *)
Lemma int_generic : forall z, Z.abs z < 2 ^ 53 -> generic_format radix2 fexp64 (IZR z).
Proof.
  intros z Hz.
  apply generic_format_FLT.
  exists (Float radix2 z 0).
  - unfold F2R; simpl. now rewrite Rmult_1_r.
  - exact Hz.
  - simpl. unfold emax, prec. lia.
Qed.

Lemma round_int : forall z, Z.abs z < 2 ^ 53 -> rnd64 (IZR z) = IZR z.
Proof. intros z Hz. apply round_generic; [typeclasses eauto | now apply int_generic]. Qed.

Lemma round_le_int : forall x b, Z.abs b < 2 ^ 53 -> (x <= IZR b)%R -> (rnd64 x <= IZR b)%R.
Proof.
  intros x b Hb H.
  apply round_le_generic; try typeclasses eauto; [now apply int_generic | exact H].
Qed.

Lemma round_ge_int : forall x a, Z.abs a < 2 ^ 53 -> (IZR a <= x)%R -> (IZR a <= rnd64 x)%R.
Proof.
  intros x a Ha H.
  apply round_ge_generic; try typeclasses eauto; [now apply int_generic | exact H].
Qed.

Lemma small_lt_emax : forall x a b, Z.abs a < 2 ^ 53 -> Z.abs b < 2 ^ 53 ->
  (IZR a <= x <= IZR b)%R -> Rlt_bool (Rabs x) (bpow radix2 emax) = true.
Proof.
  intros x a b Ha Hb [H1 H2].
  apply Rlt_bool_true.
  apply Rle_lt_trans with (IZR (2 ^ 53)).
  - apply Rabs_le. split.
    + apply Rle_trans with (IZR a); [| exact H1]. rewrite <- opp_IZR. apply IZR_le. lia.
    + apply Rle_trans with (IZR b); [exact H2 |]. apply IZR_le. lia.
  - change (2 ^ 53) with (Zpower radix2 53). rewrite IZR_Zpower by lia.
    apply bpow_lt. unfold emax. lia.
Qed.

(** ** int -> double is exact below 2^53 *)
Lemma of_Z_to_Z : forall z, 0 <= z < 2 ^ 53 -> Uint63.to_Z (Uint63.of_Z z) = z.
Proof.
  intros z Hz. rewrite Uint63.of_Z_spec. apply Z.mod_small.
  change wB with (2 ^ 63). lia.
Qed.

Lemma Z2F_nonneg_correct : forall z, 0 <= z < 2 ^ 53 ->
  is_finite (Prim2B (of_uint63 (Uint63.of_Z z))) = true /\
  B2R (Prim2B (of_uint63 (Uint63.of_Z z))) = IZR z.
Proof.
  intros z Hz.
  rewrite of_int63_equiv, of_Z_to_Z by exact Hz.
  generalize (binary_normalize_correct prec emax Hprec Hmax mode_NE z 0 false).
  cbv zeta.
  replace (F2R (Float radix2 z 0)) with (IZR z) by (unfold F2R; simpl; now rewrite Rmult_1_r).
  simpl round_mode.
  rewrite round_int by lia.
  rewrite (small_lt_emax (IZR z) z z) by (try lia; lra).
  intros (H1 & H2 & _). now split.
Qed.

Lemma Z2F_correct : forall z, Z.abs z < 2 ^ 53 ->
  is_finite (Prim2B (Z2F z)) = true /\ B2R (Prim2B (Z2F z)) = IZR z.
Proof.
  intros z Hz. unfold Z2F.
  destruct (Z.ltb_spec z 0).
  - rewrite opp_equiv, is_finite_Bopp, B2R_Bopp.
    destruct (Z2F_nonneg_correct (- z)) as [H1 H2]; [lia |].
    rewrite H1, H2, opp_IZR. split; [reflexivity | lra].
  - apply Z2F_nonneg_correct. lia.
Qed.

(** ** double -> integer: [F2Z] is truncation of the real value *)
Lemma Ztrunc_pos_F2R : forall m e,
  Ztrunc (F2R (Float radix2 (Zpos m) e)) =
  if 0 <=? e then Z.shiftl (Zpos m) e else Z.shiftr (Zpos m) (- e).
Proof.
  intros m e. unfold F2R. simpl Fnum; simpl Fexp.
  destruct (Z.leb_spec 0 e).
  - rewrite <- IZR_Zpower by exact H. rewrite <- mult_IZR, Ztrunc_IZR.
    rewrite Z.shiftl_mul_pow2 by exact H. reflexivity.
  - replace e with (- (- e)) at 1 by lia. rewrite bpow_opp.
    rewrite <- IZR_Zpower by lia.
    change (IZR (Z.pos m) * / IZR (radix2 ^ - e))%R with (IZR (Z.pos m) / IZR (radix2 ^ - e))%R.
    rewrite Ztrunc_floor.
    + rewrite Zfloor_div. { rewrite Z.shiftr_div_pow2 by lia. reflexivity. }
      change (radix2 ^ - e) with (2 ^ - e). lia.
    + apply Rmult_le_pos. { apply IZR_le. lia. }
      apply Rlt_le, Rinv_0_lt_compat. apply IZR_lt. change (radix2 ^ - e) with (2 ^ - e). lia.
Qed.

Lemma F2Z_correct : forall f, is_finite (Prim2B f) = true ->
  F2Z f = Some (Ztrunc (B2R (Prim2B f))).
Proof.
  intros f Hf. unfold F2Z. rewrite <- B2SF_Prim2B.
  destruct (Prim2B f) as [s | s | | s m e Hb]; try discriminate.
  - simpl. now rewrite Ztrunc_IZR.
  - cbn [B2SF B2R]. f_equal.
    rewrite F2R_cond_Zopp. destruct s; cbn [cond_Ropp].
    + rewrite Ztrunc_opp, Ztrunc_pos_F2R. reflexivity.
    + apply eq_sym, Ztrunc_pos_F2R.
Qed.

(** a finite double between two integers truncates to an integer between them *)
Lemma F2Z_bounds : forall f a b, is_finite (Prim2B f) = true ->
  (IZR a <= B2R (Prim2B f) <= IZR b)%R ->
  exists z, F2Z f = Some z /\ a <= z <= b.
Proof.
  intros f a b Hf [H1 H2].
  exists (Ztrunc (B2R (Prim2B f))). split; [now apply F2Z_correct |].
  split.
  - rewrite <- (Ztrunc_IZR a). now apply Ztrunc_le.
  - rewrite <- (Ztrunc_IZR b). now apply Ztrunc_le.
Qed.

(** ** multiplication with an integer-bounded exact product *)
Lemma mul_bounds : forall x y a b,
  is_finite (Prim2B x) = true -> is_finite (Prim2B y) = true ->
  Z.abs a < 2 ^ 53 -> Z.abs b < 2 ^ 53 ->
  (IZR a <= B2R (Prim2B x) * B2R (Prim2B y) <= IZR b)%R ->
  is_finite (Prim2B (x * y)) = true /\ (IZR a <= B2R (Prim2B (x * y)) <= IZR b)%R.
Proof.
  intros x y a b Hx Hy Ha Hb [H1 H2].
  rewrite mul_equiv.
  generalize (Bmult_correct prec emax Hprec Hmax mode_NE (Prim2B x) (Prim2B y)).
  simpl round_mode. change (SpecFloat.fexp prec emax) with fexp64.
  assert (Hr : (IZR a <= rnd64 (B2R (Prim2B x) * B2R (Prim2B y)) <= IZR b)%R)
    by (split; [now apply round_ge_int | now apply round_le_int]).
  rewrite (small_lt_emax _ a b Ha Hb Hr).
  intros (E1 & E2 & _). rewrite E1, E2, Hx, Hy. now split.
Qed.

(** ** division by a positive double with an integer-bounded exact quotient *)
Lemma div_bounds : forall x y a b,
  is_finite (Prim2B x) = true ->
  (B2R (Prim2B y) <> 0)%R ->
  Z.abs a < 2 ^ 53 -> Z.abs b < 2 ^ 53 ->
  (IZR a <= B2R (Prim2B x) / B2R (Prim2B y) <= IZR b)%R ->
  is_finite (Prim2B (x / y)) = true /\ (IZR a <= B2R (Prim2B (x / y)) <= IZR b)%R.
Proof.
  intros x y a b Hx Hy Ha Hb [H1 H2].
  rewrite div_equiv.
  generalize (Bdiv_correct prec emax Hprec Hmax mode_NE (Prim2B x) (Prim2B y) Hy).
  simpl round_mode. change (SpecFloat.fexp prec emax) with fexp64.
  assert (Hr : (IZR a <= rnd64 (B2R (Prim2B x) / B2R (Prim2B y)) <= IZR b)%R)
    by (split; [now apply round_ge_int | now apply round_le_int]).
  rewrite (small_lt_emax _ a b Ha Hb Hr).
  intros (E1 & E2 & _). rewrite E1, E2, Hx. now split.
Qed.

(** ** comparisons of finite doubles *)
Lemma leb_finite : forall x y, is_finite (Prim2B x) = true -> is_finite (Prim2B y) = true ->
  PrimFloat.leb x y = true -> (B2R (Prim2B x) <= B2R (Prim2B y))%R.
Proof.
  intros x y Hx Hy H. rewrite leb_equiv, Bleb_correct in H by assumption.
  now destruct (Rle_bool_spec (B2R (Prim2B x)) (B2R (Prim2B y))).
Qed.

Lemma ltb_finite_true : forall x y, is_finite (Prim2B x) = true -> is_finite (Prim2B y) = true ->
  PrimFloat.ltb x y = true -> (B2R (Prim2B x) < B2R (Prim2B y))%R.
Proof.
  intros x y Hx Hy H. rewrite ltb_equiv, Bltb_correct in H by assumption.
  now destruct (Rlt_bool_spec (B2R (Prim2B x)) (B2R (Prim2B y))).
Qed.

Lemma prim_is_finite : forall x, PrimFloat.is_finite x = true -> is_finite (Prim2B x) = true.
Proof. intros x H. now rewrite <- is_finite_equiv. Qed.

(** * Exported facts (no real numbers in the statements) *)

(** (int/S64)(m * f) for an integer m and a double f between two small integers *)
Lemma Z2F_mul_bounds : forall m f lo hi,
  Z.abs m <= 2 ^ 31 -> 0 <= lo <= hi -> hi <= 1024 ->
  PrimFloat.is_finite f = true ->
  PrimFloat.leb (Z2F lo) f = true -> PrimFloat.leb f (Z2F hi) = true ->
  exists z, F2Z (Z2F m * f) = Some z /\
            (0 <= m -> lo * m <= z <= hi * m) /\ (m <= 0 -> hi * m <= z <= lo * m).
Proof.
  intros m f lo hi Hm Hlh Hhi Hf Hlo Hup.
  apply prim_is_finite in Hf.
  destruct (Z2F_correct m) as [Fm Rm]; [lia |].
  destruct (Z2F_correct lo) as [Fl Rl]; [lia |].
  destruct (Z2F_correct hi) as [Fh Rh]; [lia |].
  apply leb_finite in Hlo; [| assumption ..]. apply leb_finite in Hup; [| assumption ..].
  rewrite Rl in Hlo. rewrite Rh in Hup.
  assert (Hl0 : (0 <= IZR lo)%R) by (apply IZR_le; lia).
  destruct (Z_le_gt_dec 0 m) as [Hm0 | Hm0].
  - assert (Hm0' : (0 <= IZR m)%R) by (apply IZR_le; lia).
    destruct (mul_bounds (Z2F m) f (lo * m) (hi * m) Fm Hf) as [Fp Rp]; [nia | nia | |].
    { rewrite Rm, !mult_IZR. split; nra. }
    destruct (F2Z_bounds _ _ _ Fp Rp) as (z & Hz & Hb).
    exists z. split; [exact Hz |]. split; intros; [lia | nia].
  - assert (Hm0' : (IZR m <= 0)%R) by (apply IZR_le; lia).
    destruct (mul_bounds (Z2F m) f (hi * m) (lo * m) Fm Hf) as [Fp Rp]; [nia | nia | |].
    { rewrite Rm, !mult_IZR. split; nra. }
    destruct (F2Z_bounds _ _ _ Fp Rp) as (z & Hz & Hb).
    exists z. split; [exact Hz |]. split; intros; [lia | lia].
Qed.

(** concrete value of the double 2^-7 *)
Lemma B2R_Prim2B_SF : forall x, B2R (Prim2B x) = SF2R radix2 (Prim2SF x).
Proof. intro x. unfold Prim2B. apply B2R_SF2B. Qed.

Definition f2m7 : PrimFloat.float := 0x1p-7%float.

Lemma B2R_f2m7 : B2R (Prim2B f2m7) = (/ 128)%R.
Proof.
  rewrite B2R_Prim2B_SF.
  replace (Prim2SF f2m7) with (S754_finite false 4503599627370496 (-59)) by (vm_compute; reflexivity).
  unfold SF2R, F2R. cbn [cond_Zopp Fnum Fexp].
  change (bpow radix2 (-59)) with (/ IZR (Zpower_pos radix2 59))%R.
  replace (Zpower_pos radix2 59) with 576460752303423488 by (vm_compute; reflexivity).
  lra.
Qed.

(** the ponder bonus  (int)(min(oTimeLimit, timeLimit / (1 - k)) * k)  is a finite double whose
    integer part is no larger in magnitude than the opponent's per-move time *)
Lemma ponderBonus_bounds :
  PrimFloat.is_finite ponderK = true ->
  PrimFloat.leb (Z2F 0) ponderK = true -> PrimFloat.leb ponderK (Z2F 1) = true ->
  PrimFloat.is_finite (f1_0 - ponderK) = true ->
  PrimFloat.leb f2m7 (f1_0 - ponderK) = true ->
  forall o t, Z.abs o <= 2 ^ 31 -> 0 <= t <= 2 ^ 31 ->
  exists z, F2Z (ponderBonusF o t) = Some z /\ - Z.abs o <= z <= Z.abs o.
Proof.
  intros Kf K0 K1 Cf Cl o t Ho Ht.
  apply prim_is_finite in Kf. apply prim_is_finite in Cf.
  destruct (Z2F_correct 0) as [F0 R0]; [lia |].
  destruct (Z2F_correct 1) as [F1 R1]; [lia |].
  destruct (Z2F_correct o) as [Fo Ro]; [lia |].
  destruct (Z2F_correct t) as [Ft Rt]; [lia |].
  apply leb_finite in K0; [| assumption ..]. apply leb_finite in K1; [| assumption ..].
  rewrite R0 in K0. rewrite R1 in K1.
  assert (F7 : is_finite (Prim2B f2m7) = true) by (rewrite <- is_finite_equiv; vm_compute; reflexivity).
  apply leb_finite in Cl; [| assumption ..]. rewrite B2R_f2m7 in Cl.
  set (c := (f1_0 - ponderK)%float) in *.
  assert (Ht0 : (0 <= IZR t)%R) by (apply IZR_le; lia).
  (* y = t / c *)
  destruct (div_bounds (Z2F t) c 0 (128 * t) Ft) as [Fy Ry]; [lra | lia | lia | |].
  { rewrite Rt, mult_IZR. split.
    - apply Rmult_le_pos; [exact Ht0 |]. apply Rlt_le, Rinv_0_lt_compat. lra.
    - apply Rle_trans with (IZR t * 128)%R; [| lra].
      apply Rmult_le_compat_l; [exact Ht0 |].
      replace 128%R with (/ / 128)%R by lra. apply Rinv_le; lra. }
  set (y := (Z2F t / c)%float) in *.
  (* x = min(o, y) *)
  assert (Hx : is_finite (Prim2B (fmin (Z2F o) y)) = true /\
               (- IZR (Z.abs o) <= B2R (Prim2B (fmin (Z2F o) y)) <= IZR (Z.abs o))%R).
  { unfold fmin. destruct (PrimFloat.ltb y (Z2F o)) eqn:E.
    - split; [exact Fy |]. apply ltb_finite_true in E; [| assumption ..]. rewrite Ro in E.
      assert (IZR o <= IZR (Z.abs o))%R by (apply IZR_le; lia).
      assert (0 <= IZR (Z.abs o))%R by (apply IZR_le; lia). lra.
    - split; [exact Fo |]. rewrite Ro.
      assert (IZR o <= IZR (Z.abs o))%R by (apply IZR_le; lia).
      assert (- IZR (Z.abs o) <= IZR o)%R by (rewrite <- opp_IZR; apply IZR_le; lia). lra. }
  destruct Hx as [Fx Rx].
  unfold ponderBonusF. fold c. fold y.
  destruct (mul_bounds (fmin (Z2F o) y) ponderK (- Z.abs o) (Z.abs o) Fx Kf) as [Fp Rp]; [lia | lia | |].
  { rewrite opp_IZR. assert (0 <= IZR (Z.abs o))%R by (apply IZR_le; lia). split; nra. }
  destruct (F2Z_bounds _ _ _ Fp Rp) as (z & Hz & Hb).
  exists z. split; [exact Hz | lia].
Qed.

(** * hardFactor stays admissible *)
From Texel Require Import TimeMgmt.TimeSpec.

Lemma hf_ok_real : forall hf, hf_ok hf = true <->
  is_finite (Prim2B hf) = true /\ (0 <= B2R (Prim2B hf) <= 4)%R.
Proof.
  intro hf. unfold hf_ok.
  destruct (Z2F_correct 0) as [F0 R0]; [lia |].
  destruct (Z2F_correct 4) as [F4 R4]; [lia |].
  rewrite !andb_true_iff, is_finite_equiv. split.
  - intros [[Hf H0] H4]. split; [exact Hf |].
    apply leb_finite in H0; [| assumption ..]. apply leb_finite in H4; [| assumption ..].
    rewrite R0 in H0. rewrite R4 in H4. lra.
  - intros [Hf [H0 H4]]. repeat split; [exact Hf | |].
    + rewrite leb_equiv, Bleb_correct by assumption. apply Rle_bool_true. now rewrite R0.
    + rewrite leb_equiv, Bleb_correct by assumption. apply Rle_bool_true. now rewrite R4.
Qed.

Lemma hf_ok_fmax : forall a c, hf_ok a = true -> hf_ok c = true -> hf_ok (fmax a c) = true.
Proof. intros a c Ha Hc. unfold fmax. now destruct (PrimFloat.ltb a c). Qed.

Lemma add_bounds : forall x y a b,
  is_finite (Prim2B x) = true -> is_finite (Prim2B y) = true ->
  Z.abs a < 2 ^ 53 -> Z.abs b < 2 ^ 53 ->
  (IZR a <= B2R (Prim2B x) + B2R (Prim2B y) <= IZR b)%R ->
  is_finite (Prim2B (x + y)) = true /\ (IZR a <= B2R (Prim2B (x + y)) <= IZR b)%R.
Proof.
  intros x y a b Hx Hy Ha Hb [H1 H2].
  rewrite add_equiv.
  generalize (Bplus_correct prec emax Hprec Hmax mode_NE (Prim2B x) (Prim2B y) Hx Hy).
  simpl round_mode. change (SpecFloat.fexp prec emax) with fexp64.
  assert (Hr : (IZR a <= rnd64 (B2R (Prim2B x) + B2R (Prim2B y)) <= IZR b)%R)
    by (split; [now apply round_ge_int | now apply round_le_int]).
  rewrite (small_lt_emax _ a b Ha Hb Hr).
  intros (E1 & E2 & _). rewrite E1, E2. now split.
Qed.

(** hardFactor = (hardFactor + hard) / 2 *)
Lemma hf_ok_iterEnd : forall hf hard, hf_ok hf = true -> hf_ok hard = true ->
  hf_ok (hf_iterEnd hf hard) = true.
Proof.
  intros hf hard Ha Hh. apply hf_ok_real in Ha. apply hf_ok_real in Hh.
  destruct Ha as [Fa Ra]. destruct Hh as [Fh Rh].
  apply hf_ok_real. unfold hf_iterEnd.
  destruct (add_bounds hf hard 0 8 Fa Fh) as [Fs Rs]; [lia | lia | simpl; lra |].
  change 2%float with (Z2F 2).
  destruct (Z2F_correct 2) as [F2 R2]; [lia |].
  destruct (div_bounds (hf + hard) (Z2F 2) 0 4 Fs) as [Fd Rd]; [rewrite R2; lra | lia | lia | |].
  { rewrite R2. simpl in Rs |- *. lra. }
  split; [exact Fd | simpl in Rd; lra].
Qed.

Lemma hf_ok_consts : hf_ok hf_init = true /\ hf_ok 1%float = true /\ hf_ok 2%float = true.
Proof. repeat split; vm_compute; reflexivity. Qed.
