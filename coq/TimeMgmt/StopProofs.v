(** C06 -- proofs about the stop tests: whatever the polling instants and whatever the evolution
    of hardFactor / needMoreTime, the limit compared against is at most the hard limit, so the
    first time test executed at or after tStart + hard stops the search. *)
From Coq Require Import ZArith Bool List Lia Floats.
From Texel Require Import gen.TimeParams TimeMgmt.TimeMgmt TimeMgmt.TimeSpec TimeMgmt.FloatFacts
  TimeMgmt.HardOfProofs TimeMgmt.TimeProofs.
Import ListNotations.
Local Open Scope Z_scope.

Lemma s64_ok_iff : forall z, s64_ok z = true <-> -9223372036854775808 <= z <= 9223372036854775807.
Proof. intro z. unfold s64_ok, S64_MIN, S64_MAX. rewrite andb_true_iff, !Z.leb_le. tauto. Qed.

(** the limit shouldStop() compares against lies in [0, hard] (and the double->S64 conversion of
    minT * hardFactor is in range) *)
Lemma pollLimit_bounds : forall sl hf nm, limits_ok sl -> hf_ok hf = true ->
  0 <= pollLimit sl hf nm <= maxTimeMillis sl /\ pollLimit_noovf sl hf = true.
Proof.
  intros sl hf nm [[H0 H1] H2] Hhf.
  unfold hf_ok in Hhf. rewrite !andb_true_iff in Hhf. destruct Hhf as [[Hf Hl] Hh].
  destruct (Z2F_mul_bounds (minTimeMillis sl) hf 0 4) as (z & Hz & Hp & _);
    [lia | lia | lia | exact Hf | exact Hl | exact Hh |].
  specialize (Hp H0).
  assert (Hs : s64_ok z = true) by (apply s64_ok_iff; lia).
  unfold pollLimit, pollLimit_noovf, truncS64, truncS64_ok. rewrite Hz, Hs.
  destruct ((0 <=? minTimeMillis sl) && (earlyStopPercentage sl <=? 100)); destruct nm; split;
    try reflexivity; lia.
Qed.

(** every time test executed at or after tStart + hard stops the search *)
Theorem poll_stops : forall sl tStart e,
  limits_ok sl -> qualifying e = true ->
  tStart <= eventTime e < tStart + 2 ^ 63 ->
  maxTimeMillis sl <= eventTime e - tStart ->
  eventStops sl tStart e = true.
Proof.
  intros sl tStart e Hok Hq Ht Hd.
  pose proof Hok as [[H0 H1] H2].
  destruct e as [mn mx esp | t hf nm | t fi nm | t hf]; cbn [qualifying eventTime eventStops] in *.
  - discriminate.
  - destruct (pollLimit_bounds sl hf nm Hok Hq) as [[A B] _].
    unfold shouldStopTime. apply andb_true_iff. rewrite !Z.leb_le. lia.
  - apply negb_true_iff in Hq. subst fi. unfold rootMoveStop.
    rewrite Z.mod_small by lia.
    apply andb_true_iff. rewrite !Z.leb_le. destruct nm; lia.
  - unfold iterEndStop. apply andb_true_iff. split; [apply Z.leb_le; lia |].
    apply orb_true_iff. right. apply Z.leb_le. lia.
Qed.

Lemma limits_ok_event : forall sl e, limits_ok sl -> setLimits_ok e -> limits_ok (eventLimits sl e).
Proof.
  intros sl e H He. destruct e; cbn [eventLimits]; try exact H.
  unfold limits_ok, search_timeLimit. cbn [minTimeMillis maxTimeMillis]. exact He.
Qed.

Lemma limits_ok_after : forall evs sl, limits_ok sl -> Forall setLimits_ok evs ->
  limits_ok (limitsAfter sl evs).
Proof.
  induction evs as [| e evs IH]; intros sl H HF; [exact H |].
  inversion HF; subst. unfold limitsAfter. cbn [fold_left].
  apply IH; [now apply limits_ok_event | assumption].
Qed.

Lemma deadline_from : forall pre k sl tStart e post,
  limits_ok sl -> Forall setLimits_ok pre -> qualifying e = true ->
  tStart <= eventTime e < tStart + 2 ^ 63 ->
  maxTimeMillis (limitsAfter sl pre) <= eventTime e - tStart ->
  exists j, runFrom k sl tStart (pre ++ e :: post) = Some j /\ (k <= j <= k + length pre)%nat.
Proof.
  induction pre as [| p pre IH]; intros k sl tStart e post Hok HF Hq Ht Hd.
  - cbn [app runFrom]. cbn [limitsAfter fold_left] in Hd.
    rewrite (poll_stops sl tStart e Hok Hq Ht Hd). exists k. cbn [length]. split; [reflexivity | lia].
  - inversion HF; subst. cbn [app runFrom].
    destruct (eventStops sl tStart p).
    + exists k. split; [reflexivity | cbn [length]; lia].
    + destruct (IH (S k) (eventLimits sl p) tStart e post) as (j & Hj & Hb); try assumption.
      * now apply limits_ok_event.
      * exists j. split; [exact Hj | cbn [length]; lia].
Qed.

(** C06_deadline: for every sequence of events (polls of the three kinds at arbitrary instants with
    arbitrary admissible hardFactor / needMoreTime values, limit changes by ponderhit/stop), a time
    test executed when at least [hard] ms (the hard limit then in force) have elapsed is never
    reached with the search still running: the search has stopped at that event or earlier. *)
Theorem deadline : forall sl tStart pre e post,
  limits_ok sl -> Forall setLimits_ok pre -> qualifying e = true ->
  tStart <= eventTime e < tStart + 2 ^ 63 ->
  maxTimeMillis (limitsAfter sl pre) <= eventTime e - tStart ->
  exists j, run sl tStart (pre ++ e :: post) = Some j /\ (j <= length pre)%nat.
Proof.
  intros sl tStart pre e post Hok HF Hq Ht Hd.
  destruct (deadline_from pre 0 sl tStart e post Hok HF Hq Ht Hd) as (j & Hj & Hb).
  exists j. split; [exact Hj | lia].
Qed.

(** after [stop] (limits 0/0) the first time test stops, whatever the clock shows *)
Theorem stop_then_first_poll : forall sl tStart pre e post,
  limits_ok sl -> Forall setLimits_ok pre -> qualifying e = true ->
  tStart <= eventTime e < tStart + 2 ^ 63 ->
  exists j, run sl tStart (pre ++ ESetLimits 0 0 (-1) :: e :: post) = Some j /\ (j <= S (length pre))%nat.
Proof.
  intros sl tStart pre e post Hok HF Hq Ht.
  replace (pre ++ ESetLimits 0 0 (-1) :: e :: post) with ((pre ++ [ESetLimits 0 0 (-1)]) ++ e :: post)
    by (rewrite <- app_assoc; reflexivity).
  destruct (deadline sl tStart (pre ++ [ESetLimits 0 0 (-1)]) e post Hok) as (j & Hj & Hb); try assumption.
  - apply Forall_app. split; [assumption |]. constructor; [cbn; lia | constructor].
  - unfold limitsAfter. rewrite fold_left_app. cbn [fold_left eventLimits search_timeLimit maxTimeMillis]. lia.
  - exists j. split; [exact Hj |]. rewrite app_length in Hb. cbn [length] in Hb. lia.
Qed.

(** the limits produced by the engine satisfy [limits_ok] / [setLimits_ok] *)
Lemma limits_ok_of : forall mn mx esp, 0 <= mn <= mx -> mx <= 2147483647 ->
  limits_ok (search_timeLimit mn mx esp).
Proof. intros. unfold limits_ok, search_timeLimit. cbn. lia. Qed.

(** ** hardFactor stays admissible under the updates of iterativeDeepening *)
Inductive HfStep : float -> float -> Prop :=
| HfFailHigh : forall hf, HfStep hf (hf_failHigh hf)
| HfFailLow : forall hf, HfStep hf (hf_failLow hf)
| HfIterEnd : forall hf firstMoveNodes totalNodes,     (* any node counts, even 0/0 *)
    HfStep hf (hf_iterEnd hf (hardOf (nodeFraction firstMoveNodes totalNodes)))
| HfIterEndAny : forall hf hard, hf_ok hard = true -> HfStep hf (hf_iterEnd hf hard).

Inductive HfReach : float -> Prop :=
| HfInit : HfReach hf_init
| HfNext : forall a b, HfReach a -> HfStep a b -> HfReach b.

Theorem hardFactor_admissible : forall hf, HfReach hf -> hf_ok hf = true.
Proof.
  induction 1 as [| a b Ha IH Hs].
  - apply hf_ok_consts.
  - destruct Hs.
    + apply hf_ok_fmax; [exact IH | apply hf_ok_consts].
    + apply hf_ok_fmax; [exact IH | apply hf_ok_consts].
    + apply hf_ok_iterEnd; [exact IH | apply hardOf_range].
    + now apply hf_ok_iterEnd.
Qed.

(** non-vacuity: a concrete run -- soft 1000, hard 4000, polls every 300 ms; the node poll at
    4200 ms is event 5 and the search has stopped by then (here: at the poll at 1200 ms, event 3,
    because hardFactor 1.0 makes the soft limit apply) *)
Example deadline_example :
  run (mkSL 1000 4000 85) 0
      [ENodePoll 300 1%float false; ENodePoll 600 1%float false; ENodePoll 900 1%float false;
       ENodePoll 1200 1%float false; ENodePoll 3900 2%float true; ENodePoll 4200 2%float true] = Some 3%nat /\
  run (mkSL 1000 4000 85) 0
      [ENodePoll 300 2%float true; ERootMovePoll 3999 false true; EIterEndPoll 2000 3.5%float;
       ENodePoll 4000 3.5%float true] = Some 3%nat /\
  run (mkSL (-1) (-1) 85) 0
      [ENodePoll 300 1%float false; ESetLimits 0 0 (-1); ENodePoll 301 1%float false] = Some 2%nat.
Proof. repeat split; vm_compute; reflexivity. Qed.
