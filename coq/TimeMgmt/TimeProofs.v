(** C06 -- proofs about the allocation ([computeTimeLimit], one-move clamp, ponderHit,
    stopThread).  Integer reasoning by [lia]; the facts about doubles come from FloatFacts.v. *)
From Coq Require Import ZArith Bool List Lia Floats.
From Texel Require Import gen.TimeParams TimeMgmt.TimeMgmt TimeMgmt.TimeSpec TimeMgmt.FloatFacts.
Import ListNotations.
Local Open Scope Z_scope.

(** ** facts about the regenerated parameters (re-checked whenever parameters.hpp changes) *)
Lemma params_facts :
  1 <= timeMaxRemainingMoves <= 200 /\ 1 <= minTimeUsage <= 100 /\
  1 <= bufferTime_min /\ bufferTime_max <= 1000000.
Proof. unfold timeMaxRemainingMoves, minTimeUsage, bufferTime_min, bufferTime_max. lia. Qed.

Definition uf_ok (mv : Z) : bool :=
  PrimFloat.is_finite (usageFactor mv) && PrimFloat.leb (Z2F 1) (usageFactor mv)
  && PrimFloat.leb (usageFactor mv) (Z2F 10).

Lemma uf_sweep :
  forallb uf_ok (map Z.of_nat (seq 1 (Z.to_nat timeMaxRemainingMoves))) = true.
Proof. vm_compute. reflexivity. Qed.

Lemma uf_all : forall mv, 1 <= mv <= timeMaxRemainingMoves -> uf_ok mv = true.
Proof.
  intros mv H.
  apply (proj1 (forallb_forall _ _) uf_sweep).
  apply in_map_iff. exists (Z.to_nat mv). split; [lia |].
  apply in_seq. lia.
Qed.

Lemma ponderK_facts :
  PrimFloat.is_finite ponderK = true /\
  PrimFloat.leb (Z2F 0) ponderK = true /\ PrimFloat.leb ponderK (Z2F 1) = true /\
  PrimFloat.is_finite (f1_0 - ponderK) = true /\
  PrimFloat.leb f2m7 (f1_0 - ponderK) = true.
Proof. repeat split; vm_compute; reflexivity. Qed.

(** ** helpers *)
Lemma int_ok_iff : forall z, int_ok z = true <-> -2147483648 <= z <= 2147483647.
Proof. intro z. unfold int_ok, INT_MIN, INT_MAX. rewrite andb_true_iff, !Z.leb_le. tauto. Qed.

Lemma quot_abs_le : forall a b, 1 <= b -> Z.abs (Z.quot a b) <= Z.abs a.
Proof.
  intros a b Hb. rewrite <- Z.quot_abs by lia.
  rewrite Z.quot_div_nonneg by lia.
  apply Z.div_le_upper_bound; nia.
Qed.

Lemma quot_nonneg_bounds : forall a b, 0 <= a -> 1 <= b -> 0 <= Z.quot a b <= a.
Proof.
  intros a b Ha Hb. rewrite Z.quot_div_nonneg by lia. split.
  - apply Z.div_pos; lia.
  - apply Z.div_le_upper_bound; nia.
Qed.

Lemma margin_bounds : forall t buf, 1 <= t -> 1 <= buf ->
  0 <= margin t buf <= t - 1 /\ margin t buf <= buf.
Proof.
  intros t buf Ht Hb. unfold margin.
  rewrite Z.quot_div_nonneg by lia.
  assert (0 <= t * 9 / 10 <= t - 1).
  { split; [apply Z.div_pos; lia |]. apply Z.lt_succ_r. apply Z.div_lt_upper_bound; lia. }
  lia.
Qed.

Lemma truncInt_of : forall f z, F2Z f = Some z -> int_ok z = true ->
  truncInt f = z /\ truncInt_ok f = true.
Proof. intros f z H Hz. unfold truncInt, truncInt_ok. rewrite H, Hz. auto. Qed.

(** ** the clock branch of computeTimeLimit *)
Lemma clockLimits_spec : forall buf po white sp, InRange buf sp ->
  exists mn mx, clockLimits buf po white sp = (mn, mx, true) /\
    1 <= mn /\ mn <= mx /\ mx <= budget (moverTime white sp) buf.
Proof.
  intros buf po white sp R.
  destruct R as [Rb Rw Rbt Rwi Rbi Rm Rmt Rma].
  pose proof params_facts as (Pm & Pu & Pb1 & Pb2).
  unfold clockLimits, budget, moverTime. cbv zeta.
  set (moves := Z.min (if movesToGo sp =? 0 then 999 else movesToGo sp) timeMaxRemainingMoves).
  assert (Hmoves : 1 <= moves <= timeMaxRemainingMoves)
    by (subst moves; destruct (Z.eqb_spec (movesToGo sp) 0); lia).
  set (time := if white then wTime sp else bTime sp).
  set (inc := if white then wInc sp else bInc sp).
  set (oTime := if white then bTime sp else wTime sp).
  set (oInc := if white then bInc sp else wInc sp).
  assert (Ht : 1 <= time <= 10000000) by (subst time; destruct white; lia).
  assert (Hi : 0 <= inc <= 100000) by (subst inc; destruct white; lia).
  assert (Hot : 1 <= oTime <= 10000000) by (subst oTime; destruct white; lia).
  assert (Hoi : 0 <= oInc <= 100000) by (subst oInc; destruct white; lia).
  fold (margin time buf).
  destruct (margin_bounds time buf) as [Hmg Hmg2]; [lia | lia |].
  set (mg := margin time buf) in *.
  set (num := time + inc * (moves - 1) - mg).
  assert (Hnum : 1 <= num <= 30000000) by (subst num; nia).
  destruct (quot_nonneg_bounds num moves) as [Htl0 Htl1]; [lia | lia |].
  set (timeLimit := Z.quot num moves) in *.
  pose proof (uf_all moves Hmoves) as Huf. unfold uf_ok in Huf.
  rewrite !andb_true_iff in Huf. destruct Huf as [[Uf U1] U10].
  assert (Hok1 : int_ok (time * 9) && int_ok (moves - 1) && int_ok (inc * (moves - 1))
                 && int_ok (time + inc * (moves - 1)) && int_ok num && negb (moves =? 0) = true).
  { rewrite !andb_true_iff, !int_ok_iff, negb_true_iff, Z.eqb_neq. subst num. repeat split; nia. }
  rewrite Hok1.
  assert (Hbud : int_ok (time - mg) = true) by (apply int_ok_iff; lia).
  rewrite Hbud.
  (* the soft limit before clamping, with or without the ponder bonus *)
  assert (Hmin : exists minTL ok2,
     (if po then
        (timeLimit + truncInt (ponderBonusF (Z.quot (oTime + oInc * (moves - 1) - mg) moves) timeLimit),
         int_ok (oInc * (moves - 1)) && int_ok (oTime + oInc * (moves - 1))
         && int_ok (oTime + oInc * (moves - 1) - mg)
         && truncInt_ok (ponderBonusF (Z.quot (oTime + oInc * (moves - 1) - mg) moves) timeLimit)
         && int_ok (timeLimit + truncInt (ponderBonusF (Z.quot (oTime + oInc * (moves - 1) - mg) moves) timeLimit)))
      else (timeLimit, true)) = (minTL, ok2) /\ ok2 = true /\ Z.abs minTL <= 60000000).
  { destruct po.
    - set (onum := oTime + oInc * (moves - 1) - mg).
      assert (Honum : Z.abs onum <= 30000000) by (subst onum; nia).
      pose proof (quot_abs_le onum moves ltac:(lia)) as Hq.
      set (oTL := Z.quot onum moves) in *.
      destruct ponderK_facts as (K1 & K2 & K3 & K4 & K5).
      destruct (ponderBonus_bounds K1 K2 K3 K4 K5 oTL timeLimit) as (z & Hz & Hzb); [lia | lia |].
      destruct (truncInt_of _ z Hz) as [E1 E2]; [apply int_ok_iff; lia |].
      rewrite E1, E2.
      eexists; eexists; split; [reflexivity |]. split; [| lia].
      rewrite !andb_true_iff, !int_ok_iff. subst onum. repeat split; nia.
    - exists timeLimit, true. split; [reflexivity |]. split; [reflexivity | lia]. }
  destruct Hmin as (minTL & ok2 & E & Hok2 & HminTL).
  rewrite E. subst ok2. cbv beta iota.
  destruct (Z2F_mul_bounds minTL (usageFactor moves) 1 10) as (z & Hz & Hpos & Hneg);
    [lia | lia | lia | exact Uf | exact U1 | exact U10 |].
  destruct (truncInt_of _ z Hz) as [E1 E2]; [apply int_ok_iff; lia |].
  rewrite E1, E2.
  eexists; eexists; split; [reflexivity |].
  unfold zclamp. lia.
Qed.

(** ** computeTimeLimit *)
Lemma okd_true : forall sp, 0 <= mate sp <= 1000000000 ->
  (if 0 <? mate sp then int_ok (mate sp * 2) && int_ok (mate sp * 2 - 1) else true) = true.
Proof.
  intros sp H. destruct (0 <? mate sp); [| reflexivity].
  rewrite andb_true_iff, !int_ok_iff. lia.
Qed.

Theorem allocation_bounds : forall buf po white sp,
  InRange buf sp -> moveTime sp = 0 -> infinite sp = false ->
  let L := computeTimeLimit buf po white sp in
  let t := moverTime white sp in
  1 <= minTimeLimit L /\ minTimeLimit L <= maxTimeLimit L /\ maxTimeLimit L <= budget t buf /\
  budget t buf = Z.max 1 (t - margin t buf) /\
  earlyStop L = -1 /\
  computeTimeLimit_noovf buf po white sp = true.
Proof.
  intros buf po white sp R Hmt Hinf.
  destruct (clockLimits_spec buf po white sp R) as (mn & mx & E & H1 & H2 & H3).
  pose proof R as [Rb Rw Rbt Rwi Rbi Rm Rmt Rma].
  pose proof params_facts as (Pm & Pu & Pb1 & Pb2).
  assert (Hbud : budget (moverTime white sp) buf =
                 Z.max 1 (moverTime white sp - margin (moverTime white sp) buf)).
  { unfold budget. destruct (margin_bounds (moverTime white sp) buf); [unfold moverTime; destruct white; lia | lia | lia]. }
  assert (Hw : negb (wTime sp =? 0) || negb (bTime sp =? 0) = true).
  { destruct (Z.eqb_spec (wTime sp) 0); [lia | reflexivity]. }
  unfold computeTimeLimit, computeTimeLimit_noovf, ctl_full.
  rewrite Hinf, Hmt, Hw, E, (okd_true sp Rma). cbn [fst snd minTimeLimit maxTimeLimit earlyStop].
  change (0 <? 0) with false. cbv iota.
  cbn [fst snd minTimeLimit maxTimeLimit earlyStop andb].
  repeat split; try assumption; reflexivity.
Qed.

Theorem fixed_movetime : forall buf po white sp,
  InRange buf sp -> 0 < moveTime sp -> infinite sp = false ->
  let L := computeTimeLimit buf po white sp in
  minTimeLimit L = moveTime sp /\ maxTimeLimit L = moveTime sp /\ earlyStop L = 10000 /\
  computeTimeLimit_noovf buf po white sp = true.
Proof.
  intros buf po white sp R Hmt Hinf.
  pose proof R as [Rb Rw Rbt Rwi Rbi Rm Rmt Rma].
  unfold computeTimeLimit, computeTimeLimit_noovf, ctl_full.
  rewrite Hinf. apply Z.ltb_lt in Hmt. rewrite Hmt.
  cbn [fst snd minTimeLimit maxTimeLimit earlyStop].
  rewrite (okd_true sp Rma). auto.
Qed.

(** with a time control the limits are positive and ordered, whichever branch *)
Lemma limits_positive : forall buf po white sp,
  InRange buf sp -> infinite sp = false ->
  let L := computeTimeLimit buf po white sp in
  1 <= minTimeLimit L /\ minTimeLimit L <= maxTimeLimit L /\ maxTimeLimit L <= 10000000.
Proof.
  intros buf po white sp R Hinf L.
  pose proof R as [Rb Rw Rbt Rwi Rbi Rm Rmt Rma].
  destruct (Z.eq_dec (moveTime sp) 0) as [E | E].
  - destruct (allocation_bounds buf po white sp R E Hinf) as (H1 & H2 & H3 & H4 & _).
    fold L in H1, H2, H3.
    pose proof params_facts as (Pm & Pu & Pb1 & Pb2).
    destruct (margin_bounds (moverTime white sp) buf); [unfold moverTime; destruct white; lia | lia |].
    unfold budget in H3. unfold moverTime in *. destruct white; lia.
  - destruct (fixed_movetime buf po white sp R ltac:(lia) Hinf) as (H1 & H2 & _).
    fold L in H1, H2. lia.
Qed.

(** ** startThread: the single-legal-move clamp *)
Theorem one_move_clamp : forall lim minT maxT esp maxD nMoves,
  nMoves < 2 -> 1 <= minT <= maxT ->
  let st := startThread lim false false minT maxT esp maxD nMoves in
  exists sl, ecSearch st = Some sl /\ ecOneMove st = true /\
    1 <= minTimeMillis sl /\ minTimeMillis sl <= maxTimeMillis sl /\
    maxTimeMillis sl <= 100 /\ maxTimeMillis sl = Z.max 1 (Z.min 100 (Z.quot maxT 100)) /\
    maxTimeMillis sl <= maxT.
Proof.
  intros lim minT maxT esp maxD nMoves Hn Hm. unfold startThread.
  apply Z.ltb_lt in Hn. rewrite Hn. cbn [negb andb].
  assert (H0 : 0 <? maxT = true) by (apply Z.ltb_lt; lia). rewrite H0.
  cbn [ecSearch ecOneMove]. eexists. split; [reflexivity |]. split; [reflexivity |].
  unfold search_timeLimit. cbn [minTimeMillis maxTimeMillis]. unfold zclamp.
  destruct (quot_nonneg_bounds minT 100) as [A1 A2]; [lia | lia |].
  destruct (quot_nonneg_bounds maxT 100) as [B1 B2]; [lia | lia |].
  assert (Z.quot minT 100 <= Z.quot maxT 100).
  { rewrite !Z.quot_div_nonneg by lia. apply Z.div_le_mono; lia. }
  lia.
Qed.

(** with two or more legal moves (or while pondering / infinite) the limits pass unchanged *)
Theorem startThread_unclamped : forall lim ponder inf minT maxT esp maxD nMoves,
  (2 <= nMoves \/ ponder = true \/ inf = true) ->
  ecSearch (startThread lim ponder inf minT maxT esp maxD nMoves) =
  Some (search_timeLimit minT maxT esp).
Proof.
  intros lim ponder inf minT maxT esp maxD nMoves H. unfold startThread.
  destruct (Z.ltb_spec nMoves 2); destruct ponder; destruct inf; cbn [negb andb]; try reflexivity.
  exfalso. destruct H as [H | [H | H]]; [lia | discriminate | discriminate].
Qed.

(** limits handed to the search by a normal [go] never exceed the allocation *)
Theorem startSearch_limits : forall buf po white sp nMoves,
  InRange buf sp -> infinite sp = false ->
  let L := computeTimeLimit buf po white sp in
  exists sl, ecSearch (startSearch buf po white sp nMoves) = Some sl /\
    1 <= minTimeMillis sl /\ minTimeMillis sl <= maxTimeMillis sl /\
    maxTimeMillis sl <= maxTimeLimit L /\
    (nMoves < 2 -> maxTimeMillis sl <= 100).
Proof.
  intros buf po white sp nMoves R Hinf L.
  destruct (limits_positive buf po white sp R Hinf) as (H1 & H2 & H3). fold L in H1, H2, H3.
  unfold startSearch. fold L.
  assert (Hi : (maxTimeLimit L <? 0) && (maxDepth L <? 0) && (maxNodes L <? 0) = false).
  { destruct (Z.ltb_spec (maxTimeLimit L) 0); [lia | reflexivity]. }
  rewrite Hi.
  destruct (Z_lt_ge_dec nMoves 2) as [Hn | Hn].
  - destruct (one_move_clamp L (minTimeLimit L) (maxTimeLimit L) (earlyStop L) (maxDepth L) nMoves Hn)
      as (sl & E & _ & A & B & C & _ & D); [lia |].
    exists sl. repeat split; try assumption; intros; assumption.
  - rewrite startThread_unclamped by lia.
    eexists. split; [reflexivity |]. unfold search_timeLimit. cbn [minTimeMillis maxTimeMillis].
    repeat split; try lia.
Qed.

(** ** ponderHit *)
Theorem ponderhit_limits : forall buf po white sp nMoves,
  InRange buf sp -> infinite sp = false ->
  let L := computeTimeLimit buf po white sp in
  let st0 := startPonder buf po white sp nMoves in
  let st := ponderHit st0 in
  ecSearch st0 = Some (mkSL (-1) (-1) minTimeUsage) /\          (* no deadline while pondering *)
  ecPonder st0 = true /\ ecPonder st = false /\ ecInfinite st = false /\
  exists sl, ecSearch st = Some sl /\
    1 <= minTimeMillis sl /\ minTimeMillis sl <= maxTimeMillis sl /\
    maxTimeMillis sl <= maxTimeLimit L /\
    (nMoves < 2 -> maxTimeMillis sl <= 1) /\
    (2 <= nMoves -> minTimeMillis sl = minTimeLimit L /\ maxTimeMillis sl = maxTimeLimit L).
Proof.
  intros buf po white sp nMoves R Hinf L st0 st.
  destruct (limits_positive buf po white sp R Hinf) as (H1 & H2 & H3). fold L in H1, H2, H3.
  subst st st0. unfold startPonder. fold L. unfold startThread.
  cbn [negb andb]. rewrite andb_true_r, andb_false_r.
  unfold ponderHit. cbn [ecSearch ecPonder ecLim ecOneMove ecInfinite ecSearchDepth].
  split; [reflexivity |]. split; [reflexivity |]. split; [reflexivity |].
  destruct (Z.ltb_spec nMoves 2) as [Hn | Hn]; cbn [andb].
  - destruct (Z.ltb_spec 1 (minTimeLimit L)); destruct (Z.ltb_spec 1 (maxTimeLimit L));
      cbn [maxTimeLimit maxDepth maxNodes minTimeLimit ecInfinite ecSearch];
      (split; [ match goal with |- (?a <? 0) && _ && _ = false =>
                  destruct (Z.ltb_spec a 0); [lia | reflexivity] end |]);
      (eexists; split; [reflexivity |]);
      unfold search_timeLimit; cbn [minTimeMillis maxTimeMillis]; lia.
  - cbn [maxTimeLimit maxDepth maxNodes minTimeLimit ecInfinite ecSearch].
    split; [destruct (Z.ltb_spec (maxTimeLimit L) 0); [lia | reflexivity] |].
    eexists; split; [reflexivity |].
    unfold search_timeLimit; cbn [minTimeMillis maxTimeMillis]; lia.
Qed.

(** ** stopThread *)
Theorem stop_zero_limits : forall st sl, ecSearch st = Some sl ->
  ecSearch (stopThread st) = Some (mkSL 0 0 minTimeUsage) /\
  ecPonder (stopThread st) = false /\ ecInfinite (stopThread st) = false.
Proof. intros st sl H. unfold stopThread. rewrite H. cbn. auto. Qed.

(** ** the property's literal wording (budget = clock - BufferTime) *)
Theorem literal_budget_when_clock_large : forall buf po white sp,
  InRange buf sp -> moveTime sp = 0 -> infinite sp = false ->
  buf <= Z.quot (moverTime white sp * 9) 10 ->
  maxTimeLimit (computeTimeLimit buf po white sp) <= literalBudget (moverTime white sp) buf.
Proof.
  intros buf po white sp R Hmt Hinf Hb.
  destruct (allocation_bounds buf po white sp R Hmt Hinf) as (_ & _ & H & _).
  unfold budget, margin in H. unfold literalBudget. lia.
Qed.

Theorem literal_budget_refuted : exists buf po white sp,
  InRange buf sp /\ moveTime sp = 0 /\ infinite sp = false /\
  literalBudget (moverTime white sp) buf < maxTimeLimit (computeTimeLimit buf po white sp).
Proof.
  exists 1000, false, true, (mkSP 1000 1000 0 0 1 0 0 0 0 false).
  split; [constructor; cbn; unfold bufferTime_min, bufferTime_max; lia |].
  split; [reflexivity |]. split; [reflexivity |]. vm_compute. reflexivity.
Qed.

(** non-vacuity: concrete in-range inputs and the limits the model computes for them *)
Example allocation_example :
  InRange 1000 (mkSP 60000 50000 1000 0 0 0 0 0 0 false) /\
  computeTimeLimit 1000 true true (mkSP 60000 50000 1000 0 0 0 0 0 0 false) = mkLim 3147 12588 (-1) (-1) (-1) /\
  computeTimeLimit 1000 false false (mkSP 900 700 0 0 1 0 0 0 0 false) = mkLim 70 70 (-1) (-1) (-1).
Proof.
  split; [constructor; cbn; unfold bufferTime_min, bufferTime_max; lia |].
  split; vm_compute; reflexivity.
Qed.

Example one_move_example :
  ecSearch (startSearch 1000 false true (mkSP 60000 50000 0 0 0 0 0 0 0 false) 1) = Some (mkSL 16 67 85) /\
  ecSearch (ponderHit (startPonder 1000 false true (mkSP 60000 50000 0 0 0 0 0 0 0 false) 1)) = Some (mkSL 1 1 85).
Proof. split; vm_compute; reflexivity. Qed.
