(** C06 -- executable model of texel's time management.

    Shaped like the C++ (no proofs inside):
      app/texel/enginecontrol.cpp   computeTimeLimit, startSearch/startPonder, startThread's
                                    single-legal-move clamp, ponderHit, stopThread
      lib/texellib/search.cpp       Search::timeLimit, Search::shouldStop, the time tests after a
                                    root move and after an iteration, the hardFactor updates
    [int] arithmetic is over [Z] with C++ semantics ([/] = [Z.quot]) and a [_noovf] companion that
    is true iff every signed [int] intermediate fits 32 bits and every double->int conversion is
    in range.  [double] sub-expressions use Coq's primitive floats (IEEE binary64, round to
    nearest even = SSE2 doubles), int->double as [cvtsi2sd], double->int as [cvttsd2si]
    (truncation toward zero; the x86 "integer indefinite" value when out of range, flagged by
    the [_noovf] companions because it is undefined behaviour in C++). *)
From Coq Require Import ZArith Bool List Floats Uint63.
Set Warnings "-inexact-float".

From Texel Require Import gen.TimeParams.
Import ListNotations.
Local Open Scope Z_scope.

(** * Machine integers and conversions *)

Definition INT_MIN : Z := -2147483648.
Definition INT_MAX : Z := 2147483647.
Definition S64_MIN : Z := -9223372036854775808.
Definition S64_MAX : Z := 9223372036854775807.
Definition int_ok (z : Z) : bool := (INT_MIN <=? z) && (z <=? INT_MAX).
Definition s64_ok (z : Z) : bool := (S64_MIN <=? z) && (z <=? S64_MAX).

(** int / S64 -> double (exact below 2^53, correctly rounded up to 2^63) *)
Definition Z2F (z : Z) : float :=
  if z <? 0 then PrimFloat.opp (PrimFloat.of_uint63 (Uint63.of_Z (- z)))
  else PrimFloat.of_uint63 (Uint63.of_Z z).

(** integer part of a finite double (truncation toward zero); [None] for NaN and infinities *)
Definition F2Z (f : float) : option Z :=
  match Prim2SF f with
  | S754_zero _ => Some 0
  | S754_finite s m e =>
      let a := if 0 <=? e then Z.shiftl (Zpos m) e else Z.shiftr (Zpos m) (- e) in
      Some (if s then - a else a)
  | _ => None
  end.

Definition truncInt_ok (f : float) : bool :=
  match F2Z f with Some z => int_ok z | None => false end.
Definition truncInt (f : float) : Z :=            (* (int)f *)
  match F2Z f with Some z => if int_ok z then z else INT_MIN | None => INT_MIN end.
Definition truncS64_ok (f : float) : bool :=
  match F2Z f with Some z => s64_ok z | None => false end.
Definition truncS64 (f : float) : Z :=            (* (S64)f *)
  match F2Z f with Some z => if s64_ok z then z else S64_MIN | None => S64_MIN end.

(** std::min / std::max / clamp (util.hpp: min(max(val,lo),hi)) on doubles and ints *)
Definition fmin (a b : float) : float := if PrimFloat.ltb b a then b else a.
Definition fmax (a b : float) : float := if PrimFloat.ltb a b then b else a.
Definition fclamp (v lo hi : float) : float := fmin (fmax v lo) hi.
Definition zclamp (v lo hi : Z) : Z := Z.min (Z.max v lo) hi.

(** the double literals of the source *)
Definition f0_01 : float := 0x1.47ae147ae147bp-7%float.   (* 0.01 *)
Definition f0_5  : float := 0.5%float.
Definition f1_0  : float := 1%float.
Definition f2_0  : float := 2%float.

(** * computeTimeLimit *)

Record SearchParams := mkSP {
  wTime : Z; bTime : Z; wInc : Z; bInc : Z; movesToGo : Z;
  depth : Z; nodes : Z; mate : Z; moveTime : Z; infinite : bool }.

Record Limits := mkLim {
  minTimeLimit : Z; maxTimeLimit : Z; earlyStop : Z; maxDepth : Z; maxNodes : Z }.

(** usage factor  clamp(moves * 0.5, 2.0, maxTimeUsage * 0.01) *)
Definition usageFactor (moves : Z) : float :=
  fclamp (Z2F moves * f0_5)%float f2_0 (Z2F maxTimeUsage * f0_01)%float.

(** k = timePonderHitRate * 0.01 *)
Definition ponderK : float := (Z2F timePonderHitRate * f0_01)%float.

(** (int)(std::min(oTimeLimit, timeLimit / (1 - k)) * k) as a double, before the cast *)
Definition ponderBonusF (oTimeLimit timeLimit : Z) : float :=
  (fmin (Z2F oTimeLimit) (Z2F timeLimit / (f1_0 - ponderK)) * ponderK)%float.

(** The clock branch ([sPar.wTime || sPar.bTime], no moveTime): returns
    (minTimeLimit, maxTimeLimit, no-overflow flag). *)
Definition clockLimits (bufferTime : Z) (ponderOpt whiteMove : bool) (sp : SearchParams)
  : Z * Z * bool :=
  let moves0 := movesToGo sp in
  let moves1 := if moves0 =? 0 then 999 else moves0 in
  let moves := Z.min moves1 timeMaxRemainingMoves in
  let time := if whiteMove then wTime sp else bTime sp in
  let inc := if whiteMove then wInc sp else bInc sp in
  let t9 := time * 9 in
  let margin := Z.min bufferTime (Z.quot t9 10) in
  let im := inc * (moves - 1) in
  let num1 := time + im in
  let num := num1 - margin in
  let timeLimit := Z.quot num moves in
  let ok1 := int_ok t9 && int_ok (moves - 1) && int_ok im && int_ok num1 && int_ok num
             && negb (moves =? 0) in
  let '(minTL, ok2) :=
    if ponderOpt then
      let oTime := if whiteMove then bTime sp else wTime sp in
      let oInc := if whiteMove then bInc sp else wInc sp in
      let oim := oInc * (moves - 1) in
      let onum1 := oTime + oim in
      let onum := onum1 - margin in
      let oTimeLimit := Z.quot onum moves in
      let bf := ponderBonusF oTimeLimit timeLimit in
      let bonus := truncInt bf in
      (timeLimit + bonus,
       int_ok oim && int_ok onum1 && int_ok onum && truncInt_ok bf && int_ok (timeLimit + bonus))
    else (timeLimit, true) in
  let mf := (Z2F minTL * usageFactor moves)%float in
  let maxTL := truncInt mf in
  let budget := time - margin in
  (zclamp minTL 1 budget, zclamp maxTL 1 budget,
   ok1 && ok2 && truncInt_ok mf && int_ok budget).

Definition ctl_full (bufferTime : Z) (ponderOpt whiteMove : bool) (sp : SearchParams)
  : Limits * bool :=
  if infinite sp then (mkLim (-1) (-1) (-1) (-1) (-1), true)
  else
    let d1 := if 0 <? depth sp then depth sp else -1 in
    let md := mate sp * 2 - 1 in
    let d2 := if 0 <? mate sp then (if d1 =? -1 then md else Z.min d1 md) else d1 in
    let okd := if 0 <? mate sp then int_ok (mate sp * 2) && int_ok md else true in
    let n := if 0 <? nodes sp then nodes sp else -1 in
    if 0 <? moveTime sp then
      (mkLim (moveTime sp) (moveTime sp) 10000 d2 n, okd)
    else if negb (wTime sp =? 0) || negb (bTime sp =? 0) then
      let '(mn, mx, ok) := clockLimits bufferTime ponderOpt whiteMove sp in
      (mkLim mn mx (-1) d2 n, okd && ok)
    else (mkLim (-1) (-1) (-1) d2 n, okd).

Definition computeTimeLimit bufferTime ponderOpt whiteMove sp : Limits :=
  fst (ctl_full bufferTime ponderOpt whiteMove sp).
Definition computeTimeLimit_noovf bufferTime ponderOpt whiteMove sp : bool :=
  snd (ctl_full bufferTime ponderOpt whiteMove sp).

(** * Search::timeLimit and the EngineControl entry points *)

(** limits as the search sees them *)
Record SearchLimits := mkSL { minTimeMillis : Z; maxTimeMillis : Z; earlyStopPercentage : Z }.

Definition search_timeLimit (minT maxT esp : Z) : SearchLimits :=
  mkSL minT maxT (if 0 <? esp then esp else minTimeUsage).

Record EngineState := mkES {
  ecLim : Limits;                 (* minTimeLimit .. maxNodes members of EngineControl *)
  ecPonder : bool;
  ecInfinite : bool;
  ecOneMove : bool;               (* onePossibleMove *)
  ecSearch : option SearchLimits; (* sc, with the limits it currently holds *)
  ecSearchDepth : Z               (* maxDepth handed to EngineMainThread::startSearch *)
}.

(** startThread(minTimeLimit, maxTimeLimit, earlyStopPercentage, maxDepth, ...) with
    [nMoves] legal root moves (after the searchmoves filter) *)
Definition startThread (lim : Limits) (ponder infinite : bool)
           (minT maxT esp maxD : Z) (nMoves : Z) : EngineState :=
  let one := (nMoves <? 2) && negb infinite in
  let '(minT', maxT', maxD') :=
    if one && negb ponder then
      if 0 <? maxT then (zclamp (Z.quot minT 100) 1 100, zclamp (Z.quot maxT 100) 1 100, maxD)
      else (minT, maxT, if (maxD <? 0) || (2 <? maxD) then 2 else maxD)
    else (minT, maxT, maxD) in
  mkES lim ponder infinite one (Some (search_timeLimit minT' maxT' esp)) maxD'.

Definition startSearch bufferTime ponderOpt whiteMove sp nMoves : EngineState :=
  let lim := computeTimeLimit bufferTime ponderOpt whiteMove sp in
  let inf := (maxTimeLimit lim <? 0) && (maxDepth lim <? 0) && (maxNodes lim <? 0) in
  startThread lim false inf (minTimeLimit lim) (maxTimeLimit lim) (earlyStop lim)
              (maxDepth lim) nMoves.

Definition startPonder bufferTime ponderOpt whiteMove sp nMoves : EngineState :=
  let lim := computeTimeLimit bufferTime ponderOpt whiteMove sp in
  startThread lim true false (-1) (-1) (-1) (-1) nMoves.

Definition ponderHit (st : EngineState) : EngineState :=
  let lim := ecLim st in
  let '(lim', sc') :=
    match ecSearch st with
    | Some _ =>
        let mn := if ecOneMove st && (1 <? minTimeLimit lim) then 1 else minTimeLimit lim in
        let mx := if ecOneMove st && (1 <? maxTimeLimit lim) then 1 else maxTimeLimit lim in
        (mkLim mn mx (earlyStop lim) (maxDepth lim) (maxNodes lim),
         Some (search_timeLimit mn mx (earlyStop lim)))
    | None => (lim, None)
    end in
  let inf := (maxTimeLimit lim' <? 0) && (maxDepth lim' <? 0) && (maxNodes lim' <? 0) in
  mkES lim' false inf (ecOneMove st) sc' (ecSearchDepth st).

Definition stopThread (st : EngineState) : EngineState :=
  mkES (ecLim st) false false (ecOneMove st)
       (match ecSearch st with Some _ => Some (search_timeLimit 0 0 (-1)) | None => None end)
       (ecSearchDepth st).

(** * The stop tests of the search, as functions of the clock value read at the poll *)

(** the limit [Search::shouldStop] compares [tNow - tStart] against *)
Definition pollLimit (sl : SearchLimits) (hardFactor : float) (needMore : bool) : Z :=
  let maxT := maxTimeMillis sl in
  let minT := minTimeMillis sl in
  let minT' := if (0 <=? minT) && (earlyStopPercentage sl <=? 100)
               then Z.min (truncS64 (Z2F minT * hardFactor)%float) maxT else minT in
  if needMore then maxT else minT'.

Definition pollLimit_noovf (sl : SearchLimits) (hardFactor : float) : bool :=
  if (0 <=? minTimeMillis sl) && (earlyStopPercentage sl <=? 100)
  then truncS64_ok (Z2F (minTimeMillis sl) * hardFactor)%float else true.

(** time part of shouldStop() (node limits are not part of this property) *)
Definition shouldStopTime (sl : SearchLimits) (hardFactor : float) (needMore : bool)
           (tStart tNow : Z) : bool :=
  let l := pollLimit sl hardFactor needMore in
  (0 <=? l) && (l <=? tNow - tStart).

(** after a root move:  if (!firstIteration) { timeLimit = needMoreTime ? max : min;
    if (timeLimit >= 0 && (U64)(tNow - tStart) >= (U64)timeLimit) break; } *)
Definition rootMoveStop (sl : SearchLimits) (firstIteration needMoreTime : bool)
           (tStart tNow : Z) : bool :=
  if firstIteration then false
  else
    let l := if needMoreTime then maxTimeMillis sl else minTimeMillis sl in
    (0 <=? l) && (l <=? (tNow - tStart) mod 2 ^ 64).

(** after an iteration:  if (maxTimeMillis >= 0) {
      if (tNow - tStart > minTimeMillis * 0.01 * earlyStopPercentage * hardFactor) break;
      if (tNow - tStart >= maxTimeMillis) break; } *)
Definition iterEndEarly (sl : SearchLimits) (hardFactor : float) (tStart tNow : Z) : bool :=
  PrimFloat.ltb (Z2F (minTimeMillis sl) * f0_01 * Z2F (earlyStopPercentage sl) * hardFactor)%float
                (Z2F (tNow - tStart)).
Definition iterEndStop (sl : SearchLimits) (hardFactor : float) (tStart tNow : Z) : bool :=
  (0 <=? maxTimeMillis sl) &&
  (iterEndEarly sl hardFactor tStart tNow || (maxTimeMillis sl <=? tNow - tStart)).

(** hardFactor updates of iterativeDeepening *)
Definition hf_init : float := 1%float.
Definition hf_failHigh (hf : float) : float := fmax hf 1%float.   (* std::max(hardFactor, 1.0) *)
Definition hf_failLow (hf : float) : float := fmax hf 2%float.    (* std::max(hardFactor, 2.0) *)
Definition hardOf (f : float) : float :=
  if PrimFloat.ltb f 0.2%float then 3.5%float
  else if PrimFloat.ltb f 0.4%float
       then (3.5 + (1 - 3.5) * (f - 0.2) / (0.4 - 0.2))%float
  else if PrimFloat.ltb f 0.6%float then 1%float
  else if PrimFloat.ltb f 0.85%float
       then (1 + (0.3 - 1) * (f - 0.6) / (0.85 - 0.6))%float
  else 0.3%float.
Definition hf_iterEnd (hf hard : float) : float := ((hf + hard) / 2)%float.
(** f = rootMoves[0].nodes / (double)totalNodes *)
Definition nodeFraction (firstMoveNodes totalNodes : Z) : float :=
  (Z2F firstMoveNodes / Z2F totalNodes)%float.

(** * A search run as a sequence of events on an abstract clock *)

Inductive Event :=
| ESetLimits (minT maxT esp : Z)                          (* Search::timeLimit from the UCI thread *)
| ENodePoll (t : Z) (hf : float) (needMore : bool)        (* shouldStop() inside negaScout *)
| ERootMovePoll (t : Z) (firstIter needMoreTime : bool)   (* after a root move *)
| EIterEndPoll (t : Z) (hf : float).                      (* after an iteration *)

Definition eventStops (sl : SearchLimits) (tStart : Z) (e : Event) : bool :=
  match e with
  | ESetLimits _ _ _ => false
  | ENodePoll t hf nm => shouldStopTime sl hf nm tStart t
  | ERootMovePoll t fi nm => rootMoveStop sl fi nm tStart t
  | EIterEndPoll t hf => iterEndStop sl hf tStart t
  end.

Definition eventLimits (sl : SearchLimits) (e : Event) : SearchLimits :=
  match e with
  | ESetLimits mn mx esp => search_timeLimit mn mx esp
  | _ => sl
  end.

(** index (from 0) of the first event at which the search stops for time reasons *)
Fixpoint runFrom (k : nat) (sl : SearchLimits) (tStart : Z) (evs : list Event) : option nat :=
  match evs with
  | [] => None
  | e :: rest =>
      if eventStops sl tStart e then Some k
      else runFrom (S k) (eventLimits sl e) tStart rest
  end.
Definition run := runFrom 0.

(** limits in force after a prefix of events *)
Definition limitsAfter (sl : SearchLimits) (evs : list Event) : SearchLimits :=
  fold_left eventLimits evs sl.
