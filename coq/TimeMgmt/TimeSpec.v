(** C06 -- specification side: the ranges of the property, the budget a move may use, what it
    means for limits to be sane, and the admissible values of the search's hardFactor.
    Independent of how the engine computes its limits. *)
From Coq Require Import ZArith Bool List Floats.
From Texel Require Import gen.TimeParams TimeMgmt.TimeMgmt.
Local Open Scope Z_scope.

(** safety margin the code keeps: the configured BufferTime, but never more than 90% of the clock *)
Definition margin (time bufferTime : Z) : Z := Z.min bufferTime (Z.quot (time * 9) 10).
(** time a move may use at most *)
Definition budget (time bufferTime : Z) : Z := time - margin time bufferTime.
(** the property's literal wording: remaining clock minus the configured safety buffer *)
Definition literalBudget (time bufferTime : Z) : Z := Z.max 1 (time - bufferTime).

(** the ranges over which the property quantifies *)
Record InRange (bufferTime : Z) (sp : SearchParams) : Prop := mkInRange {
  rBuf   : bufferTime_min <= bufferTime <= bufferTime_max;
  rWTime : 1 <= wTime sp <= 10000000;
  rBTime : 1 <= bTime sp <= 10000000;
  rWInc  : 0 <= wInc sp <= 100000;
  rBInc  : 0 <= bInc sp <= 100000;
  rMtg   : 0 <= movesToGo sp <= 100;
  rMoveT : 0 <= moveTime sp <= 100000;          (* 0 = not given *)
  rMate  : 0 <= mate sp <= 1000000000;          (* mate*2-1 must fit an int *)
}.

Definition moverTime (whiteMove : bool) (sp : SearchParams) : Z :=
  if whiteMove then wTime sp else bTime sp.

(** sane limits held by a search that has a deadline *)
Definition limits_ok (sl : SearchLimits) : Prop :=
  0 <= minTimeMillis sl <= maxTimeMillis sl /\ maxTimeMillis sl <= 2147483647.

(** admissible hardFactor values: finite and within [0,4] (the code keeps it in [0.3,3.5]) *)
Definition hf_ok (hf : float) : bool :=
  PrimFloat.is_finite hf && PrimFloat.leb (Z2F 0) hf && PrimFloat.leb hf (Z2F 4).

(** polls that test the time on every execution (the test after a root move is skipped during
    the first iteration) *)
Definition qualifying (e : Event) : bool :=
  match e with
  | ESetLimits _ _ _ => false
  | ENodePoll _ hf _ => hf_ok hf
  | ERootMovePoll _ firstIter _ => negb firstIter
  | EIterEndPoll _ _ => true
  end.

Definition eventTime (e : Event) : Z :=
  match e with
  | ESetLimits _ _ _ => 0
  | ENodePoll t _ _ => t
  | ERootMovePoll t _ _ => t
  | EIterEndPoll t _ => t
  end.

(** every limit change during the search (ponderhit, stop) installs sane limits *)
Definition setLimits_ok (e : Event) : Prop :=
  match e with
  | ESetLimits mn mx _ => 0 <= mn <= mx /\ mx <= 2147483647
  | _ => True
  end.
