From Coq Require Import ZArith NArith List Bool Lia.
From Texel Require Import Chess.Types Chess.BitBoard Chess.Spec gen.BitBoardTables.
Import ListNotations.
Local Open Scope Z_scope.

Definition zf (s : square) : Z := Z.of_N s mod 8.
Definition zr (s : square) : Z := Z.of_N s / 8.
Definition between_rel (a b : square) : square -> bool :=
  let fa := zf a in let ra := zr a in
  let dx := zf b - fa in let dy := zr b - ra in
  let al := ((dx =? 0) || (dy =? 0) || (Z.abs dx =? Z.abs dy)) && negb ((dx =? 0) && (dy =? 0)) in
  let n := Z.max (Z.abs dx) (Z.abs dy) in let sx := Z.sgn dx in let sy := Z.sgn dy in
  fun t => al && (let ft := zf t in let rt := zr t in
  existsb (fun i => (i <? n) && (ft =? fa + i * sx) && (rt =? ra + i * sy)) [1;2;3;4;5;6]).
Time Eval vm_compute in forallb (fun a => forallb (fun b => let v := squaresBetween a b in let f := between_rel a b in forallb (fun t => Bool.eqb (N.testbit v t) (f t)) allSquares) allSquares) allSquares.
