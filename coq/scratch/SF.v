(** Algebra of the regenerated [negateScore] (coq/gen/BookConsts.v) and of the special scores.
    If a constant or the body of BookNode::negateScore changes in the source, the regenerated
    definitions change and these lemmas are re-checked against what the code says now. *)
From Coq Require Import ZArith NArith List Bool Lia.
From Texel Require Import gen.BookConsts.
Local Open Scope Z_scope.

Lemma MATE0_val : MATE0 = 32000. Proof. reflexivity. Qed.
Lemma IGNORE_val : IGNORE_SCORE = -32766. Proof. reflexivity. Qed.
Lemma INVALID_val : INVALID_SCORE = -32765. Proof. reflexivity. Qed.
Lemma half_mate : Z.quot MATE0 2 = 16000. Proof. reflexivity. Qed.
Lemma IGNORE_lt_INVALID : IGNORE_SCORE < INVALID_SCORE. Proof. rewrite IGNORE_val, INVALID_val. lia. Qed.
Lemma INT_MAX_val : INT_MAX = 2147483647. Proof. reflexivity. Qed.

Definition special (s : Z) : Prop := s = IGNORE_SCORE \/ s = INVALID_SCORE.

Lemma isWin_spec : forall s, isWinScore s = true <-> 16000 < s.
Proof. intro s. unfold isWinScore. rewrite half_mate. rewrite Z.gtb_lt. lia. Qed.
Lemma isLose_spec : forall s, isLoseScore s = true <-> s < -16000.
Proof. intro s. unfold isLoseScore. rewrite half_mate. rewrite Z.ltb_lt. lia. Qed.

Lemma negate_IGNORE : negateScore IGNORE_SCORE = IGNORE_SCORE.
Proof. reflexivity. Qed.
Lemma negate_INVALID : negateScore INVALID_SCORE = INVALID_SCORE.
Proof. reflexivity. Qed.

Lemma negate_cases : forall s,
  (special s /\ negateScore s = s) \/
  (~ special s /\ 16000 < s /\ negateScore s = 1 - s) \/
  (~ special s /\ s < -16000 /\ negateScore s = - s - 1) \/
  (~ special s /\ -16000 <= s <= 16000 /\ negateScore s = - s).
Proof.
  intro s. unfold negateScore, special.
  destruct (Z.eqb_spec s IGNORE_SCORE) as [E1|N1]; [left; simpl; auto|].
  destruct (Z.eqb_spec s INVALID_SCORE) as [E2|N2]; [left; simpl; auto|].
  simpl.
  destruct (isWinScore s) eqn:W.
  - apply isWin_spec in W. right; left. split; [tauto|]. split. lia. Show.
