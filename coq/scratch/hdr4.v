From Coq Require Import ZArith List Bool Arith Lia.
From Texel Require Import Workers.Workers Workers.WorkersLemmas Workers.WorkersInv Workers.WorkersInvProofs Workers.WorkersTac Workers.WorkersJob Workers.WorkersDead.
Import ListNotations.
Section P.
Variable N : nat.
Variable parent : tid -> option tid.
Hypothesis Htree : tree_ok N parent.
Notation InvE := (InvE N parent).
Notation InvD := (InvD N).
Notation lstep := (lstep N parent).
Notation helper := (helper N).
