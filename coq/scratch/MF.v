(** C12 — sanity theorem about the specification's rules: the MiniChess move generator maps
    legal positions of a material class to legal positions of that class
    ([moves_preserve_legal]): same men, all on the board, no two on one square, no king ever
    captured, the mover not left in check.  This is the closure hypothesis of
    [DtmCert.dtm_certificate] for the MiniChess game, proved once and for all (so the extracted
    checker does not have to re-check it at run time). *)
From Coq Require Import List ZArith Bool Lia Arith.
From Texel Require Import TB.MiniChess.
Import ListNotations.
Local Open Scope Z_scope.

Definition somes (l : list (option Z)) : list Z := flat_map (@opt_list Z) l.

Definition sq_ok (o : option Z) : Prop := match o with Some s => 0 <= s < 64 | None => True end.

(** ** squares produced by the geometry are on the board *)
Lemma step_range : forall s dx dy t, step s dx dy = Some t -> 0 <= t < 64.
Proof.
  intros s dx dy t H. unfold step in H.
  set (x := s mod 8 + dx) in *. set (y := s / 8 + dy) in *. clearbody x y.
  destruct ((0 <=? x) && (x <? 8) && (0 <=? y) && (y <? 8)) eqn:E; [|discriminate].
  injection H as H. subst t.
  apply andb_true_iff in E. destruct E as [E E4]. apply andb_true_iff in E. destruct E as [E E3].
  apply andb_true_iff in E. destruct E as [E1 E2].
  apply Z.leb_le in E1. apply Z.ltb_lt in E2. apply Z.leb_le in E3. apply Z.ltb_lt in E4. Show. lia.
Qed.

Lemma opt_list_in : forall (o : option Z) t, In t (opt_list o) -> o = Some t.
Proof. intros [x|] t H; simpl in H; [destruct H as [H|[]]; subst; reflexivity|destruct H]. Qed.

Lemma steps_range : forall s ds t, In t (steps s ds) -> 0 <= t < 64.
Proof.
  intros s ds t H. unfold steps in H. apply in_flat_map in H. destruct H as [d [_ H]].
  apply opt_list_in in H. exact (step_range _ _ _ _ H).
Qed.

Lemma line_range : forall s dx dy t, In t (line s dx dy) -> 0 <= t < 64.
Proof.
  intros s dx dy t H. unfold line in H. apply in_flat_map in H. destruct H as [k [_ H]].
  apply opt_list_in in H. exact (step_range _ _ _ _ H).
Qed.

Lemma upto_blocker_incl : forall occ l t, In t (upto_blocker occ l) -> In t l.
Proof.
  induction l as [|a r IH]; simpl; intros t H; [exact H|].
  destruct (occ a); simpl in H.
  - destruct H as [H|[]]. left; exact H.
  - destruct H as [H|H]; [left; exact H|right; apply IH; exact H].
Qed.

Lemma slides_range : forall occ s dirs t, In t (slides occ s dirs) -> 0 <= t < 64.
Proof.
  intros occ s dirs t H. unfold slides in H. apply in_flat_map in H. destruct H as [d [_ H]].
  apply upto_blocker_incl in H. exact (line_range _ _ _ _ H).
Qed.

Lemma reach_range : forall occ k s t, In t (reach occ k s) -> 0 <= t < 64.
Proof.
  intros occ k s t H. destruct k; simpl in H;
    first [exact (steps_range _ _ _ H) | exact (slides_range _ _ _ _ H)].
Qed.

(** ** boolean / propositional bridges *)
Lemma distinct_NoDup : forall l, distinct l = true <-> NoDup l.
Proof.
  induction l as [|a r IH]; simpl.
  - split; [constructor|reflexivity].
  - rewrite andb_true_iff, negb_true_iff, IH. split.
    + intros [H1 H2]. constructor; [|exact H2].
      intro Hin. assert (existsb (Z.eqb a) r = true); [|congruence].
      apply existsb_exists. exists a. split; [exact Hin|apply Z.eqb_refl].
    + intros H. inversion H; subst. split; [|assumption].
      destruct (existsb (Z.eqb a) r) eqn:E; [|reflexivity].
      apply existsb_exists in E. destruct E as [x [Hx Ex]]. apply Z.eqb_eq in Ex. subst x. contradiction.
Qed.

Section Facts.
  Variable cls : list man.

  Definition placed_of (c : list man) (l : list (option Z)) : list (man * Z) :=
    flat_map (fun mo : man * option Z => match snd mo with Some s => [(fst mo, s)] | None => [] end)
             (combine c l).

  Lemma placed_is : forall p, placed cls p = placed_of cls (sqs p).
  Proof. reflexivity. Qed.

  Lemma placed_snd : forall c l, length l = length c -> map snd (placed_of c l) = somes l.
  Proof.
    induction c as [|m c IH]; intros l Hl.
    - destruct l; [reflexivity|discriminate].
    - destruct l as [|o l]; [discriminate|]. injection Hl as Hl.
      unfold placed_of, somes in *. simpl. rewrite map_app. rewrite (IH l Hl).
      destruct o; reflexivity.
  Qed.

  Lemma placed_board : forall c l, length l = length c ->
    (forallb (fun ms : man * Z => on_board (snd ms)) (placed_of c l) = true <-> Forall sq_ok l).
  Proof.
    induction c as [|m c IH]; intros l Hl.
    - destruct l; [|discriminate]. split; [constructor|reflexivity].
    - destruct l as [|o l]; [discriminate|]. injection Hl as Hl.
      unfold placed_of in *. simpl. rewrite forallb_app. rewrite andb_true_iff. rewrite (IH l Hl).
      split.
      + intros [H1 H2]. constructor; [|exact H2].
        destruct o as [s|]; simpl in *; [|exact I].
        rewrite andb_true_r in H1. unfold on_board in H1. apply andb_true_iff in H1.
        destruct H1 as [A B]. apply Z.leb_le in A. apply Z.ltb_lt in B. lia.
      + intros H. inversion H; subst. split; [|assumption].
        destruct o as [s|]; simpl in *; [|reflexivity].
        rewrite andb_true_r. unfold on_board. apply andb_true_iff.
        split; [apply Z.leb_le|apply Z.ltb_lt]; lia.
  Qed.

  Definition kings_ok (c : list man) (l : list (option Z)) : bool :=
    forallb (fun mo : man * option Z =>
               negb (is_king (snd (fst mo))) || match snd mo with Some _ => true | None => false end)
            (combine c l).

  Lemma wfb_unfold : forall p, wfb cls p = true <->
    length (sqs p) = length cls /\ Forall sq_ok (sqs p) /\ NoDup (somes (sqs p)) /\ kings_ok cls (sqs p) = true.
  Proof.
    intros p. unfold wfb. rewrite !andb_true_iff. rewrite Nat.eqb_eq. rewrite placed_is.
    split.
    - intros [[[H1 H2] H3] H4]. split; [exact H1|].
      rewrite (placed_board cls (sqs p) H1) in H2. rewrite (placed_snd cls (sqs p) H1) in H3.
      apply distinct_NoDup in H3. auto.
    - intros [H1 [H2 [H3 H4]]]. repeat split; try assumption.
      + apply (placed_board cls (sqs p) H1). exact H2.
      + rewrite (placed_snd cls (sqs p) H1). apply distinct_NoDup. exact H3.
  Qed.

  (** ** the square list after a move *)
  Definition clear_sq (t : Z) (o : option Z) : option Z :=
    match o with Some s => if s =? t then None else Some s | None => None end.

  Definition upd (i : nat) (t : Z) (jo : nat * option Z) : option Z :=
    if Nat.eqb (fst jo) i then Some t else clear_sq t (snd jo).

  Definition after (i : nat) (t : Z) (a : nat) (l : list (option Z)) : list (option Z) :=
    map (upd i t) (combine (seq a (length l)) l).

  Lemma apply_move_sqs : forall p i t, sqs (apply_move p i t) = after i t 0 (sqs p).
  Proof. reflexivity. Qed.

  Lemma after_cons : forall i t a o l, after i t a (o :: l) = upd i t (a, o) :: after i t (S a) l.
  Proof. reflexivity. Qed.

  Lemma after_length : forall i t l a, length (after i t a l) = length l.
  Proof.
    intros. unfold after. rewrite map_length, combine_length, seq_length. apply Nat.min_id.
  Qed.

  Lemma after_board : forall i t, 0 <= t < 64 -> forall l a, Forall sq_ok l -> Forall sq_ok (after i t a l).
  Proof.
    intros i t Ht. induction l as [|o l IH]; intros a H; [constructor|].
    rewrite after_cons. inversion H; subst. constructor; [|apply IH; assumption].
    unfold upd. simpl. destruct (Nat.eqb a i); [exact Ht|].
    destruct o as [s|]; simpl; [|exact I]. destruct (s =? t); simpl; [exact I|assumption].
  Qed.

  Lemma after_in : forall i t l a x, In x (somes (after i t a l)) -> x = t \/ In x (somes l).
  Proof.
    intros i t. induction l as [|o l IH]; intros a x H; [destruct H|].
    rewrite after_cons in H. unfold somes in *. simpl in H. apply in_app_or in H.
    destruct H as [H|H].
    - unfold upd in H. simpl in H. destruct (Nat.eqb a i); simpl in H.
      + destruct H as [H|[]]. left. auto.
      + destruct o as [s|]; simpl in H; [|destruct H].
        destruct (s =? t); simpl in H; [destruct H|]. destruct H as [H|[]]. subst x.
        right. simpl. left. reflexivity.
    - destruct (IH (S a) x H) as [E|E]; [left; exact E|right]. simpl. apply in_or_app. right. exact E.
  Qed.

  (** beyond the moving man's index nothing but removals happens *)
  Lemma after_filter : forall i t l a, (i < a)%nat ->
    somes (after i t a l) = filter (fun s => negb (s =? t)) (somes l).
  Proof.
    intros i t. induction l as [|o l IH]; intros a Ha; [reflexivity|].
    rewrite after_cons. unfold somes in *. simpl. rewrite filter_app. rewrite <- (IH (S a)) by lia.
    f_equal. unfold upd. simpl.
    replace (Nat.eqb a i) with false by (symmetry; apply Nat.eqb_neq; lia).
    destruct o as [s|]; simpl; [|reflexivity]. destruct (s =? t); reflexivity.
  Qed.

  Lemma after_nodup : forall i t l a, NoDup (somes l) -> NoDup (somes (after i t a l)).
  Proof.
    intros i t. induction l as [|o l IH]; intros a H; [constructor|].
    rewrite after_cons.
    assert (Hl : NoDup (somes l)).
    { unfold somes in *. simpl in H. destruct o; simpl in H; [inversion H; assumption|exact H]. }
    unfold upd. simpl. destruct (Nat.eqb a i) eqn:Ea.
    - apply Nat.eqb_eq in Ea. subst a.
      change (NoDup (t :: somes (after i t (S i) l))).
      rewrite after_filter by lia. constructor.
      + intro Hin. apply filter_In in Hin. destruct Hin as [_ Hin]. rewrite Z.eqb_refl in Hin. discriminate.
      + apply NoDup_filter. exact Hl.
    - destruct o as [s|]; simpl.
      + destruct (s =? t) eqn:Es.
        * change (NoDup (somes (after i t (S a) l))). apply IH. exact Hl.
        * change (NoDup (s :: somes (after i t (S a) l))). constructor; [|apply IH; exact Hl].
          intro Hin. apply after_in in Hin. destruct Hin as [E|E].
          -- subst s. rewrite Z.eqb_refl in Es. discriminate.
          -- unfold somes in H. simpl in H. inversion H; subst. contradiction.
      + change (NoDup (somes (after i t (S a) l))). apply IH. exact Hl.
  Qed.

  Lemma after_kings : forall i t c l a, length l = length c ->
    kings_ok c l = true ->
    (forall m s, In (m, Some s) (combine c l) -> is_king (snd m) = true -> s <> t) ->
    kings_ok c (after i t a l) = true.
  Proof.
    intros i t. induction c as [|m c IH]; intros l a Hl Hk Hno.
    - destruct l; [reflexivity|discriminate].
    - destruct l as [|o l]; [discriminate|]. injection Hl as Hl.
      rewrite after_cons. unfold kings_ok in *. simpl in *.
      apply andb_true_iff in Hk. destruct Hk as [Hk1 Hk2].
      apply andb_true_iff. split.
      + unfold upd. simpl. destruct (Nat.eqb a i); [apply orb_true_r|].
        destruct (is_king (snd m)) eqn:Ek; [|reflexivity]. simpl in *.
        destruct o as [s|]; [|discriminate]. simpl.
        assert (s <> t) by (apply (Hno m s); [left; reflexivity|exact Ek]).
        replace (s =? t) with false by (symmetry; apply Z.eqb_neq; assumption). reflexivity.
      + apply IH; [exact Hl|exact Hk2|]. intros m' s' Hin. apply Hno. right. exact Hin.
  Qed.

  (** ** what a generated move looks like *)
  Lemma man_at_unique : forall (pl : list (man * Z)) m t,
    NoDup (map snd pl) -> In (m, t) pl -> man_at pl t = Some m.
  Proof.
    induction pl as [|[m0 s0] r IH]; intros m t Hnd Hin; [destruct Hin|].
    unfold man_at. simpl. simpl in Hnd. inversion Hnd; subst.
    destruct Hin as [E|Hin].
    - injection E as E1 E2. subst. rewrite Z.eqb_refl. reflexivity.
    - destruct (s0 =? t) eqn:Es.
      + apply Z.eqb_eq in Es. subst s0. exfalso. apply H1.
        change t with (snd (m, t)). apply in_map. exact Hin.
      + apply (IH m t H2 Hin).
  Qed.

  Lemma combine_placed : forall c l m s, In (m, Some s) (combine c l) -> In (m, s) (placed_of c l).
  Proof.
    intros c l m s H. unfold placed_of. apply in_flat_map. exists (m, Some s). split; [exact H|].
    simpl. left. reflexivity.
  Qed.

  (** a successor is [apply_move p i t] for a square [t] on the board on which no king stands,
      and the mover's king is not attacked afterwards *)
  Lemma moves_inv : forall p c, NoDup (map snd (placed cls p)) -> In c (moves cls p) ->
    exists i t, c = apply_move p i t /\ 0 <= t < 64 /\
      (forall m s, In (m, Some s) (combine cls (sqs p)) -> is_king (snd m) = true -> s <> t) /\
      in_check_side (placed cls c) (negb (wtm c)) = false.
  Proof.
    intros p c Hnd H. unfold moves in H. apply in_flat_map in H.
    destruct H as [[i [[col k] o]] [_ H]]. simpl in H.
    destruct o as [s|]; [|destruct H].
    destruct (Bool.eqb col (wtm p)); [|destruct H].
    apply in_flat_map in H. destruct H as [t [Ht H]].
    assert (Hcase : In c (try_move cls p i t) /\
                    (forall m, man_at (placed cls p) t = Some m -> is_king (snd m) = false)).
    { destruct (man_at (placed cls p) t) as [[c' k']|] eqn:Em.
      - destruct (Bool.eqb c' col); [destruct H|].
        destruct (is_king k') eqn:Ek; [destruct H|].
        split; [exact H|]. intros m E. injection E as E. subst m. exact Ek.
      - split; [exact H|]. intros m E. discriminate. }
    destruct Hcase as [Hc Hk].
    exists i, t. unfold try_move in Hc.
    destruct (in_check_side (placed cls (apply_move p i t)) (wtm p)) eqn:Ec; [destruct Hc|].
    destruct Hc as [Hc|[]]. subst c.
    split; [reflexivity|]. split; [exact (reach_range _ _ _ _ Ht)|]. split.
    - intros m s' Hin Hking E. subst s'.
      pose proof (combine_placed _ _ _ _ Hin) as Hp.
      pose proof (man_at_unique _ _ _ Hnd Hp) as Hm.
      rewrite (Hk m Hm) in Hking. discriminate.
    - simpl. rewrite negb_involutive. exact Ec.
  Qed.

  (** ** closure *)
  Theorem moves_preserve_legal : forall p c,
    legalb cls p = true -> In c (moves cls p) -> legalb cls c = true.
  Proof.
    intros p c Hp Hc. unfold legalb in Hp. apply andb_true_iff in Hp. destruct Hp as [Hw _].
    apply wfb_unfold in Hw. destruct Hw as [Hlen [Hok [Hnd Hk]]].
    assert (Hnd' : NoDup (map snd (placed cls p))).
    { rewrite placed_is, (placed_snd cls (sqs p) Hlen). exact Hnd. }
    destruct (moves_inv p c Hnd' Hc) as [i [t [E [Ht [Hno Hsafe]]]]].
    unfold legalb. rewrite Hsafe. rewrite andb_true_r.
    apply wfb_unfold. subst c. rewrite apply_move_sqs. repeat split.
    - rewrite after_length. exact Hlen.
    - apply after_board; assumption.
    - apply after_nodup. exact Hnd.
    - apply after_kings; assumption.
  Qed.
End Facts.
