From Texel Require Import Workers.Workers Workers.WorkersInv Workers.WorkersInvMain Workers.WorkersJobProofs Workers.WorkersWakeProofs.
Check InvE_init. Check InvE_step. Check InvJ_init. Check InvJ_step. Check InvL_init. Check InvL_step.
