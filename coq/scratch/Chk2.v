From Texel Require Import BookGraph.LocalProofs.
Check computePathError_local.
