From Coq Require Import ZArith List Bool Arith Lia.
From Texel Require Import Workers.Workers Workers.WorkersLemmas Workers.WorkersInv Workers.WorkersInvProofs.
Import ListNotations.
Section P.
Variable N : nat.
Variable parent : tid -> option tid.
Hypothesis Htree : tree_ok N parent.
Notation InvE := (InvE N parent).
Notation lstep := (lstep N parent).
Notation children := (children N parent).
Notation helper := (helper N).
Notation npending := (npending N parent).
Notation helper_le := (helper_le N).
Notation helper_leb := (helper_leb N).
Notation helper_S := (helper_S N).
Notation inv_se0 := (inv_se0 N parent).
Notation inv_child_le := (inv_child_le N parent).
Notation parent_le := (parent_le N parent Htree).
Notation child_settled := (child_settled N parent).
Notation barrier_all := (barrier_all N parent Htree).
Notation barrier_noacks := (barrier_noacks N parent Htree).
Notation quiet_all := (quiet_all N parent).
Notation stop_head_lag := (stop_head_lag N parent Htree).
