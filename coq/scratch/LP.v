(** After [computeNegaMax n] the node satisfies its negamax and expansion-cost equations given
    its children; after [computePathError n] it satisfies its path-error equation given its
    parents.  (Equations.v is the specification side.) *)
From Coq Require Import ZArith NArith List Bool Lia.
From Texel Require Import gen.BookConsts BookGraph.NMap BookGraph.BookGraph BookGraph.Equations BookGraph.ScoreFacts.
Import ListNotations.
Local Open Scope Z_scope.

(** * generic folds *)

Lemma fold_max_spec : forall (A : Type) (f : A -> Z) (l : list A) (a0 : Z),
  let v := fold_left (fun a x => Z.max a (f x)) l a0 in
  a0 <= v /\ (forall x, In x l -> f x <= v) /\ (v = a0 \/ exists x, In x l /\ v = f x).
Proof.
  intros A f l. induction l as [|y t IH]; intro a0; cbn [fold_left].
  - split; [lia|]. split; [intros x []|left; reflexivity].
  - specialize (IH (Z.max a0 (f y))). cbn zeta in IH. destruct IH as [I1 [I2 I3]].
    split; [lia|]. split.
    + intros x [<-|Hx]; [lia|apply I2; exact Hx].
    + destruct I3 as [E|[x [Hx E]]].
      * destruct (Z.max_spec a0 (f y)) as [[_ M]|[_ M]].
        -- right. exists y. split; [left; reflexivity|rewrite E; exact M].
        -- left. rewrite E; exact M.
      * right. exists x. split; [right; exact Hx|exact E].
Qed.

Lemma is_max_intro : forall v l, (forall c, In c l -> c <= v) -> In v l -> is_max v l = true.
Proof.
  intros v l H1 H2. unfold is_max. apply andb_true_intro. split.
  - apply forallb_forall. intros c Hc. apply Z.leb_le. apply H1. exact Hc.
  - apply existsb_exists. exists v. split; [exact H2|apply Z.eqb_refl].
Qed.
Lemma is_min_intro : forall v l, (forall c, In c l -> v <= c) -> In v l -> is_min v l = true.
Proof.
  intros v l H1 H2. unfold is_min. apply andb_true_intro. split.
  - apply forallb_forall. intros c Hc. apply Z.leb_le. apply H1. exact Hc.
  - apply existsb_exists. exists v. split; [exact H2|apply Z.eqb_refl].
Qed.
Lemma is_max_elim : forall v l, is_max v l = true -> (forall c, In c l -> c <= v) /\ In v l.
Proof.
  intros v l H. unfold is_max in H. apply andb_prop in H. destruct H as [H1 H2]. split.
  - intros c Hc. rewrite forallb_forall in H1. apply Z.leb_le. apply H1. exact Hc.
  - apply existsb_exists in H2. destruct H2 as [x [Hx E]]. apply Z.eqb_eq in E. subst x. exact Hx.
Qed.
Lemma is_min_elim : forall v l, is_min v l = true -> (forall c, In c l -> v <= c) /\ In v l.
Proof.
  intros v l H. unfold is_min in H. apply andb_prop in H. destruct H as [H1 H2]. split.
  - intros c Hc. rewrite forallb_forall in H1. apply Z.leb_le. apply H1. exact Hc.
  - apply existsb_exists in H2. destruct H2 as [x [Hx E]]. apply Z.eqb_eq in E. subst x. exact Hx.
Qed.

(** * accessors after a score update *)

Lemma info_set_sc : forall g sc n, info (set_sc g sc) n = info g n. Proof. reflexivity. Qed.
Lemma children_set_sc : forall g sc n, children (set_sc g sc) n = children g n. Proof. reflexivity. Qed.
Lemma parents_set_sc : forall g sc n, parents (set_sc g sc) n = parents g n. Proof. reflexivity. Qed.
Lemma depth_set_sc : forall g sc n, depth (set_sc g sc) n = depth g n. Proof. reflexivity. Qed.
Lemma score_set_sc : forall g sc n, score_of (set_sc g sc) n = scof sc n. Proof. reflexivity. Qed.
Lemma pending_set_sc : forall g sc, bk_pending (set_sc g sc) = bk_pending g. Proof. reflexivity. Qed.
Lemma root_set_sc : forall g sc, bk_root (set_sc g sc) = bk_root g. Proof. reflexivity. Qed.

Lemma scof_set_same : forall sc n s, scof (nset n s sc) n = s.
Proof. intros. unfold scof. rewrite nget_nset_same. reflexivity. Qed.
Lemma scof_set_other : forall sc n m s, m <> n -> scof (nset n s sc) m = scof sc m.
Proof. intros. unfold scof. rewrite nget_nset_other by assumption. reflexivity. Qed.

Lemma assoc_in : forall m l c, assoc m l = Some c -> In (m, c) l.
Proof.
  intros m l c. induction l as [|[m' c'] t IH]; cbn [assoc]; [discriminate|].
  destruct (N.eqb_spec m m') as [->|Hne]; intro H.
  - inversion H; subst. left; reflexivity.
  - right. apply IH. exact H.
Qed.

Lemma moveIsChild_spec : forall g n, best_move_is_child g n = moveIsChild g n.
Proof.
  intros g n. unfold best_move_is_child, moveIsChild.
  induction (children g n) as [|[m c] t IH]; cbn [existsb assoc fst]; [reflexivity|].
  rewrite N.eqb_sym. destruct (N.eqb (ni_move (info g n)) m); [reflexivity|exact IH].
Qed.

(** * negamax *)

Definition no_self_child (g : book) (n : N) : Prop := forall mc, In mc (children g n) -> snd mc <> n.

Section NegaMax.
  Variables (bd : bdata) (g : book) (sc : nmap scores) (n : N).
  Hypothesis Hself : no_self_child g n.

  Let res := computeNegaMax bd g sc n.
  Let g' := set_sc g (fst res).
  Let nm := newNegaMax sc (ni_score (info g n)) (ni_move (info g n)) (children g n).

  Lemma res_score_n : score_of g' n =
    mkScores nm
      (newExpCost bd sc (is_pending g n) (ni_score (info g n)) nm (moveIsChild g n) (Z.even (depth g n)) (children g n) true)
      (newExpCost bd sc (is_pending g n) (ni_score (info g n)) nm (moveIsChild g n) (Z.even (depth g n)) (children g n) false)
      (s_pew (scof sc n)) (s_peb (scof sc n)).
  Proof. unfold g', res, computeNegaMax. cbn [fst]. rewrite score_set_sc, scof_set_same. reflexivity. Qed.

  Lemma res_score_child : forall mc, In mc (children g n) -> score_of g' (snd mc) = scof sc (snd mc).
  Proof.
    intros mc H. unfold g', res, computeNegaMax. cbn [fst]. rewrite score_set_sc.
    apply scof_set_other. apply Hself. exact H.
  Qed.

  Lemma own_score_eq : own_score g' n =
    match assoc (ni_move (info g n)) (children g n) with
    | Some c => if negb (s_nm (scof sc c) =? INVALID_SCORE) then IGNORE_SCORE else ni_score (info g n)
    | None => ni_score (info g n)
    end.
  Proof.
    unfold own_score. change (info g' n) with (info g n). change (children g' n) with (children g n).
    destruct (assoc (ni_move (info g n)) (children g n)) as [c|] eqn:A; [|reflexivity].
    apply assoc_in in A. pose proof (res_score_child _ A) as R. cbn [snd] in R. rewrite R.
    destruct (s_nm (scof sc c) =? INVALID_SCORE); reflexivity.
  Qed.

  Lemma cand_map_eq :
    map (fun mc => negateScore (s_nm (score_of g' (snd mc)))) (children g n) =
    map (fun mc => negateScore (s_nm (scof sc (snd mc)))) (children g n).
  Proof. apply map_ext_in. intros mc H. rewrite res_score_child by exact H. reflexivity. Qed.

  Theorem computeNegaMax_negamax : eq_negamax g' n = true.
  Proof.
    unfold eq_negamax. rewrite res_score_n. cbn [s_nm].
    unfold nm_candidates. change (children g' n) with (children g n). rewrite cand_map_eq.
    rewrite own_score_eq.
    unfold nm, newNegaMax.
    set (nm0 := match assoc (ni_move (info g n)) (children g n) with
                | Some c => if negb (s_nm (scof sc c) =? INVALID_SCORE) then IGNORE_SCORE else ni_score (info g n)
                | None => ni_score (info g n) end).
    destruct (Z.eqb_spec nm0 INVALID_SCORE) as [E|NE]; cbn [negb].
    - rewrite E. apply Z.eqb_refl.
    - pose proof (fold_max_spec _ (fun mc : N * N => negateScore (s_nm (scof sc (snd mc)))) (children g n) nm0) as F.
      cbn zeta in F. destruct F as [F1 [F2 F3]].
      apply is_max_intro.
      + intros c [<-|Hc]; [exact F1|].
        apply in_map_iff in Hc. destruct Hc as [mc [<- Hmc]]. apply F2. exact Hmc.
      + destruct F3 as [E|[x [Hx E]]].
        * left. symmetry. exact E.
        * right. apply in_map_iff. exists x. split; [symmetry; exact E|exact Hx].
  Qed.

  (** the new negamax score dominates every child's negated score, unless it is INVALID *)
  Lemma nm_ge_child : forall mc, In mc (children g n) -> nm <> INVALID_SCORE ->
    negateScore (s_nm (scof sc (snd mc))) <= nm.
  Proof.
    intros mc H NE. unfold nm, newNegaMax in *.
    set (nm0 := match assoc (ni_move (info g n)) (children g n) with
                | Some c => if negb (s_nm (scof sc c) =? INVALID_SCORE) then IGNORE_SCORE else ni_score (info g n)
                | None => ni_score (info g n) end) in *.
    destruct (Z.eqb_spec nm0 INVALID_SCORE) as [E|NE0]; cbn [negb] in *; [contradiction|].
    pose proof (fold_max_spec _ (fun mc : N * N => negateScore (s_nm (scof sc (snd mc)))) (children g n) nm0) as F.
    cbn zeta in F. destruct F as [_ [F2 _]]. apply F2. exact H.
  Qed.

  (** ... and the search score when the best move is not a child *)
  Lemma nm_ge_score : moveIsChild g n = false -> ni_score (info g n) <> INVALID_SCORE -> ni_score (info g n) <= nm.
  Proof.
    intros M NE. unfold nm, newNegaMax. unfold moveIsChild in M.
    destruct (assoc (ni_move (info g n)) (children g n)); [discriminate|].
    destruct (Z.eqb_spec (ni_score (info g n)) INVALID_SCORE) as [E|_]; [contradiction|]. cbn [negb].
    pose proof (fold_max_spec _ (fun mc : N * N => negateScore (s_nm (scof sc (snd mc)))) (children g n) (ni_score (info g n))) as F.
    cbn zeta in F. destruct F as [F1 _]. exact F1.
  Qed.
End NegaMax.

(** * expansion costs *)

Definition enc_choice (c : choice) : Z :=
  match c with Ignored => IGNORE_SCORE | Invalid => INVALID_SCORE | Cost c => c end.

(** [e] represents the minimum of the admissible costs [cs] (IGNORE when there is none) *)
Definition repr (e : Z) (cs : list Z) : Prop :=
  (cs = [] /\ e = IGNORE_SCORE) \/ (cs <> [] /\ (forall c, In c cs -> e <= c) /\ In e cs).

Definition cstep (e : Z) (ch : choice) : Z :=
  match ch with
  | Cost c => if (e =? IGNORE_SCORE) || (e >? c) then c else e
  | _ => e
  end.

Lemma repr_not_invalid : forall e cs, repr e cs -> (forall c, In c cs -> INVALID_SCORE < c) -> e <> INVALID_SCORE.
Proof.
  intros e cs [[_ ->]|[_ [_ I]]] H.
  - rewrite IGNORE_val, INVALID_val. lia.
  - specialize (H e I). lia.
Qed.

Lemma cstep_repr : forall e acc ch,
  repr e acc -> (forall c, In c acc -> INVALID_SCORE < c) ->
  (forall c, ch = Cost c -> INVALID_SCORE < c) ->
  repr (cstep e ch) (costs_of [ch] ++ acc) /\ (forall c, In c (costs_of [ch] ++ acc) -> INVALID_SCORE < c).
Proof.
  intros e acc ch R Hacc Hch. destruct ch as [| |c]; cbn [cstep costs_of app]; try (split; assumption).
  specialize (Hch c eq_refl).
  split; [|intros x [<-|Hx]; [exact Hch|apply Hacc; exact Hx]].
  destruct R as [[-> ->]|[NE [Hmin Hin]]].
  - rewrite Z.eqb_refl. cbn [orb]. right. split; [discriminate|]. split.
    + intros x [<-|[]]. lia.
    + left; reflexivity.
  - assert (INVALID_SCORE < e) by (apply Hacc; exact Hin).
    destruct (Z.eqb_spec e IGNORE_SCORE) as [E|_]; [rewrite IGNORE_val, INVALID_val in *; lia|].
    cbn [orb]. right. split; [discriminate|].
    destruct (Z.gtb_spec e c) as [G|G].
    + split; [|left; reflexivity]. intros x [<-|Hx]; [lia|]. specialize (Hmin x Hx). lia.
    + split; [|right; exact Hin]. intros x [<-|Hx]; [lia|apply Hmin; exact Hx].
Qed.

Lemma costs_of_app : forall a b, costs_of (a ++ b) = costs_of a ++ costs_of b.
Proof.
  induction a as [|[| |c] t IH]; intro b; cbn [app costs_of]; rewrite ?IH; reflexivity.
Qed.

Lemma cstep_fold : forall chs e acc,
  repr e acc -> (forall c, In c acc -> INVALID_SCORE < c) ->
  (forall c, In (Cost c) chs -> INVALID_SCORE < c) ->
  exists acc', repr (fold_left cstep chs e) acc' /\
               (forall c, In c acc' -> INVALID_SCORE < c) /\
               (forall x, In x acc' <-> In x acc \/ In x (costs_of chs)).
Proof.
  induction chs as [|ch t IH]; intros e acc R Hacc Hch; cbn [fold_left].
  - exists acc. split; [exact R|]. split; [exact Hacc|]. intro x. cbn [costs_of In]. tauto.
  - destruct (cstep_repr e acc ch R Hacc) as [R1 H1].
    { intros c ->. apply Hch. left; reflexivity. }
    destruct (IH (cstep e ch) (costs_of [ch] ++ acc) R1 H1) as [acc' [R2 [H2 Eq]]].
    { intros c Hc. apply Hch. right; exact Hc. }
    exists acc'. split; [exact R2|]. split; [exact H2|].
    intro x. rewrite Eq. rewrite in_app_iff.
    change (ch :: t) with ([ch] ++ t). rewrite costs_of_app, in_app_iff. tauto.
Qed.

Section Cost.
  Variables (bd : bdata) (g : book) (sc : nmap scores) (n : N) (w : bool).
  Hypothesis Hself : no_self_child g n.
  Hypothesis Hk : 0 <= bd_depthCost bd /\ 0 <= bd_ownCost bd /\ 0 <= bd_otherCost bd.
  (** stored costs are IGNORE, INVALID or ordinary values above them *)
  Hypothesis Hwf : forall mc, In mc (children g n) -> IGNORE_SCORE <= cost_of w (scof sc (snd mc)).

  Let res := computeNegaMax bd g sc n.
  Let g' := set_sc g (fst res).
  Let nm := newNegaMax sc (ni_score (info g n)) (ni_move (info g n)) (children g n).
  Let wtm := Z.even (depth g n).
  Let body := fun (e : Z) (mc : N * N) =>
    let cs := scof sc (snd mc) in
    if negb (e =? INVALID_SCORE) && negb (cost_of w cs =? IGNORE_SCORE)
    then let c := expCostChild bd nm wtm w (s_nm cs) (cost_of w cs) in
         if (e =? IGNORE_SCORE) || (e >? c) then c else e
    else e.

  Lemma node_cost_n : node_cost g' n w =
    newExpCost bd sc (is_pending g n) (ni_score (info g n)) nm (moveIsChild g n) wtm (children g n) w.
  Proof. unfold node_cost. unfold g', res. rewrite res_score_n by exact Hself. destruct w; reflexivity. Qed.

  Lemma node_cost_child : forall mc, In mc (children g n) -> node_cost g' (snd mc) w = cost_of w (scof sc (snd mc)).
  Proof.
    intros mc H. unfold node_cost, cost_of. unfold g', res. rewrite res_score_child by assumption.
    destruct w; reflexivity.
  Qed.

  Lemma kfac_nonneg : 0 <= kfac bd wtm w.
  Proof. unfold kfac. destruct (Bool.eqb wtm w); lia. Qed.

  Lemma err_weight_eq : err_weight bd g' n w = kfac bd wtm w.
  Proof. reflexivity. Qed.

  Lemma nm_g' : s_nm (score_of g' n) = nm.
  Proof. unfold g', res. rewrite res_score_n by exact Hself. reflexivity. Qed.

  Lemma moveError_nonneg : forall mc, In mc (children g n) ->
    0 <= (if nm =? INVALID_SCORE then INVALID_MOVE_ERROR else nm - negateScore (s_nm (scof sc (snd mc)))).
  Proof.
    intros mc H. destruct (Z.eqb_spec nm INVALID_SCORE) as [E|NE].
    - vm_compute. discriminate.
    - pose proof (nm_ge_child g sc n mc H NE) as G. fold nm in G. lia.
  Qed.

  (** the choice the specification assigns to a child, in terms of the pre-state *)
  Lemma child_choice_eq : forall mc, In mc (children g n) ->
    child_choice bd g' n w (snd mc) =
    let cc := cost_of w (scof sc (snd mc)) in
    if cc =? INVALID_SCORE then Invalid
    else if cc =? IGNORE_SCORE then Ignored
    else Cost (bd_depthCost bd + cc + kfac bd wtm w *
               (if nm =? INVALID_SCORE then INVALID_MOVE_ERROR else nm - negateScore (s_nm (scof sc (snd mc))))).
  Proof.
    intros mc H. unfold child_choice. rewrite node_cost_child by exact H. rewrite nm_g', err_weight_eq.
    unfold g', res. rewrite res_score_child by assumption. reflexivity.
  Qed.

  Lemma child_cost_valid : forall mc c, In mc (children g n) ->
    child_choice bd g' n w (snd mc) = Cost c -> INVALID_SCORE < c.
  Proof.
    intros mc c H E. rewrite child_choice_eq in E by exact H. cbn zeta in E.
    pose proof (Hwf mc H) as W. pose proof (moveError_nonneg mc H) as M. pose proof kfac_nonneg as K.
    destruct (Z.eqb_spec (cost_of w (scof sc (snd mc))) INVALID_SCORE) as [|N1]; [discriminate|].
    destruct (Z.eqb_spec (cost_of w (scof sc (snd mc))) IGNORE_SCORE) as [|N2]; [discriminate|].
    inversion E; subst c. rewrite IGNORE_val, INVALID_val in *.
    assert (0 <= kfac bd wtm w * (if nm =? -32765 then INVALID_MOVE_ERROR else nm - negateScore (s_nm (scof sc (snd mc))))) by (apply Z.mul_nonneg_nonneg; assumption).
    lia.
  Qed.

  Lemma body_cstep : forall e mc, In mc (children g n) -> e <> INVALID_SCORE ->
    cost_of w (scof sc (snd mc)) <> INVALID_SCORE ->
    body e mc = cstep e (child_choice bd g' n w (snd mc)).
  Proof.
    intros e mc H NE NI. rewrite child_choice_eq by exact H. cbn zeta. unfold body. cbn zeta.
    destruct (Z.eqb_spec e INVALID_SCORE) as [|_]; [contradiction|].
    destruct (Z.eqb_spec (cost_of w (scof sc (snd mc))) INVALID_SCORE) as [|_]; [contradiction|].
    destruct (Z.eqb_spec (cost_of w (scof sc (snd mc))) IGNORE_SCORE) as [E|N2]; cbn [negb andb cstep]; [reflexivity|].
    unfold expCostChild.
    destruct (Z.eqb_spec (cost_of w (scof sc (snd mc))) IGNORE_SCORE) as [|_]; [contradiction|].
    destruct (Z.eqb_spec (cost_of w (scof sc (snd mc))) INVALID_SCORE) as [|_]; [contradiction|].
    cbn [negb andb].
    set (me := if nm =? INVALID_SCORE then INVALID_MOVE_ERROR else nm - negateScore (s_nm (scof sc (snd mc)))).
    replace (cost_of w (scof sc (snd mc)) + (bd_depthCost bd + me * kfac bd wtm w))
      with (bd_depthCost bd + cost_of w (scof sc (snd mc)) + kfac bd wtm w * me) by ring.
    reflexivity.
  Qed.

  Lemma body_invalid : forall l, fold_left body l INVALID_SCORE = INVALID_SCORE.
  Proof.
    induction l as [|mc t IH]; [reflexivity|]. cbn [fold_left]. unfold body at 2. cbn zeta.
    rewrite Z.eqb_refl. cbn [negb andb]. exact IH.
  Qed.

  Lemma body_fold : forall l e acc,
    (forall mc, In mc l -> In mc (children g n)) ->
    (forall mc, In mc l -> cost_of w (scof sc (snd mc)) <> INVALID_SCORE) ->
    repr e acc -> (forall c, In c acc -> INVALID_SCORE < c) ->
    exists acc', repr (fold_left body l e) acc' /\
                 (forall c, In c acc' -> INVALID_SCORE < c) /\
                 (forall x, In x acc' <-> In x acc \/ In x (costs_of (map (fun mc => child_choice bd g' n w (snd mc)) l))).
  Proof.
    induction l as [|mc t IH]; intros e acc Hsub Hni R Hacc; cbn [fold_left map].
    - exists acc. split; [exact R|]. split; [exact Hacc|]. intro x. cbn [costs_of In]. tauto.
    - assert (Hmc : In mc (children g n)) by (apply Hsub; left; reflexivity).
      rewrite body_cstep; [|exact Hmc|eapply repr_not_invalid; eauto|apply Hni; left; reflexivity].
      destruct (cstep_repr e acc (child_choice bd g' n w (snd mc)) R Hacc) as [R1 H1].
      { intros c E. eapply child_cost_valid; eauto. }
      destruct (IH (cstep e (child_choice bd g' n w (snd mc))) _ (fun m H => Hsub m (or_intror H))
                   (fun m H => Hni m (or_intror H)) R1 H1) as [acc' [R2 [H2 Eq]]].
      exists acc'. split; [exact R2|]. split; [exact H2|].
      intro x. rewrite Eq. rewrite in_app_iff.
      change (child_choice bd g' n w (snd mc) :: map (fun mc0 => child_choice bd g' n w (snd mc0)) t)
        with ([child_choice bd g' n w (snd mc)] ++ map (fun mc0 => child_choice bd g' n w (snd mc0)) t).
      rewrite costs_of_app, in_app_iff. tauto.
  Qed.

  Lemma inval_fold : forall l e0,
    fold_left (fun e (mc : N * N) => if cost_of w (scof sc (snd mc)) =? INVALID_SCORE then INVALID_SCORE else e) l e0 =
    if existsb (fun mc => cost_of w (scof sc (snd mc)) =? INVALID_SCORE) l then INVALID_SCORE else e0.
  Proof.
    induction l as [|mc t IH]; intro e0; cbn [fold_left existsb]; [reflexivity|].
    rewrite IH. destruct (cost_of w (scof sc (snd mc)) =? INVALID_SCORE); cbn [orb]; [|reflexivity].
    destruct (existsb _ t); reflexivity.
  Qed.

  (** the value the code starts from is the encoding of the specification's own choice *)
  Lemma own_choice_eq :
    (if is_pending g n then IGNORE_SCORE
     else if ni_score (info g n) =? INVALID_SCORE then INVALID_SCORE
     else if negb (ni_score (info g n) =? IGNORE_SCORE)
          then expCostSelf bd nm (ni_score (info g n)) (moveIsChild g n) wtm w
          else IGNORE_SCORE) = enc_choice (own_choice bd g' n w).
  Proof.
    unfold own_choice. change (bk_pending g') with (bk_pending g). change (info g' n) with (info g n).
    unfold is_pending. destruct (mem n (bk_pending g)); [reflexivity|].
    destruct (ni_score (info g n) =? INVALID_SCORE); [reflexivity|].
    destruct (ni_score (info g n) =? IGNORE_SCORE); cbn [negb]; [reflexivity|].
    rewrite moveIsChild_spec. change (moveIsChild g' n) with (moveIsChild g n).
    unfold expCostSelf. destruct (moveIsChild g n); [reflexivity|].
    cbn [enc_choice]. rewrite nm_g', err_weight_eq. reflexivity.
  Qed.

  Lemma own_cost_valid : forall c, own_choice bd g' n w = Cost c -> INVALID_SCORE < c.
  Proof.
    intros c E. unfold own_choice in E. change (bk_pending g') with (bk_pending g) in E.
    change (info g' n) with (info g n) in E.
    destruct (mem n (bk_pending g)); [discriminate|].
    destruct (Z.eqb_spec (ni_score (info g n)) INVALID_SCORE) as [|NI]; [discriminate|].
    destruct (ni_score (info g n) =? IGNORE_SCORE); [discriminate|].
    rewrite moveIsChild_spec in E. change (moveIsChild g' n) with (moveIsChild g n) in E.
    destruct (moveIsChild g n) eqn:M.
    - inversion E. vm_compute. reflexivity.
    - inversion E. rewrite nm_g', err_weight_eq.
      pose proof (nm_ge_score g sc n M NI) as G. fold nm in G. pose proof kfac_nonneg as K.
      assert (0 <= (nm - ni_score (info g n)) * kfac bd wtm w) by (apply Z.mul_nonneg_nonneg; lia).
      rewrite INVALID_val. lia.
  Qed.

  Theorem computeNegaMax_cost : eq_cost bd g' n w = true /\ IGNORE_SCORE <= node_cost g' n w.
  Proof.
    unfold eq_cost. rewrite node_cost_n. unfold newExpCost. fold body.
    rewrite own_choice_eq. rewrite inval_fold.
    unfold choices. change (children g' n) with (children g n). cbn [existsb].
    set (own := own_choice bd g' n w).
    assert (Hex : existsb is_invalid (map (fun mc : N * N => child_choice bd g' n w (snd mc)) (children g n)) =
                  existsb (fun mc => cost_of w (scof sc (snd mc)) =? INVALID_SCORE) (children g n)).
    { assert (G : forall l, (forall mc, In mc l -> In mc (children g n)) ->
                  existsb is_invalid (map (fun mc : N * N => child_choice bd g' n w (snd mc)) l) =
                  existsb (fun mc => cost_of w (scof sc (snd mc)) =? INVALID_SCORE) l).
      { induction l as [|mc t IH]; intro Hs; cbn [map existsb]; [reflexivity|].
        rewrite IH by (intros m H; apply Hs; right; exact H). f_equal.
        rewrite child_choice_eq by (apply Hs; left; reflexivity). cbn zeta.
        destruct (cost_of w (scof sc (snd mc)) =? INVALID_SCORE); [reflexivity|].
        destruct (cost_of w (scof sc (snd mc)) =? IGNORE_SCORE); reflexivity. }
      apply G. auto. }
    rewrite Hex.
    destruct (existsb (fun mc => cost_of w (scof sc (snd mc)) =? INVALID_SCORE) (children g n)) eqn:EX.
    - (* some child is INVALID *)
      rewrite orb_true_r. rewrite body_invalid. split; [apply Z.eqb_refl|rewrite IGNORE_val, INVALID_val; lia].
    - rewrite orb_false_r.
      assert (Hni : forall mc, In mc (children g n) -> cost_of w (scof sc (snd mc)) <> INVALID_SCORE).
      { intros mc H E. rewrite <- not_true_iff_false in EX. apply EX. apply existsb_exists.
        exists mc. split; [exact H|apply Z.eqb_eq; exact E]. }
      destruct own as [| |c0] eqn:OWN; cbn [is_invalid enc_choice].
      + (* own move ignored *)
        destruct (body_fold (children g n) IGNORE_SCORE [] (fun m H => H) Hni) as [acc' [R [Hv Eq]]].
        { left; split; reflexivity. } { intros c []. }
        cbn [costs_of].
        set (cs := costs_of (map (fun mc : N * N => child_choice bd g' n w (snd mc)) (children g n))) in *.
        destruct R as [[E1 E2]|[NE [Hmin Hin]]].
        * assert (cs = []). { destruct cs as [|x t]; [reflexivity|]. exfalso. assert (In x acc') by (apply Eq; right; left; reflexivity). rewrite E1 in H. exact H. }
          rewrite H. rewrite E2. split; [apply Z.eqb_refl|lia].
Show.
