From Coq Require Import ZArith NArith List Bool Lia.
From Texel Require Import Chess.Types Chess.Position Chess.Fen.
Local Open Scope N_scope.
Definition boardPos (sqs : list piece) : position := mkPos sqs nil 0 0 true 0%Z 0%Z 0 0%Z 0 0 0%Z 0%Z 0%Z 0%Z 0%Z.
Lemma attackedBy_board p sq c : attackedBy p sq c = attackedBy (boardPos (squares p)) sq c.
Proof. Time reflexivity. Time Qed.
