From Coq Require Import List Bool.
From Texel Require Import Ctl.Uci Ctl.Engine Ctl.Dec Ctl.CtlSpec Ctl.Reach Ctl.CtlInv.
Import ListNotations.
Time Eval vm_compute in (check_all false, check_all true).
(* diagnose: which conjunct fails *)
Definition bad_s (g:bool) := filter (fun p => negb (sinv g p)) (reachset g).
Definition bad_t (g:bool) := flat_map (fun p => map (fun ls => (p, ls)) (filter (fun ls => negb (tinv g p (fst ls) (snd ls))) (psuccs g p))) (reachset g).
Time Eval vm_compute in (length (bad_s false), length (bad_t false), length (bad_s true), length (bad_t true)).
Eval vm_compute in (hd_error (bad_s true)).
Eval vm_compute in (hd_error (bad_t true)).
