From Coq Require Import ZArith List Bool Arith Lia.
From Texel Require Import Workers.Workers Workers.WorkersLemmas Workers.WorkersInv.
Import ListNotations.
Section P.
Variable N : nat.
Variable parent : tid -> option tid.
Hypothesis Htree : tree_ok N parent.
Notation InvE := (InvE N parent).
Notation lstep := (lstep N parent).

Lemma step_g1 : forall s lb s', InvE s -> lstep s lb = Some s' ->
  forall t, t <= N -> ae (th s' 0) <= se (th s' t) /\ se (th s' t) <= se (th s' 0).
Proof.
  intros s lb s' I H t Ht.
  pose proof (e_g1 _ _ _ I t Ht) as G1.
  pose proof (e_g1 _ _ _ I) as G1a.
  Time step_inv_fine H.
 Time all: ssimpl.
 Time all: unfold upd.
 Time all: repeat match goal with |- context [Nat.eqb ?a ?b] => destruct (Nat.eqb_spec a b); try subst; try congruence end.
 Time all: ssimpl. Time all: try lia. Show.
Abort.
End P.
