From Coq Require Import ZArith NArith List Bool Lia.
From Texel Require Import Chess.Types Chess.Position Chess.Fen TextIO.MoveText TextIO.ParseSweep.
Import ListNotations.
Local Open Scope N_scope.
Definition F1 := (fun wtm => allIn pieceLetters (fun L => allDis (fun d fx fy => allIn seps (fun sep =>
    all8 (fun x2 => all8 (fun y2 =>
      parsesTo wtm (shapeStr [L] d sep x2 y2 [])
               (mkInfo (charToPiece wtm L) fx fy (Z.of_N x2) (Z.of_N y2) (Z.of_N EMPTY))
               (strEqb sep [ch_x]))))))).
Lemma t1 : forall wtm, F1 wtm = true.
Proof. intro wtm. Time exact (allBool_spec F1 sweepPiece_ok wtm). Time Qed.
