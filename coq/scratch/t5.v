From Coq Require Import ZArith NArith List Bool Lia FMapPositive.
From Texel Require Import Chess.Types Chess.BitBoard Chess.Spec Chess.BitBoardProofs Chess.RayProofs gen.BitBoardTables.
Import ListNotations.
Local Open Scope N_scope.
Fixpoint subsets (l : list square) : list N :=
  match l with [] => [0] | b :: t => let r := subsets t in r ++ map (N.lor (bit b)) r end.
Definition innerRay (s : square) (d : Z * Z) : list square := rayList rayFuel (zX s) (zY s) (fst d) (snd d) true.
Definition rMaskSquares (s : square) : list square := flat_map (innerRay s) rook_dirs.
Definition bMaskSquares (s : square) : list square := flat_map (innerRay s) bishop_dirs.
Definition magicOkR (sq : square) : bool :=
  match rTableOf sq with
  | Some t => let magic := nthN rMagics sq in let bits := nthN rBits sq in
      forallb (fun sub => tget t (magicIndex sub magic bits) =? rookAttacks sq sub) (subsets (rMaskSquares sq))
  | None => false end.
Definition magicOkB (sq : square) : bool :=
  match bTableOf sq with
  | Some t => let magic := nthN bMagics sq in let bits := nthN bBits sq in
      forallb (fun sub => tget t (magicIndex sub magic bits) =? bishopAttacks sq sub) (subsets (bMaskSquares sq))
  | None => false end.
Time Eval vm_compute in forallb magicOkB allSquares.
Time Eval vm_compute in magicOkR 0.
Time Eval vm_compute in magicOkR 27.
