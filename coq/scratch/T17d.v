From Coq Require Import ZArith NArith List Bool Lia ZifyBool.
Local Open Scope Z_scope.
Ltac Zify.zify_post_hook ::= Z.div_mod_to_equations.
Goal forall f r, 0 <= f <= 7 /\ 0 <= r <= 7 -> (Z.to_N (r * 8 + f) mod 8)%N = Z.to_N f.
Proof. intros f r H. zify. Show. Abort.
Goal forall f r, 0 <= f <= 7 /\ 0 <= r <= 7 -> ((r * 8 + f) mod 8) = f.
Proof. intros f r H. lia. Qed.
Goal forall f r, 0 <= f <= 7 /\ 0 <= r <= 7 -> (Z.to_N (r * 8 + f) mod 8)%N = Z.to_N f.
Proof. intros f r H. apply N2Z.inj. rewrite N2Z.inj_mod. rewrite !Z2N.id by lia. change (Z.of_N 8) with 8. lia. Qed.
