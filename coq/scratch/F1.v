From Coq Require Import List Bool PArith FMapPositive.
From Texel Require Import Ctl.Uci Ctl.Engine Ctl.Dec Ctl.CtlSpec Ctl.Reach Ctl.CtlInv.
Import ListNotations.

Definition item := (pst * list nat)%type.
Fixpoint enum {A} (n : nat) (l : list A) : list (nat * A) := match l with [] => [] | x :: r => (n, x) :: enum (S n) r end.
Definition T := tbl pst.
Fixpoint bfs (g : bool) (target : pst -> bool) (fuel : nat) (frontier : list item) (t : T) : option (list nat) :=
  match fuel with O => None | S f =>
    match find (fun it => target (fst it)) frontier with
    | Some it => Some (rev (snd it))
    | None =>
      match frontier with [] => None | _ =>
      let '(t', new) := fold_left (fun (st : T * list item) (it : item) =>
          fold_left (fun (st : T * list item) (nls : nat * (label * pst)) =>
             let q := snd (snd nls) in
             if mem pst pst_eqb pst_hash q (fst st) then st
             else (add pst pst_hash q (fst st), (q, fst nls :: snd it) :: snd st))
            (enum 0 (psuccs g (fst it))) st) frontier (t, []) in
      bfs g target f new t'
      end
    end
  end.
Definition findp g target := bfs g target 200 [(p0, [])] (add pst pst_hash p0 (PositiveMap.empty _)).
Definition isHold (e : epcT) := match e with EHold true => true | _ => false end.
Eval vm_compute in findp false (fun p => snd p && isHold (epc (fst p)) && awaiting_input (fst p)).
Eval vm_compute in findp false (fun p => Nat.eqb (outstanding (fst p)) 2 && match epc (fst p) with ESearch => true | _ => false end).
Eval vm_compute in findp false (fun p => uci_blocked (fst p) && search (fst p) && match epc (fst p) with ESearch => true | _ => false end).
Eval vm_compute in findp false (fun p => pending (fst p) && match epc (fst p) with ESearch => true | _ => false end && awaiting_input (fst p)).
Eval vm_compute in findp false (fun p => Nat.eqb (outstanding (fst p)) 1 && awaiting_input (fst p) && match epc (fst p) with ESearch => true | _ => false end).
Eval vm_compute in findp true (fun p => exited (fst p) && sc (fst p)).
