Lemma step_g2 : forall s lb s', InvE s -> lstep s lb = Some s' ->
  forall c, helper c ->
    ae (th s' 0) <= ae (th s' c) /\ ae (th s' c) <= se (th s' c) /\ se (th s' c) <= S (ae (th s' c)).
Proof.
  intros s lb s' I H c Hc.
  pose proof (e_g2 _ _ _ I c Hc) as G2.
  assert (Hc0 : c <> 0) by (unfold WorkersInv.helper in Hc; lia).
  step_inv_fine H; crunch; try lia.
  all: try (stop_facts I; lia).
  all: try (sendack_facts I; lia).
  - phase_facts' I. bar_facts.
    destruct (barrier_all s I Hw c c (le_n _) Hc). lia.
Qed.
