From Coq Require Import ZArith List Bool Arith Lia.
From Texel Require Import Workers.Workers Workers.Race Workers.RaceProofs Workers.Access.
Import ListNotations.
Definition par0 : Race.tid -> option Race.tid := fun _ => None.
Definition f9_search_sched : list label :=
  [LE ESpur; LT 0 AWait; LT 0 ARdQuit; LE (EGo false); LT 0 ARdSearch].
Definition f9_quit_sched : list label :=
  [LE ESpur; LT 0 AWait; LE EQuit; LT 0 ARdQuit].
Eval vm_compute in (option_map raceb (trace_of 0 par0 init f9_search_sched)).
Eval vm_compute in (option_map raceb (trace_of 0 par0 init f9_quit_sched)).
Eval vm_compute in (trace_of 0 par0 init f9_search_sched).
