From Coq Require Import ZArith NArith List Bool.
From Texel Require Import Chess.Types Chess.Position Chess.Fen Chess.PositionInst TextIO.MoveText TextIO.UciLine.
Import ListNotations.
Open Scope N_scope.
Definition l : str := s_position ++ [32] ++ s_startpos ++ [32] ++ s_moves ++ [32; 101;50;101;52].
Compute tokenize l.
Compute match uciLine zk0 l with Some (PosSet p ms) => Some ms | _ => None end.
Compute match uciLine zk0 l with Some (PosSet p ms) => 1 | Some PosNone => 2 | Some (PosErr _) => 3 | None => 4 end.
Compute strEqb [112; 111; 115; 105; 116; 105; 111; 110] s_position.
