From Coq Require Import ZArith NArith List.
From Texel Require Import Chess.Types Chess.Position Chess.PositionInst RevGen.RevGen RevGen.RevRestore RevGen.RevTheorems.
Local Open Scope N_scope.
Time Eval vm_compute in (length (genMoves zk0 (successor zk0 kiwiPos (mkMove 0 1 EMPTY)) false), length (genMoves zk0 (successor zk0 kiwiPos (mkMove 0 1 EMPTY)) true)).
