From Coq Require Import ZArith List Bool Arith Lia.
From Texel Require Import Workers.Workers Workers.WorkersLemmas Workers.WorkersInv Workers.WorkersInvProofs Workers.WorkersTac Workers.WorkersJob Workers.WorkersWake.
Import ListNotations.
Section P.
Variable N : nat.
Variable parent : tid -> option tid.
Notation InvL := (InvL N).
Notation lstep := (lstep N parent).
Notation helper := (helper N).
