From Coq Require Import ZArith NArith List Bool Lia.
From Texel Require Import Chess.Types Chess.Position Chess.BitBoard Chess.Spec gen.BitBoardTables.
Import ListNotations.
Lemma firstBitT_bit : forall i, (i < 64)%N -> firstBitT (bit i) = i.
Proof. Admitted.
(** ** [mask & -mask] isolates the lowest set bit *)
Local Open Scope N_scope.

Lemma N_pow_pos : forall a b : N, 0 < a -> 0 <= b -> 0 < a ^ b.
Proof. intros a b Ha _. apply N.neq_0_lt_0. apply N.pow_nonzero. lia. Qed.

Lemma ctzP_xO : forall p, ctzP p~0 = N.succ (ctzP p).
Proof. intro p. change (ctzP p~0) with (1 + ctzP p). lia. Qed.
Lemma ctzP_xI : forall p, ctzP p~1 = 0.
Proof. reflexivity. Qed.
Lemma pos_xO : forall p, N.pos p~0 = 2 * N.pos p.
Proof. reflexivity. Qed.
Lemma pos_xI : forall p, N.pos p~1 = 2 * N.pos p + 1.
Proof. reflexivity. Qed.

Lemma land_complement : forall j a c, a + c = N.ones j -> N.land a c = 0.
Proof.
  intros j a c H.
  assert (Ha : a <= N.ones j) by lia.
  assert (Hc : c = N.ones j - a) by lia.
  assert (Hl : N.ldiff a (N.ones j) = 0).
  { destruct (N.eq_dec a 0) as [->|Hz]; [apply N.ldiff_0_l|].
    apply N.ldiff_ones_r_low. rewrite N.ones_equiv in Ha.
    assert (0 < 2 ^ j) by (apply N_pow_pos; lia).
    apply (proj1 (N.log2_lt_pow2 a j ltac:(lia))). lia. }
  rewrite Hc. rewrite (N.sub_nocarry_ldiff _ _ Hl).
  apply N.bits_inj. intro i. rewrite N.land_spec, N.ldiff_spec, N.bits_0.
  destruct (N.testbit a i); [apply andb_false_r | reflexivity].
Qed.

Lemma land_double : forall x y, N.land (2 * x) (2 * y) = 2 * N.land x y.
Proof.
  intros. apply N.bits_inj. intro i. rewrite N.land_spec.
  destruct (N.eq_dec i 0) as [->|Hi].
  - rewrite !N.testbit_even_0. reflexivity.
  - replace i with (N.succ (N.pred i)) by lia. rewrite !N.testbit_even_succ by lia.
    rewrite N.land_spec. reflexivity.
Qed.

Lemma land_odd : forall x y, N.land (2 * x + 1) (2 * y + 1) = 2 * N.land x y + 1.
Proof.
  intros. apply N.bits_inj. intro i. rewrite N.land_spec.
  destruct (N.eq_dec i 0) as [->|Hi].
  - rewrite !N.testbit_odd_0. reflexivity.
  - replace i with (N.succ (N.pred i)) by lia. rewrite !N.testbit_odd_succ by lia.
    rewrite N.land_spec. reflexivity.
Qed.

Lemma lowbit_pos : forall p n, N.pos p < 2 ^ n ->
  N.land (N.pos p) (2 ^ n - N.pos p) = 2 ^ (ctzP p).
Proof.
  induction p as [p IH | p IH | ]; intros n Hlt.
  - (* odd *)
    assert (Hn : n <> 0) by (intro; subst; simpl in Hlt; lia).
    assert (En : n = N.succ (N.pred n)) by lia. remember (N.pred n) as k. rewrite En in *. clear En Heqk Hn n.
    rewrite N.pow_succ_r' in Hlt |- *. rewrite (pos_xI p) in Hlt |- *. rewrite ctzP_xI.
    replace (2 * 2 ^ k - (2 * N.pos p + 1)) with (2 * (2 ^ k - N.pos p - 1) + 1) by lia.
    rewrite land_odd. rewrite (land_complement k).
    + reflexivity.
    + rewrite N.ones_equiv. assert (0 < 2 ^ k) by (apply N_pow_pos; lia). lia.
  - (* even *)
    assert (Hn : n <> 0) by (intro; subst; simpl in Hlt; lia).
    assert (En : n = N.succ (N.pred n)) by lia. remember (N.pred n) as k. rewrite En in *. clear En Heqk Hn n.
    rewrite N.pow_succ_r' in Hlt |- *. rewrite (pos_xO p) in Hlt |- *. rewrite ctzP_xO.
    replace (2 * 2 ^ k - 2 * N.pos p) with (2 * (2 ^ k - N.pos p)) by lia.
    rewrite land_double. rewrite IH by lia.
    rewrite N.pow_succ_r'. reflexivity.
  - (* one *)
    assert (Hn : n <> 0) by (intro; subst; simpl in Hlt; lia).
    assert (En : n = N.succ (N.pred n)) by lia. remember (N.pred n) as k. rewrite En in *. clear En Heqk Hn n.
    rewrite N.pow_succ_r' in Hlt |- *.
    assert (0 < 2 ^ k) by (apply N_pow_pos; lia).
    replace (2 * 2 ^ k - 1) with (2 * (2 ^ k - 1) + 1) by lia.
    change 1 with (2 * 0 + 1) at 1. rewrite land_odd. reflexivity.
Qed.

Lemma ctzP_lt : forall p n, N.pos p < 2 ^ n -> ctzP p < n.
Proof.
  induction p as [p IH | p IH | ]; intros n Hlt.
  - rewrite ctzP_xI. destruct (N.eq_dec n 0); [subst; simpl in Hlt; lia | lia].
  - assert (Hn : n <> 0) by (intro; subst; simpl in Hlt; lia).
    assert (En : n = N.succ (N.pred n)) by lia. rewrite En in Hlt. rewrite N.pow_succ_r' in Hlt.
    rewrite (pos_xO p) in Hlt. rewrite ctzP_xO.
    specialize (IH (N.pred n)). assert (Hp : N.pos p < 2 ^ N.pred n) by lia. apply IH in Hp. lia.
  - change (ctzP 1) with 0. destruct (N.eq_dec n 0); [subst; simpl in Hlt; lia | lia].
Qed.

Lemma ctzP_pow2 : forall k q, N.pos q = 2 ^ k -> ctzP q = k.
Proof.
  induction k using N.peano_ind; intros q Hq.
  - simpl in Hq. injection Hq as ->. reflexivity.
  - rewrite N.pow_succ_r' in Hq. destruct q as [q|q|].
    + rewrite (pos_xI q) in Hq. lia.
    + rewrite (pos_xO q) in Hq. rewrite ctzP_xO. f_equal. apply IHk. lia.
    + assert (0 < 2 ^ k) by (apply N_pow_pos; lia). lia.
Qed.

(** for every non-zero 64-bit word the table-based BitUtil::firstBit returns the index of the
    lowest set bit ([Position.firstBit] is that index, defined on the binary representation) *)
Theorem firstBitT_correct : forall m, 0 < m -> m < 2 ^ 64 -> firstBitT m = firstBit m.
Proof.
  intros m H0 H64. destruct m as [|p]; [lia|].
  pose proof (ctzP_lt p 64 H64) as Hc.
  assert (Hp : 2 ^ ctzP p < 2 ^ 64) by (apply N.pow_lt_mono_r; lia).
  assert (H2 : 0 < 2 ^ ctzP p) by (apply N_pow_pos; lia).
  assert (Hiso : forall x, 0 < x -> x < 2 ^ 64 -> N.land x (neg64 x) = N.land x (2 ^ 64 - x)).
  { intros x Hx0 Hx. unfold neg64, wrap64. change mask64 with (N.ones 64). rewrite !N.land_ones.
    rewrite (N.mod_small x) by exact Hx. change 18446744073709551616 with (2 ^ 64).
    rewrite (N.mod_small (2 ^ 64 - x)) by lia. reflexivity. }
  pose proof (firstBitT_bit (ctzP p) Hc) as Hb. unfold firstBitT in *. unfold bit in Hb.
  rewrite N.shiftl_1_l in Hb.
  rewrite (Hiso (N.pos p) H0 H64). rewrite (lowbit_pos p 64 H64).
  rewrite (Hiso (2 ^ ctzP p) H2 Hp) in Hb.
  destruct (2 ^ ctzP p) as [|q] eqn:E; [lia|].
  rewrite (lowbit_pos q 64 Hp) in Hb.
  rewrite (ctzP_pow2 (ctzP p) q (eq_sym E)) in Hb. rewrite E in Hb. exact Hb.
Qed.

(** the loop step [mask &= mask - 1] removes exactly the lowest set bit *)
Lemma clearLowest_pos : forall p i,
  N.testbit (N.land (N.pos p) (N.pred (N.pos p))) i = N.testbit (N.pos p) i && negb (i =? ctzP p).
Proof.
  induction p as [p IH | p IH | ]; intro i.
  - (* odd: pred clears bit 0 *)
    rewrite ctzP_xI. replace (N.pred (N.pos p~1)) with (2 * N.pos p) by (rewrite (pos_xI p); lia).
    rewrite (pos_xI p). rewrite N.land_spec. destruct (N.eq_dec i 0) as [->|Hi].
    + rewrite N.testbit_odd_0, N.testbit_even_0. reflexivity.
    + replace i with (N.succ (N.pred i)) by lia. rewrite N.testbit_odd_succ, N.testbit_even_succ by lia.
      replace (N.succ (N.pred i) =? 0) with false by (symmetry; apply N.eqb_neq; lia).
      rewrite andb_true_r. apply andb_diag.
  - (* even *)
    rewrite ctzP_xO.
    assert (Hpred : N.pred (N.pos p~0) = 2 * N.pred (N.pos p) + 1) by (rewrite (pos_xO p); lia).
    rewrite Hpred. rewrite (pos_xO p). rewrite N.land_spec. destruct (N.eq_dec i 0) as [->|Hi].
    + rewrite N.testbit_even_0. reflexivity.
    + replace i with (N.succ (N.pred i)) by lia. rewrite N.testbit_odd_succ, N.testbit_even_succ by lia.
      specialize (IH (N.pred i)). rewrite N.land_spec in IH. rewrite IH.
      f_equal. f_equal.
      destruct (N.eqb_spec (N.pred i) (ctzP p)); destruct (N.eqb_spec (N.succ (N.pred i)) (N.succ (ctzP p))); try reflexivity; lia.
  - change (N.pred 1) with 0. rewrite N.land_0_r, N.bits_0. change (ctzP 1) with 0.
    destruct (N.eqb_spec i 0) as [->|Hi].
    + reflexivity.
    + change 1 with (2 * 0 + 1). replace i with (N.succ (N.pred i)) by lia.
      rewrite N.testbit_odd_succ by lia. rewrite N.bits_0. reflexivity.
Qed.

Lemma clearLowest_spec : forall m, 0 < m ->
  forall i, N.testbit (clearLowest m) i = N.testbit m i && negb (i =? firstBit m).
Proof. intros m Hm i. destruct m as [|p]; [lia|]. apply clearLowest_pos. Qed.

Lemma firstBit_testbit : forall m, 0 < m -> N.testbit m (firstBit m) = true.
Proof.
  intros m Hm. destruct m as [|p]; [lia|]. unfold firstBit. induction p as [p IH | p IH | ].
  - reflexivity.
  - rewrite ctzP_xO, (pos_xO p). rewrite N.testbit_even_succ by lia. apply IH. lia.
  - reflexivity.
Qed.

Lemma firstBit_lowest : forall m i, 0 < m -> N.testbit m i = true -> firstBit m <= i.
Proof.
  intros m i Hm. destruct m as [|p]; [lia|]. unfold firstBit. revert i.
  induction p as [p IH | p IH | ]; intros i Hi.
  - rewrite ctzP_xI. lia.
  - rewrite ctzP_xO. rewrite (pos_xO p) in Hi. destruct (N.eq_dec i 0) as [->|Hz].
    + rewrite N.testbit_even_0 in Hi. discriminate.
    + replace i with (N.succ (N.pred i)) in Hi by lia.
      rewrite N.testbit_even_succ in Hi by lia. apply IH in Hi; lia.
  - change (ctzP 1) with 0. lia.
Qed.
