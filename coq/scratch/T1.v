From Coq Require Import List Bool PArith NArith FMapPositive.
From Texel Require Import Ctl.Uci Ctl.Engine Ctl.Dec Ctl.CtlSpec Ctl.Reach.
Import ListNotations.
Local Open Scope N_scope.

Definition nb (b : bool) : N := if b then 1 else 0.
Definition n_lim (l : lim) : N := match l with LimNone => 0 | LimSome => 1 | LimUnknown => 2 end.
Definition n_out (o : output) : N := match o with OUciOk => 0 | OReadyOk => 1 | OInfo => 2 | OInfoStr => 3 | OBestmove => 4 end.
Definition n_action (a : action) : N :=
  match a with
  | AOut o => n_out o | AInitEngine => 5 | ADeref => 6 | AWaitReady => 7 | ASetOption k => 8 + nb k
  | ATimeLimit0 => 10 | ASetInfinite b => 11 + nb b | ASetInfiniteLim => 13 | ASetPonder b => 14 + nb b
  | AWaitStop => 16 | AWaitOptionsSet => 17 | AComputeLimits l => 18 + n_lim l | ANewSearch => 21
  | AEvalInfo => 22 | AHandOver => 23 | ASetQuit => 24 | ALoopTest => 25 | AEngineQuit => 26
  end.
Definition n_epc (e : epcT) : N :=
  match e with
  | EWait => 0 | ECheckQuit => 1 | ESetOpt b => 2 + nb b | EApply b => 4 + nb b | ECheckSearch => 6
  | EBook => 7 | ESearch => 8 | EHold b => 9 + nb b | EFinish b => 11 + nb b | EStopAck => 13
  | EClearSearch => 14 | EExited => 15
  end.
Definition n_bits (l : list bool) : N := fold_left (fun a b => 2 * a + nb b) l 0.
Definition n_state (s : state) : N :=
  let a := fold_left (fun a x => 32 * a + n_action x + 1) (upc s) 0 in
  let b := n_bits [udone s; uquit s; engine s; sc s; ponder s; infinite s; stopreq s; search s; quitFlag s;
                   notified s; pending s; finished s; crashed s; exited s] in
  ((a * 16 + n_epc (epc s)) * 4 + n_lim (limits s)) * 16384 + b.

Definition pst := (state * bool)%type.
Definition pst_eqb (a b : pst) : bool := (Bool.eqb (snd a) (snd b) && state_eqb (fst a) (fst b))%bool.
Definition pst_hash (p : pst) : positive := N.succ_pos (2 * n_state (fst p) + nb (snd p)).
Definition psuccs (g : bool) (p : pst) : list (label * pst) :=
  map (fun ls => (fst ls, (snd ls, held_upd (snd p) (fst ls)))) (all_steps g (fst p)).
Definition p0 : pst := (init, false).

Definition R (g : bool) := reach pst label pst_eqb pst_hash (psuccs g) p0 400.
Time Eval vm_compute in (length (R false), length (R true)).
Time Eval vm_compute in (length (reach pst label pst_eqb pst_hash (psuccs true) p0 40)).
