From Coq Require Import ZArith List Bool Arith Lia.
From Texel Require Import Workers.Workers Workers.WorkersLemmas.
Import ListNotations.
Goal forall N parent s lb s', lstep N parent s lb = Some s' -> True.
intros. Time step_inv_fine H.
Show.
all: exact I. Qed.
