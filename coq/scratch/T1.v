From Coq Require Import ZArith NArith List Bool Lia.
From Texel Require Import Chess.Types Chess.Position Chess.PositionSpec Chess.PositionFacts
  Chess.PositionProofs Chess.PositionProofs2 Chess.PositionProofs3 Chess.PositionProofs4 Chess.Spec.
Import ListNotations.
Local Open Scope N_scope.
Section S.
Variable zk : zkeys.
Lemma setPiece_hmc p sq pc h : setPiece zk (set_halfMoveClock p h) sq pc = set_halfMoveClock (setPiece zk p sq pc) h.
Proof.
  destruct p. unfold setPiece, removedBlock, addedBlock, getPiece, ptBB. cbv zeta. proj_simpl.
  Time break_if; reflexivity.
Qed.
Lemma mpnp_hmc p f t h : movePieceNotPawn zk (set_halfMoveClock p h) f t = set_halfMoveClock (movePieceNotPawn zk p f t) h.
Proof.
  destruct p. unfold movePieceNotPawn, getPiece, ptBB. cbv zeta. proj_simpl.
  Time break_if; reflexivity.
Qed.
End S.
