From Coq Require Import ZArith Lia.
Open Scope Z_scope.
Search (_ mod _ mod _ = _ mod _).
