(** The resident tablebase and ordinary hash accesses use disjoint entries. *)
From Coq Require Import ZArith Bool List Lia ZifyBool.
From Texel Require Import TT.Entry TT.EntryProofs TT.Table TT.TableProofs TT.TBRegion.
Import ListNotations.
Local Open Scope Z_scope.

(** every class with at most 4 men fits the reserved 5 MB exactly or with room to spare *)
Lemma nPositions_le_tbSize : forall n, 2 <= n <= 4 -> 0 < nPositions n <= tbSize.
Proof.
  intros n H. assert (C : n = 2 \/ n = 3 \/ n = 4) by lia.
  destruct C as [C | [C | C]]; subst n; vm_compute; split; (reflexivity || discriminate).
Qed.

(** bytes of the tablebase live in entries [tableSize - 327680, tableSize) *)
Lemma tb_entry_range : forall t size idx,
  0 <= idx < size -> size <= tbSize -> size < byteSize t ->
  tableSize t - tbSize / entryBytes <= tb_entry t size idx < tableSize t.
Proof.
  intros t size idx Hi Hs Hb. unfold tb_entry, tb_idx0, byteSize, tbSize, entryBytes in *.
  change (5 * 1024 * 1024 / 16) with 327680. change (5 * 1024 * 1024) with 5242880 in Hs.
  Z.div_mod_to_equations. lia.
Qed.

(** reSize rounds to a multiple of four *)
Lemma round_size_spec : forall n, 0 <= n < 2 ^ 64 ->
  round_size n = (if n <? 4 then 4 else n - n mod 4).
Proof.
  intros n Hn. unfold round_size.
  assert (L : forall m, 0 <= m < 2 ^ 64 -> Z.land m (wrap 64 (Z.lnot 3)) = m - m mod 4).
  { intros m Hm.
    assert (E : Z.land m (wrap 64 (Z.lnot 3)) = Z.ldiff m (Z.ones 2)).
    { apply Z.bits_inj'. intros i Hi. rewrite Z.land_spec, Z.ldiff_spec, testbit_wrap, Z.lnot_spec by lia.
      change (Z.ones 2) with 3.
      destruct (Z.ltb_spec i 64); [reflexivity|].
      rewrite (W64_high_bits m i) by (assumption || lia). reflexivity. }
    rewrite E, Z.ldiff_ones_r by lia. rewrite Z.shiftr_div_pow2, Z.shiftl_mul_pow2 by lia.
    change (2 ^ 2) with 4. Z.div_mod_to_equations. lia. }
  destruct (Z.ltb_spec n 4).
  - rewrite L by (change (2 ^ 64) with 18446744073709551616; lia). reflexivity.
  - apply L. exact Hn.
Qed.

Lemma round_size_ok : forall n, 512 <= n < 2 ^ 64 ->
  512 <= round_size n < 2 ^ 64 /\ round_size n mod 4 = 0 /\ n - 3 <= round_size n <= n.
Proof.
  intros n Hn. rewrite round_size_spec by lia.
  destruct (Z.ltb_spec n 4); [lia|].
  Z.div_mod_to_equations. lia.
Qed.

(** While a tablebase is resident: every entry the tablebase storage touches is >= usedSize,
    every entry an insert/probe touches is < usedSize (and inside the table). *)
Theorem tb_region_disjoint : forall t t' nPieces idx key i,
  tableSize t < 2 ^ 60 -> tableSize t mod 4 = 0 ->
  tbOn t = Ok (t', true) ->
  2 <= nPieces <= 4 -> 0 <= idx < nPositions nPieces ->
  0 <= key < 2 ^ 64 -> 0 <= i <= 3 ->
  usedSize t' = tableSize t - tbSize / entryBytes /\ tableSize t' = tableSize t /\
  tbResident t' = true /\
  0 <= getIndex t' key + i < usedSize t' /\
  usedSize t' <= tb_entry t' (nPositions nPieces) idx < tableSize t'.
Proof.
  intros t t' n idx key i HT Hm4 E Hn Hidx Hk Hi.
  unfold tbOn in E.
  destruct (Z.ltb_spec (tableSize t * entryBytes) tbMinTT) as [L | L]; [inversion E|].
  unfold entryBytes, tbMinTT, tbSize in L.
  set (s := tableSize t - tbSize / entryBytes) in *.
  assert (Hs : 512 <= s < 2 ^ 64 /\ s mod 4 = 0).
  { unfold s, tbSize, entryBytes. change (5 * 1024 * 1024 / 16) with 327680.
    change (2 ^ 60) with 1152921504606846976 in HT. change (2 ^ 64) with 18446744073709551616.
    split; [lia|]. Z.div_mod_to_equations. lia. }
  destruct Hs as [Hs Hs4].
  destruct (setUsedSize t s) as [t1 | j | ] eqn:E1; try discriminate.
  inversion E; subst t'. clear E.
  destruct (getIndex_in_used t t1 s key Hs Hs4 Hk E1) as (U & A & B & C).
  assert (TS : tableSize t1 = tableSize t).
  { unfold setUsedSize in E1. destruct (size_params s) as [[[a b] c]|]; inversion E1. reflexivity. }
  destruct (nPositions_le_tbSize n Hn) as [P0 P1].
  cbn [usedSize tableSize tbResident].
  assert (GI : getIndex (mkTT (mem t1) (tableSize t1) (usedSize t1) (topBits t1) (usedShift t1)
                              (usedMask t1) (generation t1) (contemptHash t1) true) key = getIndex t1 key) by reflexivity.
  rewrite GI. rewrite U, TS.
  repeat split; try lia.
  - pose proof (tb_entry_range (mkTT (mem t1) (tableSize t1) (usedSize t1) (topBits t1) (usedShift t1)
                              (usedMask t1) (generation t1) (contemptHash t1) true) (nPositions n) idx Hidx P1) as R.
    unfold byteSize in R. cbn [tableSize] in R. rewrite TS in R.
    unfold entryBytes in R at 1. unfold tbSize in P1.
    specialize (R ltac:(lia)). unfold s. Show. lia.
  - pose proof (tb_entry_range (mkTT (mem t1) (tableSize t1) (usedSize t1) (topBits t1) (usedShift t1)
                              (usedMask t1) (generation t1) (contemptHash t1) true) (nPositions n) idx Hidx P1) as R.
    unfold byteSize in R. cbn [tableSize] in R. rewrite TS in R.
    unfold entryBytes in R at 1. unfold tbSize in P1.
    specialize (R ltac:(lia)). lia.
Qed.

(** non-vacuity: Hash = 16 MB (2^20 entries) admits a tablebase *)
Example tb_region_example :
  exists t t', new_tt 1048576 = Ok t /\ tbOn t = Ok (t', true) /\ usedSize t' = 720896 /\
               tb_entry t' (nPositions 4) 0 = 720896.
Proof.
  eexists. eexists. split; [vm_compute; reflexivity|]. split; [vm_compute; reflexivity|].
  split; vm_compute; reflexivity.
Qed.
