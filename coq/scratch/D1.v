From Coq Require Import List Bool PeanoNat Lia.
From Texel Require Import Ctl.Uci Ctl.Engine Ctl.Dec Ctl.CtlSpec Ctl.Reach Ctl.CtlInv Ctl.CtlProofs.
Import ListNotations.
Ltac split_andb H :=
  repeat match type of H with
         | (_ && _)%bool = true => let H1 := fresh H in apply andb_true_iff in H; destruct H as [H H1]
         end.
Lemma imp_true : forall a b, imp a b = true -> a = true -> b = true.
Proof. intros [|] [|]; simpl; auto; discriminate. Qed.
Goal forall g tr s, sinv g (s, held_after tr) = true -> udone s = true -> True.
intros g tr s H A. unfold sinv in H; cbn [fst snd] in H. split_andb H.
apply imp_true in H9; [| exact A]. split_andb H9. Show.
Abort.
