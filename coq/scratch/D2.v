From Coq Require Import List Bool PeanoNat.
From Texel Require Import Ctl.Uci Ctl.Engine Ctl.Dec Ctl.Checker Ctl.CtlSpec Ctl.CtlInv Ctl.CtlProofs Ctl.CtlExamples.
Import ListNotations.
Goal exists tr s s1, run false init tr s /\
  1 <= outstanding s /\ read false s CStop = Some s1 /\ stopping s1 = true /\ rank s1 = 465.
Proof.
  eexists; eexists; eexists; split.
  - apply (follow_run false [9; 0; 0; 0; 0; 0; 0; 0; 0; 0; 0; 0; 1; 0; 1; 1; 1; 1; 1; 0]). vm_compute. reflexivity.
  - vm_compute. repeat split. Show.
Abort.
