From Coq Require Import ZArith List Bool Arith Lia.
From Texel Require Import Workers.Workers Workers.WorkersLemmas Workers.WorkersInv Workers.WorkersInvProofs Workers.WorkersTac Workers.WorkersJob Workers.WorkersDead.
Import ListNotations.
Section P.
Variable N : nat.
Variable parent : tid -> option tid.
Hypothesis Htree : tree_ok N parent.
Notation InvE := (InvE N parent).
Notation InvD := (InvD N).
Notation lstep := (lstep N parent).
Notation helper := (helper N).
Lemma helper_ne0d : forall c, helper c -> c <> 0.
Proof. unfold WorkersInv.helper; lia. Qed.

Lemma stepd_kind : forall s lb s', InvD s -> lstep s lb = Some s' ->
  forall c, helper c -> hkind (pc (th s' c)) = true.
Proof.
  intros s lb s' D H c Hc. pose proof (d_kind _ _ D c Hc) as K. pose proof (helper_ne0d c Hc).
  step_inv_fine H; crunch; use_eqs; cbn [hkind] in *; auto; try congruence.
  Show.
Abort.
End P.
