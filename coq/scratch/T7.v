From Coq Require Import ZArith List Bool Arith Lia.
From Texel Require Import Workers.Workers Workers.WorkersLemmas Workers.WorkersInv Workers.WorkersInvProofs Workers.WorkersTac Workers.WorkersJob Workers.WorkersDead.
Import ListNotations.
Section P.
Variable N : nat.
Variable parent : tid -> option tid.
Hypothesis Htree : tree_ok N parent.
Notation InvE := (InvE N parent).
Notation InvD := (InvD N).
Notation lstep := (lstep N parent).
Notation helper := (helper N).
Lemma helper_ne0d : forall c, helper c -> c <> 0.
Proof. unfold WorkersInv.helper; lia. Qed.

Lemma stepd_kind : forall s lb s', InvD s -> lstep s lb = Some s' ->
  forall c, helper c -> hkind (pc (th s' c)) = true.
Proof.
  intros s lb s' D H c Hc. pose proof (d_kind _ _ D c Hc) as K. pose proof (helper_ne0d c Hc).
  step_inv_fine H; crunch; use_eqs; cbn [hkind] in *; auto; try congruence.
Qed.

Lemma mquit_absorb : forall s lb s', lstep s lb = Some s' -> mquit (pc (th s 0)) = true -> mquit (pc (th s' 0)) = true.
Proof.
  intros s lb s' H. step_inv_fine H; crunch; use_eqs; cbn [mquit] in *; auto; try discriminate.
  all: try (intros X; repeat match type of X with context [match ?x with _ => _ end] => destruct x; try discriminate end; auto).
Qed.

Lemma stepd_quit : forall s lb s', InvD s -> lstep s lb = Some s' ->
  mquit (pc (th s' 0)) = false -> forall c, helper c ->
    qa (th s' c) = (-1)%Z /\ (forall m, In m (qu s' c) -> is_quitmsg m = false) /\
    pcquit (pc (th s' c)) = false.
Proof.
  intros s lb s' D H Hm c Hc.
  assert (Hm0 : mquit (pc (th s 0)) = false).
  { destruct (mquit (pc (th s 0))) eqn:E; auto. rewrite (mquit_absorb s lb s' H E) in Hm. discriminate. }
  pose proof (d_quit _ _ D Hm0) as Q. pose proof (helper_ne0d c Hc) as Hc0.
  destruct (Q c Hc) as (Q1 & Q2 & Q3).
  step_inv_fine H; crunch; use_eqs; cbn [pcquit mquit] in *; auto; try discriminate.
  Show.
Abort.
End P.
