(** C02: decidable form of the invariant, concrete examples (non-vacuity) and the refuted
    statements, on the tables regenerated from the engine. *)
From Coq Require Import ZArith NArith List Bool Lia.
From Texel Require Import Chess.Types Chess.Position Chess.PositionSpec Chess.PositionFacts
  Chess.PositionProofs Chess.PositionProofs2 Chess.PositionProofs3 Chess.PositionProofs4
  Chess.PositionTheorems Chess.Fen Chess.PositionInst.
Import ListNotations.
Local Open Scope N_scope.

Lemma consistentb_sound zk p : consistentb zk p = true -> Consistent zk p.
Proof.
  unfold consistentb. intro H.
  apply andb_prop in H as [H Hbits]. apply andb_prop in H as [H Hpcs]. apply andb_prop in H as [Hl1 Hl2].
  apply Nat.eqb_eq in Hl1. apply Nat.eqb_eq in Hl2.
  unfold consistencyBits in Hbits. cbv zeta in Hbits. cbn [firstn forallb] in Hbits.
  repeat (apply andb_prop in Hbits; let X := fresh "B" in destruct Hbits as [X Hbits]).
  constructor; auto.
  - apply Forall_forall. intros x Hx. rewrite forallb_forall in Hpcs. apply N.ltb_lt. auto.
  - intros pc Hpc. rewrite forallb_forall in B. apply N.eqb_eq. apply B.
    assert (E : pc = 1 \/ pc = 2 \/ pc = 3 \/ pc = 4 \/ pc = 5 \/ pc = 6 \/ pc = 7 \/ pc = 8 \/ pc = 9 \/
                pc = 10 \/ pc = 11 \/ pc = 12) by lia.
    simpl. intuition.
  - apply N.eqb_eq; auto.
  - apply N.eqb_eq; auto.
  - rewrite N.lxor_0_r. apply N.eqb_eq; auto.
  - apply N.eqb_eq; auto.
  - apply Z.eqb_eq; auto.
  - apply Z.eqb_eq; auto.
  - apply Z.eqb_eq; auto.
  - apply Z.eqb_eq; auto.
  - apply Z.eqb_eq; auto.
Qed.

Lemma zk0_emptyKeysZero : emptyKeysZero zk0.
Proof.
  intro sq. unfold psKey. change (nth (N.to_nat EMPTY) (zk_ps zk0) []) with (repeat 0 64).
  generalize (N.to_nat sq). intro n. do 65 (destruct n as [|n]; [reflexivity|]). reflexivity.
Qed.

(** strings *)
Definition ascii (s : list nat) : list N := map N.of_nat s.
(** "rnbqkbnr/pppppppp/8/8/8/8/PPPPPPPP/RNBQKBNR w KQkq - 0 1" *)
Definition startFEN : list N :=
  [114;110;98;113;107;98;110;114;47;112;112;112;112;112;112;112;112;47;56;47;56;47;56;47;56;47;
   80;80;80;80;80;80;80;80;47;82;78;66;81;75;66;78;82;32;119;32;75;81;107;113;32;45;32;48;32;49].
Definition posOf (fen : list N) : position :=
  match readFEN zk0 fen with FenOk p => p | FenErr _ => emptyPosition zk0 end.
Definition startPos : position := posOf startFEN.

Lemma startPos_consistent : Consistent zk0 startPos.
Proof. apply consistentb_sound. vm_compute. reflexivity. Qed.

Definition e2e4 : move := mkMove 12 28 EMPTY.
Definition g1f3 : move := mkMove 6 21 EMPTY.

(** non-vacuity of C02_unmake_make *)
Example unmake_make_example :
  Consistent zk0 startPos /\ moveOk startPos e2e4 = true /\ moveOk startPos g1f3 = true /\
  fst (makeMove zk0 startPos e2e4) <> startPos.
Proof.
  split; [exact startPos_consistent|]. split; [vm_compute; reflexivity|]. split; [vm_compute; reflexivity|].
  intro H. apply (f_equal whiteMove) in H. vm_compute in H. discriminate.
Qed.

(** the dead EMPTY board is NOT restored (finding F10): after 1.e4 and take-back from a
    position produced by the FEN reader, pieceTypeBB_[EMPTY] has bit e4 set *)
Lemma unmake_make_emptyBB_refuted :
  exists p m, Consistent zk0 p /\ moveOk p m = true /\
    unMakeMove zk0 (fst (makeMove zk0 p m)) m (snd (makeMove zk0 p m)) <> p.
Proof.
  exists startPos, e2e4. split; [exact startPos_consistent|]. split; [vm_compute; reflexivity|].
  intro H. apply (f_equal (fun q => ptBB q EMPTY)) in H. vm_compute in H. discriminate.
Qed.

(** six black queens (finding F1): "qqqqqq1k/8/8/8/8/8/8/7K w - - 0 1" *)
Definition sixQueensFEN : list N :=
  [113;113;113;113;113;113;49;107;47;56;47;56;47;56;47;56;47;56;47;56;47;55;75;32;119;32;45;32;45;32;48;32;49].
Definition sixQueens : position := posOf sixQueensFEN.

Lemma matid_overflow_refuted :
  exists p, Consistent zk0 p /\ readFEN zk0 sixQueensFEN = FenOk p /\ fitsInt (matId p) = false /\
            matId p = 2321154048%Z /\ wrapInt (matId p) = (-1973813248)%Z.
Proof.
  exists sixQueens. split; [apply consistentb_sound; vm_compute; reflexivity|].
  split; [vm_compute; reflexivity|]. split; [vm_compute; reflexivity|]. split; vm_compute; reflexivity.
Qed.

(** serialisation keeps 8 bits of the half-move clock and 16 of the move number (finding F6) *)
(** "4k3/8/8/8/8/8/8/4K3 w - - 300 1" and "... 0 70000" *)
Definition kk300FEN : list N :=
  [52;107;51;47;56;47;56;47;56;47;56;47;56;47;56;47;52;75;51;32;119;32;45;32;45;32;51;48;48;32;49].
Definition kk70000FEN : list N :=
  [52;107;51;47;56;47;56;47;56;47;56;47;56;47;56;47;52;75;51;32;119;32;45;32;45;32;48;32;55;48;48;48;48].

Lemma serialize_roundtrip_refuted :
  (exists p, readFEN zk0 kk300FEN = FenOk p /\ Consistent zk0 p /\ halfMoveClock p = 300%Z /\
             halfMoveClock (deSerialize zk0 (serialize p)) = 44%Z) /\
  (exists p, readFEN zk0 kk70000FEN = FenOk p /\ Consistent zk0 p /\ fullMoveCounter p = 70000%Z /\
             fullMoveCounter (deSerialize zk0 (serialize p)) = 4464%Z).
Proof.
  split.
  - exists (posOf kk300FEN). split; [vm_compute; reflexivity|]. split; [apply consistentb_sound; vm_compute; reflexivity|].
    split; vm_compute; reflexivity.
  - exists (posOf kk70000FEN). split; [vm_compute; reflexivity|]. split; [apply consistentb_sound; vm_compute; reflexivity|].
    split; vm_compute; reflexivity.
Qed.

(** round trips on concrete positions (examples, not the general theorems) *)
Example serialize_roundtrip_example : normEmpty (deSerialize zk0 (serialize startPos)) = normEmpty startPos.
Proof. vm_compute. reflexivity. Qed.
Example fen_roundtrip_example : toFEN startPos = startFEN /\ readFEN zk0 (toFEN startPos) = FenOk startPos.
Proof. split; vm_compute; reflexivity. Qed.
