From Coq Require Import ZArith List Bool Arith Lia.
From Texel Require Import Workers.Workers Workers.WorkersLemmas Workers.WorkersInv Workers.WorkersInvProofs.
Import ListNotations.
Section P.
Variable N : nat.
Variable parent : tid -> option tid.
Hypothesis Htree : tree_ok N parent.
Notation InvE := (InvE N parent).
Notation lstep := (lstep N parent).
Notation children := (children N parent).
Notation helper := (helper N).
Notation npending := (npending N parent).

Ltac phase_facts I :=
  let ph := fresh "ph" in let E1 := fresh "Eph" in let E2 := fresh "Eeq" in
  destruct (e_phase _ _ _ I) as (ph & E1 & E2);
  match goal with Hpc : pc (th _ 0) = _ |- _ => rewrite Hpc in E1 end; simpl in E1;
  try discriminate; injection E1 as <-; simpl in E2.
Ltac bar_facts :=
  match goal with Hb : (wc _ =? 0)%Z && negb (self _) = true |- _ =>
    let Hw := fresh "Hw" in let Hs := fresh "Hs" in
    apply andb_prop in Hb; destruct Hb as [Hw Hs]; apply Z.eqb_eq in Hw; apply negb_true_iff in Hs end.

Lemma stop_head_lag : forall s c p r, InvE s -> helper c -> parent c = Some p -> qu s c = CStop :: r ->
  se (th s c) = ae (th s 0) /\ se (th s p) = S (ae (th s 0)) /\ se (th s 0) = S (ae (th s 0)) /\
  stops r = 0 /\ owes (pc (th s p)) c = false.
Proof.
  intros s c p r I Hc Hp Hq.
  pose proof (e_s1 _ _ _ I c p Hc Hp) as S1. rewrite Hq, stops_cons in S1. simpl in S1.
  destruct (parent_le N parent Htree c p Hc Hp) as (HpN & _).
  destruct (e_g1 _ _ _ I p HpN). destruct (e_g1 _ _ _ I c (helper_le N _ Hc)).
  destruct (inv_se0 N parent s I) as (? & ? & ? & ?).
  destruct (owes (pc (th s p)) c); simpl in S1; repeat split; try lia; auto.
Qed.

Lemma step_g1 : forall s lb s', InvE s -> lstep s lb = Some s' ->
  forall t, t <= N -> ae (th s' 0) <= se (th s' t) /\ se (th s' t) <= se (th s' 0).
Proof.
  intros s lb s' I H t Ht.
  pose proof (e_g1 _ _ _ I t Ht) as G1.
  pose proof (e_g1 _ _ _ I) as G1a.
  step_inv_fine H; crunch; try lia.
  all: try match goal with
    | Hq : qu ?s0 (S ?c) = CStop :: _, Hp : parent (S ?c) = Some ?p, Hl : Nat.leb (S ?c) N = true |- _ =>
        destruct (stop_head_lag s0 (S c) p _ I (helper_leb N _ Hl) Hp Hq) as (? & ? & ? & ? & ?); lia
    end.
  all: phase_facts I.
  all: bar_facts.
  - lia.
  - assert (helper t) by (unfold WorkersInv.helper; lia).
    destruct (barrier_all N parent Htree s I Hw t t (le_n _) H). lia.
Qed.
End P.
