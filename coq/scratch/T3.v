From Coq Require Import ZArith NArith Lia.
Local Open Scope N_scope.
Goal forall e, e < 64 -> e / 8 = 5 -> 6 * 8 + e mod 8 = e + 8.
Proof. intros. pose proof (N.div_mod e 8 ltac:(lia)). pose proof (N.mod_lt e 8 ltac:(lia)). lia. Qed.
Goal forall e, e < 64 -> e / 8 = 5 -> 6 * 8 + e mod 8 = e + 8.
Proof. intros. zify. Z.div_mod_to_equations. lia. Qed.
