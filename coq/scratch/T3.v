From Coq Require Import List Bool.
From Texel Require Import Ctl.Uci Ctl.Engine Ctl.Dec Ctl.CtlSpec Ctl.Reach Ctl.CtlInv.
Import ListNotations.
Definition cnt (f : pst -> bool) g := length (filter f (reachset g)).
Time Eval vm_compute in (
  cnt (fun p => stopping (fst p)) false, cnt (fun p => quitting (fst p)) false,
  cnt (fun p => uci_blocked (fst p)) false, cnt (fun p => snd p) false,
  cnt (fun p => crashed (fst p)) false, cnt (fun p => crashed (fst p)) true,
  cnt (fun p => exited (fst p)) true, cnt (fun p => Nat.eqb (outstanding (fst p)) 2) true,
  cnt (fun p => head_reads_options (fst p)) true,
  fold_left Nat.max (map (fun p => rank (fst p)) (reachset true)) 0,
  fold_left Nat.max (map (fun p => esim 63 (fst p)) (reachset true)) 0).
