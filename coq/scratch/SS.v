(** The hypothesis of the short-form theorems holds for the FIDE specification's move lists:
    every pseudo-legal move of [Spec.pseudo_moves] (hence every legal move) on an accepted
    position is a move of the side to move, on the board, promoting only pawns, with the pawn
    geometry of [pawnShapeb]. *)
From Coq Require Import ZArith NArith List Bool Lia ZifyBool.
From Texel Require Import Chess.Types Chess.Position Chess.Fen Chess.Spec
  TextIO.MoveText TextIO.MoveTextFacts.
Import ListNotations.
Local Open Scope Z_scope.
Ltac Zify.zify_post_hook ::= Z.to_euclidean_division_equations.

(* ---------- colours ---------- *)
Lemma color_of_cases : forall pc c, color_of pc = Some c ->
  (c = true /\ (pc = 1 \/ pc = 2 \/ pc = 3 \/ pc = 4 \/ pc = 5 \/ pc = 6)%N) \/
  (c = false /\ (pc = 7 \/ pc = 8 \/ pc = 9 \/ pc = 10 \/ pc = 11 \/ pc = 12)%N).
Proof.
  intros pc c H. destruct pc as [|pp]; [discriminate|].
  do 4 (try destruct pp as [pp|pp|]); cbn in H; try discriminate; inversion H; subst; cbn; intuition lia.
Qed.

Lemma has_color_own : forall w pc, has_color w pc = true -> ownPieceb w pc = true.
Proof.
  intros w pc H. unfold has_color in H. destruct (color_of pc) as [c|] eqn:E; [|discriminate].
  apply Bool.eqb_prop in H. subst c. apply color_of_cases in E.
  destruct E as [[-> C]|[-> C]]; unfold ownPieceb;
    repeat (destruct C as [C|C]; [subst pc; reflexivity|]); subst pc; reflexivity.
Qed.

Lemma has_color_opp : forall w pc, has_color (negb w) pc = true -> has_color w pc = false.
Proof.
  intros w pc H. unfold has_color in *. destruct (color_of pc) as [c|]; [|discriminate].
  apply Bool.eqb_prop in H. subst c. destruct w; reflexivity.
Qed.

Lemma has_color_empty : forall w, has_color w EMPTY = false.
Proof. reflexivity. Qed.

Lemma has_color_not_empty : forall w pc, has_color w pc = true -> pc <> EMPTY.
Proof. intros w pc H E. subst pc. discriminate. Qed.

(* ---------- coordinates and squares ---------- *)
Lemma on_board_bounds : forall f r, on_board f r = true -> 0 <= f <= 7 /\ 0 <= r <= 7.
Proof.
  intros f r H. unfold on_board in H.
  apply andb_true_iff in H. destruct H as [H H4]. apply andb_true_iff in H. destruct H as [H H3].
  apply andb_true_iff in H. destruct H as [H1 H2].
  apply Z.leb_le in H1, H2, H3, H4. lia.
Qed.

Lemma sq_of_lt64 : forall f r, on_board f r = true -> (sq_of f r < 64)%N.
Proof. intros f r H. apply on_board_bounds in H. unfold sq_of. lia. Qed.

Lemma sqX_sq_of : forall f r, on_board f r = true -> sqX (sq_of f r) = Z.to_N f.
Proof. intros f r H. apply on_board_bounds in H. unfold sqX, sq_of. lia. Qed.

Lemma sqY_sq_of : forall f r, on_board f r = true -> sqY (sq_of f r) = Z.to_N r.
Proof. intros f r H. apply on_board_bounds in H. unfold sqY, sq_of. lia. Qed.

Lemma getPiece_at : forall p f r, on_board f r = true -> getPiece p (sq_of f r) = at_ (squares p) f r.
Proof.
  intros p f r H. unfold getPiece, at_. rewrite H. unfold sq_of, idx.
  rewrite Z_N_nat. reflexivity.
Qed.

Lemma sq_of_inj : forall f r f' r', on_board f r = true -> on_board f' r' = true ->
  sq_of f r = sq_of f' r' -> f = f' /\ r = r'.
Proof.
  intros f r f' r' H H' E. apply on_board_bounds in H. apply on_board_bounds in H'. unfold sq_of in E. lia.
Qed.

(* ---------- what the generators of the specification emit ---------- *)
Lemma step_moves_In : forall b w f r offs m, In m (step_moves b w f r offs) ->
  exists f' r', on_board f' r' = true /\ has_color w (at_ b f' r') = false /\ m = mv f r f' r' EMPTY.
Proof.
  intros b w f r offs m H. unfold step_moves in H. apply in_flat_map in H. destruct H as [d [_ H]].
  destruct (on_board (f + fst d) (r + snd d) && negb (has_color w (at_ b (f + fst d) (r + snd d)))) eqn:E; [|destruct H].
  apply andb_true_iff in E. destruct E as [E1 E2]. apply negb_true_iff in E2.
  destruct H as [H|[]]. exists (f + fst d), (r + snd d). auto.
Qed.

Lemma ray_moves_In : forall b w fuel f0 r0 f r df dr m, In m (ray_moves b w fuel f0 r0 f r df dr) ->
  exists f' r', on_board f' r' = true /\ has_color w (at_ b f' r') = false /\ m = mv f0 r0 f' r' EMPTY.
Proof.
  intros b w fuel. induction fuel as [|k IH]; intros f0 r0 f r df dr m H; [destruct H|].
  cbn [ray_moves] in H.
  destruct (on_board (f + df) (r + dr)) eqn:EB; [|destruct H].
  destruct (N.eqb (at_ b (f + df) (r + dr)) EMPTY) eqn:EE.
  - destruct H as [H|H].
    + exists (f + df), (r + dr). apply N.eqb_eq in EE. rewrite EE. auto.
    + eapply IH; exact H.
  - destruct (has_color (negb w) (at_ b (f + df) (r + dr))) eqn:EC; [|destruct H].
    destruct H as [H|[]]. exists (f + df), (r + dr). repeat split; auto. apply has_color_opp; exact EC.
Qed.

Lemma slider_moves_In : forall b w f r dirs m, In m (slider_moves b w f r dirs) ->
  exists f' r', on_board f' r' = true /\ has_color w (at_ b f' r') = false /\ m = mv f r f' r' EMPTY.
Proof.
  intros b w f r dirs m H. unfold slider_moves in H. apply in_flat_map in H. destruct H as [d [_ H]].
  eapply ray_moves_In; exact H.
Qed.

Lemma pawn_arrive_In : forall w f r f' r' m, In m (pawn_arrive w f r f' r') ->
  m = mv f r f' r' (mpromote m) /\ ownPromob w (mpromote m) = true.
Proof.
  intros w f r f' r' m H. unfold pawn_arrive in H.
  destruct (r' =? (if w then 7 else 0)).
  - destruct H as [H|[H|[H|[H|[]]]]]; subst m; cbn [mpromote mv]; (split; [reflexivity|destruct w; reflexivity]).
  - destruct H as [H|[]]. subst m. split; reflexivity.
Qed.

(* ---------- from specification moves to the boolean hypothesis ---------- *)
Section OnPosition.
Variable p : position.
Let b := squares p.
Let w := whiteMove p.
Let dr : Z := if w then 1 else -1.

(** the en-passant part of [Spec.accepted] *)
Definition epOK : Prop :=
  epSquare p = -1 \/
  (0 <= epSquare p < 64 /\ epSquare p / 8 = (if w then 5 else 2) /\
   at_ b (epSquare p mod 8) (if w then 4 else 3) = mk_piece (negb w) Pawn).

Lemma accepted_epOK : accepted (abs p) = true -> epOK.
Proof.
  intro H. unfold accepted in H. apply andb_true_iff in H. destruct H as [_ H].
  cbn [sp_ep sp_board sp_white abs] in H. fold b in H. fold w in H.
  apply orb_true_iff in H. destruct H as [H|H]; [left; apply Z.eqb_eq; exact H|right].
  apply andb_true_iff in H. destruct H as [H H3]. apply andb_true_iff in H. destruct H as [H1 H2].
  apply Z.leb_le in H1. apply Z.ltb_lt in H2. cbv zeta in H3.
  apply andb_true_iff in H3. destruct H3 as [H3 H5]. apply andb_true_iff in H3. destruct H3 as [H3 _].
  apply Z.eqb_eq in H3. unfold is_piece in H5. apply N.eqb_eq in H5. auto.
Qed.

Lemma ownPawn_mk : ownPawn p = mk_piece w Pawn.
Proof. unfold ownPawn. fold w. destruct w; reflexivity. Qed.

Lemma ownPiece_pawn : ownPieceb w (ownPawn p) = true.
Proof. unfold ownPawn. fold w. destruct w; reflexivity. Qed.

Lemma not_empty_move : forall f r f' r' pr, on_board f r = true -> on_board f' r' = true ->
  (f <> f' \/ r <> r') -> isEmptyMove (mv f r f' r' pr) = false.
Proof.
  intros f r f' r' pr H H' D. unfold isEmptyMove, mv. cbn [mfrom mto].
  destruct (N.eqb_spec (sq_of f r) 0) as [E1|E1]; [|reflexivity].
  destruct (N.eqb_spec (sq_of f' r') 0) as [E2|E2]; [|reflexivity].
  exfalso. destruct (sq_of_inj f r f' r' H H') as [A B]; [congruence|]. lia.
Qed.

(** king, queen, rook, bishop, knight moves and castling *)
Lemma nonpawn_ok : forall f r f' r',
  on_board f r = true -> on_board f' r' = true ->
  has_color w (at_ b f r) = true -> has_color w (at_ b f' r') = false ->
  N.eqb (at_ b f r) (ownPawn p) = false ->
  shortOKb p (mv f r f' r' EMPTY) = true.
Proof.
  intros f r f' r' H H' HC HC' HP.
  unfold shortOKb, moveOKb, mv. cbn [mfrom mto mpromote].
  rewrite (getPiece_at p f r H). fold b. rewrite HP.
  rewrite (proj2 (N.ltb_lt _ _) (sq_of_lt64 f r H)), (proj2 (N.ltb_lt _ _) (sq_of_lt64 f' r' H')).
  fold w. rewrite (has_color_own w _ HC). cbn [andb N.eqb EMPTY].
  assert (f <> f' \/ r <> r') as D.
  { destruct (Z.eq_dec f f') as [->|]; [|left; assumption]. destruct (Z.eq_dec r r') as [->|]; [|right; assumption].
    congruence. }
  pose proof (not_empty_move f r f' r' EMPTY H H' D) as NE. unfold mv in NE. rewrite NE. reflexivity.
Qed.

Lemma to_ne_ep_straight : forall f r r', epOK ->
  on_board f r = true -> on_board f r' = true -> at_ b f r = ownPawn p ->
  (r' = r + dr \/ (r' = r + 2 * dr /\ at_ b f (r + dr) = EMPTY)) ->
  (Z.of_N (sq_of f r') =? epSquare p) = false.
Proof.
  intros f r r' HE H H' HP G. apply Z.eqb_neq. intro E.
  apply on_board_bounds in H. apply on_board_bounds in H'.
  assert (Z.of_N (sq_of f r') = r' * 8 + f) as S by (unfold sq_of; lia).
  destruct HE as [HE|[HR [HY HA]]]; [lia|].
  assert (epSquare p mod 8 = f) as M by lia. assert (epSquare p / 8 = r') as Q by lia.
  rewrite M in HA. rewrite ownPawn_mk in HP. unfold dr in G.
  destruct w; cbn [negb mk_piece] in *.
  - destruct G as [G|[G G2]].
    + assert (r = 4) by lia. subst r. rewrite HP in HA. discriminate.
    + assert (r + 1 = 4) as R by lia. rewrite R in G2. rewrite G2 in HA. discriminate.
  - destruct G as [G|[G G2]].
    + assert (r = 3) by lia. subst r. rewrite HP in HA. discriminate.
    + assert (r + -1 = 3) as R by lia. rewrite R in G2. rewrite G2 in HA. discriminate.
Qed.

Lemma pawn_straight_ok : forall f r r' pr, epOK ->
  on_board f r = true -> on_board f r' = true -> at_ b f r = ownPawn p -> at_ b f r' = EMPTY ->
  ownPromob w pr = true ->
  (r' = r + dr \/ (r' = r + 2 * dr /\ at_ b f (r + dr) = EMPTY /\ on_board f (r + dr) = true)) ->
  shortOKb p (mv f r f r' pr) = true.
Proof.
  intros f r r' pr HE H H' HP HT HPR G.
  assert (G' : r' = r + dr \/ (r' = r + 2 * dr /\ at_ b f (r + dr) = EMPTY)) by (destruct G as [G|[G [G2 _]]]; auto).
  pose proof (to_ne_ep_straight f r r' HE H H' HP G') as NEP.
  unfold shortOKb, moveOKb, pawnShapeb, isCapture, mv. cbn [mfrom mto mpromote].
  rewrite (getPiece_at p f r H), (getPiece_at p f r' H'). fold b. rewrite HP, HT, N.eqb_refl. fold w.
  rewrite (proj2 (N.ltb_lt _ _) (sq_of_lt64 f r H)), (proj2 (N.ltb_lt _ _) (sq_of_lt64 f r' H')).
  rewrite ownPiece_pawn, HPR, NEP. cbn [andb orb negb N.eqb EMPTY].
  assert (r <> r') as D by (unfold dr in G'; destruct w; lia).
  pose proof (not_empty_move f r f r' pr H H' (or_intror D)) as NE. unfold mv in NE. rewrite NE.
  rewrite (sqX_sq_of f r H), (sqX_sq_of f r' H'), N.eqb_refl. cbn [andb negb].
  pose proof (on_board_bounds f r H) as B1. pose proof (on_board_bounds f r' H') as B2.
  unfold dr in G. destruct w.
  - destruct G as [G|[G [G2 G3]]].
    + assert (sq_of f r' = (sq_of f r + 8)%N) as -> by (unfold sq_of; lia). rewrite N.eqb_refl. reflexivity.
    + assert (sq_of f r' = (sq_of f r + 16)%N) as -> by (unfold sq_of; lia). rewrite N.eqb_refl.
      assert ((sq_of f r + 8)%N = sq_of f (r + 1)) as -> by (unfold sq_of; lia).
      rewrite (getPiece_at p f (r + 1) G3). fold b. rewrite G2. cbn. apply orb_true_r.
  - destruct G as [G|[G [G2 G3]]].
    + assert (sq_of f r = (sq_of f r' + 8)%N) as -> by (unfold sq_of; lia). rewrite N.eqb_refl. reflexivity.
    + assert (sq_of f r = (sq_of f r' + 16)%N) as -> by (unfold sq_of; lia). rewrite N.eqb_refl.
      assert ((sq_of f r' + 8)%N = sq_of f (r + -1)) as -> by (unfold sq_of; lia).
      rewrite (getPiece_at p f (r + -1) G3). fold b. rewrite G2. cbn. apply orb_true_r.
Qed.

Lemma pawn_diag_ok : forall f r f' r' pr,
  on_board f r = true -> on_board f' r' = true -> at_ b f r = ownPawn p ->
  (f' = f - 1 \/ f' = f + 1) -> r' = r + dr ->
  (has_color (negb w) (at_ b f' r') = true \/ Z.of_N (sq_of f' r') = epSquare p) ->
  ownPromob w pr = true ->
  shortOKb p (mv f r f' r' pr) = true.
Proof.
  intros f r f' r' pr H H' HP HF HR HC HPR.
  unfold shortOKb, moveOKb, pawnShapeb, isCapture, mv. cbn [mfrom mto mpromote].
  rewrite (getPiece_at p f r H), (getPiece_at p f' r' H'). fold b. rewrite HP, N.eqb_refl. fold w.
  rewrite (proj2 (N.ltb_lt _ _) (sq_of_lt64 f r H)), (proj2 (N.ltb_lt _ _) (sq_of_lt64 f' r' H')).
  rewrite ownPiece_pawn, HPR. cbn [andb].
  assert (f <> f') as D by lia.
  pose proof (not_empty_move f r f' r' pr H H' (or_introl D)) as NE. unfold mv in NE. rewrite NE.
  rewrite (sqX_sq_of f r H), (sqX_sq_of f' r' H'), (sqY_sq_of f r H), (sqY_sq_of f' r' H').
  pose proof (on_board_bounds f r H) as B1. pose proof (on_board_bounds f' r' H') as B2.
  assert ((Z.to_N f' =? Z.to_N f)%N = false) as -> by (apply N.eqb_neq; lia).
  assert ((negb (at_ b f' r' =? EMPTY)%N || (Z.of_N (sq_of f' r') =? epSquare p)) = true) as ->.
  { destruct HC as [HC|HC].
    - destruct (N.eqb_spec (at_ b f' r') EMPTY) as [E|E]; [rewrite E in HC; discriminate|reflexivity].
    - rewrite (proj2 (Z.eqb_eq _ _) HC). apply orb_true_r. }
  cbn [negb andb]. unfold dr in HR. destruct w; apply N.eqb_eq; lia.
Qed.

(** every pawn move of the specification *)
Lemma pawn_moves_ok : forall f r m, epOK -> on_board f r = true -> at_ b f r = ownPawn p ->
  In m (pawn_moves (abs p) f r) -> shortOKb p m = true.
Proof.
  intros f r m HE H HP Hin. unfold pawn_moves in Hin.
  cbn [sp_board sp_white sp_ep abs] in Hin. fold b in Hin. fold w in Hin. fold dr in Hin.
  apply in_app_or in Hin. destruct Hin as [Hin|Hin].
  - (* pushes *)
    destruct (on_board f (r + dr) && N.eqb (at_ b f (r + dr)) EMPTY) eqn:E1; [|destruct Hin].
    apply andb_true_iff in E1. destruct E1 as [E1 E2]. apply N.eqb_eq in E2.
    apply in_app_or in Hin. destruct Hin as [Hin|Hin].
    + apply pawn_arrive_In in Hin. destruct Hin as [-> HPR].
      apply pawn_straight_ok; auto.
    + destruct ((r =? (if w then 1 else 6)) && N.eqb (at_ b f (r + dr + dr)) EMPTY) eqn:E3; [|destruct Hin].
      apply andb_true_iff in E3. destruct E3 as [E3 E4]. apply Z.eqb_eq in E3. apply N.eqb_eq in E4.
      destruct Hin as [<-|[]].
      assert (on_board f (r + dr + dr) = true) as OB.
      { apply on_board_bounds in H. unfold on_board, dr. destruct w; lia. }
      apply (pawn_straight_ok f r (r + dr + dr) EMPTY HE H OB HP E4).
      * destruct w; reflexivity.
      * right. repeat split; auto. lia.
  - (* captures *)
    assert (forall f', (f' = f - 1 \/ f' = f + 1) ->
              In m (if on_board f' (r + dr)
                    then if has_color (negb w) (at_ b f' (r + dr)) then pawn_arrive w f r f' (r + dr)
                         else if (Z.of_N (sq_of f' (r + dr)) =? epSquare p) && N.eqb (at_ b f' (r + dr)) EMPTY
                              then [mv f r f' (r + dr) EMPTY] else []
                    else []) -> shortOKb p m = true) as Hcap.
    { intros f' HF Hm. destruct (on_board f' (r + dr)) eqn:OB; [|destruct Hm].
      destruct (has_color (negb w) (at_ b f' (r + dr))) eqn:EC.
      - apply pawn_arrive_In in Hm. destruct Hm as [-> HPR]. apply pawn_diag_ok; auto.
      - destruct ((Z.of_N (sq_of f' (r + dr)) =? epSquare p) && N.eqb (at_ b f' (r + dr)) EMPTY) eqn:EE; [|destruct Hm].
        apply andb_true_iff in EE. destruct EE as [EE _]. apply Z.eqb_eq in EE.
        destruct Hm as [<-|[]]. apply pawn_diag_ok; auto. }
    apply in_app_or in Hin. destruct Hin as [Hin|Hin]; [apply (Hcap (f - 1))|apply (Hcap (f + 1))]; auto.
Qed.

End OnPosition.

(* ---------- all pseudo-legal moves of the specification ---------- *)
Lemma all_coords_on_board : forall c, In c all_coords -> on_board (fst c) (snd c) = true.
Proof.
  assert (forallb (fun c => on_board (fst c) (snd c)) all_coords = true) as H by (vm_compute; reflexivity).
  intros c Hc. exact (proj1 (forallb_forall _ _) H c Hc).
Qed.

Lemma color_kind_piece : forall w pc k, has_color w pc = true -> kind_of pc = Some k -> pc = mk_piece w k.
Proof.
  intros w pc k H K. unfold has_color in H. destruct (color_of pc) as [c|] eqn:E; [|discriminate].
  apply Bool.eqb_prop in H. subst c. apply color_of_cases in E.
  destruct E as [[-> C]|[-> C]];
    repeat (destruct C as [C|C]; [subst pc; cbn in K; inversion K; reflexivity|]);
    subst pc; cbn in K; inversion K; reflexivity.
Qed.

Section Assembly.
Variable p : position.
Let b := squares p.
Let w := whiteMove p.
Hypothesis HE : epOK p.

Lemma piece_moves_ok : forall c m, In c all_coords -> In m (piece_moves (abs p) (fst c) (snd c)) ->
  shortOKb p m = true.
Proof.
  intros [f r] m Hc Hm. pose proof (all_coords_on_board _ Hc) as OB. cbn [fst snd] in *.
  unfold piece_moves in Hm. cbn [sp_board sp_white abs] in Hm. fold b in Hm. fold w in Hm.
  destruct (has_color w (at_ b f r)) eqn:HC; [|destruct Hm].
  destruct (kind_of (at_ b f r)) as [k|] eqn:K; [|destruct Hm].
  pose proof (color_kind_piece w _ k HC K) as PC.
  assert (NP : k <> Pawn -> N.eqb (at_ b f r) (ownPawn p) = false).
  { intro NK. rewrite PC, (ownPawn_mk p). fold w. destruct w, k; try reflexivity; contradiction. }
  destruct k.
  - apply step_moves_In in Hm. destruct Hm as [f' [r' [H1 [H2 ->]]]]. apply nonpawn_ok; auto; try (apply NP; discriminate).
  - apply slider_moves_In in Hm. destruct Hm as [f' [r' [H1 [H2 ->]]]]. apply nonpawn_ok; auto; try (apply NP; discriminate).
  - apply slider_moves_In in Hm. destruct Hm as [f' [r' [H1 [H2 ->]]]]. apply nonpawn_ok; auto; try (apply NP; discriminate).
  - apply slider_moves_In in Hm. destruct Hm as [f' [r' [H1 [H2 ->]]]]. apply nonpawn_ok; auto; try (apply NP; discriminate).
  - apply step_moves_In in Hm. destruct Hm as [f' [r' [H1 [H2 ->]]]]. apply nonpawn_ok; auto; try (apply NP; discriminate).
  - apply (pawn_moves_ok p f r m HE OB); auto; try (rewrite PC, (ownPawn_mk p); reflexivity).
Qed.

Lemma castle_moves_ok : forall m, In m (castle_moves (abs p)) -> shortOKb p m = true.
Proof.
  intros m Hm. unfold castle_moves in Hm. cbv zeta beta in Hm. cbn [sp_board sp_white abs] in Hm. fold b in Hm. fold w in Hm.
  set (r := if w then 0 else 7) in *.
  assert (OB : forall f, 0 <= f <= 7 -> on_board f r = true).
  { intros f Hf. unfold on_board, r. destruct w; lia. }
  destruct (is_piece w King (at_ b 4 r) && negb (attacked_by b (negb w) 4 r)) eqn:EK; [|destruct Hm].
  apply andb_true_iff in EK. destruct EK as [EK _]. unfold is_piece in EK. apply N.eqb_eq in EK.
  assert (HC : has_color w (at_ b 4 r) = true) by (rewrite EK; destruct w; reflexivity).
  assert (NP : N.eqb (at_ b 4 r) (ownPawn p) = false) by (rewrite EK, (ownPawn_mk p); fold w; destruct w; reflexivity).
  apply in_app_or in Hm. destruct Hm as [Hm|Hm].
  - match type of Hm with In _ (if ?c then _ else _) => destruct c eqn:EC; [|destruct Hm] end.
    destruct Hm as [<-|[]].
    repeat (apply andb_true_iff in EC; destruct EC as [EC ?]).
    apply nonpawn_ok; auto; try (apply OB; lia).
    Show.
  - match type of Hm with In _ (if ?c then _ else _) => destruct c eqn:EC; [|destruct Hm] end.
    destruct Hm as [<-|[]].
    repeat (apply andb_true_iff in EC; destruct EC as [EC ?]).
    apply nonpawn_ok; auto; try (apply OB; lia).
    match goal with H : N.eqb (at_ b 2 r) EMPTY = true |- _ => apply N.eqb_eq in H; rewrite H; reflexivity end.
Qed.

Lemma pseudo_moves_ok : forall m, In m (pseudo_moves (abs p)) -> shortOKb p m = true.
Proof.
  intros m Hm. unfold pseudo_moves in Hm. apply in_app_or in Hm. destruct Hm as [Hm|Hm].
  - apply in_flat_map in Hm. destruct Hm as [c [Hc Hm]]. eapply piece_moves_ok; eauto.
  - apply castle_moves_ok; exact Hm.
Qed.

End Assembly.

(** every legal move of the specification on an accepted position satisfies the per-move part
    of the hypothesis of the short-form theorems *)
Theorem spec_legal_moves_ok : forall p, accepted (abs p) = true ->
  forall m, legal_spec (abs p) m -> shortOKb p m = true.
Proof.
  intros p Hacc m [Hm _]. apply pseudo_moves_ok; [apply accepted_epOK; exact Hacc|exact Hm].
Qed.
