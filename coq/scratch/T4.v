From Coq Require Import ZArith List Bool Arith Lia.
From Texel Require Import Workers.Workers Workers.WorkersLemmas Workers.WorkersInv Workers.WorkersInvProofs.
Import ListNotations.
Section P.
Variable N : nat.
Variable parent : tid -> option tid.
Hypothesis Htree : tree_ok N parent.
Notation InvE := (InvE N parent).
Notation lstep := (lstep N parent).
Notation children := (children N parent).
Notation helper := (helper N).
Notation npending := (npending N parent).
Notation helper_le := (helper_le N).
Notation helper_leb := (helper_leb N).
Notation helper_S := (helper_S N).
Notation inv_se0 := (inv_se0 N parent).
Notation inv_child_le := (inv_child_le N parent).
Notation parent_le := (parent_le N parent Htree).
Notation child_settled := (child_settled N parent).
Notation barrier_all := (barrier_all N parent Htree).
Notation barrier_noacks := (barrier_noacks N parent Htree).
Notation quiet_all := (quiet_all N parent).
Notation stop_head_lag := (stop_head_lag N parent Htree).
Ltac phase_facts' I :=
  let ph := fresh "ph" in let E1 := fresh "Eph" in let E2 := fresh "Eeq" in
  destruct (e_phase _ _ _ I) as (ph & E1 & E2);
  match goal with Hpc : pc (th _ 0) = _ |- _ => rewrite Hpc in E1 end; simpl in E1;
  repeat match type of E1 with context [match ?x with _ => _ end] => destruct x; try discriminate end;
  try discriminate; injection E1 as <-; simpl in E2.

Ltac stop_facts I :=
  match goal with
  | Hq : qu ?s0 (S ?c) = CStop :: _, Hp : parent (S ?c) = Some ?p, Hl : Nat.leb (S ?c) N = true |- _ =>
      destruct (stop_head_lag s0 (S c) p _ I (helper_leb _ Hl) Hp Hq) as (? & ? & ? & ? & ?)
  end.
Ltac sendack_facts I :=
  match goal with
  | Hpc : pc (th ?s0 (S ?t)) = PSend (CStopAck _) _ , Hl : Nat.leb (S ?t) N = true |- _ =>
      let X := fresh in pose proof (e_a2 _ _ _ I (S t) (helper_leb _ Hl)) as X; rewrite Hpc in X;
      specialize (X eq_refl); destruct X as (? & ? & ?)
  | Hpc : pc (th ?s0 (S ?t)) = PSendW _ , Hl : Nat.leb (S ?t) N = true |- _ =>
      let X := fresh in pose proof (e_a2 _ _ _ I (S t) (helper_leb _ Hl)) as X; rewrite Hpc in X;
      specialize (X eq_refl); destruct X as (? & ? & ?)
  end.

Ltac use_eqs :=
  repeat match goal with
  | Hpc : pc (th _ _) = _ |- _ => rewrite Hpc in *
  | Hq : qu _ _ = _ |- _ => rewrite Hq in *
  end.
Lemma step_s1 : forall s lb s', InvE s -> lstep s lb = Some s' ->
  forall c p, helper c -> parent c = Some p ->
    se (th s' p) = se (th s' c) + stops (qu s' c) + b2n (owes (pc (th s' p)) c).
Proof.
  intros s lb s' I H c p Hc Hp.
  pose proof (e_s1 _ _ _ I c p Hc Hp) as S1.
  assert (Hc0 : c <> 0) by (unfold WorkersInv.helper in Hc; lia).
  destruct (parent_le c p Hc Hp) as (HpN & Hpc).
  step_inv_fine H; crunch; use_eqs; rewrite ?stops_app, ?stops_purge, ?stops_cons in *; cbn [is_stop owes b2n stops filter length] in *; try lia.
  Show.
Abort.
End P.
