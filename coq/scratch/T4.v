From Texel Require Import RevGen.RevCand.
Check promo_pawn. Check boardQ. Check whiteMove_q. Check sqsQ_t. Check sqsQ_f. Check Hlen. Check cmQ_bits. Check castle_which. Check q_abs. Check own_pc. Check king_is_own. Check pawn_is_own. Check cap_not_own. Check own_newpc.
