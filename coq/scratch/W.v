From Coq Require Import ZArith NArith List Bool.
From Texel Require Import gen.BookConsts BookGraph.NMap BookGraph.BookGraph BookGraph.Equations.
Import ListNotations.
Local Open Scope Z_scope.
Definition bd0 := mkBD 100 200 50.
Definition w_ops : list op := [OpAdd 2 200 [(10%N, 1%N)] []; OpAdd 3 300 [(20%N, 2%N)] [];
  OpSet 1 0 17 100; OpSet 2 0 (-16) 100; OpSet 3 0 17 10; OpSet 3 0 10 10].
Eval vm_compute in (check_all bd0 (run false bd0 (newBook 1 100) w_ops), bk_err (run false bd0 (newBook 1 100) w_ops)).
Eval vm_compute in (check_all bd0 (run true bd0 (newBook 1 100) w_ops)).
Eval vm_compute in (score_of (run false bd0 (newBook 1 100) w_ops) 2, score_of (run true bd0 (newBook 1 100) w_ops) 2).
Eval vm_compute in (acyclic_check (run false bd0 (newBook 1 100) w_ops)).
