From Coq Require Import ZArith NArith List Bool Lia.
From Texel Require Import Chess.Types Chess.Position Chess.Fen Chess.PositionInst Chess.Spec
  TextIO.MoveText TextIO.MoveTextP TextIO.ParseSweep TextIO.MoveTextFacts TextIO.MoveTextProofs.
Import ListNotations.
Local Open Scope N_scope.
Definition posOfFen (s : str) : position :=
  match readFEN zk0 s with FenOk p => p | FenErr _ => emptyPosition zk0 end.
Definition fenThreeQueens : str :=
  [56;47;55;107;47;56;47;56;47;56;47;81;55;47;56;47;81;49;81;52;75;32;119;32;45;32;45;32;48;32;49].
Eval vm_compute in (let p := posOfFen fenThreeQueens in (squares p, length (legalOf p), moveToStringP p (mkMove 0 18 EMPTY) false, moveToStringP p (mkMove 16 18 EMPTY) false,moveToStringP p (mkMove 2 18 EMPTY) false, stringToMoveP p [ch_Q; 97; 49; 99; 51], forallb (shortOKb p) (legalOf p))).
Definition fenCapturePromo : str :=
  [51;114;49;107;50;47;52;80;51;47;56;47;56;47;56;47;56;47;56;47;52;75;51;32;119;32;45;32;45;32;48;32;49].
Definition fenCastleEp : str :=
  [114;51;107;50;114;47;56;47;56;47;51;112;80;51;47;56;47;56;47;56;47;82;51;75;50;82;32;119;32;75;81;107;113;32;100;54;32;48;32;50].
Eval vm_compute in (let p := posOfFen fenCapturePromo in (map (fun m => (m, moveToStringP p m false)) (legalOf p), moveToStringP p (mkMove 52 59 WQUEEN) true, forallb (shortOKb p) (legalOf p))).
Eval vm_compute in (let p := posOfFen fenCastleEp in (epSquare p, map (fun m => (m, moveToStringP p m false)) (legalOf p), forallb (shortOKb p) (legalOf p))).
