From Coq Require Import NArith.
Check N.ldiff_ones_r_low. Check N.log2_lt_pow2. Check N.sub_nocarry_ldiff. Check N.testbit_odd_succ. Check N.testbit_even_succ.
