(** C11 — proofs about the console game adjudication (Game::getGameState, insufficientMaterial,
    handleDrawCmd) against the rules of DrawSpec.v. *)
From Coq Require Import ZArith NArith List Bool Lia.
From Texel Require Import Draw.Draw Draw.DrawSpec.
Import ListNotations.
Local Open Scope Z_scope.

(** * Dead material *)
Theorem insufficientMaterial_spec : forall m, insufficientMaterial m = true <-> deadMaterial m.
Proof.
  intro m. unfold insufficientMaterial, deadMaterial.
  destruct (nWQ m =? 0)%N eqn:E1; cbn [negb]; [apply N.eqb_eq in E1|apply N.eqb_neq in E1; split; [discriminate|tauto]].
  destruct (nWR m =? 0)%N eqn:E2; cbn [negb]; [apply N.eqb_eq in E2|apply N.eqb_neq in E2; split; [discriminate|tauto]].
  destruct (nWP m =? 0)%N eqn:E3; cbn [negb]; [apply N.eqb_eq in E3|apply N.eqb_neq in E3; split; [discriminate|tauto]].
  destruct (nBQ m =? 0)%N eqn:E4; cbn [negb]; [apply N.eqb_eq in E4|apply N.eqb_neq in E4; split; [discriminate|tauto]].
  destruct (nBR m =? 0)%N eqn:E5; cbn [negb]; [apply N.eqb_eq in E5|apply N.eqb_neq in E5; split; [discriminate|tauto]].
  destruct (nBP m =? 0)%N eqn:E6; cbn [negb]; [apply N.eqb_eq in E6|apply N.eqb_neq in E6; split; [discriminate|tauto]].
  destruct (nWB m + nWN m + nBB m + nBN m <=? 1)%N eqn:E7.
  - apply N.leb_le in E7. split; [intros _|reflexivity]. tauto.
  - apply N.leb_gt in E7.
    destruct (nWN m + nBN m =? 0)%N eqn:E8.
    + apply N.eqb_eq in E8.
      destruct (bishDark m =? 0)%N eqn:E9; cbn [orb].
      * apply N.eqb_eq in E9. split; [intros _|reflexivity].
        split; [tauto|]. right. split; [lia|auto].
      * apply N.eqb_neq in E9. destruct (bishLight m =? 0)%N eqn:E10.
        -- apply N.eqb_eq in E10. split; [intros _|reflexivity].
           split; [tauto|]. right. split; [lia|auto].
        -- apply N.eqb_neq in E10. split; [discriminate|].
           intros [_ [H|[_ [H|H]]]]; [lia|contradiction|contradiction].
    + apply N.eqb_neq in E8. split; [discriminate|].
      intros [_ [H|[[H1 H2] _]]]; lia.
Qed.

(** * Game state *)
Lemma gameState_eqb_eq : forall a b, gameState_eqb a b = true <-> a = b.
Proof. intros a b. destruct a, b; cbn; split; intro H; (reflexivity || discriminate). Qed.

Theorem getGameState_rule : forall p r d, stateRule p r d (getGameState p r d).
Proof.
  intros p r d. unfold getGameState.
  destruct (a_nLegal p =? 0)%N eqn:E.
  - apply N.eqb_eq in E. destruct (a_inCheck p) eqn:Ec; [apply SR_mate|apply SR_stalemate]; assumption.
  - apply N.eqb_neq in E.
    destruct (insufficientMaterial (a_mat p)) eqn:Em.
    + apply SR_dead; [assumption|]. apply insufficientMaterial_spec. assumption.
    + assert (~ deadMaterial (a_mat p)) by (rewrite <- insufficientMaterial_spec; congruence).
      destruct (gameState_eqb r ALIVE) eqn:Er; cbn [negb].
      * apply gameState_eqb_eq in Er. apply SR_other; assumption.
      * apply SR_resign; try assumption. intro Hr. subst r. discriminate.
Qed.

Theorem stateRule_unique : forall p r d s, stateRule p r d s -> s = getGameState p r d.
Proof.
  intros p r d s H. unfold getGameState. inversion H; subst.
  - rewrite H0, H1. reflexivity.
  - rewrite H0, H1. reflexivity.
  - apply N.eqb_neq in H0. rewrite H0.
    apply insufficientMaterial_spec in H1. rewrite H1. reflexivity.
  - apply N.eqb_neq in H0. rewrite H0.
    destruct (insufficientMaterial (a_mat p)) eqn:Em; [apply insufficientMaterial_spec in Em; contradiction|].
    destruct (gameState_eqb s ALIVE) eqn:Er; [apply gameState_eqb_eq in Er; contradiction|reflexivity].
  - apply N.eqb_neq in H0. rewrite H0.
    destruct (insufficientMaterial (a_mat p)) eqn:Em; [apply insufficientMaterial_spec in Em; contradiction|].
    reflexivity.
Qed.

(** * Claims *)
Lemma fold_count : forall (f : absPos -> bool) L n0,
  fold_left (fun n p => if f p then n + 1 else n) L n0 = n0 + Z.of_nat (length (filter f L)).
Proof.
  intros f. induction L as [|a t IH]; intro n0; cbn [fold_left filter]; [cbn; lia|].
  rewrite IH. destruct (f a); cbn [length]; lia.
Qed.

Lemma filter_rev_length : forall (f : absPos -> bool) L, length (filter f (rev L)) = length (filter f L).
Proof.
  intros f. induction L as [|a t IH]; [reflexivity|].
  cbn [rev filter]. rewrite filter_app, app_length, IH. cbn [filter].
  destruct (f a); cbn [length]; lia.
Qed.

Lemma oldPositions_rev : forall g a, oldPositions g a = rev (gamePositions g a).
Proof.
  intros g a. unfold oldPositions, gamePositions.
  rewrite !rev_app_distr. destruct a; reflexivity.
Qed.

Lemma oldPositions_head : forall g a, exists t, oldPositions g a = claimTarget g a :: t.
Proof. intros g a. unfold oldPositions, claimTarget. destruct a; cbn; eauto. Qed.

Theorem repetitions_spec : forall g a, repetitions g a = Z.of_nat (occurrencesInGame g a).
Proof.
  intros g a. unfold repetitions, occurrencesInGame.
  destruct (oldPositions_head g a) as [t E]. rewrite E, <- E.
  rewrite fold_count, oldPositions_rev, filter_rev_length. lia.
Qed.

Theorem repClaimValid_spec : forall g a, repClaimValid g a = true <-> repClaimRule g a.
Proof.
  intros. unfold repClaimValid, repClaimRule. rewrite repetitions_spec, Z.geb_le. lia.
Qed.

Theorem fiftyClaimValid_spec : forall g a, fiftyClaimValid g a = true <-> fiftyClaimRule g a.
Proof.
  intros. unfold fiftyClaimValid, fiftyClaimRule, claimTarget. rewrite Z.geb_le. reflexivity.
Qed.

(** * Whole commands *)

Lemma alive_fields : forall g, gState g = ALIVE ->
  g_resign g = ALIVE /\ g_draw g = ALIVE /\ a_nLegal (g_cur g) <> 0%N /\ ~ deadMaterial (a_mat (g_cur g)).
Proof.
  intros g H. unfold gState in H. pose proof (getGameState_rule (g_cur g) (g_resign g) (g_draw g)) as R.
  rewrite H in R. inversion R; subst.
  - destruct (a_white (g_cur g)); discriminate.
  - destruct (a_white (g_cur g)); discriminate.
  - congruence.
  - tauto.
Qed.

Lemma state_with_draw : forall g d, gState g = ALIVE ->
  getGameState (g_cur g) (g_resign g) d = d.
Proof.
  intros g d H. destruct (alive_fields g H) as [Hr [_ [Hl Hd]]].
  symmetry. apply stateRule_unique. apply SR_other; assumption.
Qed.

Lemma playMove_draw : forall g a, g_draw (fst (playMove g a)) = g_draw g /\ g_resign (fst (playMove g a)) = g_resign g.
Proof. intros. unfold playMove. destruct (negb (gameState_eqb (gState g) ALIVE)); cbn; auto. Qed.

Lemma state_of_alive_fields : forall p, getGameState p ALIVE ALIVE <> DRAW_REP /\ getGameState p ALIVE ALIVE <> DRAW_50
  /\ getGameState p ALIVE ALIVE <> DRAW_AGREE /\ getGameState p ALIVE ALIVE <> RESIGN_WHITE /\ getGameState p ALIVE ALIVE <> RESIGN_BLACK.
Proof.
  intro p. unfold getGameState.
  destruct (a_nLegal p =? 0)%N, (a_inCheck p), (a_white p), (insufficientMaterial (a_mat p)); cbn;
    repeat split; discriminate.
Qed.

(** C11_game_adjudication: in a live game a repetition / 50-move claim ends the game as a draw
    exactly when the rule holds; otherwise the game goes on (the named move is played and a
    draw offer is recorded), and it is never reported as drawn by claim. *)
Theorem claim_adjudication : forall g a, gState g = ALIVE ->
  (gState (fst (processCommand g (CDrawRep a))) = DRAW_REP <-> repClaimRule g a) /\
  (gState (fst (processCommand g (CDraw50 a))) = DRAW_50 <-> fiftyClaimRule g a) /\
  (~ repClaimRule g a ->
     fst (processCommand g (CDrawRep a)) =
     let g1 := mkGame (g_hist g) (g_cur g) (g_resign g) (g_draw g) true (g_offers g) in
     match a with Some p => fst (playMove g1 p) | None => g1 end) /\
  (~ fiftyClaimRule g a ->
     fst (processCommand g (CDraw50 a)) =
     let g1 := mkGame (g_hist g) (g_cur g) (g_resign g) (g_draw g) true (g_offers g) in
     match a with Some p => fst (playMove g1 p) | None => g1 end).
Proof.
  intros g a H. destruct (alive_fields g H) as [Hr [Hd [Hl Hm]]].
  assert (Ha : gameState_eqb (gState g) ALIVE = true) by (rewrite H; reflexivity).
  cbn [processCommand]. rewrite Ha. cbn [fst]. unfold handleDrawClaim.
  assert (NotClaimed : forall g', g_draw g' = ALIVE -> g_resign g' = ALIVE ->
                                  gState g' <> DRAW_REP /\ gState g' <> DRAW_50).
  { intros g' E1 E2. unfold gState. rewrite E1, E2.
    pose proof (state_of_alive_fields (g_cur g')). tauto. }
  assert (Cont : forall g1, g_draw g1 = ALIVE -> g_resign g1 = ALIVE ->
            gState (match a with Some p => fst (playMove g1 p) | None => g1 end) <> DRAW_REP /\
            gState (match a with Some p => fst (playMove g1 p) | None => g1 end) <> DRAW_50).
  { intros g1 E1 E2. destruct a as [p|]; [|apply NotClaimed; assumption].
    destruct (playMove_draw g1 p) as [D R]. apply NotClaimed; congruence. }
  split; [|split; [|split]].
  - destruct (repClaimValid g a) eqn:E.
    + split; [intros _; apply repClaimValid_spec; assumption|intros _].
      unfold gState. cbn [g_cur g_resign g_draw]. apply state_with_draw. assumption.
    + split; [|intro R; apply repClaimValid_spec in R; congruence].
      intro S. exfalso. refine (proj1 (Cont (mkGame _ _ _ _ _ _) _ _) S); assumption.
  - destruct (fiftyClaimValid g a) eqn:E.
    + split; [intros _; apply fiftyClaimValid_spec; assumption|intros _].
      unfold gState. cbn [g_cur g_resign g_draw]. apply state_with_draw. assumption.
    + split; [|intro R; apply fiftyClaimValid_spec in R; congruence].
      intro S. exfalso. refine (proj2 (Cont (mkGame _ _ _ _ _ _) _ _) S); assumption.
  - intro N. destruct (repClaimValid g a) eqn:E; [apply repClaimValid_spec in E; contradiction|reflexivity].
  - intro N. destruct (fiftyClaimValid g a) eqn:E; [apply fiftyClaimValid_spec in E; contradiction|reflexivity].
Qed.

(** claims, resignation and agreement are ignored once the game is over (mate, stalemate, dead
    material or an earlier claim/resignation), and no move is accepted any more *)
Theorem finished_game_is_final : forall g c, gState g <> ALIVE ->
  match c with CUndo => True | _ => fst (processCommand g c) = g end.
Proof.
  intros g c H.
  assert (E : gameState_eqb (gState g) ALIVE = false).
  { destruct (gameState_eqb (gState g) ALIVE) eqn:E; [apply gameState_eqb_eq in E; contradiction|reflexivity]. }
  destruct c; cbn [processCommand]; unfold playMove; rewrite ?E; cbn; auto.
Qed.

(** mate and stalemate are reported whatever was claimed or resigned before (they come first) *)
Theorem mate_first : forall p r d, a_nLegal p = 0%N ->
  getGameState p r d = if a_inCheck p then (if a_white p then BLACK_MATE else WHITE_MATE)
                       else (if a_white p then WHITE_STALEMATE else BLACK_STALEMATE).
Proof. intros p r d H. unfold getGameState. rewrite H. reflexivity. Qed.

(** * Non-vacuity *)
Definition exMat : material := mkMat 1 2 8 1 2 8 2 2 2 2 2 2.
Definition exPos (id : N) (white : bool) (hmc : Z) : absPos := mkAbs id white hmc false 20 exMat.

(** A B A B A: the third A; claim "draw rep" accepted; with only two A's it is not and the game goes on *)
Example claim_example :
  let g3 := mkGame [exPos 1 true 0; exPos 2 false 1; exPos 1 true 2; exPos 2 false 3] (exPos 1 true 4) ALIVE ALIVE false [] in
  let g2 := mkGame [exPos 1 true 0; exPos 2 false 1] (exPos 1 true 2) ALIVE ALIVE false [] in
  gState g3 = ALIVE /\ repClaimRule g3 None /\ gState (fst (processCommand g3 (CDrawRep None))) = DRAW_REP /\
  gState g2 = ALIVE /\ ~ repClaimRule g2 None /\ gState (fst (processCommand g2 (CDrawRep None))) = ALIVE /\
  (* claiming with the move that completes the repetition *)
  gState (fst (processCommand g2 (CDrawRep (Some (exPos 2 false 3))))) = ALIVE /\
  gState (fst (processCommand
     (mkGame [exPos 1 true 0; exPos 2 false 1; exPos 1 true 2] (exPos 2 false 3) ALIVE ALIVE false [])
     (CDrawRep (Some (exPos 1 true 4))))) = DRAW_REP.
Proof.
  cbn zeta. repeat split; try reflexivity.
  - unfold repClaimRule. vm_compute. lia.
  - unfold repClaimRule. vm_compute. lia.
Qed.

Example dead_material_example :
  deadMaterial (mkMat 0 0 0 0 0 0 2 0 1 0 3 0) /\ ~ deadMaterial (mkMat 0 0 0 0 0 0 1 0 1 0 1 1) /\
  deadMaterial (mkMat 0 0 0 0 0 0 0 1 0 0 0 0) /\ ~ deadMaterial (mkMat 0 0 0 0 0 0 0 2 0 0 0 0).
Proof.
  split; [apply insufficientMaterial_spec; reflexivity|].
  split; [intro H; apply insufficientMaterial_spec in H; discriminate|].
  split; [apply insufficientMaterial_spec; reflexivity|].
  intro H; apply insufficientMaterial_spec in H; discriminate.
Qed.
